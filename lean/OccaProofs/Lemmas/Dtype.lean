/-
Helper definitions and lemmas for C10 / C11 (model: OccaModel/Dtype.lean).

  * `Dtype.norm n d`   the value `fromJson (toJson d n)` returns: own name of an enum / tuple /
                       struct / union node replaced by the name given to toJson, names of nested
                       such nodes replaced by "" (dtype::toJson(dtype) passes no name)
  * `Dtype.WF`         what every dtype built through the API satisfies: `prim` names are builtin
                       scalars, enumerators and field names are distinct (addEnumerator / addField
                       reject duplicates)
  * `Dtype.Equiv`      same kind, field names and order, element types, leaf names and sizes
  * the JSON round trip by mutual structural induction
-/
import OccaModel.Dtype

namespace Occa.Dtype
open Occa

/-! ### definitions -/

mutual
  def Dtype.norm : String → Dtype → Dtype
    | _, .prim m => .prim m
    | _, .custom m b => .custom m b
    | n, .enum_ _ b es => .enum_ n b es
    | n, .tuple _ e k => .tuple n (Dtype.norm "" e) k
    | n, .struct _ fs => .struct n fs.norm
    | n, .union_ _ fs => .union_ n fs.norm
  def Fields.norm : Fields → Fields
    | .nil => .nil
    | .cons f d r => .cons f (Dtype.norm "" d) r.norm
end

mutual
  def Dtype.WF : Dtype → Prop
    | .prim n => isPrimName n = true
    | .custom _ _ => True
    | .enum_ _ _ es => es.Nodup
    | .tuple _ e _ => e.WF
    | .struct _ fs => fs.WF ∧ fs.names.Nodup
    | .union_ _ fs => fs.WF ∧ fs.names.Nodup
  def Fields.WF : Fields → Prop
    | .nil => True
    | .cons _ d r => d.WF ∧ r.WF
end

mutual
  /-- same kind, field names and order, element types, leaf names and stored sizes; the own
      names of enum / tuple / struct / union nodes are not compared -/
  def Dtype.Equiv : Dtype → Dtype → Prop
    | .prim n, .prim m => n = m
    | .custom n b, .custom m c => n = m ∧ b = c
    | .enum_ _ b es, .enum_ _ c fs => b = c ∧ es = fs
    | .tuple _ e k, .tuple _ e' k' => k = k' ∧ e.Equiv e'
    | .struct _ fs, .struct _ gs => fs.Equiv gs
    | .union_ _ fs, .union_ _ gs => fs.Equiv gs
    | _, _ => False
  def Fields.Equiv : Fields → Fields → Prop
    | .nil, .nil => True
    | .cons n d r, .cons m e s => n = m ∧ d.Equiv e ∧ r.Equiv s
    | _, _ => False
end

def Fields.append : Fields → Fields → Fields
  | .nil, g => g
  | .cons n d r, g => .cons n d (r.append g)

/-- is the node an enum / tuple / struct / union (its own name is an argument of toJson) -/
def Dtype.isComposite : Dtype → Bool
  | .prim _ => false
  | .custom _ _ => false
  | _ => true

/-! ### small facts -/

theorem Fields.append_nil : (f : Fields) → f.append .nil = f
  | .nil => rfl
  | .cons n d r => by simp [Fields.append, Fields.append_nil r]

theorem Fields.snoc_eq_append : (f : Fields) → (n : String) → (d : Dtype) →
    f.snoc n d = f.append (.cons n d .nil)
  | .nil, _, _ => rfl
  | .cons m e r, n, d => by simp [Fields.snoc, Fields.append, Fields.snoc_eq_append r n d]

theorem Fields.append_assoc : (f g h : Fields) → (f.append g).append h = f.append (g.append h)
  | .nil, _, _ => rfl
  | .cons m e r, g, h => by simp [Fields.append, Fields.append_assoc r g h]

theorem Fields.names_append : (f g : Fields) → (f.append g).names = f.names ++ g.names
  | .nil, _ => rfl
  | .cons m e r, g => by simp [Fields.append, Fields.names, Fields.names_append r g]

theorem Fields.names_norm : (f : Fields) → f.norm.names = f.names
  | .nil => by simp [Fields.norm]
  | .cons m e r => by simp [Fields.norm, Fields.names, Fields.names_norm r]

theorem Dtype.depth_pos (d : Dtype) : 1 ≤ d.depth := by
  cases d <;> simp [Dtype.depth]

theorem strlen_zero {n : String} (h : n.length = 0) : n = "" := String.length_eq_zero_iff.mp h

theorem nameEntry_cases (n : String) :
    (n = "" ∧ nameEntry n = []) ∨ (n ≠ "" ∧ nameEntry n = [("name", Json.str n)]) := by
  unfold nameEntry
  by_cases h : n.length = 0
  · left; exact ⟨strlen_zero h, by simp [h]⟩
  · right
    refine ⟨?_, by simp [h]⟩
    intro e; subst e; simp at h

/-! ### builtins -/

theorem getBuiltin_prim {n : String} (h : isPrimName n = true) :
    getBuiltin n = .prim n ∧ isBuiltinKey n = true := by
  unfold isPrimName at h
  simp only [Bool.and_eq_true, bne_iff_ne, ne_eq, beq_iff_eq, Option.isNone_iff_eq_none] at h
  obtain ⟨⟨hne, hmap⟩, htup⟩ := h
  unfold getBuiltin isBuiltinKey
  cases hf : Gen.builtinMap.find? (fun e => e.1 == n) with
  | none => simp [hf] at hmap
  | some e =>
    simp only [hf, Option.map_some, Option.some.injEq] at hmap
    refine ⟨?_, ?_⟩
    · simp only [hmap]
      unfold registeredByName
      simp only [htup]
      have : isPrimName n = true := by
        unfold isPrimName
        simp [hne, hf, hmap, htup]
      simp [this]
    · simp [hmap, hne]

/-! ### JSON lookups on the objects toJson writes -/

section lookups
variable (n : String)

theorem enum_json (b : Int) (es : List Json) (hb : Gen.enumWritesBytes = true) :
    let j := Json.obj ([("type", .str "enum")] ++ nameEntry n ++ [("enumerators", .arr es)]
              ++ (if Gen.enumWritesBytes then [("bytes", .num b)] else []))
    (j.get "type").toStr? = some "enum" ∧ ((j.get "name").toStr?).getD "" = n ∧
    j.has "enumerators" = true ∧ j.get "enumerators" = .arr es ∧ j.get "bytes" = .num b := by
  rcases nameEntry_cases n with ⟨h1, h2⟩ | ⟨_, h2⟩
  · subst h1; simp [h2, hb, Json.get, Json.has, List.find?, Json.toStr?]
  · simp [h2, hb, Json.get, Json.has, List.find?, Json.toStr?]

theorem tuple_json (e : Json) (k : Int) :
    let j := Json.obj ([("type", .str "tuple")] ++ nameEntry n ++ [("dtype", e), ("size", .num k)])
    (j.get "type").toStr? = some "tuple" ∧ ((j.get "name").toStr?).getD "" = n ∧
    j.has "dtype" = true ∧ j.has "size" = true ∧ j.get "dtype" = e ∧ j.get "size" = .num k := by
  rcases nameEntry_cases n with ⟨h1, h2⟩ | ⟨_, h2⟩
  · subst h1; simp [h2, Json.get, Json.has, List.find?, Json.toStr?]
  · simp [h2, Json.get, Json.has, List.find?, Json.toStr?]

theorem fields_json (tag : String) (fs : List Json) :
    let j := Json.obj ([("type", .str tag)] ++ nameEntry n ++ [("fields", .arr fs)])
    (j.get "type").toStr? = some tag ∧ ((j.get "name").toStr?).getD "" = n ∧
    j.has "fields" = true ∧ j.get "fields" = .arr fs := by
  rcases nameEntry_cases n with ⟨h1, h2⟩ | ⟨_, h2⟩
  · subst h1; simp [h2, Json.get, Json.has, List.find?, Json.toStr?]
  · simp [h2, Json.get, Json.has, List.find?, Json.toStr?]

end lookups

/-! ### the enumerator loop -/

theorem enumGo_toJson (es : List String) : ∀ acc : List String, (acc ++ es).Nodup →
    enumGo (enumeratorsJson es) acc = .ok (acc ++ es) := by
  induction es with
  | nil => intro acc _; simp [enumeratorsJson, enumGo, pure, Except.pure]
  | cons e r ih =>
    intro acc h
    have hnot : e ∉ acc := by
      intro hm
      have := List.nodup_append.mp h
      exact this.2.2 e hm e (by simp) rfl
    have h' : ((acc ++ [e]) ++ r).Nodup := by simpa using h
    have := ih (acc ++ [e]) h'
    simp only [enumeratorsJson, List.map_cons] at this ⊢
    simp [enumGo, Json.has, Json.get, List.find?, hnot, this]

/-! ### the round trip -/

mutual
  theorem Dtype.fromJson_toJson (hE : Gen.enumWritesBytes = true) (hR : Gen.fromJsonRestoresBytes = true)
      (hI : Gen.builtinByIdentity = true) (d : Dtype) :
      ∀ (n : String) (fuel : Nat), d.WF → d.depth ≤ fuel →
        Dtype.fromJson fuel (d.toJson n) = .ok (Dtype.norm n d) := by
    intro n fuel hwf hfuel
    cases fuel with
    | zero => have := d.depth_pos; omega
    | succ f =>
      match d, hwf, hfuel with
      | .prim m, hwf, _ =>
        have ⟨h1, h2⟩ := getBuiltin_prim (n := m) (by simpa [Dtype.WF] using hwf)
        simp [Dtype.toJson, Dtype.fromJson, Json.get, List.find?, Json.toStr?, h1, h2, Dtype.norm, pure, Except.pure]
      | .custom m b, _, _ =>
        simp [Dtype.toJson, hI, Dtype.fromJson, Json.get, List.find?, Json.toStr?, Json.toInt, Dtype.norm, pure, Except.pure]
      | .enum_ m b es, hwf, _ =>
        have hl := enum_json n b (enumeratorsJson es) hE
        simp only [Dtype.toJson]
        obtain ⟨t1, t2, t3, t4, t5⟩ := hl
        generalize Json.obj _ = j at t1 t2 t3 t4 t5 ⊢
        have hgo : enumGo (enumeratorsJson es) [] = .ok es := by
          have := enumGo_toJson es [] (by simpa [Dtype.WF] using hwf)
          simpa using this
        simp [Dtype.fromJson, t1, t2, t3, t4, t5, enumFromJson, Json.isArray, Json.array, hgo, hR, Json.toInt,
              Dtype.norm, pure, Except.pure]
      | .tuple m e k, hwf, hfuel =>
        have hl := tuple_json n (e.toJson "") k
        simp only [Dtype.toJson]
        obtain ⟨t1, t2, t3, t4, t5, t6⟩ := hl
        generalize Json.obj _ = j at t1 t2 t3 t4 t5 t6 ⊢
        have he : e.depth ≤ f := by simp [Dtype.depth] at hfuel; omega
        have ih := Dtype.fromJson_toJson hE hR hI e "" f (by simpa [Dtype.WF] using hwf) he
        simp [Dtype.fromJson, t1, t2, t3, t4, t5, t6, Json.isNumber, Json.toInt, ih, Dtype.norm, pure, Except.pure]
      | .struct m fs, hwf, hfuel =>
        have hl := fields_json n "struct" fs.toJson
        simp only [Dtype.toJson]
        obtain ⟨t1, t2, t3, t4⟩ := hl
        generalize Json.obj _ = j at t1 t2 t3 t4 ⊢
        have hd : fs.depth ≤ f := by simp [Dtype.depth] at hfuel; omega
        have hw : fs.WF ∧ fs.names.Nodup := by simpa [Dtype.WF] using hwf
        have ih := Fields.fromJson_toJson hE hR hI fs f .nil hw.1 hd (by simpa [Fields.names] using hw.2)
        simp [Dtype.fromJson, t1, t2, t3, t4, fieldsFromJson, Json.isArray, Json.array, ih, Fields.append,
              Dtype.norm, pure, Except.pure]
      | .union_ m fs, hwf, hfuel =>
        have hl := fields_json n "union" fs.toJson
        simp only [Dtype.toJson]
        obtain ⟨t1, t2, t3, t4⟩ := hl
        generalize Json.obj _ = j at t1 t2 t3 t4 ⊢
        have hd : fs.depth ≤ f := by simp [Dtype.depth] at hfuel; omega
        have hw : fs.WF ∧ fs.names.Nodup := by simpa [Dtype.WF] using hwf
        have ih := Fields.fromJson_toJson hE hR hI fs f .nil hw.1 hd (by simpa [Fields.names] using hw.2)
        simp [Dtype.fromJson, t1, t2, t3, t4, fieldsFromJson, Json.isArray, Json.array, ih, Fields.append,
              Dtype.norm, pure, Except.pure]
  theorem Fields.fromJson_toJson (hE : Gen.enumWritesBytes = true) (hR : Gen.fromJsonRestoresBytes = true)
      (hI : Gen.builtinByIdentity = true) (fs : Fields) :
      ∀ (fuel : Nat) (acc : Fields), fs.WF → fs.depth ≤ fuel → (acc.names ++ fs.names).Nodup →
        fieldsGo (Dtype.fromJson fuel) fs.toJson acc = .ok (acc.append fs.norm) := by
    intro fuel acc hwf hfuel hnd
    match fs, hwf, hfuel, hnd with
    | .nil, _, _, _ => simp [Fields.toJson, fieldsGo, Fields.norm, Fields.append_nil, pure, Except.pure]
    | .cons fname d r, hwf, hfuel, hnd =>
      have hw : d.WF ∧ r.WF := by simpa [Fields.WF] using hwf
      have hd : d.depth ≤ fuel ∧ r.depth ≤ fuel := by
        simp only [Fields.depth] at hfuel; omega
      have ih1 := Dtype.fromJson_toJson hE hR hI d "" fuel hw.1 hd.1
      have hnot : fname ∉ acc.names := by
        intro hm
        have := List.nodup_append.mp hnd
        exact this.2.2 fname hm fname (by simp [Fields.names]) rfl
      have hnd' : ((acc.snoc fname (Dtype.norm "" d)).names ++ r.names).Nodup := by
        rw [Fields.snoc_eq_append, Fields.names_append]
        simpa [Fields.names] using hnd
      have ih2 := Fields.fromJson_toJson hE hR hI r fuel (acc.snoc fname (Dtype.norm "" d)) hw.2 hd.2 hnd'
      simp only [Fields.toJson]
      simp only [fieldsGo, Json.has, Json.get, List.find?, List.any]
      rw [Fields.snoc_eq_append, Fields.append_assoc] at ih2
      simp only [Fields.append] at ih2
      simp [ih1, hnot, ih2, Fields.snoc_eq_append, Fields.norm]
end

/-! ### what the round trip preserves -/

mutual
  theorem Dtype.bytes_norm : (d : Dtype) → (n : String) → (Dtype.norm n d).bytes = d.bytes
    | .prim _, _ => by simp [Dtype.norm]
    | .custom _ _, _ => by simp [Dtype.norm]
    | .enum_ _ _ _, _ => by simp [Dtype.norm, Dtype.bytes]
    | .tuple _ e k, _ => by simp [Dtype.norm, Dtype.bytes, Dtype.bytes_norm e ""]
    | .struct _ fs, _ => by simp [Dtype.norm, Dtype.bytes, Fields.bytes_norm fs]
    | .union_ _ fs, _ => by simp [Dtype.norm, Dtype.bytes, Fields.bytes_norm fs]
  theorem Fields.bytes_norm : (fs : Fields) → fs.norm.bytes = fs.bytes
    | .nil => by simp [Fields.norm]
    | .cons _ d r => by simp [Fields.norm, Fields.bytes, Dtype.bytes_norm d "", Fields.bytes_norm r]
end

mutual
  theorem Dtype.flatten_norm : (d : Dtype) → (n : String) → (Dtype.norm n d).flatten = d.flatten
    | .prim _, _ => by simp [Dtype.norm]
    | .custom _ _, _ => by simp [Dtype.norm]
    | .enum_ _ _ _, _ => by simp [Dtype.norm, Dtype.flatten]
    | .tuple _ e k, _ => by simp [Dtype.norm, Dtype.flatten, Dtype.flatten_norm e ""]
    | .struct _ fs, _ => by simp [Dtype.norm, Dtype.flatten, Fields.flatten_norm fs]
    | .union_ _ fs, _ => by simp [Dtype.norm, Dtype.flatten, Fields.flatten_norm fs]
  theorem Fields.flatten_norm : (fs : Fields) → fs.norm.flatten = fs.flatten
    | .nil => by simp [Fields.norm]
    | .cons _ d r => by simp [Fields.norm, Fields.flatten, Dtype.flatten_norm d "", Fields.flatten_norm r]
end

mutual
  theorem Dtype.equiv_norm : (d : Dtype) → (n : String) → d.Equiv (Dtype.norm n d)
    | .prim _, _ => by simp [Dtype.norm, Dtype.Equiv]
    | .custom _ _, _ => by simp [Dtype.norm, Dtype.Equiv]
    | .enum_ _ _ _, _ => by simp [Dtype.norm, Dtype.Equiv]
    | .tuple _ e k, _ => by simp [Dtype.norm, Dtype.Equiv, Dtype.equiv_norm e ""]
    | .struct _ fs, _ => by simp [Dtype.norm, Dtype.Equiv, Fields.equiv_norm fs]
    | .union_ _ fs, _ => by simp [Dtype.norm, Dtype.Equiv, Fields.equiv_norm fs]
  theorem Fields.equiv_norm : (fs : Fields) → fs.Equiv fs.norm
    | .nil => by simp [Fields.norm, Fields.Equiv]
    | .cons _ d r => by simp [Fields.norm, Fields.Equiv, Dtype.equiv_norm d "", Fields.equiv_norm r]
end

mutual
  /-- serialising the read-back value gives the same JSON again -/
  theorem Dtype.toJson_norm : (d : Dtype) → (n m : String) → (Dtype.norm n d).toJson m = d.toJson m
    | .prim _, _, _ => by simp [Dtype.norm]
    | .custom _ _, _, _ => by simp [Dtype.norm]
    | .enum_ _ _ _, _, _ => by simp [Dtype.norm, Dtype.toJson]
    | .tuple _ e k, _, _ => by simp [Dtype.norm, Dtype.toJson, Dtype.toJson_norm e "" ""]
    | .struct _ fs, _, _ => by simp [Dtype.norm, Dtype.toJson, Fields.toJson_norm fs]
    | .union_ _ fs, _, _ => by simp [Dtype.norm, Dtype.toJson, Fields.toJson_norm fs]
  theorem Fields.toJson_norm : (fs : Fields) → fs.norm.toJson = fs.toJson
    | .nil => by simp [Fields.norm]
    | .cons _ d r => by simp [Fields.norm, Fields.toJson, Dtype.toJson_norm d "" "", Fields.toJson_norm r]
end

mutual
  theorem Dtype.wf_norm : (d : Dtype) → (n : String) → d.WF → (Dtype.norm n d).WF
    | .prim _, _, h => by simpa [Dtype.norm] using h
    | .custom _ _, _, _ => by simp [Dtype.norm, Dtype.WF]
    | .enum_ _ _ _, _, h => by simpa [Dtype.norm, Dtype.WF] using h
    | .tuple _ e k, _, h => by
        have := Dtype.wf_norm e "" (by simpa [Dtype.WF] using h)
        simpa [Dtype.norm, Dtype.WF] using this
    | .struct _ fs, _, h => by
        have h' : fs.WF ∧ fs.names.Nodup := by simpa [Dtype.WF] using h
        simpa [Dtype.norm, Dtype.WF, Fields.names_norm] using ⟨Fields.wf_norm fs h'.1, h'.2⟩
    | .union_ _ fs, _, h => by
        have h' : fs.WF ∧ fs.names.Nodup := by simpa [Dtype.WF] using h
        simpa [Dtype.norm, Dtype.WF, Fields.names_norm] using ⟨Fields.wf_norm fs h'.1, h'.2⟩
  theorem Fields.wf_norm : (fs : Fields) → fs.WF → fs.norm.WF
    | .nil, _ => by simp [Fields.norm, Fields.WF]
    | .cons _ d r, h => by
        have h' : d.WF ∧ r.WF := by simpa [Fields.WF] using h
        simpa [Fields.norm, Fields.WF] using ⟨Dtype.wf_norm d "" h'.1, Fields.wf_norm r h'.2⟩
end

mutual
  theorem Dtype.depth_norm : (d : Dtype) → (n : String) → (Dtype.norm n d).depth = d.depth
    | .prim _, _ => by simp [Dtype.norm]
    | .custom _ _, _ => by simp [Dtype.norm]
    | .enum_ _ _ _, _ => by simp [Dtype.norm, Dtype.depth]
    | .tuple _ e k, _ => by simp [Dtype.norm, Dtype.depth, Dtype.depth_norm e ""]
    | .struct _ fs, _ => by simp [Dtype.norm, Dtype.depth, Fields.depth_norm fs]
    | .union_ _ fs, _ => by simp [Dtype.norm, Dtype.depth, Fields.depth_norm fs]
  theorem Fields.depth_norm : (fs : Fields) → fs.norm.depth = fs.depth
    | .nil => by simp [Fields.norm]
    | .cons _ d r => by simp [Fields.norm, Fields.depth, Dtype.depth_norm d "", Fields.depth_norm r]
end

theorem Dtype.name_norm (d : Dtype) (n : String) :
    (Dtype.norm n d).name = if d.isComposite then n else d.name := by
  cases d <;> simp [Dtype.norm, Dtype.name, Dtype.isComposite]

-- equivalent dtypes have the same size and the same flattening (hence the same casts)
mutual
  theorem Dtype.Equiv.props : (d d' : Dtype) → d.Equiv d' → d.bytes = d'.bytes ∧ d.flatten = d'.flatten
    | .prim n, d', h => by
        cases d' <;> simp [Dtype.Equiv] at h
        subst h; exact ⟨rfl, rfl⟩
    | .custom n b, d', h => by
        cases d' <;> simp [Dtype.Equiv] at h
        obtain ⟨h1, h2⟩ := h; subst h1; subst h2; exact ⟨rfl, rfl⟩
    | .enum_ _ b es, d', h => by
        cases d' <;> simp [Dtype.Equiv] at h
        obtain ⟨h1, h2⟩ := h; subst h1; subst h2; simp [Dtype.bytes, Dtype.flatten]
    | .tuple _ e k, d', h => by
        cases d' with
        | tuple _ e' k' =>
          simp only [Dtype.Equiv] at h
          have := Dtype.Equiv.props e e' h.2
          simp [Dtype.bytes, Dtype.flatten, this.1, this.2, h.1]
        | _ => simp [Dtype.Equiv] at h
    | .struct _ fs, d', h => by
        cases d' with
        | struct _ gs =>
          simp only [Dtype.Equiv] at h
          simpa [Dtype.bytes, Dtype.flatten] using Fields.Equiv.props fs gs h
        | _ => simp [Dtype.Equiv] at h
    | .union_ _ fs, d', h => by
        cases d' with
        | union_ _ gs =>
          simp only [Dtype.Equiv] at h
          simpa [Dtype.bytes, Dtype.flatten] using Fields.Equiv.props fs gs h
        | _ => simp [Dtype.Equiv] at h
  theorem Fields.Equiv.props : (fs gs : Fields) → fs.Equiv gs → fs.bytes = gs.bytes ∧ fs.flatten = gs.flatten
    | .nil, gs, h => by
        cases gs <;> simp [Fields.Equiv] at h
        exact ⟨rfl, rfl⟩
    | .cons n d r, gs, h => by
        cases gs with
        | nil => simp [Fields.Equiv] at h
        | cons m e s =>
          simp only [Fields.Equiv] at h
          have h1 := Dtype.Equiv.props d e h.2.1
          have h2 := Fields.Equiv.props r s h.2.2
          simp [Fields.bytes, Fields.flatten, h1.1, h1.2, h2.1, h2.2]
end

/-! ### kernel argument metadata -/

def ArgMeta.norm (a : ArgMeta) : ArgMeta := { a with dtype := Dtype.norm "" a.dtype }
def KernelMeta.norm (m : KernelMeta) : KernelMeta :=
  { initialized := true, name := m.name, arguments := m.arguments.map ArgMeta.norm }
def KernelMeta.WF (m : KernelMeta) : Prop := ∀ a ∈ m.arguments, a.dtype.WF

theorem foldl_max_le (l : List ArgMeta) : ∀ (k : Nat), k ≤ l.foldl (fun n a => max n a.depth) k ∧
    ∀ a ∈ l, a.depth ≤ l.foldl (fun n a => max n a.depth) k := by
  induction l with
  | nil => intro k; simp
  | cons x r ih =>
    intro k
    have h := ih (max k x.depth)
    simp only [List.foldl_cons, List.mem_cons, forall_eq_or_imp]
    refine ⟨by omega, by omega, h.2⟩

theorem KernelMeta.depth_arg (m : KernelMeta) {a : ArgMeta} (h : a ∈ m.arguments) : a.dtype.depth ≤ m.depth :=
  (foldl_max_le m.arguments 0).2 a h

theorem ArgMeta.fromJson_toJson (hE : Gen.enumWritesBytes = true) (hR : Gen.fromJsonRestoresBytes = true)
    (hI : Gen.builtinByIdentity = true) (a : ArgMeta) (fuel : Nat) (hw : a.dtype.WF) (hd : a.dtype.depth ≤ fuel) :
    ArgMeta.fromJson fuel a.toJson = .ok a.norm := by
  have h := Dtype.fromJson_toJson hE hR hI a.dtype "" fuel hw hd
  simp [ArgMeta.fromJson, ArgMeta.toJson, Json.get, List.find?, h, Json.toBool, Json.toStr?, ArgMeta.norm,
        bind, Except.bind, pure, Except.pure]

theorem mapM_ok {γ α β : Type} (f : γ → α) (g : α → Except Err β) (h : γ → β) :
    ∀ (l : List γ), (∀ c ∈ l, g (f c) = .ok (h c)) → (l.map f).mapM g = .ok (l.map h) := by
  intro l
  induction l with
  | nil => intro _; simp [pure, Except.pure]
  | cons x r ih =>
    intro hl
    have h1 := hl x (by simp)
    have h2 := ih (fun a ha => hl a (by simp [ha]))
    simp [List.mapM_cons, h1, h2, bind, Except.bind, pure, Except.pure]

theorem KernelMeta.fromJson_toJson (hE : Gen.enumWritesBytes = true) (hR : Gen.fromJsonRestoresBytes = true)
    (hI : Gen.builtinByIdentity = true) (hM : Gen.fromJsonMarksInitialized = true)
    (m : KernelMeta) (fuel : Nat) (hw : m.WF) (hd : m.depth ≤ fuel) :
    KernelMeta.fromJson fuel m.toJson = .ok m.norm := by
  have hargs : (m.arguments.map ArgMeta.toJson).mapM (ArgMeta.fromJson fuel) = .ok (m.arguments.map ArgMeta.norm) := by
    apply mapM_ok
    intro a ha
    exact ArgMeta.fromJson_toJson hE hR hI a fuel (hw a ha) (Nat.le_trans (m.depth_arg ha) hd)
  simp [KernelMeta.fromJson, KernelMeta.toJson, Json.get, List.find?, Json.array, hargs, Json.toStr?, hM,
        KernelMeta.norm, bind, Except.bind, pure, Except.pure]

/-! ### the cast relation only looks at `isByte` and the flattening -/

theorem isByte_norm (d : Dtype) (n : String) : isByte (Dtype.norm n d) = isByte d := by
  cases d <;> simp [Dtype.norm, isByte]

theorem canCast_congr {a a' b b' : Dtype} (h1 : isByte a = isByte a') (h2 : a.flatten = a'.flatten)
    (h3 : isByte b = isByte b') (h4 : b.flatten = b'.flatten) : canCast a b = canCast a' b' := by
  unfold canCast
  rw [h1, h2, h3, h4]

/-! ### the builtin table -/

/-- the check behind `getBuiltin_wf`, evaluated on the generated table -/
def registeredOk (t : String) : Bool :=
  match Gen.dtypeTuples.find? (fun e => e.1 == t) with
  | some e => isPrimName e.2.1
  | none => true

theorem builtin_table_ok : ∀ e ∈ Gen.builtinMap, registeredOk e.2 = true := by decide

theorem getBuiltin_wf (key : String) : (getBuiltin key).WF := by
  unfold getBuiltin
  cases hf : Gen.builtinMap.find? (fun e => e.1 == key) with
  | none => simp [none_, Dtype.WF]
  | some e =>
    have hm : e ∈ Gen.builtinMap := List.mem_of_find?_eq_some hf
    have hok := builtin_table_ok e hm
    unfold registeredOk at hok
    cases ht : Gen.dtypeTuples.find? (fun x => x.1 == e.2) with
    | none =>
      by_cases hp : isPrimName e.2 = true
      · simp [registeredByName, ht, hp, Dtype.WF]
      · simp [registeredByName, ht, hp, Dtype.WF]
    | some x =>
      simp only [ht] at hok
      simp [registeredByName, ht, Dtype.WF, hok]

end Occa.Dtype

/-! ### whatever fromJson accepts is well formed -/
namespace Occa.Dtype
open Occa

theorem enumGo_nodup : ∀ (l : List Json) (acc r : List String), enumGo l acc = .ok r → acc.Nodup → r.Nodup
  | [], acc, r, h, ha => by
      simp [enumGo, pure, Except.pure] at h; subst h; exact ha
  | e :: l, acc, r, h, ha => by
      unfold enumGo at h
      split at h
      · simp [throw, throwThe, MonadExceptOf.throw] at h
      · split at h
        · rename_i s _
          split at h
          · simp [throw, throwThe, MonadExceptOf.throw] at h
          · rename_i hc
            have hn : s ∉ acc := by simpa using hc
            exact enumGo_nodup l (acc ++ [s]) r h (by
              rw [List.nodup_append]
              refine ⟨ha, by simp, ?_⟩
              intro a ha' b hb hab
              simp at hb; subst hb; subst hab; exact hn ha')
        · simp [throw, throwThe, MonadExceptOf.throw] at h

theorem Fields.wf_append : (acc g : Fields) → acc.WF → g.WF → (acc.append g).WF
  | .nil, g, _, hg => by simpa [Fields.append] using hg
  | .cons n e r, g, h, hg => by
      have h' : e.WF ∧ r.WF := by simpa [Fields.WF] using h
      simpa [Fields.append, Fields.WF] using ⟨h'.1, Fields.wf_append r g h'.2 hg⟩

theorem Fields.wf_append_one (acc : Fields) (s : String) (d : Dtype) (h1 : acc.WF) (h2 : d.WF) :
    (acc.snoc s d).WF := by
  rw [Fields.snoc_eq_append]
  exact Fields.wf_append acc _ h1 (by simp [Fields.WF, h2])

theorem fieldsGo_wf (dec : Json → Except Err Dtype) (hdec : ∀ j d, dec j = .ok d → d.WF) :
    ∀ (l : List Json) (acc r : Fields), fieldsGo dec l acc = .ok r → acc.WF → acc.names.Nodup →
      r.WF ∧ r.names.Nodup
  | [], acc, r, h, h1, h2 => by
      simp [fieldsGo, pure, Except.pure] at h; subst h; exact ⟨h1, h2⟩
  | f :: l, acc, r, h, h1, h2 => by
      unfold fieldsGo at h
      split at h
      · simp [throw, throwThe, MonadExceptOf.throw] at h
      · split at h
        · simp [throw, throwThe, MonadExceptOf.throw] at h
        · split at h
          · rename_i s _
            split at h
            · simp at h
            · rename_i d hd
              split at h
              · simp [throw, throwThe, MonadExceptOf.throw] at h
              · rename_i hc
                have hn : s ∉ acc.names := by simpa using hc
                refine fieldsGo_wf dec hdec l (acc.snoc s d) r h (Fields.wf_append_one acc s d h1 (hdec _ _ hd)) ?_
                rw [Fields.snoc_eq_append, Fields.names_append]
                rw [List.nodup_append]
                refine ⟨h2, by simp [Fields.names], ?_⟩
                intro a ha b hb hab
                simp [Fields.names] at hb; subst hb; subst hab; exact hn ha
          · simp [throw, throwThe, MonadExceptOf.throw] at h

theorem fieldsFromJson_wf (dec : Json → Except Err Dtype) (hdec : ∀ j d, dec j = .ok d → d.WF)
    (j : Json) (r : Fields) (h : fieldsFromJson dec j = .ok r) : r.WF ∧ r.names.Nodup := by
  unfold fieldsFromJson at h
  split at h
  · simp [throw, throwThe, MonadExceptOf.throw] at h
  · split at h
    · simp [throw, throwThe, MonadExceptOf.throw] at h
    · exact fieldsGo_wf dec hdec _ .nil r h (by simp [Fields.WF]) (by simp [Fields.names])

/-- every dtype `fromJson` returns, for ANY json value and fuel, is well formed -/
theorem Dtype.fromJson_wf : ∀ (fuel : Nat) (j : Json) (d : Dtype), Dtype.fromJson fuel j = .ok d → d.WF
  | 0, _, _, h => by simp [Dtype.fromJson] at h
  | fuel + 1, j, d, h => by
      have ih := Dtype.fromJson_wf fuel
      unfold Dtype.fromJson at h
      simp only at h
      split at h
      · split at h
        · simp [throw, throwThe, MonadExceptOf.throw] at h
        · simp [pure, Except.pure] at h; subst h; exact getBuiltin_wf _
      · split at h
        · split at h
          · simp at h
          · rename_i es hes
            simp [pure, Except.pure] at h; subst h
            unfold enumFromJson at hes
            split at hes
            · simp [throw, throwThe, MonadExceptOf.throw] at hes
            · split at hes
              · simp [throw, throwThe, MonadExceptOf.throw] at hes
              · simpa [Dtype.WF] using enumGo_nodup _ [] es hes (by simp)
        · split at h
          · split at h
            · simp at h
            · rename_i fs hfs
              simp [pure, Except.pure] at h; subst h
              simpa [Dtype.WF] using fieldsFromJson_wf _ ih j fs hfs
          · split at h
            · split at h
              · simp [throw, throwThe, MonadExceptOf.throw] at h
              · split at h
                · simp [throw, throwThe, MonadExceptOf.throw] at h
                · split at h
                  · simp [throw, throwThe, MonadExceptOf.throw] at h
                  · split at h
                    · simp at h
                    · rename_i e he
                      simp [pure, Except.pure] at h; subst h
                      simpa [Dtype.WF] using ih _ _ he
            · split at h
              · split at h
                · simp at h
                · rename_i fs hfs
                  simp [pure, Except.pure] at h; subst h
                  simpa [Dtype.WF] using fieldsFromJson_wf _ ih j fs hfs
              · split at h
                · simp [pure, Except.pure] at h; subst h; simp [Dtype.WF]
                · simp [throw, throwThe, MonadExceptOf.throw] at h

end Occa.Dtype
