/-
C07 with the encoder instantiated by the dump model: everything the dependency chain feeds to
the encoder is a well-formed JSON value, provided the property values of the configurations are
well-formed and the paths produced by the include scanner contain no `"` (object keys are not
escaped by json::dumpToString).
-/
import OccaProofs.Lemmas.DepHash
import OccaProofs.Lemmas.JsonDump

namespace Occa.DepHash
open Occa.CacheKeyBase Occa.CacheKey

set_option linter.unusedSectionVars false

variable {κ σ δ β : Type} [DecidableEq κ] [DecidableEq δ]

theorem mem_insertKV {α : Type} (k : String) (v : α) (a : String × α) :
    ∀ (l : List (String × α)), a ∈ insertKV k v l → a = (k, v) ∨ a ∈ l
  | [], h => by
    simp only [insertKV, List.mem_singleton] at h
    exact Or.inl h
  | (k', v') :: t, h => by
    unfold insertKV at h
    by_cases h1 : k < k'
    · rw [if_pos h1] at h
      rcases List.mem_cons.mp h with e | m
      · exact Or.inl e
      · exact Or.inr m
    · rw [if_neg h1] at h
      by_cases h2 : k = k'
      · rw [if_pos h2] at h
        rcases List.mem_cons.mp h with e | m
        · exact Or.inl e
        · exact Or.inr (List.mem_cons_of_mem _ m)
      · rw [if_neg h2] at h
        rcases List.mem_cons.mp h with e | m
        · exact Or.inr (by rw [e]; simp)
        · rcases mem_insertKV k v a t m with e | m'
          · exact Or.inl e
          · exact Or.inr (List.mem_cons_of_mem _ m')

theorem mem_mkMap {α : Type} (a : String × α) : ∀ (l : List (String × α)), a ∈ mkMap l → a ∈ l
  | [], h => by simp [mkMap] at h
  | (k, v) :: t, h => by
    have h' : a ∈ insertKV k v (mkMap t) := h
    rcases mem_insertKV k v a _ h' with e | m
    · rw [e]; simp
    · exact List.mem_cons_of_mem _ (mem_mkMap a t m)

theorem scanDeps_paths (e : DEnv κ σ δ) (fs : FS) :
    ∀ (deps : List (String × κ)) (ph : String × κ), ph ∈ (scanDeps e fs deps).1 →
      ∃ h, (ph.1, h) ∈ deps
  | [], ph, hm => by simp [scanDeps] at hm
  | (q, hq) :: t, ph, hm => by
    unfold scanDeps at hm
    cases hfs : fs q with
    | none =>
      simp only [hfs] at hm
      obtain ⟨h, hh⟩ := scanDeps_paths e fs t ph hm
      exact ⟨h, List.mem_cons_of_mem _ hh⟩
    | some txt =>
      simp only [hfs] at hm
      rcases List.mem_cons.mp hm with e' | m
      · exact ⟨hq, by rw [e']; simp⟩
      · obtain ⟨h, hh⟩ := scanDeps_paths e fs t ph m
        exact ⟨h, List.mem_cons_of_mem _ hh⟩

theorem expand_paths (incl : String → List String) (P : String → Prop)
    (hincl : ∀ t p, p ∈ incl t → P p) (fs : FS) :
    ∀ (n : Nat) (ps : List String) (x : List (String × String)),
      expand incl fs n ps = some x → (∀ p ∈ ps, P p) → ∀ pt ∈ x, P pt.1 := by
  intro n
  induction n with
  | zero =>
    intro ps x h _ pt hm
    cases ps with
    | nil => simp [expand] at h; subst h; simp at hm
    | cons q qs => simp [expand] at h
  | succ n ih =>
    intro ps x h hps pt hm
    cases ps with
    | nil => simp [expand] at h; subst h; simp at hm
    | cons q qs =>
      cases hfs : fs q with
      | none => simp [expand, hfs] at h
      | some t0 =>
        cases ha : expand incl fs n (incl t0) with
        | none => simp [expand, hfs, ha] at h
        | some a =>
          cases hb : expand incl fs n qs with
          | none => simp [expand, hfs, ha, hb] at h
          | some b =>
            simp [expand, hfs, ha, hb] at h
            subst h
            rcases List.mem_cons.mp hm with e | hm'
            · rw [e]; exact hps q (by simp)
            · rcases List.mem_append.mp hm' with m | m
              · exact ih _ _ ha (fun p hp => hincl t0 p hp) pt m
              · exact ih _ _ hb (fun p hp => hps p (List.mem_cons_of_mem _ hp)) pt m

theorem chainObj_wf (e : DEnv κ σ δ) (cs : ChainShape) (hfw : ∀ k, (e.full k).WF) (K : κ)
    (cur : List (String × κ)) (hp : ∀ ph ∈ cur, keyOk ph.1) : (chainObj e K cur).WFtop := by
  unfold chainObj
  apply wftop_mkObj
  intro kv hm
  rw [chain_render_full e cs] at hm
  rcases List.mem_cons.mp hm with e1 | hm
  · rw [e1]
    exact ⟨(by decide : keyOk Gen.chainHashLabel), hfw K⟩
  · rcases List.mem_cons.mp hm with e2 | hm
    · rw [e2]
      refine ⟨(by decide : keyOk Gen.chainDepsLabel), ?_⟩
      simp only [J.WF]
      apply wfo_mkMap
      intro kv' hm'
      obtain ⟨ph, hph, ef⟩ := List.mem_map.mp hm'
      rw [← ef]
      exact ⟨hp ph hph, hfw _⟩
    · simp at hm

/-- the chain objects of a cache that satisfies the invariant are well-formed -/
theorem cacheW_of_inv (e : DEnv κ σ δ) (cs : ChainShape) (hfw : ∀ k, (e.full k).WF)
    (hincl : ∀ t p, p ∈ e.incl t → keyOk p)
    (compile : String × List (Option J) → List (String × String) → β) (cache : Cache κ δ β)
    (hinv : Inv e J.WFtop compile cache) (fs : FS) : CacheW e J.WFtop fs cache := by
  intro d ent K hl
  obtain ⟨c', n, K0, fs', x, _, _, _, hx, hdeps, _⟩ := hinv d ent hl
  apply chainObj_wf e cs hfw
  intro ph hph
  obtain ⟨h, hh⟩ := scanDeps_paths e fs ent.deps ph hph
  rw [hdeps] at hh
  unfold depsOf at hh
  have hm := mem_mkMap _ _ hh
  obtain ⟨pt, hpt, ef⟩ := List.mem_map.mp hm
  have : ph.1 = pt.1 := by
    have := congrArg Prod.fst ef
    exact this.symm
  rw [this]
  exact expand_paths e.incl keyOk hincl fs' _ _ x hx (fun p hp => hincl _ p hp) pt hpt

/-! ### the historical chaining (before the repair of F11), kept to show why it could not terminate -/

/-- applyDependencyHash as it was: the current hashes of the recorded files are folded into the
    key with one binary operation (`hash_t::operator^`) and the function recurses, without any
    memory of the keys it has seen -/
def foldResolve (e : DEnv κ σ δ) (op : κ → κ → κ) (fs : FS) (cache : Cache κ δ β) : Nat → κ → Res κ
  | 0, _ => .outOfFuel
  | n + 1, K =>
    match cache.lookup (e.dir K) with
    | Option.none => .found K
    | some ent =>
      if (scanDeps e fs ent.deps).2 = false then .found K
      else foldResolve e op fs cache n (((scanDeps e fs ent.deps).1.map (·.2)).foldl op K)

/-- two recorded files that now have the same contents, different from what was recorded: with a
    self-inverse operation the "new" key is the old one and the recursion never ends -/
theorem foldResolve_diverges (e : DEnv κ σ δ) (op : κ → κ → κ) (hop : ∀ k z, op (op k z) z = k)
    (fs : FS) (K : κ) (a b t : String) (h₁ h₂ : κ) (β : Type) (bin : β)
    (hne : e.H (e.raw t) ≠ h₁) (ha : fs a = some t) (hb : fs b = some t) :
    ∀ fuel, foldResolve e op fs [(e.dir K, ({ deps := [(a, h₁), (b, h₂)], bin := bin } : Entry κ β))] fuel K
      = .outOfFuel := by
  intro fuel
  induction fuel with
  | zero => rfl
  | succ n ih =>
    unfold foldResolve
    have hl : List.lookup (e.dir K) [(e.dir K, ({ deps := [(a, h₁), (b, h₂)], bin := bin } : Entry κ β))]
        = some { deps := [(a, h₁), (b, h₂)], bin := bin } := by
      rw [lookup_cons_eq', if_pos rfl]
    simp only [hl]
    have hs : scanDeps e fs [(a, h₁), (b, h₂)] =
        ([(a, e.H (e.raw t)), (b, e.H (e.raw t))], (false || decide (e.H (e.raw t) ≠ h₂)) || decide (e.H (e.raw t) ≠ h₁)) := by
      simp [scanDeps, ha, hb]
    have hch : (scanDeps e fs [(a, h₁), (b, h₂)]).2 ≠ false := by
      rw [hs]
      simp [hne]
    rw [if_neg hch, hs]
    simp only [List.map_cons, List.map_nil, List.foldl_cons, List.foldl_nil, hop]
    exact ih

end Occa.DepHash
