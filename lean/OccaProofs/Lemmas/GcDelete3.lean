/-
`~modeBuffer_t`, `delete` of a buffer or memory pool.
-/
import OccaProofs.Lemmas.GcDelete2

namespace Occa.Gc

/-- `~modeBuffer_t` after the loop over the slices -/
def dtorBufTail (s : St) (b : Nat) : St :=
  match s.par b with
  | none => s
  | some d =>
    let s := s.touch d
    let s := s.addBytes d (- (s.size b : Int))
    s.chSet .buf d (Ring.remove (s.chGet .buf d) b)

theorem dtorBufBase_unfold (s : St) (b : Nat) :
    dtorBufBase s b = dtorBufTail (destroySlices (s.kids b).length s b) b := rfl

theorem dtorBufTail_spec {s : St} {b d : Nat} (hp : s.par b = some d) (hb : s.alive b = false)
    (hd : s.alive d = true) (hdn : (s.chGet .buf d).Nodup) :
    PreEdit s (dtorBufTail s b) [] ∧ b ∉ (dtorBufTail s b).chGet .buf d
      ∧ (dtorBufTail s b).par = s.par ∧ (dtorBufTail s b).kids = s.kids := by
  have he : dtorBufTail s b = (s.addBytes d (- (s.size b : Int))).chSet .buf d
      (Ring.remove ((s.addBytes d (- (s.size b : Int))).chGet .buf d) b) := by
    unfold dtorBufTail
    simp only [hp, St.touch_alive hd]
  rw [he]
  refine ⟨?_, ?_, rfl, rfl⟩
  · exact (preEdit_addBytes d _).trans (preEdit_chSet_remove .buf d b hdn (Or.inr hb))
  · rw [chGet_chSet]
    simp only [and_self, if_true]
    exact Ring.not_mem_remove hdn b

theorem dtorBufBase_killed {s : St} {b d : Nat} (hp : s.par b = some d) (hb : s.alive b = false)
    (hd : s.alive d = true) (hdk : d ∉ s.kids b) (hbk : b ∉ s.kids b) (hn : (s.kids b).Nodup)
    (hk : ∀ m ∈ s.kids b, s.alive m = true ∧ (s.ring m).Nodup) (hdn : (s.chGet .buf d).Nodup) :
    Killed s (s.kids b) (dtorBufBase s b) ∧ (dtorBufBase s b).kids b = []
      ∧ b ∉ (dtorBufBase s b).chGet .buf d
      ∧ (∀ x, x ∉ s.kids b → (dtorBufBase s b).par x = s.par x)
      ∧ (∀ x, x ≠ b → (dtorBufBase s b).kids x = s.kids x) := by
  obtain ⟨k1, k2, k3, k4⟩ := destroySlices_killed b _ s rfl hn hk
  rw [dtorBufBase_unfold]
  generalize destroySlices (s.kids b).length s b = s1 at *
  have hp1 : s1.par b = some d := by rw [k3 b hbk]; exact hp
  have hd1 : s1.alive d = true := by rw [k1.alive]; simp [hd, hdk]
  have hb1 : s1.alive b = false := by rw [k1.alive]; simp [hb]
  obtain ⟨t1, t2, t3, t4⟩ := dtorBufTail_spec hp1 hb1 hd1 (k1.chN _ _ hdn)
  refine ⟨?_, ?_, t2, ?_, ?_⟩
  · have := k1.trans t1.killed
    simpa using this
  · rw [t4]; exact k2
  · intro x hx; rw [t3]; exact k3 x hx
  · intro x hx; rw [t4]; exact k4 x hx

/-! ### facts about kinds that follow from the invariant -/

theorem Inv00.buf_ring {ex : Var → Prop} {s : St} (hi : Inv00 ex s) {b : Nat} (hk : s.kind b = .buf) :
    s.ring b = [] := by
  apply List.eq_nil_iff_forall_not_mem.mpr
  intro v hv
  have h1 := hi.ring_ptr v b hv
  by_cases hex : ex v
  · exact hi.ex_out v hex b hv
  · have := (hi.ptr_ok v b h1 hex).2.1
    rw [hk] at this
    cases hvk : v.kind <;> simp [HKind.obj, hvk] at this

theorem Inv00.kids_kind {ex : Var → Prop} {s : St} (hi : Inv00 ex s) {b m : Nat} (h : m ∈ s.kids b) :
    s.kind m = .mem ∧ (s.kind b = .buf ∨ s.kind b = .pool) :=
  ⟨(hi.kids_ok b m h).2.1, (hi.kids_ok b m h).2.2.2.2⟩

theorem Inv00.kids_nil {ex : Var → Prop} {s : St} (hi : Inv00 ex s) {o : Nat}
    (h : s.kind o ≠ .buf ∧ s.kind o ≠ .pool) : s.kids o = [] := by
  apply List.eq_nil_iff_forall_not_mem.mpr
  intro m hm
  rcases (hi.kids_kind hm).2 with h1 | h1
  · exact h.1 h1
  · exact h.2 h1

theorem Inv00.ch_nil {ex : Var → Prop} {s : St} (hi : Inv00 ex s) {o : Nat} (h : s.kind o ≠ .dev) (k : Kind) :
    s.chGet k o = [] := by
  apply List.eq_nil_iff_forall_not_mem.mpr
  intro c hc
  exact h (hi.ch_ok k o c hc).2.2.2.2.2.2

/-- the objects destroyed by `delete` of a buffer / pool -/
def bufK (s : St) (b : Nat) : List Nat :=
  [b] ++ (if s.kind b = .pool then (s.inner b).toList else []) ++ s.kids b

@[simp] theorem died_kind (s : St) (o : Nat) : (s.died o).kind = s.kind := by
  unfold St.died; split <;> rfl

end Occa.Gc
