/-
Helper lemmas for C12: the longest-match search over the operator table.
-/
import OccaProofs.Lemmas.LexBasic

namespace Occa.Lex
open Occa.Gen

def bestLen : Option (Nat × Nat) → Nat
  | some (_, l) => l
  | none => 0

theorem longestIn_step (sp : Str) (rest : List Str) (i : Nat) (r : Str) (best : Option (Nat × Nat)) :
    longestIn (sp :: rest) i r best =
      longestIn rest (i + 1) r (if sp.isPrefixOf r && decide (sp.length > bestLen best) then some (i, sp.length) else best) := by
  cases best with
  | none => simp [longestIn, bestLen]
  | some p => obtain ⟨a, b⟩ := p; simp [longestIn, bestLen]

/-- the result is at least as long as the incoming best and as every matching entry -/
theorem longestIn_len (rest : List Str) (i : Nat) (r : Str) (best : Option (Nat × Nat)) :
    bestLen best ≤ bestLen (longestIn rest i r best) ∧
    ∀ sp ∈ rest, sp.isPrefixOf r = true → sp.length ≤ bestLen (longestIn rest i r best) := by
  induction rest generalizing i best with
  | nil => simp [longestIn]
  | cons sp rest ih =>
    rw [longestIn_step]
    by_cases h : (sp.isPrefixOf r && decide (sp.length > bestLen best)) = true
    · rw [if_pos h]
      obtain ⟨h1, h2⟩ := ih (i + 1) (some (i, sp.length))
      simp only [Bool.and_eq_true, decide_eq_true_eq] at h
      have h1' : sp.length ≤ bestLen (longestIn rest (i + 1) r (some (i, sp.length))) := h1
      refine ⟨by omega, ?_⟩
      intro sp' hm hp
      rcases List.mem_cons.mp hm with rfl | hm
      · exact h1'
      · exact h2 sp' hm hp
    · rw [if_neg h]
      obtain ⟨h1, h2⟩ := ih (i + 1) best
      refine ⟨h1, ?_⟩
      intro sp' hm hp
      rcases List.mem_cons.mp hm with rfl | hm
      · simp only [Bool.and_eq_true, decide_eq_true_eq, not_and, hp, true_implies] at h
        omega
      · exact h2 sp' hm hp

/-- where the result comes from: the incoming best, or an entry of the table that is a prefix of the input -/
theorem longestIn_prov (rest : List Str) (i : Nat) (r : Str) (best : Option (Nat × Nat)) (j l : Nat)
    (h : longestIn rest i r best = some (j, l)) :
    best = some (j, l) ∨ ∃ k sp, rest[k]? = some sp ∧ j = i + k ∧ sp.isPrefixOf r = true ∧ l = sp.length ∧ 0 < l := by
  induction rest generalizing i best with
  | nil => left; simpa [longestIn] using h
  | cons sp rest ih =>
    rw [longestIn_step] at h
    by_cases hc : (sp.isPrefixOf r && decide (sp.length > bestLen best)) = true
    · rw [if_pos hc] at h
      simp only [Bool.and_eq_true, decide_eq_true_eq] at hc
      rcases ih (i + 1) _ h with h' | ⟨k, sp', h1, h2, h3, h4, h5⟩
      · right
        have e : i = j ∧ sp.length = l := by simpa using h'
        exact ⟨0, sp, by simp, by omega, hc.1, e.2.symm, by omega⟩
      · right; exact ⟨k + 1, sp', by simpa using h1, by omega, h3, h4, h5⟩
    · rw [if_neg hc] at h
      rcases ih (i + 1) _ h with h' | ⟨k, sp', h1, h2, h3, h4, h5⟩
      · left; exact h'
      · right; exact ⟨k + 1, sp', by simpa using h1, by omega, h3, h4, h5⟩

theorem longestIn_some_ne_none (rest : List Str) (i : Nat) (r : Str) (p : Nat × Nat) :
    longestIn rest i r (some p) ≠ none := by
  induction rest generalizing i p with
  | nil => simp [longestIn]
  | cons sp rest ih =>
    rw [longestIn_step]
    split
    · exact ih _ _
    · exact ih _ _

theorem longestIn_none (rest : List Str) (i : Nat) (r : Str) (best : Option (Nat × Nat))
    (h : longestIn rest i r best = none) : best = none := by
  cases best with
  | none => rfl
  | some p => exact absurd h (longestIn_some_ne_none rest i r p)

/-- Specification of `longestOp` (any table): the result is an entry that is a prefix of the input, and no
    entry that is a prefix of the input is longer. -/
theorem longestOp_some {r : Str} {j l : Nat} (h : longestOp r = some (j, l)) :
    ∃ sp, registered[j]? = some sp ∧ sp.isPrefixOf r = true ∧ l = sp.length ∧ 0 < l ∧
      ∀ sp' ∈ registered, sp'.isPrefixOf r = true → sp'.length ≤ l := by
  unfold longestOp at h
  rcases longestIn_prov _ _ _ _ _ _ h with h' | ⟨k, sp, h1, h2, h3, h4, h5⟩
  · simp at h'
  · refine ⟨sp, by simpa [h2] using h1, h3, h4, h5, ?_⟩
    intro sp' hm hp
    have := (longestIn_len registered 0 r none).2 sp' hm hp
    rw [h] at this
    simpa [bestLen] using this

theorem longestOp_none {r : Str} (h : longestOp r = none) :
    ∀ sp ∈ registered, sp.isPrefixOf r = true → sp = [] := by
  intro sp hm hp
  have := (longestIn_len registered 0 r none).2 sp hm hp
  unfold longestOp at h
  rw [h] at this
  simp only [bestLen] at this
  exact List.eq_nil_of_length_eq_zero (by omega)

/-! ### facts about the generated table (re-checked whenever operator.cpp changes) -/

theorem registered_nodup : registered.Nodup := by decide +kernel
theorem registered_nonempty : ∀ sp ∈ registered, sp ≠ [] := by decide +kernel

/-- no operator spelling contains a whitespace character, a NUL, a backslash or a quote -/
theorem registered_clean : ∀ sp ∈ registered, ∀ c ∈ sp,
    c ∉ whitespace ∧ c ≠ NUL ∧ c ≠ '\\' ∧ c ≠ '"' ∧ c ≠ '\'' := by decide +kernel

theorem registered_lineComment : registered[lineCommentId]? = some ['/', '/'] := by decide +kernel
theorem registered_blockComment : registered[blockCommentId]? = some ['/', '*'] := by decide +kernel

/-- every first character of an operator is itself an operator: `peekForOperator` cannot fail -/
theorem registered_first_char : ∀ sp ∈ registered, ∀ c, sp.head? = some c → [c] ∈ registered ∨ identifierStart.contains c = true := by
  decide +kernel

theorem prefix_of_isPrefixOf {a b : Str} (h : a.isPrefixOf b = true) : ∃ t, b = a ++ t := by
  have := List.isPrefixOf_iff_prefix.mp h
  obtain ⟨t, ht⟩ := this
  exact ⟨t, ht.symm⟩

theorem isPrefixOf_append (a t : Str) : a.isPrefixOf (a ++ t) = true :=
  List.isPrefixOf_iff_prefix.mpr ⟨t, rfl⟩

/-- an operator spelling followed by a character that no registered spelling continues with is found,
    with its own id -/
theorem longestOp_exact {id : Nat} {sp : Str} (hid : registered[id]? = some sp) (c : Char) (r : Str)
    (hext : ∀ sp' ∈ registered, (sp ++ [c]).isPrefixOf sp' = false) :
    longestOp (sp ++ c :: r) = some (id, sp.length) := by
  have hmem : sp ∈ registered := List.mem_of_getElem? hid
  cases h : longestOp (sp ++ c :: r) with
  | none =>
    have := longestOp_none h sp hmem (isPrefixOf_append _ _)
    exact absurd this (registered_nonempty sp hmem)
  | some p =>
    obtain ⟨j, l⟩ := p
    obtain ⟨sp', h1, h2, h3, h4, h5⟩ := longestOp_some h
    have hmem' : sp' ∈ registered := List.mem_of_getElem? h1
    have hle : sp.length ≤ l := h5 sp hmem (isPrefixOf_append _ _)
    -- sp' is not longer than sp, otherwise it would continue sp with c
    have hp' := List.isPrefixOf_iff_prefix.mp h2
    have hp : sp <+: sp ++ c :: r := ⟨_, rfl⟩
    have hl : l = sp.length := by
      rcases Nat.lt_or_ge sp.length l with hlt0 | hge
      case inr => omega
      exfalso
      have hlt : sp.length + 1 ≤ sp'.length := by omega
      have hp2 : sp ++ [c] <+: sp ++ c :: r := ⟨r, by simp⟩
      have : sp ++ [c] <+: sp' := List.prefix_of_prefix_length_le hp2 hp' (by simpa using hlt)
      have := hext sp' hmem'
      rw [List.isPrefixOf_iff_prefix.mpr ‹sp ++ [c] <+: sp'›] at this
      exact Bool.noConfusion this
    have heq : sp' = sp := by
      have : sp' <+: sp := List.prefix_of_prefix_length_le hp' hp (by omega)
      exact this.eq_of_length (by omega)
    subst heq
    have hj : j = id := by
      have hn := registered_nodup
      have hj1 : j < registered.length := (List.getElem?_eq_some_iff.mp h1).1
      have hi1 : id < registered.length := (List.getElem?_eq_some_iff.mp hid).1
      have e1 : registered[j] = sp' := (List.getElem?_eq_some_iff.mp h1).2
      have e2 : registered[id] = sp' := (List.getElem?_eq_some_iff.mp hid).2
      exact (List.getElem_inj hn).mp (e1.trans e2.symm)
    rw [hj, hl]

end Occa.Lex
