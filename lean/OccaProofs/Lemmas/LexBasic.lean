/-
Helper lemmas for C12: bounds-checked reads, the skip loops, escape/unescape.
-/
import OccaModel.Lex

namespace Occa.Lex
open Occa.Gen

/-! ### reads and advances on a known shape -/

@[simp] theorem hd_nil : hd [] = NUL := rfl
@[simp] theorem hd_cons (c : Char) (t : Str) : hd (c :: t) = c := rfl

@[simp] theorem rd_cons_one (c : Char) (t : Str) : rd (c :: t) 1 = .ok (hd t) := by
  cases t <;> simp [rd, hd]

@[simp] theorem adv_zero (r : Str) : adv r 0 = .ok r := by simp [adv]
@[simp] theorem adv_cons_one (c : Char) (t : Str) : adv (c :: t) 1 = .ok t := by simp [adv]
@[simp] theorem adv_cons_two (c d : Char) (t : Str) : adv (c :: d :: t) 2 = .ok t := by simp [adv]

theorem adv_append (w r : Str) : adv (w ++ r) w.length = .ok r := by simp [adv]

theorem adv_ok_of_le {r : Str} {k : Nat} (h : k ≤ r.length) : adv r k = .ok (r.drop k) := by
  simp [adv, h]

/-! ### suffixes -/

/-- `r'` is what is left of `r` after reading `w` -/
def Suffix (r' r : Str) : Prop := ∃ w, r = w ++ r'

theorem Suffix.refl (r : Str) : Suffix r r := ⟨[], rfl⟩
theorem Suffix.trans {a b c : Str} (h1 : Suffix a b) (h2 : Suffix b c) : Suffix a c := by
  obtain ⟨w1, rfl⟩ := h1; obtain ⟨w2, rfl⟩ := h2; exact ⟨w2 ++ w1, by simp⟩
theorem Suffix.cons {a b : Str} (c : Char) (h : Suffix a b) : Suffix a (c :: b) := by
  obtain ⟨w, rfl⟩ := h; exact ⟨c :: w, rfl⟩
theorem Suffix.length_le {a b : Str} (h : Suffix a b) : a.length ≤ b.length := by
  obtain ⟨w, rfl⟩ := h; simp
theorem Suffix.drop (r : Str) (k : Nat) : Suffix (r.drop k) r := ⟨r.take k, (List.take_append_drop k r).symm⟩
theorem Suffix.nil (r : Str) : Suffix [] r := ⟨r, by simp⟩

theorem consumed_append (w r : Str) : consumed (w ++ r) r = w := by
  simp [consumed]

/-! ### skipUntil -/

/-- the skip loops never read out of bounds and only move forward -/
theorem skipUntil_ok (stop : Char → Bool) (r : Str) : ∃ r', skipUntil stop r = .ok r' ∧ Suffix r' r := by
  fun_induction skipUntil stop r
  all_goals (try simp_all)
  all_goals first
    | exact Suffix.refl _
    | (obtain ⟨r', h1, h2⟩ := ‹∃ r', _›
       refine ⟨r', h1, ?_⟩
       repeat apply Suffix.cons
       exact h2)

@[simp] theorem skipUntil_nil (stop : Char → Bool) : skipUntil stop [] = .ok [] := rfl

theorem skipUntil_stop {stop : Char → Bool} {c : Char} (t : Str) (hc : c ≠ '\\') (hs : stop c = true) :
    skipUntil stop (c :: t) = .ok (c :: t) := by
  rw [skipUntil.eq_def]; simp [hc, hs]

theorem skipUntil_step {stop : Char → Bool} {c : Char} (t : Str) (hc : c ≠ '\\') (hs : stop c = false) :
    skipUntil stop (c :: t) = skipUntil stop t := by
  rw [skipUntil.eq_def]; simp [hc, hs]

theorem skipUntil_pair {stop : Char → Bool} {x : Char} (t : Str) (hx : x ≠ NUL) :
    skipUntil stop ('\\' :: x :: t) = skipUntil stop t := by
  rw [skipUntil.eq_def]; simp [hx]

/-- when the first character is neither a backslash nor a stop character at least one character is consumed -/
theorem skipUntil_progress {stop : Char → Bool} {c : Char} (t : Str) (hc : c ≠ '\\') (hs : stop c = false) :
    ∃ r', skipUntil stop (c :: t) = .ok r' ∧ Suffix r' t := by
  rw [skipUntil_step t hc hs]; exact skipUntil_ok stop t

/-- a run of characters that are neither backslashes nor stop characters is skipped -/
theorem skipUntil_clean {stop : Char → Bool} (w r : Str) (h : ∀ x ∈ w, x ≠ '\\' ∧ stop x = false) :
    skipUntil stop (w ++ r) = skipUntil stop r := by
  induction w with
  | nil => rfl
  | cons c t ih =>
    have hc := h c (by simp)
    rw [List.cons_append, skipUntil_step _ hc.1 hc.2]
    exact ih (fun x hx => h x (by simp [hx]))

/-- text made of plain characters (no backslash, satisfying `P`) and backslash pairs `\x` with `Q x` -/
inductive Units (P Q : Char → Prop) : Str → Prop
  | nil : Units P Q []
  | plain {c : Char} {t : Str} : c ≠ '\\' → P c → Units P Q t → Units P Q (c :: t)
  | pair {x : Char} {t : Str} : Q x → Units P Q t → Units P Q ('\\' :: x :: t)

theorem Units.append {P Q : Char → Prop} {a b : Str} (ha : Units P Q a) (hb : Units P Q b) : Units P Q (a ++ b) := by
  induction ha with
  | nil => exact hb
  | plain h1 h2 _ ih => exact Units.plain h1 h2 ih
  | pair h1 _ ih => exact Units.pair h1 ih

theorem Units.mono {P Q P' Q' : Char → Prop} {a : Str} (ha : Units P Q a)
    (hp : ∀ c, P c → P' c) (hq : ∀ c, Q c → Q' c) : Units P' Q' a := by
  induction ha with
  | nil => exact Units.nil
  | plain h1 h2 _ ih => exact Units.plain h1 (hp _ h2) ih
  | pair h1 _ ih => exact Units.pair (hq _ h1) ih

theorem Units.of_all {P Q : Char → Prop} {w : Str} (h : ∀ x ∈ w, x ≠ '\\' ∧ P x) : Units P Q w := by
  induction w with
  | nil => exact Units.nil
  | cons c t ih =>
    exact Units.plain (h c (by simp)).1 (h c (by simp)).2 (ih (fun x hx => h x (by simp [hx])))

/-- units whose plain characters do not stop the loop are skipped entirely -/
theorem skipUntil_units {stop : Char → Bool} {w : Str} (r : Str)
    (h : Units (fun c => stop c = false) (fun x => x ≠ NUL) w) :
    skipUntil stop (w ++ r) = skipUntil stop r := by
  induction h with
  | nil => rfl
  | plain h1 h2 _ ih => rw [List.cons_append, skipUntil_step _ h1 h2]; exact ih
  | pair h1 _ ih => rw [List.cons_append, List.cons_append, skipUntil_pair _ h1]; exact ih

/-! ### escape / unescape -/

/-- the values the string and char scanners can produce (delimiter `q`): plain characters other than
    backslash and newline (the delimiter itself comes from `\q`) and pairs `\x` with `x ≠ q` -/
def ValUnits (q : Char) (v : Str) : Prop :=
  Units (fun c => c ≠ '\n' ∧ c ≠ NUL) (fun x => x ≠ q ∧ x ≠ NUL) v

theorem hd_escape_ne (q : Char) (hq : q ≠ '\\') (hn : q ≠ NUL) (t : Str) : hd (escape q t) ≠ q := by
  cases t with
  | nil => simpa [escape] using hn.symm
  | cons c t =>
    by_cases h : c = q
    · simpa [escape, h] using hq.symm
    · simp [escape, h]

/-- printing a scanner value gives text that the skip loop crosses completely -/
theorem escape_units {q : Char} (hq : q ≠ '\\') (hn : q ≠ NUL) {v : Str} (h : ValUnits q v) :
    Units (fun c => c ≠ q ∧ c ≠ '\n') (fun x => x ≠ NUL) (escape q v) := by
  induction h with
  | nil => exact Units.nil
  | @plain c t h1 h2 _ ih =>
    by_cases hc : c = q
    · simp only [escape, hc, if_true]; exact Units.pair hn ih
    · simp only [escape, hc, if_false]; exact Units.plain h1 ⟨hc, h2.1⟩ ih
  | @pair x t h1 _ ih =>
    have e1 : ('\\' : Char) ≠ q := fun e => hq e.symm
    simp only [escape, e1, h1.1, if_false]
    exact Units.pair h1.2 ih

/-- `unescape` undoes `escape` on every scanner value (fix F16 is what makes index 0 work) -/
theorem unescape_escape {q : Char} (hq : q ≠ '\\') (hn : q ≠ NUL) {v : Str} (h : ValUnits q v) :
    unescape q (escape q v) = v := by
  induction h with
  | nil => rfl
  | @plain c t h1 h2 _ ih =>
    by_cases hc : c = q
    · subst hc
      simp [escape, unescape, h1, ih]
    · simp [escape, unescape, hc, h1, ih]
  | @pair x t h1 _ ih =>
    have e1 : ('\\' : Char) ≠ q := fun e => hq e.symm
    have e2 := hd_escape_ne q hq hn t
    simp [escape, unescape, e1, h1.1, e2, ih]

end Occa.Lex
