/-
Creating calls: `device.malloc` (buffer + slice) and a new device.
-/
import OccaProofs.Lemmas.GcOps4

namespace Occa.Gc

/-- pattern C: `device::malloc`: a new buffer in the device's ring with its first slice, the slice
    returned through a temporary handle -/
theorem InvX.new_malloc {s : St} (hi : InvX E s) {dv : Nat} (hda : s.alive dv = true)
    (hdk : s.kind dv = .dev) (htl : s.vlive (.tmp .mem) = false) (n : Nat) :
    let s1 := (s.alloc .buf (some dv) n).1
    let s2 := s1.chSet .buf dv (Ring.add (s1.chGet .buf dv) s.next)
    let s3 := (s2.alloc .mem (some s.next) n).1
    let s4 := s3.setKids s.next (Ring.add (s3.kids s.next) s2.next)
    let s5 := s4.addBytes dv n
    InvX E (tempOf s5 .mem s2.next) ∧ TempOut s5 (tempOf s5 .mem s2.next) .mem s2.next
      ∧ s5.vlive = s.vlive ∧ s5.ptr = s.ptr ∧ s2.next = s.next + 1
      ∧ (∀ x, s5.alive x = if x = s.next + 1 then true else if x = s.next then true else s.alive x)
      ∧ (∀ x, s5.kind x = if x = s.next + 1 then .mem else if x = s.next then .buf else s.kind x) := by
  intro s1 s2 s3 s4 s5
  obtain ⟨h2, g2, n2, hch2, _⟩ := child_link hi.toInv00 (K := .buf) (ks := .buf) (dv := dv)
    (by decide) (by decide) rfl hda hdk n
  obtain ⟨f1, f2, f3, f4, f5, f6, f7, f8⟩ := hi.toInv00.fresh (Nat.le_refl s.next)
  have e2 : s2.next = s.next + 1 := n2.next
  have hNa : s2.alive s.next = true := by rw [n2.alive]; simp
  have hNk : s2.kind s.next = .buf := by rw [n2.kind]; simp
  have hnin2 : ∀ p, s2.alive p = true → s2.inner p ≠ some s.next := by
    intro p hpa hin
    rw [n2.inner] at hin
    rw [n2.alive] at hpa
    split at hin
    · cases hin
    · rename_i hp
      simp only [hp, if_false] at hpa
      exact f8 p hpa hin
  obtain ⟨h4, g4, n4, hmem4⟩ := mem_link h2 hNa (Or.inl hNk) hnin2 n
  have h5 : Inv00 E s5 := h4.addBytes dv n
  have g5 : Grow s4 s5 := Grow.addBytes s4 dv n
  have hg : Grow s s5 := by
    have g24 : Grow s s4 := g2.trans g4 (by rw [e2]; omega)
    refine g24.trans g5 ?_
    show s.next ≤ s4.next
    rw [n4.next, e2]; omega
  have h5next : s5.next = s.next + 2 := by
    show s4.next = _
    rw [n4.next, e2]
  have h5alive : ∀ x, s5.alive x = if x = s.next + 1 then true else if x = s.next then true else s.alive x := by
    intro x
    show s4.alive x = _
    rw [n4.alive, e2, n2.alive]
  have h5kind : ∀ x, s5.kind x = if x = s.next + 1 then .mem else if x = s.next then .buf else s.kind x := by
    intro x
    show s4.kind x = _
    rw [n4.kind, e2, n2.kind]
  have h5par : ∀ x, s5.par x = if x = s.next + 1 then some s.next else if x = s.next then some dv else s.par x := by
    intro x
    show s4.par x = _
    rw [n4.par, e2, n2.par]
  have hdn : dv ≠ s.next := by intro h; rw [h, f1] at hda; cases hda
  have hdn1 : dv ≠ s.next + 1 := by
    intro h
    have := hi.alive_lt dv hda
    omega
  have h5kids : s.next + 1 ∈ s5.kids s.next := by
    show s.next + 1 ∈ s4.kids s.next
    rw [← e2]; exact hmem4
  have h5ch : s.next ∈ s5.chGet .buf dv := g5.ch _ _ _ (g4.ch _ _ _ hch2)
  have honly : ∀ c, s.next ≤ c → s5.alive c = true → c = s.next ∨ c = s.next + 1 := by
    intro c hc hca
    have := h5.alive_lt c hca
    rw [h5next] at this
    omega
  obtain ⟨h0L, hrn, hbn⟩ := pos_all hi hg h5
    (by
      intro c hc hca _ hk2
      rcases honly c hc hca with h | h
      · subst h
        refine ⟨dv, by rw [h5par]; simp, by rw [h5alive]; simp [hdn, hdn1, hda],
          by rw [h5kind]; simp [hdn, hdn1, hdk], Or.inl ?_⟩
        have : s5.kind s.next = .buf := by rw [h5kind]; simp
        rw [this]; exact h5ch
      · subst h
        exfalso; apply hk2; rw [h5kind]; simp)
    (by
      intro m hm hma hmk
      rcases honly m hm hma with h | h
      · subst h
        rw [h5kind] at hmk; simp at hmk
      · subst h
        exact ⟨s.next, by rw [h5par]; simp, h5kids⟩)
    (by
      intro b hb hba hbk
      rcases honly b hb hba with h | h
      · subst h
        left
        intro hnil
        rw [hnil] at h5kids; simp at h5kids
      · subst h
        rw [h5kind] at hbk; simp at hbk)
  have hrn' : ∀ x, x ≠ s2.next → s5.alive x = true → s5.kind x ≠ .buf → s5.useRefs x = true → s5.ring x ≠ [] := by
    intro x hx hxa hxk hxu
    rw [e2] at hx
    have hlt : x < s.next := by
      by_cases h : x < s.next
      · exact h
      · rcases honly x (by omega) hxa with h' | h'
        · subst h'
          exfalso; apply hxk; rw [h5kind]; simp
        · exact absurd h' hx
    exact hrn x hlt hxa hxk hxu
  obtain ⟨r1, r2⟩ := attach_new (hk := .mem) (o := s2.next) h0L hrn' hbn (by rw [e2, h5alive]; simp)
    (by rw [e2, h5kind]; simp; rfl) (by
      show s4.vlive _ = false
      rw [n4.vlive, n2.vlive]; exact htl)
  refine ⟨r1, r2, ?_, ?_, e2, h5alive, h5kind⟩
  · show s4.vlive = _
    rw [n4.vlive, n2.vlive]
  · show s4.ptr = _
    rw [n4.ptr, n2.ptr]

/-- pattern D: a new device object with its member `currentStream` constructed, referenced by the
    temporary device handle -/
theorem InvX.new_dev {s : St} (hi : InvX E s) (htl : s.vlive (.tmp .dev) = false) :
    let sA := (s.alloc .dev none 0).1
    let sC := construct sA (.cur s.next)
    InvX E (tempOf sC .dev s.next) ∧ TempOut sC (tempOf sC .dev s.next) .dev s.next
      ∧ sC.next = s.next + 1 ∧ sC.ptr = s.ptr
      ∧ (∀ w, sC.vlive w = if w = Var.cur s.next then true else s.vlive w)
      ∧ (∀ x, sC.alive x = if x = s.next then true else s.alive x)
      ∧ (∀ x, sC.kind x = if x = s.next then .dev else s.kind x) := by
  intro sA sC
  obtain ⟨a1, a2, a3, a4, a5, a6, a7, a8, a9, a10, a11⟩ := alloc_fields s .dev none 0
  obtain ⟨f1, f2, f3, f4, f5, f6, f7, f8⟩ := hi.toInv00.fresh (Nat.le_refl s.next)
  have hA : Inv00 E sA := hi.toInv00.alloc_only .dev none 0
  have hcl : s.vlive (.cur s.next) = false := by
    cases h : s.vlive (.cur s.next)
    · rfl
    · have := hi.cur_lt s.next h; omega
  have hcp : sA.ptr (.cur s.next) = none := by
    rw [a2]
    cases h : s.ptr (.cur s.next) with
    | none => rfl
    | some x =>
      have := hi.ptr_live _ x h
      rw [hcl] at this; cases this
  have hCe : sC = sA.setVLive (.cur s.next) true := by
    show construct sA (.cur s.next) = _
    unfold construct
    exact setPtr_none_self _ _ hcp
  have hC : Inv00 E sC := by
    rw [hCe]
    refine ⟨hA.notrap, hA.alive_lt, hA.dtors_eq, hA.ptr_ok, ?_, hA.ring_ptr, hA.ring_nodup, hA.ex_out, ?_,
      hA.kids_ok, hA.kids_nodup, ?_, ?_, ?_, hA.inner_inj⟩
    · intro w x hw
      show upd sA.vlive (.cur s.next) true w = true
      by_cases h : w = .cur s.next
      · rw [h, upd_same]
      · rw [upd_other _ _ h]; exact hA.ptr_live w x hw
    · intro d hd
      have hd' : upd sA.vlive (.cur s.next) true (.cur d) = true := hd
      show d < sA.next
      by_cases h : Var.cur d = .cur s.next
      · cases h; rw [a1]; omega
      · rw [upd_other _ _ h] at hd'; exact hA.cur_lt d hd'
    · intro k d c hc
      have : c ∈ sA.chGet k d := by cases k <;> exact hc
      exact hA.ch_ok k d c this
    · intro k d
      have : (sA.setVLive (.cur s.next) true).chGet k d = sA.chGet k d := by cases k <;> rfl
      rw [this]; exact hA.ch_nodup k d
    · intro p i hpa hin
      obtain ⟨q1, q2, q3, q4, q5, q6⟩ := hA.inner_ok p i hpa hin
      refine ⟨q1, q2, q3, q4, q5, ?_⟩
      intro k d hx
      have : i ∈ sA.chGet k d := by cases k <;> exact hx
      exact q6 k d this
  have hCalive : ∀ x, sC.alive x = if x = s.next then true else s.alive x := by rw [hCe]; exact a5
  have hCkind : ∀ x, sC.kind x = if x = s.next then .dev else s.kind x := by rw [hCe]; exact a6
  have hCnext : sC.next = s.next + 1 := by rw [hCe]; exact a1
  have hg : Grow s sC := by
    rw [hCe]
    have ne : ∀ x, x < s.next → x ≠ s.next := fun x hx => by omega
    refine ⟨?_, ?_, ?_, ?_, ?_, ?_, ?_, ?_⟩
    · intro x hx; show sA.alive x = _; rw [a5]; simp [ne x hx]
    · intro x hx; show sA.kind x = _; rw [a6]; simp [ne x hx]
    · intro x hx; show sA.par x = _; rw [a7]; simp [ne x hx]
    · intro x hx; show sA.ring x = _; rw [a8]; simp [ne x hx]
    · intro x hx; show sA.useRefs x = _; rw [a10]; simp [ne x hx]
    · intro x i hx hin; show sA.inner x = _; rw [a11]; simp [ne x hx, hin]
    · intro b x hx
      have hb : b ≠ s.next := by intro h; rw [h, f3] at hx; simp at hx
      show x ∈ sA.kids b
      rw [a9]; simp only [hb, if_false]; exact hx
    · intro k d x hx
      have hd : d ≠ s.next := by intro h; rw [h, f4 k] at hx; simp at hx
      have : (sA.setVLive (.cur s.next) true).chGet k d = sA.chGet k d := by cases k <;> rfl
      rw [this, alloc_chGet]; simp only [hd, if_false]; exact hx
  have honly : ∀ c, s.next ≤ c → sC.alive c = true → c = s.next := by
    intro c hc hca
    have := hC.alive_lt c hca
    rw [hCnext] at this
    omega
  have hkN : sC.kind s.next = .dev := by rw [hCkind]; simp
  obtain ⟨h0L, hrn, hbn⟩ := pos_all hi hg hC
    (by
      intro c hc hca hk1 _
      have := honly c hc hca
      subst this
      exact absurd hkN hk1)
    (by
      intro m hm hma hmk
      have := honly m hm hma
      subst this
      rw [hkN] at hmk; cases hmk)
    (by
      intro b hb hba hbk
      have := honly b hb hba
      subst this
      rw [hkN] at hbk; cases hbk)
  have hrn' : ∀ x, x ≠ s.next → sC.alive x = true → sC.kind x ≠ .buf → sC.useRefs x = true → sC.ring x ≠ [] := by
    intro x hx hxa hxk hxu
    have hlt : x < s.next := by
      have := hC.alive_lt x hxa
      rw [hCnext] at this
      omega
    exact hrn x hlt hxa hxk hxu
  have hCvl : ∀ w, sC.vlive w = if w = Var.cur s.next then true else s.vlive w := by
    intro w; rw [hCe]; rfl
  obtain ⟨r1, r2⟩ := attach_new (hk := .dev) (o := s.next) h0L hrn' hbn (by rw [hCalive]; simp)
    (by rw [hkN]; rfl) (by rw [hCvl]; simp; exact htl)
  exact ⟨r1, r2, hCnext, by rw [hCe]; exact a2, hCvl, hCalive, hCkind⟩

end Occa.Gc
