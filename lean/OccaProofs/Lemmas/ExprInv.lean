/-
The invariant that ties the shape automaton (`shStep`), the parser state (`step`) and the
tokens consumed so far.
-/
import OccaProofs.Lemmas.ExprPop

namespace Occa.Expr
open Occa.Gen

/-- one scope of the parser: frames above the open pair, the open pair (none for the root scope),
    and the operand on top if there is one -/
structure Lvl where
  pre : List Frame
  base : Option OpNode
  top : Option Expr

def baseFrames (b : Option OpNode) : List Frame :=
  match b with
  | some n => [Frame.opn n]
  | none => []

def Lvl.fs (l : Lvl) : List Frame := l.pre ++ baseFrames l.base

def Lvl.toks (l : Lvl) : List Tok := scopeToks l.fs l.top

structure Lvl.Good (l : Lvl) : Prop where
  frames : FramesOk l.fs
  noOpn : ∀ f ∈ l.pre, f.isOpn = false
  topOk : ∀ e, l.top = some e → colonLu e = false
  topCanon : ∀ e, l.top = some e → canonB e = true ∧ rootPrec e = 0

/-- a scope matches its description -/
def Lvl.Rep (l : Lvl) (sc : Scope) : Prop := sc.out = scopeOut l.fs l.top ∧ sc.ops = scopeOps l.fs

/-- an open pair: the enclosing level `par`, the opener `n`, the shape entry and `before` -/
structure PairOk (par : Lvl) (n : OpNode) (sh : ShScope) (before : Option Tok) : Prop where
  closer : sh.closerTy = shl1 n.op.ty
  kind : if sh.inE then has n.op.ty T.parentheses = true ∨ has n.op.ty T.braces = true
         else has n.op.ty T.parentheses = true ∨ has n.op.ty T.brackets = true
  parTop : (if sh.inE then par.top = none else par.top.isSome = true) ∧
           (∀ f, par.fs.head? = some f → f.isPost = false)
  before : if sh.inE then (before = none ∨ ∃ b, before = some (.op b) ∧ has b.ty T.pairEnd = false)
           else ((∃ t, before = some t ∧ (∀ o, t ≠ .op o)) ∨ ∃ b, before = some (.op b) ∧ has b.ty T.pairEnd = true)
  savedQ : sh.savedQ = questCount par.fs
  cast : sh.inE = true → sh.castOk = true → ∀ f, par.fs.head? = some f → f.accepts Op.parenCast.prec = true

/-- the levels of the state, innermost first, with the scopes they describe -/
inductive Levels : Lvl → List Lvl → Scope → List Scope → List ShScope → Prop
  | root (l : Lvl) (sc : Scope) : l.Rep sc → l.Good → l.base = none → Levels l [] sc [] []
  | push (l par : Lvl) (stk : List Lvl) (sc psc : Scope) (pstack : List Scope) (sh : ShScope) (shs : List ShScope)
      (n : OpNode) :
      l.Rep sc → l.Good → l.base = some n → PairOk par n sh sc.before → Levels par stk psc pstack shs →
      Levels l (par :: stk) sc (psc :: pstack) (sh :: shs)

def allToks (cur : Lvl) (stk : List Lvl) : List Tok :=
  (stk.reverse.flatMap Lvl.toks) ++ cur.toks

/-- what the previous token says about the top of the current scope, in operand position -/
def PrevE (s : Sh) (cur : Lvl) : Prop :=
  cur.top = none ∧ (∀ f, cur.fs.head? = some f → f.isPost = false) ∧
  (if s.prevCastEnd then ∃ n fs', cur.fs = Frame.pre n :: fs' ∧ n.op = .parenCast
   else (cur.fs = [] ∧ s.prev = none) ∨
        (∃ f fs', cur.fs = f :: fs' ∧ s.prev = some (.op f.node.op)))

/-- ... and after an operand -/
def PrevO (s : Sh) (cur : Lvl) : Prop :=
  s.prevCastEnd = false ∧ ModeO cur.fs cur.top ∧
  ((cur.top.isSome = true ∧ ((∃ t, s.prev = some t ∧ (∀ o, t ≠ .op o)) ∨
                              (∃ b, s.prev = some (.op b) ∧ has b.ty T.pairEnd = true))) ∨
   (cur.top = none ∧ ∃ n e fs', cur.fs = Frame.post n e :: fs' ∧ s.prev = some (.op n.op)))

def ContentOk (s : Sh) (cur : Lvl) : Prop :=
  match s.content with
  | .empty => cur.pre = [] ∧ cur.top = none
  | .oneType => cur.pre = [] ∧ ∃ n k, cur.top = some (.vtype n k)
  | .other => ¬ (cur.pre = [] ∧ (cur.top = none ∨ ∃ n k, cur.top = some (.vtype n k)))

structure Inv (s : Sh) (σ : St) (consumed : List Tok) (cur : Lvl) (stk : List Lvl) : Prop where
  levels : Levels cur stk σ.cur σ.stack s.stack
  toks : consumed = allToks cur stk
  prev : σ.prev = s.prev
  castEnd : σ.prevCastEnd = s.prevCastEnd
  mode : if s.needOperand then PrevE s cur else PrevO s cur
  pending : s.pendingQ = questCount cur.fs
  content : ContentOk s cur

/-- replacing the current level by another one over the same open pair -/
theorem Levels.replaceCur {cur cur' : Lvl} {stk : List Lvl} {sc sc' : Scope} {stack : List Scope} {shs : List ShScope}
    (h : Levels cur stk sc stack shs) (hrep : cur'.Rep sc') (hgood : cur'.Good)
    (hbase : cur'.base = cur.base) (hbefore : sc'.before = sc.before) :
    Levels cur' stk sc' stack shs := by
  cases h with
  | root _ _ _ _ hb => exact Levels.root cur' sc' hrep hgood (by rw [hbase, hb])
  | push _ par stk' _ psc pstack sh shs' n _ _ hb hp hl =>
    exact Levels.push cur' par stk' sc' psc pstack sh shs' n hrep hgood (by rw [hbase, hb]) (by rw [hbefore]; exact hp) hl

theorem allToks_replace (cur cur' : Lvl) (stk : List Lvl) (extra : List Tok)
    (h : cur'.toks = cur.toks ++ extra) : allToks cur' stk = allToks cur stk ++ extra := by
  simp [allToks, h, List.append_assoc]

/-- a suffix of the frames left by a reduction still contains the open pair -/
theorem split_base (pre : List Frame) (b : Option OpNode) (dropped fs' : List Frame)
    (h : pre ++ baseFrames b = dropped ++ fs') (hd : ∀ f ∈ dropped, f.isOpn = false) :
    ∃ pre', fs' = pre' ++ baseFrames b ∧ pre = dropped ++ pre' := by
  induction dropped generalizing pre with
  | nil => exact ⟨pre, by simpa using h.symm, by simp⟩
  | cons d ds ih =>
    cases pre with
    | nil =>
      cases b with
      | none => simp [baseFrames] at h
      | some n =>
        simp [baseFrames] at h
        have := hd d (by simp)
        rw [← h.1] at this; simp [Frame.isOpn] at this
    | cons p ps =>
      simp only [List.cons_append, List.cons.injEq] at h
      obtain ⟨pre', h1, h2⟩ := ih ps h.2 (fun f hf => hd f (by simp [hf]))
      exact ⟨pre', h1, by rw [h.1, h2]; simp⟩

theorem reducible_notOpn {f : Frame} (h : f.reducible = true) : f.isOpn = false := by
  simp [Frame.reducible] at h; exact h.1

/-- tokens as the tokenizer produces them: operators are the registered ones -/
def Lexed (ts : List Tok) : Prop := ∀ o, Tok.op o ∈ ts → o ∈ registered

theorem Lexed_of_lexedB (ts : List Tok) (h : lexedB ts = true) : Lexed ts := by
  intro o ho
  simp only [lexedB, List.all_eq_true] at h
  have := h (.op o) ho
  simpa using this

end Occa.Expr
