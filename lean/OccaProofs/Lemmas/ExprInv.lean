/-
The invariant that ties the shape automaton (`shStep`), the parser state (`step`) and the
tokens consumed so far, and its preservation by every token.
-/
import OccaProofs.Lemmas.ExprPop

namespace Occa.Expr
open Occa.Gen

/-- one scope of the parser described by frames -/
structure Lvl where
  fs : List Frame
  top : Option Expr

def Lvl.toks (l : Lvl) : List Tok := scopeToks l.fs l.top

/-- the frames of a scope: reducible-or-`?` frames above the open pair (none for the root) -/
def Based (fs : List Frame) (root : Bool) : Prop :=
  if root then ∀ f ∈ fs, f.isOpn = false
  else ∃ pre n, fs = pre ++ [Frame.opn n] ∧ ∀ f ∈ pre, f.isOpn = false

def baseOnly (fs : List Frame) : Prop := ∀ f ∈ fs, f.isOpn = true

def Lvl.Good (l : Lvl) (root : Bool) : Prop :=
  FramesOk l.fs ∧ Based l.fs root ∧ (∀ e, l.top = some e → colonLu e = false)

/-- a scope matches its description -/
def Lvl.Rep (l : Lvl) (sc : Scope) : Prop := sc.out = scopeOut l.fs l.top ∧ sc.ops = scopeOps l.fs

/-- an open pair: the enclosing level `par`, the shape entry `sh`, and `before` of the inner scope -/
structure PairOk (par : Lvl) (inner : List Frame) (sh : ShScope) (before : Option Tok) : Prop where
  opener : ∃ pre n, inner = pre ++ [Frame.opn n] ∧ sh.closerTy = shl1 n.op.ty ∧
            (if sh.inE then has n.op.ty T.parentheses = true ∨ has n.op.ty T.braces = true
             else has n.op.ty T.parentheses = true ∨ has n.op.ty T.brackets = true)
  parTop : if sh.inE then par.top = none ∧ (∀ f, par.fs.head? = some f → f.isPost = false)
           else par.top.isSome = true ∧ (∀ f, par.fs.head? = some f → f.isPost = false)
  before : if sh.inE then (before = none ∨ ∃ b, before = some (.op b) ∧ has b.ty T.pairEnd = false)
           else ((∃ t, before = some t ∧ (∀ o, t ≠ .op o)) ∨ ∃ b, before = some (.op b) ∧ has b.ty T.pairEnd = true)
  savedQ : sh.savedQ = questCount par.fs

/-- the levels of the state, innermost first, with the scopes they describe -/
inductive Levels : Lvl → List Lvl → Scope → List Scope → List ShScope → Prop
  | root (l : Lvl) (sc : Scope) : l.Rep sc → l.Good true → Levels l [] sc [] []
  | push (l par : Lvl) (stk : List Lvl) (sc psc : Scope) (pstack : List Scope) (sh : ShScope) (shs : List ShScope) :
      l.Rep sc → l.Good false → PairOk par l.fs sh sc.before → Levels par stk psc pstack shs →
      Levels l (par :: stk) sc (psc :: pstack) (sh :: shs)

def allToks (cur : Lvl) (stk : List Lvl) : List Tok :=
  (stk.reverse.flatMap Lvl.toks) ++ cur.toks

/-- what the previous token says about the top of the current scope, in operand position -/
def PrevE (s : Sh) (cur : Lvl) : Prop :=
  cur.top = none ∧ (∀ f, cur.fs.head? = some f → f.isPost = false) ∧
  (if s.prevCastEnd then ∃ n fs', cur.fs = Frame.pre n :: fs' ∧ n.op = .parenCast
   else (cur.fs = [] ∧ s.prev = none) ∨
        (∃ f fs', cur.fs = f :: fs' ∧ s.prev = some (.op f.node.op) ∧ f.node.op ≠ .parenCast))

/-- ... and after an operand -/
def PrevO (s : Sh) (cur : Lvl) : Prop :=
  s.prevCastEnd = false ∧ ModeO cur.fs cur.top ∧
  ((cur.top.isSome = true ∧ ((∃ t, s.prev = some t ∧ (∀ o, t ≠ .op o)) ∨
                              (∃ b, s.prev = some (.op b) ∧ has b.ty T.pairEnd = true))) ∨
   (cur.top = none ∧ ∃ n e fs', cur.fs = Frame.post n e :: fs' ∧ s.prev = some (.op n.op)))

def ContentOk (s : Sh) (cur : Lvl) : Prop :=
  match s.content with
  | .empty => baseOnly cur.fs ∧ cur.top = none
  | .oneType => baseOnly cur.fs ∧ ∃ n k, cur.top = some (.vtype n k)
  | .other => ¬ (baseOnly cur.fs ∧ ∃ n k, cur.top = some (.vtype n k))

structure Inv (s : Sh) (σ : St) (consumed : List Tok) (cur : Lvl) (stk : List Lvl) : Prop where
  levels : Levels cur stk σ.cur σ.stack s.stack
  toks : consumed = allToks cur stk
  prev : σ.prev = s.prev
  castEnd : σ.prevCastEnd = s.prevCastEnd
  mode : if s.needOperand then PrevE s cur else PrevO s cur
  pending : s.pendingQ = questCount cur.fs
  content : ContentOk s cur

/-- tokens as the tokenizer produces them: operators are the registered ones -/
def Lexed (ts : List Tok) : Prop := ∀ o, Tok.op o ∈ ts → o ∈ registered

end Occa.Expr
