/-
`delete` of a buffer or memory pool (`deleteBuf`).
-/
import OccaProofs.Lemmas.GcDelete3

namespace Occa.Gc

theorem mem_bufK (s : St) (b x : Nat) :
    x ∈ bufK s b ↔ (x = b ∨ (s.kind b = .pool ∧ s.inner b = some x) ∨ x ∈ s.kids b) := by
  unfold bufK
  by_cases hk : s.kind b = .pool
  · cases hi : s.inner b with
    | none => simp [hk]
    | some i =>
      simp only [hk, if_true, Option.toList_some, List.mem_append, List.mem_singleton, true_and,
        Option.some.injEq]
      constructor
      · rintro ((h | h) | h)
        · exact Or.inl h
        · exact Or.inr (Or.inl h.symm)
        · exact Or.inr (Or.inr h)
      · rintro (h | h | h)
        · exact Or.inl (Or.inl h)
        · exact Or.inl (Or.inr h.symm)
        · exact Or.inr h
  · simp [hk]

theorem deleteBuf_core {ex : Var → Prop} {s : St} {b d : Nat} (hi : Inv00 ex s) (ha : s.alive b = true)
    (hk : s.kind b = .buf ∨ s.kind b = .pool) (hp : s.par b = some d) (hda : s.alive d = true)
    (hdk : s.kind d = .dev) :
    Killed s (bufK s b) (deleteBuf s b) ∧ (deleteBuf s b).kids b = []
      ∧ b ∉ (deleteBuf s b).chGet .buf d := by
  have hkd : s.kind b ≠ .dev := by rcases hk with h | h <;> rw [h] <;> decide
  have hkm : s.kind b ≠ .mem := by rcases hk with h | h <;> rw [h] <;> decide
  have hdb : d ≠ b := by intro h; rw [h] at hdk; exact hkd hdk
  have hkids : ∀ m ∈ s.kids b, s.alive m = true ∧ s.kind m = .mem ∧ (s.ring m).Nodup :=
    fun m hm => ⟨(hi.kids_ok b m hm).1, (hi.kids_ok b m hm).2.1, hi.ring_nodup m⟩
  have hdnk : d ∉ s.kids b := by
    intro h; have := (hkids d h).2.1; rw [hdk] at this; cases this
  have hbnk : b ∉ s.kids b := fun h => hkm (hkids b h).2.1
  have hmb : ∀ m ∈ s.kids b, m ≠ b := fun m hm h => hbnk (h ▸ hm)
  -- the state after `died b` and NULLing the wrappers of b
  have base : ∀ (hr : (s.ring b).Nodup),
      Killed (killForm s b) (s.kids b) (dtorBufBase (killForm s b) b)
        ∧ (dtorBufBase (killForm s b) b).kids b = []
        ∧ b ∉ (dtorBufBase (killForm s b) b).chGet .buf d := by
    intro _
    have := dtorBufBase_killed (s := killForm s b) (b := b) (d := d) hp (by simp [killForm])
      (by simp [killForm, upd_apply, hdb, hda]) hdnk hbnk (hi.kids_nodup b)
      (by
        intro m hm
        have hm' := hkids m hm
        have hne := hmb m hm
        exact ⟨by simp [killForm, upd_apply, hne, hm'.1], by simp [killForm, upd_apply, hne, hm'.2.2]⟩)
      (by simpa using hi.ch_nodup .buf d)
    exact ⟨this.1, this.2.1, this.2.2.1⟩
  rcases hk with hkb | hkp
  · -- plain buffer
    have hr : s.ring b = [] := hi.buf_ring hkb
    have he : deleteBuf s b = dtorBufBase (killForm s b) b := by
      unfold deleteBuf
      simp only [died_kind, hkb, reduceCtorEq, ↓reduceIte]
      rw [died_eq_killForm ha hr]
    rw [he]
    obtain ⟨b1, b2, b3⟩ := base (by rw [hr]; exact List.nodup_nil)
    refine ⟨?_, b2, b3⟩
    have := (killForm_killed (s := s) (o := b)).trans b1
    have hK : bufK s b = [b] ++ s.kids b := by simp [bufK, hkb]
    rw [hK]; exact this
  · -- memory pool
    have hn := hi.ring_nodup b
    cases hin : s.inner b with
    | none =>
      have he : deleteBuf s b = dtorBufBase (killForm s b) b := by
        unfold deleteBuf
        simp only [died_kind, hkp, ↓reduceIte]
        rw [kill1_eq ha hn]
        have : (killForm s b).inner b = none := hin
        simp only [this]
      rw [he]
      obtain ⟨b1, b2, b3⟩ := base hn
      refine ⟨?_, b2, b3⟩
      have := (killForm_killed (s := s) (o := b)).trans b1
      have hK : bufK s b = [b] ++ s.kids b := by simp [bufK, hkp, hin]
      rw [hK]; exact this
    | some i =>
      obtain ⟨_, q2, q3, q4, q5, q6⟩ := hi.inner_ok b i ha hin
      have hib : i ≠ b := by intro h; rw [h, hkp] at q3; cases q3
      have hdi : d ≠ i := by intro h; rw [h, q3] at hdk; cases hdk
      have hri : s.ring i = [] := hi.buf_ring q3
      let s1 := killForm s b
      have hs1i : s1.alive i = true := by simp [s1, killForm, upd_apply, hib, q2]
      have hs1r : s1.ring i = [] := by simp [s1, killForm, upd_apply, hib, hri]
      have he : deleteBuf s b = dtorBufBase (dtorBufBase (killForm s1 i) i) b := by
        unfold deleteBuf
        simp only [died_kind, hkp, ↓reduceIte]
        rw [kill1_eq ha hn]
        have : (killForm s b).inner b = some i := hin
        simp only [this]
        rw [died_eq_killForm hs1i hs1r]
      rw [he]
      let s2 := killForm s1 i
      have hk12 : Killed s ([b] ++ [i]) s2 := (killForm_killed (s := s) (o := b)).trans killForm_killed
      have hs2kidsi : s2.kids i = [] := q4
      have h3 := dtorBufBase_killed (s := s2) (b := i) (d := d) (by show s.par i = some d; rw [q5]; exact hp)
        (by simp [s2, killForm])
        (by simp [s2, s1, killForm, upd_apply, hdi, hdb, hda])
        (by rw [hs2kidsi]; simp) (by rw [hs2kidsi]; simp) (by rw [hs2kidsi]; exact List.nodup_nil)
        (by rw [hs2kidsi]; simp) (by simpa [s2, s1] using hi.ch_nodup .buf d)
      obtain ⟨c1, _, _, c4, c5⟩ := h3
      rw [hs2kidsi] at c1
      generalize hs3 : dtorBufBase s2 i = s3 at *
      have hk13 : Killed s ([b] ++ [i]) s3 := by simpa using hk12.trans c1
      have hs3kids : s3.kids b = s.kids b := by rw [c5 b hib.symm]; rfl
      have hs3par : s3.par b = some d := by
        rw [c4 b (by rw [hs2kidsi]; simp)]; exact hp
      have h4 := dtorBufBase_killed (s := s3) (b := b) (d := d) hs3par
        (by rw [hk13.alive]; simp)
        (by rw [hk13.alive]; simp [hda, hdb, hdi])
        (by rw [hs3kids]; exact hdnk) (by rw [hs3kids]; exact hbnk) (by rw [hs3kids]; exact hi.kids_nodup b)
        (by
          intro m hm
          rw [hs3kids] at hm
          have hm' := hkids m hm
          have hne := hmb m hm
          have hmi : m ≠ i := by intro h; rw [h, q3] at hm'; cases hm'.2.1
          constructor
          · rw [hk13.alive]; simp [hm'.1, hne, hmi]
          · rw [hk13.ring]; simp [hne, hmi, hm'.2.2])
        (hk13.chN _ _ (hi.ch_nodup .buf d))
      obtain ⟨e1, e2, e3, _, _⟩ := h4
      refine ⟨?_, e2, e3⟩
      have := hk13.trans e1
      rw [hs3kids] at this
      have hK : bufK s b = [b] ++ [i] ++ s.kids b := by simp [bufK, hkp, hin]
      rw [hK]; exact this

end Occa.Gc
