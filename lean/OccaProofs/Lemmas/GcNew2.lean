/-
Registering a new object with its owner, and handing it to the temporary handle that the creating
call returns.
-/
import OccaProofs.Lemmas.GcNew

namespace Occa.Gc

/-- `modeDevice->addXRef(this)` of a new child of a device -/
theorem Inv00.link_ch {s : St} (hi : Inv00 E s) {k : Kind} {c d : Nat} (hca : s.alive c = true)
    (hcp : s.par c = some d) (hda : s.alive d = true) (hdk : s.kind d = .dev)
    (hslot : slot (s.kind c) = slot k) (hc1 : s.kind c ≠ .dev) (hc2 : s.kind c ≠ .mem)
    (hnin : ∀ p, s.alive p = true → s.inner p ≠ some c) :
    Inv00 E (s.chSet k d (Ring.add (s.chGet k d) c)) := by
  obtain ⟨f1, f2, f3, f4, f5, f6, f7, f8, f9, f10, f11, f12⟩ := chSet_fields s k d (Ring.add (s.chGet k d) c)
  constructor
  · rw [f12]; exact hi.notrap
  · intro o; rw [f3, f1]; exact hi.alive_lt o
  · intro o; rw [f4, f1, f3]; exact hi.dtors_eq o
  · intro v o; rw [f10, f3, f2, f6]; exact hi.ptr_ok v o
  · intro v o; rw [f10, f11]; exact hi.ptr_live v o
  · intro v o; rw [f6, f10]; exact hi.ring_ptr v o
  · intro o; rw [f6]; exact hi.ring_nodup o
  · intro v hv; exact hv.elim
  · intro d'; rw [f11, f1]; exact hi.cur_lt d'
  · intro b m; rw [f8, f3, f2, f7]; exact hi.kids_ok b m
  · intro b; rw [f8]; exact hi.kids_nodup b
  · intro k' d' c' hc'
    rw [f3, f7, f2]
    rw [chGet_chSet] at hc'
    split at hc'
    · rename_i h
      rcases (Ring.mem_add c c').mp hc' with h1 | h1
      · have := hi.ch_ok k d c' h1
        rw [h.2]
        exact ⟨this.1, this.2.1, by rw [this.2.2.1, h.1], this.2.2.2.1, this.2.2.2.2.1, this.2.2.2.2.2⟩
      · subst h1
        rw [h.2]
        exact ⟨hca, hcp, by rw [hslot, h.1], hc1, hc2, hda, hdk⟩
    · exact hi.ch_ok k' d' c' hc'
  · intro k' d'
    rw [chGet_chSet]
    split
    · exact Ring.nodup_add (hi.ch_nodup k d) c
    · exact hi.ch_nodup k' d'
  · intro p i; rw [f3, f9, f2, f8, f7]
    intro hpa hin
    obtain ⟨q1, q2, q3, q4, q5, q6⟩ := hi.inner_ok p i hpa hin
    refine ⟨q1, q2, q3, q4, q5, ?_⟩
    intro k' d' hx
    rw [chGet_chSet] at hx
    split at hx
    · rcases (Ring.mem_add c i).mp hx with h1 | h1
      · exact q6 k d h1
      · exact hnin p hpa (by rw [hin, h1])
    · exact q6 k' d' hx
  · intro p q i; rw [f3, f9]; exact hi.inner_inj p q i

/-- `modeBuffer->addModeMemoryRef(this)` of a new slice -/
theorem Inv00.link_kids {s : St} (hi : Inv00 E s) {b m : Nat} (hma : s.alive m = true)
    (hmk : s.kind m = .mem) (hmp : s.par m = some b) (hba : s.alive b = true)
    (hbk : s.kind b = .buf ∨ s.kind b = .pool) (hnin : ∀ p, s.alive p = true → s.inner p ≠ some b) :
    Inv00 E (s.setKids b (Ring.add (s.kids b) m)) := by
  have hkids : ∀ x, (s.setKids b (Ring.add (s.kids b) m)).kids x
      = if x = b then Ring.add (s.kids b) m else s.kids x := fun x => rfl
  refine ⟨hi.notrap, hi.alive_lt, hi.dtors_eq, hi.ptr_ok, hi.ptr_live, hi.ring_ptr, hi.ring_nodup, hi.ex_out,
    hi.cur_lt, ?_, ?_, ?_, ?_, ?_, hi.inner_inj⟩
  · intro b' x hx
    rw [hkids] at hx
    split at hx
    · rename_i h
      subst h
      rcases (Ring.mem_add m x).mp hx with h1 | h1
      · exact hi.kids_ok b' x h1
      · subst h1; exact ⟨hma, hmk, hmp, hba, hbk⟩
    · exact hi.kids_ok b' x hx
  · intro b'
    rw [hkids]
    split
    · exact Ring.nodup_add (hi.kids_nodup b) m
    · exact hi.kids_nodup b'
  · intro k d c hc
    have : c ∈ s.chGet k d := by cases k <;> exact hc
    exact hi.ch_ok k d c this
  · intro k d
    have : (s.setKids b (Ring.add (s.kids b) m)).chGet k d = s.chGet k d := by cases k <;> rfl
    rw [this]; exact hi.ch_nodup k d
  · intro p i hpa hin
    obtain ⟨q1, q2, q3, q4, q5, q6⟩ := hi.inner_ok p i hpa hin
    refine ⟨q1, q2, q3, ?_, q5, ?_⟩
    · rw [hkids]
      have hin' : s.inner p = some i := hin
      have : i ≠ b := fun h => hnin p hpa (by rw [hin', h])
      simp only [this, if_false]; exact q4
    · intro k d hx
      have : i ∈ s.chGet k d := by cases k <;> exact hx
      exact q6 k d this

/-- `buffer = makeOwnedBuffer()`: the pool records its (new) inner buffer -/
theorem Inv00.link_inner {s : St} (hi : Inv00 E s) {p i : Nat} (hpa : s.alive p = true)
    (hpk : s.kind p = .pool) (hpn : s.inner p = none) (hia : s.alive i = true) (hik : s.kind i = .buf)
    (hikids : s.kids i = []) (hipar : s.par i = s.par p) (hich : ∀ k d, i ∉ s.chGet k d)
    (hnin : ∀ q, s.alive q = true → s.inner q ≠ some i) :
    Inv00 E { s with inner := upd s.inner p (some i) } := by
  refine ⟨hi.notrap, hi.alive_lt, hi.dtors_eq, hi.ptr_ok, hi.ptr_live, hi.ring_ptr, hi.ring_nodup, hi.ex_out,
    hi.cur_lt, hi.kids_ok, hi.kids_nodup, ?_, ?_, ?_, ?_⟩
  · intro k d c hc
    have : c ∈ s.chGet k d := by cases k <;> exact hc
    exact hi.ch_ok k d c this
  · intro k d
    have : ({ s with inner := upd s.inner p (some i) } : St).chGet k d = s.chGet k d := by cases k <;> rfl
    rw [this]; exact hi.ch_nodup k d
  · intro q j hqa hqj
    have hqj' : upd s.inner p (some i) q = some j := hqj
    have hch : ∀ k d x, x ∈ ({ s with inner := upd s.inner p (some i) } : St).chGet k d → x ∈ s.chGet k d := by
      intro k d x hx; cases k <;> exact hx
    by_cases h : q = p
    · subst h
      rw [upd_same] at hqj'
      cases hqj'
      exact ⟨hpk, hia, hik, hikids, hipar, fun k d hx => hich k d (hch k d i hx)⟩
    · rw [upd_other _ _ h] at hqj'
      obtain ⟨q1, q2, q3, q4, q5, q6⟩ := hi.inner_ok q j hqa hqj'
      exact ⟨q1, q2, q3, q4, q5, fun k d hx => q6 k d (hch k d j hx)⟩
  · intro q r j hqa hra hqj hrj
    have hqj' : upd s.inner p (some i) q = some j := hqj
    have hrj' : upd s.inner p (some i) r = some j := hrj
    by_cases hq : q = p
    · by_cases hr : r = p
      · rw [hq, hr]
      · rw [hq, upd_same] at hqj'
        cases hqj'
        rw [upd_other _ _ hr] at hrj'
        exact absurd hrj' (hnin r hra)
    · by_cases hr : r = p
      · rw [hr, upd_same] at hrj'
        cases hrj'
        rw [upd_other _ _ hq] at hqj'
        exact absurd hqj' (hnin q hqa)
      · rw [upd_other _ _ hq] at hqj'
        rw [upd_other _ _ hr] at hrj'
        exact hi.inner_inj q r j hqa hra hqj' hrj'

end Occa.Gc
