/-
Every token preserves the invariant (`Inv`): the parser's step and the shape automaton's step
move together, and the tokens consumed so far stay readable from the parser's stacks.
-/
import OccaProofs.Lemmas.ExprClassify

namespace Occa.Expr
open Occa.Gen

def Tok.isOp : Tok → Bool
  | .op _ => true
  | _ => false

def contentAfter (c : Content) (t : Tok) : Content :=
  match c, t with
  | .empty, .vtype _ _ => .oneType
  | _, _ => .other

theorem shStep_nonop (s : Sh) (t : Tok) (next : Option Tok) (h : t.isOp = false) :
    shStep s t next = if s.needOperand then
      some { s with needOperand := false, content := contentAfter s.content t, prev := some t, prevCastEnd := false }
    else none := by
  cases t <;> simp [Tok.isOp] at h <;> rfl

theorem step_nonop (σ : St) (t : Tok) (next : Option Tok) (h : t.isOp = false) :
    step σ t next = .ok { σ with cur := { σ.cur with out := nodeOf t :: σ.cur.out }, prev := some t, prevCastEnd := false } := by
  cases t <;> simp [Tok.isOp] at h <;> rfl

theorem nodeOf_facts (t : Tok) (h : t.isOp = false) :
    printToks (nodeOf t) = [t] ∧ colonLu (nodeOf t) = false ∧
    ((∃ n k, nodeOf t = .vtype n k) ↔ ∃ n k, t = .vtype n k) ∧ (∀ o, t ≠ .op o) := by
  cases t <;> simp [Tok.isOp] at h <;> simp [nodeOf, printToks, colonLu]

theorem nodeOf_canon (t : Tok) (h : t.isOp = false) : canonB (nodeOf t) = true ∧ rootPrec (nodeOf t) = 0 := by
  cases t <;> simp [Tok.isOp] at h <;> simp [nodeOf, canonB, rootPrec]

/-- a primary expression can be the right operand of any pending operator -/
theorem accepts_zero (f : Frame) (hf : f.ok) (hnp : f.isPost = false) : f.accepts 0 = true := by
  cases f with
  | pre n => have := prec16_facts.2.2.2 n.op hf; simp [Frame.accepts, rightFits]; omega
  | bin n l => have := (prec16_facts.2.1 n.op hf).2; simp [Frame.accepts, rightFits]; omega
  | colon n c t q => simp [Frame.accepts, rightFits, pfx_prec_facts.2.2.2.1]
  | post n e => simp [Frame.isPost] at hnp
  | quest n c => rfl
  | opn n => rfl

/-- an operator that `keeps` the pending operator of a frame can stand to its right -/
theorem accepts_of_keeps (f : Frame) (hf : f.ok) (hnp : f.isPost = false) (o : Op)
    (h : keeps o f.node.op = true) : f.accepts o.prec = true := by
  by_cases hr : f.reducible = true
  · obtain ⟨hps, hqm⟩ := frame_ty f hf hr
    apply accepts_of_notPops f hf hr hnp o
    simp only [keeps, Bool.or_eq_true] at h
    rcases h with (h | h) | h
    · rw [hps] at h; simp at h
    · rw [← has_q_eq, hqm] at h; simp at h
    · unfold pops
      cases hx : (decide (o.prec > f.node.op.prec) || (o.prec == f.node.op.prec && leftAssoc f.node.op.prec))
      · rfl
      · rw [hx] at h; simp at h
  · cases f with
    | opn n => rfl
    | quest n c => rfl
    | pre n => simp [Frame.reducible, Frame.isOpn, Frame.isQuest] at hr
    | bin n l => simp [Frame.reducible, Frame.isOpn, Frame.isQuest] at hr
    | post n e => simp [Frame.reducible, Frame.isOpn, Frame.isQuest] at hr
    | colon n c t q => simp [Frame.reducible, Frame.isOpn, Frame.isQuest] at hr

theorem Stacked.cons {f : Frame} {fs : List Frame} (h : Stacked fs) (hacc : ∀ g, fs.head? = some g → g.accepts f.lvl = true) :
    Stacked (f :: fs) := by
  cases fs with
  | nil => trivial
  | cons g rest => exact ⟨hacc g rfl, h⟩

theorem Stacked.prefix {a b : List Frame} (h : Stacked (a ++ b)) : Stacked a := by
  induction a with
  | nil => trivial
  | cons x xs ih =>
    cases xs with
    | nil => trivial
    | cons y ys => exact ⟨h.1, ih h.2⟩

theorem Levels.cur_rep {cur : Lvl} {stk : List Lvl} {sc : Scope} {stack : List Scope} {shs : List ShScope}
    (h : Levels cur stk sc stack shs) : cur.Rep sc ∧ cur.Good := by
  cases h with
  | root _ _ h1 h2 _ => exact ⟨h1, h2⟩
  | push _ _ _ _ _ _ _ _ _ h1 h2 _ _ _ => exact ⟨h1, h2⟩

/-- the operand on top of a scope is a precedence-correct primary expression, acceptable to the frame below -/
theorem top_accepted {l : Lvl} (hg : l.Good) (e : Expr) (he : l.top = some e) :
    canonB e = true ∧ ∀ f, l.fs.head? = some f → f.isPost = false → f.accepts (rootPrec e) = true := by
  obtain ⟨c1, c2⟩ := hg.topCanon e he
  exact ⟨c1, fun f hf hnp => by rw [c2]; exact accepts_zero f (hg.frames.ok f (List.mem_of_mem_head? hf)) hnp⟩

/-- an operand token in operand position -/
theorem step_operand (s s' : Sh) (σ σ' : St) (t : Tok) (next : Option Tok) (consumed : List Tok)
    (cur : Lvl) (stk : List Lvl) (hinv : Inv s σ consumed cur stk) (ht : t.isOp = false)
    (hsh : shStep s t next = some s') (hst : step σ t next = .ok σ') :
    ∃ cur' stk', Inv s' σ' (consumed ++ [t]) cur' stk' := by
  rw [shStep_nonop s t next ht] at hsh
  rw [step_nonop σ t next ht] at hst
  by_cases hne : s.needOperand = true
  · simp only [hne, if_true, Option.some.injEq] at hsh
    simp only [Except.ok.injEq] at hst
    subst hsh; subst hst
    have hmode := hinv.mode
    simp only [hne, if_true] at hmode
    obtain ⟨htop, hnp, hprev⟩ := hmode
    obtain ⟨hrep, hgood⟩ := hinv.levels.cur_rep
    obtain ⟨nf1, nf2, nf3, nf4⟩ := nodeOf_facts t ht
    refine ⟨{ cur with top := some (nodeOf t) }, stk, ?_⟩
    have hfs : ({ cur with top := some (nodeOf t) } : Lvl).fs = cur.fs := rfl
    constructor
    · apply hinv.levels.replaceCur
      · constructor
        · show nodeOf t :: σ.cur.out = scopeOut cur.fs (some (nodeOf t))
          rw [hrep.1, htop, scopeOut_some]
        · exact hrep.2
      · exact ⟨hgood.frames, hgood.noOpn, fun e he => by simp at he; subst he; exact nf2,
               fun e he => by simp at he; subst he; exact nodeOf_canon t ht⟩
      · rfl
      · rfl
    · rw [hinv.toks]
      symm
      apply allToks_replace
      show scopeToks cur.fs (some (nodeOf t)) = scopeToks cur.fs cur.top ++ [t]
      rw [scopeToks_some, htop, nf1]
    · rfl
    · rfl
    · show PrevO _ _
      refine ⟨rfl, Or.inl ⟨rfl, hnp⟩, Or.inl ⟨rfl, Or.inl ⟨t, rfl, nf4⟩⟩⟩
    · exact hinv.pending
    · have hc := hinv.content
      show ContentOk _ _
      unfold ContentOk at hc ⊢
      simp only
      cases hcc : s.content with
      | empty =>
        rw [hcc] at hc
        cases t <;> simp [Tok.isOp] at ht <;> simp [contentAfter, nodeOf, hc.1]
      | oneType =>
        rw [hcc] at hc
        obtain ⟨_, n, k, hk⟩ := hc
        rw [htop] at hk; simp at hk
      | other =>
        rw [hcc] at hc
        simp only [contentAfter]
        intro ⟨hp, _⟩
        exact hc ⟨hp, Or.inl htop⟩
  · simp [hne] at hsh

end Occa.Expr

namespace Occa.Expr
open Occa.Gen

theorem step_op_plain (σ : St) (o : Op) (next : Option Tok)
    (h1 : has o.ty T.pairStart = false) (h2 : has o.ty T.pairEnd = false) :
    step σ (.op o) next =
      match resolve o σ.prev next σ.prevCastEnd with
      | .error x => .error x
      | .ok o' =>
        match popFaster o' σ.prev σ.cur.out σ.cur.ops with
        | .error x => .error x
        | .ok (out, ops) =>
          .ok { σ with cur := { σ.cur with out := out, ops := { op := o' } :: ops }, prev := some (.op o'), prevCastEnd := false } := by
  simp only [step, h1, h2, Bool.false_eq_true, if_false]
  rfl

theorem shStep_op_plain (s : Sh) (o : Op) (next : Option Tok)
    (h1 : has o.ty T.pairStart = false) (h2 : has o.ty T.pairEnd = false) :
    shStep s (.op o) next =
      match resolveBy s.needOperand o with
      | none => none
      | some o' =>
        if s.needOperand then
          if prefixOk o' && next.isSome && !isPairEndTok next && prefixKeeps o' s then
            some { s with content := .other, prev := some (.op o'), prevCastEnd := false }
          else none
        else if o'.ty == T.questionMark then
          some { s with needOperand := true, pendingQ := s.pendingQ + 1, content := .other,
                        prev := some (.op o'), prevCastEnd := false }
        else if o'.ty == T.colon then
          if s.pendingQ > 0 then
            some { s with needOperand := true, pendingQ := s.pendingQ - 1, content := .other,
                          prev := some (.op o'), prevCastEnd := false }
          else none
        else if has o'.ty T.binary then
          if !isPostfixTok s.prev || o'.prec ≥ 2 then
            some { s with needOperand := true, content := .other, prev := some (.op o'), prevCastEnd := false }
          else none
        else if has o'.ty T.rightUnary then
          if (next.isNone || isPairEndTok next || isOperatorTok next) && !(isPostfixTok s.prev && isIncDecTok next) then
            some { s with content := .other, prev := some (.op o'), prevCastEnd := false }
          else none
        else none := by
  simp only [shStep, h1, h2, Bool.false_eq_true, if_false]
  rfl

theorem popFaster_keep (o : Op) (prev : Option Tok) (out : List Expr) (n : OpNode) (ops : List OpNode)
    (hk : keeps o n.op = true) (hp : prefixOk o = true) :
    popFaster o prev out (n :: ops) = .ok (out, n :: ops) := by
  obtain ⟨_, hc, hq, _⟩ := ty_facts_prefixOk o (by simp [preOk, hp])
  rw [popFaster_cons]
  by_cases h1 : has n.op.ty T.pairStart = true
  · simp [h1]
  · simp only [h1, Bool.false_eq_true, if_false, hq, Bool.false_and, hc, Bool.not_false, Bool.true_and]
    by_cases h2 : has n.op.ty T.questionMark = true
    · simp [h2]
    · simp only [h2, Bool.false_eq_true, if_false]
      have : pops o n.op = false := by
        simp only [keeps, Bool.or_eq_true] at hk
        rcases hk with (hk | hk) | hk
        · exact absurd hk h1
        · rw [← has_q_eq] at hk; exact absurd hk h2
        · unfold pops
          cases hx : (decide (o.prec > n.op.prec) || (o.prec == n.op.prec && leftAssoc n.op.prec))
          · rfl
          · rw [hx] at hk; simp at hk
      simp [this]

/-- the operator of a non-postfix frame makes the next `+ - * & ++ -- ::` a prefix operator -/
theorem frame_prev_kind (f : Frame) (hf : f.ok) (hp : f.isPost = false) :
    has f.node.op.ty T.pairStart = true ∨ has f.node.op.ty T.leftUnary = true ∨ has f.node.op.ty T.binary = true := by
  cases f with
  | pre n => exact Or.inr (Or.inl (ty_facts_prefixOk n.op hf).1)
  | bin n l => exact Or.inr (Or.inr hf)
  | post n e => simp [Frame.isPost] at hp
  | quest n c => exact Or.inr (Or.inl (ty_facts_q n.op hf).2.1)
  | colon n c t q => exact Or.inr (Or.inl (ty_facts_c n.op hf.1).2.1)
  | opn n => exact Or.inl hf

theorem parenCast_lu : has Op.parenCast.ty T.leftUnary = true := by decide

end Occa.Expr

namespace Occa.Expr
open Occa.Gen

theorem scopeToks_consFrame_none (f : Frame) (fs : List Frame) :
    scopeToks (f :: fs) none = scopeToks fs none ++ f.toks := by
  simp [scopeToks_cons, topToks]

/-- a prefix operator in operand position -/
theorem step_prefix (s s' : Sh) (σ σ' : St) (o : Op) (next : Option Tok) (consumed : List Tok)
    (cur : Lvl) (stk : List Lvl) (hinv : Inv s σ consumed cur stk) (hreg : o ∈ registered)
    (h1 : has o.ty T.pairStart = false) (h2 : has o.ty T.pairEnd = false) (hne : s.needOperand = true)
    (hsh : shStep s (.op o) next = some s') (hst : step σ (.op o) next = .ok σ') :
    ∃ cur' stk', Inv s' σ' (consumed ++ [.op o]) cur' stk' := by
  rw [shStep_op_plain s o next h1 h2] at hsh
  rw [step_op_plain σ o next h1 h2] at hst
  have hmode := hinv.mode
  simp only [hne, if_true] at hmode
  obtain ⟨htop, hnp, hprev⟩ := hmode
  obtain ⟨hrep, hgood⟩ := hinv.levels.cur_rep
  rw [hne] at hsh
  cases hres : resolveBy true o with
  | none => simp [hres] at hsh
  | some o' =>
    simp only [hres, if_true] at hsh
    by_cases hcond : (prefixOk o' && next.isSome && !isPairEndTok next && prefixKeeps o' s) = true
    · simp only [hcond, if_true, Option.some.injEq] at hsh
      simp only [Bool.and_eq_true, Bool.not_eq_true'] at hcond
      obtain ⟨⟨⟨hpo, hnx⟩, hnpe⟩, hkeep⟩ := hcond
      obtain ⟨rf1, rf2, _, _, _, _, _, _⟩ := resolveBy_facts o hreg true o' hres
      -- the parser resolves the operator the same way
      have hresolve : resolve o σ.prev next σ.prevCastEnd = .ok o' := by
        by_cases ha : has o.ty T.ambiguous = true
        · have hl : isLeftUnary o σ.prev next σ.prevCastEnd = .ok true := by
            apply isLeftUnary_E o σ.prev next σ.prevCastEnd hnx hnpe
            rw [hinv.prev, hinv.castEnd]
            by_cases hce : s.prevCastEnd = true
            · exact Or.inl hce
            · simp only [hce, Bool.false_eq_true, if_false] at hprev
              rcases hprev with ⟨_, hp⟩ | ⟨f, fs', hfs, hp⟩
              · exact Or.inr (Or.inl hp)
              · refine Or.inr (Or.inr ⟨f.node.op, hp, ?_⟩)
                exact frame_prev_kind f (hgood.frames.ok f (by rw [hfs]; simp)) (hnp f (by rw [hfs]; rfl))
          rw [resolve_of_isLeftUnary o _ _ _ true hl, hres]
        · have := resolve_nonAmb o σ.prev next σ.prevCastEnd true (by simpa using ha)
          rw [this.1]
          rw [this.2] at hres
          simp at hres; rw [hres]
      -- nothing is reduced
      have hpop : popFaster o' σ.prev σ.cur.out σ.cur.ops = .ok (σ.cur.out, σ.cur.ops) := by
        rw [hrep.2]
        cases hfs : cur.fs with
        | nil => simp [scopeOps, popFaster_nil]
        | cons f fs' =>
          show popFaster o' σ.prev σ.cur.out (f.node :: scopeOps fs') = _
          apply popFaster_keep _ _ _ _ _ _ hpo
          unfold prefixKeeps at hkeep
          by_cases hce : s.prevCastEnd = true
          · simp only [hce, if_true] at hkeep hprev
            obtain ⟨n, fs'', hfs2, hn⟩ := hprev
            rw [hfs] at hfs2; simp only [List.cons.injEq] at hfs2
            rw [hfs2.1]; simpa [Frame.node, hn] using hkeep
          · simp only [hce, Bool.false_eq_true, if_false] at hkeep hprev
            rcases hprev with ⟨hnil, _⟩ | ⟨g, fs'', hfs2, hp⟩
            · rw [hfs] at hnil; simp at hnil
            · rw [hfs] at hfs2; simp only [List.cons.injEq] at hfs2
              rw [hp] at hkeep; rw [hfs2.1]; simpa using hkeep
      rw [hresolve] at hst
      simp only [hpop, Except.ok.injEq] at hst
      subst hsh; subst hst
      let fr := Frame.pre { op := o' }
      have hfrok : fr.ok := by show preOk o' = true; simp [preOk, hpo]
      refine ⟨{ cur with pre := fr :: cur.pre }, stk, ?_⟩
      have hfs' : ({ cur with pre := fr :: cur.pre } : Lvl).fs = fr :: cur.fs := rfl
      constructor
      · apply hinv.levels.replaceCur
        · constructor
          · show σ.cur.out = scopeOut (fr :: cur.fs) cur.top
            rw [hrep.1]; simp [scopeOut, fr, Frame.outs]
          · show _ :: σ.cur.ops = scopeOps (fr :: cur.fs)
            rw [hrep.2]; rfl
        · refine ⟨⟨?_, ?_, ?_, ?_, ?_, ?_⟩, ?_, hgood.topOk, hgood.topCanon⟩
          · intro f hf; rw [hfs'] at hf; simp at hf; rcases hf with rfl | hf
            · exact hfrok
            · exact hgood.frames.ok f hf
          · intro f hf; rw [hfs'] at hf; simp at hf
            cases hcf : cur.fs with
            | nil => rw [hcf] at hf; simp at hf
            | cons g gs =>
              rw [hcf] at hf; simp at hf; rcases hf with rfl | hf
              · exact hnp f (by rw [hcf]; rfl)
              · exact hgood.frames.post f (by rw [hcf]; simpa using hf)
          · intro f hf e he; rw [hfs'] at hf; simp at hf; rcases hf with rfl | hf
            · simp [fr, Frame.outs] at he
            · exact hgood.frames.nocolon f hf e he
          · intro f hf e he; rw [hfs'] at hf; simp at hf; rcases hf with rfl | hf
            · simp [fr, Frame.operands] at he
            · exact hgood.frames.canon f hf e he
          · intro f hf; rw [hfs'] at hf; simp at hf; rcases hf with rfl | hf
            · rfl
            · exact hgood.frames.fit f hf
          · rw [hfs']
            apply Stacked.cons hgood.frames.stacked
            intro g hg
            show g.accepts o'.prec = true
            have hgok := hgood.frames.ok g (List.mem_of_mem_head? hg)
            have hgnp := hnp g hg
            apply accepts_of_keeps g hgok hgnp
            unfold prefixKeeps at hkeep
            by_cases hce : s.prevCastEnd = true
            · simp only [hce, if_true] at hkeep hprev
              obtain ⟨n, fs'', hfs2, hn⟩ := hprev
              rw [hfs2] at hg; simp at hg; subst hg
              simpa [Frame.node, hn] using hkeep
            · simp only [hce, Bool.false_eq_true, if_false] at hkeep hprev
              rcases hprev with ⟨hnil, _⟩ | ⟨g', fs'', hfs2, hp⟩
              · rw [hnil] at hg; simp at hg
              · rw [hfs2] at hg; simp at hg; subst hg
                rw [hp] at hkeep; simpa using hkeep
          · intro f hf; simp at hf; rcases hf with rfl | hf
            · rfl
            · exact hgood.noOpn f hf
        · rfl
        · rfl
      · rw [hinv.toks]
        symm
        apply allToks_replace
        show scopeToks (fr :: cur.fs) cur.top = scopeToks cur.fs cur.top ++ [Tok.op o]
        rw [htop, scopeToks_consFrame_none]
        simp [fr, Frame.toks, pfxToks, rf2, rf1]
      · rfl
      · rfl
      · show PrevE _ _
        refine ⟨htop, ?_, ?_⟩
        · intro f hf; rw [hfs'] at hf; simp at hf; subst hf; rfl
        · simp only [Bool.false_eq_true, if_false]
          exact Or.inr ⟨fr, cur.fs, hfs', rfl⟩
      · show s.pendingQ = questCount (fr :: cur.fs)
        rw [questCount_reducible fr cur.fs rfl]; exact hinv.pending
      · show ContentOk _ _
        unfold ContentOk; simp
    · simp [hcond] at hsh

end Occa.Expr

namespace Occa.Expr
open Occa.Gen

/-- the kinds of previous token after an operand -/
theorem prevO_kinds {s : Sh} {cur : Lvl} (h : PrevO s cur) (hg : cur.Good) :
    ((∃ t, s.prev = some t ∧ (∀ x, t ≠ .op x)) ∨ (∃ b, s.prev = some (.op b) ∧ has b.ty T.pairEnd = true) ∨
     (∃ p, s.prev = some (.op p) ∧ has p.ty T.rightUnary = true)) ∧
    (isPostfixTok s.prev = false → ∀ f, cur.fs.head? = some f → f.isPost = false) := by
  obtain ⟨_, hm, hk⟩ := h
  rcases hk with ⟨hts, hk⟩ | ⟨htn, n, e, fs', hfs, hp⟩
  · refine ⟨?_, fun _ f hf => ?_⟩
    · rcases hk with hk | hk
      · exact Or.inl hk
      · exact Or.inr (Or.inl hk)
    · rcases hm with ⟨_, h2⟩ | ⟨h1, _⟩
      · exact h2 f hf
      · rw [h1] at hts; simp at hts
  · have hru : has n.op.ty T.rightUnary = true := hg.frames.ok (Frame.post n e) (by rw [hfs]; simp)
    refine ⟨Or.inr (Or.inr ⟨n.op, hp, hru⟩), fun hnp => ?_⟩
    rw [hp] at hnp; simp [isPostfixTok, hru] at hnp

/-- an operator after an operand (binary, postfix or `?`): what the parser's step does -/
theorem infix_core (s : Sh) (σ σ' : St) (consumed : List Tok) (cur : Lvl) (stk : List Lvl)
    (hinv : Inv s σ consumed cur stk) (hno : s.needOperand = false) (o o' : Op) (next : Option Tok)
    (hreg : o ∈ registered) (hres : resolveBy false o = some o') (hcol : has o'.ty T.colon = false)
    (hprec1 : o'.prec ≥ 1)
    (hprec : isPostfixTok s.prev = true → o'.prec ≥ 2)
    (hnext : (has o.ty T.increment || has o.ty T.decrement) = true →
              next.isNone = true ∨ isPairEndTok next = true ∨ isOperatorTok next = true)
    (h1 : has o.ty T.pairStart = false) (h2 : has o.ty T.pairEnd = false)
    (hst : step σ (.op o) next = .ok σ') :
    ∃ pre' e', σ' = { σ with cur := { σ.cur with out := scopeOut (pre' ++ baseFrames cur.base) (some e'),
                                                 ops := { op := o' } :: scopeOps (pre' ++ baseFrames cur.base) },
                             prev := some (.op o'), prevCastEnd := false } ∧
      FramesOk (pre' ++ baseFrames cur.base) ∧ colonLu e' = false ∧
      (∀ f, (pre' ++ baseFrames cur.base).head? = some f → f.isPost = false) ∧
      scopeToks (pre' ++ baseFrames cur.base) (some e') = scopeToks cur.fs cur.top ∧
      questCount (pre' ++ baseFrames cur.base) = questCount cur.fs ∧ (∀ f ∈ pre', f.isOpn = false) ∧
      canonB e' = true ∧ leftFits o'.prec (rootPrec e') = true ∧
      (∀ f, (pre' ++ baseFrames cur.base).head? = some f → f.accepts o'.prec = true) := by
  rw [step_op_plain σ o next h1 h2] at hst
  have hmode := hinv.mode
  simp only [hno, Bool.false_eq_true, if_false] at hmode
  obtain ⟨hrep, hgood⟩ := hinv.levels.cur_rep
  obtain ⟨hkinds, hnotpost⟩ := prevO_kinds hmode hgood
  obtain ⟨hce, hm, _⟩ := hmode
  -- the parser resolves the operator the same way (or rejects it)
  have hresolve : resolve o σ.prev next σ.prevCastEnd = .ok o' := by
    cases hr : resolve o σ.prev next σ.prevCastEnd with
    | error x => rw [hr] at hst; simp at hst
    | ok x =>
      by_cases ha : has o.ty T.ambiguous = true
      · cases hl : isLeftUnary o σ.prev next σ.prevCastEnd with
        | error y => simp [resolve, ha, hl] at hr
        | ok l =>
          have : l = false := by
            rw [hinv.castEnd, hce, hinv.prev] at hl
            exact isLeftUnary_O o s.prev next l hkinds hnext hl
          subst this
          rw [resolve_of_isLeftUnary o _ _ _ false hl, hres] at hr
          simp only at hr
          exact hr.symm
      · have := resolve_nonAmb o σ.prev next σ.prevCastEnd false (by simpa using ha)
        rw [this.2] at hres; simp at hres
        rw [← hr, this.1, hres]
  rw [hresolve] at hst
  cases hp : popFaster o' σ.prev σ.cur.out σ.cur.ops with
  | error x => simp [hp] at hst
  | ok r =>
    obtain ⟨out', ops'⟩ := r
    simp only [hp, Except.ok.injEq] at hst
    rw [hrep.1, hrep.2] at hp
    have hpost : ∀ f, cur.fs.head? = some f → f.isPost = true → o'.prec ≥ 2 := by
      intro f hf hfp
      apply hprec
      cases hps : isPostfixTok s.prev
      · have := hnotpost hps f hf; rw [this] at hfp; simp at hfp
      · rfl
    have hcan : ∀ e, cur.top = some e → canonB e = true ∧ leftFits o'.prec (rootPrec e) = true ∧
        ∀ f, cur.fs.head? = some f → f.accepts (rootPrec e) = true := by
      intro e he
      obtain ⟨c1, c2⟩ := hgood.topCanon e he
      refine ⟨c1, ?_, ?_⟩
      · rw [c2]; simp [leftFits]; omega
      · intro f hf
        rw [c2]
        have hnp : f.isPost = false := by
          rcases hm with ⟨_, h⟩ | ⟨h, _⟩
          · exact h f hf
          · rw [h] at he; simp at he
        exact accepts_zero f (hgood.frames.ok f (List.mem_of_mem_head? hf)) hnp
    obtain ⟨fs', e', dropped, q1, q2, q3, q4, q5, q6, q7, q8, q9, q10, q11, q12⟩ :=
      popFaster_spec o' σ.prev hcol cur.fs hgood.frames cur.top hm hpost hgood.topOk hcan out' ops' hp
    obtain ⟨pre', hfs', hpre⟩ := split_base cur.pre cur.base dropped fs' q8 (fun f hf => reducible_notOpn (q9 f hf))
    subst hfs'
    refine ⟨pre', e', ?_, q3, q4, q5, q6, q7, ?_, q10, q11, q12⟩
    · rw [← hst, q1, q2]
    · intro f hf; exact hgood.noOpn f (by rw [hpre]; simp [hf])

end Occa.Expr

namespace Occa.Expr
open Occa.Gen

/-- the frame pushed by an operator after an operand owns that operand -/
theorem infix_finish (s s' : Sh) (σ : St) (consumed : List Tok) (cur : Lvl) (stk : List Lvl)
    (hinv : Inv s σ consumed cur stk) (o o' : Op) (pre' : List Frame) (e' : Expr) (fr : Frame)
    (hfs : FramesOk (pre' ++ baseFrames cur.base)) (hcl : colonLu e' = false)
    (hnp : ∀ f, (pre' ++ baseFrames cur.base).head? = some f → f.isPost = false)
    (htk : scopeToks (pre' ++ baseFrames cur.base) (some e') = scopeToks cur.fs cur.top)
    (hno : ∀ f ∈ pre', f.isOpn = false)
    (hfr1 : fr.outs = [e']) (hfr2 : fr.toks = printToks e' ++ [.op o]) (hfr3 : fr.node = { op := o' })
    (hfr4 : fr.ok) (hfr5 : fr.isOpn = false)
    (hcan : canonB e' = true) (hfr6 : fr.operands = [e']) (hfr7 : fr.fit = true)
    (hfr8 : ∀ f, (pre' ++ baseFrames cur.base).head? = some f → f.accepts fr.lvl = true)
    (hstack : s'.stack = s.stack) (hprev : s'.prev = some (.op o')) (hce : s'.prevCastEnd = false)
    (hcont : s'.content = .other)
    (hmode : if s'.needOperand then PrevE s' { cur with pre := fr :: pre', top := none }
             else PrevO s' { cur with pre := fr :: pre', top := none })
    (hpend : s'.pendingQ = questCount (fr :: (pre' ++ baseFrames cur.base))) :
    Inv s' { σ with cur := { σ.cur with out := scopeOut (pre' ++ baseFrames cur.base) (some e'),
                                        ops := { op := o' } :: scopeOps (pre' ++ baseFrames cur.base) },
                    prev := some (.op o'), prevCastEnd := false }
        (consumed ++ [.op o]) { cur with pre := fr :: pre', top := none } stk := by
  obtain ⟨hrep, hgood⟩ := hinv.levels.cur_rep
  have hfs' : ({ cur with pre := fr :: pre', top := none } : Lvl).fs = fr :: (pre' ++ baseFrames cur.base) := rfl
  constructor
  · rw [hstack]
    apply hinv.levels.replaceCur
    · constructor
      · show scopeOut (pre' ++ baseFrames cur.base) (some e') = scopeOut (fr :: (pre' ++ baseFrames cur.base)) none
        simp [scopeOut, hfr1]
      · show _ :: scopeOps (pre' ++ baseFrames cur.base) = scopeOps (fr :: (pre' ++ baseFrames cur.base))
        simp [scopeOps, hfr3]
    · refine ⟨⟨?_, ?_, ?_, ?_, ?_, ?_⟩, ?_, by simp, by simp⟩
      · intro f hf; rw [hfs'] at hf; simp only [List.mem_cons] at hf; rcases hf with rfl | hf
        · exact hfr4
        · exact hfs.ok f hf
      · intro f hf; rw [hfs'] at hf; simp only [List.tail_cons] at hf
        cases hcf : pre' ++ baseFrames cur.base with
        | nil => rw [hcf] at hf; simp at hf
        | cons g gs =>
          rw [hcf] at hf; simp only [List.mem_cons] at hf; rcases hf with rfl | hf
          · exact hnp f (by rw [hcf]; rfl)
          · exact hfs.post f (by rw [hcf]; simpa using hf)
      · intro f hf e he; rw [hfs'] at hf; simp only [List.mem_cons] at hf; rcases hf with rfl | hf
        · rw [hfr1] at he; simp at he; subst he; exact hcl
        · exact hfs.nocolon f hf e he
      · intro f hf e he; rw [hfs'] at hf; simp only [List.mem_cons] at hf; rcases hf with rfl | hf
        · rw [hfr6] at he; simp at he; subst he; exact hcan
        · exact hfs.canon f hf e he
      · intro f hf; rw [hfs'] at hf; simp only [List.mem_cons] at hf; rcases hf with rfl | hf
        · exact hfr7
        · exact hfs.fit f hf
      · rw [hfs']; exact Stacked.cons hfs.stacked hfr8
      · intro f hf; simp only [List.mem_cons] at hf; rcases hf with rfl | hf
        · exact hfr5
        · exact hno f hf
    · rfl
    · rfl
  · rw [hinv.toks]
    symm
    apply allToks_replace
    show scopeToks (fr :: (pre' ++ baseFrames cur.base)) none = scopeToks cur.fs cur.top ++ [Tok.op o]
    rw [scopeToks_consFrame_none, hfr2, ← htk, scopeToks_some]; simp [List.append_assoc]
  · exact hprev.symm
  · exact hce.symm
  · exact hmode
  · exact hpend
  · show ContentOk _ _
    unfold ContentOk; rw [hcont]; simp

end Occa.Expr

namespace Occa.Expr
open Occa.Gen

theorem q_facts2 : ∀ o : Op, (o.ty == T.questionMark) = true →
    has o.ty T.rightUnary = false ∧ has o.ty T.colon = false ∧ o.prec = 16 := by
  intro o; revert o; exact forall_op (by decide +kernel)

theorem bin_facts2 : ∀ o : Op, has o.ty T.binary = true → has o.ty T.colon = false := by
  intro o; revert o; exact forall_op (by decide +kernel)

theorem ru_facts2 : ∀ o : Op, has o.ty T.rightUnary = true → has o.ty T.colon = false ∧ o.prec = 2 := by
  intro o; revert o; exact forall_op (by decide +kernel)

/-- a binary operator, a postfix operator or `?` after an operand -/
theorem step_infix (s s' : Sh) (σ σ' : St) (o : Op) (next : Option Tok) (consumed : List Tok)
    (cur : Lvl) (stk : List Lvl) (hinv : Inv s σ consumed cur stk) (hreg : o ∈ registered)
    (h1 : has o.ty T.pairStart = false) (h2 : has o.ty T.pairEnd = false) (hno : s.needOperand = false)
    (o' : Op) (hres : resolveBy false o = some o') (hnc : (o'.ty == T.colon) = false)
    (hsh : shStep s (.op o) next = some s') (hst : step σ (.op o) next = .ok σ') :
    ∃ cur' stk', Inv s' σ' (consumed ++ [.op o]) cur' stk' := by
  rw [shStep_op_plain s o next h1 h2, hno, hres] at hsh
  simp only [Bool.false_eq_true, if_false, hnc] at hsh
  obtain ⟨rf1, rf2, _, _, _, _, rf7, rf8⟩ := resolveBy_facts o hreg false o' hres
  by_cases hq : (o'.ty == T.questionMark) = true
  · -- `?`
    simp only [hq, if_true, Option.some.injEq] at hsh
    obtain ⟨q1, q2, q3⟩ := q_facts2 o' hq
    obtain ⟨qo, _⟩ := ty_facts_q o' hq
    have hnext : (has o.ty T.increment || has o.ty T.decrement) = true →
        next.isNone = true ∨ isPairEndTok next = true ∨ isOperatorTok next = true := by
      intro h; have := (rf7 h).2 rfl; rw [q1] at this; simp at this
    obtain ⟨pre', e', hσ, c1, c2, c3, c4, c5, c6, c7, c8, c9⟩ :=
      infix_core s σ σ' consumed cur stk hinv hno o o' next hreg hres q2 (by omega) (fun _ => by omega) hnext h1 h2 hst
    subst hσ; subst hsh
    let fr := Frame.quest { op := o' } e'
    refine ⟨{ cur with pre := fr :: pre', top := none }, stk, ?_⟩
    apply infix_finish s _ σ consumed cur stk hinv o o' pre' e' fr c1 c2 c3 c4 c6 rfl
    · show printToks e' ++ [Tok.op .questionMark] = printToks e' ++ [Tok.op o]
      rw [← rf1, qo, lexedOp_q]
    · rfl
    · exact hq
    · rfl
    · exact c7
    · rfl
    · show leftFits Op.questionMark.prec (rootPrec e') = true
      rw [← qo]; exact c8
    · intro f hf
      show f.accepts Op.questionMark.prec = true
      rw [← qo]; exact c9 f hf
    · rfl
    · rfl
    · rfl
    · rfl
    · show PrevE _ _
      refine ⟨rfl, fun f hf => by simp [Lvl.fs] at hf; subst hf; rfl, ?_⟩
      simp only [Bool.false_eq_true, if_false]
      exact Or.inr ⟨fr, pre' ++ baseFrames cur.base, rfl, rfl⟩
    · show s.pendingQ + 1 = questCount (fr :: (pre' ++ baseFrames cur.base))
      rw [hinv.pending, ← c5]; simp [questCount, fr, Frame.isOpn, Frame.isQuest]; omega
  · simp only [hq, Bool.false_eq_true, if_false] at hsh
    by_cases hb : has o'.ty T.binary = true
    · -- binary
      simp only [hb, if_true] at hsh
      by_cases hcond : (!isPostfixTok s.prev || decide (o'.prec ≥ 2)) = true
      · simp only [hcond, if_true, Option.some.injEq] at hsh
        obtain ⟨b1, b2, _⟩ := ty_facts_bin o' hb
        have hnext : (has o.ty T.increment || has o.ty T.decrement) = true →
            next.isNone = true ∨ isPairEndTok next = true ∨ isOperatorTok next = true := by
          intro h; have := (rf7 h).2 rfl; rw [b2] at this; simp at this
        have hprec : isPostfixTok s.prev = true → o'.prec ≥ 2 := by
          intro hp; simp [hp] at hcond; exact hcond
        obtain ⟨pre', e', hσ, c1, c2, c3, c4, c5, c6, c7, c8, c9⟩ :=
          infix_core s σ σ' consumed cur stk hinv hno o o' next hreg hres (bin_facts2 o' hb)
            (prec16_facts.2.1 o' hb).2 hprec hnext h1 h2 hst
        subst hσ; subst hsh
        let fr := Frame.bin { op := o' } e'
        refine ⟨{ cur with pre := fr :: pre', top := none }, stk, ?_⟩
        apply infix_finish s _ σ consumed cur stk hinv o o' pre' e' fr c1 c2 c3 c4 c6 rfl
        · show printToks e' ++ [Tok.op (lexedOp o')] = printToks e' ++ [Tok.op o]
          rw [rf1]
        · rfl
        · exact hb
        · rfl
        · exact c7
        · rfl
        · exact c8
        · exact c9
        · rfl
        · rfl
        · rfl
        · rfl
        · show PrevE _ _
          refine ⟨rfl, fun f hf => by simp [Lvl.fs] at hf; subst hf; rfl, ?_⟩
          simp only [Bool.false_eq_true, if_false]
          exact Or.inr ⟨fr, pre' ++ baseFrames cur.base, rfl, rfl⟩
        · show s.pendingQ = questCount (fr :: (pre' ++ baseFrames cur.base))
          rw [questCount_reducible fr _ rfl, c5]; exact hinv.pending
      · simp [hcond] at hsh
    · simp only [hb, Bool.false_eq_true, if_false] at hsh
      by_cases hr : has o'.ty T.rightUnary = true
      · -- postfix
        simp only [hr, if_true] at hsh
        by_cases hcond0 : ((next.isNone || isPairEndTok next || isOperatorTok next) && !(isPostfixTok s.prev && isIncDecTok next)) = true
        · simp only [hcond0, if_true, Option.some.injEq] at hsh
          have hcond : (next.isNone || isPairEndTok next || isOperatorTok next) = true := by
            simp only [Bool.and_eq_true] at hcond0; exact hcond0.1
          obtain ⟨r1, r2⟩ := ru_facts2 o' hr
          have hnext : (has o.ty T.increment || has o.ty T.decrement) = true →
              next.isNone = true ∨ isPairEndTok next = true ∨ isOperatorTok next = true := by
            intro _; simp only [Bool.or_eq_true] at hcond
            rcases hcond with (h | h) | h
            · exact Or.inl h
            · exact Or.inr (Or.inl h)
            · exact Or.inr (Or.inr h)
          obtain ⟨pre', e', hσ, c1, c2, c3, c4, c5, c6, c7, c8, c9⟩ :=
            infix_core s σ σ' consumed cur stk hinv hno o o' next hreg hres r1 (by omega) (fun _ => by omega) hnext h1 h2 hst
          subst hσ; subst hsh
          let fr := Frame.post { op := o' } e'
          refine ⟨{ cur with pre := fr :: pre', top := none }, stk, ?_⟩
          apply infix_finish s _ σ consumed cur stk hinv o o' pre' e' fr c1 c2 c3 c4 c6 rfl
          · show printToks e' ++ [Tok.op (lexedOp o')] = printToks e' ++ [Tok.op o]
            rw [rf1]
          · rfl
          · exact hr
          · rfl
          · exact c7
          · rfl
          · exact c8
          · exact c9
          · rfl
          · rfl
          · rfl
          · rfl
          · show PrevO _ _
            refine ⟨rfl, Or.inr ⟨rfl, _, _, _, rfl⟩, Or.inr ⟨rfl, _, _, _, rfl, rfl⟩⟩
          · show s.pendingQ = questCount (fr :: (pre' ++ baseFrames cur.base))
            rw [questCount_reducible fr _ rfl, c5]; exact hinv.pending
        · rw [if_neg hcond0] at hsh; exact absurd hsh (by simp)
      · simp [hr] at hsh

end Occa.Expr

namespace Occa.Expr
open Occa.Gen

theorem FramesOk.suffix {a b : List Frame} (h : FramesOk (a ++ b)) : FramesOk b := by
  induction a with
  | nil => simpa using h
  | cons x xs ih => exact ih (by simpa using h.tail)

theorem colon_facts2 : ∀ o : Op, (o.ty == T.colon) = true →
    has o.ty T.ambiguous = false ∧ has o.ty T.colon = true := by
  intro o; revert o; exact forall_op (by decide +kernel)

theorem q_not_colon : ∀ o : Op, (o.ty == T.questionMark) = true → (o.ty == T.colon) = false := by
  intro o; revert o; exact forall_op (by decide +kernel)

/-- `:` after an operand, with a `?` pending in the scope -/
theorem step_colon (s s' : Sh) (σ σ' : St) (o : Op) (next : Option Tok) (consumed : List Tok)
    (cur : Lvl) (stk : List Lvl) (hinv : Inv s σ consumed cur stk)
    (h1 : has o.ty T.pairStart = false) (h2 : has o.ty T.pairEnd = false) (hno : s.needOperand = false)
    (hc : (o.ty == T.colon) = true)
    (hsh : shStep s (.op o) next = some s') (hst : step σ (.op o) next = .ok σ') :
    ∃ cur' stk', Inv s' σ' (consumed ++ [.op o]) cur' stk' := by
  obtain ⟨ca, cc⟩ := colon_facts2 o hc
  obtain ⟨co, _⟩ := ty_facts_c o hc
  have hres := (resolve_nonAmb o σ.prev next σ.prevCastEnd false ca)
  rw [shStep_op_plain s o next h1 h2, hno, hres.2] at hsh
  have hnq : (o.ty == T.questionMark) = false := by rw [co]; decide
  simp only [Bool.false_eq_true, if_false, hc, hnq, if_true] at hsh
  by_cases hpq : s.pendingQ > 0
  · simp only [hpq, if_true, Option.some.injEq] at hsh
    rw [step_op_plain σ o next h1 h2, hres.1] at hst
    have hmode := hinv.mode
    simp only [hno, Bool.false_eq_true, if_false] at hmode
    obtain ⟨hrep, hgood⟩ := hinv.levels.cur_rep
    obtain ⟨hce, hm, _⟩ := hmode
    cases hp : popFaster o σ.prev σ.cur.out σ.cur.ops with
    | error x => simp [hp] at hst
    | ok r =>
      obtain ⟨out', ops'⟩ := r
      simp only [hp, Except.ok.injEq] at hst
      rw [hrep.1, hrep.2] at hp
      have hqc : questCount cur.fs > 0 := by rw [← hinv.pending]; exact hpq
      have hcan : ∀ e, cur.top = some e → canonB e = true ∧ ∀ f, cur.fs.head? = some f → f.accepts (rootPrec e) = true := by
        intro e he
        obtain ⟨c1, c2⟩ := top_accepted hgood e he
        refine ⟨c1, fun f hf => c2 f hf ?_⟩
        rcases hm with ⟨_, h⟩ | ⟨h, _⟩
        · exact h f hf
        · rw [h] at he; simp at he
      obtain ⟨dropped, n, c, fs', t, q1, q2, q3, q4, q5, q6, q7⟩ :=
        popColon_spec o σ.prev cc cur.fs hgood.frames cur.top hm hqc hcan out' ops' hp
      have hsplit : cur.pre ++ baseFrames cur.base = (dropped ++ [Frame.quest n c]) ++ fs' := by
        rw [← Lvl.fs, q1]; simp
      obtain ⟨pre', hfs', hpre⟩ := split_base cur.pre cur.base (dropped ++ [Frame.quest n c]) fs' hsplit
        (fun f hf => by
          simp at hf; rcases hf with hf | rfl
          · exact reducible_notOpn (q2 f hf)
          · rfl)
      subst hfs'
      have hnq' : (n.op.ty == T.questionMark) = true :=
        hgood.frames.ok (Frame.quest n c) (by rw [q1]; simp)
      obtain ⟨hnop, _⟩ := ty_facts_q n.op hnq'
      let fr := Frame.colon { op := o } c t n.op
      have hfsok : FramesOk (pre' ++ baseFrames cur.base) := by
        have := hgood.frames; rw [q1] at this
        have h3 : FramesOk ((dropped ++ [Frame.quest n c]) ++ (pre' ++ baseFrames cur.base)) := by simpa using this
        exact h3.suffix
      have hnotpost : ∀ f ∈ pre' ++ baseFrames cur.base, f.isPost = false := by
        intro f hf
        apply hgood.frames.post f
        rw [q1]
        cases dropped with
        | nil => simpa using hf
        | cons d ds =>
          simp only [List.cons_append, List.tail_cons, List.mem_append, List.mem_cons]
          exact Or.inr (Or.inr (List.mem_append.mp hf))
      subst hsh; subst hst
      refine ⟨{ cur with pre := fr :: pre', top := none }, stk, ?_⟩
      have hfs' : ({ cur with pre := fr :: pre', top := none } : Lvl).fs = fr :: (pre' ++ baseFrames cur.base) := rfl
      constructor
      · apply hinv.levels.replaceCur
        · constructor
          · show out' = scopeOut (fr :: (pre' ++ baseFrames cur.base)) none
            rw [q3]; simp [scopeOut, fr, Frame.outs]
          · show _ :: ops' = scopeOps (fr :: (pre' ++ baseFrames cur.base))
            rw [q4]; rfl
        · have hquest : FramesOk (Frame.quest n c :: (pre' ++ baseFrames cur.base)) := by
            have := hgood.frames; rw [q1] at this; exact this.suffix
          refine ⟨⟨?_, ?_, ?_, ?_, ?_, ?_⟩, ?_, by simp, by simp⟩
          · intro f hf; rw [hfs'] at hf; simp only [List.mem_cons] at hf; rcases hf with rfl | hf
            · exact ⟨hc, hnq'⟩
            · exact hfsok.ok f hf
          · intro f hf; rw [hfs'] at hf; simp only [List.tail_cons] at hf
            exact hnotpost f hf
          · intro f hf e he; rw [hfs'] at hf; simp only [List.mem_cons] at hf; rcases hf with rfl | hf
            · simp only [fr, Frame.outs, List.mem_cons, List.not_mem_nil, or_false] at he
              rcases he with he | he
              · rw [he]; simp only [colonLu]; exact q_not_colon n.op hnq'
              · rw [he]; exact hgood.frames.nocolon (Frame.quest n c) (by rw [q1]; simp) c (by simp [Frame.outs])
            · exact hfsok.nocolon f hf e he
          · intro f hf e he; rw [hfs'] at hf; simp only [List.mem_cons] at hf; rcases hf with rfl | hf
            · simp only [fr, Frame.operands, List.mem_cons, List.not_mem_nil, or_false] at he
              rcases he with he | he
              · rw [he]; exact hquest.canon (Frame.quest n c) (by simp) c (by simp [Frame.operands])
              · rw [he]; exact q7
            · exact hfsok.canon f hf e he
          · intro f hf; rw [hfs'] at hf; simp only [List.mem_cons] at hf; rcases hf with rfl | hf
            · exact hquest.fit (Frame.quest n c) (by simp)
            · exact hfsok.fit f hf
          · rw [hfs']
            apply Stacked.cons hfsok.stacked
            intro g hg
            cases hcf : pre' ++ baseFrames cur.base with
            | nil => rw [hcf] at hg; simp at hg
            | cons g' gs =>
              rw [hcf] at hg hquest; simp at hg; subst hg
              exact hquest.head_accepts
          · intro f hf; simp only [List.mem_cons] at hf; rcases hf with rfl | hf
            · rfl
            · exact hgood.noOpn f (by rw [hpre]; simp [hf])
        · rfl
        · rfl
      · rw [hinv.toks]
        symm
        apply allToks_replace
        show scopeToks (fr :: (pre' ++ baseFrames cur.base)) none = scopeToks cur.fs cur.top ++ [Tok.op o]
        rw [scopeToks_consFrame_none, q5, co]; simp [fr, Frame.toks, List.append_assoc]
      · rfl
      · rfl
      · show PrevE _ _
        refine ⟨rfl, fun f hf => by simp [Lvl.fs] at hf; subst hf; rfl, ?_⟩
        simp only [Bool.false_eq_true, if_false]
        exact Or.inr ⟨fr, pre' ++ baseFrames cur.base, rfl, rfl⟩
      · show s.pendingQ - 1 = questCount (fr :: (pre' ++ baseFrames cur.base))
        rw [questCount_reducible fr _ rfl, hinv.pending, q6]; omega
      · show ContentOk _ _
        unfold ContentOk; simp
  · simp [hpq] at hsh

end Occa.Expr

namespace Occa.Expr
open Occa.Gen

theorem step_open_eq (σ : St) (o : Op) (next : Option Tok) (h : has o.ty T.pairStart = true) :
    step σ (.op o) next =
      .ok { cur := { out := [], ops := [{ op := o }], before := if σ.prevCastEnd then none else σ.prev },
            stack := σ.cur :: σ.stack, prev := some (.op o) } := by
  simp [step, h]

theorem frame_not_pairEnd (f : Frame) (hf : f.ok) (hp : f.isPost = false) : has f.node.op.ty T.pairEnd = false := by
  have key : ∀ o : Op, (has o.ty T.pairStart = true ∨ has o.ty T.leftUnary = true ∨ has o.ty T.binary = true) →
      has o.ty T.pairEnd = false := by
    intro o; revert o; exact forall_op (by decide +kernel)
  exact key _ (frame_prev_kind f hf hp)

/-- an opening `(`, `[` or `{` -/
theorem step_open (s s' : Sh) (σ σ' : St) (o : Op) (next : Option Tok) (consumed : List Tok)
    (cur : Lvl) (stk : List Lvl) (hinv : Inv s σ consumed cur stk) (h1 : has o.ty T.pairStart = true)
    (hsh : shStep s (.op o) next = some s') (hst : step σ (.op o) next = .ok σ') :
    ∃ cur' stk', Inv s' σ' (consumed ++ [.op o]) cur' stk' := by
  rw [step_open_eq σ o next h1] at hst
  simp only [Except.ok.injEq] at hst
  obtain ⟨hrep, hgood⟩ := hinv.levels.cur_rep
  have hmode := hinv.mode
  let n : OpNode := { op := o }
  let cur' : Lvl := { pre := [], base := some n, top := none }
  have hcur'good : cur'.Good := by
    refine ⟨⟨?_, by simp [cur', Lvl.fs, baseFrames], ?_, ?_, ?_, ?_⟩, by simp [cur'], by simp [cur'], by simp [cur']⟩
    · intro f hf; simp [cur', Lvl.fs, baseFrames] at hf; subst hf; exact h1
    · intro f hf e he; simp [cur', Lvl.fs, baseFrames] at hf; subst hf; simp [Frame.outs] at he
    · intro f hf e he; simp [cur', Lvl.fs, baseFrames] at hf; subst hf; simp [Frame.operands] at he
    · intro f hf; simp [cur', Lvl.fs, baseFrames] at hf; subst hf; rfl
    · simp [cur', Lvl.fs, baseFrames, Stacked]
  have htoks : allToks cur' (cur :: stk) = allToks cur stk ++ [Tok.op o] := by
    simp [allToks, cur', Lvl.toks, Lvl.fs, baseFrames, scopeToks, topToks, Frame.toks, n, List.flatMap_append]
  -- common tail of both cases
  have finish : ∀ (inE cok : Bool),
      s' = { needOperand := true, pendingQ := 0, content := .empty,
             stack := { closerTy := shl1 o.ty, inE := inE, savedQ := s.pendingQ, castOk := cok } :: s.stack,
             prev := some (.op o), prevCastEnd := false } →
      PairOk cur n { closerTy := shl1 o.ty, inE := inE, savedQ := s.pendingQ, castOk := cok }
        (if σ.prevCastEnd then none else σ.prev) →
      ∃ cur' stk', Inv s' σ' (consumed ++ [.op o]) cur' stk' := by
    intro inE cok hs' hpair
    subst hs'; subst hst
    refine ⟨cur', cur :: stk, ?_⟩
    constructor
    · exact Levels.push cur' cur stk _ σ.cur σ.stack _ s.stack n ⟨rfl, rfl⟩ hcur'good rfl hpair hinv.levels
    · rw [htoks, hinv.toks]
    · rfl
    · rfl
    · show PrevE _ _
      refine ⟨rfl, fun f hf => by simp [cur', Lvl.fs, baseFrames] at hf; subst hf; rfl, ?_⟩
      simp only [Bool.false_eq_true, if_false]
      exact Or.inr ⟨Frame.opn n, [], rfl, rfl⟩
    · rfl
    · exact ⟨rfl, rfl⟩
  by_cases hne : s.needOperand = true
  · simp only [hne, if_true] at hmode
    obtain ⟨htop, hnp, hprev⟩ := hmode
    simp only [shStep, h1, if_true, hne] at hsh
    by_cases hk : (has o.ty T.parentheses || has o.ty T.braces) = true
    · simp only [hk, if_true, Option.some.injEq] at hsh
      apply finish true (prefixKeeps .parenCast s) hsh.symm
      refine ⟨rfl, by simpa using hk, ⟨htop, hnp⟩, ?_, hinv.pending, ?_⟩
      · simp only [if_true]
        rw [hinv.castEnd, hinv.prev]
        by_cases hce : s.prevCastEnd = true
        · simp [hce]
        · simp only [hce, Bool.false_eq_true, if_false] at hprev ⊢
          rcases hprev with ⟨_, hp⟩ | ⟨f, fs', hfs, hp⟩
          · exact Or.inl hp
          · exact Or.inr ⟨f.node.op, hp, frame_not_pairEnd f (hgood.frames.ok f (by rw [hfs]; simp)) (hnp f (by rw [hfs]; rfl))⟩
      · -- a cast may follow the pending operator
        intro _ hkeep g hg
        simp only at hkeep
        have hgok := hgood.frames.ok g (List.mem_of_mem_head? hg)
        apply accepts_of_keeps g hgok (hnp g hg)
        unfold prefixKeeps at hkeep
        by_cases hce : s.prevCastEnd = true
        · simp only [hce, if_true] at hkeep hprev
          obtain ⟨m, fs'', hfs2, hn⟩ := hprev
          rw [hfs2] at hg; simp at hg; subst hg
          simpa [Frame.node, hn] using hkeep
        · simp only [hce, Bool.false_eq_true, if_false] at hkeep hprev
          rcases hprev with ⟨hnil, _⟩ | ⟨g', fs'', hfs2, hp⟩
          · rw [hnil] at hg; simp at hg
          · rw [hfs2] at hg; simp at hg; subst hg
            rw [hp] at hkeep; simpa using hkeep
    · simp [hk] at hsh
  · simp only [hne, Bool.false_eq_true, if_false] at hmode
    simp only [shStep, h1, if_true, hne, Bool.false_eq_true, if_false] at hsh
    by_cases hk : ((has o.ty T.parentheses || has o.ty T.brackets) && !isPostfixTok s.prev) = true
    · simp only [hk, if_true, Option.some.injEq] at hsh
      simp only [Bool.and_eq_true, Bool.not_eq_true'] at hk
      obtain ⟨hkinds, hnotpost⟩ := prevO_kinds hmode hgood
      obtain ⟨hce, hm, _⟩ := hmode
      apply finish false true hsh.symm
      have hnp := hnotpost hk.2
      refine ⟨rfl, by simpa using hk.1, ⟨?_, hnp⟩, ?_, hinv.pending, fun h => by simp at h⟩
      · simp only [Bool.false_eq_true, if_false]
        rcases hm with ⟨h, _⟩ | ⟨_, n', e, fs', hfs⟩
        · exact h
        · have := hnp (Frame.post n' e) (by rw [hfs]; rfl); simp [Frame.isPost] at this
      · simp only [Bool.false_eq_true, if_false]
        rw [hinv.castEnd, hinv.prev, hce]
        simp only [Bool.false_eq_true, if_false]
        rcases hkinds with h | h | ⟨p, hp, hpr⟩
        · exact Or.inl h
        · exact Or.inr h
        · rw [hp] at hk; simp [isPostfixTok, hpr] at hk
    · simp [hk] at hsh

end Occa.Expr

namespace Occa.Expr
open Occa.Gen

/-! ### closing a pair -/

theorem pair_match : ∀ a b : Op, has a.ty T.pairStart = true → (b.ty == shl1 a.ty) = true →
    (a = .parenthesesStart ∧ b = .parenthesesEnd) ∨ (a = .braceStart ∧ b = .braceEnd) ∨
    (a = .bracketStart ∧ b = .bracketEnd) ∨ (a = .cudaCallStart ∧ b = .cudaCallEnd) := by
  intro a; revert a
  apply forall_op
  have : ∀ a ∈ Op.all, ∀ b ∈ Op.all, has a.ty T.pairStart = true → (b.ty == shl1 a.ty) = true →
    (a = .parenthesesStart ∧ b = .parenthesesEnd) ∨ (a = .braceStart ∧ b = .braceEnd) ∨
    (a = .bracketStart ∧ b = .bracketEnd) ∨ (a = .cudaCallStart ∧ b = .cudaCallEnd) := by decide +kernel
  intro a ha b
  exact this a ha b (mem_all b)

theorem scopeOut_base (pre : List Frame) (b : Option OpNode) (top : Option Expr) :
    scopeOut (pre ++ baseFrames b) top = scopeOut pre top := by
  cases b <;> simp [scopeOut, baseFrames, Frame.outs]

theorem scopeOps_base (pre : List Frame) (n : OpNode) :
    scopeOps (pre ++ baseFrames (some n)) = scopeOps pre ++ [n] := by
  simp [scopeOps, baseFrames, Frame.node]

theorem scopeToks_base (pre : List Frame) (n : OpNode) (top : Option Expr) :
    scopeToks (pre ++ baseFrames (some n)) top = Tok.op n.op :: scopeToks pre top := by
  simp [scopeToks, baseFrames, Frame.toks]

theorem FramesOk.prefix {a b : List Frame} (h : FramesOk (a ++ b)) : FramesOk a := by
  refine ⟨fun f hf => h.ok f (by simp [hf]), fun f hf => ?_, fun f hf => h.nocolon f (by simp [hf]),
    fun f hf => h.canon f (by simp [hf]), fun f hf => h.fit f (by simp [hf]), h.stacked.prefix⟩
  cases a with
  | nil => simp at hf
  | cons x xs => exact h.post f (by simp at hf ⊢; exact Or.inl hf)

theorem questCount_zero_base (pre : List Frame) (n : OpNode) (hno : ∀ f ∈ pre, f.isOpn = false)
    (h : questCount (pre ++ baseFrames (some n)) = 0) : ∀ f ∈ pre, f.reducible = true := by
  induction pre with
  | nil => simp
  | cons x xs ih =>
    have hx := hno x (by simp)
    simp only [List.cons_append, questCount, hx, Bool.false_eq_true, if_false] at h
    intro f hf
    simp only [List.mem_cons] at hf
    rcases hf with rfl | hf
    · cases hq : f.isQuest
      · simp [Frame.reducible, hx, hq]
      · simp [hq] at h
    · exact ih (fun g hg => hno g (by simp [hg])) (by omega) f hf

theorem apply_pairEnd (o : Op) (prev : Option Tok) (out : List Expr) (h : has o.ty T.pairEnd = true) :
    applyOperator { op := o } prev out =
      .ok (match out with
           | v :: rest => if !isPairStartTok prev then .pair o v :: rest else .pair o .empty :: v :: rest
           | [] => [.pair o .empty]) := by
  obtain ⟨_, _, f3, f4, f5, f6⟩ := pairEnd_facts o h
  cases out with
  | nil => simp [applyOperator, f3, f4, f5, f6]
  | cons v rest =>
    simp only [applyOperator, f3, f4, f5, f6, Bool.false_eq_true, if_false, if_true]
    split <;> rfl

end Occa.Expr

namespace Occa.Expr
open Occa.Gen

theorem step_close_eq (σ : St) (o : Op) (next : Option Tok) (parent : Scope) (rest : List Scope)
    (h1 : has o.ty T.pairStart = false) (h2 : has o.ty T.pairEnd = true) (hs : σ.stack = parent :: rest) :
    step σ (.op o) next =
      match closeLoop o σ.prev (σ.cur.out ++ parent.out) (σ.cur.ops ++ parent.ops) with
      | .error x => .error x
      | .ok (out, ops) =>
        match attachPair σ.cur.before out ops with
        | .error x => .error x
        | .ok (out', ops', isCast) =>
          .ok { cur := { parent with out := out', ops := ops' }, stack := rest, prev := some (.op o), prevCastEnd := isCast } := by
  simp only [step, h1, h2, hs, Bool.false_eq_true, if_false, if_true]
  rfl

theorem closeLoop_at_open (o : Op) (prev : Option Tok) (out : List Expr) (n : OpNode) (ops : List OpNode)
    (hn : has n.op.ty T.pairStart = true) (hm : (o.ty == shl1 n.op.ty) = true) :
    closeLoop o prev out (n :: ops) =
      match applyOperator { op := o } prev (applyTernary out) with
      | .error x => .error x
      | .ok out' => .ok (out', ops) := by
  rw [closeLoop]
  simp only [hn, if_true, hm]
  rfl

/-- the result of `closePair`: the content of the pair as one `pairNode` on the enclosing scope -/
theorem close_core (s : Sh) (σ : St) (consumed : List Tok) (cur par : Lvl) (stk : List Lvl)
    (hinv : Inv s σ consumed cur (par :: stk)) (o : Op) (n : OpNode) (parent : Scope)
    (hbase : cur.base = some n) (hpar : par.Rep parent) (hparg : par.Good)
    (h2 : has o.ty T.pairEnd = true) (hm : (o.ty == shl1 n.op.ty) = true)
    (hq : s.pendingQ = 0) (hmode : s.needOperand = false ∨ s.content = .empty) :
    ∃ v', closeLoop o σ.prev (σ.cur.out ++ parent.out) (σ.cur.ops ++ parent.ops) =
            .ok (.pair o v' :: parent.out, parent.ops) ∧
          printToks v' = scopeToks cur.pre cur.top ∧ colonLu v' = false ∧
          (isTypeNode v' = true ↔ s.content = .oneType) ∧ canonB v' = true := by
  obtain ⟨hrep, hgood⟩ := hinv.levels.cur_rep
  have hfs : cur.fs = cur.pre ++ baseFrames (some n) := by rw [Lvl.fs, hbase]
  have hopn : has n.op.ty T.pairStart = true := hgood.frames.ok (Frame.opn n) (by rw [hfs]; simp [baseFrames])
  have hout : σ.cur.out = scopeOut cur.pre cur.top := by rw [hrep.1, hfs, scopeOut_base]
  have hops : σ.cur.ops = scopeOps cur.pre ++ [n] := by rw [hrep.2, hfs, scopeOps_base]
  have hparhead : ∀ e, parent.out.head? = some e → colonLu e = false := by
    intro e he
    rw [hpar.1] at he
    cases htop : par.top with
    | some t => rw [htop] at he; simp [scopeOut] at he; subst he; exact hparg.topOk t htop
    | none =>
      rw [htop] at he
      simp only [scopeOut, Option.toList, List.nil_append] at he
      have : e ∈ par.fs.flatMap Frame.outs := List.mem_of_mem_head? he
      simp only [List.mem_flatMap] at this
      obtain ⟨f, hf, hef⟩ := this
      exact hparg.frames.nocolon f hf e hef
  have hcont := hinv.content
  have hmd := hinv.mode
  by_cases hne : s.needOperand = true
  · -- an empty pair
    have hce : s.content = .empty := by
      rcases hmode with h | h
      · rw [hne] at h; simp at h
      · exact h
    simp only [hne, if_true] at hmd
    obtain ⟨htop, hnp, hprev⟩ := hmd
    unfold ContentOk at hcont
    rw [hce] at hcont
    have hpre : cur.pre = [] := hcont.1
    have hprevtok : isPairStartTok σ.prev = true := by
      rw [hinv.prev]
      by_cases hcast : s.prevCastEnd = true
      · simp only [hcast, if_true] at hprev
        obtain ⟨m, fs', hh, _⟩ := hprev
        rw [hfs, hpre] at hh; simp [baseFrames] at hh
      · simp only [hcast, Bool.false_eq_true, if_false] at hprev
        rcases hprev with ⟨hh, _⟩ | ⟨f, fs', hh, hp⟩
        · rw [hfs, hpre] at hh; simp [baseFrames] at hh
        · rw [hfs, hpre] at hh; simp [baseFrames] at hh
          rw [hp, ← hh.1]; simpa [isPairStartTok, Tok.opType, Frame.node] using hopn
    refine ⟨.empty, ?_, by rw [hpre, htop]; simp [scopeToks, topToks, printToks], rfl, by simp [isTypeNode, hce], rfl⟩
    rw [hout, hops, hpre, htop]
    simp only [scopeOut, scopeOps, Option.toList, List.flatMap_nil, List.append_nil, List.nil_append, List.map_nil]
    show closeLoop o σ.prev parent.out (n :: parent.ops) = _
    rw [closeLoop_at_open o σ.prev parent.out n parent.ops hopn hm, applyTernary_noop parent.out hparhead,
      apply_pairEnd o σ.prev parent.out h2]
    cases parent.out <;> simp [hprevtok]
  · -- an operand is available: reduce everything above the open pair
    have hne' : s.needOperand = false := by simpa using hne
    simp only [hne', Bool.false_eq_true, if_false] at hmd
    obtain ⟨hkinds, _⟩ := prevO_kinds hmd hgood
    obtain ⟨_, hmo, _⟩ := hmd
    have hred : ∀ f ∈ cur.pre, f.reducible = true :=
      questCount_zero_base cur.pre n hgood.noOpn (by rw [← hfs, ← hinv.pending, hq])
    have hpreok : FramesOk cur.pre := by have := hgood.frames; rw [hfs] at this; exact this.prefix
    have hmo' : ModeO cur.pre cur.top := by
      rw [hfs] at hmo
      rcases hmo with ⟨a, b⟩ | ⟨a, m, e, fs', b⟩
      · refine Or.inl ⟨a, fun f hf => b f ?_⟩
        cases hp : cur.pre with
        | nil => rw [hp] at hf; simp at hf
        | cons x xs => rw [hp] at hf; simpa using hf
      · cases hp : cur.pre with
        | nil => rw [hp] at b; simp [baseFrames] at b
        | cons x xs => rw [hp] at b; simp at b; exact Or.inr ⟨a, m, e, xs, by rw [b.1]⟩
    have hcan : ∀ e, cur.top = some e → canonB e = true ∧ ∀ f, cur.pre.head? = some f → f.accepts (rootPrec e) = true := by
      intro e he
      obtain ⟨c1, c2⟩ := top_accepted hgood e he
      refine ⟨c1, fun f hf => c2 f ?_ ?_⟩
      · rw [hfs]
        cases hp : cur.pre with
        | nil => rw [hp] at hf; simp at hf
        | cons x xs => rw [hp] at hf; simpa using hf
      · rcases hmo' with ⟨_, h⟩ | ⟨h, _⟩
        · exact h f hf
        · rw [h] at he; simp at he
    obtain ⟨v, hv1, hv2, hvn, hvt, hvc, _, hv4⟩ := reduce_all σ.prev cur.pre hred hpreok cur.top hmo' hgood.topOk hcan
    have hnotstart : isPairStartTok σ.prev = false := by
      rw [hinv.prev]
      rcases hkinds with ⟨t, ht, hno⟩ | ⟨b, hb, hbe⟩ | ⟨p, hp, hpr⟩
      · rw [ht]
        cases t with
        | op x => exact absurd rfl (hno x)
        | _ => simp [isPairStartTok, Tok.opType]; exact none_facts.1
      · rw [hb]; simp [isPairStartTok, Tok.opType, (pairEnd_facts b hbe).1]
      · rw [hp]; simp [isPairStartTok, Tok.opType, (ru_facts p hpr).1]
    refine ⟨v, ?_, hv1, hv2, ?_, hvc⟩
    · rw [hout, hops]
      have := hv4 o parent.out (n :: parent.ops)
      simp only [List.append_assoc, List.singleton_append] at this ⊢
      rw [this, closeLoop_at_open o σ.prev (v :: parent.out) n parent.ops hopn hm,
        applyTernary_noop (v :: parent.out) (fun e he => by simp at he; subst he; exact hv2),
        apply_pairEnd o σ.prev (v :: parent.out) h2]
      simp [hnotstart]
    · unfold ContentOk at hcont
      cases hc : s.content with
      | empty =>
        rw [hc] at hcont
        have := hvn hcont.1; rw [hcont.2] at this; simp at this
      | oneType =>
        rw [hc] at hcont
        obtain ⟨hp, m, k, hk⟩ := hcont
        have := hvn hp; rw [hk] at this; simp at this; subst this
        simp [isTypeNode]
      | other =>
        rw [hc] at hcont
        simp only [reduceCtorEq, iff_false, Bool.not_eq_true]
        by_cases hp : cur.pre = []
        · have hvtop := hvn hp
          cases hv : v with
          | vtype m k => exact absurd ⟨hp, Or.inr ⟨m, k, by rw [hvtop, hv]⟩⟩ hcont
          | _ => rfl
        · exact hvt hp

end Occa.Expr

namespace Occa.Expr
open Occa.Gen

theorem Levels.inv_push {cur : Lvl} {stk : List Lvl} {sc : Scope} {stack : List Scope} {sh : ShScope} {shs : List ShScope}
    (h : Levels cur stk sc stack (sh :: shs)) :
    ∃ par stk' psc pstack n, stk = par :: stk' ∧ stack = psc :: pstack ∧ cur.Rep sc ∧ cur.Good ∧ cur.base = some n ∧
      PairOk par n sh sc.before ∧ Levels par stk' psc pstack shs := by
  cases h with
  | push _ par stk' _ psc pstack _ _ n h1 h2 h3 h4 h5 => exact ⟨par, stk', psc, pstack, n, rfl, rfl, h1, h2, h3, h4, h5⟩

theorem allToks_pop (cur par : Lvl) (stk : List Lvl) : allToks cur (par :: stk) = allToks par stk ++ cur.toks := by
  simp [allToks, List.flatMap_append]

theorem parenCast_prefixOk : preOk .parenCast = true := by decide
theorem parenCast_cast : has Op.parenCast.ty T.parenCast = true := by decide
theorem pairEnd_of_eq : has Op.parenthesesEnd.ty T.pairEnd = true ∧ has Op.braceEnd.ty T.pairEnd = true ∧
    has Op.bracketEnd.ty T.pairEnd = true := by decide
theorem paren_kinds : has Op.parenthesesEnd.ty T.parentheses = true ∧ has Op.parenthesesEnd.ty T.braces = false ∧
    has Op.braceEnd.ty T.parentheses = false ∧ has Op.braceEnd.ty T.braces = true ∧
    has Op.bracketEnd.ty T.parentheses = false ∧ has Op.bracketEnd.ty T.braces = false ∧
    has Op.bracketEnd.ty T.brackets = true ∧ has Op.parenthesesEnd.ty T.brackets = false ∧
    has Op.parenthesesStart.ty T.braces = false ∧ has Op.parenthesesStart.ty T.brackets = false ∧
    has Op.braceStart.ty T.parentheses = false ∧ has Op.braceStart.ty T.brackets = false ∧
    has Op.bracketStart.ty T.parentheses = false ∧ has Op.bracketStart.ty T.braces = false ∧
    has Op.cudaCallStart.ty T.parentheses = false ∧ has Op.cudaCallStart.ty T.braces = false ∧
    has Op.cudaCallStart.ty T.brackets = false := by decide

/-- what `attachPair` does with the `pairNode`, and the description of the enclosing scope afterwards -/
theorem attach_core (par : Lvl) (parent : Scope) (n : OpNode) (o : Op) (sc : ShScope) (before : Option Tok)
    (v' : Expr) (isTy : Bool) (hpar : par.Rep parent) (hparg : par.Good) (hpair : PairOk par n sc before)
    (hopn : has n.op.ty T.pairStart = true) (hm : (o.ty == shl1 n.op.ty) = true)
    (hcl : colonLu v' = false) (hty : isTypeNode v' = isTy) (hvc : canonB v' = true)
    (hcok : sc.inE = true → has o.ty T.parentheses = true → isTy = true → sc.castOk = true) :
    ∃ (out' : List Expr) (ops' : List OpNode) (par' : Lvl), attachPair before (.pair o v' :: parent.out) parent.ops =
        .ok (out', ops', sc.inE && has o.ty T.parentheses && isTy) ∧
      par'.Rep { parent with out := out', ops := ops' } ∧ par'.Good ∧ par'.base = par.base ∧
      par'.toks = par.toks ++ (Tok.op n.op :: printToks v') ++ [Tok.op o] ∧
      questCount par'.fs = questCount par.fs ∧
      (if sc.inE && has o.ty T.parentheses && isTy then
         par'.top = none ∧ ∃ m, par'.fs = Frame.pre m :: par.fs ∧ m.op = .parenCast
       else par'.top.isSome = true ∧ par'.fs = par.fs ∧ (∀ m k, par'.top ≠ some (Expr.vtype m k))) := by
  have hpcast := hpair.cast
  obtain ⟨hcloser, hkind, ⟨hptop, hphead⟩, hbefore, _, _⟩ := hpair
  have hmatch := pair_match n.op o hopn hm
  obtain ⟨k1, k2, k3, k4, k5, k6, k7, k8, k9, k10, k11, k12, k13, k14, k15, k16, k17⟩ := paren_kinds
  have hparout : parent.out = scopeOut par.fs par.top := hpar.1
  by_cases hE : sc.inE = true
  · -- operand position: parentheses, cast or tuple
    simp only [hE, if_true] at hkind hptop hbefore
    have htrans : attachPair before (.pair o v' :: parent.out) parent.ops =
        transformLastPair (.pair o v' :: parent.out) parent.ops := by
      unfold attachPair
      split
      · rfl
      · rcases hbefore with hb | ⟨b, hb, hbe⟩
        · rw [hb]
        · rw [hb]; simp [hbe]
    rcases hmatch with ⟨ha, hb⟩ | ⟨ha, hb⟩ | ⟨ha, hb⟩ | ⟨ha, hb⟩
    · -- ( )
      subst hb
      cases hv : isTy
      · -- parentheses
        have hnot : ∀ m k, v' ≠ .vtype m k := by
          intro m k h; rw [h, hv] at hty; simp [isTypeNode] at hty
        refine ⟨.paren v' :: parent.out, parent.ops, { par with top := some (.paren v') }, ?_, ?_, ?_, rfl, ?_, rfl, ?_⟩
        · rw [htrans]; simp only [transformLastPair, k1, k2, Bool.or_false, Bool.not_true, Bool.false_eq_true, if_false, if_true]
          cases v' <;> simp_all
        · exact ⟨by show _ = scopeOut par.fs (some _); rw [scopeOut_some, hparout, hptop], hpar.2⟩
        · exact ⟨hparg.frames, hparg.noOpn, fun e he => by simp at he; subst he; rfl,
                 fun e he => by simp at he; subst he; exact ⟨by simp [canonB, hvc], rfl⟩⟩
        · show scopeToks par.fs (some (.paren v')) = scopeToks par.fs par.top ++ _ ++ _
          rw [scopeToks_some, hptop, ha]; simp [printToks, scopeToks, topToks]
        · simp only [hE, k1, Bool.and_false, Bool.false_eq_true, if_false]
          exact ⟨rfl, rfl, fun m k h => by simp at h⟩
      · -- cast
        obtain ⟨m, k, hvk⟩ : ∃ m k, v' = .vtype m k := by
          cases v' <;> simp [isTypeNode, hv] at hty
          exact ⟨_, _, rfl⟩
        subst hvk
        let cn : OpNode := { op := .parenCast, castName := m, castPtrs := k }
        refine ⟨parent.out, cn :: parent.ops, { par with pre := Frame.pre cn :: par.pre }, ?_, ?_, ?_, rfl, ?_, ?_, ?_⟩
        · rw [htrans]; simp [transformLastPair, k1, hE, cn]
        · exact ⟨by show _ = scopeOut (Frame.pre cn :: par.fs) par.top; rw [hparout]; simp [scopeOut, Frame.outs],
                 by show _ = scopeOps (Frame.pre cn :: par.fs); rw [hpar.2]; rfl⟩
        · have hisTy : isTy = true := hv
          have hfr : FramesOk (Frame.pre cn :: par.fs) :=
            { ok := by
                intro f hf; simp only [List.mem_cons] at hf; rcases hf with rfl | hf
                · exact parenCast_prefixOk
                · exact hparg.frames.ok f hf
              post := by
                intro f hf
                simp only [List.tail_cons] at hf
                cases hcf : par.fs with
                | nil => rw [hcf] at hf; simp at hf
                | cons g gs =>
                  rw [hcf] at hf; simp only [List.mem_cons] at hf; rcases hf with rfl | hf
                  · exact hphead f (by rw [hcf]; rfl)
                  · exact hparg.frames.post f (by rw [hcf]; simpa using hf)
              nocolon := by
                intro f hf e he; simp only [List.mem_cons] at hf; rcases hf with rfl | hf
                · simp [Frame.outs] at he
                · exact hparg.frames.nocolon f hf e he
              canon := by
                intro f hf e he; simp only [List.mem_cons] at hf; rcases hf with rfl | hf
                · simp [Frame.operands] at he
                · exact hparg.frames.canon f hf e he
              fit := by
                intro f hf; simp only [List.mem_cons] at hf; rcases hf with rfl | hf
                · rfl
                · exact hparg.frames.fit f hf
              stacked := by
                apply Stacked.cons hparg.frames.stacked
                intro g hg
                exact hpcast hE (hcok hE k1 hisTy) g hg }
          refine ⟨hfr, ?_, hparg.topOk, hparg.topCanon⟩
          intro f hf; simp only [List.mem_cons] at hf; rcases hf with rfl | hf
          · rfl
          · exact hparg.noOpn f hf
        · show scopeToks (Frame.pre cn :: par.fs) par.top = scopeToks par.fs par.top ++ _ ++ _
          rw [hptop, scopeToks_consFrame_none, ha]
          simp [Frame.toks, pfxToks, cn, parenCast_cast, printToks]
        · show questCount (Frame.pre cn :: par.fs) = questCount par.fs
          exact questCount_reducible _ _ rfl
        · simp only [hE, k1, Bool.and_self, if_true]
          exact ⟨hptop, cn, rfl, rfl⟩
    · -- { }
      subst hb
      refine ⟨.tuple v' :: parent.out, parent.ops, { par with top := some (.tuple v') }, ?_, ?_, ?_, rfl, ?_, rfl, ?_⟩
      · rw [htrans]; simp [transformLastPair, k3, k4, hE]
      · exact ⟨by show _ = scopeOut par.fs (some _); rw [scopeOut_some, hparout, hptop], hpar.2⟩
      · exact ⟨hparg.frames, hparg.noOpn, fun e he => by simp at he; subst he; rfl,
               fun e he => by simp at he; subst he; exact ⟨by simp [canonB, hvc], rfl⟩⟩
      · show scopeToks par.fs (some (.tuple v')) = scopeToks par.fs par.top ++ _ ++ _
        rw [scopeToks_some, hptop, ha]; simp [printToks, scopeToks, topToks]
      · simp only [hE, k3, Bool.and_false, Bool.false_and, Bool.false_eq_true, if_false]
        exact ⟨rfl, rfl, fun m k h => by simp at h⟩
    · rw [ha] at hkind; simp [k13, k14] at hkind
    · rw [ha] at hkind; simp [k15, k16] at hkind
  · -- after an operand: call or subscript
    have hE' : sc.inE = false := by simpa using hE
    simp only [hE', Bool.false_eq_true, if_false] at hkind hptop hbefore
    obtain ⟨f, hf⟩ := Option.isSome_iff_exists.mp hptop
    have hout2 : parent.out = f :: scopeOut par.fs none := by rw [hparout, hf, scopeOut_some]
    have hatt : ∀ r, (has o.ty T.parentheses = true ∧ r = Expr.call f v') ∨
                      (has o.ty T.parentheses = false ∧ has o.ty T.brackets = true ∧ r = Expr.sub f v') →
        attachPair before (.pair o v' :: parent.out) parent.ops = .ok (r :: scopeOut par.fs none, parent.ops, false) := by
      intro r hr
      unfold attachPair
      rw [hout2]
      simp only [List.length_cons]
      have hlen : ¬ ((scopeOut par.fs none).length + 1 + 1 < 2) := by omega
      simp only [hlen, if_false]
      have hgo : attachPair.attach (.pair o v' :: f :: scopeOut par.fs none) parent.ops =
          .ok (r :: scopeOut par.fs none, parent.ops, false) := by
        rcases hr with ⟨h1, rfl⟩ | ⟨h1, h2, rfl⟩
        · simp [attachPair.attach, h1]
        · simp [attachPair.attach, h1, h2]
      rcases hbefore with ⟨t, ht, hno⟩ | ⟨b, hb, hbe⟩
      · rw [ht]
        cases t with
        | op x => exact absurd rfl (hno x)
        | _ => exact hgo
      · rw [hb]; simp [hbe]; exact hgo
    have fin : ∀ r, colonLu r = false → (∀ m k, r ≠ .vtype m k) → (canonB r = true ∧ rootPrec r = 0) →
        printToks r = printToks f ++ (Tok.op n.op :: printToks v') ++ [Tok.op o] →
        attachPair before (.pair o v' :: parent.out) parent.ops = .ok (r :: scopeOut par.fs none, parent.ops, false) →
        ∃ (out' : List Expr) (ops' : List OpNode) (par' : Lvl), attachPair before (.pair o v' :: parent.out) parent.ops =
            .ok (out', ops', sc.inE && has o.ty T.parentheses && isTy) ∧
          par'.Rep { parent with out := out', ops := ops' } ∧ par'.Good ∧ par'.base = par.base ∧
          par'.toks = par.toks ++ (Tok.op n.op :: printToks v') ++ [Tok.op o] ∧
          questCount par'.fs = questCount par.fs ∧
          (if sc.inE && has o.ty T.parentheses && isTy then
             par'.top = none ∧ ∃ m, par'.fs = Frame.pre m :: par.fs ∧ m.op = .parenCast
           else par'.top.isSome = true ∧ par'.fs = par.fs ∧ (∀ m k, par'.top ≠ some (Expr.vtype m k))) := by
      intro r hr1 hr2 hrc hr3 hr4
      refine ⟨r :: scopeOut par.fs none, parent.ops, { par with top := some r }, ?_, ?_, ?_, rfl, ?_, rfl, ?_⟩
      · rw [hr4]; simp [hE']
      · exact ⟨by show _ = scopeOut par.fs (some r); rw [scopeOut_some], hpar.2⟩
      · exact ⟨hparg.frames, hparg.noOpn, fun e he => by simp at he; subst he; exact hr1,
               fun e he => by simp at he; subst he; exact hrc⟩
      · show scopeToks par.fs (some r) = scopeToks par.fs par.top ++ _ ++ _
        rw [scopeToks_some, hf, scopeToks_some, hr3]; simp [List.append_assoc]
      · simp only [hE', Bool.false_and, Bool.false_eq_true, if_false]
        exact ⟨rfl, rfl, fun m k h => by simp at h; exact hr2 m k h⟩
    rcases hmatch with ⟨ha, hb⟩ | ⟨ha, hb⟩ | ⟨ha, hb⟩ | ⟨ha, hb⟩
    · subst hb
      obtain ⟨fc1, fc2⟩ := hparg.topCanon f hf
      exact fin (.call f v') rfl (fun _ _ h => by simp at h) ⟨by simp [canonB, fc1, fc2, hvc], rfl⟩
        (by rw [ha]; simp [printToks]) (hatt _ (Or.inl ⟨k1, rfl⟩))
    · rw [ha] at hkind; simp [k11, k12] at hkind
    · subst hb
      obtain ⟨fc1, fc2⟩ := hparg.topCanon f hf
      exact fin (.sub f v') rfl (fun _ _ h => by simp at h) ⟨by simp [canonB, fc1, fc2, hvc], rfl⟩
        (by rw [ha]; simp [printToks]) (hatt _ (Or.inr ⟨k5, k7, rfl⟩))
    · rw [ha] at hkind; simp [k15, k17] at hkind

end Occa.Expr

namespace Occa.Expr
open Occa.Gen

theorem shStep_close_eq (s : Sh) (o : Op) (next : Option Tok) (sc : ShScope) (rest : List ShScope)
    (h1 : has o.ty T.pairStart = false) (h2 : has o.ty T.pairEnd = true) (hs : s.stack = sc :: rest) :
    shStep s (.op o) next =
      if o.ty == sc.closerTy && s.pendingQ == 0 && (!s.needOperand || s.content == .empty) then
        if sc.inE && has o.ty T.parentheses && s.content == .oneType then
          if sc.castOk then
            some { needOperand := true, pendingQ := sc.savedQ, content := .other, stack := rest,
                   prev := some (.op o), prevCastEnd := true }
          else none
        else
          some { needOperand := false, pendingQ := sc.savedQ, content := .other, stack := rest,
                 prev := some (.op o), prevCastEnd := false }
      else none := by
  simp only [shStep, h1, h2, hs, Bool.false_eq_true, if_false, if_true]

/-- a closing `)`, `]` or `}` -/
theorem step_close (s s' : Sh) (σ σ' : St) (o : Op) (next : Option Tok) (consumed : List Tok)
    (cur : Lvl) (stk : List Lvl) (hinv : Inv s σ consumed cur stk) (h2 : has o.ty T.pairEnd = true)
    (hsh : shStep s (.op o) next = some s') (hst : step σ (.op o) next = .ok σ') :
    ∃ cur' stk', Inv s' σ' (consumed ++ [.op o]) cur' stk' := by
  have h1 : has o.ty T.pairStart = false := (pairEnd_facts o h2).1
  cases hstack : s.stack with
  | nil => simp [shStep, h1, h2, hstack] at hsh
  | cons sc rest =>
    have hl := hinv.levels
    rw [hstack] at hl
    obtain ⟨par, stk', psc, pstack, n, hstk, hσstack, hrep, hgood, hbase, hpair, hlev⟩ := hl.inv_push
    subst hstk
    obtain ⟨hparrep, hpargood⟩ := hlev.cur_rep
    rw [shStep_close_eq s o next sc rest h1 h2 hstack] at hsh
    by_cases hcond : (o.ty == sc.closerTy && s.pendingQ == 0 && (!s.needOperand || s.content == .empty)) = true
    · simp only [hcond, if_true] at hsh
      simp only [Bool.and_eq_true, beq_iff_eq, Bool.or_eq_true, Bool.not_eq_true'] at hcond
      obtain ⟨⟨hc1, hc2⟩, hc3⟩ := hcond
      have hfs : cur.fs = cur.pre ++ baseFrames (some n) := by rw [Lvl.fs, hbase]
      have hopn : has n.op.ty T.pairStart = true := hgood.frames.ok (Frame.opn n) (by rw [hfs]; simp [baseFrames])
      have hm : (o.ty == shl1 n.op.ty) = true := by rw [hc1, hpair.closer]; simp
      obtain ⟨v', hclose, hvtoks, hvcl, hvty, hvcan⟩ :=
        close_core s σ consumed cur par stk' hinv o n psc hbase hparrep hpargood h2 hm hc2
          (by rcases hc3 with h | h
              · exact Or.inl h
              · exact Or.inr (by simpa using h))
      have hcok : sc.inE = true → has o.ty T.parentheses = true → (s.content == .oneType) = true → sc.castOk = true := by
        intro hE hpo hT
        cases hck : sc.castOk with
        | true => rfl
        | false => simp [hE, hpo, hT, hck] at hsh
      obtain ⟨out', ops', par', hatt, hrep', hgood', hbase', htoks', hq', hshape⟩ :=
        attach_core par psc n o sc σ.cur.before v' (s.content == .oneType) hparrep hpargood hpair hopn hm hvcl
          (by
            cases hc : s.content <;> rw [hc] at hvty
            · have : isTypeNode v' = false := by
                cases h : isTypeNode v'
                · rfl
                · exact absurd (hvty.mp h) (by simp)
              rw [this]; rfl
            · rw [hvty.mpr rfl]; rfl
            · have : isTypeNode v' = false := by
                cases h : isTypeNode v'
                · rfl
                · exact absurd (hvty.mp h) (by simp)
              rw [this]; rfl) hvcan hcok
      rw [step_close_eq σ o next psc pstack h1 h2 hσstack, hclose] at hst
      simp only [hatt, Except.ok.injEq] at hst
      have htokall : consumed ++ [Tok.op o] = allToks par' stk' := by
        rw [hinv.toks, allToks_pop, allToks, allToks, htoks']
        show _ ++ scopeToks cur.fs cur.top ++ _ = _
        rw [hfs, scopeToks_base, hvtoks]; simp [allToks, List.append_assoc]
      refine ⟨par', stk', ?_⟩
      by_cases hcast : (sc.inE && has o.ty T.parentheses && (s.content == .oneType)) = true
      · -- a cast
        have hck : sc.castOk = true := by
          simp only [Bool.and_eq_true] at hcast
          exact hcok hcast.1.1 hcast.1.2 hcast.2
        simp only [hcast, if_true, hck, Option.some.injEq] at hsh hshape
        obtain ⟨hptop, m, hpfs, hmop⟩ := hshape
        subst hsh; subst hst
        constructor
        · exact hlev.replaceCur hrep' hgood' hbase' rfl
        · exact htokall
        · rfl
        · show (sc.inE && has o.ty T.parentheses && (s.content == .oneType)) = true
          exact hcast
        · show PrevE _ _
          refine ⟨hptop, fun f hf => by rw [hpfs] at hf; simp at hf; subst hf; rfl, ?_⟩
          simp only [if_true]
          exact ⟨m, par.fs, hpfs, hmop⟩
        · show sc.savedQ = questCount par'.fs
          rw [hq', hpair.savedQ]
        · show ContentOk _ _
          unfold ContentOk
          simp only
          intro ⟨hp, _⟩
          have : par'.fs = par'.pre ++ baseFrames par'.base := rfl
          rw [hp, hpfs] at this
          cases hb : par'.base with
          | none => rw [hb] at this; simp [baseFrames] at this
          | some b =>
            rw [hb] at this; simp [baseFrames] at this
      · simp only [hcast, Bool.false_eq_true, if_false, Option.some.injEq] at hsh hshape
        obtain ⟨hptop, hpfs, hnotty⟩ := hshape
        have hcast' : (sc.inE && has o.ty T.parentheses && (s.content == .oneType)) = false := by simpa using hcast
        subst hsh; subst hst
        constructor
        · exact hlev.replaceCur hrep' hgood' hbase' rfl
        · exact htokall
        · rfl
        · show (sc.inE && has o.ty T.parentheses && (s.content == .oneType)) = false
          exact hcast'
        · show PrevO _ _
          have hhead : ∀ f, par'.fs.head? = some f → f.isPost = false := by
            rw [hpfs]; exact hpair.parTop.2
          refine ⟨rfl, Or.inl ⟨hptop, hhead⟩, Or.inl ⟨hptop, Or.inr ⟨o, rfl, h2⟩⟩⟩
        · show sc.savedQ = questCount par'.fs
          rw [hq', hpair.savedQ]
        · show ContentOk _ _
          unfold ContentOk
          simp only
          intro ⟨_, hh⟩
          rcases hh with hh | ⟨m, k, hh⟩
          · rw [hh] at hptop; simp at hptop
          · exact hnotty m k hh
    · simp [hcond] at hsh

end Occa.Expr
