/-
Consequences of the invariant used by the property theorems: free() destroys, drop removes a variable,
nothing is alive without handles.
-/
import OccaProofs.Lemmas.GcStep5

namespace Occa.Gc

/-- `free()` through an initialised handle destroys the object -/
theorem free_dead {s : St} (h : Inv s) {k : HKind} {i o : Nat} (hl : s.vlive (.user k i) = true)
    (hp : s.ptr (.user k i) = some o) :
    (step s (.free k i)).1.alive o = false ∧ (step s (.free k i)).1.next = s.next := by
  obtain ⟨ha, hk, hr⟩ := h.ptr_facts hp
  obtain ⟨h1, h2⟩ := h.inv.del_obj k ha hk (fun _ _ x => x.elim) (fun _ _ _ x => x.elim)
  have he : (step s (.free k i)).1 = (deleteObj k s o) ∨
      (step s (.free k i)).1 = (deleteObj k s o).setPtr (.user k i) none := by
    simp only [step, hl, Bool.not_true, Bool.false_eq_true, if_false]
    unfold freeHandle
    simp only [hp]
    cases k <;> simp [Var.kind]
  rcases he with e | e <;> rw [e]
  · exact ⟨h2.dead, h2.next⟩
  · exact ⟨h2.dead, h2.next⟩

/-- destroying a variable: it is gone, no other variable appears -/
theorem drop_vlive {s : St} (h : Inv s) (k : HKind) (i : Nat) (k' : HKind) (i' : Nat) :
    (step s (.drop k i)).1.vlive (.user k' i') = (s.vlive (.user k' i') && !decide ((k', i') = (k, i))) := by
  simp only [step]
  split
  · rename_i hv
    have hv' : s.vlive (.user k i) = false := by simpa using hv
    by_cases e : (k', i') = (k, i)
    · cases e; simp [hv']
    · simp [e]
  · obtain ⟨_, d1, d2, _⟩ := h.inv.destruct_ok (v := .user k i)
    by_cases e : (k', i') = (k, i)
    · cases e
      show (destruct s (.user k i)).vlive (.user k i) = _
      rw [d1]; simp
    · have hne : Var.user k' i' ≠ Var.user k i := by
        intro x; cases x; exact e rfl
      show (destruct s (.user k i)).vlive (.user k' i') = _
      rw [d2 _ hne (by intro d hd; cases hd)]
      simp [e]

/-- with no variable left and nothing pinned by `dontUseRefs`, no backend object is alive -/
theorem no_leak_core {s : St} (h : Inv s) (hv : ∀ k i, s.vlive (.user k i) = false)
    (hu : ∀ o, s.alive o = true → s.useRefs o = true) : ∀ o, s.alive o = false := by
  have nodev : ∀ d, s.alive d = true → s.kind d = .dev → False := by
    intro d hda hdk
    rcases h.inv.ring_ne d hda (by rw [hdk]; decide) (hu d hda) with hne | ⟨_, x, _⟩
    · obtain ⟨v, hvm⟩ := List.exists_mem_of_ne_nil _ hne
      have hp := h.inv.ring_ptr v d hvm
      have hk := (h.inv.ptr_ok v d hp (fun x => x)).2.1
      have hl := h.inv.ptr_live v d hp
      cases v with
      | user k i => rw [hv k i] at hl; cases hl
      | cur d' => rw [hdk] at hk; cases hk
      | tmp k => rw [h.tmp k] at hl; cases hl
    · exact x
  have nochild : ∀ c, s.alive c = true → s.kind c ≠ .dev → s.kind c ≠ .mem → False := by
    intro c hc h1 h2
    obtain ⟨d, _, e2, e3, _⟩ := h.inv.ch_par c hc h1 h2
    exact nodev d e2 e3
  intro o
  cases ho : s.alive o
  · rfl
  · exfalso
    cases hk : s.kind o
    · exact nodev o ho hk
    · exact nochild o ho (by rw [hk]; decide) (by rw [hk]; decide)
    · obtain ⟨b, _, hb2⟩ := h.inv.mem_par o ho hk
      obtain ⟨_, _, _, hba, hbk⟩ := h.inv.kids_ok b o hb2
      exact nochild b hba (by rcases hbk with x | x <;> rw [x] <;> decide)
        (by rcases hbk with x | x <;> rw [x] <;> decide)
    · exact nochild o ho (by rw [hk]; decide) (by rw [hk]; decide)
    · exact nochild o ho (by rw [hk]; decide) (by rw [hk]; decide)
    · exact nochild o ho (by rw [hk]; decide) (by rw [hk]; decide)

/-- the operations that destroy the listed variables -/
def dropAll (vs : List (HKind × Nat)) : List Op := vs.map fun v => Op.drop v.1 v.2

theorem runFrom_append (s : St) (a b : List Op) : runFrom s (a ++ b) = runFrom (runFrom s a) b := by
  simp [runFrom, List.foldl_append]

theorem dropAll_vlive {s : St} (h : Inv s) (vs : List (HKind × Nat)) (k : HKind) (i : Nat) :
    (runFrom s (dropAll vs)).vlive (.user k i) = (s.vlive (.user k i) && !decide ((k, i) ∈ vs)) := by
  induction vs generalizing s with
  | nil => simp [dropAll, runFrom]
  | cons v t ih =>
    have hstep : runFrom s (dropAll (v :: t)) = runFrom (step s (.drop v.1 v.2)).1 (dropAll t) := rfl
    rw [hstep, ih (step_inv h _), drop_vlive h]
    by_cases e1 : (k, i) = (v.1, v.2)
    · have : (k, i) = v := e1
      simp [this]
    · have : (k, i) ≠ v := e1
      by_cases e2 : (k, i) ∈ t <;> simp [e1, e2, this]

/-- what `useRefs` can be after operations: dropping variables never pins anything -/
theorem step_drop_useRefs_sub {s : St} (h : Inv s) (k : HKind) (i : Nat) :
    ∀ o, (step s (.drop k i)).1.alive o = true → s.alive o = true := by
  intro o ho
  simp only [step] at ho
  split at ho
  · exact ho
  · obtain ⟨_, _, _, _, _, d5, _⟩ := h.inv.destruct_ok (v := .user k i)
    exact d5 o ho

end Occa.Gc
