/-
The JSON dump of OccaModel/CacheKey.lean is injective on well-formed values: no two different
well-formed values have the same dump.  (This is what the hypothesis `enc` injective of C06/C07
stands for when `enc` is instantiated with the model of json::dumpToString.)

Well-formed: no uninitialised json inside a value, literal tokens (numbers, true/false) are
non-empty words over letters, digits, `+ - .` that do not start with `n`, object keys contain no
`"` (json::dumpToString does not escape keys).
-/
import OccaModel.CacheKey
import OccaProofs.Lemmas.CacheKey

namespace Occa.CacheKey

/-! ### characters -/

def tokChar (c : Char) : Bool := c.isAlphanum || c == '-' || c == '+' || c == '.'

/-- what may follow a complete value inside a dump -/
def Delim (r : List Char) : Prop := r = [] ∨ ∃ c r', r = c :: r' ∧ (c = ',' ∨ c = ']' ∨ c = '}')

theorem delim_not_tok {c : Char} {r : List Char} (h : Delim (c :: r)) : tokChar c = false := by
  rcases h with h | ⟨c', r', h, hc⟩
  · simp at h
  · have : c = c' := (List.cons.inj h).1
    subst this
    rcases hc with rfl | rfl | rfl <;> decide

/-- a word over `p` followed by nothing or by a non-`p` character is determined by the whole -/
theorem span_unique (p : Char → Bool) :
    ∀ (l₁ l₂ r₁ r₂ : List Char), (∀ c ∈ l₁, p c = true) → (∀ c ∈ l₂, p c = true) →
      (∀ c t, r₁ = c :: t → p c = false) → (∀ c t, r₂ = c :: t → p c = false) →
      l₁ ++ r₁ = l₂ ++ r₂ → l₁ = l₂ ∧ r₁ = r₂
  | [], [], r₁, r₂, _, _, _, _, h => ⟨rfl, by simpa using h⟩
  | [], c :: l₂, r₁, r₂, _, h2, h3, _, h => by
    simp only [List.nil_append, List.cons_append] at h
    have := h3 c _ h
    rw [h2 c (by simp)] at this
    simp at this
  | c :: l₁, [], r₁, r₂, h1, _, _, h4, h => by
    simp only [List.nil_append, List.cons_append] at h
    have := h4 c _ h.symm
    rw [h1 c (by simp)] at this
    simp at this
  | c :: l₁, d :: l₂, r₁, r₂, h1, h2, h3, h4, h => by
    simp only [List.cons_append] at h
    obtain ⟨hc, ht⟩ := List.cons.inj h
    obtain ⟨e1, e2⟩ := span_unique p l₁ l₂ r₁ r₂ (fun x hx => h1 x (List.mem_cons_of_mem _ hx))
      (fun x hx => h2 x (List.mem_cons_of_mem _ hx)) h3 h4 ht
    exact ⟨by rw [hc, e1], e2⟩

/-! ### string escaping -/

/-- the first character of an escaped character is never the closing quote, and the escaped
    form determines the character -/
theorem escCharL_spec (c : Char) :
    (escCharL c = [c] ∧ c ≠ '"' ∧ c ≠ '\\') ∨
    (∃ x, escCharL c = ['\\', x] ∧
      ((c = '"' ∧ x = '"') ∨ (c = '\\' ∧ x = '\\') ∨ (c = '\x08' ∧ x = 'b') ∨ (c = '\x0c' ∧ x = 'f') ∨
       (c = '\n' ∧ x = 'n') ∨ (c = '\r' ∧ x = 'r') ∨ (c = '\t' ∧ x = 't'))) := by
  unfold escCharL
  by_cases h1 : c = '"'
  · right; exact ⟨'"', by simp [h1], Or.inl ⟨h1, rfl⟩⟩
  by_cases h2 : c = '\\'
  · right; exact ⟨'\\', by simp [h2], Or.inr (Or.inl ⟨h2, rfl⟩)⟩
  by_cases h3 : c = '\x08'
  · right; exact ⟨'b', by simp [h3], Or.inr (Or.inr (Or.inl ⟨h3, rfl⟩))⟩
  by_cases h4 : c = '\x0c'
  · right; exact ⟨'f', by simp [h4], Or.inr (Or.inr (Or.inr (Or.inl ⟨h4, rfl⟩)))⟩
  by_cases h5 : c = '\n'
  · right; exact ⟨'n', by simp [h5], Or.inr (Or.inr (Or.inr (Or.inr (Or.inl ⟨h5, rfl⟩))))⟩
  by_cases h6 : c = '\r'
  · right; exact ⟨'r', by simp [h6], Or.inr (Or.inr (Or.inr (Or.inr (Or.inr (Or.inl ⟨h6, rfl⟩)))))⟩
  by_cases h7 : c = '\t'
  · right; exact ⟨'t', by simp [h7], Or.inr (Or.inr (Or.inr (Or.inr (Or.inr (Or.inr ⟨h7, rfl⟩)))))⟩
  left
  exact ⟨by simp [h1, h2, h3, h4, h5, h6, h7], h1, h2⟩

theorem escCharL_cancel (c d : Char) (u v : List Char) (h : escCharL c ++ u = escCharL d ++ v) :
    c = d ∧ u = v := by
  rcases escCharL_spec c with ⟨ec, c1, c2⟩ | ⟨x, ec, hx⟩ <;>
  rcases escCharL_spec d with ⟨ed, d1, d2⟩ | ⟨y, ed, hy⟩
  · rw [ec, ed] at h
    simp only [List.cons_append, List.nil_append] at h
    exact ⟨(List.cons.inj h).1, (List.cons.inj h).2⟩
  · rw [ec, ed] at h
    simp only [List.cons_append, List.nil_append] at h
    exact absurd (List.cons.inj h).1 c2
  · rw [ec, ed] at h
    simp only [List.cons_append, List.nil_append] at h
    exact absurd (List.cons.inj h).1.symm d2
  · rw [ec, ed] at h
    simp only [List.cons_append, List.nil_append] at h
    have hxy : x = y := (List.cons.inj (List.cons.inj h).2).1
    have huv : u = v := (List.cons.inj (List.cons.inj h).2).2
    refine ⟨?_, huv⟩
    subst hxy
    rcases hx with ⟨a, b⟩ | ⟨a, b⟩ | ⟨a, b⟩ | ⟨a, b⟩ | ⟨a, b⟩ | ⟨a, b⟩ | ⟨a, b⟩ <;>
    rcases hy with ⟨a', b'⟩ | ⟨a', b'⟩ | ⟨a', b'⟩ | ⟨a', b'⟩ | ⟨a', b'⟩ | ⟨a', b'⟩ | ⟨a', b'⟩ <;>
    first
    | (rw [b] at b'; exact absurd b' (by decide))
    | (rw [a, a'])

theorem escCharL_head_ne_quote (c : Char) (u : List Char) (r : List Char) :
    escCharL c ++ u ≠ '"' :: r := by
  intro h
  rcases escCharL_spec c with ⟨ec, c1, _⟩ | ⟨x, ec, _⟩
  · rw [ec] at h
    exact c1 (List.cons.inj h).1
  · rw [ec] at h
    exact absurd (List.cons.inj h).1 (by decide)

/-- an escaped string followed by the closing quote determines the string and the rest -/
theorem escL_cancel : ∀ (s t r₁ r₂ : List Char),
    escL s ++ '"' :: r₁ = escL t ++ '"' :: r₂ → s = t ∧ r₁ = r₂
  | [], [], r₁, r₂, h => by
    simp only [escL, List.flatMap_nil, List.nil_append] at h
    exact ⟨rfl, (List.cons.inj h).2⟩
  | [], d :: t, r₁, r₂, h => by
    simp only [escL, List.flatMap_nil, List.nil_append, List.flatMap_cons, List.append_assoc] at h
    exact absurd h.symm (escCharL_head_ne_quote d _ _)
  | c :: s, [], r₁, r₂, h => by
    simp only [escL, List.flatMap_nil, List.nil_append, List.flatMap_cons, List.append_assoc] at h
    exact absurd h (escCharL_head_ne_quote c _ _)
  | c :: s, d :: t, r₁, r₂, h => by
    simp only [escL, List.flatMap_cons, List.append_assoc] at h
    obtain ⟨e1, e2⟩ := escCharL_cancel c d _ _ h
    obtain ⟨e3, e4⟩ := escL_cancel s t r₁ r₂ e2
    exact ⟨by rw [e1, e3], e4⟩

/-! ### well-formed values -/

def litOk (t : String) : Prop :=
  t.toList ≠ [] ∧ (∀ c ∈ t.toList, tokChar c = true) ∧ ∀ r, t.toList ≠ 'n' :: r

def keyOk (k : String) : Prop := ∀ c ∈ k.toList, (c != '"') = true

instance (k : String) : Decidable (keyOk k) := by unfold keyOk; infer_instance

mutual
def J.WF : J → Prop
  | .none => False
  | .null => True
  | .lit t => litOk t
  | .str _ => True
  | .arr xs => WFs xs
  | .obj kvs => WFo kvs
def WFs : List J → Prop
  | [] => True
  | x :: t => x.WF ∧ WFs t
def WFo : List (String × J) → Prop
  | [] => True
  | (k, v) :: t => keyOk k ∧ v.WF ∧ WFo t
end

/-- the first character of the dump of a well-formed value: never a delimiter, `,`, `]` … -/
def StartOk (l : List Char) : Prop :=
  ∃ c r, l = c :: r ∧ (c = 'n' ∨ tokChar c = true ∨ c = '"' ∨ c = '[' ∨ c = '{')

theorem dumpL_start (a : J) (h : a.WF) : StartOk (dumpL a) := by
  cases a with
  | none => simp [J.WF] at h
  | null => exact ⟨'n', _, rfl, Or.inl rfl⟩
  | lit t =>
    simp only [J.WF] at h
    obtain ⟨h1, h2, _⟩ := h
    simp only [dumpL]
    cases ht : t.toList with
    | nil => exact absurd ht h1
    | cons c r => exact ⟨c, r, rfl, Or.inr (Or.inl (h2 c (by rw [ht]; simp)))⟩
  | str s => exact ⟨'"', _, rfl, Or.inr (Or.inr (Or.inl rfl))⟩
  | arr xs => exact ⟨'[', _, rfl, Or.inr (Or.inr (Or.inr (Or.inl rfl)))⟩
  | obj kvs => exact ⟨'{', _, rfl, Or.inr (Or.inr (Or.inr (Or.inr rfl)))⟩

/-! ### the first character identifies the kind of value -/

def tag : J → Nat
  | .none => 0
  | .null => 1
  | .lit _ => 2
  | .str _ => 3
  | .arr _ => 4
  | .obj _ => 5

def tagOfChar (c : Char) : Nat :=
  if c = 'n' then 1 else if c = '"' then 3 else if c = '[' then 4 else if c = '{' then 5 else 2

theorem dumpL_tag (a : J) (h : a.WF) : ∃ c r, dumpL a = c :: r ∧ tagOfChar c = tag a := by
  cases a with
  | none => simp [J.WF] at h
  | null => exact ⟨'n', _, rfl, rfl⟩
  | lit t =>
    simp only [J.WF] at h
    obtain ⟨h1, h2, h3⟩ := h
    simp only [dumpL]
    cases ht : t.toList with
    | nil => exact absurd ht h1
    | cons c r =>
      refine ⟨c, r, rfl, ?_⟩
      have htok : tokChar c = true := h2 c (by rw [ht]; simp)
      have hn : c ≠ 'n' := fun e => h3 r (by rw [ht, e])
      have hq : c ≠ '"' := fun e => by rw [e] at htok; exact absurd htok (by decide)
      have hb : c ≠ '[' := fun e => by rw [e] at htok; exact absurd htok (by decide)
      have hc : c ≠ '{' := fun e => by rw [e] at htok; exact absurd htok (by decide)
      unfold tagOfChar
      rw [if_neg hn, if_neg hq, if_neg hb, if_neg hc]
      rfl
  | str s => exact ⟨'"', _, rfl, rfl⟩
  | arr xs => exact ⟨'[', _, rfl, rfl⟩
  | obj kvs => exact ⟨'{', _, rfl, rfl⟩

theorem tag_eq_of_dumpL_append_eq {a b : J} (ha : a.WF) (hb : b.WF) {r₁ r₂ : List Char}
    (h : dumpL a ++ r₁ = dumpL b ++ r₂) : tag a = tag b := by
  obtain ⟨c, r, e1, t1⟩ := dumpL_tag a ha
  obtain ⟨d, r', e2, t2⟩ := dumpL_tag b hb
  rw [e1, e2] at h
  simp only [List.cons_append] at h
  rw [← t1, ← t2, (List.cons.inj h).1]

/-- the dump of a well-formed value never starts with a closing bracket -/
theorem dumpL_ne_close (a : J) (h : a.WF) (u r : List Char) :
    dumpL a ++ u ≠ ']' :: r ∧ dumpL a ++ u ≠ '}' :: r := by
  obtain ⟨c, r', e, hc⟩ := dumpL_start a h
  rw [e]
  simp only [List.cons_append]
  constructor <;> intro hh <;>
  · have := (List.cons.inj hh).1
    rcases hc with hc | hc | hc | hc | hc
    · rw [hc] at this; exact absurd this (by decide)
    · rw [this] at hc; exact absurd hc (by decide)
    · rw [hc] at this; exact absurd this (by decide)
    · rw [hc] at this; exact absurd this (by decide)
    · rw [hc] at this; exact absurd this (by decide)

theorem dumpArrL_nil : dumpArrL [] = [] := by rw [dumpArrL]

theorem dumpArrL_cons (x : J) (t : List J) :
    dumpArrL (x :: t) = dumpL x ++ ((if t.isEmpty then [] else [',', ' ']) ++ dumpArrL t) := by
  rw [dumpArrL]

theorem dumpObjL_nil : dumpObjL [] = [] := by rw [dumpObjL]

theorem dumpObjL_cons (k : String) (v : J) (t : List (String × J)) (h : v.WF) :
    dumpObjL ((k, v) :: t) =
      '"' :: (k.toList ++ ('"' :: ':' :: ' ' ::
        (dumpL v ++ ((if t.isEmpty then [] else [',', ' ']) ++ dumpObjL t)))) := by
  cases v with
  | none => simp [J.WF] at h
  | null => rw [dumpObjL]; intro e; cases e
  | lit _ => rw [dumpObjL]; intro e; cases e
  | str _ => rw [dumpObjL]; intro e; cases e
  | arr _ => rw [dumpObjL]; intro e; cases e
  | obj _ => rw [dumpObjL]; intro e; cases e

theorem dumpL_str (s : String) : dumpL (.str s) = '"' :: (escL s.toList ++ ['"']) := by rw [dumpL]
theorem dumpL_arr (xs : List J) : dumpL (.arr xs) = '[' :: (dumpArrL xs ++ [']']) := by rw [dumpL]
theorem dumpL_obj (kvs : List (String × J)) : dumpL (.obj kvs) = '{' :: (dumpObjL kvs ++ ['}']) := by rw [dumpL]
theorem dumpL_lit (t : String) : dumpL (.lit t) = t.toList := by rw [dumpL]
theorem dumpL_null : dumpL .null = ['n', 'u', 'l', 'l'] := by rw [dumpL]
theorem dumpL_none : dumpL .none = [] := by rw [dumpL]

theorem delim_close (r : List Char) : Delim (']' :: r) ∧ Delim ('}' :: r) ∧ ∀ u, Delim (',' :: u) :=
  ⟨Or.inr ⟨_, _, rfl, Or.inr (Or.inl rfl)⟩, Or.inr ⟨_, _, rfl, Or.inr (Or.inr rfl)⟩,
   fun _ => Or.inr ⟨_, _, rfl, Or.inl rfl⟩⟩

def PJ (a : J) : Prop :=
  ∀ (b : J) (r₁ r₂ : List Char), a.WF → b.WF → dumpL a ++ r₁ = dumpL b ++ r₂ →
    Delim r₁ → Delim r₂ → a = b ∧ r₁ = r₂

def PA (xs : List J) : Prop :=
  ∀ (ys : List J) (r₁ r₂ : List Char), WFs xs → WFs ys →
    dumpArrL xs ++ ']' :: r₁ = dumpArrL ys ++ ']' :: r₂ → xs = ys ∧ r₁ = r₂

def PO (kvs : List (String × J)) : Prop :=
  ∀ (lws : List (String × J)) (r₁ r₂ : List Char), WFo kvs → WFo lws →
    dumpObjL kvs ++ '}' :: r₁ = dumpObjL lws ++ '}' :: r₂ → kvs = lws ∧ r₁ = r₂

mutual
/-- a dump followed by a delimiter (or nothing) determines the value and the rest -/
theorem dumpL_cancel : ∀ (a : J), PJ a
  | .none => by
    intro b r₁ r₂ ha
    simp [J.WF] at ha
  | .null => by
    intro b r₁ r₂ ha hb h _ _
    have ht := tag_eq_of_dumpL_append_eq ha hb h
    cases b with
    | null => exact ⟨rfl, List.append_cancel_left h⟩
    | none => simp [tag] at ht
    | lit _ => simp [tag] at ht
    | str _ => simp [tag] at ht
    | arr _ => simp [tag] at ht
    | obj _ => simp [tag] at ht
  | .lit t => by
    intro b r₁ r₂ ha hb h d1 d2
    have ht := tag_eq_of_dumpL_append_eq ha hb h
    cases b with
    | lit t' =>
      simp only [J.WF] at ha hb
      rw [dumpL_lit, dumpL_lit] at h
      obtain ⟨e1, e2⟩ := span_unique tokChar t.toList t'.toList r₁ r₂ ha.2.1 hb.2.1
        (fun c u e => delim_not_tok (e ▸ d1)) (fun c u e => delim_not_tok (e ▸ d2)) h
      exact ⟨by rw [String.toList_inj.mp e1], e2⟩
    | none => simp [tag] at ht
    | null => simp [tag] at ht
    | str _ => simp [tag] at ht
    | arr _ => simp [tag] at ht
    | obj _ => simp [tag] at ht
  | .str s => by
    intro b r₁ r₂ ha hb h _ _
    have ht := tag_eq_of_dumpL_append_eq ha hb h
    cases b with
    | str s' =>
      rw [dumpL_str, dumpL_str] at h
      simp only [List.cons_append, List.append_assoc, List.nil_append] at h
      obtain ⟨e1, e2⟩ := escL_cancel _ _ _ _ (List.cons.inj h).2
      exact ⟨by rw [String.toList_inj.mp e1], e2⟩
    | none => simp [tag] at ht
    | null => simp [tag] at ht
    | lit _ => simp [tag] at ht
    | arr _ => simp [tag] at ht
    | obj _ => simp [tag] at ht
  | .arr xs => by
    intro b r₁ r₂ ha hb h _ _
    have ht := tag_eq_of_dumpL_append_eq ha hb h
    cases b with
    | arr ys =>
      rw [dumpL_arr, dumpL_arr] at h
      simp only [List.cons_append, List.append_assoc, List.nil_append] at h
      simp only [J.WF] at ha hb
      obtain ⟨e1, e2⟩ := dumpArrL_cancel xs ys r₁ r₂ ha hb (List.cons.inj h).2
      exact ⟨by rw [e1], e2⟩
    | none => simp [tag] at ht
    | null => simp [tag] at ht
    | lit _ => simp [tag] at ht
    | str _ => simp [tag] at ht
    | obj _ => simp [tag] at ht
  | .obj kvs => by
    intro b r₁ r₂ ha hb h _ _
    have ht := tag_eq_of_dumpL_append_eq ha hb h
    cases b with
    | obj lws =>
      rw [dumpL_obj, dumpL_obj] at h
      simp only [List.cons_append, List.append_assoc, List.nil_append] at h
      simp only [J.WF] at ha hb
      obtain ⟨e1, e2⟩ := dumpObjL_cancel kvs lws r₁ r₂ ha hb (List.cons.inj h).2
      exact ⟨by rw [e1], e2⟩
    | none => simp [tag] at ht
    | null => simp [tag] at ht
    | lit _ => simp [tag] at ht
    | str _ => simp [tag] at ht
    | arr _ => simp [tag] at ht

theorem dumpArrL_cancel : ∀ (xs : List J), PA xs
  | [] => by
    intro ys r₁ r₂ _ hys h
    cases ys with
    | nil =>
      rw [dumpArrL_nil] at h
      simp only [List.nil_append] at h
      exact ⟨rfl, (List.cons.inj h).2⟩
    | cons y u =>
      rw [dumpArrL_nil, dumpArrL_cons] at h
      simp only [List.nil_append, List.append_assoc] at h
      simp only [WFs] at hys
      exact absurd h.symm (dumpL_ne_close y hys.1 _ _).1
  | x :: t => by
    intro ys r₁ r₂ hxs hys h
    simp only [WFs] at hxs
    cases ys with
    | nil =>
      rw [dumpArrL_nil, dumpArrL_cons] at h
      simp only [List.nil_append, List.append_assoc] at h
      exact absurd h (dumpL_ne_close x hxs.1 _ _).1
    | cons y u =>
      simp only [WFs] at hys
      rw [dumpArrL_cons, dumpArrL_cons] at h
      simp only [List.append_assoc] at h
      have d1 : Delim ((if t.isEmpty then [] else [',', ' ']) ++ (dumpArrL t ++ ']' :: r₁)) := by
        cases t with
        | nil => simp only [List.isEmpty_nil, if_true, dumpArrL_nil, List.nil_append]; exact (delim_close r₁).1
        | cons _ _ => simp only [List.isEmpty_cons, Bool.false_eq_true, if_false, List.cons_append]; exact (delim_close []).2.2 _
      have d2 : Delim ((if u.isEmpty then [] else [',', ' ']) ++ (dumpArrL u ++ ']' :: r₂)) := by
        cases u with
        | nil => simp only [List.isEmpty_nil, if_true, dumpArrL_nil, List.nil_append]; exact (delim_close r₂).1
        | cons _ _ => simp only [List.isEmpty_cons, Bool.false_eq_true, if_false, List.cons_append]; exact (delim_close []).2.2 _
      obtain ⟨e1, e2⟩ := dumpL_cancel x y _ _ hxs.1 hys.1 h d1 d2
      cases t with
      | nil =>
        cases u with
        | nil =>
          simp only [List.isEmpty_nil, if_true, dumpArrL_nil, List.nil_append] at e2
          exact ⟨by rw [e1], (List.cons.inj e2).2⟩
        | cons u0 u' =>
          simp only [List.isEmpty_nil, List.isEmpty_cons, Bool.false_eq_true, if_true, if_false,
            dumpArrL_nil, List.nil_append, List.cons_append] at e2
          exact absurd (List.cons.inj e2).1 (by decide)
      | cons t0 t' =>
        cases u with
        | nil =>
          simp only [List.isEmpty_nil, List.isEmpty_cons, Bool.false_eq_true, if_true, if_false,
            dumpArrL_nil, List.nil_append, List.cons_append] at e2
          exact absurd (List.cons.inj e2).1 (by decide)
        | cons u0 u' =>
          simp only [List.isEmpty_cons, Bool.false_eq_true, if_false, List.cons_append, List.nil_append] at e2
          have e3 := (List.cons.inj (List.cons.inj e2).2).2
          obtain ⟨e4, e5⟩ := dumpArrL_cancel (t0 :: t') (u0 :: u') r₁ r₂ hxs.2 hys.2 e3
          exact ⟨by rw [e1, e4], e5⟩

theorem dumpObjL_cancel : ∀ (kvs : List (String × J)), PO kvs
  | [] => by
    intro lws r₁ r₂ _ hl h
    cases lws with
    | nil =>
      rw [dumpObjL_nil] at h
      simp only [List.nil_append] at h
      exact ⟨rfl, (List.cons.inj h).2⟩
    | cons kv u =>
      obtain ⟨k', v'⟩ := kv
      simp only [WFo] at hl
      rw [dumpObjL_nil, dumpObjL_cons k' v' u hl.2.1] at h
      simp only [List.nil_append, List.cons_append] at h
      exact absurd (List.cons.inj h).1 (by decide)
  | (k, v) :: t => by
    intro lws r₁ r₂ hk hl h
    simp only [WFo] at hk
    cases lws with
    | nil =>
      rw [dumpObjL_nil, dumpObjL_cons k v t hk.2.1] at h
      simp only [List.nil_append, List.cons_append] at h
      exact absurd (List.cons.inj h).1 (by decide)
    | cons kv u =>
      obtain ⟨k', v'⟩ := kv
      simp only [WFo] at hl
      rw [dumpObjL_cons k v t hk.2.1, dumpObjL_cons k' v' u hl.2.1] at h
      simp only [List.cons_append, List.append_assoc] at h
      have hq : ∀ (c : Char) (w : List Char) (rest : List Char), '"' :: rest = c :: w → (c != '"') = false := by
        intro c w rest e
        rw [← (List.cons.inj e).1]
        decide
      obtain ⟨ek, e1⟩ := span_unique (fun c => c != '"') k.toList k'.toList _ _ hk.1 hl.1
        (fun c w e => hq c w _ e) (fun c w e => hq c w _ e) (List.cons.inj h).2
      have e2 := (List.cons.inj (List.cons.inj (List.cons.inj e1).2).2).2
      have d1 : Delim ((if t.isEmpty then [] else [',', ' ']) ++ (dumpObjL t ++ '}' :: r₁)) := by
        cases t with
        | nil => simp only [List.isEmpty_nil, if_true, dumpObjL_nil, List.nil_append]; exact (delim_close r₁).2.1
        | cons _ _ => simp only [List.isEmpty_cons, Bool.false_eq_true, if_false, List.cons_append]; exact (delim_close []).2.2 _
      have d2 : Delim ((if u.isEmpty then [] else [',', ' ']) ++ (dumpObjL u ++ '}' :: r₂)) := by
        cases u with
        | nil => simp only [List.isEmpty_nil, if_true, dumpObjL_nil, List.nil_append]; exact (delim_close r₂).2.1
        | cons _ _ => simp only [List.isEmpty_cons, Bool.false_eq_true, if_false, List.cons_append]; exact (delim_close []).2.2 _
      obtain ⟨ev, e3⟩ := dumpL_cancel v v' _ _ hk.2.1 hl.2.1 e2 d1 d2
      have ekk : k = k' := String.toList_inj.mp ek
      cases t with
      | nil =>
        cases u with
        | nil =>
          simp only [List.isEmpty_nil, if_true, dumpObjL_nil, List.nil_append] at e3
          exact ⟨by rw [ekk, ev], (List.cons.inj e3).2⟩
        | cons u0 u' =>
          obtain ⟨uk, uv⟩ := u0
          simp only [List.isEmpty_nil, List.isEmpty_cons, Bool.false_eq_true, if_true, if_false,
            dumpObjL_nil, List.nil_append, List.cons_append] at e3
          exact absurd (List.cons.inj e3).1 (by decide)
      | cons t0 t' =>
        cases u with
        | nil =>
          obtain ⟨tk, tv⟩ := t0
          simp only [List.isEmpty_nil, List.isEmpty_cons, Bool.false_eq_true, if_true, if_false,
            dumpObjL_nil, List.nil_append, List.cons_append] at e3
          exact absurd (List.cons.inj e3).1 (by decide)
        | cons u0 u' =>
          simp only [List.isEmpty_cons, Bool.false_eq_true, if_false, List.cons_append, List.nil_append] at e3
          have e4 := (List.cons.inj (List.cons.inj e3).2).2
          obtain ⟨e5, e6⟩ := dumpObjL_cancel (t0 :: t') (u0 :: u') r₁ r₂ hk.2.2 hl.2.2 e4
          exact ⟨by rw [ekk, ev, e5], e6⟩
end

/-- top-level values: well-formed, or the uninitialised json (whose dump is empty) -/
def J.WFtop (a : J) : Prop := a = J.none ∨ a.WF

/-- json::dumpToString (the model) is injective on well-formed values -/
theorem dumpL_injective (a b : J) (ha : a.WFtop) (hb : b.WFtop) (h : dumpL a = dumpL b) : a = b := by
  rcases ha with ha | ha <;> rcases hb with hb | hb
  · rw [ha, hb]
  · obtain ⟨c, r, e, _⟩ := dumpL_start b hb
    rw [ha, e, dumpL_none] at h
    simp at h
  · obtain ⟨c, r, e, _⟩ := dumpL_start a ha
    rw [hb, e, dumpL_none] at h
    simp at h
  · have := dumpL_cancel a b [] [] ha hb (by simpa using h) (Or.inl rfl) (Or.inl rfl)
    exact this.1

theorem dump_injective (a b : J) (ha : a.WFtop) (hb : b.WFtop) (h : dump a = dump b) : a = b :=
  dumpL_injective a b ha hb (String.ofList_injective h)

/-! ### the objects hashed by the key construction are well-formed -/

theorem wfo_insertKV (k : String) (v : J) (hk : keyOk k) (hv : v.WF) :
    ∀ (l : List (String × J)), WFo l → WFo (insertKV k v l)
  | [], _ => by
    simp only [insertKV, WFo]
    exact ⟨hk, hv, trivial⟩
  | (k', v') :: t, hl => by
    simp only [WFo] at hl
    unfold insertKV
    by_cases h1 : k < k'
    · rw [if_pos h1]
      simp only [WFo]
      exact ⟨hk, hv, hl.1, hl.2.1, hl.2.2⟩
    · rw [if_neg h1]
      by_cases h2 : k = k'
      · rw [if_pos h2]
        simp only [WFo]
        exact ⟨hk, hv, hl.2.2⟩
      · rw [if_neg h2]
        simp only [WFo]
        exact ⟨hl.1, hl.2.1, wfo_insertKV k v hk hv t hl.2.2⟩

theorem wfo_mkMap : ∀ (l : List (String × J)), (∀ kv ∈ l, keyOk kv.1 ∧ kv.2.WF) → WFo (mkMap l)
  | [], _ => by simp [mkMap, WFo]
  | (k, v) :: t, h => by
    show WFo (insertKV k v (mkMap t))
    exact wfo_insertKV k v (h (k, v) (by simp)).1 (h (k, v) (by simp)).2 _
      (wfo_mkMap t (fun kv m => h kv (List.mem_cons_of_mem _ m)))

theorem wftop_mkObj (l : List (String × J)) (h : ∀ kv ∈ l, keyOk kv.1 ∧ kv.2.WF) : (mkObj l).WFtop := by
  unfold mkObj
  cases l with
  | nil => exact Or.inl rfl
  | cons a t =>
    right
    simp only [List.isEmpty_cons, Bool.false_eq_true, if_false, J.WF]
    exact wfo_mkMap _ h

theorem wftop_objOf (names : List String) (g : String → Option J) (hk : ∀ n ∈ names, keyOk n)
    (hv : ∀ n v, g n = some v → v.WF) : (objOf names g).WFtop := by
  unfold objOf
  apply wftop_mkObj
  intro kv hm
  obtain ⟨n, hn, hf⟩ := List.mem_filterMap.mp hm
  cases hg : g n with
  | none => simp [hg] at hf
  | some v =>
    simp only [hg, Option.map_some, Option.some.injEq] at hf
    rw [← hf]
    exact ⟨hk n hn, hv n v hg⟩

/-- every property value of the configuration is a well-formed JSON value -/
def Config.WF (c : Config) : Prop := ∀ n v, c.get n = some v → v.WF

variable {κ σ : Type}

/-- with well-formed property values and well-formed renderings, everything the key
    construction feeds to the encoder is well-formed -/
theorem ok_of_wf (e : Env κ σ) (sh : Shape) (hfw : ∀ k, (e.full k).WF) (c : Config) (hc : c.WF) :
    Config.Ok e J.WFtop c := by
  have hfield : ∀ n v, fieldVal true c.get n = some v → v.WF := by
    intro n v h
    rw [fieldVal_true] at h
    exact hc n v h
  refine ⟨?_, ?_, ?_⟩
  · unfold partList
    apply wftop_mkObj
    intro kv hm
    obtain ⟨lp, hlp, hf⟩ := List.mem_filterMap.mp hm
    have hkey : keyOk lp.1 := by
      have : ∀ lp ∈ Gen.setupParts, keyOk lp.1 := by decide
      exact this lp hlp
    cases hp : partVal e c lp.2 with
    | none => simp [hp] at hf
    | some v =>
      simp only [hp, Option.map_some, Option.some.injEq] at hf
      rw [← hf]
      refine ⟨hkey, ?_⟩
      obtain ⟨l, q, g⟩ := lp
      cases q with
      | deviceHash => simp only [partVal, render_full e sh, Option.some.injEq] at hp; rw [← hp]; exact hfw _
      | modeHash => simp only [partVal, render_full e sh, Option.some.injEq] at hp; rw [← hp]; exact hfw _
      | headerHash => simp only [partVal, render_full e sh, Option.some.injEq] at hp; rw [← hp]; exact hfw _
      | sourceHash => simp only [partVal, render_full e sh, Option.some.injEq] at hp; rw [← hp]; exact hfw _
      | prop n =>
        have hg := guarded_of_mem sh hlp
        subst hg
        simp only [partVal] at hp
        exact hfield n v hp
  · rw [sh.serialSkip]
    exact wftop_objOf _ _ (by decide) hfield
  · rw [sh.headerSkip]
    exact wftop_objOf _ _ (by decide) hfield

end Occa.CacheKey
