/-
Every operation keeps the invariant: swap, stream get/set, getDevice, and the creating calls that
return a handle of a non-device class.
-/
import OccaProofs.Lemmas.GcStep1

namespace Occa.Gc

/-- `v = <returned temporary>;` and the destruction of the temporary -/
theorem InvX.assign_temp {s : St} {v : Var} {k : HKind} (hi : InvX E s) (hl : s.vlive v = true)
    (hvc : ∀ d, v = Var.cur d → s.alive d = true ∧ s.kind d = .dev) (hvk : v.kind = k) :
    InvX E (assignTemp s v k) ∧ (assignTemp s v k).vlive (.tmp k) = false
      ∧ (∀ w, w ≠ Var.tmp k → (∀ d, w = Var.cur d → (assignTemp s v k).alive d = true) →
            (assignTemp s v k).vlive w = s.vlive w)
      ∧ (assignTemp s v k).kind = s.kind ∧ (assignTemp s v k).next = s.next
      ∧ (∀ t, (assignTemp s v k).alive t = true → s.alive t = true) := by
  unfold assignTemp
  obtain ⟨h1, o1, _⟩ := hi.set_mode (v := v) (tgt := s.ptr (.tmp k)) hl hvc
    (by
      intro o ho
      obtain ⟨a, b, _⟩ := hi.ptr_ok _ o ho (fun x => x)
      exact ⟨a, by rw [b, hvk]; rfl⟩)
  obtain ⟨h2, d1, d2, d3, d4, d5, _⟩ := h1.destruct_ok (v := .tmp k)
  refine ⟨h2, d1, ?_, by rw [d3, o1.kind], by rw [d4, o1.next], fun t ht => o1.alive_sub t (d5 t ht)⟩
  intro w hw hc
  rw [d2 w hw hc]
  exact o1.vlive w (fun d hd => d5 d (hc d hd))

/-- the end of a creating call: the temporary is assigned to the user's variable and destroyed -/
theorem create_finish {s sL : St} {hk : HKind} {o i : Nat} (h : Inv s)
    (hT : InvX E (tempOf sL hk o)) (tO : TempOut sL (tempOf sL hk o) hk o)
    (hvl : sL.vlive = s.vlive)
    (halive : ∀ x, sL.alive x = true → (s.alive x = true ∨ sL.kind x ≠ .dev))
    (hkind : ∀ x, s.alive x = true → sL.kind x = s.kind x)
    (hv : s.vlive (.user hk i) = true) :
    Inv (assignTemp (tempOf sL hk o) (.user hk i) hk) := by
  have hvT : (tempOf sL hk o).vlive (.user hk i) = true := by
    rw [tO.vlive _ (by simp), hvl]; exact hv
  obtain ⟨h1, h2, h3, h4, _, h6⟩ := hT.assign_temp (k := hk) hvT (by intro d hd; cases hd) rfl
  refine ⟨h1, ?_, ?_⟩
  · intro k'
    by_cases hk' : k' = hk
    · rw [hk']; exact h2
    · have hne : Var.tmp k' ≠ Var.tmp hk := by intro e; cases e; exact hk' rfl
      rw [h3 _ hne (by intro d hd; cases hd), tO.vlive _ hne, hvl]
      exact h.tmp k'
  · intro d hda hdk
    have hdaT := h6 d hda
    rw [tO.alive] at hdaT
    rw [h4, tO.kind] at hdk
    have hds : s.alive d = true := by
      rcases halive d hdaT with x | x
      · exact x
      · exact absurd hdk x
    rw [h3 _ (by simp) (by intro d' hd'; cases hd'; exact hda), tO.vlive _ (by simp), hvl]
    exact h.cur d hds (by rw [← hkind d hds]; exact hdk)

theorem step_swap {s : St} (h : Inv s) (k : HKind) (a b : Nat) : Inv (step s (.swap k a b)).1 := by
  simp only [step]
  split
  · exact h
  · rename_i hg
    have hg' : s.vlive (.user k a) = true ∧ s.vlive (.user k b) = true := by
      simp only [Bool.or_eq_true, Bool.not_eq_true', not_or, Bool.not_eq_false] at hg
      exact ⟨hg.1.2, hg.2⟩
    show Inv (swapHandles s (.user k a) (.user k b))
    unfold swapHandles
    have hvk : (Var.user k a).kind = k := rfl
    simp only [hvk]
    obtain ⟨c1, c2⟩ := h.inv.construct_ok (h.tmp k) (by intro d hd; cases hd)
    rw [c2] at c1 ⊢
    -- tmp = *this
    obtain ⟨h1, o1, p1⟩ := c1.set_mode (v := .tmp k) (tgt := s.ptr (.user k a)) (by simp [St.setVLive])
      (by intro d hd; cases hd)
      (by intro o ho; obtain ⟨x, y, _⟩ := h.ptr_facts ho; exact ⟨x, y⟩)
    generalize setMode (s.setVLive (.tmp k) true) (.tmp k) (s.ptr (.user k a)) = s1 at *
    have v1 : ∀ w, (∀ d, w ≠ Var.cur d) → s1.vlive w = (s.setVLive (.tmp k) true).vlive w :=
      fun w hw => o1.vlive w (fun d hd => absurd hd (hw d))
    -- *this = m
    obtain ⟨h2, o2, p2⟩ := h1.set_mode (v := .user k a) (tgt := s1.ptr (.user k b))
      (by rw [v1 _ (by simp)]; simp [St.setVLive, upd_apply]; exact hg'.1)
      (by intro d hd; cases hd)
      (by intro o ho; obtain ⟨x, y, _⟩ := h1.ptr_ok _ o ho (fun x => x); exact ⟨x, y⟩)
    generalize setMode s1 (.user k a) (s1.ptr (.user k b)) = s2 at *
    have v2 : ∀ w, (∀ d, w ≠ Var.cur d) → s2.vlive w = s1.vlive w :=
      fun w hw => o2.vlive w (fun d hd => absurd hd (hw d))
    -- m = tmp
    obtain ⟨h3, o3, p3⟩ := h2.set_mode (v := .user k b) (tgt := s2.ptr (.tmp k))
      (by rw [v2 _ (by simp), v1 _ (by simp)]; simp [St.setVLive, upd_apply]; exact hg'.2)
      (by intro d hd; cases hd)
      (by intro o ho; obtain ⟨x, y, _⟩ := h2.ptr_ok _ o ho (fun x => x); exact ⟨x, y⟩)
    generalize setMode s2 (.user k b) (s2.ptr (.tmp k)) = s3 at *
    -- ~tmp
    obtain ⟨h4, d1, d2, d3, _, d5, _⟩ := h3.destruct_ok (v := .tmp k)
    have asub : ∀ t, (destruct s3 (.tmp k)).alive t = true → s.alive t = true :=
      fun t ht => o1.alive_sub t (o2.alive_sub t (o3.alive_sub t (d5 t ht)))
    refine ⟨h4, ?_, ?_⟩
    · intro k'
      by_cases hk' : k' = k
      · rw [hk']; exact d1
      · have hne : Var.tmp k' ≠ Var.tmp k := by intro e; cases e; exact hk' rfl
        rw [d2 _ hne (by intro d hd; cases hd), o3.vlive _ (by intro d hd; cases hd),
          v2 _ (by simp), v1 _ (by simp)]
        show upd s.vlive (.tmp k) true (.tmp k') = false
        rw [upd_other _ _ hne]; exact h.tmp k'
    · intro d hda hdk
      have c3 : s3.alive d = true := d5 d hda
      have c2 : s2.alive d = true := o3.alive_sub d c3
      have c1' : s1.alive d = true := o2.alive_sub d c2
      rw [d2 _ (by simp) (by intro d' hd'; cases hd'; exact hda),
        o3.vlive _ (by intro d' hd'; cases hd'; exact c3),
        o2.vlive _ (by intro d' hd'; cases hd'; exact c2),
        o1.vlive _ (by intro d' hd'; cases hd'; exact c1')]
      show upd s.vlive (.tmp k) true (.cur d) = true
      rw [upd_other _ _ (by simp)]
      apply h.cur d (asub d hda)
      rw [d3, o3.kind, o2.kind, o1.kind] at hdk
      exact hdk

theorem step_getstr {s : St} (h : Inv s) (st d : Nat) : Inv (step s (.getstr st d)).1 := by
  simp only [step]
  split
  · exact h
  · rename_i hg
    have hg' : s.vlive (.user .str st) = true ∧ s.vlive (.user .dev d) = true := by simpa using hg
    split
    · exact h
    · rename_i dv hdv
      have ha := (h.ptr_facts hdv).1
      simp only [St.touch_alive ha]
      obtain ⟨h1, h2, _⟩ := h.inv.set_mode (v := .user .str st) (tgt := s.ptr (.cur dv)) hg'.1
        (by intro d' hd'; cases hd')
        (by intro o ho; obtain ⟨x, y, _⟩ := h.ptr_facts ho; exact ⟨x, y⟩)
      exact h.of_frame h1 .str st (fun w _ hw => h2.vlive w hw) h2.kind h2.alive_sub

theorem step_setstr {s : St} (h : Inv s) (d st : Nat) : Inv (step s (.setstr d st)).1 := by
  simp only [step]
  split
  · exact h
  · rename_i hg
    have hg' : s.vlive (.user .dev d) = true ∧ s.vlive (.user .str st) = true := by simpa using hg
    split
    · exact h
    · rename_i dv hdv
      obtain ⟨ha, hk, _⟩ := h.ptr_facts hdv
      simp only [St.touch_alive ha]
      obtain ⟨h1, h2, _⟩ := h.inv.set_mode (v := .cur dv) (tgt := s.ptr (.user .str st)) (h.cur dv ha hk)
        (by intro d' hd'; cases hd'; exact ⟨ha, hk⟩)
        (by intro o ho; obtain ⟨x, y, _⟩ := h.ptr_facts ho; exact ⟨x, y⟩)
      exact h.of_frame h1 .dev d (fun w _ hw => h2.vlive w hw) h2.kind h2.alive_sub

/-- the device a live non-device object belongs to is alive -/
theorem Inv.deviceOf_ok {s : St} (h : Inv s) {o dd : Nat} (ha : s.alive o = true) (hd : deviceOf s o = some dd) :
    s.alive dd = true ∧ s.kind dd = .dev := by
  unfold deviceOf at hd
  have chp : ∀ c, s.alive c = true → s.kind c ≠ .dev → s.kind c ≠ .mem → ∀ x, s.par c = some x →
      s.alive x = true ∧ s.kind x = .dev := by
    intro c hc h1 h2 x hx
    obtain ⟨d, e1, e2, e3, _⟩ := h.inv.ch_par c hc h1 h2
    rw [hx] at e1; cases e1
    exact ⟨e2, e3⟩
  cases hk : s.kind o <;> simp only [hk] at hd
  · cases hd; exact ⟨ha, hk⟩
  · exact chp o ha (by rw [hk]; decide) (by rw [hk]; decide) dd hd
  · obtain ⟨b, hb1, hb2⟩ := h.inv.mem_par o ha hk
    simp only [hb1] at hd
    obtain ⟨_, _, _, hba, hbk⟩ := h.inv.kids_ok b o hb2
    exact chp b hba (by rcases hbk with x | x <;> rw [x] <;> decide) (by rcases hbk with x | x <;> rw [x] <;> decide) dd hd
  · exact chp o ha (by rw [hk]; decide) (by rw [hk]; decide) dd hd
  · exact chp o ha (by rw [hk]; decide) (by rw [hk]; decide) dd hd
  · exact chp o ha (by rw [hk]; decide) (by rw [hk]; decide) dd hd

theorem step_getdev {s : St} (h : Inv s) (d : Nat) (k : HKind) (i : Nat) : Inv (step s (.getdev d k i)).1 := by
  simp only [step]
  split
  · exact h
  · rename_i hg
    have hg' : s.vlive (.user .dev d) = true := by
      simp only [Bool.or_eq_true, decide_eq_true_eq, Bool.not_eq_true', not_or, Bool.not_eq_false] at hg
      exact hg.1.2
    split
    · obtain ⟨h1, h2, _⟩ := h.inv.set_mode (v := .user .dev d) (tgt := none) hg'
        (by intro d' hd'; cases hd') (by intro o ho; cases ho)
      exact h.of_frame h1 .dev d (fun w _ hw => h2.vlive w hw) h2.kind h2.alive_sub
    · rename_i o ho
      have ha := (h.ptr_facts ho).1
      simp only [St.touch_alive ha]
      obtain ⟨h1, h2, _⟩ := h.inv.set_mode (v := .user .dev d) (tgt := deviceOf s o) hg'
        (by intro d' hd'; cases hd')
        (by intro dd hdd; exact h.deviceOf_ok ha hdd)
      exact h.of_frame h1 .dev d (fun w _ hw => h2.vlive w hw) h2.kind h2.alive_sub

end Occa.Gc
