import OccaProofs.Lemmas.PrimRange
namespace Occa.Prim.Lemmas
open Occa Occa.CExpr Occa.CxxSem Occa.Gen Occa.Prim

/-- an arithmetic right shift stays between the shifted value and zero -/
theorem ediv_between (x d : Int) (hd : 0 < d) : (0 ≤ x → 0 ≤ x / d ∧ x / d ≤ x) ∧ (x < 0 → x ≤ x / d ∧ x / d < 0) := by
  constructor
  · intro hx; exact ⟨Int.ediv_nonneg hx (by omega), Int.ediv_le_self d hx⟩
  · intro hx
    refine ⟨?_, Int.ediv_neg_of_neg_of_pos hx hd⟩
    rw [Int.le_ediv_iff_mul_le hd]
    have := Int.mul_le_mul_of_nonpos_left (a := x) (b := d) (c := 1) (by omega) (by omega)
    omega

theorem common_arith {a b : Ty} (ha : Reach a) (hb : Reach b) : Arith (common a b) := by
  rcases ha with rfl | rfl | rfl | rfl | rfl <;> rcases hb with rfl | rfl | rfl | rfl | rfl <;> simp [Arith] <;> decide

theorem promote_arith {t : Ty} (ht : Reach t) : Arith t.promote := by
  rcases ht with rfl | rfl | rfl | rfl | rfl <;> simp [Arith, Ty.promote]

theorem cvt_inRange {t : Ty} (ht : Arith t) {a : Val} (ha : Good a) : inRange t (cvt t a).v = true := by
  rw [cvt_int a ha.1.notFloat ht.reach.notFloat]; exact wrapTo_inRange ht.reach _

theorem shift_good {l : Bool} {t : Ty} (ht : Arith t) {x c : Int} (hx : inRange t x = true) {r : Val}
    (h : shift l t x c = .val r) : Good r := by
  unfold shift at h
  split at h; · cases h
  split at h
  · by_cases hs : t.signed = true
    · simp only [hs, if_true] at h
      split at h; · cases h
      split at h; · cases h
      cases h
      have : wrapS t.bits (x * 2 ^ c.toNat) = wrapTo t (x * 2 ^ c.toNat) := by
        rcases ht with rfl | rfl | rfl | rfl <;> simp_all [wrapTo, Ty.signed]
      rw [this]; exact good_wrapTo ht.reach _
    · simp only [hs] at h
      cases h
      have : wrapU t.bits (x * 2 ^ c.toNat) = wrapTo t (x * 2 ^ c.toNat) := by
        rcases ht with rfl | rfl | rfl | rfl <;> simp_all [wrapTo, Ty.signed]
      rw [this]; exact good_wrapTo ht.reach _
  · cases h
    have hd : (0:Int) < 2 ^ c.toNat := Int.pow_pos (by decide)
    have hb := ediv_between x (2 ^ c.toNat) hd
    refine ⟨ht.reach, ?_⟩
    show inRange t (x / 2 ^ c.toNat) = true
    rcases ht with rfl | rfl | rfl | rfl
    · rw [inRange_int] at hx ⊢; omega
    · rw [inRange_uint] at hx ⊢; omega
    · rw [inRange_long] at hx ⊢; omega
    · rw [inRange_ulong] at hx ⊢; omega


theorem good_cvt {t : Ty} (ht : Arith t) {a : Val} (ha : Good a) : Good (cvt t a) := by
  rw [cvt_int a ha.1.notFloat ht.reach.notFloat]; exact good_wrapTo ht.reach _

theorem binop_good {op : BinOp} {a b r : Val} (ha : Good a) (hb : Good b) (h : binop op a b = .val r) : Good r := by
  by_cases hc : BinOp.isConv op = true
  · rw [binop_conv_eq hc, (common_reach ha.1 hb.1).1.notFloat] at h
    exact intBin_good (common_arith ha.1 hb.1) (cvt_inRange (common_arith ha.1 hb.1) ha)
      (cvt_inRange (common_arith ha.1 hb.1) hb) h
  · cases op <;> simp [BinOp.isConv] at hc
    · rw [binop_shift_eq (Or.inl rfl) a b ha.1.notFloat hb.1.notFloat] at h
      exact shift_good (promote_arith ha.1) (cvt_inRange (promote_arith ha.1) ha) h
    · rw [binop_shift_eq (Or.inr rfl) a b ha.1.notFloat hb.1.notFloat] at h
      exact shift_good (promote_arith ha.1) (cvt_inRange (promote_arith ha.1) ha) h
    · simp [binop] at h; subst h; exact good_ofBool _
    · simp [binop] at h; subst h; exact good_ofBool _

theorem unop_good {op : UnOp} {a r : Val} (ha : Good a) (h : unop op a = .val r) : Good r := by
  have hf := ha.1.notFloat
  cases op
  · simp [unop] at h; subst h; exact good_ofBool _
  · simp [unop, hf] at h; subst h; exact good_cvt (promote_arith ha.1) ha
  · have : unop .neg a = arithInt a.ty.promote (-(cvt a.ty.promote a).v) := by
      obtain ⟨t, x⟩ := a
      rcases ha.1 with h1 | h1 | h1 | h1 | h1 <;> simp only at h1 <;> subst h1 <;> rfl
    rw [this] at h
    exact arithInt_good (promote_arith ha.1) h
  · simp [unop, hf] at h; subst h; exact good_wrapTo (promote_arith ha.1).reach _

/-! ### the static type is the type of the value -/

def BinOp.isRel : BinOp → Bool
  | .lt | .le | .gt | .ge | .eq | .ne => true
  | _ => false

theorem arithInt_ty {t : Ty} {z : Int} {r : Val} (h : arithInt t z = .val r) : r.ty = t := by
  unfold arithInt at h
  split at h
  · split at h
    · cases h; rfl
    · cases h
  · cases h; rfl

theorem intBin_ty {op : BinOp} {t : Ty} {x y : Int} {r : Val} (h : intBin op t x y = .val r) :
    r.ty = if BinOp.isRel op then .bool else t := by
  cases op <;> simp only [intBin] at h <;> simp only [BinOp.isRel]
  case mul => exact arithInt_ty h
  case add => exact arithInt_ty h
  case sub => exact arithInt_ty h
  case div => (split at h; · cases h); (split at h; · cases h); cases h; rfl
  case mod => (split at h; · cases h); (split at h; · cases h); cases h; rfl
  all_goals first | (cases h; rfl) | cases h

theorem shift_ty {l : Bool} {t : Ty} {x c : Int} {r : Val} (h : shift l t x c = .val r) : r.ty = t := by
  unfold shift at h
  split at h; · cases h
  split at h
  · split at h
    · split at h; · cases h
      split at h; · cases h
      cases h; rfl
    · cases h; rfl
  · cases h; rfl

theorem binop_ty {op : BinOp} {a b r : Val} (ha : Good a) (hb : Good b) (h : binop op a b = .val r) :
    binType op a.ty b.ty = some r.ty := by
  have hnf := (common_reach ha.1 hb.1).1.notFloat
  by_cases hc : BinOp.isConv op = true
  · rw [binop_conv_eq hc, hnf] at h
    have := intBin_ty h
    cases op <;> simp_all [BinOp.isConv, BinOp.isRel, binType]
  · cases op <;> simp [BinOp.isConv] at hc
    · rw [binop_shift_eq (Or.inl rfl) a b ha.1.notFloat hb.1.notFloat] at h
      simp [binType, ha.1.notFloat, hb.1.notFloat, shift_ty h]
    · rw [binop_shift_eq (Or.inr rfl) a b ha.1.notFloat hb.1.notFloat] at h
      simp [binType, ha.1.notFloat, hb.1.notFloat, shift_ty h]
    · simp [binop] at h; subst h; rfl
    · simp [binop] at h; subst h; rfl

theorem unop_ty {op : UnOp} {a r : Val} (ha : Good a) (h : unop op a = .val r) : unType op a.ty = some r.ty := by
  have hf := ha.1.notFloat
  cases op
  · simp [unop] at h; subst h; rfl
  · simp [unop, hf] at h; subst h
    simp [unType, hf, cvt_ty_int a hf (promote_arith ha.1).reach.notFloat]
  · have : unop .neg a = arithInt a.ty.promote (-(cvt a.ty.promote a).v) := by
      obtain ⟨t, x⟩ := a
      rcases ha.1 with h1 | h1 | h1 | h1 | h1 <;> simp only at h1 <;> subst h1 <;> rfl
    rw [this] at h
    simp [unType, hf, arithInt_ty h]
  · simp [unop, hf] at h; subst h; simp [unType, hf]

end Occa.Prim.Lemmas
