/-
C02: `modeMemory_t` objects are never moved or resized, so aliasing relations between views
persist along every history.
-/
import OccaProofs.Lemmas.Mem

namespace Occa.Mem

/-- a later state knows every `modeMemory_t` of the earlier one, at the same place -/
@[reducible] def MemsLe (s s' : State) : Prop :=
  ∀ (m : Nat) (v : View), s.mems[m]? = some v →
    ∃ v', s'.mems[m]? = some v' ∧ v'.buf = v.buf ∧ v'.off = v.off ∧ v'.size = v.size

theorem MemsLe.refl (s : State) : MemsLe s s := fun _ v h => ⟨v, h, rfl, rfl, rfl⟩

theorem MemsLe.trans {a b c : State} (h1 : MemsLe a b) (h2 : MemsLe b c) : MemsLe a c := by
  intro m v hv
  obtain ⟨v1, hv1, e1, e2, e3⟩ := h1 m v hv
  obtain ⟨v2, hv2, f1, f2, f3⟩ := h2 m v1 hv1
  exact ⟨v2, hv2, by rw [f1, e1], by rw [f2, e2], by rw [f3, e3]⟩

theorem memsLe_same {s s' : State} (h : s'.mems = s.mems) : MemsLe s s' := by
  intro m v hv; exact ⟨v, by rw [h]; exact hv, rfl, rfl, rfl⟩

theorem memsLe_push {s s' : State} {w : View} (h : s'.mems = s.mems ++ [w]) : MemsLe s s' := by
  intro m v hv
  have : m < s.mems.length := (List.getElem?_eq_some_iff.mp hv).1
  exact ⟨v, by rw [h, List.getElem?_append_left this]; exact hv, rfl, rfl, rfl⟩

theorem memsLe_set {s s' : State} {k e : Nat} {p : View} (hp : s.mems[k]? = some p)
    (h : s'.mems = s.mems.set k { p with esz := e }) : MemsLe s s' := by
  intro m v hv
  have hlt : k < s.mems.length := (List.getElem?_eq_some_iff.mp hp).1
  by_cases hkm : k = m
  · subst hkm
    rw [hp] at hv; cases hv
    exact ⟨{ p with esz := e }, by rw [h, List.getElem?_set_self hlt], rfl, rfl, rfl⟩
  · exact ⟨v, by rw [h, List.getElem?_set_ne hkm]; exact hv, rfl, rfl, rfl⟩

def MRes.ML (s0 : State) : MRes → Prop
  | .val s _ => MemsLe s0 s
  | _ => True

theorem assignTo_memsLe {s0 : State} (d : Nat) {r : MRes} (hr : r.ML s0) : MemsLe s0 (assignTo s0 d r).1 := by
  cases r with
  | val s m => exact hr
  | err e => exact MemsLe.refl _
  | trap => exact MemsLe.refl _

theorem copyBytes_mems' (s : State) (dst src : View) (bytes dOff sOff : Nat) :
    (copyBytes s dst src bytes dOff sOff).1.mems = s.mems := by
  unfold copyBytes
  split <;> rfl

theorem mallocExpr_ml (s : State) (n : Int) (e : Nat) (data : Option (List UInt8)) : (mallocExpr s n e data).ML s := by
  cases hme : mallocExpr s n e data with
  | err er => trivial
  | trap => trivial
  | val s1 om =>
    cases om with
    | none => rw [mallocExpr_val_none hme]; exact MemsLe.refl _
    | some m =>
      obtain ⟨_, _, _, nb, _, _, hs1⟩ := mallocExpr_val hme
      exact memsLe_push (w := rootView s n e) (by rw [hs1]; rfl)

theorem mallocFromExpr_ml (s : State) (n : Int) (e src : Nat) : (mallocFromExpr s n e src).ML s := by
  unfold mallocFromExpr
  have hg := mallocExpr_ml s n e none
  cases hme : mallocExpr s n e none with
  | err er => trivial
  | trap => trivial
  | val s1 om =>
    rw [hme] at hg
    cases om with
    | none => exact hg
    | some m =>
      simp only []
      split
      · split
        · exact hg
        · split
          · trivial
          · split
            · rename_i s2 _ heq
              have h1 := congrArg (fun r : State × Res => r.1.mems) heq
              simp only [copyBytes_mems'] at h1
              exact hg.trans (memsLe_same h1.symm)
            · trivial
            · trivial
      · exact hg

theorem step_memsLe (s : State) (op : Op) : MemsLe s (step s op).1 := by
  cases op with
  | malloc v n e data => exact assignTo_memsLe v (mallocExpr_ml s n e data)
  | mallocFrom v n e src => exact assignTo_memsLe v (mallocFromExpr_ml s n e src)
  | wrap v hb n e =>
    refine assignTo_memsLe v ?_
    unfold wrapExpr
    simp only []
    split
    · trivial
    · split
      · trivial
      · exact memsLe_push (w := { buf := hb, off := 0, size := (n * (e : Int)).toNat, esz := e }) rfl
  | slice d src off cnt =>
    refine assignTo_memsLe d ?_
    unfold sliceExpr
    split
    · exact MemsLe.refl _
    · split
      · trivial
      · rename_i v hv; exact memsLe_push (w := v) rfl
  | cast d src e =>
    refine assignTo_memsLe d ?_
    unfold castExpr
    split
    · trivial
    · split
      · trivial
      · rename_i v hv; exact memsLe_push (w := { v with esz := e }) rfl
  | clone d src =>
    refine assignTo_memsLe d ?_
    unfold cloneExpr
    split
    · exact MemsLe.refl _
    · rename_i p hp
      split
      · exact MemsLe.refl _
      · have hg := mallocFromExpr_ml s (p.size : Int) 1 src
        cases hmf : mallocFromExpr s (p.size : Int) 1 src with
        | err er => trivial
        | trap => trivial
        | val s1 om =>
          rw [hmf] at hg
          cases om with
          | none => trivial
          | some m =>
            simp only []
            split
            · trivial
            · rename_i c hc
              exact hg.trans (memsLe_set hc rfl)
  | setDtype v e =>
    simp only [step, doSetDtype]
    split
    · exact MemsLe.refl _
    · split
      · exact MemsLe.refl _
      · rename_i p hp; exact memsLe_set hp rfl
  | copyFromHost v data cnt off =>
    simp only [step, doCopyFromHost]
    split
    · exact MemsLe.refl _
    · split
      · exact MemsLe.refl _
      split
      · exact MemsLe.refl _
      split
      · exact MemsLe.refl _
      split
      · exact MemsLe.refl _
      split
      · exact MemsLe.refl _
      · exact memsLe_same rfl
  | copyToHost v cap cnt off =>
    simp only [step, doCopyToHost]
    split
    · exact MemsLe.refl _
    · split
      · exact MemsLe.refl _
      split
      · exact MemsLe.refl _
      split
      · exact MemsLe.refl _
      split
      · exact MemsLe.refl _
      split <;> exact MemsLe.refl _
  | copyFromMem d src cnt doff soff =>
    simp only [step, doCopyFromMem]
    split
    · exact MemsLe.refl _
    · exact MemsLe.refl _
    · exact MemsLe.refl _
    · split
      · exact MemsLe.refl _
      · exact memsLe_same (copyBytes_mems' _ _ _ _ _ _)
  | copyToMem src d cnt doff soff =>
    simp only [step, doCopyToMem]
    split
    · exact MemsLe.refl _
    · exact MemsLe.refl _
    · exact MemsLe.refl _
    · split
      · exact MemsLe.refl _
      · exact memsLe_same (copyBytes_mems' _ _ _ _ _ _)
  | assign d src => exact memsLe_same rfl
  | free v =>
    simp only [step, doFree]
    split
    · exact MemsLe.refl _
    · exact memsLe_same rfl
  | hostWrite hb off data =>
    simp only [step, doHostWrite]
    split
    · split
      · exact memsLe_same rfl
      · exact MemsLe.refl _
    · exact MemsLe.refl _
  | hostRead hb off n =>
    simp only [step, doHostRead]
    split
    · split <;> exact MemsLe.refl _
    · exact MemsLe.refl _

theorem run_memsLe (s : State) (ops : List Op) : MemsLe s (run s ops) := by
  induction ops generalizing s with
  | nil => exact MemsLe.refl _
  | cons op rest ih => exact (step_memsLe s op).trans (ih _)

/-- two views of one buffer, the second `k` bytes into the first, read the same bytes -/
theorem byteAt_alias (t : State) {c p : View} {k : Nat} (hb : c.buf = p.buf) (ho : c.off = p.off + k) (j : Nat) :
    byteAt t c j = byteAt t p (k + j) := by
  unfold byteAt
  rw [hb, ho, Nat.add_assoc]

end Occa.Mem
