/-
Integer facts for C14: wrap-around, ranges, conversions between the reachable types
(bool, int, unsigned, long, unsigned long).
-/
import OccaModel.Prim
namespace Occa.Prim.Lemmas
open Occa Occa.CExpr Occa.CxxSem Occa.Gen Occa.Prim

theorem p31 : (2:Int)^31 = 2147483648 := by decide
theorem p32 : (2:Int)^32 = 4294967296 := by decide
theorem p63 : (2:Int)^63 = 9223372036854775808 := by decide
theorem p64 : (2:Int)^64 = 18446744073709551616 := by decide

@[simp] theorem wrapTo_bool (x : Int) : wrapTo .bool x = if x = 0 then 0 else 1 := rfl
@[simp] theorem wrapTo_int (x : Int) : wrapTo .int x = (x + 2147483648) % 4294967296 - 2147483648 := by
  simp [wrapTo, Ty.signed, Ty.bits, wrapS, p31, p32]
@[simp] theorem wrapTo_uint (x : Int) : wrapTo .uint x = x % 4294967296 := by
  simp [wrapTo, Ty.signed, Ty.bits, wrapU, p32]
@[simp] theorem wrapTo_long (x : Int) : wrapTo .long x = (x + 9223372036854775808) % 18446744073709551616 - 9223372036854775808 := by
  simp [wrapTo, Ty.signed, Ty.bits, wrapS, p63, p64]
@[simp] theorem wrapTo_ulong (x : Int) : wrapTo .ulong x = x % 18446744073709551616 := by
  simp [wrapTo, Ty.signed, Ty.bits, wrapU, p64]

theorem inRange_bool (x : Int) : inRange .bool x = true ↔ (0 ≤ x ∧ x ≤ 1) := by
  simp [inRange, Ty.minVal, Ty.maxVal, Ty.signed, Ty.bits]
theorem inRange_int (x : Int) : inRange .int x = true ↔ (-2147483648 ≤ x ∧ x ≤ 2147483647) := by
  simp [inRange, Ty.minVal, Ty.maxVal, Ty.signed, Ty.bits, p31]
theorem inRange_uint (x : Int) : inRange .uint x = true ↔ (0 ≤ x ∧ x ≤ 4294967295) := by
  simp [inRange, Ty.minVal, Ty.maxVal, Ty.signed, Ty.bits, p32]
theorem inRange_long (x : Int) : inRange .long x = true ↔ (-9223372036854775808 ≤ x ∧ x ≤ 9223372036854775807) := by
  simp [inRange, Ty.minVal, Ty.maxVal, Ty.signed, Ty.bits, p63]
theorem inRange_ulong (x : Int) : inRange .ulong x = true ↔ (0 ≤ x ∧ x ≤ 18446744073709551615) := by
  simp [inRange, Ty.minVal, Ty.maxVal, Ty.signed, Ty.bits, p64]

/-- the types a literal or an operator result can have -/
def Reach (t : Ty) : Prop := t = .bool ∨ t = .int ∨ t = .uint ∨ t = .long ∨ t = .ulong

/-- a value of reachable type that lies in the range of its type -/
def Good (a : Val) : Prop := Reach a.ty ∧ inRange a.ty a.v = true

theorem wrapTo_id {t : Ty} {x : Int} (ht : Reach t) (hx : inRange t x = true) : wrapTo t x = x := by
  rcases ht with rfl | rfl | rfl | rfl | rfl
  · rw [inRange_bool] at hx; simp; omega
  · rw [inRange_int] at hx; simp; omega
  · rw [inRange_uint] at hx; simp; omega
  · rw [inRange_long] at hx; simp; omega
  · rw [inRange_ulong] at hx; simp; omega

theorem wrapTo_inRange {t : Ty} (ht : Reach t) (x : Int) : inRange t (wrapTo t x) = true := by
  rcases ht with rfl | rfl | rfl | rfl | rfl
  · rw [inRange_bool]; simp; split <;> omega
  · rw [inRange_int]; simp; omega
  · rw [inRange_uint]; simp; omega
  · rw [inRange_long]; simp; omega
  · rw [inRange_ulong]; simp; omega


theorem Reach.notFloat {t : Ty} (h : Reach t) : t.isFloat = false := by
  rcases h with rfl | rfl | rfl | rfl | rfl <;> rfl

theorem cvt_int {t : Ty} (a : Val) (ha : a.ty.isFloat = false) (ht : t.isFloat = false) :
    cvt t a = ⟨t, wrapTo t a.v⟩ := by
  cases t <;> simp_all [cvt, Ty.isFloat]

/-- the "larger" type as `(a.type > b.type) ? a.type : b.type` picks it -/
def maxTy (a b : Ty) : Ty := if primRank a > primRank b then a else b

theorem maxTy_reach {a b : Ty} (ha : Reach a) (hb : Reach b) : Reach (maxTy a b) := by
  unfold maxTy; split <;> assumption

theorem common_maxTy {a b : Ty} (ha : Reach a) (hb : Reach b) :
    common (maxTy a b) (maxTy a b) = common a b := by
  rcases ha with rfl | rfl | rfl | rfl | rfl <;> rcases hb with rfl | rfl | rfl | rfl | rfl <;> decide

theorem common_reach {a b : Ty} (ha : Reach a) (hb : Reach b) : Reach (common a b) ∧ common a b ≠ .bool := by
  rcases ha with rfl | rfl | rfl | rfl | rfl <;> rcases hb with rfl | rfl | rfl | rfl | rfl <;> simp [Reach] <;> decide

/-- converting to the max-rank type first does not change what the usual arithmetic conversions give -/
theorem cvt_common_maxTy_left {a b : Val} (ha : Good a) (hb : Good b) :
    cvt (common a.ty b.ty) (cvt (maxTy a.ty b.ty) a) = cvt (common a.ty b.ty) a := by
  obtain ⟨ta, x⟩ := a
  obtain ⟨tb, y⟩ := b
  obtain ⟨hta, hx⟩ := ha
  obtain ⟨htb, _⟩ := hb
  simp only at hta htb hx ⊢
  rcases hta with rfl | rfl | rfl | rfl | rfl <;> rcases htb with rfl | rfl | rfl | rfl | rfl <;>
    simp [maxTy, primRank, common, Ty.promote, Ty.signed, Ty.crank, Ty.bits, cvt, Ty.isFloat] <;>
    (first | rw [inRange_bool] at hx | rw [inRange_int] at hx | rw [inRange_uint] at hx | rw [inRange_long] at hx | rw [inRange_ulong] at hx) <;>
    (try split) <;> omega

theorem cvt_common_maxTy_right {a b : Val} (ha : Good a) (hb : Good b) :
    cvt (common a.ty b.ty) (cvt (maxTy a.ty b.ty) b) = cvt (common a.ty b.ty) b := by
  obtain ⟨ta, x⟩ := a
  obtain ⟨tb, y⟩ := b
  obtain ⟨hta, _⟩ := ha
  obtain ⟨htb, hy⟩ := hb
  simp only at hta htb hy ⊢
  rcases hta with rfl | rfl | rfl | rfl | rfl <;> rcases htb with rfl | rfl | rfl | rfl | rfl <;>
    simp [maxTy, primRank, common, Ty.promote, Ty.signed, Ty.crank, Ty.bits, cvt, Ty.isFloat] <;>
    (first | rw [inRange_bool] at hy | rw [inRange_int] at hy | rw [inRange_uint] at hy | rw [inRange_long] at hy | rw [inRange_ulong] at hy) <;>
    (try split) <;> omega

end Occa.Prim.Lemmas
