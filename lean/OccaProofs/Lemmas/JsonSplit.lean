/-
Path strings and key lists: splitting a '/'-joined list of plain keys gives the keys back.
-/
import OccaModel.JsonPath

namespace Occa.Json

/-- a key that can be written inside a path: non-empty, no '/', no '\', no NUL -/
def PlainKey (k : Bytes) : Prop := k ≠ [] ∧ ∀ c ∈ k, c ≠ cSlash ∧ c ≠ cBackslash ∧ c ≠ 0

/-- "a/b/c" -/
def joinPath : List Bytes → Bytes
  | [] => []
  | [k] => k
  | k :: k2 :: ks => k ++ cSlash :: joinPath (k2 :: ks)

theorem takeSegE_plain (k r acc : Bytes) (hk : ∀ c ∈ k, c ≠ cSlash ∧ c ≠ cBackslash ∧ c ≠ 0) :
    takeSegE false (k ++ r) acc = takeSegE false r (acc ++ k) := by
  induction k generalizing acc with
  | nil => simp
  | cons c t ih =>
    have hc := hk c (by simp)
    have ht : ∀ x ∈ t, x ≠ cSlash ∧ x ≠ cBackslash ∧ x ≠ 0 := fun x hx => hk x (by simp [hx])
    simp only [List.cons_append, takeSegE, hc.1, hc.2.1, if_false]
    rw [ih _ ht]
    simp

theorem noNul_joinPath : ∀ (ks : List Bytes), (∀ k ∈ ks, PlainKey k) → ∀ c ∈ joinPath ks, c ≠ 0
  | [], _, c, hc => by simp [joinPath] at hc
  | [k], h, c, hc => by
    simp only [joinPath] at hc
    exact ((h k (by simp)).2 c hc).2.2
  | k :: k2 :: ks, h, c, hc => by
    simp only [joinPath, List.mem_append, List.mem_cons] at hc
    rcases hc with hc | hc | hc
    · exact ((h k (by simp)).2 c hc).2.2
    · subst hc; decide
    · exact noNul_joinPath (k2 :: ks) (fun x hx => h x (by simp [hx])) c hc

theorem joinPath_ne_nil (k : Bytes) (ks : List Bytes) (h : PlainKey k) : joinPath (k :: ks) ≠ [] := by
  cases ks with
  | nil => exact h.1
  | cons k2 t => simp [joinPath]

theorem splitPathF_step (n : Nat) (s k r : Bytes) (hs : s ≠ []) (h : takeSeg s [] = (k, r)) :
    splitPathF (n + 1) s = k :: splitPathF n (if peek r = cSlash then r.drop 1 else r) := by
  cases s with
  | nil => exact absurd rfl hs
  | cons c t => simp only [splitPathF, h]

theorem splitPathF_nil (n : Nat) : splitPathF n [] = [] := by
  cases n <;> simp [splitPathF]

theorem splitPathF_join : ∀ (ks : List Bytes) (n : Nat), (∀ k ∈ ks, PlainKey k) → (joinPath ks).length < n →
    splitPathF n (joinPath ks) = ks
  | [], n, _, hn => by simp [joinPath, splitPathF_nil]
  | [k], n, h, hn => by
    have hk := h k (by simp)
    cases n with
    | zero => simp at hn
    | succ n =>
      simp only [joinPath]
      have hseg : takeSeg k [] = (k, []) := by
        have := takeSegE_plain k [] [] hk.2
        simpa [takeSeg, takeSegE] using this
      rw [splitPathF_step n k k [] hk.1 hseg]
      simp [peek, splitPathF_nil]
  | k :: k2 :: ks, n, h, hn => by
    have hk := h k (by simp)
    cases n with
    | zero => simp at hn
    | succ n =>
      have hseg : takeSeg (k ++ cSlash :: joinPath (k2 :: ks)) [] = (k, cSlash :: joinPath (k2 :: ks)) := by
        have := takeSegE_plain k (cSlash :: joinPath (k2 :: ks)) [] hk.2
        simpa [takeSeg, takeSegE, cSlash, cBackslash] using this
      simp only [joinPath] at hn ⊢
      rw [splitPathF_step n _ k _ (by simp) hseg]
      simp only [peek, if_true, List.drop_succ_cons, List.drop_zero]
      rw [splitPathF_join (k2 :: ks) n (fun x hx => h x (by simp [hx]))]
      simp only [List.length_append, List.length_cons] at hn
      omega

theorem cstr_noNul (s : Bytes) (h : ∀ c ∈ s, c ≠ 0) : cstr s = s := by
  unfold cstr
  induction s with
  | nil => rfl
  | cons a t ih =>
    have ha : a ≠ 0 := h a (by simp)
    simp only [List.takeWhile_cons, ha, ne_eq, not_false_eq_true, decide_true, if_true]
    rw [ih (fun c hc => h c (by simp [hc]))]

/-- the path string "k1/k2/…/kn" of plain keys addresses exactly the key list [k1, …, kn] -/
theorem splitPath_join (ks : List Bytes) (h : ∀ k ∈ ks, PlainKey k) : splitPath (joinPath ks) = ks := by
  unfold splitPath
  rw [cstr_noNul _ (noNul_joinPath ks h)]
  exact splitPathF_join ks _ h (by omega)

end Occa.Json
