/-
Lemmas for C22: the inner-most-path computation of okl::kernelHasValidOklLoops
(reverse, filter with captured state, loop with running counters) against the declarative
description "every root-to-leaf chain of @outer/@inner loops under one outer-most loop is
`oc` @outer loops followed by `ic` @inner loops, the same (oc, ic) for all chains".
-/
import OccaModel.Okl
import Mathlib.Data.List.Basic

namespace Occa.Okl

/-! ### startsWith is the prefix relation -/

theorem startsWith_iff (a b : Path) : startsWith a b = true ↔ b <+: a := by
  induction b generalizing a with
  | nil => simp [startsWith]
  | cons x bs ih =>
    cases a with
    | nil => simp [startsWith]
    | cons y as =>
      simp only [startsWith, Bool.and_eq_true, beq_iff_eq, ih, List.cons_prefix_cons]
      constructor
      · rintro ⟨h, h'⟩; exact ⟨h.symm, h'⟩
      · rintro ⟨h, h'⟩; exact ⟨h.symm, h'⟩

theorem startsWith_false_iff (a b : Path) : startsWith a b = false ↔ ¬ b <+: a := by
  rw [← startsWith_iff]; simp

/-! ### leaf paths -/

/-- the loop paths of the loops that contain no further @outer/@inner loop -/
def leafPaths (pre : Path) (i : Nat) : LF → List Path
  | .nil => []
  | .node o _ kids next =>
    let l := leafPaths (pre ++ [(i, o)]) 0 kids
    (if l.isEmpty then [pre ++ [(i, o)]] else l) ++ leafPaths pre (i + 1) next

theorem paths_head (pre : Path) (i : Nat) (o : Bool) (h : Res) (k n : LF) :
    (paths pre i (.node o h k n)).head? = some (pre ++ [(i, o)]) := by
  simp [paths]

theorem leafPaths_ne_nil (pre : Path) (i : Nat) (o : Bool) (h : Res) (k n : LF) :
    leafPaths pre i (.node o h k n) ≠ [] := by
  simp only [leafPaths]
  split <;> simp_all

theorem leafPaths_nil_kids (pre : Path) (i : Nat) :
    ∀ f, leafPaths pre i f = [] → f = .nil := by
  intro f h
  cases f with
  | nil => rfl
  | node o hv k n => exact absurd h (leafPaths_ne_nil pre i o hv k n)

/-- the state captured by the filter after a block of paths has been processed -/
def headOr (l : List Path) (d : Path) : Path := (l.head?).getD d

theorem innerMostGo_paths (f : LF) : ∀ (pre : Path) (i : Nat) (nxt : Path) (R : List Path),
    (∀ j o, i ≤ j → ¬ (pre ++ [(j, o)]) <+: nxt) →
    innerMostGo nxt ((paths pre i f).reverse ++ R) =
      (leafPaths pre i f).reverse ++ innerMostGo (headOr (paths pre i f) nxt) R := by
  induction f with
  | nil => intro pre i nxt R _; simp [paths, leafPaths, headOr]
  | node o hv kids next ihk ihn =>
    intro pre i nxt R hno
    have e1 : (paths pre i (.node o hv kids next)).reverse ++ R =
        (paths pre (i + 1) next).reverse ++ ((paths (pre ++ [(i, o)]) 0 kids).reverse ++ ((pre ++ [(i, o)]) :: R)) := by
      simp [paths]
    rw [e1, ihn pre (i + 1) nxt _ (fun j o' hj => hno j o' (by omega))]
    -- the state after the later siblings
    have hn1 : ∀ j o', ¬ ((pre ++ [(i, o)]) ++ [(j, o')]) <+: headOr (paths pre (i + 1) next) nxt := by
      intro j o' hp
      cases next with
      | nil =>
        simp only [paths, headOr, List.head?_nil, Option.getD_none] at hp
        exact hno i o (Nat.le_refl _) ((List.prefix_append _ _).trans hp)
      | node o2 h2 k2 n2 =>
        simp only [headOr, paths_head, Option.getD_some] at hp
        have := hp.length_le
        simp at this
    rw [ihk (pre ++ [(i, o)]) 0 _ _ (fun j o' _ => hn1 j o')]
    cases kids with
    | nil =>
      have hsw : startsWith (headOr (paths pre (i + 1) next) nxt) (pre ++ [(i, o)]) = false := by
        rw [startsWith_false_iff]
        intro hp
        cases next with
        | nil =>
          simp only [paths, headOr, List.head?_nil, Option.getD_none] at hp
          exact hno i o (Nat.le_refl _) hp
        | node o2 h2 k2 n2 =>
          simp only [headOr, paths_head, Option.getD_some] at hp
          have hl : (pre ++ [(i, o)]).length = (pre ++ [(i + 1, o2)]).length := by simp
          have := hp.eq_of_length hl
          have := List.append_cancel_left this
          simp at this
      simp only [headOr] at hsw
      simp [paths, leafPaths, headOr, innerMostGo, hsw]
    | node o2 h2 k2 n2 =>
      have hsw : startsWith (headOr (paths (pre ++ [(i, o)]) 0 (.node o2 h2 k2 n2))
          (headOr (paths pre (i + 1) next) nxt)) (pre ++ [(i, o)]) = true := by
        rw [startsWith_iff]
        simp only [headOr, paths_head, Option.getD_some]
        exact List.prefix_append _ _
      have hne := leafPaths_ne_nil (pre ++ [(i, o)]) 0 o2 h2 k2 n2
      have hemp : (leafPaths (pre ++ [(i, o)]) 0 (.node o2 h2 k2 n2)).isEmpty = false := by
        cases h : leafPaths (pre ++ [(i, o)]) 0 (.node o2 h2 k2 n2) with
        | nil => exact absurd h hne
        | cons _ _ => rfl
      simp only [innerMostGo, hsw, Bool.not_true, Bool.false_eq_true, ↓reduceIte]
      conv => rhs; rw [leafPaths]
      simp only [hemp, Bool.false_eq_true, ↓reduceIte, List.reverse_append, List.append_assoc]
      simp [headOr, paths]

theorem innerMostPaths_eq (f : LF) :
    innerMostPaths (paths [] 0 f) = (leafPaths [] 0 f).reverse := by
  have h := innerMostGo_paths f [] 0 [] [] (by intro j o _ hp; simpa using hp.length_le)
  simpa [innerMostPaths, innerMostGo] using h


/-! ### pathHasValidOklLoopOrdering on one path -/

def attrs (p : Path) : List Bool := p.map Prod.snd

theorem cons_true_eq (a b : Nat) (l : List Bool) :
    true :: l = List.replicate a true ++ List.replicate b false ↔
      ∃ a', a = a' + 1 ∧ l = List.replicate a' true ++ List.replicate b false := by
  cases a with
  | zero =>
    cases b with
    | zero => simp
    | succ b => simp [List.replicate_succ]
  | succ a => simp [List.replicate_succ]

theorem cons_false_eq (a b : Nat) (l : List Bool) :
    false :: l = List.replicate a true ++ List.replicate b false ↔
      a = 0 ∧ ∃ b', b = b' + 1 ∧ l = List.replicate b' false := by
  cases a with
  | zero =>
    cases b with
    | zero => simp
    | succ b => simp [List.replicate_succ]
  | succ a => simp [List.replicate_succ]

theorem orderingGo_spec : ∀ (p : Path) (ic0 oc0 ic oc : Nat),
    orderingGo p ic0 oc0 = some (ic, oc) ↔
      ∃ a b, attrs p = List.replicate a true ++ List.replicate b false ∧ (ic0 ≠ 0 → a = 0) ∧
        (b ≠ 0 → oc0 + a ≠ 0) ∧ ic = ic0 + b ∧ oc = oc0 + a := by
  intro p
  induction p with
  | nil =>
    intro ic0 oc0 ic oc
    simp only [orderingGo, attrs, List.map_nil, Option.some.injEq, Prod.mk.injEq]
    constructor
    · rintro ⟨h1, h2⟩; exact ⟨0, 0, by simp, by simp, by simp, by omega, by omega⟩
    · rintro ⟨a, b, h, _, _, h3, h4⟩
      have : a = 0 ∧ b = 0 := by
        have := congrArg List.length h
        simp at this; omega
      omega
  | cons x r ih =>
    intro ic0 oc0 ic oc
    obtain ⟨i, o⟩ := x
    cases o with
    | true =>
      simp only [orderingGo, attrs, List.map_cons]
      by_cases hic : ic0 = 0
      · subst hic
        simp only [ne_eq, not_true_eq_false, ↓reduceIte, ih, cons_true_eq]
        constructor
        · rintro ⟨a, b, h, _, h2, h3, h4⟩
          exact ⟨a + 1, b, ⟨a, rfl, h⟩, by simp, by omega, h3, by omega⟩
        · rintro ⟨a, b, ⟨a', ha, h⟩, _, h2, h3, h4⟩
          exact ⟨a', b, h, by simp, by omega, h3, by omega⟩
      · simp only [ne_eq, hic, not_false_eq_true, ↓reduceIte, cons_true_eq]
        constructor
        · intro h; cases h
        · rintro ⟨a, b, ⟨a', ha, _⟩, h1, _⟩
          have := h1 trivial; omega
    | false =>
      simp only [orderingGo, attrs, List.map_cons]
      by_cases hoc : oc0 = 0
      · subst hoc
        simp only [↓reduceIte, cons_false_eq]
        constructor
        · intro h; cases h
        · rintro ⟨a, b, ⟨ha, b', hb, _⟩, _, h2, _⟩
          have := h2 (by omega); omega
      · simp only [hoc, ↓reduceIte, ih, cons_false_eq]
        constructor
        · rintro ⟨a, b, h, h1, h2, h3, h4⟩
          have ha : a = 0 := h1 (by omega)
          subst ha
          exact ⟨0, b + 1, ⟨rfl, b, rfl, by simpa [attrs] using h⟩, by simp, by omega, by omega, by omega⟩
        · rintro ⟨a, b, ⟨ha, b', hb, h⟩, h1, h2, h3, h4⟩
          subst ha
          exact ⟨0, b', by simpa [attrs] using h, by simp, by omega, by omega, by omega⟩

/-- a path is `oc` @outer loops followed by `ic` @inner loops, each between one and three -/
def WellNested (ic oc : Nat) (l : List Bool) : Prop :=
  l = List.replicate oc true ++ List.replicate ic false ∧ 1 ≤ ic ∧ ic ≤ 3 ∧ 1 ≤ oc ∧ oc ≤ 3

theorem pathOrdering_spec (p : Path) (hp : p ≠ []) (ic oc : Nat) :
    pathOrdering p = some (ic, oc) ↔ WellNested ic oc (attrs p) := by
  unfold pathOrdering WellNested
  cases h : orderingGo p 0 0 with
  | none =>
    refine ⟨fun h' => (by cases h'), ?_⟩
    rintro ⟨hl, h1, _, h2, _⟩
    have := (orderingGo_spec p 0 0 ic oc).2 ⟨oc, ic, hl, by simp, by omega, by omega, by omega⟩
    rw [h] at this; cases this
  | some v =>
    obtain ⟨ic', oc'⟩ := v
    obtain ⟨a, b, hl, _, hb, hic, hoc⟩ := (orderingGo_spec p 0 0 ic' oc').1 h
    have hab : ic' = b ∧ oc' = a := by omega
    obtain ⟨rfl, rfl⟩ := hab
    have hlen : ic' + oc' ≠ 0 := by
      intro h0
      have : attrs p = [] := by
        have h1 : ic' = 0 := by omega
        have h2 : oc' = 0 := by omega
        rw [hl, h1, h2]; rfl
      cases p with
      | nil => exact hp rfl
      | cons x r => simp [attrs] at this
    simp only
    by_cases c1 : ic' = 0 ∧ oc' ≠ 0
    · simp only [c1, ne_eq, not_false_eq_true, and_self, ↓reduceIte]
      refine ⟨fun h' => (by cases h'), ?_⟩
      rintro ⟨hl2, h1, _, _, _⟩
      rw [hl] at hl2
      have := congrArg (List.count false) hl2
      simp [List.count_replicate] at this
      omega
    · simp only [c1, ↓reduceIte]
      by_cases c2 : 3 < ic' ∨ 3 < oc'
      · simp only [c2, ↓reduceIte]
        refine ⟨fun h' => (by cases h'), ?_⟩
        rintro ⟨hl2, _, h3, _, h4⟩
        rw [hl] at hl2
        have e1 := congrArg (List.count false) hl2
        have e2 := congrArg (List.count true) hl2
        simp [List.count_replicate] at e1 e2
        omega
      · simp only [c2, ↓reduceIte, Option.some.injEq, Prod.mk.injEq]
        constructor
        · rintro ⟨rfl, rfl⟩
          refine ⟨hl, ?_, by omega, ?_, by omega⟩
          · by_contra hc
            have h0 : ic' = 0 := by omega
            exact c1 ⟨h0, by omega⟩
          · by_contra hc
            have h0 : oc' = 0 := by omega
            have : ic' ≠ 0 := by omega
            have := hb this
            omega
        · rintro ⟨hl2, _, _, _, _⟩
          rw [hl] at hl2
          have e1 := congrArg (List.count false) hl2
          have e2 := congrArg (List.count true) hl2
          simp [List.count_replicate] at e1 e2
          omega


/-! ### the loop over the inner-most paths with its running counters -/

theorem countsGo_sameRoot (r : Nat × Bool) (ic oc : Nat) (T : List Path) :
    ∀ (g : List Path), (∀ p ∈ g, p.head? = some r) →
      (countsGo (some (r, ic, oc)) (g ++ T) = true ↔
        (∀ p ∈ g, pathOrdering p = some (ic, oc)) ∧ countsGo (some (r, ic, oc)) T = true) := by
  intro g
  induction g with
  | nil => intro _; simp
  | cons p g ih =>
    intro hg
    have hp : p.head? = some r := hg p (by simp)
    have ih' := ih (fun q hq => hg q (by simp [hq]))
    simp only [List.cons_append, countsGo, hp]
    cases hpo : pathOrdering p with
    | none => simp [hpo]
    | some v =>
      obtain ⟨ic', oc'⟩ := v
      simp only [ne_eq, not_true_eq_false, ↓reduceIte, List.mem_cons, forall_eq_or_imp, hpo,
        Option.some.injEq, Prod.mk.injEq]
      by_cases h1 : ic = ic'
      · by_cases h2 : oc = oc'
        · subst h1 h2; simp [ih']
        · simp [h1, h2]; intro h; exact absurd h.symm h2
      · simp [h1]; intro h; exact absurd h.symm h1

theorem countsGo_newRoot (cur : Option ((Nat × Bool) × Nat × Nat)) (r : Nat × Bool) (p : Path)
    (g T : List Path) (hp : p.head? = some r) (hg : ∀ q ∈ g, q.head? = some r)
    (hcur : ∀ c, cur = some c → c.1 ≠ r) :
    countsGo cur (p :: g ++ T) = true ↔
      ∃ ic oc, (∀ q ∈ p :: g, pathOrdering q = some (ic, oc)) ∧ countsGo (some (r, ic, oc)) T = true := by
  have key : ∀ ic oc, pathOrdering p = some (ic, oc) →
      countsGo cur (p :: g ++ T) = countsGo (some (r, ic, oc)) (g ++ T) := by
    intro ic oc hpo
    cases cur with
    | none => simp [countsGo, hpo, hp]
    | some c =>
      obtain ⟨r0, c1, c2⟩ := c
      have : r ≠ r0 := fun h => hcur _ rfl h.symm
      simp [countsGo, hpo, hp, this]
  cases hpo : pathOrdering p with
  | none =>
    have : countsGo cur (p :: g ++ T) = false := by
      cases cur <;> simp [countsGo, hpo]
    rw [this]
    simp only [Bool.false_eq_true, List.mem_cons, forall_eq_or_imp, hpo, false_iff]
    rintro ⟨ic, oc, ⟨h, _⟩, _⟩; cases h
  | some v =>
    obtain ⟨ic', oc'⟩ := v
    rw [key ic' oc' hpo, countsGo_sameRoot r ic' oc' T g hg]
    constructor
    · rintro ⟨h1, h2⟩
      exact ⟨ic', oc', by simpa [hpo] using h1, h2⟩
    · rintro ⟨ic, oc, h1, h2⟩
      have := h1 p (by simp)
      rw [hpo] at this
      cases this
      exact ⟨fun q hq => h1 q (by simp [hq]), h2⟩

theorem countsGo_groups : ∀ (gs : List ((Nat × Bool) × List Path)) (cur : Option ((Nat × Bool) × Nat × Nat)),
    (∀ g ∈ gs, g.2 ≠ [] ∧ ∀ p ∈ g.2, p.head? = some g.1) →
    gs.Pairwise (fun a b => a.1 ≠ b.1) →
    (∀ c, cur = some c → ∀ g ∈ gs, c.1 ≠ g.1) →
    (countsGo cur (gs.flatMap (·.2)) = true ↔
      ∀ g ∈ gs, ∃ ic oc, ∀ p ∈ g.2, pathOrdering p = some (ic, oc)) := by
  intro gs
  induction gs with
  | nil => intro cur _ _ _; simp [countsGo]
  | cons g gs ih =>
    intro cur hwf hpw hcur
    obtain ⟨hne, hhead⟩ := hwf g (by simp)
    obtain ⟨r, l⟩ := g
    cases l with
    | nil => exact absurd rfl hne
    | cons p l =>
      simp only [List.flatMap_cons]
      rw [countsGo_newRoot cur r p l _ (hhead p (by simp)) (fun q hq => hhead q (by simp [hq]))
        (fun c hc => hcur c hc (r, p :: l) (by simp))]
      rw [List.pairwise_cons] at hpw
      simp only [List.mem_cons, forall_eq_or_imp]
      constructor
      · rintro ⟨ic, oc, h1, h2⟩
        refine ⟨⟨ic, oc, by simpa using h1⟩, ?_⟩
        exact (ih (some (r, ic, oc)) (fun g hg => hwf g (by simp [hg])) hpw.2
          (fun c hc g hg => by cases hc; exact hpw.1 g hg)).1 h2
      · rintro ⟨⟨ic, oc, h1⟩, h2⟩
        refine ⟨ic, oc, by simpa using h1, ?_⟩
        exact (ih (some (r, ic, oc)) (fun g hg => hwf g (by simp [hg])) hpw.2
          (fun c hc g hg => by cases hc; exact hpw.1 g hg)).2 h2

/-! ### the blocks of inner-most paths, one per outer-most loop -/

def groupOf (i : Nat) (o : Bool) (kids : LF) : List Path :=
  let l := leafPaths [(i, o)] 0 kids
  if l.isEmpty then [[(i, o)]] else l

/-- blocks in the order in which the reversed path list presents them -/
def revGroups (i : Nat) : LF → List ((Nat × Bool) × List Path)
  | .nil => []
  | .node o _ kids next => revGroups (i + 1) next ++ [((i, o), (groupOf i o kids).reverse)]

theorem leafPaths_reverse (f : LF) : ∀ i, (leafPaths [] i f).reverse = (revGroups i f).flatMap (·.2) := by
  induction f with
  | nil => intro i; simp [leafPaths, revGroups]
  | node o hv kids next _ ihn =>
    intro i
    simp only [leafPaths, revGroups, List.reverse_append, ihn, List.flatMap_append, List.flatMap_cons,
      List.flatMap_nil, List.append_nil, groupOf, List.nil_append]

theorem leafPaths_prefix (f : LF) : ∀ pre i q, q ∈ leafPaths pre i f → ∃ t, t ≠ [] ∧ q = pre ++ t := by
  induction f with
  | nil => intro pre i q h; simp [leafPaths] at h
  | node o hv kids next ihk ihn =>
    intro pre i q h
    simp only [leafPaths, List.mem_append] at h
    rcases h with h | h
    · split at h
      · simp only [List.mem_singleton] at h
        exact ⟨[(i, o)], by simp, h⟩
      · obtain ⟨t, _, ht⟩ := ihk _ _ _ h
        exact ⟨(i, o) :: t, by simp, by simp [ht]⟩
    · exact ihn _ _ _ h

theorem groupOf_spec (i : Nat) (o : Bool) (kids : LF) :
    groupOf i o kids ≠ [] ∧ ∀ p ∈ groupOf i o kids, p.head? = some (i, o) := by
  unfold groupOf
  constructor
  · simp only
    split
    · simp
    · intro h; simp_all
  · intro p hp
    simp only at hp
    split at hp
    · simp only [List.mem_singleton] at hp; simp [hp]
    · obtain ⟨t, _, ht⟩ := leafPaths_prefix kids _ _ _ hp
      simp [ht]

theorem revGroups_index (f : LF) : ∀ i g, g ∈ revGroups i f → i ≤ g.1.1 := by
  induction f with
  | nil => intro i g h; simp [revGroups] at h
  | node o hv kids next _ ihn =>
    intro i g h
    simp only [revGroups, List.mem_append, List.mem_singleton] at h
    rcases h with h | h
    · have := ihn _ _ h; omega
    · subst h; simp

theorem revGroups_wf (f : LF) : ∀ i, (∀ g ∈ revGroups i f, g.2 ≠ [] ∧ ∀ p ∈ g.2, p.head? = some g.1) ∧
    (revGroups i f).Pairwise (fun a b => a.1 ≠ b.1) := by
  induction f with
  | nil => intro i; simp [revGroups]
  | node o hv kids next _ ihn =>
    intro i
    obtain ⟨h1, h2⟩ := ihn (i + 1)
    constructor
    · intro g hg
      simp only [revGroups, List.mem_append, List.mem_singleton] at hg
      rcases hg with hg | hg
      · exact h1 g hg
      · subst hg
        have := groupOf_spec i o kids
        exact ⟨by simpa using this.1, fun p hp => this.2 p (by simpa using hp)⟩
    · simp only [revGroups]
      rw [List.pairwise_append]
      refine ⟨h2, by simp, ?_⟩
      intro a ha b hb
      simp only [List.mem_singleton] at hb
      subst hb
      have := revGroups_index next _ _ ha
      intro h
      have : a.1.1 = i := by rw [h]
      omega

/-! ### index-free description: the attribute chains below every outer-most loop -/

/-- attribute sequences (true = @outer) from the roots of a forest down to its leaf loops -/
def leaves : LF → List (List Bool)
  | .nil => []
  | .node o _ kids next =>
    let l := leaves kids
    (if l.isEmpty then [[o]] else l.map (o :: ·)) ++ leaves next

/-- per outer-most loop of the forest: the attribute chains down to its leaf loops -/
def chains : LF → List (List (List Bool))
  | .nil => []
  | .node o _ kids next =>
    let l := leaves kids
    (if l.isEmpty then [[o]] else l.map (o :: ·)) :: chains next

theorem attrs_append (a b : Path) : attrs (a ++ b) = attrs a ++ attrs b := by simp [attrs]

theorem leafPaths_attrs (f : LF) : ∀ pre i, (leafPaths pre i f).map attrs = (leaves f).map (attrs pre ++ ·) := by
  induction f with
  | nil => intro pre i; simp [leafPaths, leaves]
  | node o hv kids next ihk ihn =>
    intro pre i
    have hk := ihk (pre ++ [(i, o)]) 0
    have hemp : (leafPaths (pre ++ [(i, o)]) 0 kids).isEmpty = (leaves kids).isEmpty := by
      have := congrArg List.length hk
      simp only [List.length_map] at this
      cases h1 : leafPaths (pre ++ [(i, o)]) 0 kids <;> cases h2 : leaves kids <;> simp_all
    simp only [leafPaths, leaves, List.map_append, ihn, hemp]
    congr 1
    split
    · simp [attrs]
    · rw [hk]; simp [attrs_append, attrs, List.map_map, Function.comp_def]

theorem groupOf_attrs (i : Nat) (o : Bool) (kids : LF) :
    (groupOf i o kids).map attrs = (let l := leaves kids; if l.isEmpty then [[o]] else l.map (o :: ·)) := by
  have hk := leafPaths_attrs kids [(i, o)] 0
  have hemp : (leafPaths [(i, o)] 0 kids).isEmpty = (leaves kids).isEmpty := by
    have := congrArg List.length hk
    simp only [List.length_map] at this
    cases h1 : leafPaths [(i, o)] 0 kids <;> cases h2 : leaves kids <;> simp_all
  simp only [groupOf, hemp]
  split
  · simp [attrs]
  · rw [hk]; simp [attrs]

/-- the declarative nesting rule for one forest of @outer/@inner loops -/
def NestingSpec (f : LF) : Prop :=
  ∀ g ∈ chains f, ∃ ic oc, ∀ l ∈ g, WellNested ic oc l

theorem revGroups_chains (f : LF) : ∀ i,
    (∀ g ∈ revGroups i f, ∃ ic oc, ∀ p ∈ g.2, pathOrdering p = some (ic, oc)) ↔ NestingSpec f := by
  induction f with
  | nil => intro i; simp [revGroups, NestingSpec, chains]
  | node o hv kids next _ ihn =>
    intro i
    have hgo := groupOf_spec i o kids
    have hone : (∃ ic oc, ∀ p ∈ (groupOf i o kids).reverse, pathOrdering p = some (ic, oc)) ↔
        ∃ ic oc, ∀ l ∈ (let l := leaves kids; if l.isEmpty then [[o]] else l.map (o :: ·)), WellNested ic oc l := by
      rw [← groupOf_attrs i o kids]
      constructor
      · rintro ⟨ic, oc, h⟩
        refine ⟨ic, oc, ?_⟩
        intro l hl
        obtain ⟨p, hp, rfl⟩ := List.mem_map.1 hl
        have hne : p ≠ [] := by
          intro h0; have := hgo.2 p hp; simp [h0] at this
        exact (pathOrdering_spec p hne ic oc).1 (h p (by simpa using hp))
      · rintro ⟨ic, oc, h⟩
        refine ⟨ic, oc, ?_⟩
        intro p hp
        have hp' : p ∈ groupOf i o kids := by simpa using hp
        have hne : p ≠ [] := by
          intro h0; have := hgo.2 p hp'; simp [h0] at this
        exact (pathOrdering_spec p hne ic oc).2 (h _ (List.mem_map.2 ⟨p, hp', rfl⟩))
    simp only [revGroups, List.mem_append, List.mem_singleton]
    simp only [NestingSpec, chains, List.mem_cons]
    constructor
    · intro h g hg
      rcases hg with hg | hg
      · subst hg
        exact hone.1 (h _ (Or.inr rfl))
      · exact (ihn (i + 1)).1 (fun g' hg' => h g' (Or.inl hg')) g hg
    · intro h g hg
      rcases hg with hg | hg
      · exact (ihn (i + 1)).2 (fun g' hg' => h g' (Or.inr hg')) g hg
      · subst hg
        exact hone.2 (h _ (Or.inl rfl))

/-- the counting loop of kernelHasValidOklLoops accepts exactly the well-nested forests -/
theorem countsGo_innerMost (f : LF) :
    countsGo none (innerMostPaths (paths [] 0 f)) = true ↔ NestingSpec f := by
  rw [innerMostPaths_eq, leafPaths_reverse]
  obtain ⟨h1, h2⟩ := revGroups_wf f 0
  rw [countsGo_groups _ none h1 h2 (by intro c hc; cases hc)]
  exact revGroups_chains f 0

end Occa.Okl
