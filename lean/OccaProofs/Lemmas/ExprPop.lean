/-
`applyFasterOperators` / `closePair` / the final loop of `parse` on a scope described by frames.
-/
import OccaProofs.Lemmas.ExprFrames

namespace Occa.Expr
open Occa.Gen

/-- `x` is `: e` left over by an unmatched colon (never present in a well-shaped run) -/
def colonLu : Expr → Bool
  | .lu o _ => o.ty == T.colon
  | _ => false

/-- each frame accepts (as its right operand) the tree that the frame above it will produce -/
def Stacked : List Frame → Prop
  | [] => True
  | [_] => True
  | f :: g :: rest => g.accepts f.lvl = true ∧ Stacked (g :: rest)

/-- frames hold the right kind of operator, post frames are only ever on top, no operand is a bare `: e`,
    and every operand is a precedence-correct tree that fits its position -/
structure FramesOk (fs : List Frame) : Prop where
  ok : ∀ f ∈ fs, f.ok
  post : ∀ f ∈ fs.tail, f.isPost = false
  nocolon : ∀ f ∈ fs, ∀ e ∈ f.outs, colonLu e = false
  canon : ∀ f ∈ fs, ∀ e ∈ f.operands, canonB e = true
  fit : ∀ f ∈ fs, f.fit = true
  stacked : Stacked fs

theorem Stacked.tail {f : Frame} {fs : List Frame} (h : Stacked (f :: fs)) : Stacked fs := by
  cases fs with
  | nil => trivial
  | cons g rest => exact h.2

theorem FramesOk.tail {f : Frame} {fs : List Frame} (h : FramesOk (f :: fs)) : FramesOk fs := by
  refine ⟨fun g hg => h.ok g (List.mem_cons_of_mem _ hg), fun g hg => ?_,
          fun g hg => h.nocolon g (List.mem_cons_of_mem _ hg),
          fun g hg => h.canon g (List.mem_cons_of_mem _ hg),
          fun g hg => h.fit g (List.mem_cons_of_mem _ hg), h.stacked.tail⟩
  exact h.post g (by simpa using List.mem_of_mem_tail hg)

theorem FramesOk.head_tail_notPost {f g : Frame} {fs : List Frame} (h : FramesOk (f :: g :: fs)) : g.isPost = false :=
  h.post g (by simp)

theorem FramesOk.head_accepts {f g : Frame} {fs : List Frame} (h : FramesOk (f :: g :: fs)) : g.accepts f.lvl = true :=
  h.stacked.1

theorem FramesOk.nil : FramesOk [] := ⟨by simp, by simp, by simp, by simp, by simp, trivial⟩

/-- "an operand is available": a top operand above a non-postfix frame, or a postfix frame on top -/
def ModeO (fs : List Frame) (top : Option Expr) : Prop :=
  (top.isSome = true ∧ ∀ f, fs.head? = some f → f.isPost = false) ∨
  (top = none ∧ ∃ n e fs', fs = Frame.post n e :: fs')

/-- the incoming operator `o` reduces the pending operator `q` (the test of applyFasterOperators) -/
def pops (o q : Op) : Bool := o.prec > q.prec || (o.prec == q.prec && leftAssoc q.prec)

theorem popFaster_nil (o : Op) (prev : Option Tok) (out : List Expr) :
    popFaster o prev out [] = .ok (out, []) := by simp [popFaster]

theorem popFaster_cons (o : Op) (prev : Option Tok) (out : List Expr) (n : OpNode) (ops : List OpNode) :
    popFaster o prev out (n :: ops) =
      if has n.op.ty T.pairStart then .ok (out, n :: ops)
      else if has o.ty T.questionMark && n.op.prec == o.prec then .ok (out, n :: ops)
      else if !has o.ty T.colon && has n.op.ty T.questionMark then .ok (out, n :: ops)
      else if has o.ty T.colon then
        match applyOperator n prev out with
        | .error x => .error x
        | .ok out' => if has n.op.ty T.questionMark then .ok (out', ops) else popFaster o prev out' ops
      else if pops o n.op then
        match applyOperator n prev out with
        | .error x => .error x
        | .ok out' => popFaster o prev out' ops
      else .ok (out, n :: ops) := by
  rw [popFaster]
  by_cases h1 : has n.op.ty T.pairStart = true
  · simp [h1]
  · simp only [h1, Bool.false_eq_true, if_false, popDecision, flag_ternary, pops]
    by_cases hc : has o.ty T.colon = true
    · by_cases hq : has o.ty T.questionMark = true
      · -- `:` is not `?`
        exfalso
        have : ∀ x : Op, has x.ty T.colon = true → has x.ty T.questionMark = false := forall_op (by decide +kernel)
        rw [this o hc] at hq; simp at hq
      · simp [hc, hq]
        rfl
    · by_cases hnq : has n.op.ty T.questionMark = true
      · by_cases hq : (has o.ty T.questionMark && n.op.prec == o.prec) = true
        · simp [hc, hnq, hq]
        · simp [hc, hnq, hq]
      · by_cases hq : (has o.ty T.questionMark && n.op.prec == o.prec) = true
        · have hq' := hq
          simp only [Bool.and_eq_true, beq_iff_eq] at hq'
          simp [hc, hnq, hq, hq'.1, hq'.2]
        · have : (o.prec == n.op.prec && has o.ty T.questionMark) = false := by
            simp only [Bool.and_eq_true, beq_iff_eq, not_and] at hq
            cases h : has o.ty T.questionMark
            · simp
            · have := hq h; simp [Ne.symm this]
          have hq2 : ¬ (has o.ty T.questionMark = true ∧ n.op.prec = o.prec) := by
            simpa using hq
          simp [hc, hnq, this, hq2]
          rfl

/-- result operand of applying the operator of frame `f` (not `opn`, not `quest`) to the top operand -/
def Frame.result : Frame → Option Expr → Option Expr
  | .pre n, some e => some (pfxNode n e)
  | .bin n l, some r => some (.bin n.op l r)
  | .post n e, none => some (.ru n.op e)
  | .colon _ c t _, some f => some (.tern c t f)
  | _, _ => none

theorem apply_frame (f : Frame) (hf : f.ok) (top : Option Expr) (r : Expr) (hr : f.result top = some r)
    (prev : Option Tok) (rest : List Expr) :
    applyOperator f.node prev (top.toList ++ f.outs ++ rest) = .ok (r :: rest) ∧
    printToks r = f.toks ++ topToks top := by
  cases f with
  | pre n =>
    cases top with
    | none => simp [Frame.result] at hr
    | some e =>
      simp only [Frame.result, Option.some.injEq] at hr; subst hr
      exact ⟨by simpa [Frame.outs, Frame.node] using apply_pre n prev e rest hf,
             by simpa [Frame.toks, topToks] using printToks_pfx n e hf⟩
  | bin n l =>
    cases top with
    | none => simp [Frame.result] at hr
    | some e =>
      simp only [Frame.result, Option.some.injEq] at hr; subst hr
      exact ⟨by simpa [Frame.outs, Frame.node] using apply_bin n prev e l rest hf,
             by simp [Frame.toks, topToks, printToks]⟩
  | post n e =>
    cases top with
    | some e' => simp [Frame.result] at hr
    | none =>
      simp only [Frame.result, Option.some.injEq] at hr; subst hr
      exact ⟨by simpa [Frame.outs, Frame.node] using apply_post n prev e rest hf,
             by simp [Frame.toks, topToks, printToks]⟩
  | quest n c => cases top <;> simp [Frame.result] at hr
  | colon n c t q =>
    cases top with
    | none => simp [Frame.result] at hr
    | some e =>
      simp only [Frame.result, Option.some.injEq] at hr; subst hr
      exact ⟨by simpa [Frame.outs, Frame.node] using apply_colon n prev e t c q rest hf.1 hf.2,
             by simp [Frame.toks, topToks, printToks]⟩
  | opn n => cases top <;> simp [Frame.result] at hr

/-- applying a frame to a precedence-correct operand that it accepts gives a precedence-correct tree of the
    frame's level -/
theorem apply_frame_canon (f : Frame) (hf : f.ok) (top : Option Expr) (r : Expr) (hr : f.result top = some r)
    (hops : ∀ e ∈ f.operands, canonB e = true) (hfit : f.fit = true)
    (htop : ∀ e, top = some e → canonB e = true ∧ f.accepts (rootPrec e) = true) :
    canonB r = true ∧ rootPrec r = f.lvl := by
  cases f with
  | pre n =>
    cases top with
    | none => simp [Frame.result] at hr
    | some e =>
      simp only [Frame.result, Option.some.injEq] at hr; subst hr
      obtain ⟨h1, h2⟩ := htop e rfl
      exact ⟨canonB_pfx n e hf h1 h2, rootPrec_pfx n e hf⟩
  | bin n l =>
    cases top with
    | none => simp [Frame.result] at hr
    | some e =>
      simp only [Frame.result, Option.some.injEq] at hr; subst hr
      obtain ⟨h1, h2⟩ := htop e rfl
      have hl := hops l (by simp [Frame.operands])
      simp only [Frame.fit] at hfit
      simp only [Frame.accepts] at h2
      exact ⟨by simp [canonB, hl, h1, hfit, h2], rfl⟩
  | post n e =>
    cases top with
    | some e' => simp [Frame.result] at hr
    | none =>
      simp only [Frame.result, Option.some.injEq] at hr; subst hr
      have he := hops e (by simp [Frame.operands])
      simp only [Frame.fit] at hfit
      exact ⟨by simp [canonB, he, hfit], rfl⟩
  | quest n c => cases top <;> simp [Frame.result] at hr
  | colon n c t q =>
    cases top with
    | none => simp [Frame.result] at hr
    | some e =>
      simp only [Frame.result, Option.some.injEq] at hr; subst hr
      obtain ⟨h1, h2⟩ := htop e rfl
      have hc := hops c (by simp [Frame.operands])
      have ht := hops t (by simp [Frame.operands])
      simp only [Frame.fit] at hfit
      simp only [Frame.accepts] at h2
      exact ⟨by simp [canonB, hc, ht, h1, hfit, h2], rfl⟩
  | opn n => cases top <;> simp [Frame.result] at hr

theorem scopeOut_cons (f : Frame) (fs : List Frame) (top : Option Expr) :
    scopeOut (f :: fs) top = top.toList ++ f.outs ++ scopeOut fs none := by
  simp [scopeOut]

theorem scopeOut_some (fs : List Frame) (e : Expr) : scopeOut fs (some e) = e :: scopeOut fs none := by
  simp [scopeOut]

/-- frames that an incoming operator may reduce: neither an open pair nor a pending `?` -/
def Frame.reducible (f : Frame) : Bool := !f.isOpn && !f.isQuest

theorem frame_ty (f : Frame) (hf : f.ok) (hr : f.reducible = true) :
    has f.node.op.ty T.pairStart = false ∧ has f.node.op.ty T.questionMark = false := by
  cases f with
  | pre n =>
    obtain ⟨h1, _, h3, _⟩ := ty_facts_prefixOk n.op hf
    exact ⟨(ty_facts_lu n.op h1).2.2.2, h3⟩
  | bin n l =>
    obtain ⟨h1, _, h3, _⟩ := bin_excl n.op hf
    exact ⟨h1, by rw [has_q_eq]; exact h3⟩
  | post n e =>
    have : ∀ o : Op, has o.ty T.rightUnary = true → has o.ty T.pairStart = false ∧ has o.ty T.questionMark = false :=
      forall_op (by decide +kernel)
    exact this n.op hf
  | quest n c => simp [Frame.reducible, Frame.isQuest, Frame.isOpn] at hr
  | colon n c t q =>
    obtain ⟨h0, _, _, _, _, h5⟩ := ty_facts_c n.op hf.1
    refine ⟨h5, ?_⟩
    simp [Frame.node, h0]; decide
  | opn n => simp [Frame.reducible, Frame.isQuest, Frame.isOpn] at hr

/-- a reducible frame under an available operand can be applied -/
theorem frame_result_some (f : Frame) (hr : f.reducible = true) (top : Option Expr)
    (h : (top.isSome = true ∧ f.isPost = false) ∨ (top = none ∧ f.isPost = true)) :
    ∃ r, f.result top = some r := by
  cases f with
  | pre n => rcases h with ⟨h1, _⟩ | ⟨_, h2⟩
             · obtain ⟨e, rfl⟩ := Option.isSome_iff_exists.mp h1; exact ⟨_, rfl⟩
             · simp [Frame.isPost] at h2
  | bin n l => rcases h with ⟨h1, _⟩ | ⟨_, h2⟩
               · obtain ⟨e, rfl⟩ := Option.isSome_iff_exists.mp h1; exact ⟨_, rfl⟩
               · simp [Frame.isPost] at h2
  | post n e => rcases h with ⟨_, h2⟩ | ⟨h1, _⟩
                · simp [Frame.isPost] at h2
                · subst h1; exact ⟨_, rfl⟩
  | quest n c => simp [Frame.reducible, Frame.isQuest, Frame.isOpn] at hr
  | colon n c t q => rcases h with ⟨h1, _⟩ | ⟨_, h2⟩
                     · obtain ⟨e, rfl⟩ := Option.isSome_iff_exists.mp h1; exact ⟨_, rfl⟩
                     · simp [Frame.isPost] at h2
  | opn n => simp [Frame.reducible, Frame.isQuest, Frame.isOpn] at hr

end Occa.Expr

namespace Occa.Expr
open Occa.Gen

theorem applyTernary_noop (out : List Expr) (h : ∀ e, out.head? = some e → colonLu e = false) :
    applyTernary out = out := by
  unfold applyTernary
  split
  · rename_i o2 fv o1 tv c rest
    have := h (.lu o2 fv) rfl
    simp only [colonLu] at this
    simp [this]
  · rfl

theorem colonLu_result (f : Frame) (hf : f.ok) (top : Option Expr) (r : Expr) (h : f.result top = some r) :
    colonLu r = false := by
  cases f with
  | pre n =>
    cases top with
    | none => simp [Frame.result] at h
    | some e =>
      simp only [Frame.result, Option.some.injEq] at h; subst h
      obtain ⟨_, h2, _⟩ := ty_facts_prefixOk n.op hf
      unfold pfxNode
      split
      · simp only [colonLu]; rw [← has_c_eq]; exact h2
      · split
        · rfl
        · split <;> rfl
  | bin n l => cases top <;> simp [Frame.result] at h; subst h; rfl
  | post n e => cases top <;> simp [Frame.result] at h; subst h; rfl
  | quest n c => cases top <;> simp [Frame.result] at h
  | colon n c t q => cases top <;> simp [Frame.result] at h; subst h; rfl
  | opn n => cases top <;> simp [Frame.result] at h

theorem typeNode_result (f : Frame) (top : Option Expr) (r : Expr) (h : f.result top = some r) :
    isTypeNode r = false := by
  cases f with
  | pre n =>
    cases top with
    | none => simp [Frame.result] at h
    | some e =>
      simp only [Frame.result, Option.some.injEq] at h; subst h
      unfold pfxNode
      split
      · rfl
      · split
        · rfl
        · split <;> rfl
  | bin n l => cases top <;> simp [Frame.result] at h; subst h; rfl
  | post n e => cases top <;> simp [Frame.result] at h; subst h; rfl
  | quest n c => cases top <;> simp [Frame.result] at h
  | colon n c t q => cases top <;> simp [Frame.result] at h; subst h; rfl
  | opn n => cases top <;> simp [Frame.result] at h

/-- number of pending `?` above the nearest open pair -/
def questCount : List Frame → Nat
  | [] => 0
  | f :: fs => if f.isOpn then 0 else (if f.isQuest then 1 else 0) + questCount fs

theorem questCount_reducible (f : Frame) (fs : List Frame) (h : f.reducible = true) :
    questCount (f :: fs) = questCount fs := by
  simp [Frame.reducible] at h
  simp [questCount, h.1, h.2]

theorem q_prec : ∀ o : Op, has o.ty T.questionMark = true → o.prec = 16 := forall_op (by decide +kernel)
theorem leftAssoc2 : leftAssoc 2 = true := by decide

theorem ModeO.top_some_of_notPost {f : Frame} {fs : List Frame} {top : Option Expr}
    (h : ModeO (f :: fs) top) (hf : f.isPost = false) : ∃ e, top = some e := by
  rcases h with ⟨h1, _⟩ | ⟨_, n, e, fs', h2⟩
  · exact Option.isSome_iff_exists.mp h1
  · simp at h2; rw [h2.1] at hf; simp [Frame.isPost] at hf

theorem ModeO.cases {f : Frame} {fs : List Frame} {top : Option Expr} (h : ModeO (f :: fs) top) :
    (top.isSome = true ∧ f.isPost = false) ∨ (top = none ∧ f.isPost = true) := by
  rcases h with ⟨h1, h2⟩ | ⟨h1, n, e, fs', h2⟩
  · exact Or.inl ⟨h1, h2 f rfl⟩
  · simp at h2; exact Or.inr ⟨h1, by rw [h2.1]; rfl⟩

theorem post_prec {f : Frame} (hf : f.ok) (hp : f.isPost = true) : f.node.op.prec = 2 := by
  cases f <;> simp [Frame.isPost] at hp
  exact (ty_facts_ru _ hf).2.2.2

theorem lvl_eq (f : Frame) (hf : f.ok) (hr : f.reducible = true) : f.lvl = f.node.op.prec := by
  cases f with
  | colon n c t q => obtain ⟨h0, _⟩ := ty_facts_c n.op hf.1; simp [Frame.lvl, Frame.node, h0]; decide
  | quest n c => simp [Frame.reducible, Frame.isQuest, Frame.isOpn] at hr
  | opn n => simp [Frame.reducible, Frame.isQuest, Frame.isOpn] at hr
  | _ => rfl

theorem pops_leftFits (o q : Op) (h : pops o q = true) : leftFits o.prec q.prec = true := by
  simp only [pops, Bool.or_eq_true, decide_eq_true_eq, Bool.and_eq_true, beq_iff_eq] at h
  simp only [leftFits, Bool.or_eq_true, decide_eq_true_eq, Bool.and_eq_true, beq_iff_eq]
  rcases h with h | ⟨h1, h2⟩
  · exact Or.inl h
  · exact Or.inr ⟨h1.symm, by rw [h1]; exact h2⟩

theorem notPops_rightFits (o q : Op) (h : pops o q = false) : rightFits q.prec o.prec = true := by
  simp only [pops, Bool.or_eq_false_iff, decide_eq_false_iff_not, Bool.and_eq_false_iff, beq_eq_false_iff_ne] at h
  simp only [rightFits, Bool.or_eq_true, decide_eq_true_eq, Bool.and_eq_true, beq_iff_eq, Bool.not_eq_true']
  obtain ⟨h1, h2⟩ := h
  by_cases he : o.prec = q.prec
  · exact Or.inr ⟨he, by rcases h2 with h2 | h2; exact absurd he h2; exact h2⟩
  · exact Or.inl (by omega)

theorem accepts_of_notPops (f : Frame) (hf : f.ok) (hr : f.reducible = true) (hnp : f.isPost = false) (o : Op)
    (h : pops o f.node.op = false) : f.accepts o.prec = true := by
  have := notPops_rightFits o f.node.op h
  cases f with
  | pre n => exact this
  | bin n l => exact this
  | colon n c t q =>
    obtain ⟨h0, _⟩ := ty_facts_c n.op hf.1
    simp only [Frame.node, h0] at this
    simpa [Frame.accepts, pfx_prec_facts.2.2.2.1, pfx_prec_facts.2.2.2.2] using this
  | post n e => simp [Frame.isPost] at hnp
  | quest n c => rfl
  | opn n => rfl

theorem prec16_facts : (∀ o : Op, preOk o = true → o.prec ≠ 16) ∧ (∀ o : Op, has o.ty T.binary = true → o.prec ≠ 16 ∧ o.prec ≥ 1) ∧
    leftAssoc 16 = false ∧ (∀ o : Op, preOk o = true → o.prec ≥ 1) := by
  refine ⟨forall_op (by decide +kernel), forall_op (by decide +kernel), by decide, forall_op (by decide +kernel)⟩

/-- a frame of level 16 that the incoming `?` leaves alone accepts the conditional expression to come -/
theorem accepts_of_qstop (f : Frame) (hf : f.ok) (hr : f.reducible = true) (hnp : f.isPost = false)
    (h : f.node.op.prec = 16) : f.accepts 16 = true := by
  cases f with
  | pre n => exact absurd h (prec16_facts.1 n.op hf)
  | bin n l => exact absurd h (prec16_facts.2.1 n.op hf).1
  | colon n c t q => simp [Frame.accepts, rightFits, pfx_prec_facts.2.2.2.1, prec16_facts.2.2.1]
  | post n e => simp [Frame.isPost] at hnp
  | quest n c => rfl
  | opn n => rfl

/-- `applyFasterOperators` for an incoming binary / postfix / `?` operator when an operand is
    available: it reduces a prefix of the frames and leaves one operand on top; the tokens of the
    scope are unchanged. -/
theorem popFaster_spec (o : Op) (prev : Option Tok) (hc : has o.ty T.colon = false) :
    ∀ (fs : List Frame), FramesOk fs → ∀ (top : Option Expr), ModeO fs top →
      (∀ f, fs.head? = some f → f.isPost = true → o.prec ≥ 2) →
      (∀ e, top = some e → colonLu e = false) →
      (∀ e, top = some e → canonB e = true ∧ leftFits o.prec (rootPrec e) = true ∧
          ∀ f, fs.head? = some f → f.accepts (rootPrec e) = true) → ∀ out' ops',
      popFaster o prev (scopeOut fs top) (scopeOps fs) = .ok (out', ops') →
      ∃ fs' e' pre, out' = scopeOut fs' (some e') ∧ ops' = scopeOps fs' ∧ FramesOk fs' ∧ colonLu e' = false ∧
        (∀ f, fs'.head? = some f → f.isPost = false) ∧
        scopeToks fs' (some e') = scopeToks fs top ∧ questCount fs' = questCount fs ∧
        fs = pre ++ fs' ∧ (∀ f ∈ pre, f.reducible = true) ∧
        canonB e' = true ∧ leftFits o.prec (rootPrec e') = true ∧ (∀ f, fs'.head? = some f → f.accepts o.prec = true) := by
  intro fs
  induction fs with
  | nil =>
    intro _ top hm _ hcl hcan out' ops' h
    rcases hm with ⟨h1, _⟩ | ⟨_, n, e, fs', h2⟩
    · obtain ⟨e, rfl⟩ := Option.isSome_iff_exists.mp h1
      simp [scopeOps, popFaster_nil] at h
      exact ⟨[], e, [], by simp [h.1], by simp [scopeOps, h.2], FramesOk.nil, hcl e rfl, by simp, rfl, rfl, rfl, by simp,
        (hcan e rfl).1, (hcan e rfl).2.1, by simp⟩
    · simp at h2
  | cons f fs ih =>
    intro hok top hm hp hcl hcan out' ops' h
    -- "nothing is reduced": the state is returned unchanged and an operand is on top
    have unchanged : f.isPost = false → f.accepts o.prec = true →
        (out', ops') = (scopeOut (f :: fs) top, f.node :: scopeOps fs) →
        ∃ fs' e' pre, out' = scopeOut fs' (some e') ∧ ops' = scopeOps fs' ∧ FramesOk fs' ∧ colonLu e' = false ∧
        (∀ g, fs'.head? = some g → g.isPost = false) ∧
        scopeToks fs' (some e') = scopeToks (f :: fs) top ∧ questCount fs' = questCount (f :: fs) ∧
        f :: fs = pre ++ fs' ∧ (∀ g ∈ pre, g.reducible = true) ∧
        canonB e' = true ∧ leftFits o.prec (rootPrec e') = true ∧ (∀ g, fs'.head? = some g → g.accepts o.prec = true) := by
      intro hnp hacc heq
      obtain ⟨e, rfl⟩ := hm.top_some_of_notPost hnp
      simp only [Prod.mk.injEq] at heq
      exact ⟨f :: fs, e, [], heq.1, heq.2, hok, hcl e rfl, by simpa using hnp, rfl, rfl, rfl, by simp,
        (hcan e rfl).1, (hcan e rfl).2.1, by simpa using hacc⟩
    have hops : scopeOps (f :: fs) = f.node :: scopeOps fs := rfl
    rw [hops, popFaster_cons] at h
    by_cases hr : f.reducible = true
    · obtain ⟨hps, hqm⟩ := frame_ty f (hok.ok f (by simp)) hr
      simp only [hps, hqm, hc, Bool.false_eq_true, if_false, Bool.and_false, Bool.not_false, Bool.true_and] at h
      by_cases hq : (has o.ty T.questionMark && f.node.op.prec == o.prec) = true
      · rw [if_pos hq] at h
        have hnp : f.isPost = false := by
          cases hpost : f.isPost
          · rfl
          · have p2 := post_prec (hok.ok f (by simp)) hpost
            simp only [Bool.and_eq_true, beq_iff_eq] at hq
            have := q_prec o hq.1
            omega
        have hacc : f.accepts o.prec = true := by
          simp only [Bool.and_eq_true, beq_iff_eq] at hq
          have h16 := q_prec o hq.1
          rw [h16]
          exact accepts_of_qstop f (hok.ok f (by simp)) hr hnp (by rw [hq.2, h16])
        exact unchanged hnp hacc (by simpa using h.symm)
      · rw [if_neg hq] at h
        by_cases hpop : pops o f.node.op = true
        · rw [if_pos hpop] at h
          obtain ⟨r, hres⟩ := frame_result_some f hr top hm.cases
          obtain ⟨happ, htk⟩ := apply_frame f (hok.ok f (by simp)) top r hres prev (scopeOut fs none)
          rw [scopeOut_cons, happ] at h
          simp only at h
          rw [← scopeOut_some] at h
          have hm' : ModeO fs (some r) := Or.inl ⟨rfl, fun g hg => by
            cases fs with
            | nil => simp at hg
            | cons g' fs' => simp at hg; subst hg; exact hok.head_tail_notPost⟩
          have hp' : ∀ g, fs.head? = some g → g.isPost = true → o.prec ≥ 2 := by
            intro g hg hgp
            cases fs with
            | nil => simp at hg
            | cons g' fs' =>
              simp at hg; subst hg
              have := hok.head_tail_notPost; rw [this] at hgp; simp at hgp
          have hrc : canonB r = true ∧ rootPrec r = f.lvl :=
            apply_frame_canon f (hok.ok f (by simp)) top r hres (hok.canon f (by simp)) (hok.fit f (by simp))
              (fun e he => ⟨(hcan e he).1, (hcan e he).2.2 f rfl⟩)
          have hcan' : ∀ e, some r = some e → canonB e = true ∧ leftFits o.prec (rootPrec e) = true ∧
              ∀ g, fs.head? = some g → g.accepts (rootPrec e) = true := by
            intro e he
            simp at he; subst he
            refine ⟨hrc.1, ?_, ?_⟩
            · rw [hrc.2, lvl_eq f (hok.ok f (by simp)) hr]; exact pops_leftFits o f.node.op hpop
            · intro g hg
              cases fs with
              | nil => simp at hg
              | cons g' fs' => simp at hg; subst hg; rw [hrc.2]; exact hok.head_accepts
          obtain ⟨fs', e', pre, h1, h2, h3, h3', h4, h5, h6, h7, h8, h9, h10, h11⟩ := ih hok.tail (some r) hm' hp'
            (fun e he => by simp at he; subst he; exact colonLu_result f (hok.ok f (by simp)) top r hres) hcan' out' ops' h
          refine ⟨fs', e', f :: pre, h1, h2, h3, h3', h4, ?_, ?_, by simp [h7], ?_, h9, h10, h11⟩
          · rw [h5, scopeToks_cons, scopeToks_some, htk]; simp [List.append_assoc]
          · rw [h6, questCount_reducible f fs hr]
          · intro g hg; simp at hg; rcases hg with rfl | hg
            · exact hr
            · exact h8 g hg
        · rw [if_neg hpop] at h
          have hnp : f.isPost = false := by
            cases hpost : f.isPost
            · rfl
            · have p2 := post_prec (hok.ok f (by simp)) hpost
              have hp := hp f rfl hpost
              exfalso; apply hpop
              unfold pops
              rw [p2, leftAssoc2]
              by_cases h2 : o.prec = 2
              · simp [h2]
              · have : o.prec > 2 := by omega
                simp [this]
          exact unchanged hnp (accepts_of_notPops f (hok.ok f (by simp)) hr hnp o (by simpa using hpop)) (by simpa using h.symm)
    · -- an open pair or a pending `?`: the loop stops
      have hnp : f.isPost = false := by
        cases f <;> simp [Frame.reducible, Frame.isOpn, Frame.isQuest, Frame.isPost] at hr ⊢
      cases f with
      | opn n =>
        have : has n.op.ty T.pairStart = true := hok.ok (Frame.opn n) (by simp)
        simp only [Frame.node, this, if_true] at h
        exact unchanged hnp rfl (by simpa [Frame.node] using h.symm)
      | quest n c =>
        have hq : (n.op.ty == T.questionMark) = true := hok.ok (Frame.quest n c) (by simp)
        obtain ⟨_, _, _, _, _, hps⟩ := ty_facts_q n.op hq
        have hq' : has n.op.ty T.questionMark = true := by rw [has_q_eq]; exact hq
        simp only [Frame.node, hps, hq', hc, Bool.false_eq_true, if_false, Bool.not_false, Bool.and_self, if_true] at h
        split at h
        · exact unchanged hnp rfl (by simpa [Frame.node] using h.symm)
        · exact unchanged hnp rfl (by simpa [Frame.node] using h.symm)
      | pre n => simp [Frame.reducible, Frame.isOpn, Frame.isQuest] at hr
      | bin n l => simp [Frame.reducible, Frame.isOpn, Frame.isQuest] at hr
      | post n e => simp [Frame.reducible, Frame.isOpn, Frame.isQuest] at hr
      | colon n c t q => simp [Frame.reducible, Frame.isOpn, Frame.isQuest] at hr

end Occa.Expr

namespace Occa.Expr
open Occa.Gen

theorem colon_not_q : ∀ o : Op, has o.ty T.colon = true → has o.ty T.questionMark = false :=
  forall_op (by decide +kernel)

theorem questCount_pos_cons {f : Frame} {fs : List Frame} (h : questCount (f :: fs) > 0) :
    f.isOpn = false ∧ (f.isQuest = true ∨ (f.isQuest = false ∧ questCount fs > 0)) := by
  unfold questCount at h
  cases ho : f.isOpn
  · simp [ho] at h
    cases hq : f.isQuest
    · simp [hq] at h; exact ⟨rfl, Or.inr ⟨rfl, h⟩⟩
    · exact ⟨rfl, Or.inl rfl⟩
  · simp [ho] at h

/-- `applyFasterOperators` for an incoming `:`: everything above the nearest pending `?` is
    reduced, then the `?` itself; the condition and `? true-branch` are left on the output stack. -/
theorem popColon_spec (o : Op) (prev : Option Tok) (hc : has o.ty T.colon = true) :
    ∀ (fs : List Frame), FramesOk fs → ∀ (top : Option Expr), ModeO fs top → questCount fs > 0 →
      (∀ e, top = some e → canonB e = true ∧ ∀ f, fs.head? = some f → f.accepts (rootPrec e) = true) → ∀ out' ops',
      popFaster o prev (scopeOut fs top) (scopeOps fs) = .ok (out', ops') →
      ∃ pre n c fs' t, fs = pre ++ Frame.quest n c :: fs' ∧ (∀ f ∈ pre, f.reducible = true) ∧
        out' = .lu n.op t :: c :: scopeOut fs' none ∧ ops' = scopeOps fs' ∧
        scopeToks fs top = scopeToks fs' none ++ printToks c ++ [.op .questionMark] ++ printToks t ∧
        questCount fs = questCount fs' + 1 ∧ canonB t = true := by
  intro fs
  induction fs with
  | nil => intro _ _ _ hq; simp [questCount] at hq
  | cons f fs ih =>
    intro hok top hm hq hcan out' ops' h
    have hoq := colon_not_q o hc
    have hops : scopeOps (f :: fs) = f.node :: scopeOps fs := rfl
    rw [hops, popFaster_cons] at h
    obtain ⟨hno, hcase⟩ := questCount_pos_cons hq
    by_cases hr : f.reducible = true
    · obtain ⟨hps, hqm⟩ := frame_ty f (hok.ok f (by simp)) hr
      simp only [hps, hqm, hc, hoq, Bool.false_eq_true, if_false, Bool.and_false, Bool.false_and, Bool.not_true,
        if_true] at h
      obtain ⟨r, hres⟩ := frame_result_some f hr top hm.cases
      obtain ⟨happ, htk⟩ := apply_frame f (hok.ok f (by simp)) top r hres prev (scopeOut fs none)
      rw [scopeOut_cons, happ] at h
      simp only at h
      rw [← scopeOut_some] at h
      have hm' : ModeO fs (some r) := Or.inl ⟨rfl, fun g hg => by
        cases fs with
        | nil => simp at hg
        | cons g' fs' => simp at hg; subst hg; exact hok.head_tail_notPost⟩
      have hq' : questCount fs > 0 := by
        rcases hcase with h1 | ⟨_, h2⟩
        · simp [Frame.reducible] at hr; rw [hr.2] at h1; simp at h1
        · exact h2
      have hrc : canonB r = true ∧ rootPrec r = f.lvl :=
        apply_frame_canon f (hok.ok f (by simp)) top r hres (hok.canon f (by simp)) (hok.fit f (by simp))
          (fun e he => ⟨(hcan e he).1, (hcan e he).2 f rfl⟩)
      have hcan' : ∀ e, some r = some e → canonB e = true ∧ ∀ g, fs.head? = some g → g.accepts (rootPrec e) = true := by
        intro e he
        simp at he; subst he
        refine ⟨hrc.1, ?_⟩
        intro g hg
        cases fs with
        | nil => simp at hg
        | cons g' fs' => simp at hg; subst hg; rw [hrc.2]; exact hok.head_accepts
      obtain ⟨pre, n, c, fs', t, h1, h2, h3, h4, h5, h6, h7⟩ := ih hok.tail (some r) hm' hq' hcan' out' ops' h
      refine ⟨f :: pre, n, c, fs', t, by simp [h1], ?_, h3, h4, ?_, ?_, h7⟩
      · intro g hg; simp at hg; rcases hg with rfl | hg
        · exact hr
        · exact h2 g hg
      · rw [scopeToks_cons, ← h5, scopeToks_some, htk]; simp [List.append_assoc]
      · rw [questCount_reducible f fs hr, h6]
    · cases f with
      | opn n => simp [Frame.isOpn] at hno
      | quest n c =>
        have hq1 : (n.op.ty == T.questionMark) = true := hok.ok (Frame.quest n c) (by simp)
        obtain ⟨_, _, _, _, _, hps⟩ := ty_facts_q n.op hq1
        have hq' : has n.op.ty T.questionMark = true := by rw [has_q_eq]; exact hq1
        simp only [Frame.node, hps, hq', hc, hoq, Bool.false_eq_true, if_false, Bool.false_and, Bool.not_true,
          if_true] at h
        obtain ⟨t, rfl⟩ := hm.top_some_of_notPost (f := Frame.quest n c) rfl
        have : scopeOut (Frame.quest n c :: fs) (some t) = t :: c :: scopeOut fs none := by
          simp [scopeOut, Frame.outs]
        rw [this, apply_quest n prev t _ hq1] at h
        simp only [Except.ok.injEq, Prod.mk.injEq] at h
        refine ⟨[], n, c, fs, t, rfl, by simp, h.1.symm, h.2.symm, ?_, ?_, (hcan t rfl).1⟩
        · rw [scopeToks_cons]; simp [Frame.toks, topToks, List.append_assoc]
        · simp [questCount, Frame.isOpn, Frame.isQuest]; omega
      | pre n => simp [Frame.reducible, Frame.isOpn, Frame.isQuest] at hr
      | bin n l => simp [Frame.reducible, Frame.isOpn, Frame.isQuest] at hr
      | post n e => simp [Frame.reducible, Frame.isOpn, Frame.isQuest] at hr
      | colon n c t q => simp [Frame.reducible, Frame.isOpn, Frame.isQuest] at hr

end Occa.Expr

namespace Occa.Expr
open Occa.Gen

/-- reducing every frame of a list of reducible frames: one operand with the tokens of the scope -/
theorem reduce_all (prev : Option Tok) :
    ∀ (pre : List Frame), (∀ f ∈ pre, f.reducible = true) → FramesOk pre → ∀ (top : Option Expr), ModeO pre top →
      (∀ e, top = some e → colonLu e = false) →
      (∀ e, top = some e → canonB e = true ∧ ∀ f, pre.head? = some f → f.accepts (rootPrec e) = true) →
      ∃ v, printToks v = scopeToks pre top ∧ colonLu v = false ∧ (pre = [] → top = some v) ∧ (pre ≠ [] → isTypeNode v = false) ∧
        canonB v = true ∧
        (∀ rest, applyAll prev (scopeOut pre top ++ rest) (scopeOps pre) = .ok (v :: rest)) ∧
        (∀ endOp rest opsRest, closeLoop endOp prev (scopeOut pre top ++ rest) (scopeOps pre ++ opsRest) =
          closeLoop endOp prev (v :: rest) opsRest) := by
  intro pre
  induction pre with
  | nil =>
    intro _ _ top hm hcl hcan
    rcases hm with ⟨h1, _⟩ | ⟨_, n, e, fs', h2⟩
    · obtain ⟨e, rfl⟩ := Option.isSome_iff_exists.mp h1
      exact ⟨e, by simp [scopeToks, topToks], hcl e rfl, fun _ => rfl, fun h => absurd rfl h, (hcan e rfl).1,
             by intro rest; simp [scopeOut, scopeOps, applyAll],
             by intro endOp rest opsRest; simp [scopeOut, scopeOps]⟩
    · simp at h2
  | cons f fs ih =>
    intro hred hok top hm hcl hcan
    have hr := hred f (by simp)
    obtain ⟨hps, _⟩ := frame_ty f (hok.ok f (by simp)) hr
    obtain ⟨r, hres⟩ := frame_result_some f hr top hm.cases
    have hm' : ModeO fs (some r) := Or.inl ⟨rfl, fun g hg => by
      cases fs with
      | nil => simp at hg
      | cons g' fs' => simp at hg; subst hg; exact hok.head_tail_notPost⟩
    have hrc : canonB r = true ∧ rootPrec r = f.lvl :=
      apply_frame_canon f (hok.ok f (by simp)) top r hres (hok.canon f (by simp)) (hok.fit f (by simp))
        (fun e he => ⟨(hcan e he).1, (hcan e he).2 f rfl⟩)
    have hcan' : ∀ e, some r = some e → canonB e = true ∧ ∀ g, fs.head? = some g → g.accepts (rootPrec e) = true := by
      intro e he
      simp at he; subst he
      refine ⟨hrc.1, ?_⟩
      intro g hg
      cases fs with
      | nil => simp at hg
      | cons g' fs' => simp at hg; subst hg; rw [hrc.2]; exact hok.head_accepts
    obtain ⟨v, hv1, hv2, hvn, hvt, hvc, hv3, hv4⟩ := ih (fun g hg => hred g (by simp [hg])) hok.tail (some r) hm'
      (fun e he => by simp at he; subst he; exact colonLu_result f (hok.ok f (by simp)) top r hres) hcan'
    refine ⟨v, ?toks, hv2, fun h => by simp at h, fun _ => ?ty, hvc, ?aall, ?cl⟩
    case ty =>
      by_cases hfs : fs = []
      · have := hvn hfs; simp at this; subst this
        exact typeNode_result f top r hres
      · exact hvt hfs
    case toks =>
      obtain ⟨_, htk⟩ := apply_frame f (hok.ok f (by simp)) top r hres prev []
      rw [hv1, scopeToks_cons, scopeToks_some, htk]; simp [List.append_assoc]
    case aall =>
      intro rest
      obtain ⟨happ, _⟩ := apply_frame f (hok.ok f (by simp)) top r hres prev (scopeOut fs none ++ rest)
      have : scopeOut (f :: fs) top ++ rest = top.toList ++ f.outs ++ (scopeOut fs none ++ rest) := by
        simp [scopeOut_cons, List.append_assoc]
      show applyAll prev (scopeOut (f :: fs) top ++ rest) (f.node :: scopeOps fs) = _
      rw [this, applyAll, happ]
      simp only
      have := hv3 rest
      rw [scopeOut_some] at this
      simpa using this
    case cl =>
      intro endOp rest opsRest
      obtain ⟨happ, _⟩ := apply_frame f (hok.ok f (by simp)) top r hres prev (scopeOut fs none ++ rest)
      have : scopeOut (f :: fs) top ++ rest = top.toList ++ f.outs ++ (scopeOut fs none ++ rest) := by
        simp [scopeOut_cons, List.append_assoc]
      show closeLoop endOp prev (scopeOut (f :: fs) top ++ rest) (f.node :: (scopeOps fs ++ opsRest)) = _
      rw [this, closeLoop]
      simp only [hps, Bool.false_eq_true, if_false, happ]
      have := hv4 endOp rest opsRest
      rw [scopeOut_some] at this
      simpa using this

end Occa.Expr
