/-
Device creation keeps the invariant; all operations; all histories.
-/
import OccaProofs.Lemmas.GcStep4

namespace Occa.Gc

theorem mkdev_core {s : St} (h : Inv s) {i : Nat} (hv : s.vlive (.user .dev i) = true) :
    Inv (assignTemp (newDevice s) (.user .dev i) .dev) := by
  -- the device object and the temporary device handle
  obtain ⟨r1, t1, nC, pC, vlC, alC, kdC⟩ := h.inv.new_dev (h.tmp .dev)
  generalize hsC : construct (s.alloc .dev none 0).1 (.cur s.next) = sC at *
  generalize hs3 : tempOf sC .dev s.next = s3 at *
  have a3N : s3.alive s.next = true := by rw [t1.alive, alC]; simp
  have k3N : s3.kind s.next = .dev := by rw [t1.kind, kdC]; simp
  have n3 : s3.next = s.next + 1 := by rw [t1.next, nC]
  have vl3 : ∀ w, w ≠ Var.tmp .dev → s3.vlive w = if w = Var.cur s.next then true else s.vlive w := by
    intro w hw; rw [t1.vlive w hw, vlC]
  -- its first stream, returned through a temporary stream handle
  obtain ⟨r2, t2, _, n5, vl5, _, al5, kd5⟩ := r1.new_child (K := .str) (ks := .str) (hk := .str) (dv := s.next)
    (by decide) (by decide) (by decide) rfl rfl a3N k3N
    (by rw [vl3 _ (by simp)]; simp; exact h.tmp .str) 0
  generalize hs5 : ((s3.alloc .str (some s.next) 0).1.chSet .str s.next
      (Ring.add ((s3.alloc .str (some s.next) 0).1.chGet .str s.next) s3.next)) = s5 at *
  generalize hs6 : tempOf s5 .str s3.next = s6 at *
  have hNn3 : s.next ≠ s3.next := by rw [n3]; omega
  have a6N : s6.alive s.next = true := by rw [t2.alive, al5]; simp [hNn3, a3N]
  have k6N : s6.kind s.next = .dev := by rw [t2.kind, kd5]; simp [hNn3, k3N]
  have vl6 : ∀ w, w ≠ Var.tmp .str → w ≠ Var.tmp .dev →
      s6.vlive w = if w = Var.cur s.next then true else s.vlive w := by
    intro w hw1 hw2; rw [t2.vlive w hw1, vl5, vl3 w hw2]
  -- setStream(s): currentStream = s; ~s
  obtain ⟨r3, f1, f2, f3, f4, f5⟩ := r2.assign_temp (v := .cur s.next) (k := .str)
    (by rw [vl6 _ (by simp) (by simp)]; simp)
    (by intro d hd; cases hd; exact ⟨a6N, k6N⟩) rfl
  have he : newDevice s = assignTemp s6 (.cur s.next) .str := by
    rw [← hs6, ← hs5, ← hs3, ← hsC]
    rfl
  rw [he]
  generalize assignTemp s6 (.cur s.next) .str = s7 at *
  have v7dev : s7.vlive (.tmp .dev) = true := by
    rw [f2 _ (by simp) (by intro d hd; cases hd), t2.vlive _ (by simp), vl5, t1.vlive_t]
  -- v = <temporary device>; ~temporary
  obtain ⟨r4, g1, g2, g3, g4, g5⟩ := r3.assign_temp (v := .user .dev i) (k := .dev)
    (by
      rw [f2 _ (by simp) (by intro d hd; cases hd), vl6 _ (by simp) (by simp)]
      simp; exact hv)
    (by intro d hd; cases hd) rfl
  have asub : ∀ t, (assignTemp s7 (.user .dev i) .dev).alive t = true →
      t = s.next ∨ t = s3.next ∨ s.alive t = true := by
    intro t ht
    have h6 : s6.alive t = true := f5 t (g5 t ht)
    rw [t2.alive, al5] at h6
    split at h6
    · rename_i e; exact Or.inr (Or.inl e)
    · rw [t1.alive, alC] at h6
      split at h6
      · rename_i e; exact Or.inl e
      · exact Or.inr (Or.inr h6)
  refine ⟨r4, ?_, ?_⟩
  · intro k
    by_cases hk1 : k = .dev
    · rw [hk1]; exact g1
    · have hne1 : Var.tmp k ≠ Var.tmp .dev := by intro e; cases e; exact hk1 rfl
      rw [g2 _ hne1 (by intro d hd; cases hd)]
      by_cases hk2 : k = .str
      · rw [hk2]; exact f1
      · have hne2 : Var.tmp k ≠ Var.tmp .str := by intro e; cases e; exact hk2 rfl
        rw [f2 _ hne2 (by intro d hd; cases hd), vl6 _ hne2 hne1]
        simp; exact h.tmp k
  · intro d hda hdk
    have hd7 : s7.alive d = true := g5 d hda
    rw [g2 _ (by simp) (by intro d' hd'; cases hd'; exact hda),
      f2 _ (by simp) (by intro d' hd'; cases hd'; exact hd7), vl6 _ (by simp) (by simp)]
    by_cases hdN : d = s.next
    · simp [hdN]
    · have hcd : Var.cur d ≠ Var.cur s.next := by intro e; cases e; exact hdN rfl
      simp only [hcd, if_false]
      rw [g3, f3, t2.kind, kd5] at hdk
      rcases asub d hda with e | e | e
      · exact absurd e hdN
      · simp [e] at hdk
      · have hd3 : d ≠ s3.next := by
          have := h.inv.alive_lt d e
          rw [n3]; omega
        simp only [hd3, if_false] at hdk
        rw [t1.kind, kdC] at hdk
        simp only [hdN, if_false] at hdk
        exact h.cur d e hdk

theorem step_mkdev {s : St} (h : Inv s) (i : Nat) : Inv (step s (.mkdev i)).1 := by
  simp only [step]
  split
  · exact h
  · rename_i hg
    have hg' : s.vlive (.user .dev i) = true := by simpa using hg
    exact mkdev_core h hg'

/-- every operation keeps the invariant -/
theorem step_inv {s : St} (h : Inv s) (op : Op) : Inv (step s op).1 := by
  cases op with
  | ctor k i => exact step_ctor h k i
  | copy k d a => exact step_copy h k d a
  | asg k d a => exact step_asg h k d a
  | swap k a b => exact step_swap h k a b
  | free k i => exact step_free h k i
  | drop k i => exact step_drop h k i
  | norefs k i => exact step_norefs h k i
  | mkdev i => exact step_mkdev h i
  | malloc m d n => exact step_malloc h m d n
  | slice m1 m2 off n => exact step_slice h m1 m2 off n
  | mkpool p d => exact step_mkpool h p d
  | reserve m p n => exact step_reserve h m p n
  | mkker k d => exact step_mkker h k d
  | mkstr st d => exact step_mkstr h st d
  | getstr st d => exact step_getstr h st d
  | setstr d st => exact step_setstr h d st
  | getdev d k i => exact step_getdev h d k i

theorem init_chGet (k : Kind) (d : Nat) : St.init.chGet k d = [] := by cases k <;> rfl

theorem init_inv : Inv St.init := by
  refine ⟨⟨⟨⟨rfl, ?_, ?_, ?_, ?_, ?_, ?_, ?_, ?_, ?_, ?_, ?_, ?_, ?_, ?_⟩, ?_, ?_⟩, ?_, ?_⟩, ?_, ?_⟩
  all_goals (intros; (try simp only [init_chGet] at *); (try simp [St.init] at *))

/-- the state after any list of operations from the initial state -/
def runFrom (s : St) (ops : List Op) : St := ops.foldl (fun s op => (step s op).1) s

theorem runFrom_inv {s : St} (h : Inv s) (ops : List Op) : Inv (runFrom s ops) := by
  induction ops generalizing s with
  | nil => exact h
  | cons op t ih => exact ih (step_inv h op)

theorem run_inv (ops : List Op) : Inv (run ops) := runFrom_inv init_inv ops

end Occa.Gc
