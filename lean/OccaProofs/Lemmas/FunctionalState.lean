/-
Helper lemmas for C23: views into buffers (St.read / St.write) and element-wise writes (mapInto).
-/
import OccaProofs.Lemmas.FunctionalLoops

namespace Occa.Functional

theorem listSetRange_length (xs ys : List Int) (off : Nat) (h : off + ys.length ≤ xs.length) :
    (listSetRange xs off ys).length = xs.length := by
  unfold listSetRange
  simp only [List.length_append, List.length_take, List.length_drop]
  omega

theorem listSetRange_read (xs ys : List Int) (off : Nat) (h : off + ys.length ≤ xs.length) :
    ((listSetRange xs off ys).drop off).take ys.length = ys := by
  unfold listSetRange
  have h1 : (xs.take off).length = off := by simp; omega
  rw [List.append_assoc, List.drop_left' h1, List.take_left' rfl]

/-- a view that lies inside an existing buffer -/
def InBounds (s : St) (a : Arr) : Prop :=
  a.buf < s.bufs.length ∧ a.off + a.len ≤ (s.bufs.getD a.buf []).length

theorem read_length (s : St) (a : Arr) (h : InBounds s a) : (s.read a).length = a.len := by
  unfold St.read
  simp only [List.length_take, List.length_drop]
  have := h.2
  omega

theorem getD_set_self (bufs : List (List Int)) (k : Nat) (v : List Int) (h : k < bufs.length) :
    (bufs.set k v).getD k [] = v := by
  simp [List.getD_eq_getElem?_getD, List.getElem?_set_self h]

theorem getD_set_ne (bufs : List (List Int)) (k j : Nat) (v : List Int) (h : k ≠ j) :
    (bufs.set k v).getD j [] = bufs.getD j [] := by
  simp [List.getD_eq_getElem?_getD, List.getElem?_set_ne h]

theorem read_write_same (s : St) (a : Arr) (ys : List Int) (h : InBounds s a) (hy : ys.length = a.len) :
    (s.write a ys).read a = ys := by
  unfold St.write St.read
  simp only
  rw [getD_set_self _ _ _ h.1]
  have e : ys.take a.len = ys := by rw [← hy]; exact List.take_length
  rw [e]
  have := listSetRange_read (s.bufs.getD a.buf []) ys a.off (by rw [hy]; exact h.2)
  rw [hy] at this
  exact this

theorem read_write_other (s : St) (a b : Arr) (ys : List Int) (hne : a.buf ≠ b.buf) :
    (s.write a ys).read b = s.read b := by
  unfold St.write St.read
  simp only
  rw [getD_set_ne _ _ _ _ hne]

theorem inBounds_write (s : St) (a b : Arr) (ys : List Int) (ha : InBounds s a) (hy : ys.length = a.len)
    (hb : InBounds s b) : InBounds (s.write a ys) b := by
  unfold InBounds St.write at *
  simp only [List.length_set]
  refine ⟨hb.1, ?_⟩
  by_cases e : a.buf = b.buf
  · rw [← e, getD_set_self _ _ _ ha.1]
    have e2 : ys.take a.len = ys := by rw [← hy]; exact List.take_length
    rw [e2, listSetRange_length _ _ _ (by rw [hy]; exact ha.2)]
    rw [e]; exact hb.2
  · rw [getD_set_ne _ _ _ _ e]; exact hb.2

/-- element `j` after a sequence of writes `l[i] := g i`: the last write wins, and all writes to `j` store `g j` -/
theorem foldl_set_getElem? (g : Nat → Int) (vis : List Nat) :
    ∀ (l : List Int) (j : Nat),
      (vis.foldl (fun l i => l.set i (g i)) l)[j]? =
        if j ∈ vis then (if j < l.length then some (g j) else none) else l[j]? := by
  induction vis with
  | nil => intro l j; simp
  | cons x t ih =>
    intro l j
    simp only [List.foldl_cons]
    rw [ih (l.set x (g x)) j]
    simp only [List.length_set, List.mem_cons]
    by_cases hjt : j ∈ t
    · simp [hjt]
    · simp only [hjt, if_false, or_false]
      by_cases hjx : j = x
      · subst hjx
        simp only [if_true]
        by_cases hl : j < l.length
        · simp [hl]
        · simp [hl]
      · rw [if_neg hjx]
        rw [List.getElem?_set_ne (fun h => hjx h.symm)]

theorem foldl_set_length (g : Nat → Int) (vis : List Nat) :
    ∀ l : List Int, (vis.foldl (fun l i => l.set i (g i)) l).length = l.length := by
  induction vis with
  | nil => intro l; rfl
  | cons x t ih => intro l; simp only [List.foldl_cons]; rw [ih]; simp

/-- writing `g i` at every index of a list gives `map g` over the indices -/
theorem foldl_set_range (g : Nat → Int) (l : List Int) :
    (List.range l.length).foldl (fun l i => l.set i (g i)) l = (List.range l.length).map g := by
  apply List.ext_getElem?
  intro j
  rw [foldl_set_getElem?]
  by_cases hj : j < l.length
  · simp [hj]
  · simp [hj]

end Occa.Functional

namespace Occa.Functional

/-- `mapInto` with input and output in different buffers: the input is never disturbed and the output
    receives the element-wise writes -/
theorem mapInto_read (src dst : Arr) (fn : List Int → Nat → Int) (hne : dst.buf ≠ src.buf) (vis : List Nat) :
    ∀ s : St, InBounds s dst →
      (mapInto s src dst vis fn).read dst = vis.foldl (fun l i => l.set i (fn (s.read src) i)) (s.read dst) ∧
      (mapInto s src dst vis fn).read src = s.read src ∧ InBounds (mapInto s src dst vis fn) dst := by
  induction vis with
  | nil => intro s hb; exact ⟨rfl, rfl, hb⟩
  | cons x t ih =>
    intro s hb
    unfold mapInto
    simp only [List.foldl_cons]
    by_cases hx : x < dst.len
    · rw [if_pos hx]
      have hlen : ((s.read dst).set x (fn (s.read src) x)).length = dst.len := by
        rw [List.length_set]; exact read_length s dst hb
      have hb' := inBounds_write s dst dst _ hb hlen hb
      have hsrc : (s.write dst ((s.read dst).set x (fn (s.read src) x))).read src = s.read src :=
        read_write_other s dst src _ hne
      have hdst := read_write_same s dst _ hb hlen
      obtain ⟨h1, h2, h3⟩ := ih _ hb'
      unfold mapInto at h1 h2 h3
      refine ⟨?_, ?_, h3⟩
      · rw [h1, hsrc, hdst]
      · rw [h2, hsrc]
    · rw [if_neg hx]
      obtain ⟨h1, h2, h3⟩ := ih s hb
      unfold mapInto at h1 h2 h3
      refine ⟨?_, h2, h3⟩
      rw [h1]
      have : (s.read dst).set x (fn (s.read src) x) = s.read dst := by
        apply List.set_eq_of_length_le
        rw [read_length s dst hb]; omega
      rw [this]

theorem alloc_props (s : St) (xs : List Int) :
    InBounds (s.alloc xs).1 (s.alloc xs).2 ∧ (s.alloc xs).2.buf = s.bufs.length ∧ (s.alloc xs).2.len = xs.length ∧
    (s.alloc xs).1.read (s.alloc xs).2 = xs ∧
    ∀ a : Arr, a.buf < s.bufs.length → (s.alloc xs).1.read a = s.read a := by
  unfold St.alloc InBounds St.read
  simp only [List.length_append, List.length_cons, List.length_nil]
  have hget : (s.bufs ++ [xs]).getD s.bufs.length [] = xs := by
    simp [List.getD_eq_getElem?_getD]
  refine ⟨⟨by omega, by rw [hget]; omega⟩, trivial, trivial, ?_, ?_⟩
  · rw [hget]; simp
  · intro a ha
    have : (s.bufs ++ [xs]).getD a.buf [] = s.bufs.getD a.buf [] := by
      simp [List.getD_eq_getElem?_getD, List.getElem?_append_left ha]
    rw [this]

theorem map_toNat_forVals (n : Nat) : (forVals 0 (n : Int) 1).map Int.toNat = List.range n := by
  rw [forVals_one]
  simp only [Int.sub_zero, Int.toNat_natCast, List.map_map]
  apply List.ext_getElem
  · simp
  · intro i h1 h2
    simp

end Occa.Functional
