/-
Creating calls: a new slice (`slice`, `reserve`), `malloc` (buffer + slice), a new device, the inner
buffer of a pool.
-/
import OccaProofs.Lemmas.GcOps3

namespace Occa.Gc

/-- pattern B: a new slice of an existing buffer or pool, returned through a temporary handle -/
theorem InvX.new_mem {s : St} (hi : InvX E s) {b : Nat} (hba : s.alive b = true)
    (hbk : s.kind b = .buf ∨ s.kind b = .pool) (hnin : ∀ p, s.alive p = true → s.inner p ≠ some b)
    (htl : s.vlive (.tmp .mem) = false) (sz : Nat) :
    let sA := (s.alloc .mem (some b) sz).1
    let sL := sA.setKids b (Ring.add (sA.kids b) s.next)
    InvX E (tempOf sL .mem s.next) ∧ TempOut sL (tempOf sL .mem s.next) .mem s.next
      ∧ NewObj s sL .mem (some b) := by
  intro sA sL
  obtain ⟨hL, hg, hn, hmem⟩ := mem_link hi.toInv00 hba hbk hnin sz
  have honly : ∀ c, s.next ≤ c → sL.alive c = true → c = s.next := by
    intro c hc hca
    have := hL.alive_lt c hca
    rw [hn.next] at this
    omega
  have hkN : sL.kind s.next = .mem := by rw [hn.kind]; simp
  obtain ⟨h0L, hrn, hbn⟩ := pos_all hi hg hL
    (by
      intro c hc hca _ hk2
      have := honly c hc hca
      subst this
      exact absurd hkN hk2)
    (by
      intro m hm hma _
      have := honly m hm hma
      subst this
      exact ⟨b, by rw [hn.par]; simp, hmem⟩)
    (by
      intro b' hb' hb'a hb'k
      have := honly b' hb' hb'a
      subst this
      rw [hkN] at hb'k; cases hb'k)
  have hrn' : ∀ x, x ≠ s.next → sL.alive x = true → sL.kind x ≠ .buf → sL.useRefs x = true → sL.ring x ≠ [] := by
    intro x hx hxa hxk hxu
    have hlt : x < s.next := by
      have := hL.alive_lt x hxa
      rw [hn.next] at this
      omega
    exact hrn x hlt hxa hxk hxu
  obtain ⟨r1, r2⟩ := attach_new (hk := .mem) (o := s.next) h0L hrn' hbn (by rw [hn.alive]; simp)
    (by rw [hkN]; rfl) (by rw [hn.vlive]; exact htl)
  exact ⟨r1, r2, hn⟩

/-- pattern E: the pool allocates its inner buffer (owned by the pool, in no ring of the device) -/
theorem InvX.new_inner {s : St} (hi : InvX E s) {pl : Nat} (hpa : s.alive pl = true)
    (hpk : s.kind pl = .pool) (hpn : s.inner pl = none) :
    let sA := (s.alloc .buf (s.par pl) 0).1
    let sI : St := { sA with inner := upd sA.inner pl (some s.next) }
    InvX E sI ∧ sI.next = s.next + 1 ∧ sI.vlive = s.vlive ∧ sI.ptr = s.ptr
      ∧ (∀ x, sI.alive x = if x = s.next then true else s.alive x)
      ∧ (∀ x, sI.kind x = if x = s.next then .buf else s.kind x)
      ∧ (∀ x, x ≠ s.next → sI.ring x = s.ring x ∧ sI.par x = s.par x) := by
  intro sA sI
  obtain ⟨a1, a2, a3, a4, a5, a6, a7, a8, a9, a10, a11⟩ := alloc_fields s .buf (s.par pl) 0
  obtain ⟨f1, f2, f3, f4, f5, f6, f7, f8⟩ := hi.toInv00.fresh (Nat.le_refl s.next)
  have hpln : pl ≠ s.next := by intro h; rw [h, f1] at hpa; cases hpa
  have hA : Inv00 E sA := hi.toInv00.alloc_only .buf (s.par pl) 0
  have hI : Inv00 E sI := by
    apply hA.link_inner (p := pl) (i := s.next) (by rw [a5]; simp [hpln, hpa]) (by rw [a6]; simp [hpln, hpk])
      (by rw [a11]; simp [hpln, hpn]) (by rw [a5]; simp) (by rw [a6]; simp) (by rw [a9]; simp)
      (by rw [a7, a7]; simp [hpln])
    · intro k d hx
      rw [alloc_chGet] at hx
      split at hx
      · simp at hx
      · exact f6 k d hx
    · intro q hqa hin
      rw [a11] at hin
      rw [a5] at hqa
      split at hin
      · cases hin
      · rename_i hq
        simp only [hq, if_false] at hqa
        exact f8 q hqa hin
  have hIalive : ∀ x, sI.alive x = if x = s.next then true else s.alive x := a5
  have hIkind : ∀ x, sI.kind x = if x = s.next then .buf else s.kind x := a6
  have hIinner : ∀ x, sI.inner x = if x = pl then some s.next else sA.inner x := fun x => rfl
  have hch : ∀ k d, sI.chGet k d = sA.chGet k d := by intro k d; cases k <;> rfl
  have hg : Grow s sI := by
    have ne : ∀ x, x < s.next → x ≠ s.next := fun x hx => by omega
    refine ⟨?_, ?_, ?_, ?_, ?_, ?_, ?_, ?_⟩
    · intro x hx; rw [hIalive]; simp [ne x hx]
    · intro x hx; rw [hIkind]; simp [ne x hx]
    · intro x hx; show sA.par x = _; rw [a7]; simp [ne x hx]
    · intro x hx; show sA.ring x = _; rw [a8]; simp [ne x hx]
    · intro x hx; show sA.useRefs x = _; rw [a10]; simp [ne x hx]
    · intro x i hx hin
      have hxp : x ≠ pl := by intro h; rw [h, hpn] at hin; cases hin
      rw [hIinner]; simp only [hxp, if_false]
      rw [a11]; simp [ne x hx, hin]
    · intro b x hx
      have hb : b ≠ s.next := by intro h; rw [h, f3] at hx; simp at hx
      show x ∈ sA.kids b
      rw [a9]; simp only [hb, if_false]; exact hx
    · intro k d x hx
      have hd : d ≠ s.next := by intro h; rw [h, f4 k] at hx; simp at hx
      rw [hch, alloc_chGet]; simp only [hd, if_false]; exact hx
  have honly : ∀ c, s.next ≤ c → sI.alive c = true → c = s.next := by
    intro c hc hca
    have := hI.alive_lt c hca
    have e : sI.next = s.next + 1 := a1
    rw [e] at this
    omega
  have hkN : sI.kind s.next = .buf := by rw [hIkind]; simp
  have hplI : sI.alive pl = true ∧ sI.inner pl = some s.next := by
    constructor
    · rw [hIalive]; simp [hpln, hpa]
    · rw [hIinner]; simp
  obtain ⟨h0I, hrn, hbn⟩ := pos_all hi hg hI
    (by
      intro c hc hca _ _
      have := honly c hc hca
      subst this
      have hkd : s.kind pl ≠ .dev := by rw [hpk]; decide
      have hkm : s.kind pl ≠ .mem := by rw [hpk]; decide
      obtain ⟨d, hd1, hd2, hd3, _⟩ := hi.ch_par pl hpa hkd hkm
      have hdn : d ≠ s.next := by intro h; rw [h, f1] at hd2; cases hd2
      refine ⟨d, ?_, by rw [hIalive]; simp [hdn, hd2], by rw [hIkind]; simp [hdn, hd3],
        Or.inr ⟨hkN, pl, hplI.1, hplI.2⟩⟩
      show sA.par s.next = some d
      rw [a7]; simp [hd1])
    (by
      intro m hm hma hmk
      have := honly m hm hma
      subst this
      rw [hkN] at hmk; cases hmk)
    (by
      intro b hb hba _
      have := honly b hb hba
      subst this
      exact Or.inr ⟨pl, hplI.1, hplI.2⟩)
  refine ⟨⟨h0I, ?_, hbn⟩, a1, a3, a2, hIalive, hIkind, ?_⟩
  · intro o hoa hok hou
    by_cases ho : o < s.next
    · exact Or.inl (hrn o ho hoa hok hou)
    · have := honly o (by omega) hoa
      subst this
      exact absurd hkN hok
  · intro x hx
    constructor
    · show sA.ring x = _; rw [a8]; simp [hx]
    · show sA.par x = _; rw [a7]; simp [hx]

end Occa.Gc
