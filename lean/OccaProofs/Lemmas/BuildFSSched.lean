/-
Any number of processes under any schedule (OccaModel.BuildFS.runSched):
  * rely/guarantee: every step of a disciplined process respects what the others rely on (`rely_of_guar`),
    so every process keeps its "will return normally with its artefacts" property (`SysInv`, `runSched_inv`);
  * the interleaved trace of every schedule obeys the global discipline (`local_to_global`, `AccInv`,
    `runSched_accepts`).
-/
import OccaProofs.Lemmas.BuildFSProgress
namespace Occa.BuildFS

/-! ### any number of processes, any schedule -/
section sched
variable {S : Spec}

/-- from `fs` the (remaining) program returns normally with `Q`, whatever Rely-respecting interference it meets -/
def Succ (S : Spec) (pid : Nat) (c : Config) (Q : Bool → FS → Prop) (m : Prog Bool) (fs : FS) : Prop :=
  ∀ es, EnvOK S c m es fs → ∃ a fs' t es', runE S pid m es fs = (some a, fs', t, es') ∧ Q a fs'

theorem succ_of_triple {pid : Nat} {c : Config} {E : Op → Prop} {A : FS → Prop} {Q : Bool → FS → Prop} {m : Prog Bool}
    (h : Triple S pid c E A m Q) {fs : FS} (hA : A fs) : Succ S pid c Q m fs := by
  intro es he
  obtain ⟨a, fs', t, es', h1, h2, _⟩ := h es fs he hA
  exact ⟨a, fs', t, es', h1, h2⟩

theorem succ_step {pid : Nat} {c : Config} {Q : Bool → FS → Prop} {o : Op} {k : Bool → Prog Bool} {fs : FS}
    (h : Succ S pid c Q (.act o k) fs) : Succ S pid c Q (k (result fs o)) (applyOp S fs o) := by
  intro es he
  have he' : EnvOK S c (.act o k) (id :: es) fs := ⟨Rely.refl c fs, he⟩
  obtain ⟨a, fs', t, es', h1, h2⟩ := h (id :: es) he'
  simp only [runE, List.headD_cons, List.tail_cons, id, Prod.mk.injEq] at h1
  obtain ⟨g1, g2, _, g4⟩ := h1
  refine ⟨a, fs', (runE S pid (k (result fs o)) es (applyOp S fs o)).2.2.1, es', ?_, h2⟩
  rw [← g1, ← g2, ← g4]

theorem succ_env {pid : Nat} {c : Config} {Q : Bool → FS → Prop} (hQ : ∀ a, Stable c (Q a)) {m : Prog Bool} {fs fs2 : FS}
    (h : Succ S pid c Q m fs) (hr : Rely c fs fs2) : Succ S pid c Q m fs2 := by
  cases m with
  | ret a =>
    intro es _
    obtain ⟨a', fs', t, es', h1, h2⟩ := h [] trivial
    simp only [runE, Prod.mk.injEq, Option.some.injEq] at h1
    obtain ⟨g1, g2, _, _⟩ := h1
    subst g1; subst g2
    exact ⟨a, fs2, [], es, rfl, hQ a _ _ hr h2⟩
  | fail =>
    obtain ⟨a', fs', t, es', h1, _⟩ := h [] trivial
    simp [runE] at h1
  | act o k =>
    intro es he
    obtain ⟨he1, he2⟩ := he
    let es' : List (FS → FS) := (fun _ => (es.headD id) fs2) :: es.tail
    have he' : EnvOK S c (.act o k) es' fs := ⟨hr.trans he1, he2⟩
    obtain ⟨a, fs', t, es'', h1, h2⟩ := h es' he'
    refine ⟨a, fs', t, es'', ?_, h2⟩
    simpa [runE, es'] using h1

theorem succ_fail {pid : Nat} {c : Config} {Q : Bool → FS → Prop} {fs : FS} : ¬ Succ S pid c Q .fail fs := by
  intro h
  obtain ⟨a', fs', t, es', h1, _⟩ := h [] trivial
  simp [runE] at h1

theorem succ_ret {pid : Nat} {c : Config} {Q : Bool → FS → Prop} {fs : FS} {a : Bool} (h : Succ S pid c Q (.ret a) fs) : Q a fs := by
  obtain ⟨a', fs', t, es', h1, h2⟩ := h [] trivial
  simp only [runE, Prod.mk.injEq, Option.some.injEq] at h1
  obtain ⟨g1, g2, _, _⟩ := h1
  subst g1; subst g2
  exact h2

/-- a step of a process that writes only to its own temp names (and to final names by rename) and is not
    an rmrf respects what every other process relies on -/
theorem foldl_setFile_files_ne (f : Path → Option File) :
    ∀ (outs : List Path) (fs : FS) (q : Path), q ∉ outs → (outs.foldl (fun acc o => acc.setFile o (f o)) fs).files q = fs.files q := by
  intro outs
  induction outs with
  | nil => intro fs q _; rfl
  | cons o r ih =>
    intro fs q hq
    simp only [List.foldl_cons]
    rw [ih _ _ (fun h => hq (List.mem_cons_of_mem _ h))]
    exact setFile_files_ne _ _ _ _ (fun h => hq (h ▸ List.mem_cons_self ..))

theorem rely_of_guar {ci cj : Config} (hd : ∀ x, IsTok ci x → ¬ IsTok cj x) (o : Op) (fs : FS)
    (ht : touchedOK (IsTok ci) o) (hr : isRmrf o = false) : Rely cj fs (applyOp S fs o) := by
  have key : ∀ (p : Path), IsTok ci p → ∀ q i, q.tmp = some (cj.toks i) → q ≠ p := by
    intro p hp q i hq e
    exact hd p hp ⟨i, e ▸ hq⟩
  cases o with
  | rmrf d => cases hr
  | statDir d => exact Rely.refl _ _
  | mkdir d => exact ⟨fun _ _ h => h, fun _ _ _ => rfl⟩
  | fsync q => exact Rely.refl _ _
  | fsyncDir d => exact Rely.refl _ _
  | stat q => exact Rely.refl _ _
  | openRead q => exact Rely.refl _ _
  | run q => exact Rely.refl _ _
  | creat p =>
    refine ⟨fun q _ h => present_creat fs p q (Or.inl h), fun q i hq => ?_⟩
    exact setFile_files_ne _ _ _ _ (key p ht q i hq)
  | append p bs =>
    refine ⟨fun q _ h => present_append fs p q bs h, fun q i hq => ?_⟩
    simp only [applyOp]
    split
    · exact setFile_files_ne _ _ _ _ (key p ht q i hq)
    · rfl
  | close p =>
    refine ⟨fun q _ h => present_close fs p q h, fun q i hq => ?_⟩
    simp only [applyOp]
    split
    · exact setFile_files_ne _ _ _ _ (key p ht q i hq)
    · rfl
  | rename a b =>
    obtain ⟨ha, hb⟩ := ht
    have hat : a.tmp ≠ none := by
      obtain ⟨i, hi⟩ := ha
      rw [hi]; exact fun h => by cases h
    constructor
    · intro q hq h
      simp only [applyOp]
      cases hfa : fs.files a with
      | none => exact h
      | some f =>
        simp only
        have hne : q ≠ a := fun e => hat (e ▸ hq)
        rw [present_setFile]
        simp only [hne, if_false, present_setFile]
        split
        · rfl
        · exact h
    · intro q i hq
      simp only [applyOp]
      cases hfa : fs.files a with
      | none => rfl
      | some f =>
        simp only
        have h1 : q ≠ a := key a ha q i hq
        have h2 : q ≠ b := fun e => by rw [e, hb] at hq; cases hq
        rw [setFile_files_ne _ _ _ _ h1, setFile_files_ne _ _ _ _ h2]
  | exec src outs =>
    constructor
    · intro q _ h
      simp only [applyOp]
      cases hfs : fs.files src with
      | none => exact h
      | some f => exact foldl_setFile_present (fun o => some ⟨S.compile o.base f.bytes, true⟩) (fun _ => rfl) outs fs q (Or.inr h)
    · intro q i hq
      simp only [applyOp]
      cases hfs : fs.files src with
      | none => rfl
      | some f =>
        simp only
        apply foldl_setFile_files_ne
        intro hmem
        exact key q (ht q hmem) q i hq rfl

/-- what each step of process `i` guarantees to the others -/
def GuarOf (c : Config) : Op → Prop := fun o => touchedOK (IsTok c) o ∧ (isRmrf o = true → c.parseOk = false)

/-- the goal of process `i`: it returns the kernel, and every artefact a later build needs is in place -/
def GoalOf (c : Config) : Bool → FS → Prop := fun r fs => r = true ∧ Pr (needed c) fs

theorem GoalOf_stable (c : Config) (a : Bool) : Stable c (GoalOf c a) :=
  Stable.and_const _ (Pr_stable (needed_fin c).allMine)

structure SysInv (S : Spec) (cfgs : Nat → Config) (ps : Nat → Prog Bool) (fs : FS) : Prop where
  succ : ∀ i, Succ S i (cfgs i) (GoalOf (cfgs i)) (ps i) fs
  guar : ∀ i, Guar (GuarOf (cfgs i)) (ps i)

theorem tick_inv {cfgs : Nat → Config} (hpo : ∀ i, (cfgs i).parseOk = true)
    (hd : ∀ i j, i ≠ j → ∀ x, IsTok (cfgs i) x → ¬ IsTok (cfgs j) x)
    (i : Nat) (ps : Nat → Prog Bool) (fs : FS) (h : SysInv S cfgs ps fs) :
    SysInv S cfgs (tick S i ps fs).1 (tick S i ps fs).2.1 := by
  unfold tick
  cases hpi : ps i with
  | ret a => exact h
  | fail => exact h
  | act o k =>
    simp only
    have hg := h.guar i
    rw [hpi] at hg
    obtain ⟨⟨ht, hrm⟩, hgk⟩ := hg
    have hnr : isRmrf o = false := by
      cases hr : isRmrf o with
      | false => rfl
      | true => have := hrm hr; rw [hpo i] at this; cases this
    constructor
    · intro j
      by_cases hji : j = i
      · subst hji
        simp only [if_true]
        have := h.succ j
        rw [hpi] at this
        exact succ_step this
      · simp only [hji, if_false]
        exact succ_env (GoalOf_stable (cfgs j)) (h.succ j) (rely_of_guar (hd i j (Ne.symm hji)) o fs ht hnr)
    · intro j
      by_cases hji : j = i
      · subst hji; simp only [if_true]; exact hgk _
      · simp only [hji, if_false]; exact h.guar j

theorem runSched_inv {cfgs : Nat → Config} (hpo : ∀ i, (cfgs i).parseOk = true)
    (hd : ∀ i j, i ≠ j → ∀ x, IsTok (cfgs i) x → ¬ IsTok (cfgs j) x) :
    ∀ (sch : List Nat) (ps : Nat → Prog Bool) (fs : FS), SysInv S cfgs ps fs →
      SysInv S cfgs (runSched S sch ps fs).1 (runSched S sch ps fs).2.1 := by
  intro sch
  induction sch with
  | nil => intro ps fs h; exact h
  | cons i sch ih =>
    intro ps fs h
    simp only [runSched]
    exact ih _ _ (tick_inv hpo hd i ps fs h)


/-! ### the interleaved trace of any schedule obeys the discipline -/

/-- the part of the global bookkeeping that belongs to process `i` -/
def proj (st : AS) (i : Nat) : AS := fun q =>
  match st q with
  | some (o, ts) => if o = i then some (o, ts) else none
  | none => none

def created : Op → List Path
  | .creat p => [p]
  | .exec _ outs => outs
  | _ => []

theorem proj_some {st : AS} {i : Nat} {q : Path} {o : Nat} {ts : TS} (h : proj st i q = some (o, ts)) :
    st q = some (i, ts) ∧ o = i := by
  unfold proj at h
  split at h
  · rename_i o' ts' hst
    split at h
    · rename_i ho
      cases h
      exact ⟨by rw [hst, ho], ho⟩
    · cases h
  · cases h

theorem proj_of_own {st : AS} {i : Nat} {q : Path} {ts : TS} (h : st q = some (i, ts)) : proj st i q = some (i, ts) := by
  simp [proj, h]

theorem proj_of_other {st : AS} {i j : Nat} {q : Path} {ts : TS} (h : st q = some (j, ts)) (hji : j ≠ i) : proj st i q = none := by
  simp [proj, h, hji]

theorem proj_of_none {st : AS} {i : Nat} {q : Path} (h : st q = none) : proj st i q = none := by
  simp [proj, h]

theorem proj_set_self (st : AS) (i : Nat) (p : Path) (ts : TS) : proj (st.set p (i, ts)) i = (proj st i).set p (i, ts) := by
  funext q
  by_cases hq : q = p
  · subst hq; simp [proj, AS.set]
  · simp [proj, AS.set, hq]

theorem proj_set_other (st : AS) (i j : Nat) (p : Path) (ts : TS) (hji : j ≠ i) (hn : proj st j p = none) :
    proj (st.set p (i, ts)) j = proj st j := by
  funext q
  by_cases hq : q = p
  · subst hq
    rw [hn]
    simp [proj, AS.set, Ne.symm hji]
  · simp [proj, AS.set, hq]

theorem ownedClosed_proj (st : AS) (i : Nat) (p : Path) : ownedClosed (proj st i) i p = ownedClosed st i p := by
  unfold ownedClosed proj
  cases h : st p with
  | none => rfl
  | some v =>
    obtain ⟨o, ts⟩ := v
    by_cases ho : o = i
    · subst ho; simp
    · cases ts <;> simp [ho]

theorem owned_proj (st : AS) (i : Nat) (p : Path) : owned (proj st i) i p = owned st i p := by
  unfold owned proj
  cases h : st p with
  | none => rfl
  | some v =>
    obtain ⟨o, ts⟩ := v
    by_cases ho : o = i
    · subst ho; simp
    · simp [ho]

/-- the result of the global step: process `i`'s view advanced as in its local run, the others' views
    untouched, and every new entry belongs to `i` and is one of the names the step creates -/
structure Lifted (st st' : AS) (i : Nat) (o : Op) (s1 : AS) : Prop where
  mine : proj st' i = s1
  others : ∀ j, j ≠ i → proj st' j = proj st j
  entries : ∀ q j ts, st' q = some (j, ts) → (∃ ts', st q = some (j, ts')) ∨ (j = i ∧ q ∈ created o)

theorem Lifted.same (st : AS) (i : Nat) (o : Op) : Lifted st st i o (proj st i) :=
  ⟨rfl, fun _ _ => rfl, fun _ j ts h => Or.inl ⟨ts, h⟩⟩

theorem lifted_set {st : AS} {i : Nat} {o : Op} {p : Path} {ts : TS} (hown : (∃ ts0, st p = some (i, ts0)) ∨ (st p = none ∧ p ∈ created o)) :
    Lifted st (st.set p (i, ts)) i o ((proj st i).set p (i, ts)) := by
  refine ⟨proj_set_self st i p ts, ?_, ?_⟩
  · intro j hji
    apply proj_set_other st i j p ts hji
    rcases hown with ⟨ts0, h⟩ | ⟨h, _⟩
    · exact proj_of_other h (Ne.symm hji)
    · exact proj_of_none h
  · intro q j ts' h
    by_cases hq : q = p
    · subst hq
      rw [AS.set_same] at h
      cases h
      rcases hown with ⟨ts0, h0⟩ | ⟨_, h0⟩
      · exact Or.inl ⟨ts0, h0⟩
      · exact Or.inr ⟨rfl, h0⟩
    · rw [AS.set_ne _ _ _ _ hq] at h
      exact Or.inl ⟨ts', h⟩

theorem execOuts_lift (i : Nat) (src : Path) : ∀ (outs : List Path) (st : AS) (s1 : AS),
    execOuts S (proj st i) i src outs = some s1 →
    (∀ p ∈ outs, ∀ j ts, st p = some (j, ts) → j = i) →
    ∃ st', execOuts S st i src outs = some st' ∧ proj st' i = s1 ∧ (∀ j, j ≠ i → proj st' j = proj st j) ∧
      (∀ q j ts, st' q = some (j, ts) → (∃ ts', st q = some (j, ts')) ∨ (j = i ∧ q ∈ outs)) := by
  intro outs
  induction outs with
  | nil =>
    intro st s1 h _
    simp only [execOuts, Option.some.injEq] at h
    exact ⟨st, rfl, h, fun _ _ => rfl, fun _ j ts h => Or.inl ⟨ts, h⟩⟩
  | cons o r ih =>
    intro st s1 h hc
    simp only [execOuts] at h
    split at h
    · rename_i hcond
      simp only [Bool.and_eq_true, decide_eq_true_eq, Option.isNone_iff_eq_none] at hcond
      obtain ⟨⟨⟨ht, hnone⟩, hd⟩, hr⟩ := hcond
      have hst : st o = none := by
        cases hso : st o with
        | none => rfl
        | some v =>
          obtain ⟨j, ts⟩ := v
          have := hc o (List.mem_cons_self ..) j ts hso
          subst this
          rw [proj_of_own hso] at hnone
          cases hnone
      rw [← proj_set_self] at h
      obtain ⟨st', g1, g2, g3, g4⟩ := ih (st.set o (i, .compiled)) s1 h (by
        intro p hp j ts hps
        by_cases hpo : p = o
        · subst hpo; rw [AS.set_same] at hps; cases hps; rfl
        · rw [AS.set_ne _ _ _ _ hpo] at hps
          exact hc p (List.mem_cons_of_mem _ hp) j ts hps)
      refine ⟨st', ?_, g2, ?_, ?_⟩
      · simp only [execOuts, ht, hst, hd, hr, Option.isNone_none, Bool.and_self, decide_true, if_true]
        exact g1
      · intro j hji
        rw [g3 j hji]
        exact proj_set_other st i j o _ hji (proj_of_none hst)
      · intro q j ts hq
        rcases g4 q j ts hq with ⟨ts', h'⟩ | ⟨hj, hm⟩
        · by_cases hqo : q = o
          · subst hqo
            rw [AS.set_same] at h'
            cases h'
            exact Or.inr ⟨rfl, List.mem_cons_self ..⟩
          · rw [AS.set_ne _ _ _ _ hqo] at h'
            exact Or.inl ⟨ts', h'⟩
        · exact Or.inr ⟨hj, List.mem_cons_of_mem _ hm⟩
    · cases h

theorem local_to_global (st : AS) (i : Nat) (o : Op) (r : Bool) (s1 : AS)
    (hl : acceptStep S (proj st i) ⟨i, o, r⟩ = some s1)
    (hc : ∀ p ∈ created o, ∀ j ts, st p = some (j, ts) → j = i) :
    ∃ st', acceptStep S st ⟨i, o, r⟩ = some st' ∧ Lifted st st' i o s1 := by
  cases o with
  | statDir d => simp only [acceptStep, Option.some.injEq] at hl; subst hl; exact ⟨st, rfl, Lifted.same ..⟩
  | mkdir d => simp only [acceptStep, Option.some.injEq] at hl; subst hl; exact ⟨st, rfl, Lifted.same ..⟩
  | fsyncDir d => simp only [acceptStep, Option.some.injEq] at hl; subst hl; exact ⟨st, rfl, Lifted.same ..⟩
  | rmrf d => simp only [acceptStep, Option.some.injEq] at hl; subst hl; exact ⟨st, rfl, Lifted.same ..⟩
  | run p =>
    simp only [acceptStep] at hl ⊢
    split at hl
    · rename_i h; cases hl; exact ⟨st, by simp [h], Lifted.same ..⟩
    · cases hl
  | fsync p =>
    simp only [acceptStep, ownedClosed_proj] at hl ⊢
    split at hl
    · rename_i h; cases hl; exact ⟨st, by simp only [h, if_true], Lifted.same ..⟩
    · cases hl
  | openRead p =>
    simp only [acceptStep, ownedClosed_proj] at hl ⊢
    split at hl
    · rename_i h; cases hl; exact ⟨st, by simp only [h, if_true], Lifted.same ..⟩
    · cases hl
  | stat p =>
    simp only [acceptStep, owned_proj] at hl ⊢
    split at hl
    · rename_i h; cases hl; exact ⟨st, by simp only [h, if_true], Lifted.same ..⟩
    · cases hl
  | creat p =>
    simp only [acceptStep] at hl ⊢
    split at hl
    · rename_i h
      simp only [Bool.and_eq_true, Option.isNone_iff_eq_none] at h
      cases hl
      have hst : st p = none := by
        cases hso : st p with
        | none => rfl
        | some v =>
          obtain ⟨j, ts⟩ := v
          have := hc p (by simp [created]) j ts hso
          subst this
          rw [proj_of_own hso] at h
          cases h.2
      refine ⟨st.set p (i, .opened []), by simp [h.1, hst], ?_⟩
      exact lifted_set (Or.inr ⟨hst, by simp [created]⟩)
    · cases hl
  | append p bs =>
    simp only [acceptStep] at hl ⊢
    split at hl
    · rename_i o' cur hst
      split at hl
      · rename_i ho
        cases hl
        obtain ⟨h1, h2⟩ := proj_some hst
        subst h2
        refine ⟨st.set p (o', .opened (cur ++ bs)), by simp [h1], ?_⟩
        exact lifted_set (Or.inl ⟨_, h1⟩)
      · cases hl
    · cases hl
  | close p =>
    simp only [acceptStep] at hl ⊢
    split at hl
    · rename_i o' cur hst
      split at hl
      · rename_i ho
        cases hl
        obtain ⟨h1, h2⟩ := proj_some hst
        subst h2
        refine ⟨st.set p (o', .closedW cur), by simp [h1], ?_⟩
        exact lifted_set (Or.inl ⟨_, h1⟩)
      · cases hl
    · cases hl
  | rename a b =>
    simp only [acceptStep] at hl ⊢
    split at hl
    · rename_i hcond
      simp only [hcond, if_true]
      split at hl
      · rename_i o' bs hst
        split at hl
        · rename_i hv
          cases hl
          obtain ⟨h1, h2⟩ := proj_some hst
          subst h2
          simp only [Bool.and_eq_true, decide_eq_true_eq] at hv
          refine ⟨st.set a (o', .gone), by simp [h1, hv.2], ?_⟩
          exact lifted_set (Or.inl ⟨_, h1⟩)
        · cases hl
      · rename_i o' hst
        split at hl
        · rename_i hv
          cases hl
          obtain ⟨h1, h2⟩ := proj_some hst
          subst h2
          refine ⟨st.set a (o', .gone), by simp [h1], ?_⟩
          exact lifted_set (Or.inl ⟨_, h1⟩)
        · cases hl
      · cases hl
    · cases hl
  | exec src outs =>
    simp only [acceptStep] at hl ⊢
    split at hl
    · rename_i hsrc
      simp only [hsrc, if_true]
      obtain ⟨st', g1, g2, g3, g4⟩ := execOuts_lift (S := S) i src outs st s1 hl (by simpa [created] using hc)
      exact ⟨st', g1, g2, g3, by simpa [created] using g4⟩
    · cases hl


theorem proj_empty (i : Nat) : proj AS.empty i = AS.empty := by
  funext q; simp [proj, AS.empty]

/-- the invariant that makes the interleaved trace of a schedule acceptable: every process is, in its own
    view of the bookkeeping, still a disciplined program, and every used temp name carries a token of its owner -/
structure AccInv (S : Spec) (cfgs : Nat → Config) (ps : Nat → Prog Bool) (st : AS) : Prop where
  safe : ∀ i, Safe S i (IsTok (cfgs i)) ((cfgs i).parseOk = false) (ps i) (proj st i) (fun _ _ => True)
  owner : ∀ q j ts, st q = some (j, ts) → IsTok (cfgs j) q

theorem touchedOK_created {P : Path → Prop} {o : Op} (h : touchedOK P o) : ∀ x ∈ created o, P x := by
  cases o <;> simp [created] <;> exact h

/-- facts about a trace produced by disciplined programs of parsing configurations -/
def TraceOK (cfgs : Nat → Config) (t : Trace) : Prop :=
  ∀ e ∈ t, isRmrf e.op = false ∧ ∀ x ∈ execOutsOf e.op, IsTok (cfgs e.pid) x

theorem tick_accepts {cfgs : Nat → Config} (hpo : ∀ i, (cfgs i).parseOk = true)
    (hd : ∀ i j, i ≠ j → ∀ x, IsTok (cfgs i) x → ¬ IsTok (cfgs j) x)
    (i : Nat) (ps : Nat → Prog Bool) (fs : FS) (st : AS) (h : AccInv S cfgs ps st) :
    ∃ st', acceptsFrom S st (tick S i ps fs).2.2 = some st' ∧ AccInv S cfgs (tick S i ps fs).1 st' ∧
      TraceOK cfgs (tick S i ps fs).2.2 := by
  unfold tick
  cases hpi : ps i with
  | ret a => exact ⟨st, rfl, h, fun _ he => by cases he⟩
  | fail => exact ⟨st, rfl, h, fun _ he => by cases he⟩
  | act o k =>
    simp only
    have hs := h.safe i
    rw [hpi] at hs
    obtain ⟨ht, hrm, s1, hacc, hk⟩ := hs
    have hnr : isRmrf o = false := by
      cases hr : isRmrf o with
      | false => rfl
      | true => have := hrm hr; rw [hpo i] at this; cases this
    have hc : ∀ p ∈ created o, ∀ j ts, st p = some (j, ts) → j = i := by
      intro p hp j ts hst
      by_cases hji : j = i
      · exact hji
      · exact absurd (touchedOK_created ht p hp) (hd j i hji p (h.owner p j ts hst))
    rw [acceptStep_res S (proj st i) i o true (result fs o)] at hacc
    obtain ⟨st', g1, g2⟩ := local_to_global st i o (result fs o) s1 hacc hc
    refine ⟨st', by simp [acceptsFrom, g1], ⟨?_, ?_⟩, ?_⟩
    · intro j
      by_cases hji : j = i
      · subst hji
        simp only [if_true]
        rw [g2.mine]
        exact hk _
      · simp only [hji, if_false]
        rw [g2.others j hji]
        exact h.safe j
    · intro q j ts hq
      rcases g2.entries q j ts hq with ⟨ts', h'⟩ | ⟨hj, hm⟩
      · exact h.owner q j ts' h'
      · subst hj; exact touchedOK_created ht q hm
    · intro e he
      simp only [List.mem_singleton] at he
      subst he
      exact ⟨hnr, touchedOK_outs ht⟩

theorem runSched_accepts {cfgs : Nat → Config} (hpo : ∀ i, (cfgs i).parseOk = true)
    (hd : ∀ i j, i ≠ j → ∀ x, IsTok (cfgs i) x → ¬ IsTok (cfgs j) x) :
    ∀ (sch : List Nat) (ps : Nat → Prog Bool) (fs : FS) (st : AS), AccInv S cfgs ps st →
      ∃ st', acceptsFrom S st (runSched S sch ps fs).2.2 = some st' ∧ AccInv S cfgs (runSched S sch ps fs).1 st' ∧
        TraceOK cfgs (runSched S sch ps fs).2.2 := by
  intro sch
  induction sch with
  | nil => intro ps fs st h; exact ⟨st, rfl, h, fun _ he => by cases he⟩
  | cons i sch ih =>
    intro ps fs st h
    obtain ⟨st1, a1, h1, t1⟩ := tick_accepts hpo hd i ps fs st h
    obtain ⟨st2, a2, h2, t2⟩ := ih (tick S i ps fs).1 (tick S i ps fs).2.1 st1 h1
    refine ⟨st2, ?_, h2, ?_⟩
    · simp only [runSched]
      rw [acceptsFrom_append, a1]
      exact a2
    · intro e he
      simp only [runSched] at he
      rcases List.mem_append.1 he with h' | h'
      · exact t1 e h'
      · exact t2 e h'

/-- the file system a schedule ends in is the one its trace produces -/
theorem runSched_apply : ∀ (sch : List Nat) (ps : Nat → Prog Bool) (fs : FS),
    (runSched S sch ps fs).2.1 = apply S (runSched S sch ps fs).2.2 fs := by
  intro sch
  induction sch with
  | nil => intro ps fs; rfl
  | cons i sch ih =>
    intro ps fs
    simp only [runSched, apply_append]
    rw [ih]
    congr 1
    unfold tick
    cases ps i <;> rfl

/-! ### interleaving of traces that are accepted process by process -/

/-- the names the steps of different processes create are different, and none of them is already owned by
    another process ("temp names of different processes are distinct") -/
def CreatedDisjoint (st : AS) (t : Trace) : Prop :=
  ∀ e ∈ t, ∀ p ∈ created e.op,
    (∀ j ts, st p = some (j, ts) → j = e.pid) ∧ (∀ e' ∈ t, e'.pid ≠ e.pid → p ∉ created e'.op)

theorem filter_pid_cons_same (e : Ev) (t : Trace) :
    (e :: t).filter (fun x => x.pid == e.pid) = e :: t.filter (fun x => x.pid == e.pid) := by
  simp [List.filter_cons]

theorem filter_pid_cons_other (e : Ev) (t : Trace) (j : Nat) (h : j ≠ e.pid) :
    (e :: t).filter (fun x => x.pid == j) = t.filter (fun x => x.pid == j) := by
  have : (e.pid == j) = false := by simp [Ne.symm h]
  simp [List.filter_cons, this]

/-- Interleaving: if the steps of every single process, taken alone, obey the discipline in that process's
    own view of the bookkeeping, and the processes create pairwise distinct names, then the interleaved trace
    obeys the (global) discipline. -/
theorem accepts_interleave : ∀ (t : Trace) (st : AS),
    (∀ i, (acceptsFrom S (proj st i) (t.filter (fun x => x.pid == i))).isSome = true) →
    CreatedDisjoint st t → (acceptsFrom S st t).isSome = true := by
  intro t
  induction t with
  | nil => intro st _ _; rfl
  | cons e t ih =>
    intro st hloc hdis
    have hl := hloc e.pid
    rw [filter_pid_cons_same] at hl
    simp only [acceptsFrom] at hl
    cases hs : acceptStep S (proj st e.pid) e with
    | none => rw [hs] at hl; cases hl
    | some s1 =>
      rw [hs] at hl
      have hs' : acceptStep S (proj st e.pid) ⟨e.pid, e.op, e.res⟩ = some s1 := hs
      obtain ⟨st', g1, g2⟩ := local_to_global st e.pid e.op e.res s1 hs'
        (fun p hp j ts hst => (hdis e (List.mem_cons_self ..) p hp).1 j ts hst)
      have g1' : acceptStep S st e = some st' := g1
      simp only [acceptsFrom, g1']
      apply ih st'
      · intro j
        by_cases hj : j = e.pid
        · subst hj
          rw [g2.mine]; exact hl
        · rw [g2.others j hj]
          have := hloc j
          rw [filter_pid_cons_other e t j hj] at this
          exact this
      · intro e2 he2 p hp
        refine ⟨?_, fun e' he' hne => (hdis e2 (List.mem_cons_of_mem _ he2) p hp).2 e' (List.mem_cons_of_mem _ he') hne⟩
        intro j ts hst
        rcases g2.entries p j ts hst with ⟨ts', h'⟩ | ⟨hj, hm⟩
        · exact (hdis e2 (List.mem_cons_of_mem _ he2) p hp).1 j ts' h'
        · subst hj
          by_cases hpe : e2.pid = e.pid
          · exact hpe.symm
          · exact absurd hp ((hdis e (List.mem_cons_self ..) p hm).2 e2 (List.mem_cons_of_mem _ he2) hpe)


/-- one accepted step other than `rmrf` never removes a final-named file -/
theorem step_keeps_finals (S : Spec) (st st' : AS) (e : Ev) (fs : FS) (ha : acceptStep S st e = some st')
    (hr : (match e.op with | .rmrf _ => false | _ => true) = true) (p : Path) (hp : p.tmp = none)
    (h : fs.present p = true) : (applyOp S fs e.op).present p = true := by
  obtain ⟨pid, op, res⟩ := e
  cases op with
  | rmrf d => cases hr
  | statDir d => exact h
  | mkdir d => exact h
  | fsync q => exact h
  | fsyncDir d => exact h
  | stat q => exact h
  | openRead q => exact h
  | run q => exact h
  | creat q => exact present_creat fs q p (Or.inl h)
  | append q bs => exact present_append fs q p bs h
  | close q => exact present_close fs q p h
  | rename a b =>
    simp only [acceptStep] at ha
    split at ha
    · rename_i hc
      simp only [Bool.and_eq_true, Bool.not_eq_true', decide_eq_true_eq] at hc
      have hat : a.isTemp = true := hc.1.1
      have hne : p ≠ a := ne_of_temp_final hat hp
      simp only [applyOp]
      cases hfa : fs.files a with
      | none => exact h
      | some f =>
        simp only
        rw [present_setFile]
        simp only [hne, if_false, present_setFile]
        split
        · rfl
        · exact h
    · cases ha
  | exec src outs =>
    simp only [applyOp]
    cases hfs : fs.files src with
    | none => exact h
    | some f =>
      exact foldl_setFile_present (fun o => some ⟨S.compile o.base f.bytes, true⟩) (fun _ => rfl) outs fs p (Or.inr h)


end sched
end Occa.BuildFS
