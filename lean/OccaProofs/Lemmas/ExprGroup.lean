/-
Helper lemmas for C17 / C18 / C19, expression level:
  * the trees built by the translators evaluate to the numeric model (`…_value`);
  * `Grouped e`: printing `e` in-order without adding parentheses (what the occa printer does) yields a
    text whose reading under the operator precedence table is `e` again.  The table is the one
    regenerated from /repo's operator.cpp (OccaGen/LoopTables.lean); `occa_prec_is_cxx` checks that it
    is the C++ grammar's (the emitted text is read by a C++/OpenCL/Metal compiler, not by occa).
-/
import OccaModel.LoopExpr
import OccaGen.LoopTables

namespace Occa.LoopExpr
open Occa Occa.Loop

def lookup (t : List (String × Nat)) (op : String) : Nat :=
  match t.find? (fun r => r.1 == op) with
  | some (_, p) => p
  | none => 0

/-- the C++ grammar's levels (cppreference numbering, smaller binds tighter) for the operand language -/
def cxxBinary : List (String × Nat) :=
  [("+", 6), ("-", 6), ("*", 5), ("/", 5), ("%", 5), ("<<", 7), (">>", 7), ("<", 9), ("<=", 9), (">", 9), (">=", 9),
   ("==", 10), ("!=", 10), ("&", 11), ("^", 12), ("|", 13), ("&&", 14), ("||", 15)]

/-- tie T: the table the translators were built with is the C++ one -/
theorem occa_prec_is_cxx :
    Gen.binaryPrec = cxxBinary ∧ Gen.ternaryPrec = 16 ∧ Gen.castPrec = 3 ∧
    Gen.unaryPrec = [("!", 3), ("+", 3), ("-", 3), ("~", 3), ("&", 3)] := by
  decide

/-- precedence number of the top-level node as the reader of the printed text sees it -/
def prec : Expr → Nat
  | .var _ => 0
  | .lit v => if v < 0 then 3 else 0      -- a negative literal prints as `-3`
  | .paren _ => 0
  | .sub _ _ => 2
  | .cast _ => Gen.castPrec
  | .un op _ => lookup Gen.unaryPrec op
  | .bin op _ _ => lookup Gen.binaryPrec op
  | .tern .. => Gen.ternaryPrec

/-- `- -a` would print `--a`, `& &a` `&&a` -/
def signClash (op : String) : Expr → Bool
  | .un op2 _ => op == op2 && (op == "-" || op == "+" || op == "&")
  | .lit v => op == "-" && v < 0
  | _ => false

def grouped : Expr → Bool
  | .var _ => true
  | .lit _ => true
  | .paren e => grouped e
  | .cast e => prec e ≤ Gen.castPrec && grouped e
  | .un op e => lookup Gen.unaryPrec op != 0 && prec e ≤ lookup Gen.unaryPrec op && !signClash op e && grouped e
  | .bin op l r =>
    lookup Gen.binaryPrec op != 0 && prec l ≤ lookup Gen.binaryPrec op && prec r < lookup Gen.binaryPrec op
      && grouped l && grouped r
  | .tern c t f =>
    prec c < Gen.ternaryPrec && grouped c && grouped t && prec f ≤ Gen.ternaryPrec && grouped f
  | .sub a i => prec a ≤ 2 && grouped a && grouped i

/-- the printed text keeps the tree's grouping -/
def Grouped (e : Expr) : Prop := grouped e = true

instance (e : Expr) : Decidable (Grouped e) := by unfold Grouped; exact inferInstance

/-! ### wrapInParentheses -/

theorem eval_wrap (env : String → Int) (e : Expr) : eval env (wrap e) = eval env e := by
  cases e <;> simp [wrap, eval]

theorem grouped_wrap (e : Expr) : grouped (wrap e) = grouped e := by
  cases e <;> simp [wrap, grouped]

theorem prec_wrap (e : Expr) : prec (wrap e) ≤ 3 := by
  cases e <;> simp [wrap, prec]
  split <;> omega

theorem wrap_paren (e : Expr) : wrap (.paren e) = .paren e := rfl
theorem wrap_var (n : String) : wrap (.var n) = .var n := rfl
theorem wrap_bin (op : String) (l r : Expr) : wrap (.bin op l r) = .paren (.bin op l r) := rfl

theorem prec_bin (op : String) (l r : Expr) : prec (.bin op l r) = lookup Gen.binaryPrec op := rfl
theorem prec_paren (e : Expr) : prec (.paren e) = 0 := rfl
theorem prec_var (n : String) : prec (.var n) = 0 := rfl
theorem prec_lit_nonneg (v : Int) (h : 0 ≤ v) : prec (.lit v) = 0 := by
  simp [prec]; omega
theorem prec_lit1 : prec (.lit 1) = 0 := by decide
theorem prec_lit0 : prec (.lit 0) = 0 := by decide

theorem prec_facts :
    lookup Gen.binaryPrec "+" = 6 ∧ lookup Gen.binaryPrec "-" = 6 ∧ lookup Gen.binaryPrec "*" = 5 ∧
    lookup Gen.binaryPrec "/" = 5 := by decide

/-! ### C17: count and iterator reconstruction -/

theorem countExpr_value (l : LoopSpec) (env : String → Int) :
    eval env (countExpr l) = count (l.header env) := by
  obtain ⟨var, attr, index, ityp, init, cmp, right, bound, positive, post, step⟩ := l
  cases positive <;> cases cmp <;> cases step <;>
    simp [countExpr, count, LoopSpec.header, LoopSpec.inclusive, Header.positiveUpdate, Header.inclusive,
          eval, evalBin, eval_wrap]

theorem valueExpr_value (l : LoopSpec) (env : String → Int) (magic : String) :
    eval env (valueExpr l magic) = valueOf (l.header env) (env magic) := by
  obtain ⟨var, attr, index, ityp, init, cmp, right, bound, positive, post, step⟩ := l
  cases positive <;> cases step <;>
    simp [valueExpr, valueOf, LoopSpec.header, Header.positiveUpdate, eval, evalBin, eval_wrap, wrap_var, wrap_bin]

/-- How the text of `countExpr l` is read: the C++ builds `1 + (larger - smaller)` but prints
    `1 + larger - smaller`, which groups as `(1 + larger) - smaller` (same value).  Everything else of
    the count tree is read as built. -/
def countRead (l : LoopSpec) : Expr :=
  let initP := wrap l.init
  let checkP := wrap l.bound
  let smaller := if l.positive then initP else checkP
  let larger := if l.positive then checkP else initP
  let c := if l.inclusive then Expr.bin "-" (.bin "+" (.lit 1) larger) smaller else Expr.bin "-" larger smaller
  match l.step with
  | none => c
  | some s =>
    let sP := wrap s
    Expr.bin "/" (wrap (.bin "-" (.bin "+" c sP) (.lit 1))) sP

theorem countRead_print (l : LoopSpec) : print (countRead l) = print (countExpr l) := by
  obtain ⟨var, attr, index, ityp, init, cmp, right, bound, positive, post, step⟩ := l
  cases positive <;> cases cmp <;> cases step <;>
    simp [countRead, countExpr, LoopSpec.inclusive, print, wrap_bin, String.append_assoc]

theorem countRead_value (l : LoopSpec) (env : String → Int) :
    eval env (countRead l) = count (l.header env) := by
  obtain ⟨var, attr, index, ityp, init, cmp, right, bound, positive, post, step⟩ := l
  cases positive <;> cases cmp <;> cases step <;>
    simp [countRead, count, LoopSpec.header, LoopSpec.inclusive, Header.positiveUpdate, Header.inclusive,
          eval, evalBin, eval_wrap, wrap_bin] <;> (try omega) <;> (congr 1; omega)

theorem countRead_grouped (l : LoopSpec) (hi : Grouped l.init) (hb : Grouped l.bound)
    (hst : ∀ s, l.step = some s → Grouped s) : Grouped (countRead l) := by
  obtain ⟨var, attr, index, ityp, init, cmp, right, bound, positive, post, step⟩ := l
  unfold Grouped at *
  simp only at hi hb
  have pi := prec_wrap init
  have pb := prec_wrap bound
  obtain ⟨f1, f2, f3, f4⟩ := prec_facts
  cases step with
  | none =>
    cases positive <;> cases cmp <;>
      simp [countRead, LoopSpec.inclusive, grouped, prec_bin, prec_paren, prec_lit1, f1, f2, grouped_wrap, hi, hb] <;> omega
  | some s =>
    have hs : grouped s = true := hst s rfl
    have ps := prec_wrap s
    cases positive <;> cases cmp <;>
      simp [countRead, LoopSpec.inclusive, grouped, prec_bin, prec_paren, prec_lit1, f1, f2, f3, f4, grouped_wrap, hi, hb, hs, wrap_bin] <;> omega

theorem valueExpr_grouped (l : LoopSpec) (magic : String) (hi : Grouped l.init)
    (hst : ∀ s, l.step = some s → Grouped s) : Grouped (valueExpr l magic) := by
  obtain ⟨var, attr, index, ityp, init, cmp, right, bound, positive, post, step⟩ := l
  unfold Grouped at *
  simp only at hi
  have pi := prec_wrap init
  obtain ⟨f1, f2, f3, f4⟩ := prec_facts
  cases step with
  | none =>
    cases positive <;> simp [valueExpr, grouped, prec_bin, prec_paren, prec_var, f1, f2, grouped_wrap, hi, wrap_var] <;> omega
  | some s =>
    have hs : grouped s = true := hst s rfl
    have ps := prec_wrap s
    cases positive <;> simp [valueExpr, grouped, prec_bin, prec_paren, prec_var, f1, f2, f3, grouped_wrap, hi, hs, wrap_var, wrap_bin] <;> omega

/-! ### C18: the tile transformation -/

theorem grouped_blockStride (l : LoopSpec) (T : Expr) (hT : Grouped T) (hst : ∀ s, l.step = some s → Grouped s) :
    Grouped (wrap (blockStrideExpr l T)) := by
  unfold Grouped at *
  obtain ⟨f1, f2, f3, f4⟩ := prec_facts
  have pT := prec_wrap T
  cases hstep : l.step with
  | none => simp [blockStrideExpr, hstep, grouped_wrap, hT]
  | some s =>
    have hs : grouped s = true := hst s hstep
    have ps := prec_wrap s
    simp [blockStrideExpr, hstep, grouped, wrap_bin, wrap_paren, prec_bin, f3, grouped_wrap, hT, hs]
    omega

theorem tileSpec_grouped (l : LoopSpec) (t : TileSpec) (hT : Grouped t.T)
    (hst : ∀ s, l.step = some s → Grouped s) :
    Grouped (innerSpec l t).bound ∧ (∀ s, (blockSpec l t).step = some s → Grouped (wrap s)) := by
  have hb := grouped_blockStride l t.T hT hst
  constructor
  · unfold Grouped at *
    obtain ⟨f1, f2, f3, f4⟩ := prec_facts
    have pw := prec_wrap (blockStrideExpr l t.T)
    cases hp : l.positive <;>
      simp [innerSpec, grouped, wrap_bin, prec_bin, prec_var, f1, f2, hb, hp] <;> omega
  · intro s hs
    simp only [blockSpec, Option.some.injEq] at hs
    rw [← hs]
    exact hb

theorem tileSpec_value (l : LoopSpec) (t : TileSpec) (env : String → Int) (xT : Int)
    (hfresh : ∀ e : Expr, e = l.init ∨ e = l.bound ∨ l.step = some e ∨ e = t.T →
      eval (fun n => if n = tiledName l.var then xT else env n) e = eval env e) :
    (blockSpec l t).header env = blockHeader (l.header env) (eval env t.T) ∧
    (innerSpec l t).header (fun n => if n = tiledName l.var then xT else env n)
      = innerHeader (l.header env) (eval env t.T) xT := by
  obtain ⟨var, attr, index, ityp, init, cmp, right, bound, positive, post, step⟩ := l
  have hT := hfresh t.T (Or.inr (Or.inr (Or.inr rfl)))
  constructor
  · cases positive <;> cases step <;>
      simp [blockSpec, blockStrideExpr, LoopSpec.header, blockHeader, stride, Header.positiveUpdate, eval, evalBin,
            eval_wrap, wrap_bin]
  · cases positive <;> cases step with
    | none =>
      simp [innerSpec, blockStrideExpr, LoopSpec.header, innerHeader, stride, Header.positiveUpdate, eval, evalBin,
            eval_wrap, wrap_bin, hT]
    | some s =>
      have hs := hfresh s (Or.inr (Or.inr (Or.inl rfl)))
      simp [innerSpec, blockStrideExpr, LoopSpec.header, innerHeader, stride, Header.positiveUpdate, eval, evalBin,
            eval_wrap, wrap_bin, hT, hs]

/-! ### C19: the @dim index tree -/

theorem getD_map_eval (env : String → Int) (l : List Expr) (i : Nat) :
    (l.map (eval env)).getD i 0 = eval env (l.getD i (.lit 0)) := by
  simp only [List.getD_eq_getElem?_getD, List.getElem?_map]
  cases l[i]? <;> simp [eval]

theorem dimIndexExpr_value (env : String → Int) (dims args : List Expr) (order : List Nat) :
    eval env (dimIndexExpr dims args order)
      = Occa.Dim.codeIndex (dims.map (eval env)) (args.map (eval env)) order := by
  unfold dimIndexExpr Occa.Dim.codeIndex
  cases order.reverse with
  | nil => simp [eval]
  | cons last restRev =>
    simp only
    have key : ∀ (l : List Nat) (accE : Expr) (accV : Int), eval env accE = accV →
        eval env (l.foldl (fun index o =>
          .bin "+" (wrap (args.getD o (.lit 0))) (wrap (.bin "*" (wrap (dims.getD o (.lit 0))) (wrap index)))) accE)
        = l.foldl (fun index o => (args.map (eval env)).getD o 0 + (dims.map (eval env)).getD o 0 * index) accV := by
      intro l
      induction l with
      | nil => intro accE accV h; simpa using h
      | cons o t ih =>
        intro accE accV h
        simp only [List.foldl_cons]
        apply ih
        rw [getD_map_eval, getD_map_eval]
        generalize args.getD o (.lit 0) = A
        generalize dims.getD o (.lit 0) = B
        simp [eval, evalBin, eval_wrap, wrap_bin, h]
    exact key restRev _ _ (by rw [getD_map_eval])

theorem grouped_getD (l : List Expr) (h : ∀ e ∈ l, Grouped e) (i : Nat) : Grouped (l.getD i (.lit 0)) := by
  simp only [List.getD_eq_getElem?_getD]
  cases hi : l[i]? with
  | none => simp [Grouped, grouped]
  | some e => exact h e (List.mem_of_getElem? hi)

theorem dimIndexExpr_grouped (dims args : List Expr) (order : List Nat)
    (hd : ∀ e ∈ dims, Grouped e) (ha : ∀ e ∈ args, Grouped e) : Grouped (dimIndexExpr dims args order) := by
  unfold dimIndexExpr
  cases order.reverse with
  | nil => simp [Grouped, grouped]
  | cons last restRev =>
    simp only
    have key : ∀ (l : List Nat) (acc : Expr), Grouped acc →
        Grouped (l.foldl (fun index o =>
          .bin "+" (wrap (args.getD o (.lit 0))) (wrap (.bin "*" (wrap (dims.getD o (.lit 0))) (wrap index)))) acc) := by
      intro l
      induction l with
      | nil => intro acc h; simpa using h
      | cons o t ih =>
        intro acc h
        simp only [List.foldl_cons]
        apply ih
        have g1 := grouped_getD args ha o
        have g2 := grouped_getD dims hd o
        have p1 := prec_wrap (args.getD o (.lit 0))
        have p2 := prec_wrap (dims.getD o (.lit 0))
        have p3 := prec_wrap acc
        obtain ⟨f1, f2, f3, f4⟩ := prec_facts
        unfold Grouped at g1 g2 h ⊢
        generalize args.getD o (.lit 0) = A at g1 p1 ⊢
        generalize dims.getD o (.lit 0) = B at g2 p2 ⊢
        simp [grouped, wrap_bin, prec_bin, prec_paren, f1, f3, grouped_wrap, g1, g2, h]
        omega
    exact key restRev _ (grouped_getD args ha last)

end Occa.LoopExpr
