/-
Helper lemmas for C07: the include expansion, the dependency scan, the chain of keys followed by
device::applyDependencyHash, and the invariant of reachable caches.
-/
import OccaModel.DepHash
import OccaProofs.Lemmas.CacheKey

namespace Occa.DepHash
open Occa.CacheKeyBase Occa.CacheKey

set_option linter.unusedSectionVars false

variable {κ σ δ β : Type} [DecidableEq κ] [DecidableEq δ]

/-! ### association lists with arbitrary keys -/

theorem lookup_cons_eq' {α γ : Type} [DecidableEq α] (n k : α) (v : γ) (l : List (α × γ)) :
    ((k, v) :: l).lookup n = if n = k then some v else l.lookup n := by
  by_cases h : n = k
  · subst h; simp [List.lookup]
  · have : (n == k) = false := by simpa using h
    simp [List.lookup, this, h]

theorem mem_keys_of_lookup {α γ : Type} [DecidableEq α] (n : α) (v : γ) :
    ∀ (l : List (α × γ)), l.lookup n = some v → n ∈ l.map (·.1)
  | [], h => by simp [List.lookup] at h
  | (k, w) :: t, h => by
    rw [lookup_cons_eq'] at h
    by_cases e : n = k
    · simp [e]
    · rw [if_neg e] at h
      exact List.mem_cons_of_mem _ (mem_keys_of_lookup n v t h)

/-- pigeonhole: a duplicate-free list inside another list is not longer -/
theorem length_le_of_nodup_subset {α : Type} [DecidableEq α] :
    ∀ (vis l : List α), vis.Nodup → (∀ d ∈ vis, d ∈ l) → vis.length ≤ l.length
  | [], _, _, _ => Nat.zero_le _
  | d :: vs, l, hnd, hsub => by
    have hd : d ∈ l := hsub d (by simp)
    have hnd' := List.nodup_cons.mp hnd
    have hsub' : ∀ x ∈ vs, x ∈ l.erase d := by
      intro x hx
      have hne : x ≠ d := fun e => hnd'.1 (e ▸ hx)
      exact (List.mem_erase_of_ne hne).mpr (hsub x (List.mem_cons_of_mem _ hx))
    have ih := length_le_of_nodup_subset vs (l.erase d) hnd'.2 hsub'
    have hl : (l.erase d).length = l.length - 1 := List.length_erase_of_mem hd
    have hpos : 0 < l.length := List.length_pos_of_mem hd
    simp only [List.length_cons]
    omega

/-! ### the include expansion -/

theorem expand_sound (incl : String → List String) (fs : FS) :
    ∀ (n : Nat) (ps : List String) (x : List (String × String)),
      expand incl fs n ps = some x → ∀ p t, (p, t) ∈ x → fs p = some t := by
  intro n
  induction n with
  | zero =>
    intro ps x h p t hm
    cases ps with
    | nil => simp [expand] at h; subst h; simp at hm
    | cons q qs => simp [expand] at h
  | succ n ih =>
    intro ps x h p t hm
    cases ps with
    | nil => simp [expand] at h; subst h; simp at hm
    | cons q qs =>
      cases hfs : fs q with
      | none => simp [expand, hfs] at h
      | some t0 =>
        cases ha : expand incl fs n (incl t0) with
        | none => simp [expand, hfs, ha] at h
        | some a =>
          cases hb : expand incl fs n qs with
          | none => simp [expand, hfs, ha, hb] at h
          | some b =>
            simp [expand, hfs, ha, hb] at h
            subst h
            rcases List.mem_cons.mp hm with e | hm'
            · obtain ⟨e1, e2⟩ := Prod.mk.inj e
              rw [e1, e2]; exact hfs
            · rcases List.mem_append.mp hm' with m | m
              · exact ih _ _ ha p t m
              · exact ih _ _ hb p t m

/-- the expansion only reads the files it lists: it is the same under any file system that
    agrees on them -/
theorem expand_congr (incl : String → List String) (fs fs' : FS) :
    ∀ (n : Nat) (ps : List String) (x : List (String × String)),
      expand incl fs' n ps = some x → (∀ p t, (p, t) ∈ x → fs p = some t) →
      expand incl fs n ps = some x := by
  intro n
  induction n with
  | zero =>
    intro ps x h _
    cases ps with
    | nil => simpa [expand] using h
    | cons q qs => simp [expand] at h
  | succ n ih =>
    intro ps x h hx
    cases ps with
    | nil => simpa [expand] using h
    | cons q qs =>
      cases hfs : fs' q with
      | none => simp [expand, hfs] at h
      | some t0 =>
        cases ha : expand incl fs' n (incl t0) with
        | none => simp [expand, hfs, ha] at h
        | some a =>
          cases hb : expand incl fs' n qs with
          | none => simp [expand, hfs, ha, hb] at h
          | some b =>
            simp [expand, hfs, ha, hb] at h
            subst h
            have hq : fs q = some t0 := hx q t0 (by simp)
            have ia := ih _ _ ha (fun p t m => hx p t (List.mem_cons_of_mem _ (List.mem_append.mpr (Or.inl m))))
            have ib := ih _ _ hb (fun p t m => hx p t (List.mem_cons_of_mem _ (List.mem_append.mpr (Or.inr m))))
            simp [expand, hq, ia, ib]

/-! ### recorded dependencies -/

theorem lookup_map_of_functional {γ : Type} (f : String → γ) (p t : String) :
    ∀ (x : List (String × String)), (∀ t', (p, t') ∈ x → t' = t) → (p, t) ∈ x →
      (x.map fun pt => (pt.1, f pt.2)).lookup p = some (f t)
  | [], _, h => by simp at h
  | (q, u) :: r, hf, h => by
    simp only [List.map_cons]
    rw [lookup_cons_eq]
    by_cases e : p = q
    · rw [if_pos e]
      have : u = t := hf u (by rw [e]; simp)
      rw [this]
    · rw [if_neg e]
      have hm : (p, t) ∈ r := by
        rcases List.mem_cons.mp h with e' | m
        · exact absurd (Prod.mk.inj e').1 e
        · exact m
      exact lookup_map_of_functional f p t r (fun t' m => hf t' (List.mem_cons_of_mem _ m)) hm

/-- every file of an expansion is recorded with the hash of the text that was expanded -/
theorem mem_depsOf (e : DEnv κ σ δ) (fs' : FS) (n : Nat) (ps : List String) (x : List (String × String))
    (hx : expand e.incl fs' n ps = some x) (p t : String) (hm : (p, t) ∈ x) :
    (p, e.H (e.raw t)) ∈ depsOf e x := by
  apply mem_of_lookup_eq_some
  unfold depsOf
  rw [lookup_mkMap]
  apply lookup_map_of_functional (fun s => e.H (e.raw s)) p t x _ hm
  intro t' hm'
  have h1 := expand_sound e.incl fs' n ps x hx p t hm
  have h2 := expand_sound e.incl fs' n ps x hx p t' hm'
  rw [h1] at h2
  exact (Option.some.inj h2).symm

/-- "nothing changed": every recorded file exists and has its recorded hash -/
theorem scan_unchanged (e : DEnv κ σ δ) (fs : FS) :
    ∀ (deps : List (String × κ)), (scanDeps e fs deps).2 = false →
      ∀ p h, (p, h) ∈ deps → ∃ txt, fs p = some txt ∧ e.H (e.raw txt) = h
  | [], _, p, h, hm => by simp at hm
  | (q, hq) :: t, hs, p, h, hm => by
    unfold scanDeps at hs
    cases hfs : fs q with
    | none => simp [hfs] at hs
    | some txt =>
      simp only [hfs, Bool.or_eq_false_iff, decide_eq_false_iff_not, ne_eq, Decidable.not_not] at hs
      rcases List.mem_cons.mp hm with e' | m
      · obtain ⟨e1, e2⟩ := Prod.mk.inj e'
        exact ⟨txt, by rw [e1]; exact hfs, by rw [e2]; exact hs.2⟩
      · exact scan_unchanged e fs t hs.1 p h m

/-! ### the chain of keys -/

/-- "no collisions" for the dependency chain: those of the key construction, and distinct keys
    get distinct cache directories -/
structure DEnv.Inj (e : DEnv κ σ δ) (W : J → Prop) : Prop where
  env : e.toEnv.Inj W
  dir : Function.Injective e.dir

/-- What the proofs use of the regenerated description of applyDependencyHash: the next key is
    the hash of ONE labelled object, rendered with all 256 bits, in a loop with the
    visited-directory guard, and its labels differ from a label that every base key carries. -/
structure ChainShape : Prop where
  comb : Gen.chainComb = Comb.labelled
  render : Gen.chainRender = Render.full
  iterative : Gen.chainIterative = true
  guard : Gen.chainVisitedGuard = true
  sep : (Gen.setupParts.any fun lp =>
          lp.2.1 == KeyPart.deviceHash && lp.1 != Gen.chainHashLabel && lp.1 != Gen.chainDepsLabel) = true

theorem chainShape : ChainShape := by
  constructor <;> decide

/-- the object hashed for the next key of the chain -/
def chainObj (e : DEnv κ σ δ) (K : κ) (cur : List (String × κ)) : J :=
  mkObj [(Gen.chainHashLabel, render e.toEnv Gen.chainRender K),
         (Gen.chainDepsLabel,
          J.obj (mkMap (cur.map fun ph => (ph.1, render e.toEnv Gen.chainRender ph.2))))]

theorem nextKey_eq (e : DEnv κ σ δ) (K : κ) (cur : List (String × κ)) :
    nextKey e K cur = e.H (e.enc (chainObj e K cur)) := rfl

/-- the keys applyDependencyHash can reach from the base key of a configuration, with the
    number of steps -/
inductive ChainN (e : DEnv κ σ δ) (W : J → Prop) (c : Config) : Nat → κ → Prop
  | base : ChainN e W c 0 (baseKey e.toEnv c)
  | next {n : Nat} {K : κ} (cur : List (String × κ)) (hw : W (chainObj e K cur)) :
      ChainN e W c n K → ChainN e W c (n + 1) (nextKey e K cur)

theorem chain_render_full (e : DEnv κ σ δ) (cs : ChainShape) : render e.toEnv Gen.chainRender = e.full := by
  rw [cs.render]; rfl

theorem nextKey_inj (e : DEnv κ σ δ) {W : J → Prop} (hi : e.Inj W) (cs : ChainShape) {K K' : κ}
    {cur cur' : List (String × κ)} (hw : W (chainObj e K cur)) (hw' : W (chainObj e K' cur'))
    (h : nextKey e K cur = nextKey e K' cur') : K = K' := by
  rw [nextKey_eq, nextKey_eq] at h
  have h1 := hi.env.enc _ _ hw hw' (hi.env.H h)
  unfold chainObj at h1
  have h2 := lookup_of_mkObj_eq h1 Gen.chainHashLabel
  simp only [lookup_cons_eq] at h2
  rw [chain_render_full e cs] at h2
  exact hi.env.full (Option.some.inj h2)

theorem nextKey_ne_base (e : DEnv κ σ δ) {W : J → Prop} (hi : e.Inj W) (sh : Shape) (cs : ChainShape)
    (c : Config) (o : Config.Ok e.toEnv W c) (K : κ) (cur : List (String × κ)) (hw : W (chainObj e K cur)) :
    nextKey e K cur ≠ baseKey e.toEnv c := by
  intro h
  rw [nextKey_eq] at h
  have h1 := hi.env.enc _ _ hw o.key (hi.env.H h)
  unfold chainObj at h1
  obtain ⟨lp, hlp, hp⟩ := List.any_eq_true.mp cs.sep
  simp only [Bool.and_eq_true, bne_iff_ne, ne_eq] at hp
  obtain ⟨⟨hp1, hp2⟩, hp3⟩ := hp
  have hp1' : lp.2.1 = KeyPart.deviceHash := eq_of_beq hp1
  have h2 := lookup_of_mkObj_eq h1 lp.1
  unfold partList at h2
  rw [lookup_filterMap_assoc (partVal e.toEnv c) lp.1 _ sh.nodup,
    lookup_of_mem_nodup lp.1 lp.2 _ sh.nodup (by cases lp; exact hlp)] at h2
  simp only [lookup_cons_eq, if_neg hp2, if_neg hp3] at h2
  obtain ⟨l, q, g⟩ := lp
  simp only at hp1'
  subst hp1'
  simp [partVal, List.lookup] at h2

theorem chain_unique_aux (e : DEnv κ σ δ) {W : J → Prop} (hi : e.Inj W) (sh : Shape) (cs : ChainShape)
    {c c' : Config} (o : Config.Ok e.toEnv W c) (o' : Config.Ok e.toEnv W c')
    {n : Nat} {K : κ} (h1 : ChainN e W c n K) :
    ∀ (m : Nat) (K' : κ), ChainN e W c' m K' → K = K' →
      n = m ∧ baseKey e.toEnv c = baseKey e.toEnv c' := by
  induction h1 with
  | base =>
    intro m K' h2 hk
    cases h2 with
    | base => exact ⟨rfl, hk⟩
    | next cur hw h2' => exact absurd hk.symm (nextKey_ne_base e hi sh cs c o _ cur hw)
  | next cur hw h1' ih =>
    intro m K' h2 hk
    cases h2 with
    | base => exact absurd hk (nextKey_ne_base e hi sh cs c' o' _ cur hw)
    | next cur' hw' h2' =>
      obtain ⟨e1, e2⟩ := ih _ _ h2' (nextKey_inj e hi cs hw hw' hk)
      exact ⟨by omega, e2⟩

theorem chain_unique (e : DEnv κ σ δ) {W : J → Prop} (hi : e.Inj W) (sh : Shape) (cs : ChainShape)
    {c c' : Config} (o : Config.Ok e.toEnv W c) (o' : Config.Ok e.toEnv W c')
    {n m : Nat} {K : κ} (h1 : ChainN e W c n K) (h2 : ChainN e W c' m K) :
    n = m ∧ baseKey e.toEnv c = baseKey e.toEnv c' :=
  chain_unique_aux e hi sh cs o o' h1 m K h2 rfl

/-- every chain object that can arise while resolving against this cache under this file system
    lies in `W` -/
def CacheW (e : DEnv κ σ δ) (W : J → Prop) (fs : FS) (cache : Cache κ δ β) : Prop :=
  ∀ d ent K, cache.lookup d = some ent → W (chainObj e K (scanDeps e fs ent.deps).1)

/-! ### applyDependencyHash -/

theorem resolve_succ (e : DEnv κ σ δ) (fs : FS) (cache : Cache κ δ β) (n : Nat) (vis : List δ) (K : κ) :
    resolve e fs cache (n + 1) vis K =
      match cache.lookup (e.dir K) with
      | Option.none => .found K
      | some ent =>
        if (scanDeps e fs ent.deps).2 = false then .found K
        else if e.dir K ∈ vis then .cycle K
        else resolve e fs cache n (e.dir K :: vis) (nextKey e K (scanDeps e fs ent.deps).1) := rfl

/-- the loop ends within (number of cache entries + 1) iterations, whatever the hash function -/
theorem resolve_fuel (e : DEnv κ σ δ) (fs : FS) (cache : Cache κ δ β) :
    ∀ (fuel : Nat) (vis : List δ) (K : κ), vis.Nodup → (∀ d ∈ vis, d ∈ cache.map (·.1)) →
      cache.length + 1 ≤ fuel + vis.length → resolve e fs cache fuel vis K ≠ .outOfFuel := by
  intro fuel
  induction fuel with
  | zero =>
    intro vis K hnd hsub hlen
    have := length_le_of_nodup_subset vis (cache.map (·.1)) hnd hsub
    simp only [List.length_map] at this
    omega
  | succ n ih =>
    intro vis K hnd hsub hlen
    rw [resolve_succ]
    cases hl : cache.lookup (e.dir K) with
    | none => simp
    | some ent =>
      simp only
      by_cases hs : (scanDeps e fs ent.deps).2 = false
      · rw [if_pos hs]; simp
      · rw [if_neg hs]
        by_cases hv : e.dir K ∈ vis
        · rw [if_pos hv]; simp
        · rw [if_neg hv]
          apply ih
          · exact List.nodup_cons.mpr ⟨hv, hnd⟩
          · intro d hd
            rcases List.mem_cons.mp hd with e' | m
            · rw [e']; exact mem_keys_of_lookup _ _ _ hl
            · exact hsub d m
          · simp only [List.length_cons]; omega

theorem resolve_chain (e : DEnv κ σ δ) (W : J → Prop) (fs : FS) (cache : Cache κ δ β)
    (hcw : CacheW e W fs cache) (c : Config) :
    ∀ (fuel : Nat) (vis : List δ) (K : κ) (i : Nat) (K' : κ), ChainN e W c i K →
      resolve e fs cache fuel vis K = .found K' → ∃ j, ChainN e W c j K' := by
  intro fuel
  induction fuel with
  | zero => intro vis K i K' _ h; simp [resolve] at h
  | succ n ih =>
    intro vis K i K' hc h
    rw [resolve_succ] at h
    cases hl : cache.lookup (e.dir K) with
    | none =>
      simp only [hl] at h
      exact ⟨i, by rw [← Res.found.inj h]; exact hc⟩
    | some ent =>
      simp only [hl] at h
      by_cases hs : (scanDeps e fs ent.deps).2 = false
      · rw [if_pos hs] at h
        exact ⟨i, by rw [← Res.found.inj h]; exact hc⟩
      · rw [if_neg hs] at h
        by_cases hv : e.dir K ∈ vis
        · rw [if_pos hv] at h; simp at h
        · rw [if_neg hv] at h
          exact ih _ _ (i + 1) K' (ChainN.next _ (hcw _ ent K hl) hc) h

/-- the key the loop returns either has no build file or all its recorded dependencies are unchanged -/
theorem resolve_found_spec (e : DEnv κ σ δ) (fs : FS) (cache : Cache κ δ β) :
    ∀ (fuel : Nat) (vis : List δ) (K K' : κ), resolve e fs cache fuel vis K = .found K' →
      ∀ ent, cache.lookup (e.dir K') = some ent → (scanDeps e fs ent.deps).2 = false := by
  intro fuel
  induction fuel with
  | zero => intro vis K K' h; simp [resolve] at h
  | succ n ih =>
    intro vis K K' h ent' hent'
    rw [resolve_succ] at h
    cases hl : cache.lookup (e.dir K) with
    | none =>
      simp only [hl] at h
      rw [← Res.found.inj h, hl] at hent'
      simp at hent'
    | some ent =>
      simp only [hl] at h
      by_cases hs : (scanDeps e fs ent.deps).2 = false
      · rw [if_pos hs] at h
        rw [← Res.found.inj h, hl] at hent'
        rw [← Option.some.inj hent']
        exact hs
      · rw [if_neg hs] at h
        by_cases hv : e.dir K ∈ vis
        · rw [if_pos hv] at h; simp at h
        · rw [if_neg hv] at h
          exact ih _ _ K' h ent' hent'

/-- without collisions the loop never comes back to a directory it left -/
theorem resolve_no_cycle (e : DEnv κ σ δ) {W : J → Prop} (hi : e.Inj W) (sh : Shape) (cs : ChainShape)
    (fs : FS) (cache : Cache κ δ β) (hcw : CacheW e W fs cache) (c : Config) (o : Config.Ok e.toEnv W c) :
    ∀ (fuel : Nat) (vis : List δ) (K : κ) (i : Nat), ChainN e W c i K →
      (∀ d ∈ vis, ∃ j K'', j < i ∧ ChainN e W c j K'' ∧ e.dir K'' = d) →
      ∀ K', resolve e fs cache fuel vis K ≠ .cycle K' := by
  intro fuel
  induction fuel with
  | zero => intro vis K i _ _ K'; simp [resolve]
  | succ n ih =>
    intro vis K i hc hvis K'
    rw [resolve_succ]
    cases hl : cache.lookup (e.dir K) with
    | none => simp
    | some ent =>
      simp only
      by_cases hs : (scanDeps e fs ent.deps).2 = false
      · rw [if_pos hs]; simp
      · rw [if_neg hs]
        by_cases hv : e.dir K ∈ vis
        · exfalso
          obtain ⟨j, K'', hj, hc'', hd⟩ := hvis _ hv
          have hk : K'' = K := hi.dir hd
          rw [hk] at hc''
          have := (chain_unique e hi sh cs o o hc'' hc).1
          omega
        · rw [if_neg hv]
          apply ih _ _ (i + 1) (ChainN.next _ (hcw _ ent K hl) hc)
          intro d hd
          rcases List.mem_cons.mp hd with e' | m
          · exact ⟨i, K, Nat.lt_succ_self i, hc, e'.symm⟩
          · obtain ⟨j, K'', hj, hc'', hd'⟩ := hvis d m
            exact ⟨j, K'', Nat.lt_succ_of_lt hj, hc'', hd'⟩

/-! ### reachable caches -/

/-- every cache entry was compiled for some configuration, under a key of that configuration's
    chain, from the expansion whose files and hashes it records -/
def Inv (e : DEnv κ σ δ) (W : J → Prop) (compile : String × List (Option J) → List (String × String) → β)
    (cache : Cache κ δ β) : Prop :=
  ∀ d ent, cache.lookup d = some ent →
    ∃ (c' : Config) (n : Nat) (K : κ) (fs' : FS) (x : List (String × String)),
      Config.Ok e.toEnv W c' ∧
      ChainN e W c' n K ∧ e.dir K = d ∧ expand e.incl fs' e.depth (e.incl c'.src) = some x ∧
      ent.deps = depsOf e x ∧ ent.bin = compile c'.view x

theorem inv_nil (e : DEnv κ σ δ) (W : J → Prop) (compile : String × List (Option J) → List (String × String) → β) :
    Inv e W compile ([] : Cache κ δ β) := by
  intro d ent h
  simp [List.lookup] at h

theorem build_hit (e : DEnv κ σ δ) (compile : String × List (Option J) → List (String × String) → β)
    (fs : FS) (cache : Cache κ δ β) (c : Config) {K : κ} {ent : Entry κ β}
    (hres : resolve e fs cache (cache.length + 1) [] (baseKey e.toEnv c) = .found K)
    (hl : cache.lookup (e.dir K) = some ent) :
    build e compile fs cache c = (cache, .hit ent.bin, some K) := by
  unfold build
  rw [hres]
  simp only [hl]

theorem build_parseError (e : DEnv κ σ δ) (compile : String × List (Option J) → List (String × String) → β)
    (fs : FS) (cache : Cache κ δ β) (c : Config) {K : κ}
    (hres : resolve e fs cache (cache.length + 1) [] (baseKey e.toEnv c) = .found K)
    (hl : cache.lookup (e.dir K) = Option.none)
    (hx : expand e.incl fs e.depth (e.incl c.src) = Option.none) :
    build e compile fs cache c = (cache, .parseError, some K) := by
  unfold build
  rw [hres]
  simp only [hl, hx]

theorem build_miss (e : DEnv κ σ δ) (compile : String × List (Option J) → List (String × String) → β)
    (fs : FS) (cache : Cache κ δ β) (c : Config) {K : κ} {x : List (String × String)}
    (hres : resolve e fs cache (cache.length + 1) [] (baseKey e.toEnv c) = .found K)
    (hl : cache.lookup (e.dir K) = Option.none)
    (hx : expand e.incl fs e.depth (e.incl c.src) = some x) :
    build e compile fs cache c =
      ((e.dir K, { deps := depsOf e x, bin := compile c.view x }) :: cache, .miss (compile c.view x), some K) := by
  unfold build
  rw [hres]
  simp only [hl, hx]

/-- one build: the invariant is kept, a completed build (hit or miss) runs the binary the
    compiler produces from the current configuration and the current expansion, a rejected
    build has no expansion, and the key resolution does not fail -/
theorem build_current (e : DEnv κ σ δ) {W : J → Prop} (hi : e.Inj W)
    (compile : String × List (Option J) → List (String × String) → β)
    (fs : FS) (cache : Cache κ δ β) (hinv : Inv e W compile cache) (hcw : CacheW e W fs cache)
    (c : Config) (o : Config.Ok e.toEnv W c) :
    Inv e W compile (build e compile fs cache c).1 ∧
    (∀ b, ((build e compile fs cache c).2.1 = .hit b ∨ (build e compile fs cache c).2.1 = .miss b) →
        ∃ x, expand e.incl fs e.depth (e.incl c.src) = some x ∧ b = compile c.view x) ∧
    ((build e compile fs cache c).2.1 = .parseError → expand e.incl fs e.depth (e.incl c.src) = Option.none) ∧
    (build e compile fs cache c).2.1 ≠ .chainError := by
  have sh := shape
  have cs := chainShape
  cases hres : resolve e fs cache (cache.length + 1) [] (baseKey e.toEnv c) with
  | outOfFuel =>
    exact absurd hres (resolve_fuel e fs cache _ [] _ List.nodup_nil (by simp) (by simp))
  | cycle K =>
    exact absurd hres (resolve_no_cycle e hi sh cs fs cache hcw c o _ [] _ 0 ChainN.base (by simp) K)
  | found K =>
    obtain ⟨j, hch⟩ := resolve_chain e W fs cache hcw c _ [] _ 0 K ChainN.base hres
    cases hl : cache.lookup (e.dir K) with
    | some ent =>
      rw [build_hit e compile fs cache c hres hl]
      refine ⟨hinv, ?_, by simp, by simp⟩
      intro b hb
      have hb' : b = ent.bin := by
        rcases hb with hb | hb
        · exact (Outcome.hit.inj hb).symm
        · simp at hb
      obtain ⟨c', n, K0, fs', x, o', hc0, hd0, hx0, hdeps, hbin⟩ := hinv _ _ hl
      have hK : K0 = K := hi.dir hd0
      rw [hK] at hc0
      have hbase := (chain_unique e hi sh cs o' o hc0 hch).2
      have hview : c'.view = c.view := view_eq_of_baseKey_eq e.toEnv hi.env sh o' o hbase
      have hsrc : c'.src = c.src := src_eq_of_baseKey_eq e.toEnv hi.env sh o' o hbase
      have hscan := resolve_found_spec e fs cache _ _ _ _ hres ent hl
      refine ⟨x, ?_, by rw [hb', hbin, hview]⟩
      rw [← hsrc]
      apply expand_congr e.incl fs fs' _ _ _ hx0
      intro p t hm
      have hmem := mem_depsOf e fs' _ _ x hx0 p t hm
      rw [← hdeps] at hmem
      obtain ⟨txt, hfs, hh⟩ := scan_unchanged e fs ent.deps hscan p _ hmem
      rw [hfs, hi.env.raw (hi.env.H hh)]
    | none =>
      cases hx : expand e.incl fs e.depth (e.incl c.src) with
      | none =>
        rw [build_parseError e compile fs cache c hres hl hx]
        exact ⟨hinv, by simp, fun _ => rfl, by simp⟩
      | some x =>
        rw [build_miss e compile fs cache c hres hl hx]
        refine ⟨?_, ?_, by simp, by simp⟩
        · intro d ent hlk
          rw [lookup_cons_eq'] at hlk
          by_cases hd : d = e.dir K
          · rw [if_pos hd] at hlk
            have := Option.some.inj hlk
            subst this
            exact ⟨c, j, K, fs, x, o, hch, hd.symm, hx, rfl, rfl⟩
          · rw [if_neg hd] at hlk
            exact hinv d ent hlk
        · intro b hb
          refine ⟨x, rfl, ?_⟩
          rcases hb with hb | hb
          · simp at hb
          · exact (Outcome.miss.inj hb).symm

/-- what a history must satisfy so that `W` covers everything it feeds to the encoder: every
    configuration built lies in `W`'s domain, and so do the chain objects of every cache that
    satisfies the invariant -/
structure HistOk (e : DEnv κ σ δ) (W : J → Prop)
    (compile : String × List (Option J) → List (String × String) → β) (ops : List Op) : Prop where
  cfg : ∀ c, Op.build c ∈ ops → Config.Ok e.toEnv W c
  cache : ∀ (cache : Cache κ δ β) (fs : FS), Inv e W compile cache → CacheW e W fs cache

theorem histOk_all (e : DEnv κ σ δ) (compile : String × List (Option J) → List (String × String) → β)
    (ops : List Op) : HistOk (β := β) e (fun _ => True) compile ops :=
  ⟨fun _ _ => Config.ok_all _ _, fun _ _ _ _ _ _ _ => trivial⟩

theorem inv_step (e : DEnv κ σ δ) {W : J → Prop} (hi : e.Inj W)
    (compile : String × List (Option J) → List (String × String) → β)
    (s : State κ δ β) (hinv : Inv e W compile s.cache)
    (hcw : ∀ fs, CacheW e W fs s.cache) (op : Op) (hop : ∀ c, op = Op.build c → Config.Ok e.toEnv W c) :
    Inv e W compile (step e compile s op).1.cache := by
  cases op with
  | write p t => exact hinv
  | remove p => exact hinv
  | build c => exact (build_current e hi compile s.fs s.cache hinv (hcw _) c (hop c rfl)).1

theorem inv_run (e : DEnv κ σ δ) {W : J → Prop} (hi : e.Inj W)
    (compile : String × List (Option J) → List (String × String) → β) :
    ∀ (ops : List Op) (s : State κ δ β), HistOk e W compile ops → Inv e W compile s.cache →
      Inv e W compile (run e compile s ops).cache
  | [], _, _, h => h
  | op :: ops, s, ho, h =>
    inv_run e hi compile ops (step e compile s op).1
      ⟨fun c hc => ho.cfg c (List.mem_cons_of_mem _ hc), ho.cache⟩
      (inv_step e hi compile s h (fun fs => ho.cache _ fs h) op
        (fun c hc => ho.cfg c (by rw [hc]; exact List.mem_cons_self)))

end Occa.DepHash
