/-
What each destructor / delete function of the handle model does, as `Killed` facts.
-/
import OccaProofs.Lemmas.GcInv

namespace Occa.Gc

@[simp] theorem St.touch_alive {s : St} {o : Nat} (h : s.alive o = true) : s.touch o = s := by
  simp [St.touch, h]

/-- the loop that NULLs all wrappers: every handle of the ring gets a NULL pointer, the ring is empty -/
theorem nullWrappers_eq (o : Nat) : ∀ (n : Nat) (s : St), (s.ring o).length = n → (s.ring o).Nodup →
    nullWrappers n s o =
      { s with ring := upd s.ring o [], ptr := fun v => if v ∈ s.ring o then none else s.ptr v } := by
  intro n
  induction n with
  | zero =>
    intro s hl _
    have h0 : s.ring o = [] := List.length_eq_zero_iff.mp hl
    unfold nullWrappers
    apply St.ext
    all_goals first | rfl | skip
    · funext x; by_cases hx : x = o <;> simp [upd_apply, hx, h0]
    · funext v; simp [h0]
  | succ n ih =>
    intro s hl hn
    match hr : s.ring o, hl with
    | [], hl => simp at hl
    | v :: t, hl =>
      have hstep : nullWrappers (n+1) s o
          = nullWrappers n ((s.setRing o (Ring.remove (s.ring o) v)).setPtr v none) o := by
        conv => lhs; unfold nullWrappers
        simp only [hr]
      rw [hstep]
      have hn' : (v :: t).Nodup := hr ▸ hn
      have hr1 : ((s.setRing o (Ring.remove (s.ring o) v)).setPtr v none).ring o = Ring.remove (v :: t) v := by
        simp [St.setRing, St.setPtr, hr]
      have hlen : (Ring.remove (v :: t) v).length = n := by
        rw [Ring.remove_head_length]; simpa using hl
      rw [ih _ (by rw [hr1]; exact hlen) (by rw [hr1]; exact Ring.nodup_remove hn' v)]
      apply St.ext
      all_goals first | rfl | skip
      · funext x; by_cases hx : x = o <;> simp [St.setRing, St.setPtr, upd_apply, hx]
      · funext w
        simp only [hr1]
        by_cases hw : w = v
        · subst hw; simp [St.setRing, St.setPtr]
        · have : w ∈ Ring.remove (v :: t) v ↔ w ∈ t := by
            rw [Ring.mem_remove hn']; simp [hw]
          simp [St.setRing, St.setPtr, upd_apply, hw, this]

/-! ### edits of the member rings and parent pointers that only concern destroyed objects -/

theorem chGet_chSet (s : St) (k k' : Kind) (d d' : Nat) (l : List Nat) :
    (s.chSet k d l).chGet k' d' = if slot k' = slot k ∧ d' = d then l else s.chGet k' d' := by
  cases k <;> cases k' <;> by_cases h : d' = d <;> simp [St.chSet, St.chGet, slot, upd_apply, h]

/-- `s1` is `s` with entries removed from member rings and parent pointers changed, but only for
    objects that are in `K` or already destroyed -/
structure PreEdit (s s1 : St) (K : List Nat) : Prop where
  next : s1.next = s.next
  kind : s1.kind = s.kind
  trap : s1.trap = s.trap
  useRefs : s1.useRefs = s.useRefs
  inner : s1.inner = s.inner
  vlive : s1.vlive = s.vlive
  alive : s1.alive = s.alive
  dtors : s1.dtors = s.dtors
  ring : s1.ring = s.ring
  ptr : s1.ptr = s.ptr
  par : ∀ o, o ∉ K → s.alive o = true → s1.par o = s.par o
  kidsS : ∀ b x, x ∈ s1.kids b → x ∈ s.kids b
  kidsU : ∀ b x, x ∈ s.kids b → s.alive x = true → x ∉ K → b ∉ K → x ∈ s1.kids b
  kidsN : ∀ b, (s.kids b).Nodup → (s1.kids b).Nodup
  chS : ∀ k d x, x ∈ s1.chGet k d → x ∈ s.chGet k d
  chU : ∀ k d x, x ∈ s.chGet k d → s.alive x = true → x ∉ K → d ∉ K → x ∈ s1.chGet k d
  chN : ∀ k d, (s.chGet k d).Nodup → (s1.chGet k d).Nodup

theorem PreEdit.refl (s : St) (K : List Nat) : PreEdit s s K := by
  constructor <;> first | rfl | (intros; rfl) | (intros; assumption)

theorem PreEdit.trans {s s1 s2 : St} {K : List Nat} (h1 : PreEdit s s1 K) (h2 : PreEdit s1 s2 K) :
    PreEdit s s2 K := by
  constructor
  · rw [h2.next, h1.next]
  · rw [h2.kind, h1.kind]
  · rw [h2.trap, h1.trap]
  · rw [h2.useRefs, h1.useRefs]
  · rw [h2.inner, h1.inner]
  · rw [h2.vlive, h1.vlive]
  · rw [h2.alive, h1.alive]
  · rw [h2.dtors, h1.dtors]
  · rw [h2.ring, h1.ring]
  · rw [h2.ptr, h1.ptr]
  · intro o ho ha
    rw [h2.par o ho (by rw [h1.alive]; exact ha), h1.par o ho ha]
  · intro b x hx; exact h1.kidsS b x (h2.kidsS b x hx)
  · intro b x hx ha hx' hb
    exact h2.kidsU b x (h1.kidsU b x hx ha hx' hb) (by rw [h1.alive]; exact ha) hx' hb
  · intro b hb; exact h2.kidsN b (h1.kidsN b hb)
  · intro k d x hx; exact h1.chS k d x (h2.chS k d x hx)
  · intro k d x hx ha hx' hd
    exact h2.chU k d x (h1.chU k d x hx ha hx' hd) (by rw [h1.alive]; exact ha) hx' hd
  · intro k d hd; exact h2.chN k d (h1.chN k d hd)

/-- an edit before the destruction of `K` is absorbed -/
theorem Killed.pre_edit {s s1 s2 : St} {K : List Nat} (he : PreEdit s s1 K) (hk : Killed s1 K s2) :
    Killed s K s2 := by
  constructor
  · rw [hk.next, he.next]
  · rw [hk.kind, he.kind]
  · rw [hk.trap, he.trap]
  · rw [hk.useRefs, he.useRefs]
  · rw [hk.inner, he.inner]
  · rw [hk.vlive, he.vlive]
  · intro o; rw [hk.alive, he.alive]
  · intro o; rw [hk.dtors, he.dtors]
  · intro o; rw [hk.ring, he.ring]
  · intro v o ho hv; exact hk.ptrK v o ho (by rw [he.ring]; exact hv)
  · intro v hv
    rw [hk.ptrU v (by rw [he.ring]; exact hv), he.ptr]
  · intro o ho ha
    rw [hk.par o ho (by rw [he.alive]; exact ha), he.par o ho ha]
  · intro b x hx; exact he.kidsS b x (hk.kidsS b x hx)
  · intro b x hx ha hx' hb
    exact hk.kidsU b x (he.kidsU b x hx ha hx' hb) (by rw [he.alive]; exact ha) hx' hb
  · intro b hb; exact hk.kidsN b (he.kidsN b hb)
  · intro k d x hx; exact he.chS k d x (hk.chS k d x hx)
  · intro k d x hx ha hx' hd
    exact hk.chU k d x (he.chU k d x hx ha hx' hd) (by rw [he.alive]; exact ha) hx' hd
  · intro k d hd; exact hk.chN k d (he.chN k d hd)

/-- an edit that only concerns already destroyed objects destroys nothing -/
theorem PreEdit.killed {s s1 : St} (he : PreEdit s s1 []) : Killed s [] s1 := by
  have := Killed.pre_edit he (Killed.refl s1)
  exact this

theorem preEdit_setKids_remove {s : St} {K : List Nat} (b m : Nat) (hn : (s.kids b).Nodup)
    (hm : m ∈ K ∨ s.alive m = false) : PreEdit s (s.setKids b (Ring.remove (s.kids b) m)) K := by
  constructor
  any_goals rfl
  · intro o _ _; rfl
  · intro b' x hx
    by_cases hb : b' = b
    · subst hb
      simp only [St.setKids, upd_same] at hx
      exact ((Ring.mem_remove hn m x).mp hx).1
    · simpa [St.setKids, upd_apply, hb] using hx
  · intro b' x hx ha hxK _
    by_cases hb : b' = b
    · subst hb
      simp only [St.setKids, upd_same]
      refine (Ring.mem_remove hn m x).mpr ⟨hx, ?_⟩
      intro hxm
      subst hxm
      rcases hm with hm | hm
      · exact hxK hm
      · rw [hm] at ha; cases ha
    · simpa [St.setKids, upd_apply, hb] using hx
  · intro b' hb'
    by_cases hb : b' = b
    · subst hb
      simp only [St.setKids, upd_same]
      exact Ring.nodup_remove hn m
    · simpa [St.setKids, upd_apply, hb] using hb'
  · intro k d x hx; exact hx
  · intro k d x hx _ _ _; exact hx
  · intro k d hd; exact hd

theorem preEdit_setPar {s : St} {K : List Nat} (m : Nat) (p : Option Nat)
    (hm : m ∈ K ∨ s.alive m = false) : PreEdit s (s.setPar m p) K := by
  constructor
  any_goals rfl
  · intro o ho ha
    have : o ≠ m := by
      intro h
      subst h
      rcases hm with hm | hm
      · exact ho hm
      · rw [hm] at ha; cases ha
    simp [St.setPar, upd_apply, this]
  · intro b x hx; exact hx
  · intro b x hx _ _ _; exact hx
  · intro b hb; exact hb
  · intro k d x hx; exact hx
  · intro k d x hx _ _ _; exact hx
  · intro k d hd; exact hd

theorem preEdit_chSet_remove {s : St} {K : List Nat} (k : Kind) (d c : Nat) (hn : (s.chGet k d).Nodup)
    (hc : c ∈ K ∨ s.alive c = false) : PreEdit s (s.chSet k d (Ring.remove (s.chGet k d) c)) K := by
  have hf : ∀ (f : St → Nat → List Nat), True := fun _ => trivial
  constructor
  any_goals (cases k <;> rfl)
  · intro o _ _; cases k <;> rfl
  · intro b x hx; cases k <;> exact hx
  · intro b x hx _ _ _; cases k <;> exact hx
  · intro b hb; cases k <;> exact hb
  · intro k' d' x hx
    rw [chGet_chSet] at hx
    split at hx
    · rename_i h
      have := ((Ring.mem_remove hn c x).mp hx).1
      rw [chGet_slot s k', h.1, ← chGet_slot, h.2]
      exact this
    · exact hx
  · intro k' d' x hx ha hxK _
    rw [chGet_chSet]
    split
    · rename_i h
      rw [chGet_slot s k', h.1, ← chGet_slot, h.2] at hx
      refine (Ring.mem_remove hn c x).mpr ⟨hx, ?_⟩
      intro hxc
      subst hxc
      rcases hc with hc | hc
      · exact hxK hc
      · rw [hc] at ha; cases ha
    · exact hx
  · intro k' d' hd
    rw [chGet_chSet]
    split
    · exact Ring.nodup_remove hn c
    · exact hd

theorem preEdit_addBytes {s : St} {K : List Nat} (d : Nat) (n : Int) : PreEdit s (s.addBytes d n) K := by
  constructor
  any_goals rfl
  · intro o _ _; rfl
  · intro b x hx; exact hx
  · intro b x hx _ _ _; exact hx
  · intro b hb; exact hb
  · intro k d x hx; cases k <;> exact hx
  · intro k d x hx _ _ _; cases k <;> exact hx
  · intro k d hd; cases k <;> exact hd

end Occa.Gc
