/-
What each destructor / delete function of the handle model does, as `Killed` facts.
-/
import OccaProofs.Lemmas.GcKilled

namespace Occa.Gc

@[simp] theorem St.touch_alive {s : St} {o : Nat} (h : s.alive o = true) : s.touch o = s := by
  simp [St.touch, h]

/-- the loop that NULLs all wrappers: every handle of the ring gets a NULL pointer, the ring is empty -/
theorem nullWrappers_eq (o : Nat) : ∀ (n : Nat) (s : St), (s.ring o).length = n → (s.ring o).Nodup →
    nullWrappers n s o =
      { s with ring := upd s.ring o [], ptr := fun v => if v ∈ s.ring o then none else s.ptr v } := by
  intro n
  induction n with
  | zero =>
    intro s hl _
    have h0 : s.ring o = [] := List.length_eq_zero_iff.mp hl
    unfold nullWrappers
    apply St.ext
    all_goals first | rfl | skip
    · funext x; by_cases hx : x = o <;> simp [upd_apply, hx, h0]
    · funext v; simp [h0]
  | succ n ih =>
    intro s hl hn
    match hr : s.ring o, hl with
    | [], hl => simp at hl
    | v :: t, hl =>
      have hstep : nullWrappers (n+1) s o
          = nullWrappers n ((s.setRing o (Ring.remove (s.ring o) v)).setPtr v none) o := by
        conv => lhs; unfold nullWrappers
        simp only [hr]
      rw [hstep]
      have hn' : (v :: t).Nodup := hr ▸ hn
      have hr1 : ((s.setRing o (Ring.remove (s.ring o) v)).setPtr v none).ring o = Ring.remove (v :: t) v := by
        simp [St.setRing, St.setPtr, hr]
      have hlen : (Ring.remove (v :: t) v).length = n := by
        rw [Ring.remove_head_length]; simpa using hl
      rw [ih _ (by rw [hr1]; exact hlen) (by rw [hr1]; exact Ring.nodup_remove hn' v)]
      apply St.ext
      all_goals first | rfl | skip
      · funext x; by_cases hx : x = o <;> simp [St.setRing, St.setPtr, upd_apply, hx]
      · funext w
        simp only [hr1]
        by_cases hw : w = v
        · subst hw; simp [St.setRing, St.setPtr]
        · have : w ∈ Ring.remove (v :: t) v ↔ w ∈ t := by
            rw [Ring.mem_remove hn']; simp [hw]
          simp [St.setRing, St.setPtr, upd_apply, hw, this]

end Occa.Gc
