/-
Every operation keeps the invariant: the creating calls.
-/
import OccaProofs.Lemmas.GcStep2

namespace Occa.Gc

theorem alive_ne_next {s : St} (h : Inv s) {x : Nat} (hx : s.alive x = true) : x ≠ s.next := by
  have := h.inv.alive_lt x hx; omega

/-- pattern A for the three classes of device children with handles -/
theorem step_child {s : St} (h : Inv s) {K ks : Kind} {hk : HKind} {dv i : Nat}
    (hK1 : K ≠ .dev) (hK2 : K ≠ .mem) (hK3 : K ≠ .buf) (hslot : slot K = slot ks) (hhk : hk.obj = K)
    (hda : s.alive dv = true) (hdk : s.kind dv = .dev) (hv : s.vlive (.user hk i) = true) :
    Inv (assignTemp (tempOf (((s.alloc K (some dv) 0).1).chSet ks dv
      (Ring.add (((s.alloc K (some dv) 0).1).chGet ks dv) s.next)) hk s.next) (.user hk i) hk) := by
  obtain ⟨r1, r2, _, _, hvl, _, hal, hkd⟩ := h.inv.new_child (K := K) (ks := ks) (hk := hk) (dv := dv)
    hK1 hK2 hK3 hslot hhk hda hdk (h.tmp hk) 0
  refine create_finish h r1 r2 hvl ?_ ?_ hv
  · intro x hx
    rw [hal] at hx
    rw [hkd]
    split at hx
    · rename_i e; right; simp only [e, if_true]; exact hK1
    · exact Or.inl hx
  · intro x hx
    rw [hkd]; simp [alive_ne_next h hx]

theorem step_mkker {s : St} (h : Inv s) (k d : Nat) : Inv (step s (.mkker k d)).1 := by
  simp only [step]
  split
  · exact h
  · rename_i hg
    have hg' : s.vlive (.user .ker k) = true ∧ s.vlive (.user .dev d) = true := by simpa using hg
    split
    · exact h
    · rename_i dv hdv
      obtain ⟨ha, hk, _⟩ := h.ptr_facts hdv
      simp only [St.touch_alive ha]
      exact step_child h (K := .ker) (ks := .ker) (hk := .ker) (by decide) (by decide) (by decide) rfl rfl ha hk hg'.1

theorem step_mkstr {s : St} (h : Inv s) (st d : Nat) : Inv (step s (.mkstr st d)).1 := by
  simp only [step]
  split
  · exact h
  · rename_i hg
    have hg' : s.vlive (.user .str st) = true ∧ s.vlive (.user .dev d) = true := by simpa using hg
    split
    · exact h
    · rename_i dv hdv
      obtain ⟨ha, hk, _⟩ := h.ptr_facts hdv
      simp only [St.touch_alive ha]
      exact step_child h (K := .str) (ks := .str) (hk := .str) (by decide) (by decide) (by decide) rfl rfl ha hk hg'.1

theorem step_mkpool {s : St} (h : Inv s) (p d : Nat) : Inv (step s (.mkpool p d)).1 := by
  simp only [step]
  split
  · exact h
  · rename_i hg
    have hg' : s.vlive (.user .pool p) = true ∧ s.vlive (.user .dev d) = true := by simpa using hg
    split
    · exact h
    · rename_i dv hdv
      obtain ⟨ha, hk, _⟩ := h.ptr_facts hdv
      simp only [St.touch_alive ha]
      exact step_child h (K := .pool) (ks := .buf) (hk := .pool) (by decide) (by decide) (by decide) rfl rfl ha hk hg'.1

/-- `v = X()`: assigning an uninitialised handle -/
theorem step_set_null {s : St} (h : Inv s) (k : HKind) (i : Nat) (hv : s.vlive (.user k i) = true) :
    Inv (setMode s (.user k i) none) := by
  obtain ⟨h1, h2, _⟩ := h.inv.set_mode (v := .user k i) (tgt := none) hv
    (by intro d' hd'; cases hd') (by intro o ho; cases ho)
  exact h.of_frame h1 k i (fun w _ hw => h2.vlive w hw) h2.kind h2.alive_sub

theorem malloc_core {s : St} (h : Inv s) {dv m : Nat} (n : Nat) (ha : s.alive dv = true) (hk : s.kind dv = .dev)
    (hv : s.vlive (.user .mem m) = true) :
    let s1 := (s.alloc .buf (some dv) n).1
    let s2 := s1.chSet .buf dv (Ring.add (s1.chGet .buf dv) s.next)
    let s3 := (s2.alloc .mem (some s.next) n).1
    let s4 := s3.setKids s.next (Ring.add (s3.kids s.next) s2.next)
    let s5 := s4.addBytes dv n
    Inv (assignTemp (tempOf s5 .mem s2.next) (.user .mem m) .mem) := by
  intro s1 s2 s3 s4 s5
  obtain ⟨r1, r2, hvl, _, e2, hal, hkd⟩ := h.inv.new_malloc ha hk (h.tmp .mem) n
  refine create_finish h r1 r2 hvl ?_ ?_ hv
  · intro x hx
    have hx' := hx
    rw [hal x] at hx'
    rw [hkd x]
    split at hx'
    · rename_i e; right; simp [e]
    · split at hx'
      · rename_i e1 e; right; simp [e1, e]
      · exact Or.inl hx'
  · intro x hx
    have h1 := alive_ne_next h hx
    have h2 : x ≠ s.next + 1 := by
      have := h.inv.alive_lt x hx; omega
    rw [hkd x]; simp [h1, h2]

theorem step_malloc {s : St} (h : Inv s) (m d n : Nat) : Inv (step s (.malloc m d n)).1 := by
  simp only [step]
  split
  · exact h
  · rename_i hg
    have hg' : s.vlive (.user .mem m) = true ∧ s.vlive (.user .dev d) = true := by simpa using hg
    split
    · exact h
    · rename_i dv hdv
      obtain ⟨ha, hk, _⟩ := h.ptr_facts hdv
      split
      · exact step_set_null h .mem m hg'.1
      · simp only [St.touch_alive ha]
        exact malloc_core h n ha hk hg'.1

theorem mem_core {s : St} (h : Inv s) {b m : Nat} (n : Nat) (hba : s.alive b = true)
    (hbk : s.kind b = .buf ∨ s.kind b = .pool) (hnin : ∀ p, s.alive p = true → s.inner p ≠ some b)
    (hv : s.vlive (.user .mem m) = true) :
    let sA := (s.alloc .mem (some b) n).1
    let sL := sA.setKids b (Ring.add (sA.kids b) s.next)
    Inv (assignTemp (tempOf sL .mem s.next) (.user .mem m) .mem) := by
  intro sA sL
  obtain ⟨r1, r2, hn⟩ := h.inv.new_mem hba hbk hnin (h.tmp .mem) n
  refine create_finish h r1 r2 hn.vlive ?_ ?_ hv
  · intro x hx
    have hx' := hx
    rw [hn.alive x] at hx'
    rw [hn.kind x]
    split at hx'
    · rename_i e; right; simp [e]
    · exact Or.inl hx'
  · intro x hx
    rw [hn.kind x]; simp [alive_ne_next h hx]

theorem step_slice {s : St} (h : Inv s) (m1 m2 off n : Nat) : Inv (step s (.slice m1 m2 off n)).1 := by
  simp only [step]
  split
  · exact h
  · rename_i hg
    have hg' : s.vlive (.user .mem m1) = true ∧ s.vlive (.user .mem m2) = true := by simpa using hg
    split
    · exact step_set_null h .mem m1 hg'.1
    · rename_i mo hmo
      obtain ⟨ha, hk, _⟩ := h.ptr_facts hmo
      simp only [St.touch_alive ha]
      split
      · exact h
      · obtain ⟨b, hb1, hb2⟩ := h.inv.mem_par mo ha hk
        obtain ⟨_, _, _, hba, hbk⟩ := h.inv.kids_ok b mo hb2
        simp only [hb1, St.touch_alive hba]
        have hnin : ∀ p, s.alive p = true → s.inner p ≠ some b := by
          intro p hpa hin
          have := (h.inv.inner_ok p b hpa hin).2.2.2.1
          rw [this] at hb2; simp at hb2
        exact mem_core h n hba hbk hnin hg'.1

end Occa.Gc
