/-
Progress: on a well-shaped token sequence the parser never reports an error, so together with
`printToks_parse` every such sequence is accepted and printed back token for token.
-/
import OccaProofs.Lemmas.ExprMain

namespace Occa.Expr
open Occa.Gen

/-- after an operand `operatorIsLeftUnary` gives an answer (no "Ambiguous operator") -/
theorem isLeftUnary_O_ok (o : Op) (prev next : Option Tok)
    (hprev : (∃ t, prev = some t ∧ (∀ x, t ≠ .op x)) ∨ (∃ b, prev = some (.op b) ∧ has b.ty T.pairEnd = true) ∨
             (∃ p, prev = some (.op p) ∧ has p.ty T.rightUnary = true))
    (hnext : (has o.ty T.increment || has o.ty T.decrement) = true →
              next.isNone = true ∨ isPairEndTok next = true ∨ isOperatorTok next = true)
    (hchain : (has o.ty T.increment || has o.ty T.decrement) = true → isPostfixTok prev = true → isIncDecTok next = false) :
    ∃ l, isLeftUnary o prev next false = .ok l := by
  have key : ∀ (p : Tok), prev = some p → has p.opType T.pairStart = false →
      has p.opType T.leftUnary = false → has p.opType T.binary = false →
      (has p.opType T.unary = true → isPostfixTok prev = true) →
      (has p.opType T.unary = false → tokIsOp p = false ∨ has p.opType T.pairEnd = true) →
      ∃ l, isLeftUnary o prev next false = .ok l := by
    intro p hp h1 h2 h3 h4 h5
    cases hnx : next with
    | none => subst hp; exact ⟨false, by simp [isLeftUnary]⟩
    | some nx =>
      subst hp
      simp only [isLeftUnary, flag_castEnd, flag_pairEnd, flag_operand, Bool.true_and, h1, Bool.false_eq_true,
        if_false, Bool.and_false, h2, h3, Bool.false_and, Bool.or_false, Bool.not_false, Bool.and_true]
      by_cases hpe : has nx.opType T.pairEnd = true
      · exact ⟨false, by simp [hpe]⟩
      · simp only [hpe, Bool.false_eq_true, if_false]
        by_cases hou : (has o.ty T.increment || has o.ty T.decrement) = true
        · simp only [hou, Bool.not_true, Bool.and_false, Bool.false_and, Bool.false_eq_true, if_false, if_true]
          have hn : (has nx.opType T.unary || has nx.opType T.binary) = true := by
            rcases hnext hou with hn | hn | hn
            · rw [hnx] at hn; simp at hn
            · rw [hnx] at hn
              cases nx with
              | op x => simp [isPairEndTok] at hn; exact absurd hn hpe
              | _ => simp [isPairEndTok] at hn
            · rw [hnx] at hn; simpa [isOperatorTok] using hn
          by_cases hu : has p.opType T.unary = true
          · have hinc := hchain hou (h4 hu)
            rw [hnx] at hinc
            have hnc : has nx.opType (T.increment.1 ||| T.decrement.1 ||| T.parentheses.1,
                T.increment.2 ||| T.decrement.2 ||| T.parentheses.2) = false := by
              cases nx with
              | op x =>
                simp only [isIncDecTok] at hinc
                have : ∀ y : Op, (has y.ty T.unary || has y.ty T.binary) = true →
                    (has y.ty T.increment || has y.ty T.decrement) = false →
                    has y.ty (T.increment.1 ||| T.decrement.1 ||| T.parentheses.1,
                      T.increment.2 ||| T.decrement.2 ||| T.parentheses.2) = false := forall_op (by decide +kernel)
                exact this x (by simpa [Tok.opType] using hn) hinc
              | _ => simp [Tok.opType] at hn; exact absurd hn (by simp [none_facts.2.1, none_facts.2.2.1])
            simp only [hu, hn, bne_self_eq_false, Bool.false_eq_true, if_false, Bool.not_true, hnc, Bool.and_false]
            exact ⟨_, rfl⟩
          · have hu' : has p.opType T.unary = false := by simpa using hu
            refine ⟨false, ?_⟩
            simp [hu', hn]
        · have hou' : (has o.ty T.increment || has o.ty T.decrement) = false := by simpa using hou
          simp only [hou', Bool.not_false, Bool.and_true, Bool.true_and, Bool.false_eq_true, if_false]
          by_cases hu : has p.opType T.unary = true
          · exact ⟨false, by simp [hu]⟩
          · simp only [hu, Bool.false_eq_true, if_false]
            rcases h5 (by simpa using hu) with h6 | h6
            · exact ⟨false, by simp [h6]⟩
            · by_cases h7 : tokIsOp p = true
              · exact ⟨false, by simp [h7, h6]⟩
              · exact ⟨false, by simp [h7]⟩
  rcases hprev with ⟨t, ht, hno⟩ | ⟨b, hb, hbe⟩ | ⟨p, hp, hpr⟩
  · have hty : t.opType = T.none_ := by
      cases t with
      | op x => exact absurd rfl (hno x)
      | _ => rfl
    have hto : tokIsOp t = false := by
      cases t with
      | op x => exact absurd rfl (hno x)
      | _ => rfl
    have nf := none_facts
    refine key t ht (by rw [hty]; exact nf.1) (by rw [hty]; decide) (by rw [hty]; exact nf.2.2.1) ?_ (fun _ => Or.inl hto)
    rw [hty, nf.2.1]; simp
  · obtain ⟨f1, f2, f3, f4, _⟩ := pairEnd_facts b hbe
    refine key (.op b) hb f1 f4 f3 ?_ (fun _ => Or.inr hbe)
    simp [Tok.opType, f2]
  · obtain ⟨f1, f2, f3, f4, f5⟩ := ru_facts p hpr
    exact key (.op p) hp f1 f4 f3 (fun _ => by rw [hp]; simp [isPostfixTok, hpr]) (fun h => by simp [Tok.opType, f2] at h)

/-- `applyFasterOperators` never fails when an operand is available (incoming operator is not `:`) -/
theorem popFaster_ok (o : Op) (prev : Option Tok) (hc : has o.ty T.colon = false) :
    ∀ (fs : List Frame), FramesOk fs → ∀ (top : Option Expr), ModeO fs top →
      ∃ r, popFaster o prev (scopeOut fs top) (scopeOps fs) = .ok r := by
  intro fs
  induction fs with
  | nil => intro _ top _; exact ⟨_, popFaster_nil o prev _⟩
  | cons f fs ih =>
    intro hok top hm
    have hops : scopeOps (f :: fs) = f.node :: scopeOps fs := rfl
    rw [hops, popFaster_cons]
    by_cases hr : f.reducible = true
    · obtain ⟨hps, hqm⟩ := frame_ty f (hok.ok f (by simp)) hr
      simp only [hps, hqm, hc, Bool.false_eq_true, if_false, Bool.and_false, Bool.not_false]
      split
      · exact ⟨_, rfl⟩
      · split
        · obtain ⟨r, hres⟩ := frame_result_some f hr top hm.cases
          obtain ⟨happ, _⟩ := apply_frame f (hok.ok f (by simp)) top r hres prev (scopeOut fs none)
          rw [scopeOut_cons, happ]
          simp only
          rw [← scopeOut_some]
          have hm' : ModeO fs (some r) := Or.inl ⟨rfl, fun g hg => by
            cases fs with
            | nil => simp at hg
            | cons g' fs' => simp at hg; subst hg; exact hok.head_tail_notPost⟩
          exact ih hok.tail (some r) hm'
        · exact ⟨_, rfl⟩
    · cases f with
      | opn n =>
        have : has n.op.ty T.pairStart = true := hok.ok (Frame.opn n) (by simp)
        refine ⟨(scopeOut (Frame.opn n :: fs) top, n :: scopeOps fs), ?_⟩
        simp [Frame.node, this]
      | quest n c =>
        have hq : (n.op.ty == T.questionMark) = true := hok.ok (Frame.quest n c) (by simp)
        obtain ⟨_, _, _, _, _, hps⟩ := ty_facts_q n.op hq
        have hq' : has n.op.ty T.questionMark = true := by rw [has_q_eq]; exact hq
        simp only [Frame.node, hps, hq', hc, Bool.false_eq_true, if_false, Bool.not_false, Bool.and_self, if_true]
        split <;> exact ⟨_, rfl⟩
      | pre n => simp [Frame.reducible, Frame.isOpn, Frame.isQuest] at hr
      | bin n l => simp [Frame.reducible, Frame.isOpn, Frame.isQuest] at hr
      | post n e => simp [Frame.reducible, Frame.isOpn, Frame.isQuest] at hr
      | colon n c t q => simp [Frame.reducible, Frame.isOpn, Frame.isQuest] at hr

/-- ... and neither does an incoming `:` that has its `?` -/
theorem popColon_ok (o : Op) (prev : Option Tok) (hc : has o.ty T.colon = true) :
    ∀ (fs : List Frame), FramesOk fs → ∀ (top : Option Expr), ModeO fs top → questCount fs > 0 →
      ∃ r, popFaster o prev (scopeOut fs top) (scopeOps fs) = .ok r := by
  intro fs
  induction fs with
  | nil => intro _ _ _ hq; simp [questCount] at hq
  | cons f fs ih =>
    intro hok top hm hq
    have hoq := colon_not_q o hc
    have hops : scopeOps (f :: fs) = f.node :: scopeOps fs := rfl
    rw [hops, popFaster_cons]
    obtain ⟨hno, hcase⟩ := questCount_pos_cons hq
    by_cases hr : f.reducible = true
    · obtain ⟨hps, hqm⟩ := frame_ty f (hok.ok f (by simp)) hr
      simp only [hps, hqm, hc, hoq, Bool.false_eq_true, if_false, Bool.and_false, Bool.false_and, Bool.not_true, if_true]
      obtain ⟨r, hres⟩ := frame_result_some f hr top hm.cases
      obtain ⟨happ, _⟩ := apply_frame f (hok.ok f (by simp)) top r hres prev (scopeOut fs none)
      rw [scopeOut_cons, happ]
      simp only
      rw [← scopeOut_some]
      have hm' : ModeO fs (some r) := Or.inl ⟨rfl, fun g hg => by
        cases fs with
        | nil => simp at hg
        | cons g' fs' => simp at hg; subst hg; exact hok.head_tail_notPost⟩
      have hq' : questCount fs > 0 := by
        rcases hcase with h1 | ⟨_, h2⟩
        · simp [Frame.reducible] at hr; rw [hr.2] at h1; simp at h1
        · exact h2
      exact ih hok.tail (some r) hm' hq'
    · cases f with
      | opn n => simp [Frame.isOpn] at hno
      | quest n c =>
        have hq1 : (n.op.ty == T.questionMark) = true := hok.ok (Frame.quest n c) (by simp)
        obtain ⟨_, _, _, _, _, hps⟩ := ty_facts_q n.op hq1
        have hq' : has n.op.ty T.questionMark = true := by rw [has_q_eq]; exact hq1
        simp only [Frame.node, hps, hq', hc, hoq, Bool.false_eq_true, if_false, Bool.false_and, Bool.not_true, if_true]
        obtain ⟨t, rfl⟩ := hm.top_some_of_notPost (f := Frame.quest n c) rfl
        have : scopeOut (Frame.quest n c :: fs) (some t) = t :: c :: scopeOut fs none := by
          simp [scopeOut, Frame.outs]
        rw [this, apply_quest n prev t _ hq1]
        exact ⟨_, rfl⟩
      | pre n => simp [Frame.reducible, Frame.isOpn, Frame.isQuest] at hr
      | bin n l => simp [Frame.reducible, Frame.isOpn, Frame.isQuest] at hr
      | post n e => simp [Frame.reducible, Frame.isOpn, Frame.isQuest] at hr
      | colon n c t q => simp [Frame.reducible, Frame.isOpn, Frame.isQuest] at hr

end Occa.Expr

namespace Occa.Expr
open Occa.Gen

theorem ru_excl : ∀ o : Op, has o.ty T.rightUnary = true →
    (o.ty == T.questionMark) = false ∧ (o.ty == T.colon) = false ∧ has o.ty T.binary = false := by
  intro o; revert o; exact forall_op (by decide +kernel)

/-- the parser's step succeeds whenever the shape automaton's step does -/
theorem step_progress (s s' : Sh) (σ : St) (t : Tok) (next : Option Tok) (consumed : List Tok)
    (cur : Lvl) (stk : List Lvl) (hinv : Inv s σ consumed cur stk) (hlex : ∀ o, t = .op o → o ∈ registered)
    (hsh : shStep s t next = some s') : ∃ σ', step σ t next = .ok σ' := by
  cases ht : t.isOp with
  | false => exact ⟨_, step_nonop σ t next ht⟩
  | true =>
    cases t with
    | op o =>
      have hreg := hlex o rfl
      obtain ⟨hrep, hgood⟩ := hinv.levels.cur_rep
      by_cases h1 : has o.ty T.pairStart = true
      · exact ⟨_, step_open_eq σ o next h1⟩
      · have h1' : has o.ty T.pairStart = false := by simpa using h1
        by_cases h2 : has o.ty T.pairEnd = true
        · -- closing a pair
          cases hstack : s.stack with
          | nil => simp [shStep, h1', h2, hstack] at hsh
          | cons sc rest =>
            have hl := hinv.levels
            rw [hstack] at hl
            obtain ⟨par, stk', psc, pstack, n, hstk, hσstack, _, _, hbase, hpair, hlev⟩ := hl.inv_push
            subst hstk
            obtain ⟨hparrep, hpargood⟩ := hlev.cur_rep
            rw [shStep_close_eq s o next sc rest h1' h2 hstack] at hsh
            by_cases hcond : (o.ty == sc.closerTy && s.pendingQ == 0 && (!s.needOperand || s.content == .empty)) = true
            · simp only [Bool.and_eq_true, beq_iff_eq, Bool.or_eq_true, Bool.not_eq_true'] at hcond
              obtain ⟨⟨hc1, hc2⟩, hc3⟩ := hcond
              have hfs : cur.fs = cur.pre ++ baseFrames (some n) := by rw [Lvl.fs, hbase]
              have hopn : has n.op.ty T.pairStart = true := hgood.frames.ok (Frame.opn n) (by rw [hfs]; simp [baseFrames])
              have hm : (o.ty == shl1 n.op.ty) = true := by rw [hc1, hpair.closer]; simp
              obtain ⟨v', hclose, _, hvcl, hvty, hvcan⟩ :=
                close_core s σ consumed cur par stk' hinv o n psc hbase hparrep hpargood h2 hm hc2
                  (by rcases hc3 with h | h
                      · exact Or.inl h
                      · exact Or.inr (by simpa using h))
              have hcok : sc.inE = true → has o.ty T.parentheses = true → isTypeNode v' = true → sc.castOk = true := by
                intro hE hpo hT
                have hT' : (s.content == .oneType) = true := by simpa using hvty.mp hT
                have hcnd : (o.ty == sc.closerTy && s.pendingQ == 0 && (!s.needOperand || s.content == .empty)) = true := by
                  simp only [Bool.and_eq_true, beq_iff_eq, Bool.or_eq_true, Bool.not_eq_true']
                  exact ⟨⟨hc1, hc2⟩, hc3⟩
                cases hck : sc.castOk with
                | true => rfl
                | false => simp [hcnd, hE, hpo, hT', hck] at hsh
              obtain ⟨out', ops', par', hatt, _⟩ :=
                attach_core par psc n o sc σ.cur.before v' (isTypeNode v') hparrep hpargood hpair hopn hm hvcl rfl hvcan hcok
              rw [step_close_eq σ o next psc pstack h1' h2 hσstack, hclose]
              simp only [hatt]
              exact ⟨_, rfl⟩
            · simp [hcond] at hsh
        · have h2' : has o.ty T.pairEnd = false := by simpa using h2
          rw [shStep_op_plain s o next h1' h2'] at hsh
          rw [step_op_plain σ o next h1' h2']
          have hmode := hinv.mode
          by_cases hne : s.needOperand = true
          · -- a prefix operator
            simp only [hne, if_true] at hmode
            obtain ⟨htop, hnp, hprev⟩ := hmode
            rw [hne] at hsh
            cases hres : resolveBy true o with
            | none => simp [hres] at hsh
            | some o' =>
              simp only [hres, if_true] at hsh
              by_cases hcond : (prefixOk o' && next.isSome && !isPairEndTok next && prefixKeeps o' s) = true
              · simp only [Bool.and_eq_true, Bool.not_eq_true'] at hcond
                obtain ⟨⟨⟨hpo, hnx⟩, hnpe⟩, hkeep⟩ := hcond
                have hresolve : resolve o σ.prev next σ.prevCastEnd = .ok o' := by
                  by_cases ha : has o.ty T.ambiguous = true
                  · have hl : isLeftUnary o σ.prev next σ.prevCastEnd = .ok true := by
                      apply isLeftUnary_E o σ.prev next σ.prevCastEnd hnx hnpe
                      rw [hinv.prev, hinv.castEnd]
                      by_cases hce : s.prevCastEnd = true
                      · exact Or.inl hce
                      · simp only [hce, Bool.false_eq_true, if_false] at hprev
                        rcases hprev with ⟨_, hp⟩ | ⟨f, fs', hfs, hp⟩
                        · exact Or.inr (Or.inl hp)
                        · refine Or.inr (Or.inr ⟨f.node.op, hp, ?_⟩)
                          exact frame_prev_kind f (hgood.frames.ok f (by rw [hfs]; simp)) (hnp f (by rw [hfs]; rfl))
                    rw [resolve_of_isLeftUnary o _ _ _ true hl, hres]
                  · have := resolve_nonAmb o σ.prev next σ.prevCastEnd true (by simpa using ha)
                    rw [this.1]
                    rw [this.2] at hres
                    simp at hres; rw [hres]
                have hpop : popFaster o' σ.prev σ.cur.out σ.cur.ops = .ok (σ.cur.out, σ.cur.ops) := by
                  rw [hrep.2]
                  cases hfs : cur.fs with
                  | nil => simp [scopeOps, popFaster_nil]
                  | cons f fs' =>
                    show popFaster o' σ.prev σ.cur.out (f.node :: scopeOps fs') = _
                    apply popFaster_keep _ _ _ _ _ _ hpo
                    unfold prefixKeeps at hkeep
                    by_cases hce : s.prevCastEnd = true
                    · simp only [hce, if_true] at hkeep hprev
                      obtain ⟨n, fs'', hfs2, hn⟩ := hprev
                      rw [hfs] at hfs2; simp only [List.cons.injEq] at hfs2
                      rw [hfs2.1]; simpa [Frame.node, hn] using hkeep
                    · simp only [hce, Bool.false_eq_true, if_false] at hkeep hprev
                      rcases hprev with ⟨hnil, _⟩ | ⟨g, fs'', hfs2, hp⟩
                      · rw [hfs] at hnil; simp at hnil
                      · rw [hfs] at hfs2; simp only [List.cons.injEq] at hfs2
                        rw [hp] at hkeep; rw [hfs2.1]; simpa using hkeep
                rw [hresolve]
                simp only [hpop]
                exact ⟨_, rfl⟩
              · simp [hcond] at hsh
          · -- an operator after an operand
            have hno : s.needOperand = false := by simpa using hne
            simp only [hno, Bool.false_eq_true, if_false] at hmode
            obtain ⟨hkinds, hnotpost⟩ := prevO_kinds hmode hgood
            obtain ⟨hce, hm, _⟩ := hmode
            rw [hno] at hsh
            cases hres : resolveBy false o with
            | none => simp [hres] at hsh
            | some o' =>
              simp only [hres, Bool.false_eq_true, if_false] at hsh
              obtain ⟨_, _, _, _, _, _, rf7, _⟩ := resolveBy_facts o hreg false o' hres
              -- the side conditions on what follows a postfix operator
              have hpost : (has o.ty T.increment || has o.ty T.decrement) = true →
                  (next.isNone = true ∨ isPairEndTok next = true ∨ isOperatorTok next = true) ∧
                  (isPostfixTok s.prev = true → isIncDecTok next = false) := by
                intro hou
                have hru := (rf7 hou).2 rfl
                obtain ⟨e1, e2, e3⟩ := ru_excl o' hru
                simp only [e1, e2, e3, Bool.false_eq_true, if_false, hru, if_true] at hsh
                by_cases hc : ((next.isNone || isPairEndTok next || isOperatorTok next) && !(isPostfixTok s.prev && isIncDecTok next)) = true
                · simp only [Bool.and_eq_true, Bool.or_eq_true, Bool.not_eq_true', Bool.and_eq_false_iff] at hc
                  refine ⟨?_, ?_⟩
                  · rcases hc.1 with (h | h) | h
                    · exact Or.inl h
                    · exact Or.inr (Or.inl h)
                    · exact Or.inr (Or.inr h)
                  · intro hp
                    rcases hc.2 with h | h
                    · rw [hp] at h; simp at h
                    · exact h
                · rw [if_neg hc] at hsh; simp at hsh
              have hresolve : resolve o σ.prev next σ.prevCastEnd = .ok o' := by
                by_cases ha : has o.ty T.ambiguous = true
                · rw [hinv.castEnd, hce, hinv.prev]
                  obtain ⟨l, hl⟩ := isLeftUnary_O_ok o s.prev next hkinds (fun h => (hpost h).1) (fun h => (hpost h).2)
                  have : l = false := isLeftUnary_O o s.prev next l hkinds (fun h => (hpost h).1) hl
                  subst this
                  rw [resolve_of_isLeftUnary o _ _ _ false hl, hres]
                · have := resolve_nonAmb o σ.prev next σ.prevCastEnd false (by simpa using ha)
                  rw [this.2] at hres; simp at hres
                  rw [this.1, hres]
              rw [hresolve]
              have hpopok : ∃ r, popFaster o' σ.prev σ.cur.out σ.cur.ops = .ok r := by
                rw [hrep.1, hrep.2]
                by_cases hcol : has o'.ty T.colon = true
                · apply popColon_ok o' σ.prev hcol cur.fs hgood.frames cur.top hm
                  have hc' : (o'.ty == T.colon) = true := by rw [← has_c_eq]; exact hcol
                  have hq' : (o'.ty == T.questionMark) = false := by
                    have : ∀ x : Op, (x.ty == T.colon) = true → (x.ty == T.questionMark) = false := forall_op (by decide +kernel)
                    exact this o' hc'
                  simp only [hq', hc', Bool.false_eq_true, if_false, if_true] at hsh
                  by_cases hp : s.pendingQ > 0
                  · rw [← hinv.pending]; exact hp
                  · simp [hp] at hsh
                · exact popFaster_ok o' σ.prev (by simpa using hcol) cur.fs hgood.frames cur.top hm
              obtain ⟨⟨out', ops'⟩, hr⟩ := hpopok
              simp only [hr]
              exact ⟨_, rfl⟩
    | ident _ => simp [Tok.isOp] at ht
    | prim _ => simp [Tok.isOp] at ht
    | str _ _ _ => simp [Tok.isOp] at ht
    | chr _ _ _ => simp [Tok.isOp] at ht
    | vtype _ _ => simp [Tok.isOp] at ht

end Occa.Expr

namespace Occa.Expr
open Occa.Gen

theorem run_progress (nxt : Option Tok) : ∀ (ts : List Tok) (s sf : Sh) (σ : St) (consumed : List Tok) (cur : Lvl) (stk : List Lvl),
    Inv s σ consumed cur stk → Lexed ts → shRun nxt s ts = some sf → ∃ σf, run nxt σ ts = .ok σf := by
  intro ts
  induction ts with
  | nil => intro s sf σ consumed cur stk _ _ _; exact ⟨σ, rfl⟩
  | cons t ts ih =>
    intro s sf σ consumed cur stk hinv hlex hsh
    rw [shRun_cons] at hsh
    rw [run_cons]
    cases h1 : shStep s t (peekTok nxt ts) with
    | none => rw [h1] at hsh; simp at hsh
    | some s1 =>
      rw [h1] at hsh
      simp only at hsh
      have hl : ∀ o, t = .op o → o ∈ registered := fun o ho => hlex o (by rw [ho]; simp)
      obtain ⟨σ1, h2⟩ := step_progress s s1 σ t _ consumed cur stk hinv hl h1
      rw [h2]
      simp only
      obtain ⟨c1, k1, hinv1⟩ := step_inv s s1 σ σ1 t _ consumed cur stk hinv hl h1 h2
      exact ih s1 sf σ1 (consumed ++ [t]) c1 k1 hinv1 (fun o ho => hlex o (by simp [ho])) hsh

/-- **every well-shaped token sequence is accepted, and printed back token for token** -/
theorem parse_accepts (ts : List Tok) (hshape : CShape ts = true) (hlex : Lexed ts) :
    ∃ e, parse ts = .ok e ∧ printToks e = ts := by
  cases ts with
  | nil => exact ⟨.empty, rfl, rfl⟩
  | cons t ts =>
    have hshape' := hshape
    unfold CShape at hshape
    cases hsh : shRun none {} (t :: ts) with
    | none => rw [hsh] at hshape; simp at hshape
    | some sf =>
      obtain ⟨σf, hrun⟩ := run_progress none (t :: ts) {} sf {} [] _ _ inv_init hlex hsh
      rw [hsh] at hshape
      simp only [Bool.and_eq_true, List.isEmpty_iff, beq_iff_eq, Bool.or_eq_true, Bool.not_eq_true',
        List.isEmpty_cons, Bool.false_eq_true, or_false] at hshape
      obtain ⟨⟨hstack, hpend⟩, hmode⟩ := hshape
      obtain ⟨cur, stk, hinv⟩ := run_inv none (t :: ts) {} sf {} σf [] _ _ inv_init hlex hsh hrun
      have hl := hinv.levels
      rw [hstack] at hl
      obtain ⟨hstk, _, hrep, hgood, hbase⟩ := hl.inv_root
      subst hstk
      have hfs : cur.fs = cur.pre := by simp [Lvl.fs, hbase, baseFrames]
      have hmd := hinv.mode
      simp only [hmode, Bool.false_eq_true, if_false] at hmd
      obtain ⟨_, hmo, _⟩ := hmd
      have hred : ∀ f ∈ cur.pre, f.reducible = true :=
        questCount_zero_root cur.pre hgood.noOpn (by rw [← hfs, ← hinv.pending, hpend])
      have hcan : ∀ e, cur.top = some e → canonB e = true ∧ ∀ f, cur.pre.head? = some f → f.accepts (rootPrec e) = true := by
        intro e he
        obtain ⟨c1, c2⟩ := top_accepted hgood e he
        refine ⟨c1, fun f hf => c2 f (by rw [hfs]; exact hf) ?_⟩
        rcases hmo with ⟨_, h⟩ | ⟨h, _⟩
        · exact h f (by rw [hfs]; exact hf)
        · rw [h] at he; simp at he
      obtain ⟨v, _, _, _, _, _, hv3, _⟩ := reduce_all σf.prev cur.pre hred (by rw [← hfs]; exact hgood.frames)
        cur.top (by rw [← hfs]; exact hmo) hgood.topOk hcan
      have hfin : finish σf = .ok v := by
        unfold finish
        rw [hrep.1, hrep.2, hfs]
        have := hv3 []
        simp only [List.append_nil] at this
        rw [this]
      have hparse : parse (t :: ts) = .ok v := by
        unfold parse
        simp only [hrun, hfin]
      exact ⟨v, hparse, printToks_parse (t :: ts) v hshape' hlex hparse⟩

end Occa.Expr
