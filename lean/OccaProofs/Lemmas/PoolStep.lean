/-
Every operation of the model preserves the state invariant `SInv` (with all repairs present), and
what each pool operation does to the memories that stay live (`Preserves`).
-/
import OccaProofs.Lemmas.PoolState

namespace Occa.Pool

/-- every memory live in a pool before is live after, reads back the same bytes, and two bytes are
    the same byte after iff they were before -/
def Preserves (s s' : State) : Prop :=
  ∀ j p p', s.pool j = some p → s'.pool j = some p' → SameContents p p' ∧ SameAliasing p p'

theorem Preserves.refl (s : State) : Preserves s s := by
  intro j p p' h1 h2
  rw [h1] at h2; cases h2
  exact ⟨SameContents.refl _, SameAliasing.refl _⟩

theorem preserves_of_pools_eq {s s' : State} (h : ∀ j, s'.pool j = s.pool j) : Preserves s s' := by
  intro j p p' h1 h2
  rw [h j, h1] at h2; cases h2
  exact ⟨SameContents.refl _, SameAliasing.refl _⟩

theorem preserves_update {s s' : State} {i : Nat} {p p' : Pool} (hp : s.pool i = some p)
    (hpi : s'.pool i = some p') (hpj : ∀ j, j ≠ i → s'.pool j = s.pool j)
    (hrel : SameContents p p' ∧ SameAliasing p p') : Preserves s s' := by
  intro j q q' h1 h2
  by_cases hji : j = i
  · subst hji
    rw [hp] at h1; rw [hpi] at h2; cases h1; cases h2; exact hrel
  · rw [hpj j hji, h1] at h2; cases h2
    exact ⟨SameContents.refl _, SameAliasing.refl _⟩

theorem pool_step {s s' : State} (h : SInv s) {i : Nat} {p p' : Pool} (hp : s.pool i = some p)
    (hnf : s.nextFam ≤ s'.nextFam) (hok : PoolOK s'.nextFam p') (hdev : DevStep s.dev s'.dev p p')
    (hrel : SameContents p p' ∧ SameAliasing p p')
    (hpi : s'.pool i = some p') (hpj : ∀ j, j ≠ i → s'.pool j = s.pool j)
    (hbufs : s'.bufs = s.bufs) (hmems : s'.mems = s.mems)
    (hcross : ∀ m ∈ s.mems, findSlot m.slot p'.resv = none) : SInv s' ∧ Preserves s s' :=
  ⟨sinv_update_pool h hp hnf hok hdev hpi hpj hbufs hmems hcross, preserves_update hp hpi hpj hrel⟩

/-- the slots of `p'` are slots of `p` or slots no device memory uses: no device memory uses them -/
theorem cross_of_members {s : State} (h : SInv s) {i : Nat} {p p' : Pool} (hp : s.pool i = some p)
    (hm : ∀ r' ∈ p'.resv, (∀ m ∈ s.mems, m.slot ≠ r'.slot) ∨ ∃ r ∈ p.resv, r'.slot = r.slot) :
    ∀ m ∈ s.mems, findSlot m.slot p'.resv = none := by
  intro m hmm
  cases hf : findSlot m.slot p'.resv with
  | none => rfl
  | some r' =>
    exfalso
    have hr' := findSlot_some hf
    rcases hm r' hr'.1 with e | ⟨r, hr, e⟩
    · exact e m hmm hr'.2.symm
    · exact findSlot_none (h.cross m hmm i p hp) r hr (by rw [← e, hr'.2])

/-- the other pools of an updated state (after the index has been made concrete) -/
macro "other_pools" : tactic =>
  `(tactic| (intro j hj; rcases j with _ | _ | j <;> first | exact absurd rfl hj | rfl))

theorem members_ok {nf : Nat} {p p' : Pool} (hok : PoolOK nf p)
    (hm : ∀ r' ∈ p'.resv, ∃ r ∈ p.resv, r'.fam = r.fam ∧ r'.slot = r.slot) :
    (∀ r ∈ p'.resv, r.fam < nf) ∧ (∀ r ∈ p'.resv, r.slot < NSLOT) := by
  constructor
  · intro r' hr'; obtain ⟨r, hr0, hf, _⟩ := hm r' hr'; rw [hf]; exact hok.fams r hr0
  · intro r' hr'; obtain ⟨r, hr0, _, hs⟩ := hm r' hr'; rw [hs]; exact hok.slots r hr0

/-! ### resize / shrinkToFit / setAlignment -/

theorem resize_step {c : Cfg} (hc : c.Fixed) {s : State} (h : SInv s) {i n : Nat} {p p1 : Pool} {d : Dev}
    (hp : s.pool i = some p) (hres : p.resize c s.dev n false = .ok (d, p1)) :
    SInv { s.setPool i (some p1) with dev := d } ∧ Preserves s { s.setPool i (some p1) with dev := d } := by
  have hok := h.pools i p hp
  have hdev := resize_dev hok.inv h.dev (h.pool_le hp) hres
  have hrel : PoolOK s.nextFam p1 ∧ (SameContents p p1 ∧ SameAliasing p p1) ∧
      (∀ m ∈ s.mems, findSlot m.slot p1.resv = none) := by
    rcases (resize_ok hc hok.inv hres).2 with he | hr
    · rw [he.2.2.1]; exact ⟨hok, ⟨SameContents.refl _, SameAliasing.refl _⟩, fun m hm => h.cross m hm _ p hp⟩
    · have := members_ok hok hr.2.members
      refine ⟨⟨hr.2.inv, this.1, this.2⟩, hr.2.packed, ?_⟩
      intro m hm
      cases hf : findSlot m.slot p1.resv with
      | none => rfl
      | some r' =>
        exfalso
        have hr' := findSlot_some hf
        obtain ⟨r, hr0, _, hs⟩ := hr.2.members r' hr'.1
        exact findSlot_none (h.cross m hm _ p hp) r hr0 (by rw [← hs, hr'.2])
  rcases pool_index hp with rfl | rfl
  · exact pool_step h hp (Nat.le_refl _) hrel.1 hdev hrel.2.1 rfl (by other_pools) rfl rfl hrel.2.2
  · exact pool_step h hp (Nat.le_refl _) hrel.1 hdev hrel.2.1 rfl (by other_pools) rfl rfl hrel.2.2

theorem step_resize {c : Cfg} (hc : c.Fixed) {s : State} (h : SInv s) (i n : Nat) :
    SInv (step c s (.resize i n)).1 ∧ Preserves s (step c s (.resize i n)).1 := by
  cases hp : s.pool i with
  | none => simp only [step, hp]; exact ⟨h, Preserves.refl s⟩
  | some p =>
    cases hres : p.resize c s.dev n false with
    | error e =>
      have : (step c s (.resize i n)).1 = s := by simp only [step, hp, hres]; cases e <;> rfl
      rw [this]; exact ⟨h, Preserves.refl s⟩
    | ok dp =>
      obtain ⟨d, p1⟩ := dp
      have hst : (step c s (.resize i n)).1 = { s.setPool i (some p1) with dev := d } := by
        simp only [step, hp, hres]
      rw [hst]; exact resize_step hc h hp hres

theorem step_shrink {c : Cfg} (hc : c.Fixed) {s : State} (h : SInv s) (i : Nat) :
    SInv (step c s (.shrink i)).1 ∧ Preserves s (step c s (.shrink i)).1 := by
  cases hp : s.pool i with
  | none => simp only [step, hp]; exact ⟨h, Preserves.refl s⟩
  | some p =>
    cases hres : p.resize c s.dev p.reserved false with
    | error e =>
      have : (step c s (.shrink i)).1 = s := by simp only [step, hp, hres]; cases e <;> rfl
      rw [this]; exact ⟨h, Preserves.refl s⟩
    | ok dp =>
      obtain ⟨d, p1⟩ := dp
      have hst : (step c s (.shrink i)).1 = { s.setPool i (some p1) with dev := d } := by
        simp only [step, hp, hres]
      rw [hst]; exact resize_step hc h hp hres

theorem step_align {c : Cfg} {s : State} (h : SInv s) (i a : Nat) :
    SInv (step c s (.align i a)).1 ∧ Preserves s (step c s (.align i a)).1 := by
  cases hp : s.pool i with
  | none => simp only [step, hp]; exact ⟨h, Preserves.refl s⟩
  | some p =>
    have hok := h.pools i p hp
    cases hres : p.setAlignment s.dev a with
    | error e =>
      have : (step c s (.align i a)).1 = s := by simp only [step, hp, hres]; cases e <;> rfl
      rw [this]; exact ⟨h, Preserves.refl s⟩
    | ok dp =>
      obtain ⟨d, p1⟩ := dp
      have hst : (step c s (.align i a)).1 = { s.setPool i (some p1) with dev := d } := by
        simp only [step, hp, hres]
      rw [hst]
      have hdev := setAlignment_dev h.dev (h.pool_le hp) hres
      have hr := (setAlignment_ok hok.inv hres).2
      have hm := members_ok hok hr.members
      have hok1 : PoolOK s.nextFam p1 := ⟨hr.inv, hm.1, hm.2⟩
      have hcr : ∀ m ∈ s.mems, findSlot m.slot p1.resv = none := by
        intro m hmm
        cases hf : findSlot m.slot p1.resv with
        | none => rfl
        | some r' =>
          exfalso
          have hr' := findSlot_some hf
          obtain ⟨r, hr0, _, hs⟩ := hr.members r' hr'.1
          exact findSlot_none (h.cross m hmm _ p hp) r hr0 (by rw [← hs, hr'.2])
      rcases pool_index hp with rfl | rfl
      · exact pool_step h hp (Nat.le_refl _) hok1 hdev hr.packed rfl (by other_pools) rfl rfl hcr
      · exact pool_step h hp (Nat.le_refl _) hok1 hdev hr.packed rfl (by other_pools) rfl rfl hcr

/-! ### reserve -/

theorem step_reserve {c : Cfg} (hc : c.Fixed) {s : State} (h : SInv s) (i k n : Nat) :
    SInv (step c s (.reserve i k n)).1 ∧ Preserves s (step c s (.reserve i k n)).1 := by
  cases hp : s.pool i with
  | none => simp only [step, hp]; exact ⟨h, Preserves.refl s⟩
  | some p =>
    have hok := h.pools i p hp
    by_cases hbad : k ≥ NSLOT ∨ s.slotLive k = true
    · have : (step c s (.reserve i k n)).1 = s := by simp only [step, hp, if_pos hbad]
      rw [this]; exact ⟨h, Preserves.refl s⟩
    by_cases hn : n = 0
    · have : (step c s (.reserve i k n)).1 = s := by simp only [step, hp, if_neg hbad, if_pos hn]
      rw [this]; exact ⟨h, Preserves.refl s⟩
    have hk : k < NSLOT := by omega
    have hlive : s.slotLive k = false := by
      cases hl : s.slotLive k with
      | false => rfl
      | true => exact absurd (Or.inr hl) hbad
    have hfresh := (slotLive_false hlive).1 i p hp
    obtain ⟨d, p1, hres, hrsv⟩ := reserve_ok hc (d := s.dev) hok.inv (slot := k) (fam := s.nextFam) (bytes := n)
      (by omega) hfresh
    obtain ⟨r, hfr, hrsz, hrfam⟩ := hrsv.new
    have hst : (step c s (.reserve i k n)).1 =
        { s.setPool i (some (p1.write r.off (pattern (1000 + s.nextFam) n))) with dev := d, nextFam := s.nextFam + 1 } := by
      simp only [step, hp, if_neg hbad, if_neg hn, hres, hfr]
    rw [hst]
    have hrmem := (findSlot_some hfr).1
    have hplen : (pattern (1000 + s.nextFam) n).length = n := by simp [pattern]
    have hrb := hrsv.inv.inBounds hrmem
    have hwinv : PInv (p1.write r.off (pattern (1000 + s.nextFam) n)) :=
      write_inv hrsv.inv r.off _ (by rw [hplen]; omega)
    have hfams : ∀ x ∈ p1.resv, x.fam < s.nextFam + 1 ∧ x.slot < NSLOT := by
      intro x hx
      rcases hrsv.members x hx with hnew | ⟨y, hy, hf, hs⟩
      · rw [hnew.1, hnew.2]; exact ⟨by omega, hk⟩
      · rw [hf, hs]; exact ⟨Nat.lt_succ_of_lt (hok.fams y hy), hok.slots y hy⟩
    have hok2 : PoolOK (s.nextFam + 1) (p1.write r.off (pattern (1000 + s.nextFam) n)) :=
      ⟨hwinv, fun x hx => (hfams x hx).1, fun x hx => (hfams x hx).2⟩
    have hdev := reserve_dev hok.inv h.dev (h.pool_le hp) hres
    have hdev2 : DevStep s.dev d p (p1.write r.off (pattern (1000 + s.nextFam) n)) := ⟨hdev.ok, hdev.bal⟩
    -- filling the new block does not disturb the other memories
    have hrel : SameContents p (p1.write r.off (pattern (1000 + s.nextFam) n)) ∧
        SameAliasing p (p1.write r.off (pattern (1000 + s.nextFam) n)) := by
      constructor
      · intro k' x hx
        obtain ⟨x', hx', h1, h2, h3⟩ := hrsv.contents k' x hx
        refine ⟨x', hx', h1, h2, ?_⟩
        rw [← h3]
        have hx'mem := (findSlot_some hx').1
        have hxmem := (findSlot_some hx).1
        have hne : r.fam ≠ x'.fam := by
          rw [hrfam, h2]; exact Nat.ne_of_gt (hok.fams x hxmem)
        have := write_other hrsv.inv hrmem hx'mem 0 (pattern (1000 + s.nextFam) n) (by rw [hplen]; omega)
          (hrsv.inv.famDisj r hrmem x' hx'mem hne)
        simpa using this
      · exact hrsv.aliasing
    have hcr : ∀ m ∈ s.mems, findSlot m.slot (p1.write r.off (pattern (1000 + s.nextFam) n)).resv = none :=
      cross_of_members h hp (fun r' hr' => by
        rcases hrsv.members r' hr' with hnew | ⟨y, hy, _, hs⟩
        · exact Or.inl (fun m hm => by rw [hnew.1]; exact findMem_none (slotLive_false hlive).2 m hm)
        · exact Or.inr ⟨y, hy, hs⟩)
    rcases pool_index hp with rfl | rfl
    · exact pool_step h hp (Nat.le_succ _) hok2 hdev2 hrel rfl (by other_pools) rfl rfl hcr
    · exact pool_step h hp (Nat.le_succ _) hok2 hdev2 hrel rfl (by other_pools) rfl rfl hcr

/-! ### where a slot lives -/

theorem locate_cases (s : State) (k : Nat) :
    (∃ i p r, s.locate k = some (.inPool i p r) ∧ s.pool i = some p ∧ findSlot k p.resv = some r) ∨
    (∃ m, s.locate k = some (.inDev m) ∧ findMem k s.mems = some m) ∨
    (s.locate k = none ∧ findMem k s.mems = none) := by
  have dev : (locateIn 0 s.pool0 k = none) → (locateIn 1 s.pool1 k = none) →
      (∃ m, s.locate k = some (.inDev m) ∧ findMem k s.mems = some m) ∨
      (s.locate k = none ∧ findMem k s.mems = none) := by
    intro e0 e1
    cases hm : findMem k s.mems with
    | some m => exact Or.inl ⟨m, by simp only [State.locate, e0, e1, hm], rfl⟩
    | none => exact Or.inr ⟨by simp only [State.locate, e0, e1, hm], rfl⟩
  have p1 : (locateIn 0 s.pool0 k = none) →
      (∃ i p r, s.locate k = some (.inPool i p r) ∧ s.pool i = some p ∧ findSlot k p.resv = some r) ∨
      (∃ m, s.locate k = some (.inDev m) ∧ findMem k s.mems = some m) ∨
      (s.locate k = none ∧ findMem k s.mems = none) := by
    intro e0
    cases h1 : s.pool1 with
    | some q =>
      cases hg : findSlot k q.resv with
      | some r =>
        exact Or.inl ⟨1, q, r, by unfold State.locate; rw [e0]; simp only [locateIn, h1, hg], h1, hg⟩
      | none => exact Or.inr (dev e0 (by simp only [locateIn, h1, hg]))
    | none => exact Or.inr (dev e0 (by simp only [locateIn, h1]))
  cases h0 : s.pool0 with
  | some p =>
    cases hf : findSlot k p.resv with
    | some r => exact Or.inl ⟨0, p, r, by simp only [State.locate, locateIn, h0, hf], h0, hf⟩
    | none => exact p1 (by simp only [locateIn, h0, hf])
  | none => exact p1 (by simp only [locateIn, h0])

/-! ### release -/

/-- releasing slot `k`: nothing else changes in any pool -/
def ReleaseRel (k : Nat) (s s' : State) : Prop :=
  ∀ j p p', s.pool j = some p → s'.pool j = some p' →
    p'.buf = p.buf ∧ p'.align = p.align ∧ p'.size = p.size ∧
    ∀ k', k' ≠ k → findSlot k' p'.resv = findSlot k' p.resv

theorem ReleaseRel.refl (k : Nat) (s : State) : ReleaseRel k s s := by
  intro j p p' h1 h2; rw [h1] at h2; cases h2; exact ⟨rfl, rfl, rfl, fun _ _ => rfl⟩

theorem releaseRel_of_pools_eq {k : Nat} {s s' : State} (h : ∀ j, s'.pool j = s.pool j) : ReleaseRel k s s' := by
  intro j p p' h1 h2; rw [h j, h1] at h2; cases h2; exact ⟨rfl, rfl, rfl, fun _ _ => rfl⟩

theorem mem_eraseMem {k : Nat} {x : DMem} {l : List DMem} (h : x ∈ eraseMem k l) : x ∈ l := by
  induction l with
  | nil => simp [eraseMem] at h
  | cons y ys ih =>
    unfold eraseMem at h
    split at h
    · exact List.mem_cons_of_mem _ h
    · rcases List.mem_cons.1 h with rfl | h
      · exact List.mem_cons_self
      · exact List.mem_cons_of_mem _ (ih h)

theorem eraseMem_sublist (k : Nat) (l : List DMem) : (eraseMem k l).Sublist l := by
  induction l with
  | nil => simp [eraseMem]
  | cons y ys ih =>
    unfold eraseMem
    split
    · exact List.sublist_cons_self y ys
    · exact ih.cons_cons y

theorem eraseBuf_sublist (i : Nat) (l : List DBuf) : (eraseBuf i l).Sublist l := by
  induction l with
  | nil => simp [eraseBuf]
  | cons y ys ih =>
    unfold eraseBuf
    split
    · exact List.sublist_cons_self y ys
    · exact ih.cons_cons y

theorem findBuf_none {i : Nat} {l : List DBuf} (h : findBuf i l = none) : ∀ y ∈ l, y.id ≠ i := by
  induction l with
  | nil => simp
  | cons z zs ih =>
    unfold findBuf at h
    split at h
    · cases h
    · rename_i hz
      intro y hy
      rcases List.mem_cons.1 hy with rfl | hy
      · exact hz
      · exact ih h y hy

theorem release_inv {c : Cfg} (hc : c.Fixed) {s : State} (h : SInv s) (k : Nat) :
    SInv (s.release c k) ∧ ReleaseRel k s (s.release c k) := by
  rcases locate_cases s k with ⟨i, p, r, hloc, hp, hf⟩ | ⟨m, hloc, hm⟩ | hloc
  · -- a pool reservation
    have hok := h.pools i p hp
    have hrs : r.slot = k := (findSlot_some hf).2
    have hf' : findSlot r.slot p.resv = some r := by rw [hrs]; exact hf
    have hst : s.release c k = s.setPool i (some (p.removeRef c r)) := by
      unfold State.release; rw [hloc]
    rw [hst]
    have hinv := removeRef_inv hc.2.2.1 hok.inv hf'
    have heq := removeRef_eq hc.2.2.1 hok.inv hf'
    have hmem : ∀ x ∈ (p.removeRef c r).resv, x ∈ p.resv := by
      intro x hx; rw [heq] at hx; exact mem_eraseSlot hx
    have hok1 : PoolOK s.nextFam (p.removeRef c r) :=
      ⟨hinv, fun x hx => hok.fams x (hmem x hx), fun x hx => hok.slots x (hmem x hx)⟩
    have hsz : (p.removeRef c r).size = p.size := by rw [heq]
    have hrel : (p.removeRef c r).buf = p.buf ∧ (p.removeRef c r).align = p.align ∧ (p.removeRef c r).size = p.size ∧
        ∀ k', k' ≠ k → findSlot k' (p.removeRef c r).resv = findSlot k' p.resv := by
      refine ⟨by rw [heq], by rw [heq], hsz, ?_⟩
      intro k' hk'
      exact removeRef_sameContents hc.2.2.1 hok.inv hf' k' (by rw [hrs]; exact hk')
    have hgen : ∀ s' : State, s'.pool i = some (p.removeRef c r) → (∀ j, j ≠ i → s'.pool j = s.pool j) →
        s'.nextFam = s.nextFam → s'.dev = s.dev → s'.bufs = s.bufs → s'.mems = s.mems →
        SInv s' ∧ ReleaseRel k s s' := by
      intro s' hpi hpj hnf hd hb hmm
      refine ⟨sinv_update_pool h hp (Nat.le_of_eq hnf.symm) (by rw [hnf]; exact hok1)
        (by rw [hd]; exact devStep_same h.dev hsz) hpi hpj hb hmm
        (cross_of_members h hp (fun x hx => Or.inr ⟨x, hmem x hx, rfl⟩)), ?_⟩
      intro j q q' h1 h2
      by_cases hji : j = i
      · subst hji; rw [hp] at h1; rw [hpi] at h2; cases h1; cases h2; exact hrel
      · rw [hpj j hji, h1] at h2; cases h2; exact ⟨rfl, rfl, rfl, fun _ _ => rfl⟩
    rcases pool_index hp with rfl | rfl
    · exact hgen _ rfl (by other_pools) rfl rfl rfl rfl
    · exact hgen _ rfl (by other_pools) rfl rfl rfl rfl
  · -- a device memory
    have hmm := findMem_some hm
    have hperm := eraseMem_perm hm
    have hsub := eraseMem_sublist k s.mems
    have hslots' : ((eraseMem k s.mems).map (·.slot)).Nodup := h.memSlots.sublist (hsub.map _)
    have hbelow' : ∀ x ∈ eraseMem k s.mems, x.slot < NSLOT := fun x hx => h.memBelow x (mem_eraseMem hx)
    have hcross' : ∀ x ∈ eraseMem k s.mems, ∀ i p, s.pool i = some p → findSlot x.slot p.resv = none :=
      fun x hx => h.cross x (mem_eraseMem hx)
    unfold State.release
    rw [hloc]
    simp only []
    split
    · -- other memories still use the buffer
      rename_i hany
      refine ⟨sinv_update_dev h (Nat.le_refl _) (fun j => by rcases j with _ | _ | j <;> rfl) h.dev rfl h.bufIds h.bufBelow
        ?_ hslots' hbelow' hcross', releaseRel_of_pools_eq (fun j => by rcases j with _ | _ | j <;> rfl)⟩
      intro b hb
      obtain ⟨x, hx, hxb⟩ := h.bufLive b hb
      rcases List.mem_cons.1 (hperm.mem_iff.1 hx) with rfl | hx'
      · obtain ⟨y, hy, hyb⟩ := List.any_eq_true.1 hany
        exact ⟨y, hy, by rw [← hxb]; simpa using hyb⟩
      · exact ⟨x, hx', hxb⟩
    · rename_i hany
      have hnone : ∀ x ∈ eraseMem k s.mems, x.buf ≠ m.buf := by
        intro x hx e
        exact hany (List.any_eq_true.2 ⟨x, hx, by simpa using e⟩)
      cases hfb : findBuf m.buf s.bufs with
      | none =>
        simp only []
        refine ⟨sinv_update_dev h (Nat.le_refl _) (fun j => by rcases j with _ | _ | j <;> rfl) h.dev rfl h.bufIds h.bufBelow
          ?_ hslots' hbelow' hcross', releaseRel_of_pools_eq (fun j => by rcases j with _ | _ | j <;> rfl)⟩
        intro b hb
        obtain ⟨x, hx, hxb⟩ := h.bufLive b hb
        rcases List.mem_cons.1 (hperm.mem_iff.1 hx) with rfl | hx'
        · exfalso
          have := findBuf_none hfb
          exact this b hb hxb.symm
        · exact ⟨x, hx', hxb⟩
      | some b =>
        simp only []
        have hb := findBuf_some hfb
        have hbperm := eraseBuf_perm hfb
        have hbsub := eraseBuf_sublist m.buf s.bufs
        have hcb : countedBytes s.bufs = (if b.counted then b.size else 0) + countedBytes (eraseBuf m.buf s.bufs) := by
          rw [countedBytes_perm hbperm]; rfl
        have hacc := h.account
        have hids' : ((eraseBuf m.buf s.bufs).map (·.id)).Nodup := h.bufIds.sublist (hbsub.map _)
        have hnotin : ∀ y ∈ eraseBuf m.buf s.bufs, y.id ≠ m.buf := by
          have hn := h.bufIds
          rw [(hbperm.map (·.id)).nodup_iff, List.map_cons, List.nodup_cons] at hn
          intro y hy e
          exact hn.1 (List.mem_map.2 ⟨y, hy, by rw [e, hb.2]⟩)
        refine ⟨sinv_update_dev h (Nat.le_refl _) (fun j => by rcases j with _ | _ | j <;> rfl) ?_ ?_ hids'
          (fun y hy => h.bufBelow y (hbsub.subset hy)) ?_ hslots' hbelow' hcross',
          releaseRel_of_pools_eq (fun j => by rcases j with _ | _ | j <;> rfl)⟩
        · show DevOK (if b.counted then s.dev.sub b.size else s.dev)
          split
          · exact h.dev.sub _
          · exact h.dev
        · show (if b.counted then s.dev.sub b.size else s.dev).alloc + countedBytes s.bufs =
            s.dev.alloc + countedBytes (eraseBuf m.buf s.bufs)
          rw [hcb]
          cases hcnt : b.counted
          · simp
          · simp only [if_true, Dev.sub_alloc]
            rw [hcb, hcnt] at hacc
            simp only [if_true] at hacc
            omega
        · intro y hy
          obtain ⟨x, hx, hxb⟩ := h.bufLive y (hbsub.subset hy)
          rcases List.mem_cons.1 (hperm.mem_iff.1 hx) with rfl | hx'
          · exact absurd hxb.symm (hnotin y hy)
          · exact ⟨x, hx', hxb⟩
  · have : s.release c k = s := by unfold State.release; rw [hloc.1]
    rw [this]; exact ⟨h, ReleaseRel.refl k s⟩

theorem step_release {c : Cfg} (hc : c.Fixed) {s : State} (h : SInv s) (k : Nat) :
    SInv (step c s (.release k)).1 ∧ ReleaseRel k s (step c s (.release k)).1 := by
  by_cases hl : s.slotLive k = true
  · have : (step c s (.release k)).1 = s.release c k := by simp only [step, if_pos hl]
    rw [this]; exact release_inv hc h k
  · have : (step c s (.release k)).1 = s := by simp only [step, if_neg hl]
    rw [this]; exact ⟨h, ReleaseRel.refl k s⟩

/-! ### slice and write on a pool reservation -/

theorem sliceBytes_ok {size off : Nat} {cnt : Int} {b : Nat} (h : sliceBytes size off cnt = .ok b) :
    off + b ≤ size := by
  unfold sliceBytes at h
  simp only [] at h
  by_cases h1 : (if cnt = -1 then (size : Int) - off else cnt) < 0
  · rw [if_pos h1] at h; cases h
  · rw [if_neg h1] at h
    by_cases h2 : ¬ ((off : Int) + cnt ≤ size)
    · rw [if_pos h2] at h; cases h
    · rw [if_neg h2] at h
      injection h with hb
      rw [← hb]
      by_cases h3 : cnt = -1
      · rw [if_pos h3] at h1 ⊢; omega
      · rw [if_neg h3] at h1 ⊢; omega

theorem pool_slice_step {c : Cfg} (hc : c.Fixed) {s : State} (h : SInv s) {i k off bytes : Nat} {p : Pool} {r : Resv}
    (hp : s.pool i = some p) (hr : r ∈ p.resv) (hk : k < NSLOT) (hlive : s.slotLive k = false)
    (hfit : off + bytes ≤ r.size) :
    p.slice c k r.fam (r.off + off) bytes = .ok (p.addRef c ⟨k, r.off + off, bytes, r.fam⟩) ∧
    SInv (s.setPool i (some (p.addRef c ⟨k, r.off + off, bytes, r.fam⟩))) ∧
    Preserves s (s.setPool i (some (p.addRef c ⟨k, r.off + off, bytes, r.fam⟩))) := by
  have hok := h.pools i p hp
  have hbuf : p.hasBuf = true := by
    rcases hok.inv.hasBuf with hb | hb
    · exact hb
    · rw [hb.1] at hr; simp at hr
  have hfresh := (slotLive_false hlive).1 i p hp
  have hb : rup p.align (r.off + off + bytes) ≤ p.size :=
    Nat.le_trans (rup_mono p.align (by omega)) (hok.inv.bounded r hr)
  have hd : ∀ x ∈ p.resv, x.fam ≠ (⟨k, r.off + off, bytes, r.fam⟩ : Resv).fam →
      NoShare x ⟨k, r.off + off, bytes, r.fam⟩ := by
    intro x hx hne a ha b hb' e
    exact hok.inv.famDisj x hx r hr hne a ha (off + b) (by simp only [] at hb'; omega) (by simp only [] at e; omega)
  have hinv := addRef_inv hc.2.2.1 hok.inv ⟨k, r.off + off, bytes, r.fam⟩ hfresh hb hbuf hd
  have hsame := addRef_sameContents (c := c) (p := p) ⟨k, r.off + off, bytes, r.fam⟩ hfresh
  have hok1 : PoolOK s.nextFam (p.addRef c ⟨k, r.off + off, bytes, r.fam⟩) := by
    refine ⟨hinv, ?_, ?_⟩
    · intro x hx
      rcases (mem_insertResv _ x _).1 hx with e | hx
      · rw [e]; exact hok.fams r hr
      · exact hok.fams x hx
    · intro x hx
      rcases (mem_insertResv _ x _).1 hx with e | hx
      · rw [e]; exact hk
      · exact hok.slots x hx
  refine ⟨by unfold Pool.slice; rw [if_neg (by simp [hbuf])], ?_⟩
  have hcr : ∀ m ∈ s.mems, findSlot m.slot (p.addRef c ⟨k, r.off + off, bytes, r.fam⟩).resv = none :=
    cross_of_members h hp (fun x hx => by
      rcases (mem_insertResv _ x _).1 hx with e | hx
      · exact Or.inl (fun m hm => by rw [e]; exact findMem_none (slotLive_false hlive).2 m hm)
      · exact Or.inr ⟨x, hx, rfl⟩)
  rcases pool_index hp with rfl | rfl
  · exact pool_step h hp (Nat.le_refl _) hok1 (devStep_same h.dev rfl) hsame rfl (by other_pools) rfl rfl hcr
  · exact pool_step h hp (Nat.le_refl _) hok1 (devStep_same h.dev rfl) hsame rfl (by other_pools) rfl rfl hcr

theorem pool_write_step {s : State} (h : SInv s) {i off : Nat} {data : List Byte} {p : Pool} {r : Resv}
    (hp : s.pool i = some p) (hr : r ∈ p.resv) (hfit : off + data.length ≤ r.size) :
    SInv (s.setPool i (some (p.write (r.off + off) data))) := by
  have hok := h.pools i p hp
  have hrb := hok.inv.inBounds hr
  have hinv := write_inv hok.inv (r.off + off) data (by omega)
  have hok1 : PoolOK s.nextFam (p.write (r.off + off) data) := ⟨hinv, hok.fams, hok.slots⟩
  have hcr : ∀ m ∈ s.mems, findSlot m.slot (p.write (r.off + off) data).resv = none :=
    fun m hm => h.cross m hm _ p hp
  rcases pool_index hp with rfl | rfl
  · exact sinv_update_pool h hp (Nat.le_refl _) hok1 (devStep_same h.dev rfl) rfl (by other_pools) rfl rfl hcr
  · exact sinv_update_pool h hp (Nat.le_refl _) hok1 (devStep_same h.dev rfl) rfl (by other_pools) rfl rfl hcr

/-! ### device memory -/

theorem setBufData_ids (i : Nat) (f : List Byte → List Byte) (l : List DBuf) :
    (setBufData i f l).map (·.id) = l.map (·.id) := by
  induction l with
  | nil => rfl
  | cons x xs ih =>
    unfold setBufData
    split
    · simp
    · simp [ih]

theorem mem_setBufData_id {i : Nat} {f : List Byte → List Byte} {l : List DBuf} {b : DBuf}
    (hb : b ∈ setBufData i f l) : ∃ b0 ∈ l, b0.id = b.id := by
  have hm : b.id ∈ (setBufData i f l).map (·.id) := List.mem_map.2 ⟨b, hb, rfl⟩
  rw [setBufData_ids] at hm
  obtain ⟨b0, hb0, he⟩ := List.mem_map.1 hm
  exact ⟨b0, hb0, he⟩

theorem newBuf_inv {s : State} (h : SInv s) {k : Nat} (hk : k < NSLOT) (hlive : s.slotLive k = false)
    (n : Nat) (counted : Bool) (data : List Byte) : SInv (s.newBuf k n counted data) := by
  have hfree := (slotLive_false hlive).2
  unfold State.newBuf
  refine sinv_update_dev h (Nat.le_succ _) (fun j => by rcases j with _ | _ | j <;> rfl) ?_ ?_ ?_ ?_ ?_ ?_ ?_ ?_
  rotate_left 7
  · intro m hm i p hp
    rcases List.mem_append.1 hm with hm | hm
    · exact h.cross m hm i p hp
    · simp at hm; rw [hm]; exact (slotLive_false hlive).1 i p hp
  · show DevOK (if counted = true then s.dev.add n else s.dev)
    split
    · exact h.dev.add _
    · exact h.dev
  · show (if counted = true then s.dev.add n else s.dev).alloc + countedBytes s.bufs =
      s.dev.alloc + countedBytes (s.bufs ++ [DBuf.mk s.nextFam n counted data])
    rw [countedBytes_append]
    cases counted <;> simp [countedBytes] <;> omega
  · show ((s.bufs ++ [DBuf.mk s.nextFam n counted data]).map (·.id)).Nodup
    rw [List.map_append, List.nodup_append]
    refine ⟨h.bufIds, by simp, ?_⟩
    intro a ha b hb e
    simp at hb
    obtain ⟨x, hx, rfl⟩ := List.mem_map.1 ha
    have := h.bufBelow x hx
    omega
  · intro b hb
    show b.id < s.nextFam + 1
    rcases List.mem_append.1 hb with hb | hb
    · exact Nat.lt_succ_of_lt (h.bufBelow b hb)
    · simp at hb; rw [hb]; exact Nat.lt_succ_self _
  · intro b hb
    show ∃ m ∈ s.mems ++ [DMem.mk k s.nextFam 0 n], m.buf = b.id
    rcases List.mem_append.1 hb with hb | hb
    · obtain ⟨m, hm, e⟩ := h.bufLive b hb
      exact ⟨m, List.mem_append_left _ hm, e⟩
    · simp at hb; rw [hb]
      exact ⟨⟨k, s.nextFam, 0, n⟩, by simp, rfl⟩
  · show ((s.mems ++ [DMem.mk k s.nextFam 0 n]).map (·.slot)).Nodup
    rw [List.map_append, List.nodup_append]
    refine ⟨h.memSlots, by simp, ?_⟩
    intro a ha b hb e
    simp at hb
    obtain ⟨x, hx, rfl⟩ := List.mem_map.1 ha
    exact findMem_none hfree x hx (by omega)
  · intro m hm
    rcases List.mem_append.1 hm with hm | hm
    · exact h.memBelow m hm
    · simp at hm; rw [hm]; exact hk

theorem newBuf_pools (s : State) (k n : Nat) (counted : Bool) (data : List Byte) (j : Nat) :
    (s.newBuf k n counted data).pool j = s.pool j := by
  rcases j with _ | _ | j <;> rfl

theorem dev_slice_inv {s : State} (h : SInv s) {k : Nat} (hk : k < NSLOT) (hlive : s.slotLive k = false)
    {m : DMem} (hm : m ∈ s.mems) (off bytes : Nat) :
    SInv { s with mems := s.mems ++ [⟨k, m.buf, off, bytes⟩] } := by
  have hfree := (slotLive_false hlive).2
  refine sinv_update_dev h (Nat.le_refl _) (fun j => by rcases j with _ | _ | j <;> rfl) h.dev rfl h.bufIds h.bufBelow ?_ ?_ ?_ ?_
  rotate_left 3
  · intro x hx i p hp
    rcases List.mem_append.1 hx with hx | hx
    · exact h.cross x hx i p hp
    · simp at hx; rw [hx]; exact (slotLive_false hlive).1 i p hp
  · intro b hb
    obtain ⟨x, hx, e⟩ := h.bufLive b hb
    exact ⟨x, List.mem_append_left _ hx, e⟩
  · show ((s.mems ++ [DMem.mk k m.buf off bytes]).map (·.slot)).Nodup
    rw [List.map_append, List.nodup_append]
    refine ⟨h.memSlots, by simp, ?_⟩
    intro a ha b hb e
    simp at hb
    obtain ⟨x, hx, rfl⟩ := List.mem_map.1 ha
    exact findMem_none hfree x hx (by omega)
  · intro x hx
    rcases List.mem_append.1 hx with hx | hx
    · exact h.memBelow x hx
    · simp at hx; rw [hx]; exact hk

theorem dev_write_inv {s : State} (h : SInv s) (i : Nat) (f : List Byte → List Byte) :
    SInv { s with bufs := setBufData i f s.bufs } := by
  have hmap := setBufData_map i f s.bufs
  have hid := setBufData_ids i f s.bufs
  refine sinv_update_dev h (Nat.le_refl _) (fun j => by rcases j with _ | _ | j <;> rfl) h.dev ?_ ?_ ?_ ?_ h.memSlots h.memBelow h.cross
  · show s.dev.alloc + countedBytes s.bufs = s.dev.alloc + countedBytes (setBufData i f s.bufs)
    rw [countedBytes_eq_of_map hmap]
  · show ((setBufData i f s.bufs).map (·.id)).Nodup
    rw [hid]; exact h.bufIds
  · intro b hb
    obtain ⟨b0, hb0, e⟩ := mem_setBufData_id hb
    show b.id < s.nextFam
    rw [← e]; exact h.bufBelow b0 hb0
  · intro b hb
    obtain ⟨b0, hb0, e⟩ := mem_setBufData_id hb
    obtain ⟨m, hm, e'⟩ := h.bufLive b0 hb0
    exact ⟨m, hm, by rw [e', e]⟩

/-! ### creating and freeing pools, resetting the device -/

theorem add_pool_inv {c : Cfg} (hc : c.Fixed) {s : State} (h : SInv s) {i : Nat} (hi : i < 2) (hn : s.pool i = none) :
    SInv (s.setPool i (some { align := c.defaultAlign })) := by
  have hnew : PoolOK s.nextFam { align := c.defaultAlign } := ⟨pinv_new hc.2.2.2.2.2.2, by simp, by simp⟩
  have hacc := h.account
  rcases i with _ | _ | i
  · refine ⟨?_, h.dev, ?_, h.bufIds, h.bufBelow, h.bufLive, h.memSlots, h.memBelow, ?_⟩
    rotate_left 2
    · intro m hm j q hq
      rcases j with _ | _ | j
      · have : q = { align := c.defaultAlign } := by
          have : (some { align := c.defaultAlign } : Option Pool) = some q := hq
          cases this; rfl
        rw [this]; rfl
      · exact h.cross m hm 1 q hq
      · cases hq
    · intro j q hq
      rcases j with _ | _ | j
      · have : q = { align := c.defaultAlign } := by
          have : (some { align := c.defaultAlign } : Option Pool) = some q := hq
          cases this; rfl
        rw [this]; exact hnew
      · exact h.pools 1 q hq
      · cases hq
    · show s.dev.alloc = countedBytes s.bufs + poolSize (some { align := c.defaultAlign }) + poolSize (s.pool 1)
      rw [hn] at hacc
      simp only [poolSize] at hacc ⊢
      omega
  · refine ⟨?_, h.dev, ?_, h.bufIds, h.bufBelow, h.bufLive, h.memSlots, h.memBelow, ?_⟩
    rotate_left 2
    · intro m hm j q hq
      rcases j with _ | _ | j
      · exact h.cross m hm 0 q hq
      · have : q = { align := c.defaultAlign } := by
          have : (some { align := c.defaultAlign } : Option Pool) = some q := hq
          cases this; rfl
        rw [this]; rfl
      · cases hq
    · intro j q hq
      rcases j with _ | _ | j
      · exact h.pools 0 q hq
      · have : q = { align := c.defaultAlign } := by
          have : (some { align := c.defaultAlign } : Option Pool) = some q := hq
          cases this; rfl
        rw [this]; exact hnew
      · cases hq
    · show s.dev.alloc = countedBytes s.bufs + poolSize (s.pool 0) + poolSize (some { align := c.defaultAlign })
      rw [hn] at hacc
      simp only [poolSize] at hacc ⊢
      omega
  · omega

theorem freePool_inv {s : State} (h : SInv s) (i : Nat) : SInv (s.freePool i) := by
  unfold State.freePool
  cases hp : s.pool i with
  | none => exact h
  | some p =>
    simp only []
    have hok := h.pools i p hp
    have hacc := h.account
    have hdev : DevOK (p.free s.dev) ∧ (p.free s.dev).alloc + p.size = s.dev.alloc := by
      unfold Pool.free
      split
      · refine ⟨h.dev.sub _, ?_⟩
        have := h.pool_le hp
        show s.dev.alloc - p.size + p.size = s.dev.alloc
        omega
      · rename_i hb
        have : p.size = 0 := by
          rcases hok.inv.hasBuf with hb' | hb'
          · exact absurd hb' hb
          · exact hb'.2
        exact ⟨h.dev, by omega⟩
    rcases pool_index hp with rfl | rfl
    · refine ⟨?_, hdev.1, ?_, h.bufIds, h.bufBelow, h.bufLive, h.memSlots, h.memBelow, ?_⟩
      rotate_left 2
      · intro m hm j q hq
        rcases j with _ | _ | j
        · cases hq
        · exact h.cross m hm 1 q hq
        · cases hq
      · intro j q hq
        rcases j with _ | _ | j
        · cases hq
        · exact h.pools 1 q hq
        · cases hq
      · show (p.free s.dev).alloc = countedBytes s.bufs + poolSize none + poolSize (s.pool 1)
        rw [hp] at hacc
        simp only [poolSize] at hacc ⊢
        omega
    · refine ⟨?_, hdev.1, ?_, h.bufIds, h.bufBelow, h.bufLive, h.memSlots, h.memBelow, ?_⟩
      rotate_left 2
      · intro m hm j q hq
        rcases j with _ | _ | j
        · exact h.cross m hm 0 q hq
        · cases hq
        · cases hq
      · intro j q hq
        rcases j with _ | _ | j
        · exact h.pools 0 q hq
        · cases hq
        · cases hq
      · show (p.free s.dev).alloc = countedBytes s.bufs + poolSize (s.pool 0) + poolSize none
        rw [hp] at hacc
        simp only [poolSize] at hacc ⊢
        omega

theorem releaseAllFrom_inv {c : Cfg} (hc : c.Fixed) : ∀ (n : Nat) (s : State), SInv s → SInv (releaseAllFrom c s n) := by
  intro n
  induction n with
  | zero => intro s h; exact h
  | succ n ih =>
    intro s h
    unfold releaseAllFrom
    apply ih
    split
    · exact (release_inv hc h _).1
    · exact h

end Occa.Pool
