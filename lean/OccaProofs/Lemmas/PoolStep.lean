/-
Every operation of the model preserves the state invariant `SInv` (with all repairs present), and
what each pool operation does to the memories that stay live (`Preserves`).
-/
import OccaProofs.Lemmas.PoolState

namespace Occa.Pool

/-- every memory live in a pool before is live after, reads back the same bytes, and two bytes are
    the same byte after iff they were before -/
def Preserves (s s' : State) : Prop :=
  ∀ j p p', s.pool j = some p → s'.pool j = some p' → SameContents p p' ∧ SameAliasing p p'

theorem Preserves.refl (s : State) : Preserves s s := by
  intro j p p' h1 h2
  rw [h1] at h2; cases h2
  exact ⟨SameContents.refl _, SameAliasing.refl _⟩

theorem preserves_of_pools_eq {s s' : State} (h : ∀ j, s'.pool j = s.pool j) : Preserves s s' := by
  intro j p p' h1 h2
  rw [h j, h1] at h2; cases h2
  exact ⟨SameContents.refl _, SameAliasing.refl _⟩

theorem preserves_update {s s' : State} {i : Nat} {p p' : Pool} (hp : s.pool i = some p)
    (hpi : s'.pool i = some p') (hpj : ∀ j, j ≠ i → s'.pool j = s.pool j)
    (hrel : SameContents p p' ∧ SameAliasing p p') : Preserves s s' := by
  intro j q q' h1 h2
  by_cases hji : j = i
  · subst hji
    rw [hp] at h1; rw [hpi] at h2; cases h1; cases h2; exact hrel
  · rw [hpj j hji, h1] at h2; cases h2
    exact ⟨SameContents.refl _, SameAliasing.refl _⟩

theorem pool_step {s s' : State} (h : SInv s) {i : Nat} {p p' : Pool} (hp : s.pool i = some p)
    (hnf : s.nextFam ≤ s'.nextFam) (hok : PoolOK s'.nextFam p') (hdev : DevStep s.dev s'.dev p p')
    (hrel : SameContents p p' ∧ SameAliasing p p')
    (hpi : s'.pool i = some p') (hpj : ∀ j, j ≠ i → s'.pool j = s.pool j)
    (hbufs : s'.bufs = s.bufs) (hmems : s'.mems = s.mems) : SInv s' ∧ Preserves s s' :=
  ⟨sinv_update_pool h hp hnf hok hdev hpi hpj hbufs hmems, preserves_update hp hpi hpj hrel⟩

/-- the other pools of an updated state (after the index has been made concrete) -/
macro "other_pools" : tactic =>
  `(tactic| (intro j hj; rcases j with _ | _ | j <;> first | exact absurd rfl hj | rfl))

theorem members_ok {nf : Nat} {p p' : Pool} (hok : PoolOK nf p)
    (hm : ∀ r' ∈ p'.resv, ∃ r ∈ p.resv, r'.fam = r.fam ∧ r'.slot = r.slot) :
    (∀ r ∈ p'.resv, r.fam < nf) ∧ (∀ r ∈ p'.resv, r.slot < NSLOT) := by
  constructor
  · intro r' hr'; obtain ⟨r, hr0, hf, _⟩ := hm r' hr'; rw [hf]; exact hok.fams r hr0
  · intro r' hr'; obtain ⟨r, hr0, _, hs⟩ := hm r' hr'; rw [hs]; exact hok.slots r hr0

/-! ### resize / shrinkToFit / setAlignment -/

theorem resize_step {c : Cfg} (hc : c.Fixed) {s : State} (h : SInv s) {i n : Nat} {p p1 : Pool} {d : Dev}
    (hp : s.pool i = some p) (hres : p.resize c s.dev n false = .ok (d, p1)) :
    SInv { s.setPool i (some p1) with dev := d } ∧ Preserves s { s.setPool i (some p1) with dev := d } := by
  have hok := h.pools i p hp
  have hdev := resize_dev hok.inv h.dev (h.pool_le hp) hres
  have hrel : PoolOK s.nextFam p1 ∧ (SameContents p p1 ∧ SameAliasing p p1) := by
    rcases (resize_ok hc hok.inv hres).2 with he | hr
    · rw [he.2.2.1]; exact ⟨hok, SameContents.refl _, SameAliasing.refl _⟩
    · have := members_ok hok hr.2.members
      exact ⟨⟨hr.2.inv, this.1, this.2⟩, hr.2.packed⟩
  rcases pool_index hp with rfl | rfl
  · exact pool_step h hp (Nat.le_refl _) hrel.1 hdev hrel.2 rfl (by other_pools) rfl rfl
  · exact pool_step h hp (Nat.le_refl _) hrel.1 hdev hrel.2 rfl (by other_pools) rfl rfl

theorem step_resize {c : Cfg} (hc : c.Fixed) {s : State} (h : SInv s) (i n : Nat) :
    SInv (step c s (.resize i n)).1 ∧ Preserves s (step c s (.resize i n)).1 := by
  cases hp : s.pool i with
  | none => simp only [step, hp]; exact ⟨h, Preserves.refl s⟩
  | some p =>
    cases hres : p.resize c s.dev n false with
    | error e =>
      have : (step c s (.resize i n)).1 = s := by simp only [step, hp, hres]; cases e <;> rfl
      rw [this]; exact ⟨h, Preserves.refl s⟩
    | ok dp =>
      obtain ⟨d, p1⟩ := dp
      have hst : (step c s (.resize i n)).1 = { s.setPool i (some p1) with dev := d } := by
        simp only [step, hp, hres]
      rw [hst]; exact resize_step hc h hp hres

theorem step_shrink {c : Cfg} (hc : c.Fixed) {s : State} (h : SInv s) (i : Nat) :
    SInv (step c s (.shrink i)).1 ∧ Preserves s (step c s (.shrink i)).1 := by
  cases hp : s.pool i with
  | none => simp only [step, hp]; exact ⟨h, Preserves.refl s⟩
  | some p =>
    cases hres : p.resize c s.dev p.reserved false with
    | error e =>
      have : (step c s (.shrink i)).1 = s := by simp only [step, hp, hres]; cases e <;> rfl
      rw [this]; exact ⟨h, Preserves.refl s⟩
    | ok dp =>
      obtain ⟨d, p1⟩ := dp
      have hst : (step c s (.shrink i)).1 = { s.setPool i (some p1) with dev := d } := by
        simp only [step, hp, hres]
      rw [hst]; exact resize_step hc h hp hres

theorem step_align {c : Cfg} {s : State} (h : SInv s) (i a : Nat) :
    SInv (step c s (.align i a)).1 ∧ Preserves s (step c s (.align i a)).1 := by
  cases hp : s.pool i with
  | none => simp only [step, hp]; exact ⟨h, Preserves.refl s⟩
  | some p =>
    have hok := h.pools i p hp
    cases hres : p.setAlignment s.dev a with
    | error e =>
      have : (step c s (.align i a)).1 = s := by simp only [step, hp, hres]; cases e <;> rfl
      rw [this]; exact ⟨h, Preserves.refl s⟩
    | ok dp =>
      obtain ⟨d, p1⟩ := dp
      have hst : (step c s (.align i a)).1 = { s.setPool i (some p1) with dev := d } := by
        simp only [step, hp, hres]
      rw [hst]
      have hdev := setAlignment_dev h.dev (h.pool_le hp) hres
      have hr := (setAlignment_ok hok.inv hres).2
      have hm := members_ok hok hr.members
      have hok1 : PoolOK s.nextFam p1 := ⟨hr.inv, hm.1, hm.2⟩
      rcases pool_index hp with rfl | rfl
      · exact pool_step h hp (Nat.le_refl _) hok1 hdev hr.packed rfl (by other_pools) rfl rfl
      · exact pool_step h hp (Nat.le_refl _) hok1 hdev hr.packed rfl (by other_pools) rfl rfl

/-! ### reserve -/

theorem step_reserve {c : Cfg} (hc : c.Fixed) {s : State} (h : SInv s) (i k n : Nat) :
    SInv (step c s (.reserve i k n)).1 ∧ Preserves s (step c s (.reserve i k n)).1 := by
  cases hp : s.pool i with
  | none => simp only [step, hp]; exact ⟨h, Preserves.refl s⟩
  | some p =>
    have hok := h.pools i p hp
    by_cases hbad : k ≥ NSLOT ∨ s.slotLive k = true
    · have : (step c s (.reserve i k n)).1 = s := by simp only [step, hp, if_pos hbad]
      rw [this]; exact ⟨h, Preserves.refl s⟩
    by_cases hn : n = 0
    · have : (step c s (.reserve i k n)).1 = s := by simp only [step, hp, if_neg hbad, if_pos hn]
      rw [this]; exact ⟨h, Preserves.refl s⟩
    have hk : k < NSLOT := by omega
    have hlive : s.slotLive k = false := by
      cases hl : s.slotLive k with
      | false => rfl
      | true => exact absurd (Or.inr hl) hbad
    have hfresh := (slotLive_false hlive).1 i p hp
    obtain ⟨d, p1, hres, hrsv⟩ := reserve_ok hc (d := s.dev) hok.inv (slot := k) (fam := s.nextFam) (bytes := n)
      (by omega) hfresh
    obtain ⟨r, hfr, hrsz, hrfam⟩ := hrsv.new
    have hst : (step c s (.reserve i k n)).1 =
        { s.setPool i (some (p1.write r.off (pattern (1000 + s.nextFam) n))) with dev := d, nextFam := s.nextFam + 1 } := by
      simp only [step, hp, if_neg hbad, if_neg hn, hres, hfr]
    rw [hst]
    have hrmem := (findSlot_some hfr).1
    have hplen : (pattern (1000 + s.nextFam) n).length = n := by simp [pattern]
    have hrb := hrsv.inv.inBounds hrmem
    have hwinv : PInv (p1.write r.off (pattern (1000 + s.nextFam) n)) :=
      write_inv hrsv.inv r.off _ (by rw [hplen]; omega)
    have hfams : ∀ x ∈ p1.resv, x.fam < s.nextFam + 1 ∧ x.slot < NSLOT := by
      intro x hx
      rcases hrsv.members x hx with hnew | ⟨y, hy, hf, hs⟩
      · rw [hnew.1, hnew.2]; exact ⟨by omega, hk⟩
      · rw [hf, hs]; exact ⟨Nat.lt_succ_of_lt (hok.fams y hy), hok.slots y hy⟩
    have hok2 : PoolOK (s.nextFam + 1) (p1.write r.off (pattern (1000 + s.nextFam) n)) :=
      ⟨hwinv, fun x hx => (hfams x hx).1, fun x hx => (hfams x hx).2⟩
    have hdev := reserve_dev hok.inv h.dev (h.pool_le hp) hres
    have hdev2 : DevStep s.dev d p (p1.write r.off (pattern (1000 + s.nextFam) n)) := ⟨hdev.ok, hdev.bal⟩
    -- filling the new block does not disturb the other memories
    have hrel : SameContents p (p1.write r.off (pattern (1000 + s.nextFam) n)) ∧
        SameAliasing p (p1.write r.off (pattern (1000 + s.nextFam) n)) := by
      constructor
      · intro k' x hx
        obtain ⟨x', hx', h1, h2, h3⟩ := hrsv.contents k' x hx
        refine ⟨x', hx', h1, h2, ?_⟩
        rw [← h3]
        have hx'mem := (findSlot_some hx').1
        have hxmem := (findSlot_some hx).1
        have hne : r.fam ≠ x'.fam := by
          rw [hrfam, h2]; exact Nat.ne_of_gt (hok.fams x hxmem)
        have := write_other hrsv.inv hrmem hx'mem 0 (pattern (1000 + s.nextFam) n) (by rw [hplen]; omega)
          (hrsv.inv.famDisj r hrmem x' hx'mem hne)
        simpa using this
      · exact hrsv.aliasing
    rcases pool_index hp with rfl | rfl
    · exact pool_step h hp (Nat.le_succ _) hok2 hdev2 hrel rfl (by other_pools) rfl rfl
    · exact pool_step h hp (Nat.le_succ _) hok2 hdev2 hrel rfl (by other_pools) rfl rfl

end Occa.Pool
