/-
`Killed s K s'`: state `s'` is `s` after exactly the backend objects in `K` were destroyed (their
handles NULLed, they and nothing else removed from every ring).  The relation is stated through
membership so that it does not depend on the order in which the rings are walked, and it composes.
-/
import OccaProofs.Lemmas.GcList

namespace Occa.Gc

structure Killed (s : St) (K : List Nat) (s' : St) : Prop where
  next : s'.next = s.next
  kind : s'.kind = s.kind
  trap : s'.trap = s.trap
  useRefs : s'.useRefs = s.useRefs
  inner : s'.inner = s.inner
  vlive : s'.vlive = s.vlive
  alive : ∀ o, s'.alive o = (s.alive o && decide (o ∉ K))
  dtors : ∀ o, s'.dtors o = s.dtors o + K.count o
  ring : ∀ o, s'.ring o = if o ∈ K then [] else s.ring o
  ptrK : ∀ v o, o ∈ K → v ∈ s.ring o → s'.ptr v = none
  ptrU : ∀ v, (∀ o ∈ K, v ∉ s.ring o) → s'.ptr v = s.ptr v
  par : ∀ o, o ∉ K → s.alive o = true → s'.par o = s.par o
  kidsS : ∀ b x, x ∈ s'.kids b → x ∈ s.kids b
  kidsU : ∀ b x, x ∈ s.kids b → s.alive x = true → x ∉ K → b ∉ K → x ∈ s'.kids b
  kidsN : ∀ b, (s.kids b).Nodup → (s'.kids b).Nodup
  chS : ∀ k d x, x ∈ s'.chGet k d → x ∈ s.chGet k d
  chU : ∀ k d x, x ∈ s.chGet k d → s.alive x = true → x ∉ K → d ∉ K → x ∈ s'.chGet k d
  chN : ∀ k d, (s.chGet k d).Nodup → (s'.chGet k d).Nodup

theorem Killed.refl (s : St) : Killed s [] s := by
  constructor <;> simp <;> intros <;> assumption

theorem Killed.trans {s s1 s2 : St} {K1 K2 : List Nat}
    (h1 : Killed s K1 s1) (h2 : Killed s1 K2 s2) : Killed s (K1 ++ K2) s2 := by
  constructor
  · rw [h2.next, h1.next]
  · rw [h2.kind, h1.kind]
  · rw [h2.trap, h1.trap]
  · rw [h2.useRefs, h1.useRefs]
  · rw [h2.inner, h1.inner]
  · rw [h2.vlive, h1.vlive]
  · intro o
    rw [h2.alive, h1.alive]
    by_cases a : o ∈ K1 <;> by_cases b : o ∈ K2 <;> simp [a, b]
  · intro o
    rw [h2.dtors, h1.dtors, List.count_append]; omega
  · intro o
    rw [h2.ring, h1.ring]
    by_cases a : o ∈ K1 <;> by_cases b : o ∈ K2 <;> simp [a, b]
  · intro v o ho hv
    rcases List.mem_append.mp ho with ho | ho
    · -- killed in the first phase: NULL after it, and the second phase keeps it NULL
      have e1 : s1.ptr v = none := h1.ptrK v o ho hv
      by_cases hx : ∀ o' ∈ K2, v ∉ s1.ring o'
      · rw [h2.ptrU v hx, e1]
      · have : ∃ o' ∈ K2, v ∈ s1.ring o' := by
          by_contra hc
          exact hx (fun o' ho' hv' => hc ⟨o', ho', hv'⟩)
        obtain ⟨o', ho', hv'⟩ := this
        exact h2.ptrK v o' ho' hv'
    · by_cases hk1 : o ∈ K1
      · have e1 : s1.ptr v = none := h1.ptrK v o hk1 hv
        by_cases hx : ∀ o' ∈ K2, v ∉ s1.ring o'
        · rw [h2.ptrU v hx, e1]
        · have : ∃ o' ∈ K2, v ∈ s1.ring o' := by
            by_contra hc
            exact hx (fun o' ho' hv' => hc ⟨o', ho', hv'⟩)
          obtain ⟨o', ho', hv'⟩ := this
          exact h2.ptrK v o' ho' hv'
      · have : v ∈ s1.ring o := by rw [h1.ring]; simp [hk1, hv]
        exact h2.ptrK v o ho this
  · intro v hv
    have a : ∀ o ∈ K1, v ∉ s.ring o := fun o ho => hv o (List.mem_append.mpr (Or.inl ho))
    have b : ∀ o ∈ K2, v ∉ s1.ring o := by
      intro o ho
      rw [h1.ring]
      by_cases hk : o ∈ K1
      · simp [hk]
      · simp only [hk, if_false]
        exact hv o (List.mem_append.mpr (Or.inr ho))
    rw [h2.ptrU v b, h1.ptrU v a]
  · intro o ho hal
    have a : o ∉ K1 := fun c => ho (List.mem_append.mpr (Or.inl c))
    have b : o ∉ K2 := fun c => ho (List.mem_append.mpr (Or.inr c))
    rw [h2.par o b (by rw [h1.alive]; simp [hal, a]), h1.par o a hal]
  · intro b x hx
    exact h1.kidsS b x (h2.kidsS b x hx)
  · intro b x hx ha hxk hbk
    simp only [List.mem_append, not_or] at hxk hbk
    exact h2.kidsU b x (h1.kidsU b x hx ha hxk.1 hbk.1) (by rw [h1.alive]; simp [ha, hxk.1]) hxk.2 hbk.2
  · intro b hb
    exact h2.kidsN b (h1.kidsN b hb)
  · intro k d x hx
    exact h1.chS k d x (h2.chS k d x hx)
  · intro k d x hx ha hxk hdk
    simp only [List.mem_append, not_or] at hxk hdk
    exact h2.chU k d x (h1.chU k d x hx ha hxk.1 hdk.1) (by rw [h1.alive]; simp [ha, hxk.1]) hxk.2 hdk.2
  · intro k d hd
    exact h2.chN k d (h1.chN k d hd)

theorem Killed.perm {s s' : St} {K K' : List Nat} (hp : K.Perm K') (h : Killed s K s') : Killed s K' s' := by
  have hm : ∀ o, o ∈ K ↔ o ∈ K' := fun o => hp.mem_iff
  constructor
  · exact h.next
  · exact h.kind
  · exact h.trap
  · exact h.useRefs
  · exact h.inner
  · exact h.vlive
  · intro o; rw [h.alive]; simp [hm o]
  · intro o; rw [h.dtors, hp.count_eq]
  · intro o; rw [h.ring]; simp [hm o]
  · intro v o ho; exact h.ptrK v o ((hm o).mpr ho)
  · intro v hv; exact h.ptrU v (fun o ho => hv o ((hm o).mp ho))
  · intro o ho hal; exact h.par o (fun c => ho ((hm o).mp c)) hal
  · exact h.kidsS
  · intro b x hx ha a c; exact h.kidsU b x hx ha (fun d => a ((hm x).mp d)) (fun d => c ((hm b).mp d))
  · exact h.kidsN
  · exact h.chS
  · intro k d x hx ha a c; exact h.chU k d x hx ha (fun e => a ((hm x).mp e)) (fun e => c ((hm d).mp e))
  · exact h.chN

/-- the member rings of the destroyed objects are empty afterwards -/
def Emptied (s' : St) (K : List Nat) : Prop :=
  ∀ b ∈ K, s'.kids b = [] ∧ ∀ k, s'.chGet k b = []

theorem Emptied.mono {s s' : St} {K K2 : List Nat} (h : Killed s K2 s') (he : Emptied s K) : Emptied s' K := by
  intro b hb
  obtain ⟨h1, h2⟩ := he b hb
  constructor
  · apply List.eq_nil_iff_forall_not_mem.mpr
    intro x hx
    have := h.kidsS b x hx
    simp [h1] at this
  · intro k
    apply List.eq_nil_iff_forall_not_mem.mpr
    intro x hx
    have := h.chS k b x hx
    simp [h2 k] at this

theorem Emptied.append {s' : St} {K1 K2 : List Nat} (h1 : Emptied s' K1) (h2 : Emptied s' K2) :
    Emptied s' (K1 ++ K2) := by
  intro b hb
  rcases List.mem_append.mp hb with hb | hb
  · exact h1 b hb
  · exact h2 b hb

/-- the destroyed objects are no longer members of any ring of children -/
def Purged (s' : St) (K : List Nat) : Prop :=
  (∀ b x, x ∈ s'.kids b → x ∉ K) ∧ (∀ k d x, x ∈ s'.chGet k d → x ∉ K)

theorem Purged.mono {s s' : St} {K K2 : List Nat} (h : Killed s K2 s') (hp : Purged s K) : Purged s' K :=
  ⟨fun b x hx => hp.1 b x (h.kidsS b x hx), fun k d x hx => hp.2 k d x (h.chS k d x hx)⟩

theorem Purged.append {s' : St} {K1 K2 : List Nat} (h1 : Purged s' K1) (h2 : Purged s' K2) :
    Purged s' (K1 ++ K2) := by
  constructor
  · intro b x hx hk
    rcases List.mem_append.mp hk with hk | hk
    · exact h1.1 b x hx hk
    · exact h2.1 b x hx hk
  · intro k d x hx hk
    rcases List.mem_append.mp hk with hk | hk
    · exact h1.2 k d x hx hk
    · exact h2.2 k d x hx hk

theorem Purged.nil (s : St) : Purged s [] := ⟨by simp, by simp⟩
theorem Emptied.nil (s : St) : Emptied s [] := by intro b hb; simp at hb

end Occa.Gc
