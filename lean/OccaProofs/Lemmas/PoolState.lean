/-
The state invariant `SInv` of the whole model (both pools, the device buffers, the counters) and
the generic lemmas for replacing one pool / the device part of a state.
-/
import OccaProofs.Lemmas.PoolDev

namespace Occa.Pool

def poolSize : Option Pool → Nat
  | none => 0
  | some p => p.size

/-- bytes of the live buffers that `memoryAllocated()` counts (not wrapped) -/
def countedBytes : List DBuf → Nat
  | [] => 0
  | b :: bs => (if b.counted then b.size else 0) + countedBytes bs

structure PoolOK (nf : Nat) (p : Pool) : Prop where
  inv : PInv p
  fams : ∀ r ∈ p.resv, r.fam < nf
  slots : ∀ r ∈ p.resv, r.slot < NSLOT

theorem PoolOK.mono {nf nf' : Nat} {p : Pool} (h : PoolOK nf p) (hle : nf ≤ nf') : PoolOK nf' p :=
  ⟨h.inv, fun r hr => Nat.lt_of_lt_of_le (h.fams r hr) hle, h.slots⟩

structure SInv (s : State) : Prop where
  pools : ∀ i p, s.pool i = some p → PoolOK s.nextFam p
  dev : DevOK s.dev
  /-- C05: the counter is the sum of the live counted buffers and the live pool buffers -/
  account : s.dev.alloc = countedBytes s.bufs + poolSize (s.pool 0) + poolSize (s.pool 1)
  bufIds : (s.bufs.map (·.id)).Nodup
  bufBelow : ∀ b ∈ s.bufs, b.id < s.nextFam
  /-- a buffer lives exactly as long as a memory object refers to it -/
  bufLive : ∀ b ∈ s.bufs, ∃ m ∈ s.mems, m.buf = b.id
  memSlots : (s.mems.map (·.slot)).Nodup
  memBelow : ∀ m ∈ s.mems, m.slot < NSLOT
  /-- a slot names one memory object: no device memory shares its slot with a pool reservation -/
  cross : ∀ m ∈ s.mems, ∀ i p, s.pool i = some p → findSlot m.slot p.resv = none

theorem sinv_init : SInv {} := by
  refine ⟨?_, devOK_init, rfl, by simp, by simp, by simp, by simp, by simp, by simp⟩
  intro i p hp
  rcases i with _ | _ | i <;> simp [State.pool] at hp

theorem pool_index {s : State} {i : Nat} {p : Pool} (h : s.pool i = some p) : i = 0 ∨ i = 1 := by
  rcases i with _ | _ | i
  · exact Or.inl rfl
  · exact Or.inr rfl
  · simp [State.pool] at h

theorem pool_ge_two (s : State) (j : Nat) : s.pool (j + 2) = none := rfl

/-- replace pool `i` (and the counters): the generic preservation lemma of all pool operations -/
theorem sinv_update_pool {s s' : State} (h : SInv s) {i : Nat} {p p' : Pool} (hp : s.pool i = some p)
    (hnf : s.nextFam ≤ s'.nextFam) (hok : PoolOK s'.nextFam p') (hdev : DevStep s.dev s'.dev p p')
    (hpi : s'.pool i = some p') (hpj : ∀ j, j ≠ i → s'.pool j = s.pool j)
    (hbufs : s'.bufs = s.bufs) (hmems : s'.mems = s.mems)
    (hcross : ∀ m ∈ s.mems, findSlot m.slot p'.resv = none) : SInv s' := by
  refine ⟨?_, hdev.ok, ?_, hbufs ▸ h.bufIds, ?_, ?_, hmems ▸ h.memSlots, hmems ▸ h.memBelow, ?_⟩
  rotate_left 4
  · intro m hm j q hq
    rw [hmems] at hm
    by_cases hji : j = i
    · subst hji; rw [hpi] at hq; cases hq; exact hcross m hm
    · rw [hpj j hji] at hq; exact h.cross m hm j q hq
  · intro j q hq
    by_cases hji : j = i
    · subst hji; rw [hpi] at hq; cases hq; exact hok
    · rw [hpj j hji] at hq; exact (h.pools j q hq).mono hnf
  · have hacc := h.account
    have hbal := hdev.bal
    rw [hbufs]
    rcases pool_index hp with rfl | rfl
    · rw [hpi, hpj 1 (by omega)]
      rw [hp] at hacc
      simp only [poolSize] at hacc ⊢
      omega
    · rw [hpi, hpj 0 (by omega)]
      rw [hp] at hacc
      simp only [poolSize] at hacc ⊢
      omega
  · intro b hb; rw [hbufs] at hb; exact Nat.lt_of_lt_of_le (h.bufBelow b hb) hnf
  · intro b hb; rw [hbufs] at hb; rw [hmems]; exact h.bufLive b hb

/-- the pool's buffer is part of the counter -/
theorem SInv.pool_le {s : State} (h : SInv s) {i : Nat} {p : Pool} (hp : s.pool i = some p) :
    p.size ≤ s.dev.alloc := by
  have hacc := h.account
  rcases pool_index hp with rfl | rfl <;> rw [hp] at hacc <;> simp only [poolSize] at hacc <;> omega

theorem devStep_same {d : Dev} (hd : DevOK d) {p p' : Pool} (hs : p'.size = p.size) : DevStep d d p p' :=
  ⟨hd, by rw [hs]⟩

/-! ### slots -/

theorem poolHas_false {q : Option Pool} {k : Nat} (h : poolHas q k = false) {p : Pool} (hq : q = some p) :
    findSlot k p.resv = none := by
  subst hq
  have h' : (findSlot k p.resv).isSome = false := h
  cases hf : findSlot k p.resv with
  | none => rfl
  | some r => rw [hf] at h'; simp at h'

theorem slotLive_false {s : State} {k : Nat} (h : s.slotLive k = false) :
    (∀ i p, s.pool i = some p → findSlot k p.resv = none) ∧ findMem k s.mems = none := by
  unfold State.slotLive at h
  simp only [Bool.or_eq_false_iff] at h
  refine ⟨?_, ?_⟩
  · intro i p hp
    rcases pool_index hp with rfl | rfl
    · exact poolHas_false h.1.1 hp
    · exact poolHas_false h.1.2 hp
  · cases hf : findMem k s.mems with
    | none => rfl
    | some m => rw [hf] at h; simp at h

theorem findMem_some {k : Nat} {l : List DMem} {m : DMem} (h : findMem k l = some m) : m ∈ l ∧ m.slot = k := by
  induction l with
  | nil => simp [findMem] at h
  | cons y ys ih =>
    unfold findMem at h
    split at h
    · rename_i hy; cases h; exact ⟨List.mem_cons_self, hy⟩
    · exact ⟨List.mem_cons_of_mem _ (ih h).1, (ih h).2⟩

theorem findMem_none {k : Nat} {l : List DMem} (h : findMem k l = none) : ∀ m ∈ l, m.slot ≠ k := by
  induction l with
  | nil => simp
  | cons y ys ih =>
    unfold findMem at h
    split at h
    · cases h
    · rename_i hy
      intro m hm
      rcases List.mem_cons.1 hm with rfl | hm
      · exact hy
      · exact ih h m hm

theorem eraseMem_perm {k : Nat} {l : List DMem} {m : DMem} (h : findMem k l = some m) :
    l.Perm (m :: eraseMem k l) := by
  induction l with
  | nil => simp [findMem] at h
  | cons y ys ih =>
    unfold findMem at h
    unfold eraseMem
    split at h
    · rename_i hy; cases h; rw [if_pos hy]
    · rename_i hy
      rw [if_neg hy]
      exact (List.Perm.cons y (ih h)).trans (List.Perm.swap m y _)

theorem findBuf_some {i : Nat} {l : List DBuf} {b : DBuf} (h : findBuf i l = some b) : b ∈ l ∧ b.id = i := by
  induction l with
  | nil => simp [findBuf] at h
  | cons y ys ih =>
    unfold findBuf at h
    split at h
    · rename_i hy; cases h; exact ⟨List.mem_cons_self, hy⟩
    · exact ⟨List.mem_cons_of_mem _ (ih h).1, (ih h).2⟩

theorem eraseBuf_perm {i : Nat} {l : List DBuf} {b : DBuf} (h : findBuf i l = some b) :
    l.Perm (b :: eraseBuf i l) := by
  induction l with
  | nil => simp [findBuf] at h
  | cons y ys ih =>
    unfold findBuf at h
    unfold eraseBuf
    split at h
    · rename_i hy; cases h; rw [if_pos hy]
    · rename_i hy
      rw [if_neg hy]
      exact (List.Perm.cons y (ih h)).trans (List.Perm.swap b y _)

theorem countedBytes_perm {l l' : List DBuf} (h : l.Perm l') : countedBytes l = countedBytes l' := by
  induction h with
  | nil => rfl
  | cons x _ ih => simp [countedBytes, ih]
  | swap x y l => simp [countedBytes]; omega
  | trans _ _ ih1 ih2 => exact ih1.trans ih2

theorem countedBytes_append (l l' : List DBuf) : countedBytes (l ++ l') = countedBytes l + countedBytes l' := by
  induction l with
  | nil => simp [countedBytes]
  | cons x xs ih => simp [countedBytes, ih]; omega

theorem setBufData_map (i : Nat) (f : List Byte → List Byte) (l : List DBuf) :
    (setBufData i f l).map (fun b => (b.id, b.size, b.counted)) = l.map (fun b => (b.id, b.size, b.counted)) := by
  induction l with
  | nil => rfl
  | cons x xs ih =>
    unfold setBufData
    split
    · simp
    · simp [ih]

theorem countedBytes_eq_of_map {l l' : List DBuf}
    (h : l'.map (fun b => (b.id, b.size, b.counted)) = l.map (fun b => (b.id, b.size, b.counted))) :
    countedBytes l' = countedBytes l := by
  induction l generalizing l' with
  | nil => cases l' with
    | nil => rfl
    | cons y ys => simp at h
  | cons x xs ih =>
    cases l' with
    | nil => simp at h
    | cons y ys =>
      simp only [List.map_cons, List.cons.injEq, Prod.mk.injEq] at h
      simp only [countedBytes]
      rw [ih h.2, h.1.2.1, h.1.2.2]

/-- replace the device part (buffers, memories, counters): preservation lemma of the device ops -/
theorem sinv_update_dev {s s' : State} (h : SInv s) (hnf : s.nextFam ≤ s'.nextFam)
    (hpools : ∀ j, s'.pool j = s.pool j) (hdev : DevOK s'.dev)
    (hacc : s'.dev.alloc + countedBytes s.bufs = s.dev.alloc + countedBytes s'.bufs)
    (hids : (s'.bufs.map (·.id)).Nodup) (hbelow : ∀ b ∈ s'.bufs, b.id < s'.nextFam)
    (hlive : ∀ b ∈ s'.bufs, ∃ m ∈ s'.mems, m.buf = b.id)
    (hslots : (s'.mems.map (·.slot)).Nodup) (hmb : ∀ m ∈ s'.mems, m.slot < NSLOT)
    (hcross : ∀ m ∈ s'.mems, ∀ i p, s.pool i = some p → findSlot m.slot p.resv = none) : SInv s' := by
  refine ⟨?_, hdev, ?_, hids, hbelow, hlive, hslots, hmb, fun m hm i p hp => hcross m hm i p (hpools i ▸ hp)⟩
  · intro j q hq
    rw [hpools j] at hq
    exact (h.pools j q hq).mono hnf
  · have := h.account
    rw [hpools 0, hpools 1]
    omega

end Occa.Pool
