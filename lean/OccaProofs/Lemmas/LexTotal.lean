/-
Helper lemmas for C12: no function of the tokenizer model traps, every getToken makes progress.
-/
import OccaProofs.Lemmas.LexOps

namespace Occa.Lex
open Occa.Gen

/-! ### NUL-free strings -/

abbrev NoNul (r : Str) : Prop := ∀ c ∈ r, c ≠ NUL

theorem NoNul.suffix {r' r : Str} (h : NoNul r) (s : Suffix r' r) : NoNul r' := by
  obtain ⟨w, rfl⟩ := s
  exact fun c hc => h c (by simp [hc])

theorem NoNul.hd_eq_nul {r : Str} (h : NoNul r) : hd r = NUL ↔ r = [] := by
  cases r with
  | nil => simp
  | cons c t => simpa using h c (by simp)

theorem NoNul.consumed {r : Str} (h : NoNul r) (r' : Str) : NoNul (consumed r r') :=
  fun c hc => h c (List.mem_of_mem_take hc)

theorem NoNul.tail {c : Char} {t : Str} (h : NoNul (c :: t)) : NoNul t :=
  fun x hx => h x (by simp [hx])

theorem mem_takeWhile_imp' {p : Char → Bool} {l : Str} {c : Char} (h : c ∈ l.takeWhile p) : p c = true :=
  (List.all_eq_true.mp List.all_takeWhile) c h

theorem takeWhile_eq_self {p : Char → Bool} {l : Str} (h : ∀ c ∈ l, p c = true) : l.takeWhile p = l := by
  induction l with
  | nil => rfl
  | cons c t ih =>
    rw [List.takeWhile_cons_of_pos (h c (by simp)), ih (fun x hx => h x (by simp [hx]))]

theorem len_takeWhile_dropWhile (p : Char → Bool) (l : Str) :
    (l.takeWhile p).length + (l.dropWhile p).length = l.length := by
  rw [← List.length_append, List.takeWhile_append_dropWhile]

theorem cstr_noNul (s : Str) : NoNul (cstr s) := by
  intro c hc
  have := mem_takeWhile_imp' hc
  simpa using this

theorem cstr_of_noNul {s : Str} (h : NoNul s) : cstr s = s := by
  unfold cstr
  apply takeWhile_eq_self
  intro c hc
  simpa using h c hc

/-! ### character-set facts -/

theorem idStart_nul : identifierStart.contains NUL = false := by decide

theorem nonempty_of_idStart {r : Str} (h : identifierStart.contains (hd r) = true) : ∃ c t, r = c :: t := by
  cases r with
  | nil => rw [hd_nil, idStart_nul] at h; exact Bool.noConfusion h
  | cons c t => exact ⟨c, t, rfl⟩

theorem ne_nil_of_hd {r : Str} {c : Char} (h : hd r = c) (hc : c ≠ NUL) : ∃ t, r = c :: t := by
  cases r with
  | nil => exact absurd h.symm hc
  | cons d t => exact ⟨t, by simp at h; rw [h]⟩

/-! ### the skip loops: shape of the result, idempotence -/

theorem skipUntil_result (stop : Char → Bool) (r : Str) {r1 : Str} (h : skipUntil stop r = .ok r1) :
    r1 = [] ∨ ∃ c t, r1 = c :: t ∧ c ≠ '\\' ∧ stop c = true := by
  fun_induction skipUntil stop r generalizing r1
  all_goals (try simp_all)
  all_goals (try (subst h; simp_all))

theorem skipUntil_idem (stop : Char → Bool) (r : Str) {r1 : Str} (h : skipUntil stop r = .ok r1) :
    skipUntil stop r1 = .ok r1 := by
  rcases skipUntil_result stop r h with rfl | ⟨c, t, rfl, hc, hs⟩
  · rfl
  · exact skipUntil_stop t hc hs

/-! ### suffixes whose consumed characters satisfy a predicate -/

def SuffixP (P : Char → Prop) (r' r : Str) : Prop := ∃ w, r = w ++ r' ∧ ∀ c ∈ w, P c

theorem SuffixP.refl {P : Char → Prop} (r : Str) : SuffixP P r r := ⟨[], rfl, by simp⟩
theorem SuffixP.trans {P : Char → Prop} {a b c : Str} (h1 : SuffixP P a b) (h2 : SuffixP P b c) : SuffixP P a c := by
  obtain ⟨w1, rfl, p1⟩ := h1; obtain ⟨w2, rfl, p2⟩ := h2
  refine ⟨w2 ++ w1, by simp, ?_⟩
  intro x hx
  rcases List.mem_append.mp hx with h | h
  · exact p2 x h
  · exact p1 x h
theorem SuffixP.cons {P : Char → Prop} {a b : Str} (c : Char) (hc : P c) (h : SuffixP P a b) : SuffixP P a (c :: b) := by
  obtain ⟨w, rfl, p⟩ := h
  refine ⟨c :: w, rfl, ?_⟩
  intro x hx
  rcases List.mem_cons.mp hx with rfl | h
  · exact hc
  · exact p x h
theorem SuffixP.suffix {P : Char → Prop} {a b : Str} (h : SuffixP P a b) : Suffix a b := by
  obtain ⟨w, rfl, _⟩ := h; exact ⟨w, rfl⟩
theorem SuffixP.dropWhile {P : Char → Prop} (p : Char → Bool) (r : Str) (hp : ∀ c, p c = true → P c) :
    SuffixP P (r.dropWhile p) r :=
  ⟨r.takeWhile p, (List.takeWhile_append_dropWhile).symm, fun c hc => hp c (mem_takeWhile_imp' hc)⟩
theorem SuffixP.length_lt {P : Char → Prop} {a b : Str} (c : Char) (h : SuffixP P a b) : a.length < (c :: b).length := by
  have := h.suffix.length_le; simp; omega

/-- "is not a backslash" -/
abbrev NB (c : Char) : Prop := c ≠ '\\'

theorem nb_isLU {c : Char} (h : isLU c = true) : NB c := by
  intro e; subst e; revert h; decide
theorem nb_isE {c : Char} (h : isE c = true) : NB c := by
  intro e; subst e; revert h; decide
theorem nb_isF {c : Char} (h : isF c = true) : NB c := by
  intro e; subst e; revert h; decide
theorem nb_isBin {c : Char} (h : isBin c = true) : NB c := by
  intro e; subst e; revert h; decide
theorem nb_isHex {c : Char} (h : isHex c = true) : NB c := by
  intro e; subst e; revert h; decide
theorem nb_isDigitOrDot {c : Char} (h : isDigitOrDot c = true) : NB c := by
  intro e; subst e; revert h; decide
theorem nb_lexWs {c : Char} (h : lexWhitespace.contains c = true) : NB c := by
  intro e; subst e; revert h; decide

/-! ### primitive::load only moves forward, over characters that are not backslashes -/

theorem suffixLoop_suffix (ld : Str → Option Str) (hld : ∀ t x, ld t = some x → SuffixP NB x t) (r : Str) :
    SuffixP NB (suffixLoop ld r) r := by
  induction r with
  | nil => exact SuffixP.refl _
  | cons c t ih =>
    unfold suffixLoop
    split
    · exact SuffixP.cons c (nb_isLU ‹_›) ih
    · split
      · cases h : ld t with
        | none => exact SuffixP.cons c (nb_isE ‹_›) (SuffixP.refl _)
        | some x => exact SuffixP.cons c (nb_isE ‹_›) (hld t x h)
      · split
        · exact SuffixP.cons c (nb_isF ‹_›) ih
        · exact SuffixP.refl _

theorem loadDigits_suffix (p : Char → Bool) (hp : ∀ c, p c = true → NB c) (t x : Str)
    (h : loadDigits p t = some x) : SuffixP NB x t ∧ x.length < t.length := by
  unfold loadDigits at h
  split at h
  · cases h
  · rename_i hne
    have hx : x = t.dropWhile p := by simpa using h.symm
    subst hx
    refine ⟨SuffixP.dropWhile p t hp, ?_⟩
    have e := len_takeWhile_dropWhile p t
    have : (t.takeWhile p).length ≠ 0 := by
      intro h0; exact hne (by simp [List.eq_nil_of_length_eq_zero h0])
    omega

theorem loadSignSkip_suffix (r : Str) : SuffixP NB (loadSignSkip r) r := by
  unfold loadSignSkip
  split
  · rename_i hs
    cases r with
    | nil => simp [isSigned, hd, NUL] at hs
    | cons c t =>
      have hc : NB c := by
        intro e; subst e; revert hs; simp [isSigned, hd]
      exact SuffixP.cons c hc (by simpa using SuffixP.dropWhile _ t (fun c h => nb_lexWs h))
  · exact SuffixP.refl _

theorem loadBody_suffix (ld : Str → Option Str) (hld : ∀ t x, ld t = some x → SuffixP NB x t) (r1 x : Str)
    (h : loadBody ld r1 = some x) : SuffixP NB x r1 ∧ x.length < r1.length := by
  unfold loadBody at h
  split at h
  · cases h
  · -- formatted: r1 = '0' :: x :: t
    rename_i r2 hf
    have hx : x = r2.dropWhile isLU := by simpa using h.symm
    unfold loadFormatted at hf
    split at hf
    · rename_i y t
      have key : ∀ p : Char → Bool, (∀ c, p c = true → NB c) → NB y → loadDigits p t = some r2 →
          SuffixP NB x ('0' :: y :: t) ∧ x.length < ('0' :: y :: t).length := by
        intro p hp hy hd
        obtain ⟨s1, l1⟩ := loadDigits_suffix p hp t r2 hd
        have s2 : SuffixP NB x r2 := by rw [hx]; exact SuffixP.dropWhile isLU r2 (fun c h => nb_isLU h)
        have s3 := SuffixP.cons '0' (by decide : NB '0') (SuffixP.cons y hy (s2.trans s1))
        refine ⟨s3, ?_⟩
        have := s2.suffix.length_le
        simp; omega
      split at hf
      · rename_i hb
        have hy : NB y := by intro e; subst e; revert hb; decide
        exact key isBin (fun c h => nb_isBin h) hy (by simpa using hf)
      · split at hf
        · rename_i hb
          have hy : NB y := by intro e; subst e; revert hb; decide
          exact key isHex (fun c h => nb_isHex h) hy (by simpa using hf)
        · cases hf
    · cases hf
  · split at h
    · rename_i hany
      have hx : x = suffixLoop ld (r1.dropWhile isDigitOrDot) := by simpa using h.symm
      have s1 := SuffixP.dropWhile (P := NB) isDigitOrDot r1 (fun c h => nb_isDigitOrDot h)
      have s2 := suffixLoop_suffix ld hld (r1.dropWhile isDigitOrDot)
      rw [← hx] at s2
      refine ⟨s2.trans s1, ?_⟩
      have e := len_takeWhile_dropWhile isDigitOrDot r1
      have hne : (r1.takeWhile isDigitOrDot).length ≠ 0 := by
        intro h0
        rw [List.eq_nil_of_length_eq_zero h0] at hany
        simp at hany
      have := s2.suffix.length_le
      omega
    · cases h

theorem loadF_suffix : ∀ (f : Nat) (s : Bool) (r x : Str), loadF f s r = some x → SuffixP NB x r ∧ x.length < r.length := by
  intro f
  induction f with
  | zero => intro s r x h; simp [loadF] at h
  | succ f ih =>
    intro s r x h
    unfold loadF at h
    split at h
    · rename_i hp
      obtain ⟨t, rfl⟩ := prefix_of_isPrefixOf hp
      have hx : x = t := by simpa using h.symm
      subst hx
      exact ⟨⟨['t', 'r', 'u', 'e'], rfl, by decide⟩, by simp only [List.length_append, List.length_cons, List.length_nil]; omega⟩
    · split at h
      · rename_i hp
        obtain ⟨t, rfl⟩ := prefix_of_isPrefixOf hp
        have hx : x = t := by simpa using h.symm
        subst hx
        exact ⟨⟨['f', 'a', 'l', 's', 'e'], rfl, by decide⟩, by simp only [List.length_append, List.length_cons, List.length_nil]; omega⟩
      · split at h
        · cases h
        · obtain ⟨s1, l1⟩ := loadBody_suffix (loadF f true) (fun t x hx => (ih true t x hx).1) _ x h
          have s2 := loadSignSkip_suffix r
          exact ⟨s1.trans s2, by have := s2.suffix.length_le; omega⟩

theorem loadScan_suffix {s : Bool} {r x : Str} (h : loadScan s r = some x) : SuffixP NB x r ∧ x.length < r.length :=
  loadF_suffix _ s r x h

/-- a literal accepted without a sign is accepted, identically, when a sign would be allowed -/
theorem loadF_true_of_false (f : Nat) (r x : Str) (h : loadF f false r = some x) : loadF f true r = some x := by
  cases f with
  | zero => simp [loadF] at h
  | succ f =>
    unfold loadF at h ⊢
    by_cases h1 : startsWith ['t', 'r', 'u', 'e'] r = true
    · rw [if_pos h1] at h ⊢; exact h
    · rw [if_neg h1] at h ⊢
      by_cases h2 : startsWith ['f', 'a', 'l', 's', 'e'] r = true
      · rw [if_pos h2] at h ⊢; exact h
      · rw [if_neg h2] at h ⊢
        by_cases hs : isSigned r = true
        · simp [hs] at h
        · simp only [hs] at h ⊢
          simpa using h

end Occa.Lex
