/-
Lemmas about the staging discipline (OccaModel/BuildFS.lean): the invariant that ties the
discipline's bookkeeping to the file system, and its preservation by every accepted step.
-/
import OccaModel.BuildFS

namespace Occa.BuildFS

/-! ### file-system update lemmas -/

@[simp] theorem setFile_files_same (fs : FS) (p : Path) (f : Option File) : (fs.setFile p f).files p = f := by
  simp [FS.setFile]

theorem setFile_files_ne (fs : FS) (p q : Path) (f : Option File) (h : q ≠ p) :
    (fs.setFile p f).files q = fs.files q := by
  simp [FS.setFile, h]

@[simp] theorem setFile_dirs (fs : FS) (p : Path) (f : Option File) : (fs.setFile p f).dirs = fs.dirs := rfl
@[simp] theorem setDir_files (fs : FS) (d : String) (b : Bool) : (fs.setDir d b).files = fs.files := rfl

theorem isTemp_iff (p : Path) : p.isTemp = true ↔ p.tmp ≠ none := by
  cases h : p.tmp <;> simp [Path.isTemp, h]

theorem not_isTemp_iff (p : Path) : p.isTemp = false ↔ p.tmp = none := by
  cases h : p.tmp <;> simp [Path.isTemp, h]

theorem final_tmp (p : Path) : p.final.tmp = none := rfl
theorem final_dir (p : Path) : p.final.dir = p.dir := rfl
theorem final_base (p : Path) : p.final.base = p.base := rfl

theorem ne_of_temp_final {p q : Path} (hp : p.isTemp = true) (hq : q.tmp = none) : q ≠ p := by
  intro h; subst h; simp [Path.isTemp, hq] at hp

/-! ### the invariant between discipline state and file system -/

/-- what the discipline's bookkeeping promises about the file behind a temp name
    (the file may have disappeared: `rmrf`, or the rename that consumed it) -/
def TSOk (S : Spec) (p : Path) (ts : TS) (f : Option File) : Prop :=
  match ts with
  | .opened bs => f = none ∨ f = some ⟨bs, false⟩
  | .closedW bs => f = none ∨ f = some ⟨bs, true⟩
  | .compiled => f = none ∨ ∃ b, f = some ⟨b, true⟩ ∧ S.valid p.final b = true
  | .gone => True

/-- `fs0` is the file system the trace started from (it may hold temp-named debris) -/
structure Inv (S : Spec) (fs0 fs : FS) (st : AS) : Prop where
  used : ∀ p o ts, st p = some (o, ts) → p.isTemp = true ∧ TSOk S p ts (fs.files p)
  unused : ∀ p, p.isTemp = true → st p = none → fs.files p = none ∨ fs.files p = fs0.files p

theorem Inv_empty (S : Spec) (fs : FS) : Inv S fs fs AS.empty :=
  ⟨fun p o ts h => by simp [AS.empty] at h, fun _ _ _ => Or.inr rfl⟩

theorem AS.set_same (st : AS) (p : Path) (v : Nat × TS) : (st.set p v) p = some v := by simp [AS.set]
theorem AS.set_ne (st : AS) (p q : Path) (v : Nat × TS) (h : q ≠ p) : (st.set p v) q = st q := by
  simp [AS.set, h]

/-- changing the file system and the bookkeeping at one temp name only -/
theorem Inv_set_temp {S : Spec} {fs0 fs : FS} {st : AS} (h : Inv S fs0 fs st) (p : Path) (hp : p.isTemp = true)
    (o : Nat) (ts : TS) (f : Option File) (hok : TSOk S p ts f) :
    Inv S fs0 (fs.setFile p f) (st.set p (o, ts)) := by
  constructor
  · intro q o' ts' hq
    by_cases hqp : q = p
    · subst hqp
      rw [AS.set_same] at hq
      cases hq
      exact ⟨hp, by rw [setFile_files_same]; exact hok⟩
    · rw [AS.set_ne _ _ _ _ hqp] at hq
      rw [setFile_files_ne _ _ _ _ hqp]
      exact h.used q o' ts' hq
  · intro q hq hn
    by_cases hqp : q = p
    · subst hqp; rw [AS.set_same] at hn; cases hn
    · rw [AS.set_ne _ _ _ _ hqp] at hn
      rw [setFile_files_ne _ _ _ _ hqp]
      exact h.unused q hq hn

/-- changing only the bookkeeping at one temp name -/
theorem Inv_set_st {S : Spec} {fs0 fs : FS} {st : AS} (h : Inv S fs0 fs st) (p : Path) (hp : p.isTemp = true)
    (o : Nat) (ts : TS) (hok : TSOk S p ts (fs.files p)) : Inv S fs0 fs (st.set p (o, ts)) := by
  constructor
  · intro q o' ts' hq
    by_cases hqp : q = p
    · subst hqp; rw [AS.set_same] at hq; cases hq; exact ⟨hp, hok⟩
    · rw [AS.set_ne _ _ _ _ hqp] at hq; exact h.used q o' ts' hq
  · intro q hq hn
    by_cases hqp : q = p
    · subst hqp; rw [AS.set_same] at hn; cases hn
    · rw [AS.set_ne _ _ _ _ hqp] at hn; exact h.unused q hq hn

/-- a change of a final name does not concern the bookkeeping -/
theorem Inv_setFile_final {S : Spec} {fs0 fs : FS} {st : AS} (h : Inv S fs0 fs st) (b : Path) (hb : b.tmp = none)
    (f : Option File) : Inv S fs0 (fs.setFile b f) st := by
  constructor
  · intro q o ts hq
    obtain ⟨hqt, hok⟩ := h.used q o ts hq
    refine ⟨hqt, ?_⟩
    rw [setFile_files_ne _ _ _ _ (ne_of_temp_final hqt hb).symm]
    exact hok
  · intro q hq hn
    have : q ≠ b := by
      intro e; subst e; simp [Path.isTemp, hb] at hq
    rw [setFile_files_ne _ _ _ _ this]
    exact h.unused q hq hn

theorem TSOk_none (S : Spec) (p : Path) (ts : TS) : TSOk S p ts none := by
  cases ts <;> simp [TSOk]

/-- `Good` only looks at final names -/
theorem Good_setFile_temp {S : Spec} {fs : FS} (h : Good S fs) (p : Path) (hp : p.isTemp = true)
    (f : Option File) : Good S (fs.setFile p f) := by
  intro q g hq hg
  have : q ≠ p := ne_of_temp_final hp hq
  rw [setFile_files_ne _ _ _ _ this] at hg
  exact h q g hq hg

theorem Good_setFile_final {S : Spec} {fs : FS} (h : Good S fs) (b : Path) (f : File)
    (hc : f.closed = true) (hv : S.valid b f.bytes = true) : Good S (fs.setFile b (some f)) := by
  intro q g hq hg
  by_cases e : q = b
  · subst e
    rw [setFile_files_same] at hg
    cases hg
    exact ⟨hc, hv⟩
  · rw [setFile_files_ne _ _ _ _ e] at hg
    exact h q g hq hg

/-! ### the compiler step -/

theorem execOuts_some {S : Spec} (hS : S.Coherent) (pid : Nat) (src : Path) (hsrc : src.tmp = none)
    (sb : Bytes) (hv : S.valid src sb = true) (fs0 : FS) :
    ∀ (outs : List Path) (fs : FS) (st st' : AS),
      execOuts S st pid src outs = some st' → Inv S fs0 fs st → Good S fs →
      Inv S fs0 (outs.foldl (fun acc o => acc.setFile o (some ⟨S.compile o.base sb, true⟩)) fs) st' ∧
      Good S (outs.foldl (fun acc o => acc.setFile o (some ⟨S.compile o.base sb, true⟩)) fs) := by
  intro outs
  induction outs with
  | nil =>
    intro fs st st' h hI hG
    simp [execOuts] at h
    subst h
    exact ⟨hI, hG⟩
  | cons o r ih =>
    intro fs st st' h hI hG
    simp only [execOuts] at h
    split at h
    · rename_i hc
      simp only [Bool.and_eq_true, decide_eq_true_eq] at hc
      obtain ⟨⟨⟨ht, _⟩, hd⟩, hr⟩ := hc
      simp only [List.foldl_cons]
      apply ih _ _ _ h
      · apply Inv_set_temp hI o ht
        right
        refine ⟨_, rfl, ?_⟩
        exact hS src o sb hsrc hr hd.symm hv
      · exact Good_setFile_temp hG o ht _
    · cases h

/-- a compiler run that produces nothing (its source is missing): the outputs stay absent, provided
    their names were not lying around in the initial file system -/
theorem execOuts_none {S : Spec} (pid : Nat) (src : Path) (fs0 fs : FS) :
    ∀ (outs : List Path) (st st' : AS),
      execOuts S st pid src outs = some st' → Inv S fs0 fs st → (∀ o ∈ outs, fs0.files o = none) →
      Inv S fs0 fs st' := by
  intro outs
  induction outs with
  | nil => intro st st' h hI _; simp [execOuts] at h; subst h; exact hI
  | cons o r ih =>
    intro st st' h hI hfresh
    simp only [execOuts] at h
    split at h
    · rename_i hc
      simp only [Bool.and_eq_true, decide_eq_true_eq, Option.isNone_iff_eq_none] at hc
      obtain ⟨⟨⟨ht, hnone⟩, _⟩, _⟩ := hc
      apply ih _ _ h _ (fun o' ho' => hfresh o' (List.mem_cons_of_mem _ ho'))
      apply Inv_set_st hI o ht
      have : fs.files o = none := by
        rcases hI.unused o ht hnone with h1 | h1
        · exact h1
        · rw [h1]; exact hfresh o (List.mem_cons_self ..)
      rw [this]; exact TSOk_none S o _
    · cases h

/-- the temp names a step asks the compiler to produce -/
def execOutsOf : Op → List Path
  | .exec _ outs => outs
  | _ => []

/-! ### every accepted step preserves the invariant and `Good` -/

theorem step_preserves {S : Spec} (hS : S.Coherent) {fs0 fs : FS} {st st' : AS} {e : Ev}
    (hI : Inv S fs0 fs st) (hG : Good S fs) (ha : acceptStep S st e = some st')
    (hfresh : ∀ o ∈ execOutsOf e.op, fs0.files o = none) :
    Inv S fs0 (applyOp S fs e.op) st' ∧ Good S (applyOp S fs e.op) := by
  obtain ⟨pid, op, res⟩ := e
  cases op with
  | statDir d => simp [acceptStep] at ha; subst ha; exact ⟨hI, hG⟩
  | mkdir d =>
    simp [acceptStep] at ha; subst ha
    exact ⟨⟨fun p o ts h => hI.used p o ts h, fun p hp hn => hI.unused p hp hn⟩, fun p f hp hf => hG p f hp hf⟩
  | fsyncDir d => simp [acceptStep] at ha; subst ha; exact ⟨hI, hG⟩
  | rmrf d =>
    simp [acceptStep] at ha; subst ha
    constructor
    · constructor
      · intro p o ts h
        obtain ⟨ht, hok⟩ := hI.used p o ts h
        refine ⟨ht, ?_⟩
        simp only [applyOp]
        split
        · exact TSOk_none S p ts
        · exact hok
      · intro p hp hn
        simp only [applyOp]
        split
        · exact Or.inl rfl
        · exact hI.unused p hp hn
    · intro p f hp hf
      simp only [applyOp] at hf
      split at hf
      · cases hf
      · exact hG p f hp hf
  | creat p =>
    simp only [acceptStep] at ha
    split at ha
    · rename_i hc
      simp only [Bool.and_eq_true] at hc
      cases ha
      exact ⟨Inv_set_temp hI p hc.1 pid (.opened []) _ (Or.inr rfl), Good_setFile_temp hG p hc.1 _⟩
    · cases ha
  | append p bs =>
    simp only [acceptStep] at ha
    split at ha
    · rename_i o cur hst
      split at ha
      · cases ha
        obtain ⟨ht, hok⟩ := hI.used p o (.opened cur) hst
        simp only [applyOp]
        rcases hok with hn | hs
        · rw [hn]
          exact ⟨Inv_set_st hI p ht o _ (by rw [hn]; exact Or.inl rfl), hG⟩
        · rw [hs]
          exact ⟨Inv_set_temp hI p ht o (.opened (cur ++ bs)) _ (Or.inr rfl), Good_setFile_temp hG p ht _⟩
      · cases ha
    · cases ha
  | close p =>
    simp only [acceptStep] at ha
    split at ha
    · rename_i o cur hst
      split at ha
      · cases ha
        obtain ⟨ht, hok⟩ := hI.used p o (.opened cur) hst
        simp only [applyOp]
        rcases hok with hn | hs
        · rw [hn]
          exact ⟨Inv_set_st hI p ht o _ (by rw [hn]; exact Or.inl rfl), hG⟩
        · rw [hs]
          exact ⟨Inv_set_temp hI p ht o (.closedW cur) _ (Or.inr rfl), Good_setFile_temp hG p ht _⟩
      · cases ha
    · cases ha
  | fsync p =>
    simp only [acceptStep] at ha
    split at ha
    · cases ha; exact ⟨hI, hG⟩
    · cases ha
  | stat p =>
    simp only [acceptStep] at ha
    split at ha
    · cases ha; exact ⟨hI, hG⟩
    · cases ha
  | openRead p =>
    simp only [acceptStep] at ha
    split at ha
    · cases ha; exact ⟨hI, hG⟩
    · cases ha
  | run p =>
    simp only [acceptStep] at ha
    split at ha
    · cases ha; exact ⟨hI, hG⟩
    · cases ha
  | rename a b =>
    simp only [acceptStep] at ha
    split at ha
    · rename_i hc
      simp only [Bool.and_eq_true, Bool.not_eq_true', decide_eq_true_eq] at hc
      obtain ⟨⟨hat, hbt⟩, hfin⟩ := hc
      have hbn : b.tmp = none := (not_isTemp_iff b).1 hbt
      -- the file that gets installed is closed and valid for b
      have key : ∀ o ts, st a = some (o, ts) →
          (match ts with | .closedW bs => S.valid b bs = true | .compiled => True | _ => False) →
          Inv S fs0 (applyOp S fs (.rename a b)) (st.set a (o, .gone)) ∧ Good S (applyOp S fs (.rename a b)) := by
        intro o ts hst hts
        obtain ⟨_, hok⟩ := hI.used a o ts hst
        simp only [applyOp]
        cases hfa : fs.files a with
        | none =>
          simp only
          exact ⟨Inv_set_st hI a hat o .gone trivial, hG⟩
        | some f =>
          simp only
          have hf : f.closed = true ∧ S.valid b f.bytes = true := by
            cases ts with
            | opened bs => cases hts
            | gone => cases hts
            | closedW bs =>
              rw [hfa] at hok
              rcases hok with h | h
              · cases h
              · cases h; exact ⟨rfl, hts⟩
            | compiled =>
              rw [hfa] at hok
              rcases hok with h | ⟨bb, h, hv⟩
              · cases h
              · cases h; rw [hfin] at hv; exact ⟨rfl, hv⟩
          constructor
          · apply Inv_set_temp (Inv_setFile_final hI b hbn _) a hat o .gone none trivial
          · apply Good_setFile_temp _ a hat
            exact Good_setFile_final hG b f hf.1 hf.2
      split at ha
      · rename_i o bs hst
        split at ha
        · rename_i hc2
          simp only [Bool.and_eq_true, decide_eq_true_eq] at hc2
          cases ha
          exact key o (.closedW bs) hst hc2.2
        · cases ha
      · rename_i o hst
        split at ha
        · cases ha
          exact key o .compiled hst trivial
        · cases ha
      · cases ha
    · cases ha
  | exec src outs =>
    simp only [acceptStep] at ha
    split at ha
    · rename_i hsrc
      simp only [Bool.not_eq_true'] at hsrc
      have hsn : src.tmp = none := (not_isTemp_iff src).1 hsrc
      simp only [applyOp]
      cases hfs : fs.files src with
      | none =>
        simp only
        exact ⟨execOuts_none pid src fs0 fs outs st st' ha hI hfresh, hG⟩
      | some f =>
        simp only
        obtain ⟨hc, hv⟩ := hG src f hsn hfs
        exact execOuts_some hS pid src hsn f.bytes hv fs0 outs fs st st' ha hI hG
    · cases ha

/-! ### traces -/

/-- the compiler outputs of a trace were not lying around in the initial file system
    (unique temp names: `hash_t::random()`) -/
def FreshOuts (fs0 : FS) (t : Trace) : Prop := ∀ e ∈ t, ∀ o ∈ execOutsOf e.op, fs0.files o = none

theorem apply_cons (S : Spec) (e : Ev) (t : Trace) (fs : FS) : apply S (e :: t) fs = apply S t (applyOp S fs e.op) := rfl
theorem apply_nil (S : Spec) (fs : FS) : apply S [] fs = fs := rfl
theorem apply_append (S : Spec) (t1 t2 : Trace) (fs : FS) : apply S (t1 ++ t2) fs = apply S t2 (apply S t1 fs) := by
  simp [apply, List.foldl_append]

theorem acceptsFrom_append {S : Spec} : ∀ (t1 t2 : Trace) (st : AS),
    acceptsFrom S st (t1 ++ t2) = (acceptsFrom S st t1).bind (fun st' => acceptsFrom S st' t2) := by
  intro t1
  induction t1 with
  | nil => intro t2 st; simp [acceptsFrom]
  | cons e t ih =>
    intro t2 st
    simp only [List.cons_append, acceptsFrom]
    cases acceptStep S st e with
    | none => simp
    | some st' => simp [ih]

theorem trace_preserves {S : Spec} (hS : S.Coherent) (fs0 : FS) :
    ∀ (t : Trace) (fs : FS) (st st' : AS), Inv S fs0 fs st → Good S fs → acceptsFrom S st t = some st' →
      FreshOuts fs0 t → Inv S fs0 (apply S t fs) st' ∧ Good S (apply S t fs) := by
  intro t
  induction t with
  | nil => intro fs st st' hI hG ha _; simp [acceptsFrom] at ha; subst ha; exact ⟨hI, hG⟩
  | cons e t ih =>
    intro fs st st' hI hG ha hf
    simp only [acceptsFrom] at ha
    cases hstep : acceptStep S st e with
    | none => rw [hstep] at ha; cases ha
    | some st1 =>
      rw [hstep] at ha
      obtain ⟨hI1, hG1⟩ := step_preserves hS hI hG hstep (hf e (List.mem_cons_self ..))
      rw [apply_cons]
      exact ih _ _ _ hI1 hG1 ha (fun e' he' => hf e' (List.mem_cons_of_mem _ he'))

end Occa.BuildFS
