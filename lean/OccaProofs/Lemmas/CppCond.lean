/-
Lemmas about the conditional-directive machine (OccaModel/CppCond.lean) used by Props/C13.lean.
-/
import OccaModel.CppCond

namespace Occa.Cpp

/-! ### the machine against the reference on well-nested lists -/

/-- prepend observations to a run -/
def Run.pre (k : List (Nat × Bool)) (e : List Bool) (x : Run) : Run :=
  { x with kept := k ++ x.kept, evaluated := e ++ x.evaluated }

theorem Run.pre_nil (x : Run) : Run.pre [] [] x = x := by
  cases x; simp [Run.pre]

theorem Run.pre_pre (k1 k2 : List (Nat × Bool)) (e1 e2 : List Bool) (x : Run) :
    Run.pre k1 e1 (Run.pre k2 e2 x) = Run.pre (k1 ++ k2) (e1 ++ e2) x := by
  cases x; simp [Run.pre]

theorem runLines_text (cfg : Cfg) (m : CM) (id : Nat) (r : List Line) :
    runLines cfg m (.text id :: r) = Run.pre [(id, m.keeps)] [] (runLines cfg m r) := by
  simp [runLines, Run.pre]

/-- the state inside a group of an if-section opened in state `m`:
    `act`: the enclosing group is processed; `done`: a group of this section (possibly the current one)
    was taken; `cur`: the current group is processed; `els`: #else was seen -/
structure InGroup (m m' : CM) (act done cur els : Bool) : Prop where
  stack : m'.stack = m.status :: m.stack
  errors : m'.errors = m.errors
  crashed : m'.crashed = false
  pops0 : m'.pops0 = m.pops0
  popsBase : m'.popsBase = m.popsBase
  foundIf : m'.status.foundIf = true
  foundElse : m'.status.foundElse = els
  reading : m'.status.reading = cur
  ignoring : m'.status.ignoring = !cur
  finished : m'.status.finishedIf = (!act || (done && !cur))
  curDone : cur = true → done = true
  curAct : cur = true → act = true

theorem keeps_of (m : CM) (act : Bool) (hc : m.crashed = false) (hi : m.status.ignoring = !act) :
    m.keeps = act := by
  simp [CM.keeps, hc, hi]

/-- popping at `#endif` gives back exactly the machine that opened the section -/
theorem endif_restores {cfg : Cfg} {m m' : CM} {act done cur els : Bool} (h : InGroup m m' act done cur els)
    (hc : m.crashed = false) (hs : m.stack ≠ []) :
    (m'.step cfg .endif).1 = m := by
  have h1 := h.stack; have h2 := h.errors; have h3 := h.crashed; have h4 := h.foundIf
  have h5 := h.pops0; have h6 := h.popsBase
  cases m with
  | mk st stk er cr p0 pb =>
    cases m' with
    | mk st' stk' er' cr' p0' pb' =>
      simp at h1 h2 h3 h4 h5 h6 hs hc
      subst h1 h2 h3 h5 h6 hc
      cases stk with
      | nil => exact absurd rfl hs
      | cons a b => simp [CM.step, CM.doEndif, CM.pop, h4]


theorem runLines_dir_plain (cfg : Cfg) (m : CM) (d : Dir) (r : List Line)
    (h : ∀ c, d ≠ .if_ c ∧ d ≠ .elif c) :
    runLines cfg m (.dir d :: r) = runLines cfg (m.step cfg d).1 r := by
  cases d with
  | if_ c => exact absurd rfl (h c).1
  | elif c => exact absurd rfl (h c).2
  | ifdef b => simp [runLines]
  | ifndef b => simp [runLines]
  | else_ => simp [runLines]
  | endif => simp [runLines]

theorem runLines_if (cfg : Cfg) (m : CM) (c : CR) (r : List Line) :
    runLines cfg m (.dir (.if_ c) :: r) =
      Run.pre [] [(m.step cfg (.if_ c)).2] (runLines cfg (m.step cfg (.if_ c)).1 r) := by
  simp [runLines, Run.pre]

theorem runLines_elif (cfg : Cfg) (m : CM) (c : CR) (r : List Line) :
    runLines cfg m (.dir (.elif c) :: r) =
      Run.pre [] [(m.step cfg (.elif c)).2] (runLines cfg (m.step cfg (.elif c)).1 r) := by
  simp [runLines, Run.pre]

/-- `#if c` in a group with activity `act` whose condition is clean if it is evaluated -/
theorem step_if (cfg : Cfg) (m : CM) (c : CR) (act : Bool) (hc : m.crashed = false)
    (hi : m.status.ignoring = !act) (hcl : (!act || (Cnd.expr c).clean) = true) :
    (m.step cfg (.if_ c)).2 = act ∧
    InGroup m (m.step cfg (.if_ c)).1 act (act && (Cnd.expr c).truth) (act && (Cnd.expr c).truth) false := by
  cases act <;> cases c <;>
    simp_all [CM.step, CM.doIf, CM.push, nestedSkip, ifStatus, Cnd.truth, Cnd.clean] <;>
    constructor <;> simp_all

theorem step_ifdef (cfg : Cfg) (m : CM) (b : Bool) (act : Bool) (hc : m.crashed = false)
    (hi : m.status.ignoring = !act) :
    InGroup m (m.step cfg (.ifdef b)).1 act (act && b) (act && b) false := by
  cases act <;> cases b <;>
    simp_all [CM.step, CM.doIfdef, CM.push, nestedSkip, ifStatus] <;>
    constructor <;> simp_all

theorem step_ifndef (cfg : Cfg) (m : CM) (b : Bool) (act : Bool) (hc : m.crashed = false)
    (hi : m.status.ignoring = !act) :
    InGroup m (m.step cfg (.ifndef b)).1 act (act && !b) (act && !b) false := by
  cases act <;> cases b <;>
    simp_all [CM.step, CM.doIfdef, CM.push, nestedSkip, ifStatus] <;>
    constructor <;> simp_all

/-- `#elif c` (repaired order of tests) -/
theorem step_elif (cfg : Cfg) (hcfg : cfg.elifFirst = true) (m m' : CM) (c : CR) (act done cur : Bool)
    (h : InGroup m m' act done cur false)
    (hcl : (!(act && !done) || (Cnd.expr c).clean) = true) :
    (m'.step cfg (.elif c)).2 = (act && !done) ∧
    InGroup m (m'.step cfg (.elif c)).1 act (done || (act && !done && (Cnd.expr c).truth))
      (act && !done && (Cnd.expr c).truth) false := by
  obtain ⟨h1, h2, h3, h4, h5, h6, h7, h8, h9, h10, h11, h12⟩ := h
  cases act <;> cases done <;> cases cur <;> cases c <;>
    simp_all [CM.step, CM.doElif, Status.swapReading, Cnd.truth, Cnd.clean] <;>
    constructor <;> simp_all

/-- `#else` -/
theorem step_else (cfg : Cfg) (m m' : CM) (act done cur : Bool) (h : InGroup m m' act done cur false) :
    InGroup m (m'.step cfg .else_).1 act true (act && !done) true := by
  obtain ⟨h1, h2, h3, h4, h5, h6, h7, h8, h9, h10, h11, h12⟩ := h
  cases act <;> cases done <;> cases cur <;>
    simp_all [CM.step, CM.doElse, Status.swapReading] <;>
    constructor <;> simp_all


theorem ingroup_ready {m m' : CM} {act done cur els : Bool} (h : InGroup m m' act done cur els) :
    m'.crashed = false ∧ m'.stack ≠ [] ∧ m'.status.ignoring = !cur :=
  ⟨h.crashed, by rw [h.stack]; simp, h.ignoring⟩

mutual
  /-- a complete group: the machine produces the reference's observations and comes back to the
      very same state -/
  theorem items_ok (cfg : Cfg) (hcfg : cfg.elifFirst = true) :
      ∀ (it : Items) (m : CM) (act : Bool) (rest : List Line),
        m.crashed = false → m.stack ≠ [] → m.status.ignoring = (!act) → it.evalClean act = true →
        runLines cfg m (it.flatten ++ rest) =
          Run.pre (it.keepRef act) (it.evalRef act) (runLines cfg m rest)
    | .nil, m, act, rest, _, _, _, _ => by
        simp [Items.flatten, Items.keepRef, Items.evalRef, Run.pre_nil]
    | .text id r, m, act, rest, hc, hs, hi, hcl => by
        simp only [Items.evalClean] at hcl
        simp only [Items.flatten, List.cons_append, runLines_text, Items.keepRef, Items.evalRef]
        rw [items_ok cfg hcfg r m act rest hc hs hi hcl, Run.pre_pre, keeps_of m act hc hi]
        simp
    | .sect c b t r, m, act, rest, hc, hs, hi, hcl => by
        simp only [Items.evalClean, Bool.and_eq_true] at hcl
        obtain ⟨⟨⟨hc1, hc2⟩, hc3⟩, hc4⟩ := hcl
        cases c with
        | expr e =>
          have hst := step_if cfg m e act hc hi hc1
          obtain ⟨hev, hg⟩ := hst
          obtain ⟨r1, r2, r3⟩ := ingroup_ready hg
          simp only [Items.flatten, List.cons_append, List.append_assoc, runLines_if, hev,
            Items.keepRef, Items.evalRef]
          rw [items_ok cfg hcfg b _ _ _ r1 r2 r3 hc2,
              tail_ok cfg hcfg t m _ act _ _ _ hg hc hs hc3,
              items_ok cfg hcfg r m act rest hc hs hi hc4]
          simp [Run.pre_pre]
        | ifdef d =>
          have hg := step_ifdef cfg m d act hc hi
          obtain ⟨r1, r2, r3⟩ := ingroup_ready hg
          simp only [Items.flatten, List.cons_append, List.append_assoc, Items.keepRef, Items.evalRef]
          rw [runLines_dir_plain cfg m (.ifdef d) _ (by intro c; constructor <;> simp)]
          simp only [Cnd.truth] at hc2 hc3 ⊢
          rw [items_ok cfg hcfg b _ _ _ r1 r2 r3 hc2,
              tail_ok cfg hcfg t m _ act _ _ _ hg hc hs hc3,
              items_ok cfg hcfg r m act rest hc hs hi hc4]
          simp [Run.pre_pre]
        | ifndef d =>
          have hg := step_ifndef cfg m d act hc hi
          obtain ⟨r1, r2, r3⟩ := ingroup_ready hg
          simp only [Items.flatten, List.cons_append, List.append_assoc, Items.keepRef, Items.evalRef]
          rw [runLines_dir_plain cfg m (.ifndef d) _ (by intro c; constructor <;> simp)]
          simp only [Cnd.truth] at hc2 hc3 ⊢
          rw [items_ok cfg hcfg b _ _ _ r1 r2 r3 hc2,
              tail_ok cfg hcfg t m _ act _ _ _ hg hc hs hc3,
              items_ok cfg hcfg r m act rest hc hs hi hc4]
          simp [Run.pre_pre]

  /-- the rest of an if-section after one of its groups -/
  theorem tail_ok (cfg : Cfg) (hcfg : cfg.elifFirst = true) :
      ∀ (t : Tail) (m m' : CM) (act done cur : Bool) (rest : List Line),
        InGroup m m' act done cur false → m.crashed = false → m.stack ≠ [] →
        t.evalClean act done = true →
        runLines cfg m' (t.flatten ++ rest) =
          Run.pre (t.keepRef act done) (t.evalRef act done) (runLines cfg m rest)
    | .endif, m, m', act, done, cur, rest, hg, hc, hs, _ => by
        simp only [Tail.flatten, List.cons_append, List.nil_append, Tail.keepRef, Tail.evalRef]
        rw [runLines_dir_plain cfg m' .endif _ (by intro c; constructor <;> simp),
            endif_restores hg hc hs, Run.pre_nil]
    | .else_ b, m, m', act, done, cur, rest, hg, hc, hs, hcl => by
        simp only [Tail.evalClean] at hcl
        have hg2 := step_else cfg m m' act done cur hg
        obtain ⟨r1, r2, r3⟩ := ingroup_ready hg2
        simp only [Tail.flatten, List.cons_append, List.append_assoc, Tail.keepRef, Tail.evalRef]
        rw [runLines_dir_plain cfg m' .else_ _ (by intro c; constructor <;> simp),
            items_ok cfg hcfg b _ _ _ r1 r2 r3 hcl]
        simp only [List.nil_append]
        rw [runLines_dir_plain cfg _ .endif _ (by intro c; constructor <;> simp),
            endif_restores hg2 hc hs]
    | .elif c b t, m, m', act, done, cur, rest, hg, hc, hs, hcl => by
        simp only [Tail.evalClean, Bool.and_eq_true] at hcl
        obtain ⟨⟨hc1, hc2⟩, hc3⟩ := hcl
        obtain ⟨hev, hg2⟩ := step_elif cfg hcfg m m' c act done cur hg hc1
        obtain ⟨r1, r2, r3⟩ := ingroup_ready hg2
        simp only [Tail.flatten, List.cons_append, List.append_assoc, runLines_elif, hev,
          Tail.keepRef, Tail.evalRef]
        rw [items_ok cfg hcfg b _ _ _ r1 r2 r3 hc2,
            tail_ok cfg hcfg t m _ act _ _ _ hg2 hc hs hc3]
        simp [Run.pre_pre]
end

/-! ### every directive sequence: the base of the status stack is never popped -/

/-- every saved status above the base entry: if it has `foundIf` there are at least two entries below
    it, and exactly one of reading / ignoring is set -/
def StackOK : List Status → Prop
  | [] => True
  | [_] => True
  | s :: b :: r => (s.foundIf = true → 2 ≤ (b :: r).length) ∧ s.reading = (!s.ignoring) ∧ StackOK (b :: r)

structure Inv (m : CM) : Prop where
  pops0 : m.pops0 = 0
  popsBase : m.popsBase = 0
  nonempty : 1 ≤ m.stack.length
  cur : m.status.foundIf = true → 2 ≤ m.stack.length
  saved : StackOK m.stack
  xor : m.status.reading = !m.status.ignoring

theorem inv_init : Inv CM.init := by
  constructor <;> simp [CM.init, StackOK]

theorem inv_push {m : CM} (h : Inv m) (s : Status) (hx : s.reading = !s.ignoring) : Inv (m.push s) := by
  obtain ⟨h1, h2, h3, h4, h5, h6⟩ := h
  cases m with
  | mk st stk er cr p0 pb =>
    cases stk with
    | nil => simp at h3
    | cons a r =>
      constructor <;> simp_all [CM.push, StackOK]

theorem inv_pop {m : CM} (h : Inv m) (hf : m.status.foundIf = true) : Inv m.pop := by
  obtain ⟨h1, h2, h3, h4, h5, h6⟩ := h
  have h4' := h4 hf
  cases m with
  | mk st stk er cr p0 pb =>
    cases stk with
    | nil => simp at h3
    | cons a r =>
      cases r with
      | nil => simp at h4'
      | cons b r' =>
        simp only [StackOK] at h5
        obtain ⟨g1, g2, g3⟩ := h5
        constructor <;> simp_all [CM.pop]

/-- a status update that keeps the stack -/
theorem inv_status {m : CM} (h : Inv m) (s : Status) (hf : s.foundIf = true → m.status.foundIf = true)
    (hx : s.reading = !s.ignoring) (e : Nat) : Inv { m with status := s, errors := e } := by
  obtain ⟨h1, h2, h3, h4, h5, h6⟩ := h
  constructor <;> simp_all

theorem inv_crash {m : CM} (h : Inv m) : Inv { m with crashed := true } := by
  obtain ⟨h1, h2, h3, h4, h5, h6⟩ := h
  constructor <;> simp_all

theorem inv_elifAfterEval {m : CM} (h : Inv m) (hf : m.status.foundIf = true) (b : Bool) :
    Inv (m.elifAfterEval b) := by
  have hx := h.xor
  simp only [CM.elifAfterEval]
  split
  · exact h
  · split
    · exact inv_status h _ (by simp_all [Status.swapReading]) (by simp_all [Status.swapReading]) m.errors
    · split
      · exact inv_status h _ (by simp_all) (by simp) m.errors
      · exact h

theorem inv_step (cfg : Cfg) {m : CM} (h : Inv m) (d : Dir) : Inv (m.step cfg d).1 := by
  have hx := h.xor
  unfold CM.step
  split
  · exact h
  · cases d with
    | if_ c =>
      simp only [CM.doIf]
      split
      · exact inv_push h _ (by simp [nestedSkip])
      · cases c
        · exact inv_push h _ (by simp [ifStatus])
        · exact inv_push h _ (by simp [ifStatus])
        · exact inv_push h _ (by simp)
        · exact inv_crash h
    | ifdef b =>
      simp only [CM.doIfdef]
      split
      · exact inv_push h _ (by simp [nestedSkip])
      · exact inv_push h _ (by simp [ifStatus])
    | ifndef b =>
      simp only [CM.doIfdef]
      split
      · exact inv_push h _ (by simp [nestedSkip])
      · exact inv_push h _ (by simp [ifStatus])
    | elif c =>
      simp only [CM.doElif]
      split
      · exact inv_status h _ (fun x => x) hx _
      · split
        · exact inv_status h _ (by simp_all) (by simp) _
        · split
          · split
            · exact h
            · split
              · exact inv_status h _ (by simp_all [Status.swapReading]) (by simp_all [Status.swapReading]) m.errors
              · cases c
                · exact inv_status h _ (by simp_all) (by simp) m.errors
                · exact h
                · exact h
                · exact inv_crash h
          · cases c with
            | tt => exact inv_elifAfterEval h (by simp_all) true
            | ff => exact inv_elifAfterEval h (by simp_all) false
            | err =>
              show Inv (if cfg.litPushes = true then m.push { ignoring := true, foundIf := true } else m)
              split
              · exact inv_push h _ (by simp)
              · exact h
            | trap => exact inv_crash h
    | else_ =>
      simp only [CM.doElse]
      split
      · exact inv_status h _ (fun x => x) hx _
      · split
        · exact inv_status h _ (by simp_all) (by simp) _
        · split
          · exact inv_status h _ (by simp_all) (by simp_all) m.errors
          · split
            · exact inv_status h _ (by simp_all [Status.swapReading]) (by simp_all [Status.swapReading]) m.errors
            · exact inv_status h _ (by simp_all [Status.swapReading]) (by simp_all [Status.swapReading]) m.errors
    | endif =>
      simp only [CM.doEndif]
      split
      · exact inv_status h _ (fun x => x) hx _
      · exact inv_pop h (by simp_all)

theorem inv_run (cfg : Cfg) : ∀ (ds : List Dir) (m : CM), Inv m → Inv (ds.foldl (fun a d => (a.step cfg d).1) m)
  | [], _, h => h
  | d :: r, _, h => inv_run cfg r _ (inv_step cfg h d)

end Occa.Cpp
