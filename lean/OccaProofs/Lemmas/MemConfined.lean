/-
C02: no operation modifies a byte outside the range of the handle it writes through.
-/
import OccaProofs.Lemmas.MemReject

namespace Occa.Mem

/-- the older buffers are byte for byte what they were -/
@[reducible] def BufsKept (s s' : State) : Prop := ∀ (i : Nat), i < s.bufs.length → s'.bufs[i]? = s.bufs[i]?

theorem BufsKept.refl (s : State) : BufsKept s s := fun _ _ => rfl

theorem BufsKept.trans {a b c : State} (h1 : BufsKept a b) (h2 : BufsKept b c) (hl : a.bufs.length ≤ b.bufs.length) :
    BufsKept a c := fun i hi => by rw [h2 i (by omega), h1 i hi]

theorem bufsKept_same {s s' : State} (h : s'.bufs = s.bufs) : BufsKept s s' := fun _ _ => by rw [h]

theorem bufsKept_push {s s' : State} {nb : Buffer} (h : s'.bufs = s.bufs ++ [nb]) : BufsKept s s' :=
  fun i hi => by rw [h, List.getElem?_append_left hi]

theorem byteAt_kept {s s' : State} (h : BufsKept s s') {q : View} (hq : q.buf < s.bufs.length) (j : Nat) :
    byteAt s' q j = byteAt s q j := by
  unfold byteAt; rw [h _ hq]

theorem copyBytes_bufs_other (s : State) (dst src : View) (bytes dOff sOff : Nat) {i : Nat} (hi : i ≠ dst.buf) :
    (copyBytes s dst src bytes dOff sOff).1.bufs[i]? = s.bufs[i]? := by
  unfold copyBytes
  split
  · simp only [setBuf]
    rw [List.getElem?_set_ne (fun h => hi h.symm)]
  · rfl

theorem copyBytes_bufs_length (s : State) (dst src : View) (bytes dOff sOff : Nat) :
    (copyBytes s dst src bytes dOff sOff).1.bufs.length = s.bufs.length := by
  unfold copyBytes
  split
  · simp [setBuf]
  · rfl

def MRes.BK (s0 : State) : MRes → Prop
  | .val s _ => BufsKept s0 s
  | _ => True

theorem assignTo_bufsKept {s0 : State} (d : Nat) {r : MRes} (hr : r.BK s0) : BufsKept s0 (assignTo s0 d r).1 := by
  cases r with
  | val s m => exact hr
  | err e => exact BufsKept.refl _
  | trap => exact BufsKept.refl _

theorem mallocExpr_bk (s : State) (n : Int) (e : Nat) (data : Option (List UInt8)) : (mallocExpr s n e data).BK s := by
  cases hme : mallocExpr s n e data with
  | err er => trivial
  | trap => trivial
  | val s1 om =>
    cases om with
    | none => rw [mallocExpr_val_none hme]; exact BufsKept.refl _
    | some m =>
      obtain ⟨_, _, _, nb, _, _, hs1⟩ := mallocExpr_val hme
      exact bufsKept_push (nb := nb) (by rw [hs1])

theorem mallocFromExpr_bk (s : State) (n : Int) (e src : Nat) : (mallocFromExpr s n e src).BK s := by
  unfold mallocFromExpr
  have hg := mallocExpr_bk s n e none
  cases hme : mallocExpr s n e none with
  | err er => trivial
  | trap => trivial
  | val s1 om =>
    rw [hme] at hg
    cases om with
    | none => exact hg
    | some m =>
      simp only []
      obtain ⟨_, _, hm, nb, _, _, hs1⟩ := mallocExpr_val hme
      have hdv : s1.mems[m]? = some (rootView s n e) := by rw [hs1, hm]; simp [pushMem]
      rw [hdv]
      split
      · rename_i sv dv hsv hdv'
        cases hdv'
        split
        · exact hg
        · split
          · trivial
          · rename_i bytes dOff sOff _
            have key : BufsKept s (copyBytes s1 (rootView s n e) sv bytes dOff sOff).1 := by
              intro i hi
              rw [copyBytes_bufs_other _ _ _ _ _ _ (by show i ≠ s.bufs.length; omega)]
              exact hg i hi
            split
            · rename_i s2 _ heq
              rw [heq] at key; exact key
            · trivial
            · trivial
      · exact hg

theorem cloneExpr_bk (s : State) (src : Nat) : (cloneExpr s src).BK s := by
  unfold cloneExpr
  split
  · exact BufsKept.refl _
  · rename_i p hp
    split
    · exact BufsKept.refl _
    · have hg := mallocFromExpr_bk s (p.size : Int) 1 src
      cases hmf : mallocFromExpr s (p.size : Int) 1 src with
      | err er => trivial
      | trap => trivial
      | val s1 om =>
        rw [hmf] at hg
        cases om with
        | none => trivial
        | some m =>
          simp only []
          split
          · trivial
          · exact hg

/-- the handle an operation writes through -/
def Dest (s : State) : Op → Option View
  | .copyFromHost v _ _ _ => view? s v
  | .copyFromMem d _ _ _ _ => view? s d
  | .copyToMem _ d _ _ _ => view? s d
  | _ => none

/-- Whatever an operation does, a byte of an existing buffer that lies outside the range of the
    handle written through keeps its value (`hostWrite`, the caller scribbling into its own array, is
    not an occa operation and is excluded). -/
theorem step_writes_confined {s : State} (h : Inv s) (op : Op) (hop : ∀ hb off data, op ≠ .hostWrite hb off data)
    (q : View) (j : Nat) (hq : q.buf < s.bufs.length)
    (hout : ∀ p, Dest s op = some p → q.buf ≠ p.buf ∨ q.off + j < p.off ∨ p.off + p.size ≤ q.off + j) :
    byteAt (step s op).1 q j = byteAt s q j := by
  cases op with
  | malloc v n e data => exact byteAt_kept (assignTo_bufsKept v (mallocExpr_bk s n e data)) hq j
  | mallocFrom v n e src => exact byteAt_kept (assignTo_bufsKept v (mallocFromExpr_bk s n e src)) hq j
  | clone d src => exact byteAt_kept (assignTo_bufsKept d (cloneExpr_bk s src)) hq j
  | wrap v hb n e =>
    refine byteAt_kept (assignTo_bufsKept v ?_) hq j
    unfold wrapExpr
    simp only []
    split
    · trivial
    · split
      · trivial
      · exact bufsKept_same rfl
  | slice d src off cnt =>
    refine byteAt_kept (assignTo_bufsKept d ?_) hq j
    unfold sliceExpr
    split
    · exact BufsKept.refl _
    · split
      · trivial
      · exact bufsKept_same rfl
  | cast d src e =>
    refine byteAt_kept (assignTo_bufsKept d ?_) hq j
    unfold castExpr
    split
    · trivial
    · split
      · trivial
      · exact bufsKept_same rfl
  | setDtype v e =>
    refine byteAt_kept ?_ hq j
    simp only [step, doSetDtype]
    split
    · exact BufsKept.refl _
    · split
      · exact BufsKept.refl _
      · exact bufsKept_same rfl
  | copyFromHost v data cnt off =>
    cases hv : view? s v with
    | none => simp only [step, doCopyFromHost, hv]
    | some p =>
      cases hres : step s (.copyFromHost v data cnt off) with
      | mk s' r =>
        cases r with
        | ok o =>
          obtain ⟨_, _, w2, _, _, _, wspec⟩ := copyFromHost_spec h hv hres
          simp only []
          rw [wspec q j]
          have := hout p (by simp only [Dest]; exact hv)
          rw [if_neg (by intro hc; rcases this with h1 | h1 | h1 <;> omega)]
        | err e =>
          have := step_frame (s := s) (op := .copyFromHost v data cnt off) (fun o ho => by rw [hres] at ho; cases ho)
          rw [hres] at this; simp only [] at this ⊢; rw [this]
        | trap =>
          have := step_frame (s := s) (op := .copyFromHost v data cnt off) (fun o ho => by rw [hres] at ho; cases ho)
          rw [hres] at this; simp only [] at this ⊢; rw [this]
  | copyToHost v cap cnt off =>
    refine byteAt_kept ?_ hq j
    simp only [step, doCopyToHost]
    split
    · exact BufsKept.refl _
    · split
      · exact BufsKept.refl _
      split
      · exact BufsKept.refl _
      split
      · exact BufsKept.refl _
      split
      · exact BufsKept.refl _
      split <;> exact BufsKept.refl _
  | copyFromMem d src cnt doff soff =>
    simp only [step, doCopyFromMem]
    cases hd : view? s d with
    | none => cases hsv : view? s src <;> rfl
    | some dv =>
      cases hsv : view? s src with
      | none => rfl
      | some sv =>
        simp only []
        cases hcg : copyGuards dv dv sv cnt doff soff with
        | error e => rfl
        | ok t =>
          obtain ⟨bytes, dOff, sOff⟩ := t
          simp only []
          obtain ⟨_, _, _, g1, g2⟩ := copyGuards_ok hcg
          rw [copyBytes_spec (h.viewOk hd) (h.viewOk hsv) g1 g2 q j]
          have := hout dv (by simp only [Dest]; exact hd)
          rw [if_neg (by intro hc; rcases this with h1 | h1 | h1 <;> omega)]
  | copyToMem src d cnt doff soff =>
    simp only [step, doCopyToMem]
    cases hsv : view? s src with
    | none => cases hd : view? s d <;> rfl
    | some sv =>
      cases hd : view? s d with
      | none => rfl
      | some dv =>
        simp only []
        cases hcg : copyGuards sv dv sv cnt doff soff with
        | error e => rfl
        | ok t =>
          obtain ⟨bytes, dOff, sOff⟩ := t
          simp only []
          obtain ⟨_, _, _, g1, g2⟩ := copyGuards_ok hcg
          rw [copyBytes_spec (h.viewOk hd) (h.viewOk hsv) g1 g2 q j]
          have := hout dv (by simp only [Dest]; exact hd)
          rw [if_neg (by intro hc; rcases this with h1 | h1 | h1 <;> omega)]
  | assign d src => rfl
  | free v =>
    refine byteAt_kept ?_ hq j
    simp only [step, doFree]
    split
    · exact BufsKept.refl _
    · exact bufsKept_same rfl
  | hostWrite hb off data => exact absurd rfl (hop hb off data)
  | hostRead hb off n =>
    refine byteAt_kept ?_ hq j
    simp only [step, doHostRead]
    split
    · split <;> exact BufsKept.refl _
    · exact BufsKept.refl _

end Occa.Mem
