/-
The invariant holds along every well-shaped run; at the end the single operand left is the parse
result and its printed tokens are the input.
-/
import OccaProofs.Lemmas.ExprStep

namespace Occa.Expr
open Occa.Gen

theorem colon_of_resolveBy (o o' : Op) (hreg : o ∈ registered) (hres : resolveBy false o = some o')
    (hc : (o'.ty == T.colon) = true) : o' = o := by
  obtain ⟨_, _, _, _, rf5, rf6, _, _⟩ := resolveBy_facts o hreg false o' hres
  by_cases ha : has o.ty T.ambiguous = true
  · have := rf5 ha
    simp only [Bool.false_eq_true, if_false] at this
    obtain ⟨_, _, _, _, hb, _⟩ := ty_facts_c o' hc
    have hr : has o'.ty T.rightUnary = false := by
      have : ∀ x : Op, (x.ty == T.colon) = true → has x.ty T.rightUnary = false := forall_op (by decide +kernel)
      exact this o' hc
    rcases this with h | h
    · rw [hb] at h; simp at h
    · rw [hr] at h; simp at h
  · exact rf6 (by simpa using ha)

/-- one token -/
theorem step_inv (s s' : Sh) (σ σ' : St) (t : Tok) (next : Option Tok) (consumed : List Tok)
    (cur : Lvl) (stk : List Lvl) (hinv : Inv s σ consumed cur stk) (hlex : ∀ o, t = .op o → o ∈ registered)
    (hsh : shStep s t next = some s') (hst : step σ t next = .ok σ') :
    ∃ cur' stk', Inv s' σ' (consumed ++ [t]) cur' stk' := by
  cases ht : t.isOp with
  | false => exact step_operand s s' σ σ' t next consumed cur stk hinv ht hsh hst
  | true =>
    cases t with
    | op o =>
      have hreg := hlex o rfl
      by_cases h1 : has o.ty T.pairStart = true
      · exact step_open s s' σ σ' o next consumed cur stk hinv h1 hsh hst
      · by_cases h2 : has o.ty T.pairEnd = true
        · exact step_close s s' σ σ' o next consumed cur stk hinv h2 hsh hst
        · have h1' : has o.ty T.pairStart = false := by simpa using h1
          have h2' : has o.ty T.pairEnd = false := by simpa using h2
          by_cases hne : s.needOperand = true
          · exact step_prefix s s' σ σ' o next consumed cur stk hinv hreg h1' h2' hne hsh hst
          · have hno : s.needOperand = false := by simpa using hne
            cases hres : resolveBy false o with
            | none => rw [shStep_op_plain s o next h1' h2', hno, hres] at hsh; simp at hsh
            | some o' =>
              by_cases hc : (o'.ty == T.colon) = true
              · have := colon_of_resolveBy o o' hreg hres hc
                subst this
                exact step_colon s s' σ σ' o' next consumed cur stk hinv h1' h2' hno hc hsh hst
              · exact step_infix s s' σ σ' o next consumed cur stk hinv hreg h1' h2' hno o' hres (by simpa using hc) hsh hst
    | ident _ => simp [Tok.isOp] at ht
    | prim _ => simp [Tok.isOp] at ht
    | str _ _ _ => simp [Tok.isOp] at ht
    | chr _ _ _ => simp [Tok.isOp] at ht
    | vtype _ _ => simp [Tok.isOp] at ht

def peekTok (nxt : Option Tok) (ts : List Tok) : Option Tok :=
  match ts with
  | [] => nxt
  | t' :: _ => some t'

theorem shRun_cons (nxt : Option Tok) (s : Sh) (t : Tok) (ts : List Tok) :
    shRun nxt s (t :: ts) = match shStep s t (peekTok nxt ts) with
      | none => none
      | some s' => shRun nxt s' ts := by
  cases ts <;> rfl

theorem run_cons (nxt : Option Tok) (σ : St) (t : Tok) (ts : List Tok) :
    run nxt σ (t :: ts) = match step σ t (peekTok nxt ts) with
      | .error x => .error x
      | .ok σ' => run nxt σ' ts := by
  cases ts <;> rfl

theorem Levels.inv_root {cur : Lvl} {stk : List Lvl} {sc : Scope} {stack : List Scope}
    (h : Levels cur stk sc stack []) : stk = [] ∧ stack = [] ∧ cur.Rep sc ∧ cur.Good ∧ cur.base = none := by
  cases h with
  | root _ _ h1 h2 h3 => exact ⟨rfl, rfl, h1, h2, h3⟩

/-- every token of a well-shaped sequence -/
theorem run_inv (nxt : Option Tok) : ∀ (ts : List Tok) (s sf : Sh) (σ σf : St) (consumed : List Tok) (cur : Lvl) (stk : List Lvl),
    Inv s σ consumed cur stk → Lexed ts → shRun nxt s ts = some sf → run nxt σ ts = .ok σf →
    ∃ cur' stk', Inv sf σf (consumed ++ ts) cur' stk' := by
  intro ts
  induction ts with
  | nil =>
    intro s sf σ σf consumed cur stk hinv _ hsh hst
    simp [shRun] at hsh; simp [run] at hst
    subst hsh; subst hst
    exact ⟨cur, stk, by simpa using hinv⟩
  | cons t ts ih =>
    intro s sf σ σf consumed cur stk hinv hlex hsh hst
    rw [shRun_cons] at hsh
    rw [run_cons] at hst
    cases h1 : shStep s t (peekTok nxt ts) with
    | none => rw [h1] at hsh; simp at hsh
    | some s1 =>
      cases h2 : step σ t (peekTok nxt ts) with
      | error x => rw [h2] at hst; simp at hst
      | ok σ1 =>
        rw [h1] at hsh; rw [h2] at hst
        simp only at hsh hst
        obtain ⟨c1, k1, hinv1⟩ := step_inv s s1 σ σ1 t _ consumed cur stk hinv
          (fun o ho => hlex o (by rw [ho]; simp)) h1 h2
        obtain ⟨c2, k2, hinv2⟩ := ih s1 sf σ1 σf (consumed ++ [t]) c1 k1 hinv1
          (fun o ho => hlex o (by simp [ho])) hsh hst
        exact ⟨c2, k2, by simpa [List.append_assoc] using hinv2⟩

theorem questCount_zero_root (pre : List Frame) (hno : ∀ f ∈ pre, f.isOpn = false)
    (h : questCount pre = 0) : ∀ f ∈ pre, f.reducible = true := by
  induction pre with
  | nil => simp
  | cons x xs ih =>
    have hx := hno x (by simp)
    simp only [questCount, hx, Bool.false_eq_true, if_false] at h
    intro f hf
    simp only [List.mem_cons] at hf
    rcases hf with rfl | hf
    · cases hq : f.isQuest
      · simp [Frame.reducible, hx, hq]
      · simp [hq] at h
    · exact ih (fun g hg => hno g (by simp [hg])) (by omega) f hf

theorem inv_init : Inv {} {} [] { pre := [], base := none, top := none } [] := by
  constructor
  · exact Levels.root _ _ ⟨rfl, rfl⟩ ⟨FramesOk.nil, by simp, by simp, by simp⟩ rfl
  · rfl
  · rfl
  · rfl
  · show PrevE _ _
    exact ⟨rfl, by simp [Lvl.fs, baseFrames], by simp [Lvl.fs, baseFrames]⟩
  · rfl
  · exact ⟨rfl, rfl⟩

/-- **print ∘ parse = id on tokens**: for a token sequence with the shape of a C expression, the
    tokens printed from the tree the parser builds are the tokens that were parsed. -/
theorem printToks_parse_canon (ts : List Tok) (e : Expr) (hshape : CShape ts = true) (hlex : Lexed ts)
    (hparse : parse ts = .ok e) : printToks e = ts ∧ canonB e = true := by
  cases ts with
  | nil => simp [parse] at hparse; subst hparse; exact ⟨rfl, rfl⟩
  | cons t ts =>
    unfold CShape at hshape
    unfold parse at hparse
    simp only at hparse
    cases hsh : shRun none {} (t :: ts) with
    | none => rw [hsh] at hshape; simp at hshape
    | some sf =>
      rw [hsh] at hshape
      simp only [Bool.and_eq_true, List.isEmpty_iff, beq_iff_eq, Bool.or_eq_true, Bool.not_eq_true',
        List.isEmpty_cons, Bool.false_eq_true, or_false] at hshape
      obtain ⟨⟨hstack, hpend⟩, hmode⟩ := hshape
      cases hrun : run none {} (t :: ts) with
      | error x => rw [hrun] at hparse; simp at hparse
      | ok σf =>
        rw [hrun] at hparse
        simp only at hparse
        obtain ⟨cur, stk, hinv⟩ := run_inv none (t :: ts) {} sf {} σf [] _ _ inv_init hlex hsh hrun
        have hl := hinv.levels
        rw [hstack] at hl
        obtain ⟨hstk, _, hrep, hgood, hbase⟩ := hl.inv_root
        subst hstk
        · have hfs : cur.fs = cur.pre := by simp [Lvl.fs, hbase, baseFrames]
          have hmd := hinv.mode
          simp only [hmode, Bool.false_eq_true, if_false] at hmd
          obtain ⟨_, hmo, _⟩ := hmd
          have hred : ∀ f ∈ cur.pre, f.reducible = true :=
            questCount_zero_root cur.pre hgood.noOpn (by rw [← hfs, ← hinv.pending, hpend])
          have hcan : ∀ e, cur.top = some e → canonB e = true ∧ ∀ f, cur.pre.head? = some f → f.accepts (rootPrec e) = true := by
            intro e he
            obtain ⟨c1, c2⟩ := top_accepted hgood e he
            refine ⟨c1, fun f hf => c2 f (by rw [hfs]; exact hf) ?_⟩
            rcases hmo with ⟨_, h⟩ | ⟨h, _⟩
            · exact h f (by rw [hfs]; exact hf)
            · rw [h] at he; simp at he
          obtain ⟨v, hv1, _, _, _, hvc, hv3, _⟩ := reduce_all σf.prev cur.pre hred (by rw [← hfs]; exact hgood.frames)
            cur.top (by rw [← hfs]; exact hmo) hgood.topOk hcan
          have hfin : finish σf = .ok v := by
            unfold finish
            rw [hrep.1, hrep.2, hfs]
            have := hv3 []
            simp only [List.append_nil] at this
            rw [this]
          rw [hfin] at hparse
          simp only [Except.ok.injEq] at hparse
          subst hparse
          refine ⟨?_, hvc⟩
          rw [hv1]
          have := hinv.toks
          simp only [List.nil_append, allToks, List.reverse_nil, List.flatMap_nil, Lvl.toks] at this
          rw [this, hfs]

theorem printToks_parse (ts : List Tok) (e : Expr) (hshape : CShape ts = true) (hlex : Lexed ts)
    (hparse : parse ts = .ok e) : printToks e = ts :=
  (printToks_parse_canon ts e hshape hlex hparse).1

/-- **the parser's image**: the tree built from a well-shaped sequence is precedence-correct -/
theorem parse_canon (ts : List Tok) (e : Expr) (hshape : CShape ts = true) (hlex : Lexed ts)
    (hparse : parse ts = .ok e) : canonB e = true :=
  (printToks_parse_canon ts e hshape hlex hparse).2

/-- hence the printed tokens parse back to the same tree -/
theorem parse_printToks (ts : List Tok) (e : Expr) (hshape : CShape ts = true) (hlex : Lexed ts)
    (hparse : parse ts = .ok e) : parse (printToks e) = .ok e := by
  rw [printToks_parse ts e hshape hlex hparse]; exact hparse

end Occa.Expr
