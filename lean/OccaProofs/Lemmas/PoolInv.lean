/-
The pool invariant `PInv` (layout of C03 + accounting of C04) and its preservation by
addModeMemoryRef / removeModeMemoryRef / slice / write; the relations `SameContents` and
`SameAliasing` between two pool states (what C03 says a non-writing operation preserves).
-/
import OccaProofs.Lemmas.PoolMeasure

namespace Occa.Pool
open Finset

/-- no byte belongs to both memories -/
def NoShare (r r' : Resv) : Prop := ∀ i, i < r.size → ∀ j, j < r'.size → r.off + i ≠ r'.off + j

theorem NoShare.symm {r r' : Resv} (h : NoShare r r') : NoShare r' r :=
  fun i hi j hj e => h j hj i hi e.symm

structure PInv (p : Pool) : Prop where
  apos : 0 < p.align
  sorted : OffSorted p.resv
  /-- every reservation, rounded out to the alignment, lies inside the pool -/
  bounded : ∀ r ∈ p.resv, rup p.align (r.off + r.size) ≤ p.size
  buflen : p.buf.length = p.size
  /-- C04: `reserved` is the union measure -/
  reserved_eq : p.reserved = measure p.align p.resv
  /-- C03: memories of different allocations share no byte -/
  famDisj : ∀ r ∈ p.resv, ∀ r' ∈ p.resv, r.fam ≠ r'.fam → NoShare r r'
  nodup : (p.resv.map (·.slot)).Nodup
  hasBuf : p.hasBuf = true ∨ (p.resv = [] ∧ p.size = 0)

theorem PInv.inBounds {p : Pool} (h : PInv p) {r : Resv} (hr : r ∈ p.resv) : r.off + r.size ≤ p.size :=
  Nat.le_trans (le_rup h.apos _) (h.bounded r hr)

theorem PInv.reserved_le {p : Pool} (h : PInv p) : p.reserved ≤ p.size := by
  rw [h.reserved_eq]; exact measure_le_of_bounded h.bounded

theorem pinv_new {a : Nat} (ha : 0 < a) : PInv { align := a } :=
  ⟨ha, List.Pairwise.nil, by simp, rfl, by simp [measure_nil], by simp, by simp, Or.inr ⟨rfl, rfl⟩⟩

/-! ### findSlot and friends -/

theorem findSlot_of_mem_nodup {l : List Resv} (hn : (l.map (·.slot)).Nodup) {r : Resv} (hr : r ∈ l) :
    findSlot r.slot l = some r := by
  induction l with
  | nil => simp at hr
  | cons x xs ih =>
    rw [List.map_cons, List.nodup_cons] at hn
    unfold findSlot
    rcases List.mem_cons.1 hr with rfl | hr
    · rw [if_pos rfl]
    · have : x.slot ≠ r.slot := by
        intro e
        exact hn.1 (List.mem_map.2 ⟨r, hr, e.symm⟩)
      rw [if_neg this]
      exact ih hn.2 hr

theorem findSlot_insertResv_ne {m : Resv} {k : Nat} (h : m.slot ≠ k) (l : List Resv) :
    findSlot k (insertResv m l) = findSlot k l := by
  induction l with
  | nil => simp [insertResv, findSlot, h]
  | cons x xs ih =>
    unfold insertResv
    split
    · unfold findSlot; rw [ih]
    · conv => lhs; unfold findSlot
      rw [if_neg h]

theorem findSlot_insertResv_self {m : Resv} {l : List Resv} (h : findSlot m.slot l = none) :
    findSlot m.slot (insertResv m l) = some m := by
  induction l with
  | nil => simp [insertResv, findSlot]
  | cons x xs ih =>
    unfold findSlot at h
    split at h
    · cases h
    · rename_i hx
      unfold insertResv
      split
      · unfold findSlot; rw [if_neg hx]; exact ih h
      · unfold findSlot; rw [if_pos rfl]

theorem findSlot_eraseSlot_ne {k k' : Nat} (h : k' ≠ k) (l : List Resv) :
    findSlot k (eraseSlot k' l) = findSlot k l := by
  induction l with
  | nil => simp [eraseSlot]
  | cons x xs ih =>
    unfold eraseSlot
    split
    · rename_i hx
      conv => rhs; unfold findSlot
      rw [if_neg (by omega)]
    · unfold findSlot; rw [ih]

theorem findSlot_eraseSlot_self {k : Nat} {l : List Resv} (hn : (l.map (·.slot)).Nodup) :
    findSlot k (eraseSlot k l) = none := by
  induction l with
  | nil => simp [eraseSlot, findSlot]
  | cons x xs ih =>
    rw [List.map_cons, List.nodup_cons] at hn
    unfold eraseSlot
    split
    · rename_i hx
      cases hf : findSlot k xs with
      | none => rfl
      | some r =>
        have := findSlot_some hf
        exact absurd (List.mem_map.2 ⟨r, this.1, by rw [this.2, hx]⟩) hn.1
    · rename_i hx
      unfold findSlot; rw [if_neg hx]; exact ih hn.2

theorem nodup_insertResv {m : Resv} {l : List Resv} (hn : (l.map (·.slot)).Nodup)
    (hf : findSlot m.slot l = none) : ((insertResv m l).map (·.slot)).Nodup := by
  have hp := (insertResv_perm m l).map (·.slot)
  rw [hp.nodup_iff, List.map_cons, List.nodup_cons]
  refine ⟨?_, hn⟩
  intro hmem
  obtain ⟨r, hr, hs⟩ := List.mem_map.1 hmem
  exact findSlot_none hf r hr hs

theorem nodup_eraseSlot {k : Nat} {l : List Resv} (hn : (l.map (·.slot)).Nodup) :
    ((eraseSlot k l).map (·.slot)).Nodup :=
  hn.sublist ((eraseSlot_sublist k l).map _)

/-! ### relations between two pool states -/

/-- every memory that is live in `p` is live in `p'`, with the same size, allocation and bytes -/
def SameContents (p p' : Pool) : Prop :=
  ∀ k r, findSlot k p.resv = some r → ∃ r', findSlot k p'.resv = some r' ∧ r'.size = r.size ∧
    r'.fam = r.fam ∧ readAt p'.buf r'.off r'.size = readAt p.buf r.off r.size

/-- two bytes of live memories are the same byte in `p'` iff they are the same byte in `p` -/
def SameAliasing (p p' : Pool) : Prop :=
  ∀ k₁ k₂ r₁ r₂ r₁' r₂', findSlot k₁ p.resv = some r₁ → findSlot k₂ p.resv = some r₂ →
    findSlot k₁ p'.resv = some r₁' → findSlot k₂ p'.resv = some r₂' →
    ∀ i j, i < r₁.size → j < r₂.size → (r₁'.off + i = r₂'.off + j ↔ r₁.off + i = r₂.off + j)

theorem SameContents.refl (p : Pool) : SameContents p p := fun _ r h => ⟨r, h, rfl, rfl, rfl⟩
theorem SameAliasing.refl (p : Pool) : SameAliasing p p := by
  intro k₁ k₂ r₁ r₂ r₁' r₂' h1 h2 h1' h2' i j _ _
  rw [h1] at h1'; rw [h2] at h2'; cases h1'; cases h2'; rfl

theorem SameContents.trans {p q r : Pool} (h1 : SameContents p q) (h2 : SameContents q r) : SameContents p r := by
  intro k x hx
  obtain ⟨y, hy, a1, a2, a3⟩ := h1 k x hx
  obtain ⟨z, hz, b1, b2, b3⟩ := h2 k y hy
  exact ⟨z, hz, b1.trans a1, b2.trans a2, b3.trans a3⟩

theorem SameAliasing.trans {p q r : Pool} (hc : SameContents p q) (h1 : SameAliasing p q) (h2 : SameAliasing q r) :
    SameAliasing p r := by
  intro k₁ k₂ r₁ r₂ r₁' r₂' a1 a2 c1 c2 i j hi hj
  obtain ⟨y₁, hy₁, s1, _, _⟩ := hc k₁ r₁ a1
  obtain ⟨y₂, hy₂, s2, _, _⟩ := hc k₂ r₂ a2
  exact (h2 k₁ k₂ y₁ y₂ r₁' r₂' hy₁ hy₂ c1 c2 i j (by omega) (by omega)).trans
    (h1 k₁ k₂ r₁ r₂ y₁ y₂ a1 a2 hy₁ hy₂ i j hi hj)

/-! ### addModeMemoryRef -/

theorem addRef_inv {c : Cfg} (hc : c.sweepAccumulatesGaps = true) {p : Pool} (h : PInv p) (m : Resv)
    (hfresh : findSlot m.slot p.resv = none)
    (hb : rup p.align (m.off + m.size) ≤ p.size)
    (hbuf : p.hasBuf = true)
    (hd : ∀ r ∈ p.resv, r.fam ≠ m.fam → NoShare r m) : PInv (p.addRef c m) := by
  unfold Pool.addRef
  refine ⟨h.apos, offSorted_insertResv m _ h.sorted, ?_, h.buflen, ?_, ?_, nodup_insertResv h.nodup hfresh, Or.inl hbuf⟩
  · intro r hr
    rcases (mem_insertResv m r _).1 hr with rfl | hr
    · exact hb
    · exact h.bounded r hr
  · show p.reserved + spanDelta c p.align m p.resv = measure p.align (insertResv m p.resv)
    rw [spanDelta_fixed hc h.apos m _ h.sorted, h.reserved_eq]
    unfold measure
    rw [spanU_perm (insertResv_perm m p.resv)]
    exact (measure_cons p.align m p.resv).symm
  · intro r hr r' hr' hne
    rcases (mem_insertResv m r _).1 hr with e1 | h1
    · rcases (mem_insertResv m r' _).1 hr' with e2 | h2
      · exact absurd (by rw [e1, e2]) hne
      · rw [e1] at hne ⊢; exact (hd r' h2 (Ne.symm hne)).symm
    · rcases (mem_insertResv m r' _).1 hr' with e2 | h2
      · rw [e2] at hne ⊢; exact hd r h1 hne
      · exact h.famDisj r h1 r' h2 hne

theorem addRef_sameContents {c : Cfg} {p : Pool} (m : Resv) (hfresh : findSlot m.slot p.resv = none) :
    SameContents p (p.addRef c m) ∧ SameAliasing p (p.addRef c m) := by
  have key : ∀ k r, findSlot k p.resv = some r → findSlot k (insertResv m p.resv) = some r := by
    intro k r hr
    have : m.slot ≠ k := by
      intro e; rw [e] at hfresh; rw [hfresh] at hr; cases hr
    rw [findSlot_insertResv_ne this]; exact hr
  constructor
  · intro k r hr
    exact ⟨r, key k r hr, rfl, rfl, rfl⟩
  · intro k₁ k₂ r₁ r₂ r₁' r₂' h1 h2 h1' h2' i j _ _
    have e1 := key k₁ r₁ h1
    have e2 := key k₂ r₂ h2
    unfold Pool.addRef at h1' h2'
    simp only [] at h1' h2'
    rw [e1] at h1'; rw [e2] at h2'; cases h1'; cases h2'; rfl

/-! ### removeModeMemoryRef -/

theorem removeRef_eq {c : Cfg} (hc : c.sweepAccumulatesGaps = true) {p : Pool} (h : PInv p) {r : Resv}
    (hr : findSlot r.slot p.resv = some r) :
    p.removeRef c r = { p with reserved := measure p.align (eraseSlot r.slot p.resv), resv := eraseSlot r.slot p.resv } := by
  have hsub := eraseSlot_sublist r.slot p.resv
  have hsorted : OffSorted (eraseSlot r.slot p.resv) := List.Pairwise.sublist hsub h.sorted
  have hperm := eraseSlot_perm hr
  have hm : measure p.align p.resv = measure p.align (eraseSlot r.slot p.resv) +
      (span p.align r \ spanU p.align (eraseSlot r.slot p.resv)).card := by
    unfold measure
    rw [spanU_perm hperm]
    exact measure_cons p.align r _
  unfold Pool.removeRef
  simp only []
  rw [spanDelta_fixed hc h.apos r _ hsorted, h.reserved_eq, hm, if_pos (by omega)]
  congr 1
  omega

theorem removeRef_inv {c : Cfg} (hc : c.sweepAccumulatesGaps = true) {p : Pool} (h : PInv p) {r : Resv}
    (hr : findSlot r.slot p.resv = some r) : PInv (p.removeRef c r) := by
  rw [removeRef_eq hc h hr]
  have hsub := eraseSlot_sublist r.slot p.resv
  refine ⟨h.apos, List.Pairwise.sublist hsub h.sorted, fun x hx => h.bounded x (mem_eraseSlot hx), h.buflen, rfl,
    fun x hx y hy => h.famDisj x (mem_eraseSlot hx) y (mem_eraseSlot hy), nodup_eraseSlot h.nodup, ?_⟩
  rcases h.hasBuf with hb | hb
  · exact Or.inl hb
  · rw [hb.1] at hr; simp [findSlot] at hr

theorem removeRef_sameContents {c : Cfg} (hc : c.sweepAccumulatesGaps = true) {p : Pool} (h : PInv p) {r : Resv}
    (hr : findSlot r.slot p.resv = some r) :
    ∀ k, k ≠ r.slot → findSlot k (p.removeRef c r).resv = findSlot k p.resv := by
  intro k hk
  rw [removeRef_eq hc h hr]
  exact findSlot_eraseSlot_ne (Ne.symm hk) _

/-! ### write -/

theorem write_inv {p : Pool} (h : PInv p) (off : Nat) (data : List Byte) (hb : off + data.length ≤ p.size) :
    PInv (p.write off data) := by
  unfold Pool.write
  refine ⟨h.apos, h.sorted, h.bounded, ?_, h.reserved_eq, h.famDisj, h.nodup, h.hasBuf⟩
  show (memcpy p.buf off data 0 data.length).length = p.size
  rw [length_memcpy _ _ _ _ _ (by rw [h.buflen]; exact hb) (by omega), h.buflen]

/-- a write through one memory leaves every memory that shares no byte with it unchanged -/
theorem write_other {p : Pool} (h : PInv p) {w x : Resv} (hw : w ∈ p.resv) (hx : x ∈ p.resv)
    (off : Nat) (data : List Byte) (hlen : off + data.length ≤ w.size) (hns : NoShare w x) :
    readAt (p.write (w.off + off) data).buf x.off x.size = readAt p.buf x.off x.size := by
  apply readAt_eq_of_forall
  intro i hi
  have hwb := h.inBounds hw
  show (memcpy p.buf (w.off + off) data 0 data.length)[x.off + i]? = _
  rw [getElem?_memcpy _ _ _ _ _ (by rw [h.buflen]; omega) (by omega)]
  split
  · rename_i hc
    exact absurd (show w.off + (x.off + i - w.off) = x.off + i by omega) (hns (x.off + i - w.off) (by omega) i hi)
  · rfl

/-- a write sets exactly the addressed bytes -/
theorem write_get {p : Pool} (h : PInv p) {w : Resv} (hw : w ∈ p.resv) (off : Nat) (data : List Byte)
    (hlen : off + data.length ≤ w.size) (q : Nat) :
    (p.write (w.off + off) data).buf[q]? =
      if w.off + off ≤ q ∧ q < w.off + off + data.length then data[q - (w.off + off)]? else p.buf[q]? := by
  have hwb := h.inBounds hw
  show (memcpy p.buf (w.off + off) data 0 data.length)[q]? = _
  rw [getElem?_memcpy _ _ _ _ _ (by rw [h.buflen]; omega) (by omega)]
  simp

/-! ### the gap search of reserve() -/

theorem findHole_spec {a : Nat} (ha : 0 < a) (bytes : Nat) :
    ∀ (ms : List Resv) (offset : Nat), OffSorted ms →
      offset ≤ findHole a bytes offset ms ∧
      ∀ m ∈ ms, m.off + m.size ≤ findHole a bytes offset ms ∨ findHole a bytes offset ms + bytes ≤ m.off := by
  intro ms
  induction ms with
  | nil => intro offset _; simp [findHole]
  | cons m ms ih =>
    intro offset hsort
    have hsort' : OffSorted ms := (List.pairwise_cons.1 hsort).2
    have hmle : ∀ x ∈ ms, m.off ≤ x.off := (List.pairwise_cons.1 hsort).1
    unfold findHole
    split
    · rename_i hfit
      refine ⟨Nat.le_refl _, ?_⟩
      intro x hx
      rcases List.mem_cons.1 hx with rfl | hx
      · exact Or.inr hfit
      · have := hmle x hx
        exact Or.inr (by omega)
    · have hrec := ih (max offset (rup a (m.off + m.size))) hsort'
      have hr := le_rup ha (m.off + m.size)
      refine ⟨by omega, ?_⟩
      intro x hx
      rcases List.mem_cons.1 hx with rfl | hx
      · exact Or.inl (by omega)
      · exact hrec.2 x hx

/-- the hole found is a multiple of the alignment when the start is -/
theorem findHole_dvd {a : Nat} (bytes : Nat) :
    ∀ (ms : List Resv) (offset : Nat), a ∣ offset → a ∣ findHole a bytes offset ms := by
  intro ms
  induction ms with
  | nil => intro offset h; simpa [findHole] using h
  | cons m ms ih =>
    intro offset h
    unfold findHole
    split
    · exact h
    · apply ih
      rcases Nat.le_total offset (rup a (m.off + m.size)) with h' | h'
      · rw [Nat.max_eq_right h']; exact rup_dvd a _
      · rw [Nat.max_eq_left h']; exact h

end Occa.Pool
