/-
Helper lemmas for C12: the token loop is independent of its fuel; separators; NUL-freeness helpers.
-/
import OccaProofs.Lemmas.LexNum

namespace Occa.Lex
open Occa.Gen

/-! ### fuel independence of the token loop -/

theorem tokenizeF_fuel : ∀ (f1 f2 : Nat) (r : Str) (e : Nat) (a : List Tok), NoNul r → r.length < f1 → r.length < f2 →
    tokenizeF f1 r e a = tokenizeF f2 r e a := by
  intro f1
  induction f1 with
  | zero => intro f2 r e a _ h; exact absurd h (Nat.not_lt_zero _)
  | succ f1 ih =>
    intro f2 r e a hn h1 h2
    cases f2 with
    | zero => exact absurd h2 (Nat.not_lt_zero _)
    | succ f2 =>
      cases r with
      | nil => simp [tokenizeF]
      | cons c t =>
        obtain ⟨tok, e', r', eg, sg, lg⟩ := getToken_progress (c :: t) hn (by simp)
        rw [tokenizeF, tokenizeF, eg]
        exact ih f2 r' _ _ (hn.suffix sg) (by simp at h1 lg ⊢; omega) (by simp at h2 lg ⊢; omega)

/-- the token loop with exactly the fuel `tokenize` gives it -/
def tk (r : Str) (e : Nat) (a : List Tok) : M Result := tokenizeF (r.length + 1) r e a

theorem tk_nil (e : Nat) (a : List Tok) : tk [] e a = .ok ⟨a.reverse, e⟩ := rfl

/-- `if (token) outputCache.push_back(token)` -/
def pushTok (tok : Option Tok) (a : List Tok) : List Tok :=
  match tok with
  | some x => x :: a
  | none => a

theorem tk_step {r : Str} (hn : NoNul r) (hr : r ≠ []) {tok : Option Tok} {e' : Nat} {r' : Str}
    (hg : getToken r = .ok (tok, e', r')) (e : Nat) (a : List Tok) :
    tk r e a = tk r' (e + e') (pushTok tok a) := by
  obtain ⟨t0, e0, r0, eg, sg, lg⟩ := getToken_progress r hn hr
  rw [hg] at eg
  obtain ⟨rfl, rfl, rfl⟩ : tok = t0 ∧ e' = e0 ∧ r' = r0 := by simpa using eg
  cases r with
  | nil => exact absurd rfl hr
  | cons c t =>
    unfold tk
    simp only [tokenizeF, hg]
    exact tokenizeF_fuel _ _ _ _ _ (hn.suffix sg) (by simp at lg ⊢; omega) (by omega)

/-! ### separators -/

theorem getToken_newline (X : Str) : getToken ('\n' :: X) = .ok (some .newline, 0, X) := by
  have hs : skipWhitespace ('\n' :: X) = .ok _ := skipWhitespace_at _ (by decide) (by decide)
  apply getToken_eq hs (by simp) (k := .newline)
  · have hsp := shallowPeek_class hs (by simp; decide)
      (isPrimitiveAt_of_none (loadScan_none_of_first _ (by decide) (by decide) (by decide) (by decide) (by decide)))
    have hcl : classifyChar '\n' = .newline := by decide +kernel
    simp only [hd_cons, hcl] at hsp
    simp only [peek, hsp, bind, Except.bind, pure, Except.pure]
  · simp [dispatch, bind, Except.bind, pure, Except.pure]

/-- leading blanks, tabs, … are skipped by the next getToken -/
theorem getToken_skip {c : Char} (hc : c ∈ whitespaceNoNewline) (X : Str) : getToken (c :: X) = getToken X := by
  have hne : c ≠ '\\' := by intro e; subst e; revert hc; decide
  have : skipWhitespace (c :: X) = skipWhitespace X := by
    unfold skipWhitespace skipFrom
    exact skipUntil_step X hne (by simpa using hc)
  simp only [getToken, this]

theorem getToken_nil : getToken [] = .ok (some .newline, 0, []) := by
  simp [getToken, skipWhitespace, skipFrom, bind, Except.bind, pure, Except.pure]

theorem ws_split {c : Char} (h : IsWs c) : c = '\n' ∨ c ∈ whitespaceNoNewline := by
  rcases ws_cases h with rfl | rfl | rfl | rfl | rfl | rfl <;> decide

/-- a backslash-newline (line continuation) is skipped like a blank -/
theorem getToken_cont (X : Str) : getToken ('\\' :: '\n' :: X) = getToken X := by
  have : skipWhitespace ('\\' :: '\n' :: X) = skipWhitespace X := by
    unfold skipWhitespace skipFrom
    exact skipUntil_pair X (by decide)
  simp only [getToken, this]

/-- separators: characters of `charcodes::whitespace` and line continuations `\` newline -/
inductive SepWF : Str → Prop
  | nil : SepWF []
  | ws {c : Char} {t : Str} : IsWs c → SepWF t → SepWF (c :: t)
  | cont {t : Str} : SepWF t → SepWF ('\\' :: '\n' :: t)

/-- the newline tokens of a separator that is followed by more text: one per newline that is not part
    of a line continuation -/
def sepMid : Str → List Tok
  | [] => []
  | '\\' :: _ :: t => sepMid t
  | c :: t => if c = '\n' then .newline :: sepMid t else sepMid t

/-- the newline tokens of a separator that ends the source: one per newline, and the end-of-source
    newline when blanks (or a continuation) follow the last newline -/
def sepEnd : Str → List Tok
  | [] => []
  | '\\' :: _ :: t => if t.isEmpty then [.newline] else sepEnd t
  | c :: t => if c = '\n' then .newline :: sepEnd t else if t.isEmpty then [.newline] else sepEnd t

theorem sepMid_cont (x : Char) (t : Str) : sepMid ('\\' :: x :: t) = sepMid t := by rw [sepMid]
theorem sepMid_ws {c : Char} (hc : c ≠ '\\') (t : Str) :
    sepMid (c :: t) = if c = '\n' then .newline :: sepMid t else sepMid t := by
  rw [sepMid]; intro x t' h; exact absurd h hc
theorem sepEnd_cont (x : Char) (t : Str) : sepEnd ('\\' :: x :: t) = if t.isEmpty then [.newline] else sepEnd t := by
  rw [sepEnd]
theorem sepEnd_ws {c : Char} (hc : c ≠ '\\') (t : Str) :
    sepEnd (c :: t) = if c = '\n' then .newline :: sepEnd t else if t.isEmpty then [.newline] else sepEnd t := by
  rw [sepEnd]; intro x t' h; exact absurd h hc

theorem noNul_sep {sep : Str} (h : SepWF sep) : NoNul sep := by
  induction h with
  | nil => intro c hc; cases hc
  | ws hc _ ih =>
    intro x hx
    rcases List.mem_cons.mp hx with rfl | hx
    · exact (ws_facts hc).2.1
    · exact ih x hx
  | cont _ ih =>
    intro x hx
    rcases List.mem_cons.mp hx with rfl | hx
    · decide
    · rcases List.mem_cons.mp hx with rfl | hx
      · decide
      · exact ih x hx

theorem noNul_append {a b : Str} (ha : NoNul a) (hb : NoNul b) : NoNul (a ++ b) := by
  intro c hc
  rcases List.mem_append.mp hc with h | h
  · exact ha c h
  · exact hb c h

/-- a prefix that the next getToken skips does not change the token loop (when something follows) -/
theorem tk_skip_prefix {P X : Str} (hg : getToken (P ++ X) = getToken X) (hP : NoNul (P ++ X)) (hX : NoNul X)
    (hne : X ≠ []) (e : Nat) (a : List Tok) : tk (P ++ X) e a = tk X e a := by
  obtain ⟨tok, e', r', eg, _, _⟩ := getToken_progress X hX hne
  have hne' : P ++ X ≠ [] := by simp [hne]
  rw [tk_step hP hne' (hg.trans eg), tk_step hX hne eg]

theorem tk_sepMid {sep : Str} (hs : SepWF sep) {R : Str} (hR : NoNul R) (hne : R ≠ []) (e : Nat) (a : List Tok) :
    tk (sep ++ R) e a = tk R e ((sepMid sep).reverse ++ a) := by
  induction hs generalizing a with
  | nil => simp [sepMid]
  | @ws c t hc ht ih =>
    have hn : NoNul (c :: (t ++ R)) := noNul_append (a := c :: t) (noNul_sep (SepWF.ws hc ht)) hR
    have hn' : NoNul (t ++ R) := noNul_append (noNul_sep ht) hR
    have hne' : t ++ R ≠ [] := by simp [hne]
    have hcb : c ≠ '\\' := (ws_facts hc).1
    rcases ws_split hc with rfl | hw
    · rw [List.cons_append, tk_step hn (by simp) (getToken_newline _), Nat.add_zero, ih]
      simp [sepMid_ws hcb, pushTok]
    · have hcn : c ≠ '\n' := by intro e; subst e; revert hw; decide
      have := tk_skip_prefix (P := [c]) (X := t ++ R) (getToken_skip hw _) hn hn' hne' e a
      simp only [List.cons_append, List.nil_append] at this ⊢
      rw [this, ih]
      simp [sepMid_ws hcb, hcn]
  | @cont t ht ih =>
    have hn : NoNul ('\\' :: '\n' :: (t ++ R)) := noNul_append (a := '\\' :: '\n' :: t) (noNul_sep (SepWF.cont ht)) hR
    have hn' : NoNul (t ++ R) := noNul_append (noNul_sep ht) hR
    have hne' : t ++ R ≠ [] := by simp [hne]
    have := tk_skip_prefix (P := ['\\', '\n']) (X := t ++ R) (getToken_cont _) hn hn' hne' e a
    simp only [List.cons_append, List.nil_append] at this ⊢
    rw [this, ih, sepMid_cont]

theorem tk_sepEnd {sep : Str} (hs : SepWF sep) (e : Nat) (a : List Tok) :
    tk sep e a = .ok ⟨a.reverse ++ sepEnd sep, e⟩ := by
  induction hs generalizing a with
  | nil => simp [tk_nil, sepEnd]
  | @ws c t hc ht ih =>
    have hn : NoNul (c :: t) := noNul_sep (SepWF.ws hc ht)
    have hcb : c ≠ '\\' := (ws_facts hc).1
    rcases ws_split hc with rfl | hw
    · rw [tk_step hn (by simp) (getToken_newline _), Nat.add_zero, ih]
      simp [sepEnd_ws hcb, pushTok]
    · have hcn : c ≠ '\n' := by intro e; subst e; revert hw; decide
      cases t with
      | nil =>
        have eg : getToken [c] = .ok (some .newline, 0, []) := by rw [getToken_skip hw]; exact getToken_nil
        rw [tk_step hn (by simp) eg, tk_nil]
        simp [sepEnd_ws hcb, hcn, pushTok]
      | cons d t' =>
        have hn' : NoNul (d :: t') := noNul_sep ht
        have := tk_skip_prefix (P := [c]) (X := d :: t') (getToken_skip hw _) hn hn' (by simp) e a
        simp only [List.cons_append, List.nil_append] at this
        rw [this, ih]
        simp [sepEnd_ws hcb, hcn]
  | @cont t ht ih =>
    have hn : NoNul ('\\' :: '\n' :: t) := noNul_sep (SepWF.cont ht)
    cases t with
    | nil =>
      have eg : getToken ['\\', '\n'] = .ok (some .newline, 0, []) := by rw [getToken_cont]; exact getToken_nil
      rw [tk_step hn (by simp) eg, tk_nil]
      simp [sepEnd_cont, pushTok]
    | cons d t' =>
      have hn' : NoNul (d :: t') := noNul_sep ht
      have := tk_skip_prefix (P := ['\\', '\n']) (X := d :: t') (getToken_cont _) hn hn' (by simp) e a
      simp only [List.cons_append, List.nil_append] at this
      rw [this, ih, sepEnd_cont]
      simp

/-! ### NUL-free spellings -/

theorem noNul_units {P Q : Char → Prop} {w : Str} (h : Units P Q w) (hp : ∀ c, P c → c ≠ NUL) (hq : ∀ c, Q c → c ≠ NUL) :
    NoNul w := by
  induction h with
  | nil => intro c hc; cases hc
  | plain h1 h2 _ ih =>
    intro c hc
    rcases List.mem_cons.mp hc with rfl | hc
    · exact hp _ h2
    · exact ih c hc
  | pair h1 _ ih =>
    intro c hc
    rcases List.mem_cons.mp hc with rfl | hc
    · decide
    · rcases List.mem_cons.mp hc with rfl | hc
      · exact hq _ h1
      · exact ih c hc

theorem mem_escape {q c : Char} {v : Str} (h : c ∈ escape q v) : c = '\\' ∨ c ∈ v := by
  induction v with
  | nil => cases h
  | cons x v ih =>
    unfold escape at h
    split at h
    · rename_i hx
      rcases List.mem_cons.mp h with rfl | h
      · exact Or.inl rfl
      · rcases List.mem_cons.mp h with rfl | h
        · exact Or.inr (by simp [hx])
        · rcases ih h with h | h
          · exact Or.inl h
          · exact Or.inr (List.mem_cons_of_mem _ h)
    · rcases List.mem_cons.mp h with rfl | h
      · exact Or.inr (by simp)
      · rcases ih h with h | h
        · exact Or.inl h
        · exact Or.inr (List.mem_cons_of_mem _ h)

theorem noNul_valUnits {q : Char} {v : Str} (h : ValUnits q v) : NoNul v :=
  noNul_units h (fun _ h => h.2) (fun _ h => h.2)

theorem noNul_escape {q : Char} {v : Str} (h : ValUnits q v) : NoNul (escape q v) := by
  intro c hc
  rcases mem_escape hc with rfl | hm
  · decide
  · exact noNul_valUnits h c hm

theorem noNul_cons {c : Char} {t : Str} (hc : c ≠ NUL) (ht : NoNul t) : NoNul (c :: t) := by
  intro x hx
  rcases List.mem_cons.mp hx with rfl | hx
  · exact hc
  · exact ht x hx

theorem noNul_of_pred {p : Char → Bool} (hp : p NUL = false) {w : Str} (h : ∀ x ∈ w, p x = true) : NoNul w := by
  intro c hc e
  subst e
  rw [h _ hc] at hp
  cases hp

theorem noNul_ident {w : Str} (h : ∀ x ∈ w, x ∈ identifier) : NoNul w :=
  fun c hc => (ident_facts c (h c hc)).2.1

theorem noNul_udf {udf : Str} (h : UdfWF udf) : NoNul udf := by
  rcases h with rfl | ⟨u, rfl, hu⟩
  · intro c hc; cases hc
  · exact noNul_cons (by decide) (noNul_ident hu)

theorem noNul_sfx {s : Str} (h : ∀ x ∈ s, IsSfx x) : NoNul s := by
  intro c hc e
  subst e
  rcases h _ hc with h | h <;> revert h <;> decide

theorem noNul_decTail {t : Str} (h : DecTail t) : NoNul t := by
  cases h with
  | plain h1 => exact noNul_sfx h1
  | @exp s1 e sg ds s2 h1 he hsg hne hds h2 =>
    apply noNul_append (noNul_sfx h1)
    apply noNul_cons (by intro e'; subst e'; revert he; decide)
    apply noNul_append
    · rcases hsg with rfl | rfl | rfl <;> decide
    · exact noNul_append (noNul_of_pred (p := isDigit) (by decide) hds) (noNul_sfx h2)

theorem noNul_num {w : Str} (h : NumWF w) : NoNul w := by
  cases h with
  | tru => decide
  | fls => decide
  | @bin x ds suf hx _ hds hsuf =>
    apply noNul_cons (by decide)
    apply noNul_cons (by rcases hx with rfl | rfl <;> decide)
    exact noNul_append (noNul_of_pred (p := isBin) (by decide) hds) (noNul_of_pred (p := isLU) (by decide) hsuf)
  | @hex x ds suf hx _ hds hsuf =>
    apply noNul_cons (by decide)
    apply noNul_cons (by rcases hx with rfl | rfl <;> decide)
    exact noNul_append (noNul_of_pred (p := isHex) (by decide) hds) (noNul_of_pred (p := isLU) (by decide) hsuf)
  | @dec m tail hm _ ht =>
    exact noNul_append (noNul_of_pred (p := isDigitOrDot) (by decide) hm) (noNul_decTail ht)

theorem encPrefix_noNul (enc : Nat) : NoNul (encPrefix enc) := by
  unfold encPrefix
  split
  · split
    · decide
    · split
      · decide
      · split
        · decide
        · split <;> decide
  · decide

theorem charPrefix_noNul (enc : Nat) : NoNul (charPrefix enc) := by
  unfold charPrefix
  split
  · decide
  · split
    · decide
    · split <;> decide

end Occa.Lex
