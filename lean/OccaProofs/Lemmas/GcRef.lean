/-
A handle leaving / joining the ring of its object, and `X::removeXRef` (`dropRefWith`).
-/
import OccaProofs.Lemmas.GcDelete9

namespace Occa.Gc

/-- `modeX->removeXRef(this)`: handle `v` leaves the ring of its object but keeps the pointer -/
theorem InvX.leave_ring {ex : Var → Prop} {s : St} {v : Var} {o : Nat} (hi : InvX ex s) (hv : ¬ ex v)
    (hp : s.ptr v = some o) :
    InvX (fun w => ex w ∨ w = v) (s.setRing o (Ring.remove (s.ring o) v)) := by
  have hn := hi.ring_nodup o
  have hring : ∀ x, (s.setRing o (Ring.remove (s.ring o) v)).ring x
      = if x = o then Ring.remove (s.ring o) v else s.ring x := fun x => rfl
  have hsub : ∀ w x, w ∈ (s.setRing o (Ring.remove (s.ring o) v)).ring x → w ∈ s.ring x := by
    intro w x hw
    rw [hring] at hw
    split at hw
    · rename_i h; rw [h]; exact ((Ring.mem_remove hn v w).mp hw).1
    · exact hw
  refine ⟨⟨⟨hi.notrap, hi.alive_lt, hi.dtors_eq, ?_, hi.ptr_live, ?_, ?_, ?_, hi.cur_lt,
    hi.kids_ok, hi.kids_nodup, hi.ch_ok, hi.ch_nodup, hi.inner_ok, hi.inner_inj⟩, hi.ch_par, hi.mem_par⟩, ?_, hi.buf_ne⟩
  · intro w x hw hex
    have hex' : ¬ ex w := fun h => hex (Or.inl h)
    have hwv : w ≠ v := fun h => hex (Or.inr h)
    obtain ⟨a, b, c⟩ := hi.ptr_ok w x hw hex'
    refine ⟨a, b, ?_⟩
    rw [hring]
    split
    · rename_i h; subst h; exact (Ring.mem_remove hn v w).mpr ⟨c, hwv⟩
    · exact c
  · intro w x hw
    exact hi.ring_ptr w x (hsub w x hw)
  · intro x
    rw [hring]
    split
    · exact Ring.nodup_remove hn v
    · exact hi.ring_nodup x
  · intro w hw x hwx
    rcases hw with hw | hw
    · exact hi.ex_out w hw x (hsub w x hwx)
    · subst hw
      have h1 := hi.ring_ptr w x (hsub w x hwx)
      rw [hp] at h1
      cases h1
      rw [hring] at hwx
      simp only [if_true] at hwx
      exact Ring.not_mem_remove hn w hwx
  · intro x hxa hxk hxu
    by_cases hxo : x = o
    · subst hxo
      exact Or.inr ⟨v, Or.inr rfl, hp⟩
    · rcases hi.ring_ne x hxa hxk hxu with h | ⟨w, hw1, hw2⟩
      · left; rw [hring]; simp only [hxo, if_false]; exact h
      · exact Or.inr ⟨w, Or.inl hw1, hw2⟩

/-- `modeX = NULL` for a handle that is in no ring -/
theorem InvX.null_ptr {ex : Var → Prop} {s : St} {v : Var} (hi : InvX (fun w => ex w ∨ w = v) s)
    (hleak : ∀ o, s.ptr v = some o → s.alive o = true → s.kind o ≠ .buf → s.useRefs o = true →
      (s.ring o ≠ [] ∨ ∃ w, ex w ∧ w ≠ v ∧ s.ptr w = some o)) :
    InvX ex (s.setPtr v none) := by
  have hptr : ∀ w, (s.setPtr v none).ptr w = if w = v then none else s.ptr w := fun w => rfl
  have hvout : ∀ x, v ∉ s.ring x := hi.ex_out v (Or.inr rfl)
  refine ⟨⟨⟨hi.notrap, hi.alive_lt, hi.dtors_eq, ?_, ?_, ?_, hi.ring_nodup, ?_, hi.cur_lt,
    hi.kids_ok, hi.kids_nodup, hi.ch_ok, hi.ch_nodup, hi.inner_ok, hi.inner_inj⟩, hi.ch_par, hi.mem_par⟩, ?_, hi.buf_ne⟩
  · intro w x hw hex
    rw [hptr] at hw
    split at hw
    · cases hw
    · rename_i hwv
      exact hi.ptr_ok w x hw (fun h => h.elim hex hwv)
  · intro w x hw
    rw [hptr] at hw
    split at hw
    · cases hw
    · exact hi.ptr_live w x hw
  · intro w x hw
    have hwv : w ≠ v := fun h => hvout x (h ▸ hw)
    rw [hptr]
    simp only [hwv, if_false]
    exact hi.ring_ptr w x hw
  · intro w hw x
    exact hi.ex_out w (Or.inl hw) x
  · intro x hxa hxk hxu
    rcases hi.ring_ne x hxa hxk hxu with h | ⟨w, hw1, hw2⟩
    · exact Or.inl h
    · by_cases hwv : w = v
      · subst hwv
        rcases hleak x hw2 hxa hxk hxu with h | ⟨w', h1, h2, h3⟩
        · exact Or.inl h
        · refine Or.inr ⟨w', h1, ?_⟩
          rw [hptr]; simp only [h2, if_false]; exact h3
      · rcases hw1 with hw1 | hw1
        · refine Or.inr ⟨w, hw1, ?_⟩
          rw [hptr]; simp only [hwv, if_false]; exact hw2
        · exact absurd hw1 hwv

/-- `modeX = modeX_; modeX->addXRef(this)` for a handle that holds NULL -/
theorem attach_core {ex : Var → Prop} {s : St} {v : Var} {o : Nat} (hi : Inv0 ex s)
    (hrn : ∀ x, x ≠ o → s.alive x = true → s.kind x ≠ .buf → s.useRefs x = true →
      (s.ring x ≠ [] ∨ ∃ w, ex w ∧ s.ptr w = some x))
    (hbn : ∀ b, s.alive b = true → s.kind b = .buf →
      (s.kids b ≠ [] ∨ ∃ p, s.alive p = true ∧ s.inner p = some b))
    (hv : ¬ ex v)
    (hp : s.ptr v = none) (hl : s.vlive v = true) (hoa : s.alive o = true) (hok : s.kind o = v.kind.obj) :
    InvX ex ((s.setPtr v (some o)).setRing o (Ring.add (s.ring o) v)) := by
  have hn := hi.ring_nodup o
  have hvout : ∀ x, v ∉ s.ring x := by
    intro x hx
    have := hi.ring_ptr v x hx
    rw [hp] at this; cases this
  have hptr : ∀ w, ((s.setPtr v (some o)).setRing o (Ring.add (s.ring o) v)).ptr w
      = if w = v then some o else s.ptr w := fun w => rfl
  have hring : ∀ x, ((s.setPtr v (some o)).setRing o (Ring.add (s.ring o) v)).ring x
      = if x = o then Ring.add (s.ring o) v else s.ring x := fun x => rfl
  refine ⟨⟨⟨hi.notrap, hi.alive_lt, hi.dtors_eq, ?_, ?_, ?_, ?_, ?_, hi.cur_lt,
    hi.kids_ok, hi.kids_nodup, hi.ch_ok, hi.ch_nodup, hi.inner_ok, hi.inner_inj⟩, hi.ch_par, hi.mem_par⟩, ?_, hbn⟩
  · intro w x hw hex
    rw [hptr] at hw
    rw [hring]
    split at hw
    · rename_i hwv
      cases hw
      subst hwv
      exact ⟨hoa, hok, by simp only [if_true]; exact (Ring.mem_add w w).mpr (Or.inr rfl)⟩
    · obtain ⟨a, b, c⟩ := hi.ptr_ok w x hw hex
      refine ⟨a, b, ?_⟩
      split
      · rename_i h; subst h; exact (Ring.mem_add v w).mpr (Or.inl c)
      · exact c
  · intro w x hw
    rw [hptr] at hw
    split at hw
    · rename_i hwv; rw [hwv]; exact hl
    · exact hi.ptr_live w x hw
  · intro w x hw
    rw [hring] at hw
    rw [hptr]
    split at hw
    · rename_i hxo
      subst hxo
      rcases (Ring.mem_add v w).mp hw with h | h
      · have hwv : w ≠ v := fun e => hvout x (e ▸ h)
        simp only [hwv, if_false]
        exact hi.ring_ptr w x h
      · simp [h]
    · have hwv : w ≠ v := fun e => hvout x (e ▸ hw)
      simp only [hwv, if_false]
      exact hi.ring_ptr w x hw
  · intro x
    rw [hring]
    split
    · exact Ring.nodup_add hn v
    · exact hi.ring_nodup x
  · intro w hw x hwx
    have hwv : w ≠ v := fun e => hv (e ▸ hw)
    rw [hring] at hwx
    split at hwx
    · rename_i hxo
      subst hxo
      rcases (Ring.mem_add v w).mp hwx with h | h
      · exact hi.ex_out w hw x h
      · exact hwv h
    · exact hi.ex_out w hw x hwx
  · intro x hxa hxk hxu
    rw [hring]
    split
    · exact Or.inl (Ring.add_ne_nil _ _)
    · rename_i hxo
      rcases hrn x hxo hxa hxk hxu with h | ⟨w, hw1, hw2⟩
      · exact Or.inl h
      · have hwv : w ≠ v := fun e => hv (e ▸ hw1)
        refine Or.inr ⟨w, hw1, ?_⟩
        rw [hptr]; simp only [hwv, if_false]; exact hw2

theorem InvX.attach {ex : Var → Prop} {s : St} {v : Var} {o : Nat} (hi : InvX ex s) (hv : ¬ ex v)
    (hp : s.ptr v = none) (hl : s.vlive v = true) (hoa : s.alive o = true) (hok : s.kind o = v.kind.obj) :
    InvX ex ((s.setPtr v (some o)).setRing o (Ring.add (s.ring o) v)) :=
  attach_core hi.toInv0 (fun x _ => hi.ring_ne x) hi.buf_ne hv hp hl hoa hok

/-- the storage of a handle that holds NULL goes away -/
theorem InvX.kill_var {ex : Var → Prop} {s : St} {v : Var} (hi : InvX ex s) (hp : s.ptr v = none) (b : Bool)
    (hb : b = true → ∀ d, v = Var.cur d → d < s.next) :
    InvX ex (s.setVLive v b) := by
  refine ⟨⟨⟨hi.notrap, hi.alive_lt, hi.dtors_eq, hi.ptr_ok, ?_, hi.ring_ptr, hi.ring_nodup, hi.ex_out, ?_,
    hi.kids_ok, hi.kids_nodup, hi.ch_ok, hi.ch_nodup, hi.inner_ok, hi.inner_inj⟩, hi.ch_par, hi.mem_par⟩,
    hi.ring_ne, hi.buf_ne⟩
  · intro w x hw
    have hw' : s.ptr w = some x := hw
    have hwv : w ≠ v := by intro h; rw [h, hp] at hw'; cases hw'
    show upd s.vlive v b w = true
    rw [upd_other _ _ hwv]
    exact hi.ptr_live w x hw'
  · intro d hd
    have hd' : upd s.vlive v b (Var.cur d) = true := hd
    by_cases h : Var.cur d = v
    · rw [h, upd_same] at hd'
      exact hb hd' d h.symm
    · rw [upd_other _ _ h] at hd'
      exact hi.cur_lt d hd'

end Occa.Gc
