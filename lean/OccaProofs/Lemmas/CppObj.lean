/-
Termination of OCCA's macro expansion for tables of OBJECT-LIKE macros (any reference structure,
cycles and self-reference included).

For such tables processToken has a closed form (`ptObj`); a weight `wt` of a token relative to the list
of still-enabled macros gives a measure `meas` of (disabled set, input) that decreases by exactly one when a
macro is expanded and by the token's weight when a token is passed on, so the `fill` loop and the consumer
loop `drain` stop.  Fuel monotonicity (CppExpand.lean) glues the pieces together.
-/
import OccaProofs.Lemmas.CppExpand

namespace Occa.Cpp

/-- every macro is object-like (and none is the built-in `defined`) -/
def ObjTable (tbl : List Macro) : Prop := ∀ m ∈ tbl, m.isFn = false ∧ m.special = false

/-- the tokens an object-like macro expands to -/
def objBody (vc : XCfg) (m : Macro) : List Tok := subst vc.vaCommas m []

/-- no token spelled `defined` (that identifier is a built-in function-like macro) -/
def NoDefined (vc : XCfg) (tbl : List Macro) : Prop :=
  ∀ m ∈ tbl, ∀ t ∈ objBody vc m, t.text ≠ "defined"

/-- the macro a token would be replaced by: an identifier naming a macro that is not disabled -/
def expandable (tbl : List Macro) (D : List String) (t : Tok) : Option Macro :=
  if t.isIdent then
    match tbl.find? (fun m => m.name == t.text) with
    | some m => if D.contains m.name then none else some m
    | none => none
  else none

/-- closed form of processToken on an object-like table -/
def ptObj (vc : XCfg) (t : ITok) (s : PP) : PP :=
  match expandable s.table s.disabled t.tok with
  | none => (s.pushOut t.tok).clear t.ends
  | some m =>
    match (objBody vc m).getLast? with
    | none => s.clear t.ends
    | some l =>
      { s with disabled := m.name :: s.disabled,
               input := ((objBody vc m).dropLast.map (fun x => (⟨x, []⟩ : ITok)) ++ [⟨l, t.ends ++ [m.name]⟩]) ++ s.input }

theorem clear_nil (s : PP) : s.clear [] = s := by
  cases s; simp [PP.clear]

theorem lookup_of_not_defined (tbl : List Macro) (n : String) (h : n ≠ "defined") :
    lookup tbl n = tbl.find? (fun m => m.name == n) := by
  unfold lookup
  cases tbl.find? (fun m => m.name == n) with
  | some m => rfl
  | none => simp [h]

theorem pt_obj (vc : XCfg) (n : Nat) (t : ITok) (s : PP) (hobj : ObjTable s.table) (hex : s.expanding = true)
    (hd : t.tok.text ≠ "defined") :
    processToken vc (n + 1 + 1 + 1 + 1 + 1) t s = .ok (ptObj vc t s) := by
  unfold processToken ptObj expandable
  by_cases hid : t.tok.isIdent = true
  · simp only [hid, if_true]
    unfold processIdentifier
    simp only [hex, if_true, lookup_of_not_defined s.table t.tok.text hd]
    cases hf : s.table.find? (fun m => m.name == t.tok.text) with
    | none => simp
    | some m =>
      have hm := hobj m (List.mem_of_find?_eq_some hf)
      simp only
      by_cases hdis : m.name ∈ s.disabled
      · simp [hdis]
      · simp only [List.contains_eq_mem, hdis, decide_false, if_false, hm.1, Bool.not_false, if_true, Bool.false_eq_true]
        unfold expandMacro macroExpand loadArgs
        simp only [hm.1, hm.2, Bool.false_eq_true, if_false, Bool.not_false, if_true, objBody]
        cases hl : (subst vc.vaCommas m []).getLast? with
        | none => simp
        | some l => simp [hdis, clear_nil, hex]
  · simp [hid]


/-! ### the weight of a token -/

/-- weight of a token relative to the list `E` of macros that are still enabled: the number of
    processToken steps its complete expansion takes.  `k` is fuel, `E.length` suffices. -/
def wtF (vc : XCfg) : Nat → List Macro → Tok → Nat
  | 0, _, _ => 1
  | k + 1, E, t =>
    if t.isIdent then
      match E.find? (fun m => m.name == t.text) with
      | some m => 1 + ((objBody vc m).map (wtF vc k (E.filter (fun x => x.name != m.name)))).sum
      | none => 1
    else 1

def wt (vc : XCfg) (E : List Macro) (t : Tok) : Nat := wtF vc E.length E t

theorem filter_ne_length_lt (E : List Macro) (m : Macro) (hm : m ∈ E) :
    (E.filter (fun x => x.name != m.name)).length < E.length := by
  apply List.length_filter_lt_length_iff_exists.mpr
  exact ⟨m, hm, by simp⟩

theorem wtF_stable (vc : XCfg) : ∀ (k : Nat) (E : List Macro) (t : Tok), E.length ≤ k →
    wtF vc k E t = wtF vc E.length E t := by
  intro k
  induction k using Nat.strongRecOn with
  | _ k ih =>
    intro E t hle
    cases k with
    | zero =>
      have : E.length = 0 := Nat.le_zero.mp hle
      rw [this]
    | succ k =>
      cases hE : E.length with
      | zero =>
        have hnil : E = [] := List.eq_nil_of_length_eq_zero hE
        subst hnil
        simp [wtF]
      | succ j =>
        have hj : j ≤ k := by omega
        unfold wtF
        by_cases hid : t.isIdent = true
        · simp only [hid, if_true]
          cases hf : E.find? (fun m => m.name == t.text) with
          | none => rfl
          | some m =>
            simp only
            have hlt := filter_ne_length_lt E m (List.mem_of_find?_eq_some hf)
            have e1 : ∀ b, wtF vc k (E.filter (fun x => x.name != m.name)) b =
                wtF vc (E.filter (fun x => x.name != m.name)).length (E.filter (fun x => x.name != m.name)) b :=
              fun b => ih k (Nat.lt_succ_self k) _ b (by omega)
            have e2 : ∀ b, wtF vc j (E.filter (fun x => x.name != m.name)) b =
                wtF vc (E.filter (fun x => x.name != m.name)).length (E.filter (fun x => x.name != m.name)) b :=
              fun b => ih j (by omega) _ b (by omega)
            congr 2
            apply List.map_congr_left
            intro b _
            rw [e1 b, e2 b]
        · simp [hid]

theorem wt_expand (vc : XCfg) (E : List Macro) (t : Tok) (m : Macro) (hid : t.isIdent = true)
    (hf : E.find? (fun m => m.name == t.text) = some m) :
    wt vc E t = 1 + ((objBody vc m).map (wt vc (E.filter (fun x => x.name != m.name)))).sum := by
  have hm := List.mem_of_find?_eq_some hf
  have hlt := filter_ne_length_lt E m hm
  cases hE : E.length with
  | zero => rw [List.eq_nil_of_length_eq_zero hE] at hm; simp at hm
  | succ j =>
    rw [hE] at hlt
    have h1 : wt vc E t = wtF vc (j + 1) E t := by unfold wt; rw [hE]
    rw [h1, wtF]
    simp only [hid, if_true, hf]
    congr 2
    apply List.map_congr_left
    intro b _
    exact wtF_stable vc j (E.filter (fun x => x.name != m.name)) b (by omega)

theorem wt_plain (vc : XCfg) (E : List Macro) (t : Tok)
    (h : t.isIdent = false ∨ E.find? (fun m => m.name == t.text) = none) : wt vc E t = 1 := by
  unfold wt
  cases E.length with
  | zero => rfl
  | succ j =>
    unfold wtF
    rcases h with h | h
    · simp [h]
    · by_cases hid : t.isIdent = true <;> simp [hid, h]

theorem wt_pos (vc : XCfg) (E : List Macro) (t : Tok) : 1 ≤ wt vc E t := by
  by_cases hid : t.isIdent = true
  · cases hf : E.find? (fun m => m.name == t.text) with
    | none => rw [wt_plain vc E t (Or.inr hf)]; exact Nat.le_refl 1
    | some m => rw [wt_expand vc E t m hid hf]; omega
  · rw [wt_plain vc E t (Or.inl (by simpa using hid))]; exact Nat.le_refl 1


/-! ### the measure of a machine state -/

/-- the macros that are not disabled -/
def enabledOf (tbl : List Macro) (D : List String) : List Macro := tbl.filter (fun m => !D.contains m.name)

/-- the weights of the pending tokens, each relative to the macros that will be enabled when it is
    processed (the macros ending at earlier tokens are enabled again by then) -/
def meas (vc : XCfg) (tbl : List Macro) : List String → List ITok → Nat
  | _, [] => 0
  | D, t :: r => wt vc (enabledOf tbl D) t.tok + meas vc tbl (D.filter (fun m => !t.ends.contains m)) r

theorem find_enabled (tbl : List Macro) (D : List String) (x : String) :
    (enabledOf tbl D).find? (fun m => m.name == x) =
      match tbl.find? (fun m => m.name == x) with
      | some m => if D.contains m.name then none else some m
      | none => none := by
  induction tbl with
  | nil => simp [enabledOf]
  | cons a r ih =>
    unfold enabledOf at ih ⊢
    by_cases hax : a.name = x
    · subst hax
      by_cases hd : a.name ∈ D
      · -- a is disabled and dropped; every later macro of that name is disabled too
        simp only [List.filter_cons, List.contains_eq_mem, hd, decide_true, Bool.not_true, Bool.false_eq_true,
          if_false, List.find?_cons, beq_self_eq_true, if_true]
        simp only [List.contains_eq_mem] at ih
        rw [ih]
        cases hf : r.find? (fun m => m.name == a.name) with
        | none => rfl
        | some m' =>
          have : m'.name = a.name := by simpa using List.find?_some hf
          simp [this, hd]
      · simp [List.filter_cons, hd]
    · have hax' : (a.name == x) = false := by simpa using hax
      by_cases hd : a.name ∈ D
      · simp only [List.filter_cons, List.contains_eq_mem, hd, decide_true, Bool.not_true, Bool.false_eq_true,
          if_false, List.find?_cons, hax']
        simpa using ih
      · simp only [List.filter_cons, List.contains_eq_mem, hd, decide_false, Bool.not_false, if_true,
          List.find?_cons, hax']
        simpa using ih

theorem expandable_eq (tbl : List Macro) (D : List String) (t : Tok) :
    expandable tbl D t = if t.isIdent then (enabledOf tbl D).find? (fun m => m.name == t.text) else none := by
  unfold expandable
  rw [find_enabled]

theorem enabled_cons (tbl : List Macro) (D : List String) (n : String) :
    enabledOf tbl (n :: D) = (enabledOf tbl D).filter (fun x => x.name != n) := by
  unfold enabledOf
  rw [List.filter_filter]
  apply List.filter_congr
  intro x _
  by_cases h : x.name = n <;> simp [h]

theorem filter_ends_nil (D : List String) : D.filter (fun m => !([] : List String).contains m) = D := by
  simp

/-- plain tokens (no end lists) in front of the input -/
theorem meas_append_plain (vc : XCfg) (tbl : List Macro) (D : List String) (pre : List Tok) (rest : List ITok) :
    meas vc tbl D (pre.map (fun x => (⟨x, []⟩ : ITok)) ++ rest) =
      (pre.map (wt vc (enabledOf tbl D))).sum + meas vc tbl D rest := by
  induction pre with
  | nil => simp
  | cons a r ih =>
    simp only [List.map_cons, List.cons_append, meas, List.sum_cons]
    rw [filter_ends_nil, ih]
    omega

theorem filter_after_expand (D : List String) (ends : List String) (n : String) (hn : n ∉ D) :
    (n :: D).filter (fun m => !(ends ++ [n]).contains m) = D.filter (fun m => !ends.contains m) := by
  rw [List.filter_cons]
  simp only [List.contains_eq_mem, List.mem_append, List.mem_singleton, or_true, decide_true, Bool.not_true,
    Bool.false_eq_true, if_false]
  apply List.filter_congr
  intro x hx
  have : x ≠ n := fun e => hn (e ▸ hx)
  simp [this]


/-! ### one step decreases the measure -/

def smeas (vc : XCfg) (s : PP) : Nat := meas vc s.table s.disabled s.input

structure ObjInv (vc : XCfg) (s : PP) : Prop where
  obj : ObjTable s.table
  nd : NoDefined vc s.table
  ex : s.expanding = true
  inp : ∀ it ∈ s.input, it.tok.text ≠ "defined"

theorem expandable_mem {tbl : List Macro} {D : List String} {t : Tok} {m : Macro}
    (h : expandable tbl D t = some m) :
    t.isIdent = true ∧ m ∈ tbl ∧ m.name ∉ D ∧ (enabledOf tbl D).find? (fun x => x.name == t.text) = some m ∧
    tbl.find? (fun x => x.name == t.text) = some m := by
  have h2 := h
  rw [expandable_eq] at h2
  unfold expandable at h
  by_cases hid : t.isIdent = true
  · simp only [hid, if_true] at h h2
    cases hf : tbl.find? (fun m => m.name == t.text) with
    | none => rw [hf] at h; simp at h
    | some m' =>
      rw [hf] at h
      simp at h
      obtain ⟨hnd, rfl⟩ := h
      exact ⟨hid, List.mem_of_find?_eq_some hf, hnd, h2, rfl⟩
  · simp [hid] at h

/-- processing one token: the invariant is kept, the measure drops, at most one token is output -/
theorem ptObj_step (vc : XCfg) (t : ITok) (s : PP) (h : ObjInv vc s) :
    ObjInv vc (ptObj vc t s) ∧
    smeas vc (ptObj vc t s) + 1 ≤ smeas vc { s with input := t :: s.input } ∧
    smeas vc (ptObj vc t s) + (ptObj vc t s).output.length ≤
      smeas vc { s with input := t :: s.input } + s.output.length := by
  have hpos := wt_pos vc (enabledOf s.table s.disabled) t.tok
  unfold ptObj
  cases he : expandable s.table s.disabled t.tok with
  | none =>
    simp only
    refine ⟨⟨h.obj, h.nd, h.ex, h.inp⟩, ?_, ?_⟩ <;>
      simp [smeas, meas, PP.clear, PP.pushOut] <;> omega
  | some m =>
    obtain ⟨hid, hm, hnd, hf, _⟩ := expandable_mem he
    have hw := wt_expand vc (enabledOf s.table s.disabled) t.tok m hid hf
    simp only
    cases hl : (objBody vc m).getLast? with
    | none =>
      simp only
      refine ⟨⟨h.obj, h.nd, h.ex, h.inp⟩, ?_, ?_⟩ <;>
        simp [smeas, meas, PP.clear] <;> omega
    | some l =>
      simp only
      have hbody : objBody vc m = (objBody vc m).dropLast ++ [l] := by
        obtain ⟨ys, hys⟩ := List.getLast?_eq_some_iff.mp hl
        rw [hys]; simp
      refine ⟨⟨h.obj, h.nd, h.ex, ?_⟩, ?_⟩
      · intro it hit
        simp only [List.mem_append, List.mem_map, List.mem_singleton] at hit
        rcases hit with (⟨x, hx, rfl⟩ | rfl) | hit
        · exact h.nd m hm x (List.dropLast_subset _ hx)
        · exact h.nd m hm l (by rw [hbody]; simp)
        · exact h.inp it hit
      · have e1 : smeas vc (⟨((objBody vc m).dropLast.map (fun x => (⟨x, []⟩ : ITok)) ++ [⟨l, t.ends ++ [m.name]⟩]) ++ s.input,
              s.output, m.name :: s.disabled, s.table, s.expanding, s.errors⟩ : PP)
            = ((objBody vc m).map (wt vc ((enabledOf s.table s.disabled).filter (fun x => x.name != m.name)))).sum
              + meas vc s.table (s.disabled.filter (fun x => !t.ends.contains x)) s.input := by
          simp only [smeas, List.append_assoc]
          rw [meas_append_plain]
          simp only [List.cons_append, List.nil_append, meas]
          rw [filter_after_expand s.disabled t.ends m.name hnd, enabled_cons]
          conv => rhs; rw [hbody]
          simp only [List.map_append, List.sum_append, List.map_cons, List.map_nil, List.sum_cons, List.sum_nil]
          omega
        rw [e1]
        simp only [smeas, meas]
        constructor <;> omega


/-! ### the loops stop -/

theorem fill_terminates (vc : XCfg) : ∀ (k : Nat) (s : PP), ObjInv vc s → smeas vc s ≤ k →
    ∃ n s', fill vc n s = .ok s' ∧ ObjInv vc s' ∧
      smeas vc s' + s'.output.length ≤ smeas vc s + s.output.length ∧
      (s'.output ≠ [] ∨ s'.input = []) := by
  intro k
  induction k with
  | zero =>
    intro s h hk
    cases s with
    | mk inp out dis tbl ex er =>
      cases out with
      | cons o r => exact ⟨1, _, by simp [fill], h, Nat.le_refl _, Or.inl (by simp)⟩
      | nil =>
        cases inp with
        | nil => exact ⟨1, _, by simp [fill], h, Nat.le_refl _, Or.inr rfl⟩
        | cons t r =>
          have := wt_pos vc (enabledOf tbl dis) t.tok
          simp [smeas, meas] at hk
          omega
  | succ k ih =>
    intro s h hk
    cases s with
    | mk inp out dis tbl ex er =>
      cases out with
      | cons o r => exact ⟨1, _, by simp [fill], h, Nat.le_refl _, Or.inl (by simp)⟩
      | nil =>
        cases inp with
        | nil => exact ⟨1, _, by simp [fill], h, Nat.le_refl _, Or.inr rfl⟩
        | cons t r =>
          have h0 : ObjInv vc ⟨r, [], dis, tbl, ex, er⟩ :=
            ⟨h.obj, h.nd, h.ex, fun it hit => h.inp it (List.mem_cons_of_mem _ hit)⟩
          have ht : t.tok.text ≠ "defined" := h.inp t (by simp)
          obtain ⟨hinv, hdec, htot⟩ := ptObj_step vc t ⟨r, [], dis, tbl, ex, er⟩ h0
          simp only at hdec htot
          have hk1 : smeas vc (ptObj vc t ⟨r, [], dis, tbl, ex, er⟩) ≤ k := by
            have : smeas vc (⟨t :: r, [], dis, tbl, ex, er⟩ : PP) ≤ k + 1 := hk
            omega
          obtain ⟨n1, s', hf, hinv', hle, hstop⟩ := ih _ hinv hk1
          refine ⟨n1 + 1 + 1 + 1 + 1 + 1 + 1, s', ?_, hinv', ?_, hstop⟩
          · rw [fill]
            simp only [List.isEmpty_nil, Bool.not_true, Bool.false_eq_true, if_false]
            rw [pt_obj vc n1 t ⟨r, [], dis, tbl, ex, er⟩ h.obj h.ex ht]
            simp only
            exact fill_mono_le vc _ _ (by simp) n1 5 hf
          · simp only [List.length_nil, Nat.add_zero] at htot ⊢
            omega

theorem drain_terminates (vc : XCfg) : ∀ (k : Nat) (s : PP) (acc : List Tok), ObjInv vc s →
    smeas vc s + s.output.length ≤ k → ∃ n r, drain vc n s acc = .ok r := by
  intro k
  induction k with
  | zero =>
    intro s acc h hk
    obtain ⟨n1, s', hf, hinv', hle, hstop⟩ := fill_terminates vc _ s h (Nat.le_refl _)
    have hout : s'.output = [] := by
      cases ho : s'.output with
      | nil => rfl
      | cons o r => rw [ho] at hle; simp at hle; omega
    refine ⟨n1 + 1 + 1, (acc.reverse, s'), ?_⟩
    rw [drain, next, hf]
    simp [hout]
  | succ k ih =>
    intro s acc h hk
    obtain ⟨n1, s', hf, hinv', hle, hstop⟩ := fill_terminates vc _ s h (Nat.le_refl _)
    cases ho : s'.output with
    | nil =>
      refine ⟨n1 + 1 + 1, (acc.reverse, s'), ?_⟩
      rw [drain, next, hf]
      simp [ho]
    | cons o rest =>
      have hnext : next vc (n1 + 1) s = .ok (some o, { s' with output := rest }) := by
        rw [next, hf]; simp [ho]
      have hinv2 : ObjInv vc { s' with output := rest } := ⟨hinv'.obj, hinv'.nd, hinv'.ex, hinv'.inp⟩
      have hk2 : smeas vc { s' with output := rest } + ({ s' with output := rest } : PP).output.length ≤ k := by
        rw [ho] at hle
        simp only [List.length_cons] at hle
        have : smeas vc { s' with output := rest } = smeas vc s' := rfl
        simp only [this]
        omega
      obtain ⟨n2, r, hd⟩ := ih _ (o :: acc) hinv2 hk2
      refine ⟨n1 + 1 + n2 + 1, r, ?_⟩
      rw [drain, next_mono_le vc s _ (by simp) (n1 + 1) n2 hnext]
      simp only
      have := drain_mono_le vc _ (o :: acc) (.ok r) (by simp) n2 (n1 + 1) hd
      rw [Nat.add_comm n2 (n1 + 1)] at this
      exact this

/-- every line terminates on a table of object-like macros, whatever the macros refer to -/
theorem expandLine_obj_terminates (vc : XCfg) (tbl : List Macro) (toks : List Tok) (hobj : ObjTable tbl)
    (hnd : NoDefined vc tbl) (ht : ∀ t ∈ toks, t.text ≠ "defined") :
    ∃ n r, expandLine vc n { table := tbl } toks = .ok r := by
  unfold expandLine
  apply drain_terminates vc _ _ [] ?_ (Nat.le_refl _)
  refine ⟨hobj, hnd, rfl, ?_⟩
  intro it hit
  simp only [List.mem_map, List.mem_append, List.mem_singleton] at hit
  obtain ⟨x, hx | hx, rfl⟩ := hit
  · exact ht x hx
  · subst hx; decide

end Occa.Cpp
