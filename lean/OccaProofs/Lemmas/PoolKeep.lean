/-
State-level facts used by the C03/C04 property theorems: which operations leave the pools alone,
what a write / a reserve / a slice / a failing resize does.
-/
import OccaProofs.Lemmas.PoolMaster

namespace Occa.Pool

/-- operations after which every memory that was live in a pool is still live with the same
    contents: everything except write, release, pfree, freeall -/
def Op.keepsAll : Op → Bool
  | .write .. => false
  | .release .. => false
  | .pfree .. => false
  | .freeall => false
  | _ => true

theorem newBuf_preserves (s : State) (k n : Nat) (cnt : Bool) (data : List Byte) :
    Preserves s (s.newBuf k n cnt data) := preserves_of_pools_eq (newBuf_pools s k n cnt data)

theorem step_keepsAll {c : Cfg} (hc : c.Fixed) {s : State} (h : SInv s) (op : Op) (hk : op.keepsAll = true) :
    Preserves s (step c s op).1 := by
  cases op with
  | write k off len seed => cases hk
  | release k => cases hk
  | pfree i => cases hk
  | freeall => cases hk
  | reserve i k n => exact (step_reserve hc h i k n).2
  | slice k j off cnt => exact (step_slice hc h k j off cnt).2
  | resize i n => exact (step_resize hc h i n).2
  | shrink i => exact (step_shrink hc h i).2
  | align i a => exact (step_align h i a).2
  | dev b =>
    by_cases hcond : s.pool0.isNone = true ∧ s.pool1.isNone = true ∧ s.mems.isEmpty = true ∧ s.dev.alloc = 0 ∧ s.dev.maxAlloc = 0
    · simp only [step, if_pos hcond]
      exact preserves_of_pools_eq (fun j => by rcases j with _ | _ | j <;> rfl)
    · simp only [step, if_neg hcond]; exact Preserves.refl s
  | pool i =>
    by_cases hcond : i < 2 ∧ (s.pool i).isNone = true
    · simp only [step, if_pos hcond]
      have hn : s.pool i = none := Option.isNone_iff_eq_none.1 hcond.2
      intro j p p' h1 h2
      have hji : j ≠ i := by intro e; rw [e, hn] at h1; cases h1
      have : (s.setPool i (some { align := c.defaultAlign })).pool j = s.pool j := by
        rcases i with _ | _ | i
        · rcases j with _ | _ | j
          · exact absurd rfl hji
          · rfl
          · rfl
        · rcases j with _ | _ | j
          · rfl
          · exact absurd rfl hji
          · rfl
        · omega
      rw [this, h1] at h2; cases h2
      exact ⟨SameContents.refl _, SameAliasing.refl _⟩
    · simp only [step, if_neg hcond]; exact Preserves.refl s
  | read k =>
    cases hr : s.readSlot k with
    | none => simp only [step, hr]; exact Preserves.refl s
    | some b => simp only [step, hr]; exact Preserves.refl s
  | malloc k n =>
    by_cases hbad : k ≥ NSLOT ∨ s.slotLive k = true
    · simp only [step, if_pos hbad]; exact Preserves.refl s
    · by_cases hn : n = 0
      · simp only [step, if_neg hbad, if_pos hn]; exact Preserves.refl s
      · simp only [step, if_neg hbad, if_neg hn]; exact newBuf_preserves _ _ _ _ _
  | mallocsrc k n sd =>
    by_cases hbad : k ≥ NSLOT ∨ s.slotLive k = true
    · simp only [step, if_pos hbad]; exact Preserves.refl s
    · by_cases hn : n = 0
      · simp only [step, if_neg hbad, if_pos hn]; exact Preserves.refl s
      · simp only [step, if_neg hbad, if_neg hn]; exact newBuf_preserves _ _ _ _ _
  | mallochost k n o sd =>
    by_cases hbad : k ≥ NSLOT ∨ s.slotLive k = true
    · simp only [step, if_pos hbad]; exact Preserves.refl s
    · by_cases hn : n = 0
      · simp only [step, if_neg hbad, if_pos hn]; exact Preserves.refl s
      · simp only [step, if_neg hbad, if_neg hn, hc.2.2.2.2.1, if_true]; exact newBuf_preserves _ _ _ _ _
  | wrap k n sd =>
    by_cases hbad : k ≥ NSLOT ∨ s.slotLive k = true
    · simp only [step, if_pos hbad]; exact Preserves.refl s
    · simp only [step, if_neg hbad]; exact newBuf_preserves _ _ _ _ _
  | clone k j =>
    by_cases hbad : k ≥ NSLOT ∨ s.slotLive k = true
    · simp only [step, if_pos hbad]; exact Preserves.refl s
    · cases hr : s.readSlot j with
      | none => simp only [step, if_neg hbad, hr]; exact Preserves.refl s
      | some b =>
        by_cases hb : b.length = 0
        · simp only [step, if_neg hbad, hr, if_pos hb]; exact Preserves.refl s
        · simp only [step, if_neg hbad, hr, if_neg hb]; exact newBuf_preserves _ _ _ _ _

/-! ### write -/

/-- a successful write through a pool reservation is `Pool.write` on that pool -/
theorem step_write_pool {c : Cfg} {s : State} {k off len seed i : Nat} {p : Pool} {r : Resv}
    (hloc : s.locate k = some (.inPool i p r)) (hfit : off + len ≤ r.size) :
    step c s (.write k off len seed) = (s.setPool i (some (p.write (r.off + off) (pattern seed len))), .ok) := by
  simp only [step, hloc, if_neg (show ¬ off + len > r.size by omega)]

theorem step_write_pool_err {c : Cfg} {s : State} {k off len seed i : Nat} {p : Pool} {r : Resv}
    (hloc : s.locate k = some (.inPool i p r)) (hfit : r.size < off + len) :
    step c s (.write k off len seed) = (s, .err) := by
  simp only [step, hloc, if_pos (show off + len > r.size by omega)]

theorem length_pattern (seed n : Nat) : (pattern seed n).length = n := by simp [pattern]

/-- the window just written reads back the data -/
theorem write_reads_back {p : Pool} (h : PInv p) {w : Resv} (hw : w ∈ p.resv) (off : Nat) (data : List Byte)
    (hlen : off + data.length ≤ w.size) :
    readAt (p.write (w.off + off) data).buf (w.off + off) data.length = data := by
  have hwb := h.inBounds hw
  apply List.ext_getElem?
  intro i
  rw [getElem?_readAt]
  by_cases hi : i < data.length
  · rw [if_pos hi, write_get h hw off data hlen, if_pos ⟨by omega, by omega⟩]
    congr 1; omega
  · rw [if_neg hi, List.getElem?_eq_none (by omega)]

/-! ### reserve -/

/-- a successful reserve: the new block has the requested size, a fresh allocation number, reads
    back its fill pattern and shares no byte with any other live reservation -/
theorem step_reserve_new {c : Cfg} (hc : c.Fixed) {s : State} (h : SInv s) {i k n : Nat} {p : Pool}
    (hp : s.pool i = some p) (hk : k < NSLOT) (hlive : s.slotLive k = false) (hn : 0 < n) :
    (step c s (.reserve i k n)).2 = .ok ∧
    ∃ p' r, (step c s (.reserve i k n)).1.pool i = some p' ∧ findSlot k p'.resv = some r ∧ r.size = n ∧
      r.fam = s.nextFam ∧ readAt p'.buf r.off r.size = pattern (1000 + s.nextFam) n ∧
      ∀ r' ∈ p'.resv, r'.slot ≠ k → NoShare r r' := by
  have hok := h.pools i p hp
  have hbad : ¬ (k ≥ NSLOT ∨ s.slotLive k = true) := by
    rintro (h1 | h1)
    · omega
    · rw [hlive] at h1; cases h1
  have hn0 : ¬ n = 0 := by omega
  have hfresh := (slotLive_false hlive).1 i p hp
  obtain ⟨d, p1, hres, hrsv⟩ := reserve_ok hc (d := s.dev) hok.inv (slot := k) (fam := s.nextFam) (bytes := n) hn hfresh
  obtain ⟨r, hfr, hrsz, hrfam⟩ := hrsv.new
  have hst : step c s (.reserve i k n) =
      ({ s.setPool i (some (p1.write r.off (pattern (1000 + s.nextFam) n))) with dev := d, nextFam := s.nextFam + 1 }, .ok) := by
    simp only [step, hp, if_neg hbad, if_neg hn0, hres, hfr]
  rw [hst]
  refine ⟨rfl, p1.write r.off (pattern (1000 + s.nextFam) n), r, ?_, hfr, hrsz, hrfam, ?_, ?_⟩
  · rcases pool_index hp with rfl | rfl <;> rfl
  · have hrmem := (findSlot_some hfr).1
    have := write_reads_back hrsv.inv hrmem 0 (pattern (1000 + s.nextFam) n) (by rw [length_pattern]; omega)
    rw [length_pattern] at this
    rw [hrsz]
    simpa using this
  · intro r' hr' hne
    have hrmem := (findSlot_some hfr).1
    have hr'mem : r' ∈ p1.resv := hr'
    apply hrsv.inv.famDisj r hrmem r' hr'mem
    rcases hrsv.members r' hr'mem with hnew | ⟨y, hy, hf, _⟩
    · exact absurd hnew.1 hne
    · rw [hrfam, hf]; exact Nat.ne_of_gt (hok.fams y hy)

/-! ### slice -/

/-- a successful slice of a pool reservation: the new memory lies inside its parent, belongs to the
    same allocation and reads the parent's window -/
theorem step_slice_new {c : Cfg} (hc : c.Fixed) {s : State} (h : SInv s) {k j off i bytes : Nat} {cnt : Int}
    {p : Pool} {r : Resv} (hloc : s.locate j = some (.inPool i p r)) (hp : s.pool i = some p)
    (hf : findSlot j p.resv = some r) (hk : k < NSLOT) (hlive : s.slotLive k = false) (hcnt : -1 ≤ cnt)
    (hsb : sliceBytes r.size off cnt = .ok bytes) :
    (step c s (.slice k j off cnt)).2 = .ok ∧ off + bytes ≤ r.size ∧
    ∃ p' x, (step c s (.slice k j off cnt)).1.pool i = some p' ∧ findSlot k p'.resv = some x ∧
      x.off = r.off + off ∧ x.size = bytes ∧ x.fam = r.fam ∧ p'.buf = p.buf := by
  have hbad : ¬ (k ≥ NSLOT ∨ s.slotLive k = true ∨ cnt < -1) := by
    rintro (h1 | h1 | h1)
    · omega
    · rw [hlive] at h1; cases h1
    · omega
  have hfit := sliceBytes_ok hsb
  have hr := (findSlot_some hf).1
  obtain ⟨hsl, _, _⟩ := pool_slice_step hc h hp hr hk hlive hfit
  have hst : step c s (.slice k j off cnt) = (s.setPool i (some (p.addRef c ⟨k, r.off + off, bytes, r.fam⟩)), .ok) := by
    simp only [step, if_neg hbad, hloc, hsb, hsl]
  rw [hst]
  have hfresh := (slotLive_false hlive).1 i p hp
  refine ⟨rfl, hfit, p.addRef c ⟨k, r.off + off, bytes, r.fam⟩, ⟨k, r.off + off, bytes, r.fam⟩, ?_, ?_, rfl, rfl, rfl, rfl⟩
  · rcases pool_index hp with rfl | rfl <;> rfl
  · exact findSlot_insertResv_self (m := ⟨k, r.off + off, bytes, r.fam⟩) hfresh

/-! ### resize -/

theorem step_resize_below {c : Cfg} {s : State} {i n : Nat} {p : Pool} (hp : s.pool i = some p)
    (hlt : n < p.reserved) : step c s (.resize i n) = (s, .err) := by
  have : p.resize c s.dev n false = .error .err := by
    unfold Pool.resize; rw [if_pos (by omega)]
  simp only [step, hp, this]

theorem step_resize_succeeds {c : Cfg} {s : State} (h : SInv s) {i n : Nat} {p : Pool} (hp : s.pool i = some p)
    (hle : p.reserved ≤ n) : (step c s (.resize i n)).2 = .ok := by
  have hok := h.pools i p hp
  cases hres : p.resize c s.dev n false with
  | error e =>
    have := (resize_err_iff hok.inv n false (c := c) (d := s.dev)).1 ⟨e, hres⟩
    omega
  | ok dp =>
    obtain ⟨d, p1⟩ := dp
    simp only [step, hp, hres]

theorem step_shrink_succeeds {c : Cfg} {s : State} (h : SInv s) {i : Nat} {p : Pool} (hp : s.pool i = some p) :
    (step c s (.shrink i)).2 = .ok := by
  have hok := h.pools i p hp
  cases hres : p.resize c s.dev p.reserved false with
  | error e =>
    have := (resize_err_iff hok.inv p.reserved false (c := c) (d := s.dev)).1 ⟨e, hres⟩
    omega
  | ok dp =>
    obtain ⟨d, p1⟩ := dp
    simp only [step, hp, hres]

/-! ### locate -/

theorem locate_inPool {s : State} {k i : Nat} {p : Pool} {w : Resv} (h : s.locate k = some (.inPool i p w)) :
    s.pool i = some p ∧ findSlot k p.resv = some w ∧ w ∈ p.resv := by
  rcases locate_cases s k with ⟨i', p', r', hloc, hp, hf⟩ | ⟨m, hloc, _⟩ | hloc
  · rw [hloc] at h
    injection h with h
    injection h with h1 h2 h3
    subst h1; subst h2; subst h3
    exact ⟨hp, hf, (findSlot_some hf).1⟩
  · rw [hloc] at h; injection h with h; cases h
  · rw [hloc.1] at h; cases h

/-! ### the abstract view: memory object ↦ bytes -/

/-- what the memory object in slot `k` of the pool reads back (`none`: no such reservation) -/
def view (p : Pool) (k : Nat) : Option (List Byte) :=
  (findSlot k p.resv).map fun r => readAt p.buf r.off r.size

theorem findSlot_none_of_slots {l l' : List Resv} (h : l'.map (·.slot) = l.map (·.slot)) {k : Nat}
    (hn : findSlot k l = none) : findSlot k l' = none := by
  cases hf : findSlot k l' with
  | none => rfl
  | some r =>
    have hm := findSlot_some hf
    have : k ∈ l'.map (·.slot) := List.mem_map.2 ⟨r, hm.1, hm.2⟩
    rw [h] at this
    obtain ⟨x, hx, hs⟩ := List.mem_map.1 this
    exact absurd hs (findSlot_none hn x hx)

theorem view_eq_of {p p' : Pool} (hc : SameContents p p') (hs : p'.resv.map (·.slot) = p.resv.map (·.slot)) :
    view p' = view p := by
  funext k
  unfold view
  cases hf : findSlot k p.resv with
  | none => rw [findSlot_none_of_slots hs hf]; rfl
  | some r =>
    obtain ⟨r', hr', _, _, hread⟩ := hc k r hf
    rw [hr']; simp only [Option.map_some]; rw [hread]

theorem slots_update {s s' : State} {i : Nat} {q p1 : Pool} (hq : s.pool i = some q)
    (hsl : p1.resv.map (·.slot) = q.resv.map (·.slot))
    (hpi : s'.pool i = some p1) (hpj : ∀ j, j ≠ i → s'.pool j = s.pool j)
    {j : Nat} {p p' : Pool} (hp : s.pool j = some p) (hp' : s'.pool j = some p') :
    p'.resv.map (·.slot) = p.resv.map (·.slot) := by
  by_cases hji : j = i
  · subst hji
    rw [hq] at hp; rw [hpi] at hp'; cases hp; cases hp'; exact hsl
  · rw [hpj j hji, hp] at hp'; cases hp'; rfl

/-- resize / shrinkToFit / setAlignment keep the set of live memory objects of every pool -/
theorem step_packing_slots {c : Cfg} (hc : c.Fixed) {s : State} (h : SInv s) (op : Op)
    (hop : (∃ i n, op = .resize i n) ∨ (∃ i, op = .shrink i) ∨ (∃ i a, op = .align i a))
    (j : Nat) (p p' : Pool) (hp : s.pool j = some p) (hp' : (step c s op).1.pool j = some p') :
    p'.resv.map (·.slot) = p.resv.map (·.slot) := by
  have same : (step c s op).1 = s → p'.resv.map (·.slot) = p.resv.map (·.slot) := by
    intro e; rw [e, hp] at hp'; cases hp'; rfl
  have resized : ∀ {i n : Nat} {q p1 : Pool} {d : Dev}, s.pool i = some q → q.resize c s.dev n false = .ok (d, p1) →
      (step c s op).1 = { s.setPool i (some p1) with dev := d } → p'.resv.map (·.slot) = p.resv.map (·.slot) := by
    intro i n q p1 d hq hres hst
    have hsl : p1.resv.map (·.slot) = q.resv.map (·.slot) := by
      rcases (resize_ok hc (h.pools i q hq).inv hres).2 with he | hr
      · rw [he.2.2.1]
      · exact hr.2.slots
    rw [hst] at hp'
    rcases pool_index hq with rfl | rfl
    · exact slots_update hq hsl rfl (by other_pools) hp hp'
    · exact slots_update hq hsl rfl (by other_pools) hp hp'
  rcases hop with ⟨i, n, rfl⟩ | ⟨i, rfl⟩ | ⟨i, a, rfl⟩
  · cases hq : s.pool i with
    | none => exact same (by simp only [step, hq])
    | some q =>
      cases hres : q.resize c s.dev n false with
      | error e => exact same (by simp only [step, hq, hres]; cases e <;> rfl)
      | ok dp =>
        obtain ⟨d, p1⟩ := dp
        exact resized hq hres (by simp only [step, hq, hres])
  · cases hq : s.pool i with
    | none => exact same (by simp only [step, hq])
    | some q =>
      cases hres : q.resize c s.dev q.reserved false with
      | error e => exact same (by simp only [step, hq, hres]; cases e <;> rfl)
      | ok dp =>
        obtain ⟨d, p1⟩ := dp
        exact resized hq hres (by simp only [step, hq, hres])
  · cases hq : s.pool i with
    | none => exact same (by simp only [step, hq])
    | some q =>
      cases hres : q.setAlignment s.dev a with
      | error e => exact same (by simp only [step, hq, hres]; cases e <;> rfl)
      | ok dp =>
        obtain ⟨d, p1⟩ := dp
        have hst : (step c s (.align i a)).1 = { s.setPool i (some p1) with dev := d } := by
          simp only [step, hq, hres]
        have hsl := (setAlignment_ok (h.pools i q hq).inv hres).2.slots
        rw [hst] at hp'
        rcases pool_index hq with rfl | rfl
        · exact slots_update hq hsl rfl (by other_pools) hp hp'
        · exact slots_update hq hsl rfl (by other_pools) hp hp'

/-! ### releasing everything -/

theorem eraseMem_no_slot {k : Nat} {l : List DMem} (hn : (l.map (·.slot)).Nodup) :
    ∀ x ∈ eraseMem k l, x.slot ≠ k := by
  induction l with
  | nil => intro x hx; simp [eraseMem] at hx
  | cons y ys ih =>
    rw [List.map_cons, List.nodup_cons] at hn
    intro x hx
    unfold eraseMem at hx
    split at hx
    · rename_i hy
      intro e
      exact hn.1 (List.mem_map.2 ⟨x, hx, by rw [e, hy]⟩)
    · rename_i hy
      rcases List.mem_cons.1 hx with rfl | hx
      · exact hy
      · exact ih hn.2 x hx

/-- after releasing slot `k` no device memory has slot `k`, and nothing new appears -/
theorem release_mems {c : Cfg} {s : State} (h : SInv s) (k : Nat) :
    ∀ m ∈ (s.release c k).mems, m ∈ s.mems ∧ m.slot ≠ k := by
  rcases locate_cases s k with ⟨i, p, r, hloc, hp, hf⟩ | ⟨m0, hloc, hm0⟩ | hloc
  · have hst : (s.release c k).mems = s.mems := by
      unfold State.release; rw [hloc]
      rcases pool_index hp with rfl | rfl <;> rfl
    intro m hm
    rw [hst] at hm
    refine ⟨hm, fun e => ?_⟩
    have := h.cross m hm i p hp
    rw [e, hf] at this; cases this
  · have hst : (s.release c k).mems = eraseMem k s.mems := by
      unfold State.release; rw [hloc]
      simp only []
      split
      · rfl
      · cases findBuf m0.buf s.bufs <;> rfl
    intro m hm
    rw [hst] at hm
    exact ⟨mem_eraseMem hm, eraseMem_no_slot h.memSlots m hm⟩
  · have hst : s.release c k = s := by unfold State.release; rw [hloc.1]
    intro m hm
    rw [hst] at hm
    exact ⟨hm, findMem_none hloc.2 m hm⟩

theorem releaseAllFrom_mems {c : Cfg} (hc : c.Fixed) :
    ∀ (n : Nat) (s : State), SInv s → n ≤ NSLOT → (∀ m ∈ s.mems, NSLOT - n ≤ m.slot) →
      (releaseAllFrom c s n).mems = [] := by
  intro n
  induction n with
  | zero =>
    intro s h _ hlow
    unfold releaseAllFrom
    apply List.eq_nil_iff_forall_not_mem.2
    intro m hm
    have := hlow m hm
    have := h.memBelow m hm
    omega
  | succ n ih =>
    intro s h hn hlow
    unfold releaseAllFrom
    by_cases hl : s.slotLive (NSLOT - (n + 1)) = true
    · rw [if_pos hl]
      apply ih _ (release_inv hc h _).1 (by omega)
      intro m hm
      have := release_mems (c := c) h (NSLOT - (n + 1)) m hm
      have := hlow m this.1
      omega
    · rw [if_neg hl]
      apply ih _ h (by omega)
      intro m hm
      have h1 := hlow m hm
      have hf : s.slotLive (NSLOT - (n + 1)) = false := by
        cases hh : s.slotLive (NSLOT - (n + 1)) with
        | false => rfl
        | true => exact absurd hh hl
      have := findMem_none (slotLive_false hf).2 m hm
      omega

theorem freePool_mems (s : State) (i : Nat) : (s.freePool i).mems = s.mems := by
  unfold State.freePool
  cases hp : s.pool i with
  | none => rfl
  | some p => rcases i with _ | _ | i <;> rfl

theorem freePool_pool_self (s : State) (i : Nat) : (s.freePool i).pool i = none := by
  unfold State.freePool
  cases hp : s.pool i with
  | none => exact hp
  | some p =>
    rcases i with _ | _ | i
    · rfl
    · rfl
    · cases hp

theorem freePool_pool_other (s : State) (i j : Nat) (hij : j ≠ i) : (s.freePool i).pool j = s.pool j := by
  unfold State.freePool
  cases hp : s.pool i with
  | none => rfl
  | some p =>
    rcases i with _ | _ | i
    · rcases j with _ | _ | j
      · exact absurd rfl hij
      · rfl
      · rfl
    · rcases j with _ | _ | j
      · rfl
      · exact absurd rfl hij
      · rfl
    · cases hp

/-- no memory object, no pool ⇒ the counter is 0 -/
theorem alloc_zero_of_released {s : State} (h : SInv s) (hm : s.mems = []) (h0 : s.pool 0 = none)
    (h1 : s.pool 1 = none) : s.dev.alloc = 0 := by
  have hb : s.bufs = [] := by
    cases hbs : s.bufs with
    | nil => rfl
    | cons b bs =>
      obtain ⟨m, hmm, _⟩ := h.bufLive b (by rw [hbs]; exact List.mem_cons_self)
      rw [hm] at hmm; cases hmm
  rw [h.account, hb, h0, h1]
  rfl

/-- `freeall` (every memory object released one by one, then both pools freed) ends with nothing
    live and the counter at 0 -/
theorem step_freeall {c : Cfg} (hc : c.Fixed) {s : State} (h : SInv s) :
    (step c s .freeall).1.mems = [] ∧ (step c s .freeall).1.pool 0 = none ∧
    (step c s .freeall).1.pool 1 = none ∧ (step c s .freeall).1.dev.alloc = 0 := by
  have hst : (step c s .freeall).1 = ((releaseAllFrom c s NSLOT).freePool 0).freePool 1 := by simp only [step]
  have hm : (((releaseAllFrom c s NSLOT).freePool 0).freePool 1).mems = [] := by
    rw [freePool_mems, freePool_mems]
    exact releaseAllFrom_mems hc NSLOT s h (Nat.le_refl _) (fun m _ => by omega)
  have h0 : (((releaseAllFrom c s NSLOT).freePool 0).freePool 1).pool 0 = none := by
    rw [freePool_pool_other _ 1 0 (by omega)]; exact freePool_pool_self _ 0
  have h1 : (((releaseAllFrom c s NSLOT).freePool 0).freePool 1).pool 1 = none := freePool_pool_self _ 1
  have hinv : SInv (((releaseAllFrom c s NSLOT).freePool 0).freePool 1) :=
    freePool_inv (freePool_inv (releaseAllFrom_inv hc _ _ h) 0) 1
  rw [hst]
  exact ⟨hm, h0, h1, alloc_zero_of_released hinv hm h0 h1⟩

end Occa.Pool
