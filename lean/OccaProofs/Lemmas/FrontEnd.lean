/-
Helper lemmas for C16: the tokenContext_t model (OccaModel/FrontEnd.lean).
-/
import OccaModel.FrontEnd

namespace Occa.FrontEnd

@[simp] theorem ok_bind {α β : Type} (a : α) (f : α → Res β) : (Res.ok a >>= f) = f a := rfl
@[simp] theorem pure_eq {α : Type} (a : α) : (pure a : Res α) = Res.ok a := rfl

/-! ### facts about the generated operator table (finite, checked by evaluation) -/

/-- an operator whose opType has a `pair` bit really is a `pairOperator_t` object: the C cast in
    findPairs is sound for every operator object that exists -/
theorem knownOps_pair_isPairOp : ∀ o ∈ knownOps, (o.opType.and pairM).toBool = true → o.isPairOp = true := by
  decide

/-- pairStart ⊆ pair on the table -/
theorem knownOps_start_pair : ∀ o ∈ knownOps, (o.opType.and pairStartM).toBool = true → (o.opType.and pairM).toBool = true := by
  decide

/-- a non-operator token has opType `none`, which has no pair bit and no semicolon bit -/
theorem none_not_pair : (noneM.and pairM).toBool = false := by decide
theorem none_not_semicolon : (noneM.and semicolonM).toBool = false := by decide

/-- `x >> 1` never hits the undefined shift -/
theorem shr_one_ok (x : Bitfield) : ∃ y, x.shr 1 = .ok y := by
  unfold Bitfield.shr
  simp

/-! ### reads -/

/-- every `tokenIndices` entry points into `tokens` -/
def IdxOk (c : Ctx) : Prop := ∀ (k v : Nat), c.tokenIndices[k]? = some v → v < c.tokens.size

/-- every operator token refers to an operator object that exists -/
def Typed (tokens : Array Tok) : Prop := ∀ (k : Nat) (t : Tok), tokens[k]? = some t → ∀ o, t = Tok.op o → o ∈ knownOps

theorem getToken_ok (c : Ctx) (hidx : IdxOk c) (i : Nat) (h : i < c.tokenIndices.size) :
    ∃ (t : Tok) (k : Nat), c.getToken (i : Int) = .ok t ∧ c.tokens[k]? = some t := by
  have h1 : c.tokenIndices[i]? = some c.tokenIndices[i] := by simp [h]
  have h2 := hidx _ _ h1
  refine ⟨c.tokens[c.tokenIndices[i]], c.tokenIndices[i], ?_, by simp [h2]⟩
  unfold Ctx.getToken
  have h0 : ¬ ((i : Int) < 0) := by omega
  simp [h0, h1, h2]

theorem getToken_ok_int (c : Ctx) (hidx : IdxOk c) (i : Int) (h0 : 0 ≤ i) (h : i < (c.tokenIndices.size : Int)) :
    ∃ (t : Tok) (k : Nat), c.getToken i = .ok t ∧ c.tokens[k]? = some t := by
  obtain ⟨n, rfl⟩ := Int.eq_ofNat_of_zero_le h0
  exact getToken_ok c hidx n (by omega)

/-- token `j` is an opening bracket (and, being in the table, a `pairOperator_t`) -/
def Opener (c : Ctx) (j : Nat) : Prop :=
  ∃ o, c.getToken (j : Int) = .ok (.op o) ∧ (o.opType.and pairStartM).toBool = true ∧ o.isPairOp = true

/-- token `j` is a closing bracket -/
def Closer (c : Ctx) (j : Nat) : Prop :=
  ∃ o, c.getToken (j : Int) = .ok (.op o) ∧ (o.opType.and pairM).toBool = true ∧ (o.opType.and pairStartM).toBool = false

/-- binding `(a, b)`: an opening bracket at `a`, a closing one at `b`, of the same kind by the
    C++ test `start.opType == (end.opType >> 1)` -/
def Match (c : Ctx) (a b : Int) : Prop :=
  ∃ oa ob, c.getToken a = .ok (.op oa) ∧ c.getToken b = .ok (.op ob) ∧
    (oa.opType.and pairStartM).toBool = true ∧
    (ob.opType.and pairM).toBool = true ∧ (ob.opType.and pairStartM).toBool = false ∧
    ob.opType.shr 1 = .ok oa.opType

theorem lookup_mem : ∀ (m : List (Int × Int)) (k b : Int), lookup m k = some b → (k, b) ∈ m := by
  intro m
  induction m with
  | nil => intro k b h; simp [lookup] at h
  | cons x r ih =>
    intro k b h
    obtain ⟨a, v⟩ := x
    unfold lookup at h
    by_cases e : a = k
    · simp [e] at h; subst h; subst e; simp
    · simp [e] at h; exact List.mem_cons_of_mem _ (ih k b h)

theorem lookup_cons (m : List (Int × Int)) (a v k : Int) :
    lookup ((a, v) :: m) k = if a = k then some v else lookup m k := by
  rw [lookup]

/-! ### findPairs -/

theorem findPairsLoop_spec (c : Ctx) (hidx : IdxOk c) (htyped : Typed c.tokens) :
    ∀ (rem i : Nat) (st : List Nat) (pairs : List (Int × Int)),
      i + rem = c.tokenIndices.size →
      (∀ s ∈ st, s < i ∧ Opener c s) →
      (∀ a b, (a, b) ∈ pairs → a < b ∧ b < (c.tokenIndices.size : Int)) →
      (∀ j, j < i → Opener c j → j ∈ st ∨ ∃ b, lookup pairs (j : Int) = some b ∧ (j : Int) < b) →
      (∀ a b, (a, b) ∈ pairs → Match c a b) →
      (∀ j, j < i → Closer c j → ∃ a, (a, (j : Int)) ∈ pairs) →
      ∃ out, findPairsLoop c rem i st pairs = .ok out ∧
        (∀ a b, (a, b) ∈ out.pairs → a < b ∧ b < (c.tokenIndices.size : Int)) ∧
        (c.supressErrors = false → c.hasError = false → out.hasError = false →
          ∀ j, j < c.tokenIndices.size → Opener c j →
            ∃ b, lookup out.pairs (j : Int) = some b ∧ (j : Int) < b) ∧
        (∀ a b, (a, b) ∈ out.pairs → Match c a b) ∧
        (c.supressErrors = false → c.hasError = false → out.hasError = false →
          ∀ j, j < c.tokenIndices.size → Closer c j → ∃ a, (a, (j : Int)) ∈ out.pairs) := by
  intro rem
  induction rem with
  | zero =>
    intro i st pairs hlen hst hpairs hcov hmatch hclose
    cases st with
    | nil =>
      refine ⟨⟨pairs, c.hasError⟩, by simp [findPairsLoop], hpairs, ?_, hmatch, ?_⟩
      · intro _ _ _ j hj hop
        have hji : j < i := by omega
        rcases hcov j hji hop with h | h
        · simp at h
        · exact h
      · intro _ _ _ j hj hcl
        exact hclose j (by omega) hcl
    | cons s st' =>
      obtain ⟨_, o, hget, _, hpo⟩ := hst s (by simp)
      refine ⟨⟨pairs, if c.supressErrors then c.hasError else true⟩, ?_, hpairs, ?_, hmatch, ?_⟩
      · simp [findPairsLoop, hget, Tok.asPairOp, hpo]
      · intro hs1 _ hout
        simp [hs1] at hout
      · intro hs1 _ hout
        simp [hs1] at hout
  | succ rem ih =>
    intro i st pairs hlen hst hpairs hcov hmatch hclose
    have hi : i < c.tokenIndices.size := by omega
    obtain ⟨token, k, hget, hk⟩ := getToken_ok c hidx i hi
    -- i is not an opener unless we say so below
    have hst' : ∀ s ∈ st, s < i + 1 ∧ Opener c s := fun s hs => ⟨by have := (hst s hs).1; omega, (hst s hs).2⟩
    unfold findPairsLoop
    simp only [hget, ok_bind]
    -- the common continuation when token i is not an opener and nothing changes
    have skip : (¬ Opener c i) → (¬ Closer c i) →
        ∃ out, findPairsLoop c rem (i + 1) st pairs = .ok out ∧
        (∀ a b, (a, b) ∈ out.pairs → a < b ∧ b < (c.tokenIndices.size : Int)) ∧
        (c.supressErrors = false → c.hasError = false → out.hasError = false →
          ∀ j, j < c.tokenIndices.size → Opener c j →
            ∃ b, lookup out.pairs (j : Int) = some b ∧ (j : Int) < b) ∧
        (∀ a b, (a, b) ∈ out.pairs → Match c a b) ∧
        (c.supressErrors = false → c.hasError = false → out.hasError = false →
          ∀ j, j < c.tokenIndices.size → Closer c j → ∃ a, (a, (j : Int)) ∈ out.pairs) := by
      intro hno hnc
      apply ih (i + 1) st pairs (by omega) hst' hpairs
      · intro j hj hop
        by_cases e : j = i
        · subst e; exact absurd hop hno
        · exact hcov j (by omega) hop
      · exact hmatch
      · intro j hj hcl
        by_cases e : j = i
        · subst e; exact absurd hcl hnc
        · exact hclose j (by omega) hcl
    cases token with
    | other sk =>
      have hno : ¬ Opener c i := by
        rintro ⟨o, h, _⟩
        rw [hget] at h
        cases h
      have hnc : ¬ Closer c i := by
        rintro ⟨o, h, _⟩
        rw [hget] at h
        cases h
      simp only [Tok.getOpType, none_not_pair]
      simpa using skip hno hnc
    | op o =>
      have hknown : o ∈ knownOps := htyped k _ hk o rfl
      simp only [Tok.getOpType]
      by_cases hp : (o.opType.and pairM).toBool = true
      · by_cases hs : (o.opType.and pairStartM).toBool = true
        · -- opener: push
          have hpo := knownOps_pair_isPairOp o hknown hp
          have hopen : Opener c i := ⟨o, hget, hs, hpo⟩
          simp only [hp, hs, Bool.not_true, Bool.false_eq_true, if_false, if_true]
          apply ih (i + 1) (i :: st) pairs (by omega)
          · intro s hs'
            rcases List.mem_cons.mp hs' with e | e
            · subst e; exact ⟨by omega, hopen⟩
            · exact hst' s e
          · exact hpairs
          · intro j hj hop
            by_cases e : j = i
            · subst e; exact Or.inl (by simp)
            · rcases hcov j (by omega) hop with h | h
              · exact Or.inl (List.mem_cons_of_mem _ h)
              · exact Or.inr h
          · exact hmatch
          · intro j hj hcl
            by_cases e : j = i
            · subst e
              obtain ⟨o', h, _, h3⟩ := hcl
              rw [hget] at h
              cases h
              rw [hs] at h3
              cases h3
            · exact hclose j (by omega) hcl
        · -- closer
          have hpo := knownOps_pair_isPairOp o hknown hp
          have hno : ¬ Opener c i := by
            rintro ⟨o', h, h2, _⟩
            rw [hget] at h
            cases h
            exact hs h2
          simp only [hp, hs, Bool.not_true, Bool.false_eq_true, if_false, Tok.asPairOp, hpo, if_true, ok_bind]
          cases st with
          | nil =>
            refine ⟨⟨pairs, if c.supressErrors then c.hasError else true⟩, rfl, hpairs, ?_, hmatch, ?_⟩
            · intro hs1 _ hout
              simp [hs1] at hout
            · intro hs1 _ hout
              simp [hs1] at hout
          | cons s st' =>
            obtain ⟨hsi, os, hgets, hsstart, hpos⟩ := hst s (by simp)
            obtain ⟨sh, hsh⟩ := shr_one_ok o.opType
            simp only [hgets, ok_bind, Tok.asPairOp, hpos, if_true, hsh]
            by_cases hm : (os.opType != sh) = true
            · simp only [hm, if_true]
              refine ⟨⟨pairs, if c.supressErrors then c.hasError else true⟩, rfl, hpairs, ?_, hmatch, ?_⟩
              · intro hs1 _ hout
                simp [hs1] at hout
              · intro hs1 _ hout
                simp [hs1] at hout
            · simp only [hm, Bool.false_eq_true, if_false]
              have heq : os.opType = sh := by simpa using hm
              have hsF : (o.opType.and pairStartM).toBool = false := by simpa using hs
              apply ih (i + 1) st' (((s : Int), (i : Int)) :: pairs) (by omega)
              · intro s' hs'
                exact hst' s' (List.mem_cons_of_mem _ hs')
              · intro a b hab
                rcases List.mem_cons.mp hab with e | e
                · cases e
                  constructor <;> omega
                · exact hpairs a b e
              · intro j hj hop
                by_cases e : j = i
                · subst e; exact absurd hop hno
                · by_cases e2 : j = s
                  · subst e2
                    refine Or.inr ⟨(i : Int), ?_, by omega⟩
                    simp [lookup_cons]
                  · rcases hcov j (by omega) hop with h | h
                    · rcases List.mem_cons.mp h with h' | h'
                      · exact absurd h' e2
                      · exact Or.inl h'
                    · obtain ⟨b, hb, hjb⟩ := h
                      refine Or.inr ?_
                      rw [lookup_cons]
                      by_cases e3 : ((s : Nat) : Int) = (j : Int)
                      · exact absurd (by omega : j = s) e2
                      · simp only [e3, if_false]
                        exact ⟨b, hb, hjb⟩
              · intro a b hab
                rcases List.mem_cons.mp hab with e | e
                · cases e
                  exact ⟨os, o, hgets, hget, hsstart, hp, hsF, by rw [hsh, heq]⟩
                · exact hmatch a b e
              · intro j hj hcl
                by_cases e : j = i
                · subst e; exact ⟨(s : Int), by simp⟩
                · obtain ⟨a, ha⟩ := hclose j (by omega) hcl
                  exact ⟨a, List.mem_cons_of_mem _ ha⟩
      · -- not a pair token
        have hno : ¬ Opener c i := by
          rintro ⟨o', h, h2, _⟩
          rw [hget] at h
          cases h
          exact hp (knownOps_start_pair o hknown h2)
        have hnc : ¬ Closer c i := by
          rintro ⟨o', h, h2, _⟩
          rw [hget] at h
          cases h
          exact hp h2
        simp only [hp, Bool.not_false, if_true]
        simpa using skip hno hnc

end Occa.FrontEnd
