/-
List-level facts about `Ring.add` / `Ring.remove` (the list view of ring_t::addRef/removeRef)
and about `upd`.  Everything the handle-layer proofs need about rings goes through these.
-/
import OccaModel.Gc
import Mathlib.Data.List.Basic

namespace Occa.Gc

section upd
variable {α β : Type} [DecidableEq α]

@[simp] theorem upd_same (f : α → β) (a : α) (b : β) : upd f a b a = b := by simp [upd]
theorem upd_other (f : α → β) {a x : α} (b : β) (h : x ≠ a) : upd f a b x = f x := by simp [upd, h]
theorem upd_apply (f : α → β) (a x : α) (b : β) : upd f a b x = if x = a then b else f x := rfl

end upd

section ring
variable {α : Type} [DecidableEq α]

theorem Ring.remove_perm_erase (l : List α) (e : α) : (Ring.remove l e).Perm (l.erase e) := by
  cases l with
  | nil => simp [Ring.remove]
  | cons h t =>
    by_cases he : h = e
    · subst he
      simp only [Ring.remove, if_true, List.erase_cons_head]
      cases hl : t.getLast? with
      | none =>
        have : t = [] := List.getLast?_eq_none_iff.mp hl
        simp [this]
      | some x =>
        have h1 : t.dropLast ++ [x] = t := List.dropLast_append_getLast? x (by simp [hl])
        have h2 : (x :: t.dropLast).Perm (t.dropLast ++ [x]) := by
          have := @List.perm_append_comm _ [x] t.dropLast
          simpa using this
        simpa [h1] using h2
    · have hne : ¬ (h == e) = true := by simpa using he
      simp [Ring.remove, he, List.erase_cons_tail hne]

theorem Ring.mem_remove {l : List α} (hn : l.Nodup) (e x : α) :
    x ∈ Ring.remove l e ↔ x ∈ l ∧ x ≠ e := by
  rw [(Ring.remove_perm_erase l e).mem_iff, hn.mem_erase_iff]
  exact And.comm

theorem Ring.nodup_remove {l : List α} (hn : l.Nodup) (e : α) : (Ring.remove l e).Nodup :=
  (Ring.remove_perm_erase l e).nodup_iff.mpr (hn.erase e)

theorem Ring.length_remove {l : List α} {e : α} (h : e ∈ l) :
    (Ring.remove l e).length = l.length - 1 := by
  rw [(Ring.remove_perm_erase l e).length_eq, List.length_erase_of_mem h]

theorem Ring.remove_of_not_mem {l : List α} {e : α} (h : e ∉ l) : Ring.remove l e = l := by
  cases l with
  | nil => rfl
  | cons a t =>
    have h1 : a ≠ e := fun c => h (by simp [c])
    have h2 : e ∉ t := fun c => h (by simp [c])
    simp [Ring.remove, h1, List.erase_of_not_mem h2]

theorem Ring.not_mem_remove {l : List α} (hn : l.Nodup) (e : α) : e ∉ Ring.remove l e := by
  intro h
  exact ((Ring.mem_remove hn e e).mp h).2 rfl

/-- the ring becomes empty exactly when its only entry is removed -/
theorem Ring.remove_eq_nil {l : List α} (hn : l.Nodup) (e : α) :
    Ring.remove l e = [] ↔ ∀ x ∈ l, x = e := by
  constructor
  · intro h x hx
    by_contra hne
    have : x ∈ Ring.remove l e := (Ring.mem_remove hn e x).mpr ⟨hx, hne⟩
    simp [h] at this
  · intro h
    apply List.eq_nil_iff_forall_not_mem.mpr
    intro x hx
    have := (Ring.mem_remove hn e x).mp hx
    exact this.2 (h x this.1)

theorem Ring.mem_add {l : List α} (e x : α) : x ∈ Ring.add l e ↔ x ∈ l ∨ x = e := by
  unfold Ring.add
  split
  · rename_i hh
    obtain ⟨ys, rfl⟩ := List.head?_eq_some_iff.mp hh
    constructor
    · intro h; exact Or.inl h
    · rintro (h | h)
      · exact h
      · simp [h]
  · by_cases hx : x = e
    · simp [hx]
    · simp [hx, List.mem_erase_of_ne hx]

theorem Ring.nodup_add {l : List α} (hn : l.Nodup) (e : α) : (Ring.add l e).Nodup := by
  unfold Ring.add
  split
  · exact hn
  · rw [List.nodup_append]
    refine ⟨hn.erase e, by simp, ?_⟩
    intro a ha b hb
    have : b = e := by simpa using hb
    subst this
    intro hab
    subst hab
    exact hn.not_mem_erase ha

theorem Ring.add_ne_nil (l : List α) (e : α) : Ring.add l e ≠ [] := by
  intro h
  have : e ∈ Ring.add l e := (Ring.mem_add e e).mpr (Or.inr rfl)
  simp [h] at this

theorem Ring.add_of_not_mem {l : List α} {e : α} (h : e ∉ l) : Ring.add l e = l ++ [e] := by
  unfold Ring.add
  split
  · rename_i hh
    obtain ⟨ys, rfl⟩ := List.head?_eq_some_iff.mp hh
    exact absurd (by simp) h
  · rw [List.erase_of_not_mem h]

/-- removing the head of a non-empty ring: one entry less, the same other entries -/
theorem Ring.remove_head_length (h : α) (t : List α) : (Ring.remove (h :: t) h).length = t.length := by
  rw [Ring.length_remove (by simp)]; simp

end ring

end Occa.Gc
