/-
What the expressions generated from the C++ (OccaGen/TrieShape.lean, translate/gen_trie.py) have
to be for the theorems of C28 to hold.  Each fact is checked against the CURRENT source on every
run: if, say, `trieNode::get` goes back to reporting `cIndex + 1`, `gen_getFallbackLength` stops
compiling and the check reports the broken obligation (the harness oracle supplies the failing input).
-/
import OccaModel.Trie

namespace Occa.Trie

theorem gen_getNextIndex (n : Nat) : (Gen.Trie.getNextIndex (n : Int)).toNat = n + 1 := by
  simp only [Gen.Trie.getNextIndex]; omega

theorem gen_getFallbackLength (n : Nat) : (Gen.Trie.getFallbackLength (n : Int)).toNat = n := by
  simp only [Gen.Trie.getFallbackLength]; omega

theorem gen_getMissLength (n : Nat) : (Gen.Trie.getMissLength (n : Int)).toNat = n := by
  simp only [Gen.Trie.getMissLength]; omega

theorem gen_eraseEmptiedChild (e : Bool) (n : Nat) : Gen.Trie.eraseEmptiedChild e (n : Int) = e := by
  simp only [Gen.Trie.eraseEmptiedChild]

theorem gen_eraseLeafChild {β : Type} (ks : List β) : Gen.Trie.eraseLeafChild (ks.length : Int) = ks.isEmpty := by
  cases ks with
  | nil => simp [Gen.Trie.eraseLeafChild]
  | cons a r => simp [Gen.Trie.eraseLeafChild]; omega

theorem gen_decrementCond (i vi : Nat) : Gen.Trie.decrementCond (i : Int) (vi : Int) = decide (i > vi) := by
  simp only [Gen.Trie.decrementCond]
  rw [Bool.eq_iff_iff]; simp only [decide_eq_true_eq]; omega

theorem gen_bsMid (s e : Int) (h : 0 ≤ s + e) : Gen.Trie.bsMid s e = (s + e) / 2 := by
  simp only [Gen.Trie.bsMid]; exact Int.tdiv_eq_ediv_of_nonneg h

theorem gen_bsLeftEnd (s e : Int) (h : 0 ≤ s + e) : Gen.Trie.bsLeftEnd s e = (s + e) / 2 - 1 := by
  simp only [Gen.Trie.bsLeftEnd]; rw [Int.tdiv_eq_ediv_of_nonneg h]

theorem gen_bsRightStart (s e : Int) (h : 0 ≤ s + e) : Gen.Trie.bsRightStart s e = (s + e) / 2 + 1 := by
  simp only [Gen.Trie.bsRightStart]; rw [Int.tdiv_eq_ediv_of_nonneg h]

theorem gen_bsInitStart (count : Nat) : Gen.Trie.bsInitStart (count : Int) = 0 := by
  simp only [Gen.Trie.bsInitStart]

theorem gen_bsInitEnd (count : Nat) : Gen.Trie.bsInitEnd (count : Int) = (count : Int) - 1 := by
  simp only [Gen.Trie.bsInitEnd]

theorem gen_frozenHasValue (v : Option Nat) : Gen.Trie.frozenHasValue (viInt v) = v.isSome := by
  cases v with
  | none => simp [Gen.Trie.frozenHasValue, viInt]
  | some i => simp [Gen.Trie.frozenHasValue, viInt]

theorem gen_frozenSuccess (len : Nat) (v : Option Nat) : Gen.Trie.frozenSuccess (len : Int) (viInt v) = v.isSome := by
  cases v with
  | none => simp [Gen.Trie.frozenSuccess, viInt]
  | some i => simp [Gen.Trie.frozenSuccess, viInt]

theorem gen_frozenInitIndex (v : Option Nat) : intVi (Gen.Trie.frozenInitIndex (viInt v)) = v := by
  cases v with
  | none => simp [Gen.Trie.frozenInitIndex, viInt, intVi]
  | some i =>
    simp only [Gen.Trie.frozenInitIndex, viInt, intVi]
    have : ¬ ((i : Int) < 0) := by omega
    simp [this]

theorem gen_freezeLeafOffset (o n : Nat) : (Gen.Trie.freezeLeafOffset (o : Int) (n : Int)).toNat = o + n := by
  simp only [Gen.Trie.freezeLeafOffset]; omega

end Occa.Trie
