/-
Helper lemmas for C12: per-kind re-read lemmas — a printed token followed by a separator character is
read back by getToken as exactly that token, leaving the position on the separator.
-/
import OccaProofs.Lemmas.LexFrame

namespace Occa.Lex
open Occa.Gen

theorem idStart_facts : ∀ x ∈ identifierStart, x ∉ whitespaceNoNewline ∧ x ≠ '\\' ∧ x ≠ NUL ∧ isDigitOrDot x = false ∧
    x ≠ '+' ∧ x ≠ '-' ∧ x ≠ '0' ∧ x ∈ identifier := by decide +kernel

theorem ident_facts : ∀ x ∈ identifier, x ≠ '\\' ∧ x ≠ NUL ∧ x ∉ whitespace := by decide +kernel

/-- the identifier loop over identifier characters, up to a character that ends it -/
theorem skipFrom_identifier {t : Str} {c : Char} (r : Str) (ht : ∀ x ∈ t, x ∈ identifier)
    (hc1 : c ≠ '\\') (hc2 : c ∉ identifier) :
    skipFrom identifier (t ++ c :: r) = .ok (c :: r) := by
  unfold skipFrom
  rw [skipUntil_clean]
  · exact skipUntil_stop r hc1 (by simp [hc2])
  · intro x hx
    have hm : x ∈ identifier := ht x hx
    exact ⟨(ident_facts x hm).1, by simp [ht x hx]⟩

theorem getIdentifier_eq {a : Char} {t : Str} {c : Char} (r : Str) (ha : a ∈ identifierStart)
    (ht : ∀ x ∈ t, x ∈ identifier) (hc1 : c ≠ '\\') (hc2 : c ∉ identifier) :
    getIdentifier (a :: t ++ c :: r) = .ok (a :: t, c :: r) := by
  have e := skipFrom_identifier r ht hc1 hc2
  have hcons : consumed (a :: (t ++ c :: r)) (c :: r) = a :: t := by
    have := consumed_append (a :: t) (c :: r); simpa using this
  have ha' : a ∈ identifierStart := ha
  simp only [getIdentifier, List.cons_append, hd_cons, bind, Except.bind, pure, Except.pure, adv_cons_one, e, hcons]
  simp [ha']

theorem peekForIdentifier_eq {a : Char} {t : Str} {c : Char} (r : Str)
    (ht : ∀ x ∈ t, x ∈ identifier) (hc1 : c ≠ '\\') (hc2 : c ∉ identifier) :
    peekForIdentifier (a :: t ++ c :: r) = .ok (
      if a :: t ∈ registered then .op
      else if c = '"' ∧ getStringEncoding (a :: t) ≠ 0 then .str (getStringEncoding (a :: t))
      else if c = '\'' ∧ getCharacterEncoding (a :: t) ≠ 0 then .chr (getCharacterEncoding (a :: t))
      else .ident) := by
  have e := skipFrom_identifier r ht hc1 hc2
  have hcons : consumed (a :: (t ++ c :: r)) (c :: r) = a :: t := by
    have := consumed_append (a :: t) (c :: r); simpa using this
  simp only [peekForIdentifier, List.cons_append, hd_cons, bind, Except.bind, pure, Except.pure, adv_cons_one, e, hcons]
  split
  · simp_all
  · split
    · simp_all
    · split <;> simp_all

/-- identifiers the tokenizer keeps as identifiers: C identifiers other than the operator words
    (`sizeof`, `new`, …) and the literals `true`, `false` -/
structure IdentWF (w : Str) : Prop where
  start : hd w ∈ identifierStart
  rest : ∀ x ∈ w, x ∈ identifier
  notOp : w ∉ registered
  notTrue : w ≠ ['t', 'r', 'u', 'e']
  notFalse : w ≠ ['f', 'a', 'l', 's', 'e']

theorem not_mem_of_ws {c : Char} (h : IsWs c) (p : Str) (hp : ∀ x ∈ p, x ∈ identifier) : c ∉ p := by
  intro hm
  have := hp c hm
  have h2 := (ws_facts h).2.2.1
  simp [this] at h2

/-- `load` on an identifier followed by a separator: refused, or `true`/`false` followed by more identifier characters -/
theorem isPrimitiveAt_ident {w : Str} (hw : IdentWF w) {c : Char} (hc : IsWs c) (r : Str) :
    isPrimitiveAt (w ++ c :: r) = false := by
  obtain ⟨a, t, rfl⟩ := nonempty_of_idStart (by simpa using hw.start)
  have ha : a ∈ identifierStart := by simpa using hw.start
  obtain ⟨_, _, _, hdd, hplus, hminus, hzero, _⟩ := idStart_facts a ha
  have key : ∀ p : Str, (∀ x ∈ p, x ∈ identifier) → a :: t ≠ p →
      startsWith p (a :: t ++ c :: r) = true → ∃ y w', a :: t = p ++ y :: w' := by
    intro p hp hne hpre
    have h1 := isPrefixOf_of_append_sep (w := a :: t) hpre (not_mem_of_ws hc p hp)
    obtain ⟨w', hw'⟩ := prefix_of_isPrefixOf h1
    cases w' with
    | nil => exact absurd (by simpa using hw') hne
    | cons y w' => exact ⟨y, w', hw'⟩
  by_cases h1 : startsWith ['t', 'r', 'u', 'e'] (a :: t ++ c :: r) = true
  · obtain ⟨y, w', e⟩ := key _ (by decide) hw.notTrue h1
    have hy : y ∈ identifier := hw.rest y (by rw [e]; simp)
    have hl : loadScan false (a :: t ++ c :: r) = some (y :: (w' ++ c :: r)) := by
      rw [e]; simp [loadScan, loadF, startsWith]
    simp only [List.cons_append] at hl
    have ea : a = 't' := by have := congrArg List.head? e; simpa using this
    subst ea
    simp [isPrimitiveAt, hl, hy, ha]
  · by_cases h2 : startsWith ['f', 'a', 'l', 's', 'e'] (a :: t ++ c :: r) = true
    · obtain ⟨y, w', e⟩ := key _ (by decide) hw.notFalse h2
      have hy : y ∈ identifier := hw.rest y (by rw [e]; simp)
      have hl : loadScan false (a :: t ++ c :: r) = some (y :: (w' ++ c :: r)) := by
        rw [e]; simp [loadScan, loadF, startsWith]
      simp only [List.cons_append] at hl
      have ea : a = 'f' := by have := congrArg List.head? e; simpa using this
      subst ea
      simp [isPrimitiveAt, hl, hy, ha]
    · apply isPrimitiveAt_of_none
      unfold loadScan
      apply loadF_none
      · simpa using h1
      · simpa using h2
      · simp [isSigned, hplus, hminus]
      · simpa using hzero
      · rw [takeWhile_nil_of_hd (by simpa using hdd)]; simp

theorem getToken_ident {w : Str} (hw : IdentWF w) {c : Char} (hc : IsWs c) (r : Str) :
    getToken (w ++ c :: r) = .ok (some (.ident w), 0, c :: r) := by
  have hp := isPrimitiveAt_ident hw hc r
  obtain ⟨a, t, rfl⟩ := nonempty_of_idStart (by simpa using hw.start)
  have ha : a ∈ identifierStart := by simpa using hw.start
  obtain ⟨hws, hbs, hnul, _⟩ := idStart_facts a ha
  obtain ⟨hc1, _, hc2', _, _, _, _, _, _, _, hq1, hq2, _⟩ := ws_facts hc
  have hc2 : c ∉ identifier := by simpa using hc2'
  have ht : ∀ x ∈ t, x ∈ identifier := fun x hx => hw.rest x (by simp [hx])
  have hs : skipWhitespace (a :: t ++ c :: r) = .ok (a :: t ++ c :: r) := skipWhitespace_at _ hbs hws
  apply getToken_eq hs (by simp) (k := .ident)
  · have hsp := shallowPeek_class hs (by simpa using hnul) hp
    have hcl : classifyChar a = .ident := by simp [classifyChar, ha]
    have hpk := peekForIdentifier_eq (a := a) r ht hc1 hc2
    simp only [List.cons_append, hd_cons, hcl] at hsp hpk
    simp only [peek, List.cons_append, hsp, bind, Except.bind, pure, Except.pure, hpk]
    simp [hw.notOp, hq1, hq2]
  · have hg := getIdentifier_eq (a := a) r hw.start ht hc1 hc2
    simp only [dispatch, getIdentifierToken, bind, Except.bind, pure, Except.pure, hg]
    simp [ha]

def isIdCh (c : Char) : Bool := identifier.contains c

/-- table facts used by the operator re-read lemma -/
theorem registered_op_facts : ∀ sp ∈ registered,
    hd sp ∉ whitespaceNoNewline ∧ hd sp ≠ '\\' ∧ hd sp ≠ NUL ∧
    (['t', 'r', 'u', 'e'].isPrefixOf sp = false) ∧ (['f', 'a', 'l', 's', 'e'].isPrefixOf sp = false) ∧
    ((hd sp = '+' ∨ hd sp = '-') ∨ (hd sp ≠ '+' ∧ hd sp ≠ '-' ∧ hd sp ≠ '0' ∧ ∀ x ∈ sp, isDigit x = false)) ∧
    ((hd sp ∉ identifierStart ∧ hd sp ∈ operatorCharcodes) ∨
     (hd sp ∈ identifierStart ∧ sp.takeWhile isIdCh ∈ registered ∧ (sp.dropWhile isIdCh).head? ≠ some '\\')) := by
  decide +kernel

theorem mem_takeWhile_append_stop {p : Char → Bool} {sp : Str} {c : Char} {r : Str} (hc : p c = false) :
    ∀ x ∈ (sp ++ c :: r).takeWhile p, x ∈ sp := by
  induction sp with
  | nil => simp [hc]
  | cons a sp ih =>
    intro x hx
    by_cases ha : p a = true
    · rw [List.cons_append, List.takeWhile_cons_of_pos ha] at hx
      rcases List.mem_cons.mp hx with rfl | hx
      · simp
      · exact List.mem_cons_of_mem _ (ih x hx)
    · rw [List.cons_append, List.takeWhile_cons_of_neg ha] at hx
      cases hx

theorem no_ext_of_ws {sp : Str} {c : Char} (hc : IsWs c) : ∀ sp' ∈ registered, (sp ++ [c]).isPrefixOf sp' = false := by
  intro sp' hm
  cases h : (sp ++ [c]).isPrefixOf sp' with
  | false => rfl
  | true =>
    obtain ⟨t, ht⟩ := prefix_of_isPrefixOf h
    have : c ∈ sp' := by rw [ht]; simp
    exact absurd hc (registered_clean sp' hm c this).1

theorem startsWith_false_of_sep {p sp : Str} {c : Char} (r : Str) (h : p.isPrefixOf sp = false) (hc : c ∉ p) :
    startsWith p (sp ++ c :: r) = false := by
  cases h' : startsWith p (sp ++ c :: r) with
  | false => rfl
  | true => rw [isPrefixOf_of_append_sep h' hc] at h; cases h

theorem loadScan_none_op {sp : Str} (hm : sp ∈ registered) {c : Char} (hc : IsWs c) (r : Str) :
    loadScan false (sp ++ c :: r) = none := by
  obtain ⟨_, _, _, ht, hf, hsgn, _⟩ := registered_op_facts sp hm
  have hne := registered_nonempty sp hm
  obtain ⟨a, t, rfl⟩ : ∃ a t, sp = a :: t := by
    cases sp with
    | nil => exact absurd rfl hne
    | cons a t => exact ⟨a, t, rfl⟩
  have hct : c ∉ ['t', 'r', 'u', 'e'] := by rcases ws_cases hc with rfl | rfl | rfl | rfl | rfl | rfl <;> decide
  have hcf : c ∉ ['f', 'a', 'l', 's', 'e'] := by rcases ws_cases hc with rfl | rfl | rfl | rfl | rfl | rfl <;> decide
  have h1 := startsWith_false_of_sep r ht hct
  have h2 := startsWith_false_of_sep r hf hcf
  unfold loadScan
  simp only [hd_cons] at hsgn
  rcases hsgn with hs | ⟨hp, hmi, hz, hdig⟩
  · apply loadF_none_signed _ _ h1 h2
    rcases hs with rfl | rfl <;> simp [isSigned]
  · apply loadF_none _ _ _ h1 h2
    · simp [isSigned, hp, hmi]
    · simpa using hz
    · intro x hx
      exact hdig x (mem_takeWhile_append_stop (ws_facts hc).2.2.2.2.1 x hx)

structure OpWF (id : Nat) (sp : Str) : Prop where
  reg : registered[id]? = some sp
  notLine : id ≠ lineCommentId
  notBlock : id ≠ blockCommentId

theorem getOperatorToken_eq {id : Nat} {sp : Str} (h : OpWF id sp) {c : Char} (hc : IsWs c) (r : Str) :
    getOperatorToken (sp ++ c :: r) = .ok (some (.op id), 0, c :: r) := by
  have hl := longestOp_exact h.reg c r (no_ext_of_ws hc)
  have ea := adv_append sp (c :: r)
  simp only [getOperatorToken, hl, h.notLine, h.notBlock, ea, bind, Except.bind, pure, Except.pure]
  simp

theorem getToken_op {id : Nat} {sp : Str} (h : OpWF id sp) {c : Char} (hc : IsWs c) (r : Str) :
    getToken (sp ++ c :: r) = .ok (some (.op id), 0, c :: r) := by
  have hm : sp ∈ registered := List.mem_of_getElem? h.reg
  have hp := isPrimitiveAt_of_none (loadScan_none_op hm hc r)
  have hl := longestOp_exact h.reg c r (no_ext_of_ws hc)
  obtain ⟨hws, hbs, hnul, _, _, _, hcls⟩ := registered_op_facts sp hm
  have hne := registered_nonempty sp hm
  obtain ⟨a, t, rfl⟩ : ∃ a t, sp = a :: t := by
    cases sp with
    | nil => exact absurd rfl hne
    | cons a t => exact ⟨a, t, rfl⟩
  simp only [hd_cons] at hws hbs hnul hcls
  have hs : skipWhitespace (a :: t ++ c :: r) = .ok (a :: t ++ c :: r) := skipWhitespace_at _ hbs hws
  apply getToken_eq hs (by simp) (k := .op)
  · have hsp := shallowPeek_class hs (by simpa using hnul) hp
    rcases hcls with ⟨hni, hop⟩ | ⟨hi, hreg, hstop⟩
    · have hcl : classifyChar a = .op := by simp [classifyChar, hni, hop]
      simp only [List.cons_append, hd_cons, hcl] at hsp hl
      simp only [peek, List.cons_append, hsp, hl, bind, Except.bind, pure, Except.pure]
    · have hcl : classifyChar a = .ident := by simp [classifyChar, hi]
      -- the identifier part of the spelling is itself registered (sizeof in sizeof...)
      have hsplit : a :: t = (a :: t).takeWhile isIdCh ++ (a :: t).dropWhile isIdCh := (List.takeWhile_append_dropWhile).symm
      have ha : isIdCh a = true := by
        have := (idStart_facts a hi).2.2.2.2.2.2.2; simpa [isIdCh] using this
      rw [List.takeWhile_cons_of_pos ha, List.dropWhile_cons_of_pos ha] at hsplit
      rw [List.takeWhile_cons_of_pos ha] at hreg
      rw [List.dropWhile_cons_of_pos ha] at hstop
      have hall : ∀ x ∈ t.takeWhile isIdCh, x ∈ identifier := fun x hx => by
        have := mem_takeWhile_imp' hx; simpa [isIdCh] using this
      have hpk : peekForIdentifier (a :: t ++ c :: r) = .ok .op := by
        cases hdw : t.dropWhile isIdCh with
        | nil =>
          rw [hdw] at hsplit
          have e := peekForIdentifier_eq (a := a) (t := t.takeWhile isIdCh) (c := c) r hall (ws_facts hc).1
            (by simpa using (ws_facts hc).2.2.1)
          rw [hsplit]; simp only [List.append_nil] at e ⊢
          rw [e]; simp [hreg]
        | cons y rest =>
          rw [hdw] at hsplit hstop
          have hy1 : y ≠ '\\' := by simpa using hstop
          have hy2 : y ∉ identifier := by
            have : isIdCh y = false := by
              have := List.head?_dropWhile_not isIdCh t
              rw [hdw] at this; simpa using this
            simpa [isIdCh] using this
          have e := peekForIdentifier_eq (a := a) (t := t.takeWhile isIdCh) (c := y) (rest ++ c :: r) hall hy1 hy2
          have e2 : a :: t ++ c :: r = a :: List.takeWhile isIdCh t ++ y :: (rest ++ c :: r) := by
            rw [hsplit]; simp
          rw [e2, e]; simp [hreg]
      simp only [List.cons_append, hd_cons, hcl] at hsp hpk
      simp only [peek, List.cons_append, hsp, hpk, bind, Except.bind, pure, Except.pure]
  · simp only [dispatch]
    exact getOperatorToken_eq h hc r

/-- `load` refuses everything that does not start like a number, a sign, or `true`/`false` -/
theorem loadScan_none_of_first {a : Char} (rest : Str) (h1 : a ≠ 't') (h2 : a ≠ 'f') (h3 : a ≠ '+') (h4 : a ≠ '-')
    (h5 : isDigitOrDot a = false) : loadScan false (a :: rest) = none := by
  unfold loadScan
  apply loadF_none
  · simp [startsWith, List.isPrefixOf, Ne.symm h1]
  · simp [startsWith, List.isPrefixOf, Ne.symm h2]
  · simp [isSigned, h3, h4]
  · intro e; simp only [hd_cons] at e; subst e; revert h5; decide
  · rw [takeWhile_nil_of_hd (by simpa using h5)]; simp

theorem skipTo_escape {q : Char} (hq : q ≠ '\\') (hn : q ≠ NUL) {v : Str} (h : ValUnits q v) (r : Str) :
    skipTo [q, '\n'] (escape q v ++ q :: r) = .ok (q :: r) := by
  have hu := escape_units hq hn h
  have hu' : Units (fun c => ([q, '\n'].contains c) = false) (fun x => x ≠ NUL) (escape q v) :=
    hu.mono (fun c hc => by simp [hc.1, hc.2]) (fun _ h => h)
  unfold skipTo
  rw [skipUntil_units _ hu']
  exact skipUntil_stop r hq (by simp)

/-- user-defined-literal suffix: empty, or `_` followed by identifier characters -/
def UdfWF (udf : Str) : Prop := udf = [] ∨ ∃ u, udf = '_' :: u ∧ ∀ x ∈ u, x ∈ identifier

theorem getUdf_eq {udf : Str} (h : UdfWF udf) {c : Char} (hc : IsWs c) (r : Str) :
    getUdf (udf ++ c :: r) = .ok (udf, c :: r) := by
  rcases h with rfl | ⟨u, rfl, hu⟩
  · have : c ≠ '_' := (ws_facts hc).2.2.2.2.2.2.2.2.2.2.2.2.1
    simp [getUdf, this]
  · have e := getIdentifier_eq (a := '_') (t := u) (c := c) r (by decide) hu (ws_facts hc).1
      (by simpa using (ws_facts hc).2.2.1)
    simp only [List.cons_append] at e
    simp [getUdf, e]

theorem getString_body {enc : Nat} (henc : enc &&& encR = 0) {v : Str} (hv : ValUnits '"' v) (rest : Str) :
    getString enc ('"' :: (escape '"' v ++ '"' :: rest)) = .ok (v, true, 0, rest) := by
  have e := skipTo_escape (q := '"') (by decide) (by decide) hv rest
  have hcons : consumed (escape '"' v ++ '"' :: rest) ('"' :: rest) = escape '"' v := consumed_append _ _
  have hun := unescape_escape (q := '"') (by decide) (by decide) hv
  simp only [getString, henc, hd_cons, adv_cons_one, e, hcons, hun, bind, Except.bind, pure, Except.pure]
  simp

/-- non-raw encodings and their printed prefixes -/
theorem strEnc_facts : ∀ enc ∈ [encu8, encu, encU, encL],
    hd (encPrefix enc) ∈ identifierStart ∧ hd (encPrefix enc) ≠ 't' ∧ hd (encPrefix enc) ≠ 'f' ∧
    (∀ x ∈ encPrefix enc, x ∈ identifier) ∧ encPrefix enc ∉ registered ∧
    getStringEncoding (encPrefix enc) = enc ∧ enc &&& encR = 0 ∧ enc ≠ 0 := by decide +kernel

theorem chrEnc_facts : ∀ enc ∈ [encu, encU, encL],
    hd (charPrefix enc) ∈ identifierStart ∧ hd (charPrefix enc) ≠ 't' ∧ hd (charPrefix enc) ≠ 'f' ∧
    (∀ x ∈ charPrefix enc, x ∈ identifier) ∧ charPrefix enc ∉ registered ∧
    getCharacterEncoding (charPrefix enc) = enc ∧ enc ≠ 0 := by decide +kernel

theorem quote_class : classifyChar '"' = .str 0 ∧ classifyChar '\'' = .chr 0 ∧ classifyChar '/' = .op := by decide +kernel

/-- a string literal (not raw): encoding none/u8/u/U/L, a value from the scanner's range, an optional udf -/
structure StrWF (enc : Nat) (v udf : Str) : Prop where
  enc : enc = 0 ∨ enc ∈ [encu8, encu, encU, encL]
  val : ValUnits '"' v
  udf : UdfWF udf

theorem printTok_str {enc : Nat} (h : enc &&& encR = 0) (v udf : Str) :
    printTok (.str enc v udf) = encPrefix enc ++ '"' :: (escape '"' v ++ '"' :: udf) := by
  simp [printTok, h]

theorem getStringToken_plain {v udf : Str} (hv : ValUnits '"' v) (hu : UdfWF udf) {c : Char} (hc : IsWs c) (r : Str) :
    getStringToken 0 ('"' :: (escape '"' v ++ '"' :: (udf ++ c :: r))) = .ok (some (.str 0 v udf), 0, c :: r) := by
  have e1 := getString_body (enc := 0) (by decide) hv (udf ++ c :: r)
  have e2 := getUdf_eq hu hc r
  simp only [getStringToken, hd_cons, e1, e2, bind, Except.bind, pure, Except.pure]
  simp

theorem getToken_str {enc : Nat} {v udf : Str} (h : StrWF enc v udf) {c : Char} (hc : IsWs c) (r : Str) :
    getToken (printTok (.str enc v udf) ++ c :: r) = .ok (some (.str enc v udf), 0, c :: r) := by
  rcases h.enc with rfl | hmem
  · rw [printTok_str (by decide)]
    have hpre : encPrefix 0 = [] := by decide
    simp only [hpre, List.nil_append, List.cons_append, List.append_assoc]
    have hs : skipWhitespace ('"' :: (escape '"' v ++ '"' :: (udf ++ c :: r))) = .ok _ :=
      skipWhitespace_at _ (by decide) (by decide)
    apply getToken_eq hs (by simp) (k := .str 0)
    · have hsp := shallowPeek_class hs (by simp; decide)
        (isPrimitiveAt_of_none (loadScan_none_of_first _ (by decide) (by decide) (by decide) (by decide) (by decide)))
      simp only [hd_cons, quote_class.1] at hsp
      simp only [peek, hsp, bind, Except.bind, pure, Except.pure]
    · simp only [dispatch]
      exact getStringToken_plain h.val h.udf hc r
  · obtain ⟨hst, hnt, hnf, hall, hnreg, hget, hr0, hne⟩ := strEnc_facts enc hmem
    rw [printTok_str hr0]
    obtain ⟨a, t, hp⟩ := nonempty_of_idStart (by simpa using hst)
    rw [hp] at hst hnt hnf hall hnreg hget ⊢
    simp only [hd_cons] at hst hnt hnf
    obtain ⟨hws, hbs, hnul, hdd, hplus, hminus, _, _⟩ := idStart_facts a hst
    have ht : ∀ x ∈ t, x ∈ identifier := fun x hx => hall x (by simp [hx])
    simp only [List.cons_append, List.append_assoc]
    have hs : skipWhitespace (a :: (t ++ '"' :: (escape '"' v ++ '"' :: (udf ++ c :: r)))) = .ok _ :=
      skipWhitespace_at _ hbs hws
    apply getToken_eq hs (by simp) (k := .str enc)
    · have hsp := shallowPeek_class hs (by simpa using hnul)
        (isPrimitiveAt_of_none (loadScan_none_of_first _ hnt hnf hplus hminus hdd))
      have hcl : classifyChar a = .ident := by simp [classifyChar, hst]
      have hpk := peekForIdentifier_eq (a := a) (t := t) (c := '"') (escape '"' v ++ '"' :: (udf ++ c :: r)) ht
        (by decide) (by decide)
      simp only [List.cons_append, hd_cons, hcl] at hsp hpk
      simp only [peek, hsp, hpk, bind, Except.bind, pure, Except.pure]
      simp [hnreg, hget, hne]
    · have hg := getIdentifier_eq (a := a) (t := t) (c := '"') (escape '"' v ++ '"' :: (udf ++ c :: r)) hst ht
        (by decide) (by decide)
      have e1 := getString_body (enc := enc) hr0 h.val (udf ++ c :: r)
      have e2 := getUdf_eq h.udf hc r
      simp only [List.cons_append] at hg
      simp only [dispatch, getStringToken, hg, hd_cons, e1, e2, bind, Except.bind, pure, Except.pure]
      simp [hne]

/-- a character literal: encoding none/u/U/L, a value from the scanner's range, an optional udf -/
structure ChrWF (enc : Nat) (v udf : Str) : Prop where
  enc : enc = 0 ∨ enc ∈ [encu, encU, encL]
  val : ValUnits '\'' v
  udf : UdfWF udf

theorem printTok_chr (enc : Nat) (v udf : Str) :
    printTok (.chr enc v udf) = charPrefix enc ++ '\'' :: (escape '\'' v ++ '\'' :: udf) := by
  simp [printTok]

theorem getCharToken_body (enc : Nat) {v udf : Str} (hv : ValUnits '\'' v) (hu : UdfWF udf)
    {c : Char} (hc : IsWs c) (r : Str) :
    (do
        let r2 ← adv ('\'' :: (escape '\'' v ++ '\'' :: (udf ++ c :: r))) 1
        let r3 ← skipTo ['\'', '\n'] r2
        if hd r3 ≠ '\'' then return (none, 1, r2)
        let r4 ← adv r3 1
        let (udf, r5) ← getUdf r4
        return (some (.chr enc (unescape '\'' (consumed r2 r3)) udf), 0, r5) : M Step)
      = .ok (some (.chr enc v udf), 0, c :: r) := by
  have e := skipTo_escape (q := '\'') (by decide) (by decide) hv (udf ++ c :: r)
  have hcons : consumed (escape '\'' v ++ '\'' :: (udf ++ c :: r)) ('\'' :: (udf ++ c :: r)) = escape '\'' v :=
    consumed_append _ _
  have hun := unescape_escape (q := '\'') (by decide) (by decide) hv
  have e2 := getUdf_eq hu hc r
  simp only [adv_cons_one, e, hd_cons, hcons, hun, e2, bind, Except.bind, pure, Except.pure]
  simp

theorem getToken_chr {enc : Nat} {v udf : Str} (h : ChrWF enc v udf) {c : Char} (hc : IsWs c) (r : Str) :
    getToken (printTok (.chr enc v udf) ++ c :: r) = .ok (some (.chr enc v udf), 0, c :: r) := by
  rw [printTok_chr]
  have hbody := getCharToken_body enc h.val h.udf hc r
  rcases h.enc with rfl | hmem
  · have hpre : charPrefix 0 = [] := by decide
    simp only [hpre, List.nil_append, List.cons_append, List.append_assoc]
    have hs : skipWhitespace ('\'' :: (escape '\'' v ++ '\'' :: (udf ++ c :: r))) = .ok _ :=
      skipWhitespace_at _ (by decide) (by decide)
    apply getToken_eq hs (by simp) (k := .chr 0)
    · have hsp := shallowPeek_class hs (by simp; decide)
        (isPrimitiveAt_of_none (loadScan_none_of_first _ (by decide) (by decide) (by decide) (by decide) (by decide)))
      simp only [hd_cons, quote_class.2.1] at hsp
      simp only [peek, hsp, bind, Except.bind, pure, Except.pure]
    · rw [← hbody]
      simp only [dispatch, getCharToken, hd_cons, bind, Except.bind, pure, Except.pure]
      simp
  · obtain ⟨hst, hnt, hnf, hall, hnreg, hget, hne⟩ := chrEnc_facts enc hmem
    obtain ⟨a, t, hp⟩ := nonempty_of_idStart (by simpa using hst)
    rw [hp] at hst hnt hnf hall hnreg hget ⊢
    simp only [hd_cons] at hst hnt hnf
    obtain ⟨hws, hbs, hnul, hdd, hplus, hminus, _, _⟩ := idStart_facts a hst
    have ht : ∀ x ∈ t, x ∈ identifier := fun x hx => hall x (by simp [hx])
    simp only [List.cons_append, List.append_assoc]
    have hs : skipWhitespace (a :: (t ++ '\'' :: (escape '\'' v ++ '\'' :: (udf ++ c :: r)))) = .ok _ :=
      skipWhitespace_at _ hbs hws
    apply getToken_eq hs (by simp) (k := .chr enc)
    · have hsp := shallowPeek_class hs (by simpa using hnul)
        (isPrimitiveAt_of_none (loadScan_none_of_first _ hnt hnf hplus hminus hdd))
      have hcl : classifyChar a = .ident := by simp [classifyChar, hst]
      have hpk := peekForIdentifier_eq (a := a) (t := t) (c := '\'') (escape '\'' v ++ '\'' :: (udf ++ c :: r)) ht
        (by decide) (by decide)
      simp only [List.cons_append, hd_cons, hcl] at hsp hpk
      simp only [peek, hsp, hpk, bind, Except.bind, pure, Except.pure]
      simp [hnreg, hget, hne]
    · have hg := getIdentifier_eq (a := a) (t := t) (c := '\'') (escape '\'' v ++ '\'' :: (udf ++ c :: r)) hst ht
        (by decide) (by decide)
      simp only [List.cons_append] at hg
      rw [← hbody]
      simp only [dispatch, getCharToken, hg, hd_cons, bind, Except.bind, pure, Except.pure]
      simp [hne]

/-! ### comments -/

/-- a line comment: `//` followed by text without a bare newline or a dangling backslash -/
structure LineCommentWF (w : Str) : Prop where
  body : ∃ b, w = '/' :: '/' :: b ∧ Units (fun c => c ≠ '\n' ∧ c ≠ NUL) (fun x => x ≠ NUL) b

/-- a block comment: `/*`, a body in which `*/` does not occur (also not across its end), `*/` -/
structure BlockCommentWF (w : Str) : Prop where
  body : ∃ b, w = '/' :: '*' :: (b ++ ['*', '/']) ∧ hasInfix ['*', '/'] (b ++ ['*']) = false ∧ ∀ x ∈ b, x ≠ NUL

theorem comment_ids : longestOp ['/', '/'] = some (lineCommentId, 2) ∧ longestOp ['/', '*'] = some (blockCommentId, 2) := by
  decide +kernel

/-- no registered operator is longer than two characters and starts with `//` or `/*` -/
theorem comment_no_ext : ∀ sp ∈ registered, (['/', '/'].isPrefixOf sp = true ∨ ['/', '*'].isPrefixOf sp = true) → sp.length ≤ 2 := by
  decide +kernel

theorem longestOp_comment (x : Char) (hx : x = '/' ∨ x = '*') (rest : Str) :
    longestOp ('/' :: x :: rest) = some (if x = '/' then lineCommentId else blockCommentId, 2) := by
  have hreg : ['/', x] ∈ registered := by rcases hx with rfl | rfl <;> decide +kernel
  cases h : longestOp ('/' :: x :: rest) with
  | none =>
    have := longestOp_none h ['/', x] hreg (by simp)
    cases this
  | some p =>
    obtain ⟨j, l⟩ := p
    obtain ⟨sp, h1, h2, h3, h4, h5⟩ := longestOp_some h
    have hmem : sp ∈ registered := List.mem_of_getElem? h1
    have hge : 2 ≤ l := h5 ['/', x] hreg (by simp)
    -- sp starts with /x, so it is /x
    obtain ⟨tl, htl⟩ := prefix_of_isPrefixOf h2
    have hsp2 : ['/', x].isPrefixOf sp = true := by
      apply List.isPrefixOf_iff_prefix.mpr
      apply List.prefix_of_prefix_length_le (l₃ := '/' :: x :: rest) ⟨rest, rfl⟩ ⟨tl, htl.symm⟩
      simp; omega
    have hle : sp.length ≤ 2 := comment_no_ext sp hmem (by rcases hx with rfl | rfl; exact Or.inl hsp2; exact Or.inr hsp2)
    have hl2 : l = 2 := by omega
    have hspeq : sp = ['/', x] := by
      obtain ⟨t2, ht2⟩ := prefix_of_isPrefixOf hsp2
      rw [ht2] at hle ⊢
      cases t2 with
      | nil => simp
      | cons y t2 => simp at hle
    subst hspeq
    have hj : j = if x = '/' then lineCommentId else blockCommentId := by
      have hn := registered_nodup
      have hj1 := (List.getElem?_eq_some_iff.mp h1)
      rcases hx with rfl | rfl
      · have h0 := List.getElem?_eq_some_iff.mp registered_lineComment
        simp only [if_true]
        exact (List.getElem_inj hn).mp (hj1.2.trans h0.2.symm)
      · have h0 := List.getElem?_eq_some_iff.mp registered_blockComment
        simp only [show ('*' : Char) ≠ '/' by decide, if_false]
        exact (List.getElem_inj hn).mp (hj1.2.trans h0.2.symm)
    rw [hj, hl2]

theorem comment_frame (x : Char) (hx : x = '/' ∨ x = '*') (rest : Str) {t : Option Tok} {r' : Str}
    (hd' : getOperatorToken ('/' :: x :: rest) = .ok (t, 0, r')) :
    getToken ('/' :: x :: rest) = .ok (t, 0, r') := by
  have hs : skipWhitespace ('/' :: x :: rest) = .ok _ := skipWhitespace_at _ (by decide) (by decide)
  apply getToken_eq hs (by simp) (k := .op)
  · have hsp := shallowPeek_class hs (by simp; decide)
      (isPrimitiveAt_of_none (loadScan_none_of_first _ (by decide) (by decide) (by decide) (by decide) (by decide)))
    simp only [hd_cons, quote_class.2.2] at hsp
    simp only [peek, hsp, longestOp_comment x hx rest, bind, Except.bind, pure, Except.pure]
  · simpa only [dispatch] using hd'

theorem getToken_lineComment {w : Str} (h : LineCommentWF w) (r : Str) :
    getToken (w ++ '\n' :: r) = .ok (some (.comment w), 0, '\n' :: r) := by
  obtain ⟨b, rfl, hb⟩ := h.body
  simp only [List.cons_append]
  apply comment_frame '/' (Or.inl rfl)
  have hl := longestOp_comment '/' (Or.inl rfl) (b ++ '\n' :: r)
  have hu : Units (fun c => (c == '\n') = false) (fun x => x ≠ NUL) ('/' :: '/' :: b) :=
    Units.plain (by decide) (by decide) (Units.plain (by decide) (by decide)
      (hb.mono (fun c hc => by simpa using hc.1) (fun _ h => h)))
  have e : skipToChar '\n' ('/' :: '/' :: (b ++ '\n' :: r)) = .ok ('\n' :: r) := by
    have := skipUntil_units (stop := (· == '\n')) ('\n' :: r) hu
    simp only [List.cons_append] at this
    unfold skipToChar
    rw [this]
    exact skipUntil_stop r (by decide) (by decide)
  have hcons : consumed ('/' :: '/' :: (b ++ '\n' :: r)) ('\n' :: r) = '/' :: '/' :: b := by
    have := consumed_append ('/' :: '/' :: b) ('\n' :: r); simpa using this
  simp only [getOperatorToken, hl, if_true, e, hcons, bind, Except.bind, pure, Except.pure]

theorem hasInfix_cons_false {p : Str} {c : Char} {t : Str} (h : hasInfix p (c :: t) = false) :
    p.isPrefixOf (c :: t) = false ∧ hasInfix p t = false := by
  simpa [hasInfix] using h

theorem blockLoop_body (b : Str) (rest : Str) (h : hasInfix ['*', '/'] (b ++ ['*']) = false) :
    blockLoop (b ++ '*' :: '/' :: rest) = .ok rest := by
  induction b with
  | nil => simp [blockLoop]
  | cons x b ih =>
    obtain ⟨h1, h2⟩ := hasInfix_cons_false (by simpa using h)
    rw [List.cons_append, blockLoop]
    by_cases hx : x = '*'
    · subst hx
      have hnext : hd (b ++ '*' :: '/' :: rest) ≠ '/' := by
        cases b with
        | nil => simp
        | cons y b' =>
          intro e
          simp only [List.cons_append, hd_cons] at e
          subst e
          simp [List.isPrefixOf] at h1
      simp only [if_true, rd_cons_one, hnext, if_false]
      exact ih h2
    · simp only [hx, if_false]
      exact ih h2

theorem getToken_blockComment {w : Str} (h : BlockCommentWF w) (r : Str) :
    getToken (w ++ r) = .ok (some (.comment w), 0, r) := by
  obtain ⟨b, rfl, hb, _⟩ := h.body
  simp only [List.cons_append, List.append_assoc]
  apply comment_frame '*' (Or.inr rfl)
  have hl := longestOp_comment '*' (Or.inr rfl) (b ++ (['*', '/'] ++ r))
  have e := blockLoop_body b r hb
  have hne : blockCommentId ≠ lineCommentId := by decide
  have hcons : consumed ('/' :: '*' :: (b ++ (['*', '/'] ++ r))) r = '/' :: '*' :: (b ++ ['*', '/']) := by
    have := consumed_append ('/' :: '*' :: (b ++ ['*', '/'])) r; simpa using this
  simp only [show ('*' : Char) ≠ '/' by decide, if_false] at hl
  simp only [List.cons_append, List.nil_append] at e hl hcons ⊢
  simp only [getOperatorToken, hl, hne, if_true, if_false, adv_cons_two, e, hcons, bind, Except.bind, pure, Except.pure]

end Occa.Lex
