/-
Lemmas about the unfrozen side of the trie model: the child maps (`find`, `upsert`, `eraseKey`,
`replaceKey`), the exact lookup `lookupN`, and what `addN`, `nestedRemove`, `decrementIndex`,
`removeN`, `getN` do to it.  Core Lean only.
-/
import OccaProofs.Lemmas.TrieSpec

set_option linter.unusedSectionVars false

namespace Occa.Trie
open Node
variable {α : Type} [DecidableEq α] [LT α] [DecidableRel (α := α) (· < ·)]

/-! ### induction over nodes -/

mutual
theorem Node.induct_node {P : Node α → Prop} (h : ∀ v ks, (∀ p ∈ ks, P p.2) → P (mk v ks)) :
    ∀ n : Node α, P n
  | mk v ks => h v ks (Node.induct_kids h ks)
theorem Node.induct_kids {P : Node α → Prop} (h : ∀ v ks, (∀ p ∈ ks, P p.2) → P (mk v ks)) :
    ∀ ks : List (α × Node α), ∀ p ∈ ks, P p.2
  | [] => by simp
  | (c, n) :: r => by
    intro p hp
    simp only [List.mem_cons] at hp
    rcases hp with rfl | hp
    · exact Node.induct_node h n
    · exact Node.induct_kids h r p hp
end

@[simp] theorem val_mk (v : Option Nat) (ks : List (α × Node α)) : (mk v ks).val = v := rfl
@[simp] theorem kids_mk (v : Option Nat) (ks : List (α × Node α)) : (mk v ks).kids = ks := rfl
theorem Node.eta (n : Node α) : n = mk n.val n.kids := by cases n; rfl

/-! ### exact lookup -/

/-- the value index stored at exactly the key `k` below `n` -/
def lookupN : List α → Node α → Option Nat
  | [], n => n.val
  | c :: cs, n =>
    match find c n.kids with
    | none => none
    | some ch => lookupN cs ch

@[simp] theorem lookupN_nil (n : Node α) : lookupN [] n = n.val := rfl

theorem lookupN_cons (c : α) (cs : List α) (n : Node α) :
    lookupN (c :: cs) n = (find c n.kids).bind (lookupN cs) := by
  rw [lookupN]; cases find c n.kids <;> rfl

theorem lookupN_empty (k : List α) : lookupN k (Node.empty : Node α) = none := by
  cases k <;> simp [lookupN, Node.empty, find]

theorem lookupN_no_kids (v : Option Nat) (c : α) (cs : List α) : lookupN (c :: cs) (mk v []) = none := by
  simp [lookupN, find]

/-! ### the child map -/

/-- the keys of a child map are strictly increasing (the `std::map` order) -/
def KeysLt (ks : List (α × Node α)) : Prop := (ks.map (·.1)).Pairwise (· < ·)

theorem KeysLt.tail {p : α × Node α} {r : List (α × Node α)} (h : KeysLt (p :: r)) : KeysLt r := by
  unfold KeysLt at *; simp only [List.map_cons, List.pairwise_cons] at h; exact h.2

theorem KeysLt.head_lt {p : α × Node α} {r : List (α × Node α)} (h : KeysLt (p :: r)) :
    ∀ q ∈ r, p.1 < q.1 := by
  unfold KeysLt at h; simp only [List.map_cons, List.pairwise_cons] at h
  intro q hq; exact h.1 _ (List.mem_map_of_mem hq)

theorem find_none_of_lt [TotalLT α] {c : α} {ks : List (α × Node α)} (h : ∀ q ∈ ks, c < q.1) : find c ks = none := by
  induction ks with
  | nil => rfl
  | cons p r ih =>
    obtain ⟨k, n⟩ := p
    have h1 : c < k := h (k, n) (by simp)
    have : ¬ c = k := fun e => TotalLT.irrefl k (e ▸ h1)
    simp only [find, this, if_false]
    exact ih fun q hq => h q (by simp [hq])

theorem find_upsert [TotalLT α] (c c' : α) (f : Node α → Node α) (ks : List (α × Node α)) (hs : KeysLt ks) :
    find c' (upsert c f ks) = if c' = c then some (f ((find c ks).getD Node.empty)) else find c' ks := by
  induction ks with
  | nil => simp only [upsert, find]; split <;> simp
  | cons p r ih =>
    obtain ⟨k, n⟩ := p
    simp only [upsert]
    by_cases h1 : c = k
    · subst h1
      simp only [if_true, find]
      by_cases h2 : c' = c <;> simp [h2]
    · simp only [h1, if_false]
      by_cases h3 : c < k
      · simp only [h3, if_true, find, h1, if_false]
        have : find c r = none := find_none_of_lt fun q hq => TotalLT.trans h3 (hs.head_lt q hq)
        by_cases h2 : c' = c
        · simp [h2, this]
        · simp [h2]
      · simp only [h3, if_false, find, h1, ih hs.tail]
        by_cases h2 : c' = k
        · subst h2
          have : ¬ c' = c := fun e => h1 e.symm
          simp [this]
        · simp [h2]

theorem find_eraseKey (c c' : α) (ks : List (α × Node α)) :
    find c' (eraseKey c ks) = if c' = c then none else find c' ks := by
  induction ks with
  | nil => simp [eraseKey, find]
  | cons p r ih =>
    obtain ⟨k, n⟩ := p
    unfold eraseKey at ih ⊢
    by_cases h1 : k = c
    · subst h1
      rw [List.filter_cons_of_neg (by simp), ih]
      by_cases h2 : c' = k <;> simp [h2, find]
    · rw [List.filter_cons_of_pos (by simpa using h1)]
      simp only [find, ih]
      by_cases h2 : c' = k
      · subst h2; simp [h1]
      · simp [h2]

theorem find_replaceKey (c c' : α) (n : Node α) (ks : List (α × Node α)) :
    find c' (replaceKey c n ks) = if c' = c then (find c ks).map (fun _ => n) else find c' ks := by
  induction ks with
  | nil => simp [replaceKey, find]
  | cons p r ih =>
    obtain ⟨k, m⟩ := p
    simp only [replaceKey]
    by_cases h1 : c = k
    · subst h1
      simp only [if_true, find]
      by_cases h2 : c' = c <;> simp [h2]
    · simp only [h1, if_false, find, ih]
      by_cases h2 : c' = k
      · subst h2
        have : ¬ c' = c := fun e => h1 e.symm
        simp [this]
      · simp [h2]

theorem find_decrementKids (vi : Nat) (c : α) (ks : List (α × Node α)) :
    find c (decrementKids vi ks) = (find c ks).map (decrementIndex vi) := by
  induction ks with
  | nil => simp [decrementKids, find]
  | cons p r ih =>
    obtain ⟨k, n⟩ := p
    simp only [decrementKids, find, ih]
    split <;> simp

theorem find_mem {c : α} {ks : List (α × Node α)} {n : Node α} (h : find c ks = some n) : (c, n) ∈ ks := by
  induction ks with
  | nil => simp [find] at h
  | cons p r ih =>
    obtain ⟨k, m⟩ := p
    simp only [find] at h
    split at h
    · rename_i hk; simp at h; subst h; subst hk; simp
    · exact List.mem_cons_of_mem _ (ih h)

theorem find_isSome_iff {c : α} {ks : List (α × Node α)} : (find c ks).isSome ↔ c ∈ ks.map (·.1) := by
  induction ks with
  | nil => simp [find]
  | cons p r ih =>
    obtain ⟨k, m⟩ := p
    simp only [find, List.map_cons, List.mem_cons]
    split
    · simp_all
    · rename_i hne
      rw [ih]
      constructor
      · exact Or.inr
      · rintro (h | h)
        · exact absurd h hne
        · exact h

/-! ### predicates that hold at every node -/

mutual
/-- `P` holds of the child map of `n` and of every node below it -/
def AllN (P : List (α × Node α) → Prop) : Node α → Prop
  | mk _ ks => P ks ∧ AllKids P ks
def AllKids (P : List (α × Node α) → Prop) : List (α × Node α) → Prop
  | [] => True
  | (_, n) :: r => AllN P n ∧ AllKids P r
end

theorem allKids_iff {P : List (α × Node α) → Prop} {ks : List (α × Node α)} :
    AllKids P ks ↔ ∀ p ∈ ks, AllN P p.2 := by
  induction ks with
  | nil => simp [AllKids]
  | cons p r ih =>
    obtain ⟨c, n⟩ := p
    simp only [AllKids, ih, List.mem_cons, forall_eq_or_imp]

theorem allN_mk {P : List (α × Node α) → Prop} {v : Option Nat} {ks : List (α × Node α)} :
    AllN P (mk v ks) ↔ P ks ∧ ∀ p ∈ ks, AllN P p.2 := by
  simp only [AllN, allKids_iff]

theorem allN_empty {P : List (α × Node α) → Prop} (h : P []) : AllN P (Node.empty : Node α) := by
  simp [Node.empty, AllN, AllKids, h]

theorem allN_find {P : List (α × Node α) → Prop} {v : Option Nat} {ks : List (α × Node α)} {c : α} {ch : Node α}
    (h : AllN P (mk v ks)) (hf : find c ks = some ch) : AllN P ch :=
  (allN_mk.mp h).2 (c, ch) (find_mem hf)

/-- every child map is sorted -/
abbrev Sorted (n : Node α) : Prop := AllN KeysLt n

theorem sorted_mk {v : Option Nat} {ks : List (α × Node α)} :
    Sorted (mk v ks) ↔ KeysLt ks ∧ ∀ p ∈ ks, Sorted p.2 := allN_mk

theorem keysLt_nil : KeysLt ([] : List (α × Node α)) := by simp [KeysLt]

/-! ### `addN` -/

theorem lookupN_addN [TotalLT α] (k k' : List α) (i : Nat) (n : Node α) (hs : Sorted n) :
    lookupN k' (addN k i n) = if k' = k then some i else lookupN k' n := by
  induction k generalizing k' n with
  | nil =>
    obtain ⟨v, ks⟩ := n
    cases k' with
    | nil => simp [addN]
    | cons c' cs' => simp [addN, lookupN_cons]
  | cons c cs ih =>
    obtain ⟨v, ks⟩ := n
    cases k' with
    | nil => simp [addN]
    | cons c' cs' =>
      simp only [addN, lookupN_cons, kids_mk, find_upsert _ _ _ _ (allN_mk.mp hs).1]
      by_cases h : c' = c
      · subst h
        simp only [if_true, Option.bind_some]
        cases hf : find c' ks with
        | none =>
          simp only [Option.getD_none, Option.bind_none]
          rw [ih _ _ (allN_empty keysLt_nil)]
          by_cases h2 : cs' = cs
          · simp [h2]
          · simp [h2, lookupN_empty]
        | some ch =>
          simp only [Option.getD_some, Option.bind_some]
          rw [ih _ _ (allN_find hs hf)]
          by_cases h2 : cs' = cs
          · simp [h2]
          · simp [h2]
      · simp [h]

/-! ### `nestedRemove` -/

/-- a node without value and without children (what `nestedRemove` calls an empty tree) -/
def Dead (n : Node α) : Prop := n.val = none ∧ n.kids = []

instance (n : Node α) : Decidable (Dead n) := by unfold Dead; exact inferInstance

theorem lookupN_dead {n : Node α} (h : Dead n) (k : List α) : lookupN k n = none := by
  obtain ⟨v, ks⟩ := n
  obtain ⟨h1, h2⟩ := h
  simp at h1 h2; subst h1; subst h2
  cases k <;> simp [lookupN, find]

theorem nestedRemove_flag (c : α) (cs : List α) (n : Node α) :
    (nestedRemove c cs n).2 = true → Dead (nestedRemove c cs n).1 := by
  obtain ⟨v, ks⟩ := n
  cases cs with
  | nil =>
    simp only [nestedRemove]
    cases find c ks with
    | none => simp
    | some leaf =>
      simp only [Dead, val_mk, kids_mk, Bool.and_eq_true, Option.isNone_iff_eq_none, List.isEmpty_iff]
      exact id
  | cons c2 cs2 =>
    simp only [nestedRemove]
    cases find c ks with
    | none => simp
    | some leaf =>
      simp only [Dead, val_mk, kids_mk, Bool.and_eq_true, Option.isNone_iff_eq_none, List.isEmpty_iff]
      exact id

theorem lookupN_nestedRemove (c : α) (cs k' : List α) (n : Node α) :
    lookupN k' (nestedRemove c cs n).1 = if k' = c :: cs then none else lookupN k' n := by
  induction cs generalizing c k' n with
  | nil =>
    obtain ⟨v, ks⟩ := n
    simp only [nestedRemove]
    cases hf : find c ks with
    | none =>
      simp only []
      split
      · rename_i h; subst h; simp [lookupN_cons, hf]
      · rfl
    | some leaf =>
      simp only []
      cases k' with
      | nil => simp
      | cons c' cs' =>
        simp only [lookupN_cons, kids_mk, List.cons.injEq]
        by_cases hc : c' = c
        · subst hc
          simp only [true_and, hf, Option.bind_some]
          by_cases hk : leaf.kids.isEmpty
          · rw [if_pos hk]
            simp only [if_true, find_eraseKey, Option.bind_none]
            cases cs' with
            | nil => simp
            | cons d ds =>
              obtain ⟨lv, lks⟩ := leaf
              simp at hk; subst hk
              simp [lookupN_no_kids]
          · rw [if_neg hk]
            simp only [find_replaceKey, hf, if_true, Option.map_some, Option.bind_some]
            cases cs' with
            | nil => simp
            | cons d ds => simp [lookupN_cons]
        · simp only [hc, false_and, if_false]
          by_cases hk : leaf.kids.isEmpty
          · rw [if_pos hk]; simp [find_eraseKey, hc]
          · rw [if_neg hk]; simp [find_replaceKey, hc]
  | cons c2 cs2 ih =>
    obtain ⟨v, ks⟩ := n
    simp only [nestedRemove]
    cases hf : find c ks with
    | none =>
      simp only []
      split
      · rename_i h; subst h; simp [lookupN_cons, hf]
      · rfl
    | some leaf =>
      simp only []
      cases k' with
      | nil => simp
      | cons c' cs' =>
        simp only [lookupN_cons, kids_mk, List.cons.injEq]
        have hih := ih c2 cs' leaf
        have hflag := nestedRemove_flag c2 cs2 leaf
        by_cases hc : c' = c
        · subst hc
          simp only [true_and, hf, Option.bind_some]
          cases hr : nestedRemove c2 cs2 leaf with
          | mk leaf' e =>
            rw [hr] at hih hflag
            simp only at hih hflag
            cases e with
            | true =>
              simp only [if_true, find_eraseKey, Option.bind_none]
              rw [lookupN_dead (hflag rfl)] at hih
              exact hih
            | false =>
              simp only [Bool.false_eq_true, if_false, find_replaceKey, hf, if_true, Option.map_some,
                Option.bind_some]
              exact hih
        · simp only [hc, false_and, if_false]
          cases hr : nestedRemove c2 cs2 leaf with
          | mk leaf' e =>
            cases e with
            | true => simp [find_eraseKey, hc]
            | false => simp [find_replaceKey, hc]

/-! ### `decrementIndex`, `removeN` -/

theorem decrementIndex_mk (vi : Nat) (v : Option Nat) (ks : List (α × Node α)) :
    decrementIndex vi (mk v ks) = mk (v.map (decIdx vi)) (decrementKids vi ks) := by
  rw [decrementIndex]; rfl

theorem lookupN_decrementIndex (vi : Nat) (k : List α) (n : Node α) :
    lookupN k (decrementIndex vi n) = (lookupN k n).map (decIdx vi) := by
  induction k generalizing n with
  | nil => obtain ⟨v, ks⟩ := n; simp [decrementIndex_mk]
  | cons c cs ih =>
    obtain ⟨v, ks⟩ := n
    simp only [decrementIndex_mk, lookupN_cons, kids_mk, find_decrementKids]
    cases find c ks with
    | none => simp
    | some ch => simp [ih]

theorem lookupN_removeN (k k' : List α) (vi : Nat) (n : Node α) :
    lookupN k' (removeN k vi n) = if k' = k then none else (lookupN k' n).map (decIdx vi) := by
  unfold removeN
  rw [lookupN_decrementIndex]
  cases k with
  | nil =>
    simp only []
    cases k' with
    | nil => simp
    | cons c' cs' => simp [lookupN_cons]
  | cons c cs =>
    simp only [lookupN_nestedRemove]
    split <;> simp

/-! ### `getN` computes the longest prefix on which `lookupN` is defined -/

/-- the longest prefix of `q` stored below `n`, as (length, value index) -/
def best (n : Node α) (q : List α) : Option (Nat × Nat) := longestBy (fun k => lookupN k n) q

theorem longestBy_none (q : List α) : longestBy (fun _ => (none : Option Nat)) q = none := by
  induction q with
  | nil => simp [longestBy]
  | cons c cs ih => simp [longestBy, ih]

theorem best_nil (n : Node α) : best n [] = n.val.map fun i => (0, i) := by
  simp [best, longestBy]

theorem best_cons (v : Option Nat) (ks : List (α × Node α)) (c : α) (cs : List α) :
    best (mk v ks) (c :: cs) =
      match (find c ks).bind (fun ch => best ch cs) with
      | some (m, i) => some (m + 1, i)
      | none => v.map fun i => (0, i) := by
  simp only [best, longestBy, lookupN_nil, val_mk]
  cases hf : find c ks with
  | none =>
    have : (fun k => lookupN (c :: k) (mk v ks)) = fun _ => none := by
      funext k; simp [lookupN_cons, hf]
    rw [this, longestBy_none]; simp only [Option.bind_none]
  | some ch =>
    have : (fun k => lookupN (c :: k) (mk v ks)) = fun k => lookupN k ch := by
      funext k; simp [lookupN_cons, hf]
    rw [this]; simp only [Option.bind_some]
    cases longestBy (fun k => lookupN k ch) cs with
    | none => rfl
    | some r => obtain ⟨m, b⟩ := r; rfl

/-- a `result_t` of `trieNode::get` as an optional (length, index) -/
def norm (r : Nat × Option Nat) : Option (Nat × Nat) := r.2.map fun i => (r.1, i)

theorem norm_getN (q : List α) (p : Nat) (n : Node α) :
    norm (getN q p n) = (best n q).map fun r => (p + r.1, r.2) := by
  induction q generalizing p n with
  | nil =>
    obtain ⟨v, ks⟩ := n
    simp only [getN, norm, best_nil, val_mk]
    cases v <;> simp
  | cons c cs ih =>
    obtain ⟨v, ks⟩ := n
    rw [best_cons]
    simp only [getN]
    cases hf : find c ks with
    | none => simp only [Option.bind_none, norm]; cases v <;> simp
    | some ch =>
      simp only [Option.bind_some]
      have h := ih (p + 1) ch
      cases hb : best ch cs with
      | none =>
        rw [hb] at h
        simp only [Option.map_none, norm, Option.map_eq_none_iff] at h
        simp only [h, Option.isNone_none, Bool.true_and]
        cases v with
        | none => simp [norm, h]
        | some i => simp [norm]
      | some r =>
        obtain ⟨m, i⟩ := r
        rw [hb] at h
        simp only [Option.map_some, norm, Option.map_eq_some_iff] at h
        obtain ⟨j, hj, hj2⟩ := h
        simp only [hj, Option.isNone_some, Bool.false_and]
        simp only [Prod.mk.injEq] at hj2
        simp only [norm, hj, Option.map_some, Bool.false_eq_true, if_false]
        rw [hj2.1, hj2.2]
        congr 2
        omega

theorem best_some_iff (n : Node α) (q : List α) (m i : Nat) :
    best n q = some (m, i) ↔
      m ≤ q.length ∧ lookupN (q.take m) n = some i ∧ ∀ m', m < m' → m' ≤ q.length → lookupN (q.take m') n = none := by
  unfold best
  rw [← longestTake_eq_longestBy, longestTake_some_iff]

theorem best_none_iff (n : Node α) (q : List α) :
    best n q = none ↔ ∀ m, m ≤ q.length → lookupN (q.take m) n = none := by
  unfold best
  rw [← longestTake_eq_longestBy, longestTake_none_iff]

/-- `getValueIndex` is the exact lookup -/
theorem getValueIndex_eq (c : List α) (n : Node α) : getValueIndex c n = lookupN c n := by
  unfold getValueIndex
  have h := norm_getN c 0 n
  cases hb : best n c with
  | none =>
    rw [hb] at h
    simp only [Option.map_none, norm, Option.map_eq_none_iff] at h
    have := (best_none_iff n c).mp hb c.length (Nat.le_refl _)
    simp only [List.take_length] at this
    simp [h, this]
  | some r =>
    obtain ⟨m, i⟩ := r
    rw [hb] at h
    simp only [Option.map_some, norm, Option.map_eq_some_iff, Prod.mk.injEq] at h
    obtain ⟨j, hj, hj1, hj2⟩ := h
    obtain ⟨hm, hl, hmax⟩ := (best_some_iff n c m i).mp hb
    simp only [hj1, Nat.zero_add, hj]
    by_cases e : m = c.length
    · subst e; simp only [List.take_length] at hl; simp [hl, hj2]
    · have := hmax c.length (by omega) (Nat.le_refl _)
      simp only [List.take_length] at this
      simp [e, this]

/-- `trieGetLongest` in terms of `best` -/
theorem trieGetLongest_eq (root : Node α) (q : List α) :
    trieGetLongest root q = match best root q with
      | some (m, i) => ⟨m, some i⟩
      | none => Result.fail := by
  unfold trieGetLongest
  have h := norm_getN q 0 root
  cases hb : best root q with
  | none =>
    rw [hb] at h
    simp only [Option.map_none, norm, Option.map_eq_none_iff] at h
    simp [h]
  | some r =>
    obtain ⟨m, i⟩ := r
    rw [hb] at h
    simp only [Option.map_some, norm, Option.map_eq_some_iff, Prod.mk.injEq] at h
    obtain ⟨j, hj, hj1, hj2⟩ := h
    simp [hj, hj1, hj2]

/-! ### well-formedness: sorted child maps, no dead child -/

/-- per child map: keys strictly increasing and no child is an empty tree -/
def Good (ks : List (α × Node α)) : Prop := KeysLt ks ∧ ∀ p ∈ ks, ¬ Dead p.2

/-- the structural invariant of a trie node -/
abbrev WF (n : Node α) : Prop := AllN Good n

theorem allN_mono {P Q : List (α × Node α) → Prop} (h : ∀ ks, P ks → Q ks) (n : Node α) :
    AllN P n → AllN Q n := by
  induction n using Node.induct_node with
  | h v ks ih =>
    intro hp
    rw [allN_mk] at hp ⊢
    exact ⟨h ks hp.1, fun p hpm => ih p hpm (hp.2 p hpm)⟩

theorem WF.sorted {n : Node α} (h : WF n) : Sorted n := allN_mono (fun _ h => h.1) n h

theorem good_nil : Good ([] : List (α × Node α)) := ⟨keysLt_nil, by simp⟩

theorem wf_empty : WF (Node.empty : Node α) := allN_empty good_nil

theorem wf_mk {v : Option Nat} {ks : List (α × Node α)} :
    WF (mk v ks) ↔ Good ks ∧ ∀ p ∈ ks, WF p.2 := allN_mk

theorem not_dead_of_flag {v : Option Nat} {ks : List (α × Node α)} (h : (v.isNone && ks.isEmpty) = false) :
    ¬ Dead (mk v ks) := by
  intro hd
  simp only [Dead, val_mk, kids_mk] at hd
  simp [hd.1, hd.2] at h

theorem wf_same_kids {v v' : Option Nat} {ks : List (α × Node α)} (h : WF (mk v ks)) : WF (mk v' ks) := by
  rw [wf_mk] at h ⊢; exact h

theorem mem_upsert {c : α} {f : Node α → Node α} {ks : List (α × Node α)} {p : α × Node α}
    (h : p ∈ upsert c f ks) :
    p ∈ ks ∨ ∃ X, (X = Node.empty ∨ (c, X) ∈ ks) ∧ p = (c, f X) := by
  induction ks with
  | nil => simp only [upsert, List.mem_singleton] at h; exact Or.inr ⟨_, Or.inl rfl, h⟩
  | cons e r ih =>
    obtain ⟨k, n⟩ := e
    simp only [upsert] at h
    split at h
    · rename_i hk; subst hk
      simp only [List.mem_cons] at h
      rcases h with h | h
      · exact Or.inr ⟨n, Or.inr (by simp), h⟩
      · exact Or.inl (by simp [h])
    · split at h
      · simp only [List.mem_cons] at h
        rcases h with h | h | h
        · exact Or.inr ⟨_, Or.inl rfl, h⟩
        · exact Or.inl (by simp [h])
        · exact Or.inl (by simp [h])
      · simp only [List.mem_cons] at h
        rcases h with h | h
        · exact Or.inl (by simp [h])
        · rcases ih h with h' | ⟨X, hX, hp⟩
          · exact Or.inl (by simp [h'])
          · refine Or.inr ⟨X, ?_, hp⟩
            rcases hX with hX | hX
            · exact Or.inl hX
            · exact Or.inr (by simp [hX])

theorem keysLt_upsert [TotalLT α] {c : α} {f : Node α → Node α} {ks : List (α × Node α)} (hs : KeysLt ks) :
    KeysLt (upsert c f ks) := by
  induction ks with
  | nil => simp [upsert, KeysLt]
  | cons e r ih =>
    obtain ⟨k, n⟩ := e
    simp only [upsert]
    split
    · rename_i hk; subst hk; exact hs
    · rename_i hne
      split
      · rename_i hlt
        unfold KeysLt at hs ⊢
        simp only [List.map_cons, List.pairwise_cons] at hs ⊢
        refine ⟨?_, hs⟩
        intro a ha
        simp only [List.mem_cons] at ha
        rcases ha with rfl | ha
        · exact hlt
        · exact TotalLT.trans hlt (hs.1 a ha)
      · rename_i hnlt
        have hkc : k < c := by
          rcases TotalLT.tri c k with h | h | h
          · exact absurd h hnlt
          · exact absurd h hne
          · exact h
        have ih' := ih hs.tail
        unfold KeysLt at hs ih' ⊢
        simp only [List.map_cons, List.pairwise_cons] at hs ⊢
        refine ⟨?_, ih'⟩
        intro a ha
        simp only [List.mem_map] at ha
        obtain ⟨p, hp, rfl⟩ := ha
        rcases mem_upsert hp with h | ⟨X, _, h⟩
        · exact hs.1 _ (List.mem_map_of_mem h)
        · subst h; exact hkc

theorem addN_not_dead (k : List α) (i : Nat) (n : Node α) : ¬ Dead (addN k i n) := by
  obtain ⟨v, ks⟩ := n
  cases k with
  | nil => simp [addN, Dead]
  | cons c cs =>
    simp only [addN, Dead, val_mk, kids_mk, not_and]
    intro _ h
    cases ks with
    | nil => simp [upsert] at h
    | cons e r =>
      obtain ⟨k, m⟩ := e
      simp only [upsert] at h
      split at h
      · simp at h
      · split at h <;> simp at h

theorem wf_addN [TotalLT α] (k : List α) (i : Nat) (n : Node α) (h : WF n) : WF (addN k i n) := by
  induction k generalizing n with
  | nil => obtain ⟨v, ks⟩ := n; simp only [addN]; exact wf_same_kids h
  | cons c cs ih =>
    obtain ⟨v, ks⟩ := n
    simp only [addN]
    rw [wf_mk] at h ⊢
    obtain ⟨⟨hlt, hnd⟩, hkids⟩ := h
    refine ⟨⟨keysLt_upsert hlt, ?_⟩, ?_⟩
    · intro p hp
      rcases mem_upsert hp with h | ⟨X, _, h⟩
      · exact hnd p h
      · subst h; exact addN_not_dead _ _ _
    · intro p hp
      rcases mem_upsert hp with h | ⟨X, hX, h⟩
      · exact hkids p h
      · subst h
        apply ih
        rcases hX with hX | hX
        · subst hX; exact wf_empty
        · exact hkids _ hX

theorem mem_replaceKey {c : α} {n : Node α} {ks : List (α × Node α)} {p : α × Node α}
    (h : p ∈ replaceKey c n ks) : p ∈ ks ∨ p = (c, n) := by
  induction ks with
  | nil => simp [replaceKey] at h
  | cons e r ih =>
    obtain ⟨k, m⟩ := e
    simp only [replaceKey] at h
    split at h
    · rename_i hk; subst hk
      simp only [List.mem_cons] at h
      rcases h with h | h
      · exact Or.inr h
      · exact Or.inl (by simp [h])
    · simp only [List.mem_cons] at h
      rcases h with h | h
      · exact Or.inl (by simp [h])
      · rcases ih h with h' | h'
        · exact Or.inl (by simp [h'])
        · exact Or.inr h'

theorem keys_replaceKey (c : α) (n : Node α) (ks : List (α × Node α)) :
    (replaceKey c n ks).map (·.1) = ks.map (·.1) := by
  induction ks with
  | nil => rfl
  | cons e r ih =>
    obtain ⟨k, m⟩ := e
    simp only [replaceKey]
    split
    · simp
    · simp [ih]

theorem keysLt_replaceKey {c : α} {n : Node α} {ks : List (α × Node α)} (h : KeysLt ks) :
    KeysLt (replaceKey c n ks) := by
  unfold KeysLt at *; rw [keys_replaceKey]; exact h

theorem keysLt_eraseKey {c : α} {ks : List (α × Node α)} (h : KeysLt ks) : KeysLt (eraseKey c ks) := by
  unfold KeysLt eraseKey at *
  exact List.Pairwise.sublist ((List.filter_sublist).map _) h

theorem mem_eraseKey {c : α} {ks : List (α × Node α)} {p : α × Node α} (h : p ∈ eraseKey c ks) : p ∈ ks := by
  unfold eraseKey at h; exact (List.mem_filter.mp h).1

theorem good_eraseKey {c : α} {ks : List (α × Node α)} (h : Good ks) : Good (eraseKey c ks) :=
  ⟨keysLt_eraseKey h.1, fun p hp => h.2 p (mem_eraseKey hp)⟩

theorem good_replaceKey {c : α} {n : Node α} {ks : List (α × Node α)} (h : Good ks) (hn : ¬ Dead n) :
    Good (replaceKey c n ks) :=
  ⟨keysLt_replaceKey h.1, fun p hp => by
    rcases mem_replaceKey hp with h' | h'
    · exact h.2 p h'
    · subst h'; exact hn⟩

theorem nestedRemove_not_dead (c : α) (cs : List α) (n : Node α) (hn : ¬ Dead n)
    (hf : (nestedRemove c cs n).2 = false) : ¬ Dead (nestedRemove c cs n).1 := by
  obtain ⟨v, ks⟩ := n
  cases cs with
  | nil =>
    simp only [nestedRemove] at hf ⊢
    cases hfind : find c ks with
    | none => simpa [hfind] using hn
    | some leaf =>
      simp only [hfind] at hf ⊢
      exact not_dead_of_flag hf
  | cons c2 cs2 =>
    simp only [nestedRemove] at hf ⊢
    cases hfind : find c ks with
    | none => simpa [hfind] using hn
    | some leaf =>
      simp only [hfind] at hf ⊢
      exact not_dead_of_flag hf

theorem wf_nestedRemove (c : α) (cs : List α) (n : Node α) (h : WF n) : WF (nestedRemove c cs n).1 := by
  induction cs generalizing c n with
  | nil =>
    obtain ⟨v, ks⟩ := n
    simp only [nestedRemove]
    cases hfind : find c ks with
    | none => exact h
    | some leaf =>
      simp only []
      rw [wf_mk] at h ⊢
      obtain ⟨hg, hkids⟩ := h
      have hleaf := hkids _ (find_mem hfind)
      by_cases hk : leaf.kids.isEmpty
      · rw [if_pos hk]
        exact ⟨good_eraseKey hg, fun p hp => hkids p (mem_eraseKey hp)⟩
      · rw [if_neg hk]
        refine ⟨good_replaceKey hg ?_, ?_⟩
        · simp only [Dead, val_mk, kids_mk, true_and]
          intro e; rw [e] at hk; simp at hk
        · intro p hp
          rcases mem_replaceKey hp with h' | h'
          · exact hkids p h'
          · subst h'
            simp only at hleaf ⊢
            rw [Node.eta leaf] at hleaf
            exact wf_same_kids hleaf
  | cons c2 cs2 ih =>
    obtain ⟨v, ks⟩ := n
    simp only [nestedRemove]
    cases hfind : find c ks with
    | none => exact h
    | some leaf =>
      simp only []
      rw [wf_mk] at h ⊢
      obtain ⟨hg, hkids⟩ := h
      have hleaf := hkids _ (find_mem hfind)
      have hnd := hg.2 _ (find_mem hfind)
      have hwf := ih c2 leaf hleaf
      have hdead := nestedRemove_not_dead c2 cs2 leaf hnd
      cases hr : nestedRemove c2 cs2 leaf with
      | mk leaf' e =>
        rw [hr] at hwf hdead
        cases e with
        | true =>
          simp only [if_true]
          exact ⟨good_eraseKey hg, fun p hp => hkids p (mem_eraseKey hp)⟩
        | false =>
          simp only [Bool.false_eq_true, if_false]
          refine ⟨good_replaceKey hg (hdead rfl), ?_⟩
          intro p hp
          rcases mem_replaceKey hp with h' | h'
          · exact hkids p h'
          · subst h'; exact hwf

theorem keys_decrementKids (vi : Nat) (ks : List (α × Node α)) :
    (decrementKids vi ks).map (·.1) = ks.map (·.1) := by
  induction ks with
  | nil => rfl
  | cons e r ih => obtain ⟨k, m⟩ := e; simp [decrementKids, ih]

theorem mem_decrementKids {vi : Nat} {ks : List (α × Node α)} {p : α × Node α} (h : p ∈ decrementKids vi ks) :
    ∃ q ∈ ks, p = (q.1, decrementIndex vi q.2) := by
  induction ks with
  | nil => simp [decrementKids] at h
  | cons e r ih =>
    obtain ⟨k, m⟩ := e
    simp only [decrementKids, List.mem_cons] at h
    rcases h with h | h
    · exact ⟨(k, m), by simp, h⟩
    · obtain ⟨q, hq, hp⟩ := ih h
      exact ⟨q, by simp [hq], hp⟩

theorem dead_decrementIndex (vi : Nat) (n : Node α) : Dead (decrementIndex vi n) ↔ Dead n := by
  obtain ⟨v, ks⟩ := n
  simp only [decrementIndex_mk, Dead, val_mk, kids_mk, Option.map_eq_none_iff]
  cases ks with
  | nil => simp [decrementKids]
  | cons e r => obtain ⟨k, m⟩ := e; simp [decrementKids]

theorem wf_decrementIndex (vi : Nat) (n : Node α) : WF n → WF (decrementIndex vi n) := by
  induction n using Node.induct_node with
  | h v ks ih =>
    intro h
    rw [decrementIndex_mk]
    rw [wf_mk] at h ⊢
    obtain ⟨hg, hkids⟩ := h
    refine ⟨⟨?_, ?_⟩, ?_⟩
    · unfold KeysLt; rw [keys_decrementKids]; exact hg.1
    · intro p hp
      obtain ⟨q, hq, rfl⟩ := mem_decrementKids hp
      simp only [dead_decrementIndex]
      exact hg.2 q hq
    · intro p hp
      obtain ⟨q, hq, rfl⟩ := mem_decrementKids hp
      exact ih q hq (hkids q hq)

theorem wf_removeN (k : List α) (vi : Nat) (n : Node α) (h : WF n) : WF (removeN k vi n) := by
  unfold removeN
  apply wf_decrementIndex
  cases k with
  | nil => simp only []; rw [Node.eta n] at h; exact wf_same_kids h
  | cons c cs => exact wf_nestedRemove c cs n h

/-! ### the stored keys of a node, and `size()` -/

mutual
/-- all keys below `n` that hold a value (depth first) -/
def keysN : Node α → List (List α)
  | mk v ks => (if v.isSome then [[]] else []) ++ keysKids ks
def keysKids : List (α × Node α) → List (List α)
  | [] => []
  | (c, n) :: r => (keysN n).map (c :: ·) ++ keysKids r
end

mutual
theorem sizeN_eq : ∀ n : Node α, sizeN n = (keysN n).length
  | mk v ks => by
    rw [sizeN, keysN, List.length_append, sizeKids_eq ks]
    cases v <;> simp
theorem sizeKids_eq : ∀ ks : List (α × Node α), sizeKids ks = (keysKids ks).length
  | [] => by simp [sizeKids, keysKids]
  | (c, n) :: r => by
    rw [sizeKids, keysKids, List.length_append, List.length_map, sizeN_eq n, sizeKids_eq r]
end

theorem mem_keysKids {k : List α} {ks : List (α × Node α)} :
    k ∈ keysKids ks ↔ ∃ p ∈ ks, ∃ k', k = p.1 :: k' ∧ k' ∈ keysN p.2 := by
  induction ks with
  | nil => simp [keysKids]
  | cons e r ih =>
    obtain ⟨c, n⟩ := e
    simp only [keysKids, List.mem_append, List.mem_map, ih, List.mem_cons, exists_eq_or_imp]
    constructor
    · rintro (⟨k', hk', rfl⟩ | h)
      · exact Or.inl ⟨k', rfl, hk'⟩
      · exact Or.inr h
    · rintro (⟨k', rfl, hk'⟩ | h)
      · exact Or.inl ⟨k', hk', rfl⟩
      · exact Or.inr h

theorem find_eq_some_iff [TotalLT α] {c : α} {n : Node α} {ks : List (α × Node α)} (hs : KeysLt ks) :
    find c ks = some n ↔ (c, n) ∈ ks := by
  constructor
  · exact find_mem
  · intro h
    induction ks with
    | nil => simp at h
    | cons e r ih =>
      obtain ⟨k, m⟩ := e
      simp only [List.mem_cons, Prod.mk.injEq] at h
      simp only [find]
      rcases h with ⟨rfl, rfl⟩ | h
      · simp
      · have hlt := hs.head_lt _ h
        simp only at hlt
        have : ¬ c = k := fun e => TotalLT.irrefl k (e ▸ hlt)
        simp only [this, if_false]
        exact ih hs.tail h

theorem mem_keysN [TotalLT α] (n : Node α) (hs : Sorted n) (k : List α) :
    k ∈ keysN n ↔ (lookupN k n).isSome := by
  induction n using Node.induct_node generalizing k with
  | h v ks ih =>
    rw [sorted_mk] at hs
    rw [keysN, List.mem_append, mem_keysKids]
    cases k with
    | nil =>
      simp only [lookupN_nil, val_mk]
      constructor
      · rintro (h | ⟨p, _, k', h, _⟩)
        · cases v <;> simp_all
        · simp at h
      · intro h; left; simp [h]
    | cons c cs =>
      simp only [lookupN_cons, kids_mk]
      constructor
      · rintro (h | ⟨p, hp, k', h, hk'⟩)
        · cases v <;> simp at h
        · simp only [List.cons.injEq] at h
          obtain ⟨rfl, rfl⟩ := h
          have hf : find p.1 ks = some p.2 := (find_eq_some_iff hs.1).mpr hp
          rw [hf]
          simp only [Option.bind_some]
          exact (ih p hp (hs.2 p hp) cs).mp hk'
      · intro h
        right
        cases hf : find c ks with
        | none => simp [hf] at h
        | some ch =>
          rw [hf] at h
          simp only [Option.bind_some] at h
          have hm := find_mem hf
          exact ⟨(c, ch), hm, cs, rfl, (ih _ hm (hs.2 _ hm) cs).mpr h⟩

theorem nodup_keysKids [TotalLT α] (ks : List (α × Node α)) (hlt : KeysLt ks)
    (h : ∀ p ∈ ks, (keysN p.2).Nodup) : (keysKids ks).Nodup := by
  induction ks with
  | nil => simp [keysKids]
  | cons e r ih =>
    obtain ⟨c, n⟩ := e
    rw [keysKids, List.nodup_append]
    refine ⟨?_, ih hlt.tail (fun p hp => h p (by simp [hp])), ?_⟩
    · have := h (c, n) (by simp)
      simp only at this
      rw [List.nodup_iff_pairwise_ne] at this ⊢
      rw [List.pairwise_map]
      exact this.imp (fun hab e => hab (List.cons.inj e).2)
    · intro a ha b hb e
      subst e
      simp only [List.mem_map] at ha
      obtain ⟨k', _, rfl⟩ := ha
      rw [mem_keysKids] at hb
      obtain ⟨p, hp, k'', h2, _⟩ := hb
      simp only [List.cons.injEq] at h2
      have := hlt.head_lt p hp
      simp only at this
      rw [← h2.1] at this
      exact TotalLT.irrefl c this

theorem nodup_keysN [TotalLT α] (n : Node α) (hs : Sorted n) : (keysN n).Nodup := by
  induction n using Node.induct_node with
  | h v ks ih =>
    rw [sorted_mk] at hs
    rw [keysN, List.nodup_append]
    refine ⟨by cases v <;> simp, nodup_keysKids ks hs.1 (fun p hp => ih p hp (hs.2 p hp)), ?_⟩
    intro a ha b hb e
    subst e
    have : a = [] := by cases v <;> simp_all
    subst this
    rw [mem_keysKids] at hb
    obtain ⟨p, _, k', h, _⟩ := hb
    simp at h

/-- `size()` of a node: the number of keys on which `lookupN` is defined, counted through any
    duplicate-free enumeration `l` of those keys -/
theorem sizeN_eq_length [TotalLT α] (n : Node α) (hs : Sorted n) (l : List (List α)) (hl : l.Nodup)
    (h : ∀ k, k ∈ l ↔ (lookupN k n).isSome) : sizeN n = l.length := by
  rw [sizeN_eq]
  apply Nat.le_antisymm
  · exact List.Nodup.length_le_of_subset (nodup_keysN n hs) (fun k hk => (h k).mpr ((mem_keysN n hs k).mp hk))
  · exact List.Nodup.length_le_of_subset hl (fun k hk => (mem_keysN n hs k).mpr ((h k).mp hk))

/-- a node that is not dead stores at least one key (given no dead node below it) -/
theorem exists_key_of_not_dead (n : Node α) (h : WF n) (hn : ¬ Dead n) : ∃ k, (lookupN k n).isSome := by
  induction n using Node.induct_node with
  | h v ks ih =>
    rw [wf_mk] at h
    cases v with
    | some i => exact ⟨[], by simp⟩
    | none =>
      cases ks with
      | nil => exact absurd ⟨rfl, rfl⟩ hn
      | cons e r =>
        obtain ⟨c, ch⟩ := e
        have hm : (c, ch) ∈ (c, ch) :: r := by simp
        obtain ⟨k, hk⟩ := ih _ hm (h.2 _ hm) (h.1.2 _ hm)
        exact ⟨c :: k, by simp [lookupN_cons, find, hk]⟩

end Occa.Trie
