/-
Facts about the generated operator table that the parser proofs use (all finite, checked by the
kernel on the table as it is generated from lang/operator.cpp NOW), and the code-shape switches.
-/
import OccaModel.ExprShape

namespace Occa.Expr
open Occa.Gen

/-! ### the repaired code is what is modelled (these fail to check on an unrepaired tree) -/
@[simp] theorem flag_ternary : ternaryMode = 2 := by decide
@[simp] theorem flag_castEnd : castEndIsPrefix = true := by decide
@[simp] theorem flag_pairEnd : pairEndEndsOperand = true := by decide
@[simp] theorem flag_operand : operandThenBinary = true := by decide

theorem mem_all (o : Op) : o ∈ Op.all := by cases o <;> decide

theorem forall_op {P : Op → Prop} (h : ∀ o ∈ Op.all, P o) (o : Op) : P o := h o (mem_all o)

/-- kinds of operators as the parser's tests see them -/
def isBin (o : Op) : Bool := has o.ty T.binary
def isLU (o : Op) : Bool := has o.ty T.leftUnary
def isRU (o : Op) : Bool := has o.ty T.rightUnary
def isPS (o : Op) : Bool := has o.ty T.pairStart
def isPE (o : Op) : Bool := has o.ty T.pairEnd
def isQ (o : Op) : Bool := o.ty == T.questionMark
def isC (o : Op) : Bool := o.ty == T.colon

theorem has_q_eq : ∀ o : Op, has o.ty T.questionMark = (o.ty == T.questionMark) :=
  forall_op (by decide +kernel)
theorem has_c_eq : ∀ o : Op, has o.ty T.colon = (o.ty == T.colon) :=
  forall_op (by decide +kernel)

/-- the tests of `applyOperator` are mutually exclusive on resolved operators -/
theorem bin_excl : ∀ o : Op, has o.ty T.binary = true →
    has o.ty T.pairStart = false ∧ has o.ty T.pairEnd = false ∧ (o.ty == T.questionMark) = false ∧
    (o.ty == T.colon) = false ∧ has o.ty T.rightUnary = false := by
  intro o; revert o; exact forall_op (by decide +kernel)

theorem bin_or_amb : ∀ o : Op, has o.ty T.binary = true → has o.ty T.leftUnary = true → has o.ty T.ambiguous = true := by
  intro o; revert o; exact forall_op (by decide +kernel)

end Occa.Expr
