/-
The reader's side of "printing adds no parentheses": the stratified C/C++ expression grammar, as an
inductive derivation relation over tokens, and the theorem that the token sequence printed for a
`Grouped` tree is derivable *as that tree*.

`Derives p ts e`: the tokens `ts` form an expression whose top-level construct has precedence number
≤ p (cppreference numbering as in operator.cpp: 0 primary, 2 postfix, 3 prefix unary / cast, 5 `* / %`,
6 `+ -`, 7 shifts, 9 relational, 10 equality, 11 `&`, 12 `^`, 13 `|`, 14 `&&`, 15 `||`, 16 `?:`) and the
grammar's parse tree is `e`.  Every binary operator is left-associative: `E_q → E_q op E_{q-1}`;
`?:` is `E_15 ? E_16 : E_16`.  (Unambiguity of this grammar — a text has at most one tree — is the
standard property of the C expression grammar and is not re-proved here.)
-/
import OccaProofs.Lemmas.ExprGroup

namespace Occa.LoopExpr

inductive Tok
  | id (n : String)
  | num (v : Int)
  | lp | rp | lb | rb
  | castInt            -- the three tokens `( int )`
  | un (op : String)
  | bin (op : String)
  | q | colon
deriving DecidableEq, Repr

/-- occa's spacing: binary operators and `? :` are surrounded by blanks, the cast is followed by one -/
def Tok.render : Tok → String
  | .id n => n
  | .num v => toString v
  | .lp => "("
  | .rp => ")"
  | .lb => "["
  | .rb => "]"
  | .castInt => "(int) "
  | .un op => op
  | .bin op => " " ++ op ++ " "
  | .q => " ? "
  | .colon => " : "

/-- the token sequence the occa printer emits for a tree -/
def toks : Expr → List Tok
  | .var n => [.id n]
  | .lit v => [.num v]
  | .paren e => [.lp] ++ toks e ++ [.rp]
  | .cast e => .castInt :: toks e
  | .un op e => .un op :: toks e
  | .bin op l r => toks l ++ [.bin op] ++ toks r
  | .tern c t f => toks c ++ [.q] ++ toks t ++ [.colon] ++ toks f
  | .sub a i => toks a ++ [.lb] ++ toks i ++ [.rb]

def renderAll : List Tok → String
  | [] => ""
  | t :: r => t.render ++ renderAll r

theorem renderAll_append (a b : List Tok) : renderAll (a ++ b) = renderAll a ++ renderAll b := by
  induction a with
  | nil => simp [renderAll]
  | cons t r ih => simp [renderAll, ih, String.append_assoc]

/-- `print` is exactly the rendering of `toks` -/
theorem print_eq_render (e : Expr) : print e = renderAll (toks e) := by
  induction e with
  | var n => simp [print, toks, renderAll, Tok.render]
  | lit v => simp [print, toks, renderAll, Tok.render]
  | paren e ih => simp [print, toks, renderAll_append, ih, renderAll, Tok.render, String.append_assoc]
  | cast e ih => simp [print, toks, renderAll, ih, Tok.render]
  | un op e ih => simp [print, toks, renderAll, ih, Tok.render]
  | bin op l r ihl ihr =>
    simp [print, toks, renderAll_append, ihl, ihr, renderAll, Tok.render, String.append_assoc]
  | tern c t f ihc iht ihf =>
    simp [print, toks, renderAll_append, ihc, iht, ihf, renderAll, Tok.render, String.append_assoc]
  | sub a i iha ihi =>
    simp [print, toks, renderAll_append, iha, ihi, renderAll, Tok.render, String.append_assoc]

/-- the stratified expression grammar -/
inductive Derives : Nat → List Tok → Expr → Prop
  | var (n : String) : Derives 0 [.id n] (.var n)
  | num (v : Int) (h : 0 ≤ v) : Derives 0 [.num v] (.lit v)
  | negnum (v : Int) (h : v < 0) : Derives 3 [.num v] (.lit v)          -- prints as `-3`: a unary-level item
  | paren {ts e p} : Derives p ts e → Derives 0 ([.lp] ++ ts ++ [.rp]) (.paren e)
  | sub {ta ti a i p} : Derives 2 ta a → Derives p ti i → Derives 2 (ta ++ [.lb] ++ ti ++ [.rb]) (.sub a i)
  | cast {ts e} : Derives 3 ts e → Derives 3 (.castInt :: ts) (.cast e)
  | un {ts e} (op : String) : lookup Gen.unaryPrec op = 3 → signClash op e = false →
      Derives 3 ts e → Derives 3 (.un op :: ts) (.un op e)
  | bin {tl tr l r} (op : String) (q : Nat) : lookup Gen.binaryPrec op = q → q ≠ 0 →
      Derives q tl l → Derives (q - 1) tr r → Derives q (tl ++ [.bin op] ++ tr) (.bin op l r)
  | tern {tc tt tf c t f p} : Derives 15 tc c → Derives p tt t → Derives 16 tf f →
      Derives 16 (tc ++ [.q] ++ tt ++ [.colon] ++ tf) (.tern c t f)
  | weaken {p q ts e} : Derives p ts e → p ≤ q → Derives q ts e

theorem lookup_all (t : List (String × Nat)) (k : Nat) (hall : ∀ r ∈ t, r.2 = k) (op : String)
    (h : lookup t op ≠ 0) : lookup t op = k := by
  unfold lookup at *
  cases hf : t.find? (fun r => r.1 == op) with
  | none => simp [hf] at h
  | some r =>
    simp only
    exact hall r (List.mem_of_find?_eq_some hf)

theorem unary_is_3 (op : String) (h : lookup Gen.unaryPrec op ≠ 0) : lookup Gen.unaryPrec op = 3 :=
  lookup_all Gen.unaryPrec 3 (by decide) op h

/-- The tokens printed for a grouped tree derive that tree, at the precedence level of its top node. -/
theorem grouped_derives : ∀ e : Expr, Grouped e → Derives (prec e) (toks e) e
  | .var n, _ => Derives.var n
  | .lit v, _ => by
    by_cases h : v < 0
    · simpa [prec, h, toks] using Derives.negnum v h
    · simpa [prec, h, toks] using Derives.num v (by omega)
  | .paren e, h => by
    have he : Grouped e := by simpa [Grouped, grouped] using h
    exact Derives.paren (grouped_derives e he)
  | .cast e, h => by
    simp only [Grouped, grouped, Bool.and_eq_true, decide_eq_true_eq] at h
    have c3 : Gen.castPrec = 3 := by decide
    have := Derives.cast ((grouped_derives e h.2).weaken (by rw [← c3]; exact h.1))
    simpa [prec, c3, toks] using this
  | .un op e, h => by
    simp only [Grouped, grouped, Bool.and_eq_true, decide_eq_true_eq, bne_iff_ne, ne_eq, Bool.not_eq_true'] at h
    obtain ⟨⟨⟨h0, h1⟩, h2⟩, h3⟩ := h
    have u3 := unary_is_3 op h0
    have := Derives.un op u3 h2 ((grouped_derives e h3).weaken (by rw [← u3]; exact h1))
    simpa [prec, u3, toks] using this
  | .bin op l r, h => by
    simp only [Grouped, grouped, Bool.and_eq_true, decide_eq_true_eq, bne_iff_ne, ne_eq] at h
    obtain ⟨⟨⟨⟨h0, h1⟩, h2⟩, h3⟩, h4⟩ := h
    show Derives (lookup Gen.binaryPrec op) _ _
    exact Derives.bin op (lookup Gen.binaryPrec op) rfl h0 ((grouped_derives l h3).weaken h1)
      ((grouped_derives r h4).weaken (by omega))
  | .tern c t f, h => by
    simp only [Grouped, grouped, Bool.and_eq_true, decide_eq_true_eq] at h
    obtain ⟨⟨⟨⟨h0, h1⟩, h2⟩, h3⟩, h4⟩ := h
    have t16 : Gen.ternaryPrec = 16 := by decide
    rw [t16] at h0 h3
    have := Derives.tern ((grouped_derives c h1).weaken (by omega)) (grouped_derives t h2)
      ((grouped_derives f h4).weaken h3)
    simpa [prec, t16, toks] using this
  | .sub a i, h => by
    simp only [Grouped, grouped, Bool.and_eq_true, decide_eq_true_eq] at h
    obtain ⟨⟨h0, h1⟩, h2⟩ := h
    exact Derives.sub ((grouped_derives a h1).weaken h0) (grouped_derives i h2)

theorem lookup_le (t : List (String × Nat)) (k : Nat) (hall : ∀ r ∈ t, r.2 ≤ k) (op : String) : lookup t op ≤ k := by
  unfold lookup
  cases hf : t.find? (fun r => r.1 == op) with
  | none => simp
  | some r => exact hall r (List.mem_of_find?_eq_some hf)

theorem prec_le (e : Expr) : prec e ≤ 16 := by
  cases e with
  | var n => simp [prec]
  | lit v => simp only [prec]; split <;> omega
  | paren e => simp [prec]
  | cast e => simp only [prec]; decide
  | un op e => exact lookup_le Gen.unaryPrec 16 (by decide) op
  | bin op l r => exact lookup_le Gen.binaryPrec 16 (by decide) op
  | tern c t f => simp only [prec]; decide
  | sub a i => simp [prec]

/-- The text printed for a grouped tree is the rendering of a token sequence which the C expression grammar
    derives, as a full expression, with exactly that tree. -/
theorem grouped_reads (e : Expr) (h : Grouped e) :
    ∃ ts : List Tok, renderAll ts = print e ∧ Derives 16 ts e :=
  ⟨toks e, (print_eq_render e).symm, (grouped_derives e h).weaken (prec_le e)⟩

end Occa.LoopExpr
