/-
Creation of backend objects: `new X(...)` (`alloc`) and the registration in the owner's ring.
-/
import OccaProofs.Lemmas.GcDev2

namespace Occa.Gc

/-- no handle is detached: the invariant proper -/
abbrev E : Var → Prop := fun _ => False

theorem alloc_chGet (s : St) (K : Kind) (p : Option Nat) (sz : Nat) (k : Kind) (d : Nat) :
    (s.alloc K p sz).1.chGet k d = if d = s.next then [] else s.chGet k d := by
  cases k <;> by_cases h : d = s.next <;> simp [St.alloc, St.chGet, upd_apply, h]

/-- nothing refers to an object id that was never allocated -/
theorem Inv00.fresh {s : St} (hi : Inv00 E s) {n : Nat} (hn : s.next ≤ n) :
    s.alive n = false ∧ s.ring n = [] ∧ s.kids n = [] ∧ (∀ k, s.chGet k n = [])
      ∧ (∀ b, n ∉ s.kids b) ∧ (∀ k d, n ∉ s.chGet k d) ∧ (∀ v, s.ptr v ≠ some n)
      ∧ (∀ p, s.alive p = true → s.inner p ≠ some n) := by
  have hna : s.alive n = false := by
    cases h : s.alive n
    · rfl
    · have := hi.alive_lt n h; omega
  refine ⟨hna, ?_, ?_, ?_, ?_, ?_, ?_, ?_⟩
  · apply List.eq_nil_iff_forall_not_mem.mpr
    intro v hv
    have := (hi.ptr_ok v n (hi.ring_ptr v n hv) (fun h => h)).1
    rw [hna] at this; cases this
  · apply List.eq_nil_iff_forall_not_mem.mpr
    intro m hm
    have := (hi.kids_ok n m hm).2.2.2.1
    rw [hna] at this; cases this
  · intro k
    apply List.eq_nil_iff_forall_not_mem.mpr
    intro c hc
    have := (hi.ch_ok k n c hc).2.2.2.2.2.1
    rw [hna] at this; cases this
  · intro b hb
    have := (hi.kids_ok b n hb).1
    rw [hna] at this; cases this
  · intro k d hc
    have := (hi.ch_ok k d n hc).1
    rw [hna] at this; cases this
  · intro v hv
    have := (hi.ptr_ok v n hv (fun h => h)).1
    rw [hna] at this; cases this
  · intro p hp hin
    have := (hi.inner_ok p n hp hin).2.1
    rw [hna] at this; cases this

/-- `new X(...)`: the safety part of the invariant holds as soon as the object exists, before it is
    registered anywhere -/
theorem Inv00.alloc_only {s : St} (hi : Inv00 E s) (K : Kind) (p : Option Nat) (sz : Nat) :
    Inv00 E (s.alloc K p sz).1 := by
  obtain ⟨f1, f2, f3, f4, f5, f6, f7, f8⟩ := hi.fresh (Nat.le_refl s.next)
  have halive : ∀ x, (s.alloc K p sz).1.alive x = if x = s.next then true else s.alive x := fun x => rfl
  have hlt : ∀ x, s.alive x = true → x ≠ s.next := by
    intro x hx h; rw [h, f1] at hx; cases hx
  constructor
  · exact hi.notrap
  · intro o ho
    show o < s.next + 1
    rw [halive] at ho
    split at ho
    · omega
    · have := hi.alive_lt o ho; omega
  · intro o
    show upd s.dtors s.next 0 o = if (o < s.next + 1 ∧ upd s.alive s.next true o = false) then 1 else 0
    by_cases h : o = s.next
    · subst h; simp
    · rw [upd_other _ _ h, upd_other _ _ h, hi.dtors_eq o]
      have : (o < s.next + 1) ↔ (o < s.next) := by omega
      simp [this]
  · intro v o hv hex
    have hv' : s.ptr v = some o := hv
    obtain ⟨a, b, c⟩ := hi.ptr_ok v o hv' hex
    have hne := hlt o a
    refine ⟨by rw [halive]; simp [hne, a], ?_, ?_⟩
    · show upd s.kind s.next K o = _
      rw [upd_other _ _ hne]; exact b
    · show v ∈ upd s.ring s.next [] o
      rw [upd_other _ _ hne]; exact c
  · intro v o hv; exact hi.ptr_live v o hv
  · intro v o hv
    have hv' : v ∈ upd s.ring s.next [] o := hv
    by_cases h : o = s.next
    · rw [h, upd_same] at hv'; simp at hv'
    · rw [upd_other _ _ h] at hv'; exact hi.ring_ptr v o hv'
  · intro o
    show (upd s.ring s.next [] o).Nodup
    by_cases h : o = s.next
    · rw [h, upd_same]; exact List.nodup_nil
    · rw [upd_other _ _ h]; exact hi.ring_nodup o
  · intro v hv; exact hv.elim
  · intro d hd
    have := hi.cur_lt d hd
    show d < s.next + 1
    omega
  · intro b m hm
    have hm' : m ∈ upd s.kids s.next [] b := hm
    by_cases h : b = s.next
    · rw [h, upd_same] at hm'; simp at hm'
    · rw [upd_other _ _ h] at hm'
      obtain ⟨a1, a2, a3, a4, a5⟩ := hi.kids_ok b m hm'
      have hmn := hlt m a1
      refine ⟨by rw [halive]; simp [hmn, a1], ?_, ?_, by rw [halive]; simp [h, a4], ?_⟩
      · show upd s.kind s.next K m = .mem
        rw [upd_other _ _ hmn]; exact a2
      · show upd s.par s.next p m = some b
        rw [upd_other _ _ hmn]; exact a3
      · show upd s.kind s.next K b = .buf ∨ upd s.kind s.next K b = .pool
        rw [upd_other _ _ h]; exact a5
  · intro b
    show (upd s.kids s.next [] b).Nodup
    by_cases h : b = s.next
    · rw [h, upd_same]; exact List.nodup_nil
    · rw [upd_other _ _ h]; exact hi.kids_nodup b
  · intro k d c hc
    rw [alloc_chGet] at hc
    split at hc
    · simp at hc
    · rename_i hd
      obtain ⟨a1, a2, a3, a4, a5, a6, a7⟩ := hi.ch_ok k d c hc
      have hcn := hlt c a1
      refine ⟨by rw [halive]; simp [hcn, a1], ?_, ?_, ?_, ?_, by rw [halive]; simp [hd, a6], ?_⟩
      · show upd s.par s.next p c = some d
        rw [upd_other _ _ hcn]; exact a2
      · show slot (upd s.kind s.next K c) = slot k
        rw [upd_other _ _ hcn]; exact a3
      · show upd s.kind s.next K c ≠ .dev
        rw [upd_other _ _ hcn]; exact a4
      · show upd s.kind s.next K c ≠ .mem
        rw [upd_other _ _ hcn]; exact a5
      · show upd s.kind s.next K d = .dev
        rw [upd_other _ _ hd]; exact a7
  · intro k d
    rw [alloc_chGet]
    split
    · exact List.nodup_nil
    · exact hi.ch_nodup k d
  · intro q i hqa hqi
    rw [halive] at hqa
    have hqi' : upd s.inner s.next none q = some i := hqi
    by_cases h : q = s.next
    · rw [h, upd_same] at hqi'; cases hqi'
    · simp only [h, if_false] at hqa
      rw [upd_other _ _ h] at hqi'
      obtain ⟨q1, q2, q3, q4, q5, q6⟩ := hi.inner_ok q i hqa hqi'
      have hin := hlt i q2
      refine ⟨?_, by rw [halive]; simp [hin, q2], ?_, ?_, ?_, ?_⟩
      · show upd s.kind s.next K q = .pool
        rw [upd_other _ _ h]; exact q1
      · show upd s.kind s.next K i = .buf
        rw [upd_other _ _ hin]; exact q3
      · show upd s.kids s.next [] i = []
        rw [upd_other _ _ hin]; exact q4
      · show upd s.par s.next p i = upd s.par s.next p q
        rw [upd_other _ _ hin, upd_other _ _ h]; exact q5
      · intro k d hx
        rw [alloc_chGet] at hx
        split at hx
        · simp at hx
        · exact q6 k d hx
  · intro q r i hqa hra hqi hri
    rw [halive] at hqa hra
    have hqi' : upd s.inner s.next none q = some i := hqi
    have hri' : upd s.inner s.next none r = some i := hri
    by_cases hq : q = s.next
    · rw [hq, upd_same] at hqi'; cases hqi'
    · by_cases hr : r = s.next
      · rw [hr, upd_same] at hri'; cases hri'
      · simp only [hq, hr, if_false] at hqa hra
        rw [upd_other _ _ hq] at hqi'
        rw [upd_other _ _ hr] at hri'
        exact hi.inner_inj q r i hqa hra hqi' hri'

end Occa.Gc
