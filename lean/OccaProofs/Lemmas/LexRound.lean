/-
Helper lemmas for C12: well-formed tokens and the round trip over a whitespace-separated token list.
-/
import OccaProofs.Lemmas.LexRaw

namespace Occa.Lex
open Occa.Gen

/-- The well-formedness predicate of the round trip: the token values of the C/OKL lexical grammar (a subset
    of what the scanner can produce; see the per-kind structures). -/
inductive TokWF : Tok → Prop
  | ident {w : Str} : IdentWF w → TokWF (.ident w)
  | prim {w : Str} : NumWF w → TokWF (.prim w)
  | op {id : Nat} {sp : Str} : OpWF id sp → TokWF (.op id)
  | str {enc : Nat} {v udf : Str} : StrWF enc v udf → TokWF (.str enc v udf)
  | rawstr {enc : Nat} {v udf : Str} : RawWF enc v udf → TokWF (.str enc v udf)
  | chr {enc : Nat} {v udf : Str} : ChrWF enc v udf → TokWF (.chr enc v udf)
  | lineComment {w : Str} : LineCommentWF w → TokWF (.comment w)
  | blockComment {w : Str} : BlockCommentWF w → TokWF (.comment w)

/-- a line comment must be followed by a newline (anything else would become part of it) -/
def NeedsNewline : Tok → Prop
  | .comment w => ['/', '/'].isPrefixOf w = true
  | _ => False

theorem printTok_op {id : Nat} {sp : Str} (h : OpWF id sp) : printTok (.op id) = sp := by
  have := h.reg
  simp [printTok, List.getD_eq_getElem?_getD, this]

/-- a printed well-formed token followed by a separator character is read back as itself -/
theorem getToken_tok {t : Tok} (h : TokWF t) {c : Char} (hc : IsWs c) (hnl : NeedsNewline t → c = '\n') (r : Str) :
    getToken (printTok t ++ c :: r) = .ok (some t, 0, c :: r) := by
  cases h with
  | ident hw => exact getToken_ident hw hc r
  | prim hw => exact getToken_prim hw hc r
  | op hw => rw [printTok_op hw]; exact getToken_op hw hc r
  | str hw => exact getToken_str hw hc r
  | rawstr hw => exact getToken_rawstr hw hc r
  | chr hw => exact getToken_chr hw hc r
  | @lineComment w hw =>
    obtain ⟨b, rfl, _⟩ := hw.body
    have : c = '\n' := hnl (by simp [NeedsNewline])
    subst this
    exact getToken_lineComment hw r
  | blockComment hw =>
    have := getToken_blockComment hw (c :: r)
    simpa [printTok] using this

/-- printed well-formed tokens contain no NUL and are not empty -/
theorem printTok_noNul {t : Tok} (h : TokWF t) : NoNul (printTok t) ∧ printTok t ≠ [] := by
  cases h with
  | ident hw =>
    obtain ⟨a, t, rfl⟩ := nonempty_of_idStart (by simpa using hw.start)
    exact ⟨noNul_ident hw.rest, by simp [printTok]⟩
  | prim hw =>
    obtain ⟨a, t, rfl, _⟩ := num_first hw
    exact ⟨noNul_num hw, by simp [printTok]⟩
  | @op id sp hw =>
    rw [printTok_op hw]
    have hm : sp ∈ registered := List.mem_of_getElem? hw.reg
    exact ⟨fun c hc => (registered_clean sp hm c hc).2.1, registered_nonempty sp hm⟩
  | @str enc v udf hw =>
    have henc : enc &&& encR = 0 := by
      rcases hw.enc with rfl | hm
      · decide
      · exact (strEnc_facts enc hm).2.2.2.2.2.2.1
    rw [printTok_str henc]
    refine ⟨?_, by simp⟩
    apply noNul_append (encPrefix_noNul enc)
    apply noNul_cons (by decide)
    apply noNul_append (noNul_escape hw.val)
    exact noNul_cons (by decide) (noNul_udf hw.udf)
  | @rawstr enc v udf hw =>
    have hr1 := (rawEnc_facts enc hw.enc).2.2.2.2.2.2.1
    rw [printTok_raw hr1]
    obtain ⟨hdel, _⟩ := pickDelim_spec v (v.length + 1) [] (by simp) (by simp)
    have hdn : NoNul (pickDelim v (v.length + 1) []) := fun c hc => by rw [hdel c hc]; decide
    refine ⟨?_, by simp [rawBody]⟩
    apply noNul_append
    · exact noNul_append (encPrefix_noNul enc) (by decide)
    · apply noNul_append _ (noNul_udf hw.udf)
      unfold rawBody
      apply noNul_cons (by decide)
      apply noNul_append hdn
      apply noNul_cons (by decide)
      apply noNul_append hw.val
      exact noNul_cons (by decide) (noNul_append hdn (by decide))
  | @chr enc v udf hw =>
    rw [printTok_chr]
    refine ⟨?_, by simp⟩
    apply noNul_append (charPrefix_noNul enc)
    apply noNul_cons (by decide)
    apply noNul_append (noNul_escape hw.val)
    exact noNul_cons (by decide) (noNul_udf hw.udf)
  | lineComment hw =>
    obtain ⟨b, rfl, hb⟩ := hw.body
    refine ⟨?_, by simp [printTok]⟩
    exact noNul_cons (by decide) (noNul_cons (by decide) (noNul_units hb (fun _ h => h.2) (fun _ h => h)))
  | blockComment hw =>
    obtain ⟨b, rfl, _, hb⟩ := hw.body
    refine ⟨?_, by simp [printTok]⟩
    apply noNul_cons (by decide)
    apply noNul_cons (by decide)
    exact noNul_append hb (by decide)

/-- the printed text of a list of tokens, each followed by its separator -/
def printSeq : List (Tok × Str) → Str
  | [] => []
  | (t, sep) :: l => printTok t ++ (sep ++ printSeq l)

/-- the tokens expected back: the originals, a newline token for every newline of a separator, and the
    end-of-source newline when the text ends in blanks -/
def expectSeq : List (Tok × Str) → List Tok
  | [] => []
  | [(t, sep)] => t :: sepEnd sep
  | (t, sep) :: l => t :: (sepMid sep ++ expectSeq l)

/-- an item of the round trip: a well-formed token and the separator that follows it — a whitespace
    character, then any whitespace characters and line continuations -/
structure ItemWF (p : Tok × Str) : Prop where
  tok : TokWF p.1
  sep : SepWF p.2
  first : IsWs (hd p.2)
  nl : NeedsNewline p.1 → hd p.2 = '\n'

theorem printSeq_noNul {l : List (Tok × Str)} (h : ∀ p ∈ l, ItemWF p) : NoNul (printSeq l) := by
  induction l with
  | nil => intro c hc; cases hc
  | cons p l ih =>
    obtain ⟨t, sep⟩ := p
    have hp := h (t, sep) (by simp)
    exact noNul_append (printTok_noNul hp.tok).1
      (noNul_append (noNul_sep hp.sep) (ih (fun q hq => h q (by simp [hq]))))

theorem roundtrip_tk {l : List (Tok × Str)} (h : ∀ p ∈ l, ItemWF p) (e : Nat) (a : List Tok) :
    tk (printSeq l) e a = .ok ⟨a.reverse ++ expectSeq l, e⟩ := by
  induction l generalizing a with
  | nil => simp [printSeq, expectSeq, tk_nil]
  | cons p l ih =>
    obtain ⟨t, sep⟩ := p
    have hp := h (t, sep) (by simp)
    have hl : ∀ q ∈ l, ItemWF q := fun q hq => h q (by simp [hq])
    obtain ⟨c, sep', rfl⟩ : ∃ c sep', sep = c :: sep' := by
      cases sep with
      | nil =>
        have hf : IsWs NUL := by simpa using hp.first
        exact absurd hf (by decide)
      | cons c s => exact ⟨c, s, rfl⟩
    have hc : IsWs c := by simpa using hp.first
    have hnl : NeedsNewline t → c = '\n' := fun hn => by simpa using hp.nl hn
    have hnAll := printSeq_noNul h
    have hg := getToken_tok hp.tok hc hnl (sep' ++ printSeq l)
    have hne : printTok t ++ (c :: sep' ++ printSeq l) ≠ [] := by simp
    simp only [printSeq, List.cons_append] at hnAll ⊢
    rw [tk_step hnAll (by simp) hg, Nat.add_zero]
    cases l with
    | nil =>
      have := tk_sepEnd hp.sep e (pushTok (some t) a)
      simp only [printSeq, List.append_nil, expectSeq]
      rw [this]
      simp [pushTok]
    | cons q l' =>
      obtain ⟨t2, sep2⟩ := q
      have hq := hl (t2, sep2) (by simp)
      have hR : NoNul (printSeq ((t2, sep2) :: l')) := printSeq_noNul hl
      have hRne : printSeq ((t2, sep2) :: l') ≠ [] := by
        simp only [printSeq]
        intro e0
        exact (printTok_noNul hq.tok).2 (List.append_eq_nil_iff.mp e0).1
      have := tk_sepMid hp.sep hR hRne e (pushTok (some t) a)
      rw [← List.cons_append, this, ih hl]
      simp [expectSeq, pushTok]

/-- the round trip for `tokenize` -/
theorem roundtrip_tokenize {l : List (Tok × Str)} (h : ∀ p ∈ l, ItemWF p) :
    tokenizeBytes (printSeq l) = .ok ⟨expectSeq l, 0⟩ := by
  unfold tokenizeBytes
  rw [cstr_of_noNul (printSeq_noNul h)]
  have := roundtrip_tk h 0 []
  simpa [tk, tokenize] using this

/-! ### the range of the string scanner -/

/-- what a successful skip loop has crossed: plain characters that do not stop it and backslash pairs -/
theorem skipUntil_crossed (stop : Char → Bool) (r : Str) {r1 : Str} (hn : NoNul r) (h : skipUntil stop r = .ok r1)
    (hne : r1 ≠ []) : ∃ t, r = t ++ r1 ∧ Units (fun c => stop c = false) (fun x => x ≠ NUL) t := by
  fun_induction skipUntil stop r generalizing r1
  case case1 => simp at h; exact absurd h hne
  case case2 t e he => simp at he
  case case3 d hd' hrd => simp at hrd; subst hrd; simp at hd'
  case case4 d hd' x t' hrd ih =>
    obtain ⟨t0, e0, u0⟩ := ih (fun c hc => hn c (by simp [hc])) h hne
    have hx : x ≠ NUL := hn x (by simp)
    exact ⟨'\\' :: x :: t0, by rw [e0]; rfl, Units.pair hx u0⟩
  case case5 t d hd' hrd ih =>
    -- a backslash at the very end: the loop ends at the terminator
    have ht : t = [] := by
      cases t with
      | nil => rfl
      | cons y t =>
        simp at hrd; subst hrd
        exact absurd (by simpa using hd') (hn y (by simp))
    subst ht
    simp at h
    exact absurd h hne
  case case6 c t hc hs =>
    simp at h
    exact ⟨[], by simp [h], Units.nil⟩
  case case7 c t hc hs ih =>
    obtain ⟨t0, e0, u0⟩ := ih (fun x hx => hn x (by simp [hx])) h hne
    exact ⟨c :: t0, by rw [e0]; rfl, Units.plain hc (by simpa using hs) u0⟩

theorem hd_units_ne {q : Char} (hq : q ≠ '\\') (hn : q ≠ NUL) {t : Str}
    (h : Units (fun c => c ≠ q ∧ c ≠ '\n') (fun x => x ≠ NUL) t) : hd t ≠ q := by
  cases h with
  | nil => simpa using hn.symm
  | plain _ h2 _ => simpa using h2.1
  | pair _ _ => simpa using hq.symm

/-- `unescape` maps the text of a literal to a value of the scanner's range -/
theorem unescape_valUnits {q : Char} (hq : q ≠ '\\') (hn : q ≠ NUL) (hnl : q ≠ '\n') {t : Str} (ht : NoNul t)
    (h : Units (fun c => c ≠ q ∧ c ≠ '\n') (fun x => x ≠ NUL) t) : ValUnits q (unescape q t) := by
  induction h with
  | nil => exact Units.nil
  | @plain c t' h1 h2 _ ih =>
    have : unescape q (c :: t') = c :: unescape q t' := by simp [unescape, h1]
    rw [this]
    exact Units.plain h1 ⟨h2.2, ht c (by simp)⟩ (ih (fun x hx => ht x (by simp [hx])))
  | @pair x t' h1 hu ih =>
    have ih' := ih (fun y hy => ht y (by simp [hy]))
    by_cases hx : x = q
    · subst hx
      have : unescape x ('\\' :: x :: t') = x :: unescape x t' := by simp [unescape, hq]
      rw [this]
      exact Units.plain hq ⟨hnl, hn⟩ ih'
    · have hnext := hd_units_ne hq hn hu
      have : unescape q ('\\' :: x :: t') = '\\' :: x :: unescape q t' := by simp [unescape, hx, hnext]
      rw [this]
      exact Units.pair ⟨hx, h1⟩ ih'

/-- Every value the string scanner produces lies in `ValUnits '"'` (so `StrWF.val` is exactly the
    scanner's range, and by `C12_reread_string` every scanned string value survives print + re-read). -/
theorem getString_range {r : Str} (hn : NoNul r) {v : Str} {e : Nat} {r' : Str}
    (h : getString 0 ('"' :: r) = .ok (v, true, e, r')) : ValUnits '"' v := by
  obtain ⟨r2, e2, s2⟩ := skipTo_ok ['"', '\n'] r
  simp only [getString, encR_zero, hd_cons, adv_cons_one, e2, bind, Except.bind, pure, Except.pure] at h
  by_cases h2 : hd r2 = '"'
  · obtain ⟨t2, rfl⟩ := ne_nil_of_hd h2 (by decide)
    simp at h
    obtain ⟨t, et, ut⟩ := skipUntil_crossed _ r hn e2 (by simp)
    have hc : consumed r ('"' :: t2) = t := by rw [et]; exact consumed_append _ _
    rw [hc] at h
    rw [← h.1]
    have ht : NoNul t := fun c hc' => hn c (by rw [et]; simp [hc'])
    exact unescape_valUnits (by decide) (by decide) (by decide) ht
      (ut.mono (fun c hc' => by simpa using hc') (fun _ h => h))
  · simp [h2] at h

/-- every value the character-literal scanner produces lies in `ValUnits '\''` -/
theorem getCharToken_range {r : Str} (hn : NoNul r) {v udf : Str} {e : Nat} {r' : Str}
    (h : getCharToken 0 ('\'' :: r) = .ok (some (.chr 0 v udf), e, r')) : ValUnits '\'' v := by
  obtain ⟨r3, e3, s3⟩ := skipTo_ok ['\'', '\n'] r
  simp only [getCharToken, hd_cons, adv_cons_one, e3, bind, Except.bind, pure, Except.pure] at h
  by_cases h3 : hd r3 = '\''
  · obtain ⟨t3, rfl⟩ := ne_nil_of_hd h3 (by decide)
    obtain ⟨u, r5, eu, _⟩ := getUdf_ok t3
    simp [eu] at h
    obtain ⟨t, et, ut⟩ := skipUntil_crossed _ r hn e3 (by simp)
    have hc : consumed r ('\'' :: t3) = t := by rw [et]; exact consumed_append _ _
    rw [hc] at h
    rw [← h.1.1]
    have ht : NoNul t := fun c hc' => hn c (by rw [et]; simp [hc'])
    exact unescape_valUnits (by decide) (by decide) (by decide) ht
      (ut.mono (fun c hc' => by simpa using hc') (fun _ h => h))
  · simp [h3] at h

/-! ### getHeader -/

theorem classify_op_nonempty {r : Str} (h : classifyChar (hd r) = .op) : ∃ c t, r = c :: t := by
  cases r with
  | nil =>
    have : classifyChar NUL = .none := by decide +kernel
    simp only [hd_nil] at h
    rw [this] at h; cases h
  | cons c t => exact ⟨c, t, rfl⟩

/-- `getHeader` (the `#include` path; repaired together with FL1) stays inside the buffer -/
theorem getHeader_ok (r : Str) (hn : NoNul r) : ∃ v e r', getHeader r = .ok (v, e, r') ∧ Suffix r' r := by
  obtain ⟨r1, e1, s1⟩ := skipWhitespace_ok r
  have hn1 : NoNul r1 := hn.suffix s1
  by_cases h0 : hd r1 = NUL
  · refine ⟨[], 1, r1, ?_, s1⟩
    simp only [getHeader, shallowPeek, bind, Except.bind, pure, Except.pure, e1]
    simp [h0]
  · by_cases hp : isPrimitiveAt r1 = true
    · refine ⟨[], 1, r1, ?_, s1⟩
      simp only [getHeader, shallowPeek, bind, Except.bind, pure, Except.pure, e1]
      simp [h0, hp]
    · have hsp : shallowPeek r = .ok (classifyChar (hd r1), r1) := by
        simp only [shallowPeek, bind, Except.bind, pure, Except.pure, e1]
        simp [h0, hp]
      cases hc : classifyChar (hd r1) with
      | str enc =>
        obtain ⟨v, ok, e, r2, eg, s2, _⟩ := getString_ok 0 r1 hn1
        refine ⟨v, e, r2, ?_, s2.trans s1⟩
        simp only [getHeader, hsp, hc, bind, Except.bind, pure, Except.pure, eg]
        simp
      | op =>
        obtain ⟨c, t, rfl⟩ := classify_op_nonempty hc
        simp only [hd_cons] at hc hsp
        obtain ⟨r3, e3, s3⟩ := skipTo_ok ['>', '\n'] t
        by_cases h3 : hd r3 = '>'
        · obtain ⟨t3, rfl⟩ := ne_nil_of_hd h3 (by decide)
          refine ⟨consumed t ('>' :: t3), 0, t3, ?_, (((Suffix.refl t3).cons '>').trans s3).cons c |>.trans s1⟩
          simp only [getHeader, hsp, hc, bind, Except.bind, pure, Except.pure, adv_cons_one, e3, hd_cons]
          simp
        · refine ⟨[], 1, r3, ?_, (s3.cons c).trans s1⟩
          simp only [getHeader, hsp, hc, bind, Except.bind, pure, Except.pure, adv_cons_one, e3]
          simp [h3]
      | none | ident | prim | newline | chr enc =>
        refine ⟨[], 1, r1, ?_, s1⟩
        simp only [getHeader, hsp, hc, bind, Except.bind, pure, Except.pure]
        simp

/-- the double quote, for use where a bare quote character would unbalance a line -/
abbrev DQ : Char := '"'

end Occa.Lex
