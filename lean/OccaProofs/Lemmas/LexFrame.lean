/-
Helper lemmas for C12: the common frame of the per-kind re-read lemmas — how getToken, peek and
shallowPeek reduce on a position that starts a token.
-/
import OccaProofs.Lemmas.LexProgress

namespace Occa.Lex
open Occa.Gen

/-- the separator characters of the round trip: `charcodes::whitespace` -/
abbrev IsWs (c : Char) : Prop := c ∈ whitespace

theorem ws_cases {c : Char} (h : IsWs c) : c = ' ' ∨ c = '\n' ∨ c = '\t' ∨ c = '\r' ∨ c = Char.ofNat 11 ∨ c = Char.ofNat 12 := by
  simpa [IsWs, whitespace] using h

/-- facts about a separator character, all by inspection of the six characters -/
theorem ws_facts {c : Char} (h : IsWs c) :
    c ≠ '\\' ∧ c ≠ NUL ∧ identifier.contains c = false ∧ identifierStart.contains c = false ∧
    isDigitOrDot c = false ∧ isLU c = false ∧ isE c = false ∧ isF c = false ∧ isHex c = false ∧ isBin c = false ∧
    c ≠ '"' ∧ c ≠ '\'' ∧ c ≠ '_' ∧ c ≠ '(' ∧ c ≠ '*' ∧ c ≠ '/' := by
  rcases ws_cases h with rfl | rfl | rfl | rfl | rfl | rfl <;> decide

/-- a string that is a prefix of `w ++ c :: r` and does not contain `c` is a prefix of `w` -/
theorem isPrefixOf_of_append_sep {p w : Str} {c : Char} {r : Str} (h : p.isPrefixOf (w ++ c :: r) = true) (hc : c ∉ p) :
    p.isPrefixOf w = true := by
  induction p generalizing w with
  | nil => simp
  | cons x p ih =>
    cases w with
    | nil =>
      simp only [List.nil_append, List.isPrefixOf_cons_cons, Bool.and_eq_true, beq_iff_eq] at h
      exact absurd (h.1 ▸ List.mem_cons_self) hc
    | cons y w =>
      simp only [List.cons_append, List.isPrefixOf_cons_cons, Bool.and_eq_true, beq_iff_eq] at h ⊢
      exact ⟨h.1, ih h.2 (fun hm => hc (List.mem_cons_of_mem _ hm))⟩

/-! ### when `primitive::load` refuses -/

theorem loadFormatted_none_of_hd {r : Str} (h : hd r ≠ '0') : loadFormatted r = none := by
  unfold loadFormatted
  split
  · simp at h
  · rfl

/-- no primitive: not `true`/`false`, and the leading run of digits and dots contains no digit -/
theorem loadF_none (f : Nat) (s : Bool) (r : Str)
    (h1 : startsWith ['t', 'r', 'u', 'e'] r = false) (h2 : startsWith ['f', 'a', 'l', 's', 'e'] r = false)
    (h3 : isSigned r = false) (h4 : hd r ≠ '0') (h5 : ∀ x ∈ r.takeWhile isDigitOrDot, isDigit x = false) :
    loadF (f + 1) s r = none := by
  have h5' : ¬ ∃ x, x ∈ r.takeWhile isDigitOrDot ∧ isDigit x = true := by
    rintro ⟨x, hx, hd'⟩; rw [h5 x hx] at hd'; cases hd'
  simp [loadF, h1, h2, h3, loadSignSkip, loadBody, loadFormatted_none_of_hd h4, h5']

theorem loadF_none_signed (f : Nat) (r : Str)
    (h1 : startsWith ['t', 'r', 'u', 'e'] r = false) (h2 : startsWith ['f', 'a', 'l', 's', 'e'] r = false)
    (h3 : isSigned r = true) : loadF (f + 1) false r = none := by
  unfold loadF
  simp [h1, h2, h3]

theorem takeWhile_nil_of_hd {p : Char → Bool} {r : Str} (h : p (hd r) = false) : r.takeWhile p = [] := by
  cases r with
  | nil => rfl
  | cons c t => simp at h; simp [List.takeWhile, h]

/-! ### the frame -/

theorem skipWhitespace_at {c : Char} (t : Str) (h1 : c ≠ '\\') (h2 : c ∉ whitespaceNoNewline) :
    skipWhitespace (c :: t) = .ok (c :: t) :=
  skipUntil_stop t h1 (by simpa using h2)

theorem shallowPeek_prim {r : Str} (hs : skipWhitespace r = .ok r) (h0 : hd r ≠ NUL) (hp : isPrimitiveAt r = true) :
    shallowPeek r = .ok (.prim, r) := by
  simp only [shallowPeek, bind, Except.bind, pure, Except.pure, hs]
  simp [h0, hp]

theorem shallowPeek_class {r : Str} (hs : skipWhitespace r = .ok r) (h0 : hd r ≠ NUL) (hp : isPrimitiveAt r = false) :
    shallowPeek r = .ok (classifyChar (hd r), r) := by
  simp only [shallowPeek, bind, Except.bind, pure, Except.pure, hs]
  simp [h0, hp]

theorem getToken_eq {r : Str} {k : Kind} {t : Option Tok} {e : Nat} {r' : Str}
    (hs : skipWhitespace r = .ok r) (hne : r ≠ []) (hp : peek r = .ok (k, false, r))
    (hd' : dispatch k r = .ok (t, e, r')) : getToken r = .ok (t, e, r') := by
  have hne' : r.isEmpty = false := by
    cases r with
    | nil => exact absurd rfl hne
    | cons c t => rfl
  simp only [getToken, bind, Except.bind, pure, Except.pure, hs, hp, hd', hne']
  simp

/-- `isPrimitiveAt` is false when `load` refuses -/
theorem isPrimitiveAt_of_none {r : Str} (h : loadScan false r = none) : isPrimitiveAt r = false := by
  simp [isPrimitiveAt, h]

end Occa.Lex
