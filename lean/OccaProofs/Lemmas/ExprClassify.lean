/-
`operatorIsLeftUnary` agrees with the position of the operator (operand position: prefix;
after an operand: binary / postfix) on well-shaped input.
-/
import OccaProofs.Lemmas.ExprInv

namespace Occa.Expr
open Occa.Gen

theorem none_facts : has T.none_ T.pairStart = false ∧ has T.none_ T.unary = false ∧ has T.none_ T.binary = false ∧
    has T.none_ T.pairEnd = false := by decide

theorem pairEnd_facts : ∀ o : Op, has o.ty T.pairEnd = true →
    has o.ty T.pairStart = false ∧ has o.ty T.unary = false ∧ has o.ty T.binary = false ∧
    has o.ty T.leftUnary = false ∧ has o.ty T.rightUnary = false ∧ has o.ty T.pair = true := by
  intro o; revert o; exact forall_op (by decide +kernel)

theorem ru_facts : ∀ o : Op, has o.ty T.rightUnary = true →
    has o.ty T.pairStart = false ∧ has o.ty T.unary = true ∧ has o.ty T.binary = false ∧
    has o.ty T.leftUnary = false ∧
    has o.ty (T.increment.1 ||| T.decrement.1 ||| T.parentheses.1, T.increment.2 ||| T.decrement.2 ||| T.parentheses.2) = true := by
  intro o; revert o; exact forall_op (by decide +kernel)

theorem lu_unary : ∀ o : Op, has o.ty T.leftUnary = true → has o.ty T.unary = true := forall_op (by decide +kernel)
theorem bin_not_unary : ∀ o : Op, has o.ty T.binary = true → has o.ty T.unary = false := forall_op (by decide +kernel)

/-- the resolved operator has the expected kind -/
theorem resolveBy_facts : ∀ o ∈ registered, ∀ (b : Bool) (o' : Op), resolveBy b o = some o' →
    lexedOp o' = o ∧ has o'.ty T.parenCast = false ∧ has o'.ty T.pairStart = has o.ty T.pairStart ∧
    has o'.ty T.pairEnd = has o.ty T.pairEnd ∧
    (has o.ty T.ambiguous = true → if b then has o'.ty T.leftUnary = true else (has o'.ty T.binary = true ∨ has o'.ty T.rightUnary = true)) ∧
    (has o.ty T.ambiguous = false → o' = o) ∧
    ((has o.ty T.increment || has o.ty T.decrement) = true → has o.ty T.ambiguous = true ∧ (b = false → has o'.ty T.rightUnary = true)) ∧
    (b = false → has o'.ty T.rightUnary = true → (has o.ty T.increment || has o.ty T.decrement) = true) := by
  decide +kernel

/-- `updateOperatorToken` when `operatorIsLeftUnary` answers `l` -/
theorem resolve_of_isLeftUnary (o : Op) (prev next : Option Tok) (ce l : Bool)
    (h : isLeftUnary o prev next ce = .ok l) :
    resolve o prev next ce = (match resolveBy l o with | some o' => .ok o' | none => .error .waldo) := by
  unfold resolve resolveBy
  by_cases ha : has o.ty T.ambiguous = true
  · simp only [ha, Bool.not_true, Bool.false_eq_true, if_false, h]
    cases ambiguousTable.find? (fun e => has o.ty e.1) with
    | none => rfl
    | some e => obtain ⟨_, a, b⟩ := e; rfl
  · simp [ha]

theorem resolve_nonAmb (o : Op) (prev next : Option Tok) (ce l : Bool) (ha : has o.ty T.ambiguous = false) :
    resolve o prev next ce = .ok o ∧ resolveBy l o = some o := by
  simp [resolve, resolveBy, ha]

/-- in operand position every ambiguous operator is taken as prefix -/
theorem isLeftUnary_E (o : Op) (prev next : Option Tok) (ce : Bool)
    (hnext : next.isSome = true) (hne : isPairEndTok next = false)
    (hprev : ce = true ∨ prev = none ∨ ∃ q, prev = some (.op q) ∧
      (has q.ty T.pairStart = true ∨ has q.ty T.leftUnary = true ∨ has q.ty T.binary = true)) :
    isLeftUnary o prev next ce = .ok true := by
  obtain ⟨nx, rfl⟩ := Option.isSome_iff_exists.mp hnext
  cases prev with
  | none => simp [isLeftUnary]
  | some p =>
    simp only [isLeftUnary, flag_castEnd, flag_pairEnd, flag_operand, Bool.true_and]
    by_cases h1 : has p.opType T.pairStart = true
    · simp [h1]
    · simp only [h1, Bool.false_eq_true, if_false]
      by_cases hce : ce = true
      · simp [hce]
      · simp only [hce, Bool.false_eq_true, if_false]
        have hne' : has nx.opType T.pairEnd = false := by
          cases nx with
          | op x => simpa [isPairEndTok, Tok.opType] using hne
          | _ => exact none_facts.2.2.2
        simp only [hne', Bool.false_eq_true, if_false]
        rcases hprev with h | h | ⟨q, hq, hk⟩
        · exact absurd h hce
        · simp at h
        · simp only [Option.some.injEq] at hq; subst hq
          simp only [Tok.opType] at h1 ⊢
          rcases hk with hk | hk | hk
          · exact absurd hk h1
          · simp [hk, lu_unary q hk]
          · simp [hk, bin_not_unary q hk]

/-- after an operand an ambiguous operator is never taken as prefix (it may be rejected) -/
theorem isLeftUnary_O (o : Op) (prev next : Option Tok) (l : Bool)
    (hprev : (∃ t, prev = some t ∧ (∀ x, t ≠ .op x)) ∨ (∃ b, prev = some (.op b) ∧ has b.ty T.pairEnd = true) ∨
             (∃ p, prev = some (.op p) ∧ has p.ty T.rightUnary = true))
    (hnext : (has o.ty T.increment || has o.ty T.decrement) = true →
              next.isNone = true ∨ isPairEndTok next = true ∨ isOperatorTok next = true)
    (h : isLeftUnary o prev next false = .ok l) : l = false := by
  -- the three kinds of previous token only differ in a few tests
  have key : ∀ (p : Tok), prev = some p → has p.opType T.pairStart = false →
      has p.opType T.leftUnary = false → has p.opType T.binary = false →
      (has p.opType T.unary = true → has p.opType (T.increment.1 ||| T.decrement.1 ||| T.parentheses.1,
          T.increment.2 ||| T.decrement.2 ||| T.parentheses.2) = true) →
      (has p.opType T.unary = false → tokIsOp p = false ∨ has p.opType T.pairEnd = true) → l = false := by
    intro p hp h1 h2 h3 h4 h5
    subst hp
    cases next with
    | none => simp [isLeftUnary] at h; exact h
    | some nx =>
      simp only [isLeftUnary, flag_castEnd, flag_pairEnd, flag_operand, Bool.true_and, h1, Bool.false_eq_true,
        if_false, Bool.and_false, h2, h3, Bool.false_and, Bool.or_false, Bool.not_false, Bool.and_true] at h
      by_cases hpe : has nx.opType T.pairEnd = true
      · simp [hpe] at h; exact h
      · simp only [hpe, Bool.false_eq_true, if_false] at h
        by_cases hou : (has o.ty T.increment || has o.ty T.decrement) = true
        · -- ++ / --
          simp only [hou, Bool.not_true, Bool.and_false, Bool.false_and, Bool.false_eq_true, if_false, if_true] at h
          have hn : (has nx.opType T.unary || has nx.opType T.binary) = true := by
            rcases hnext hou with hn | hn | hn
            · simp at hn
            · cases nx with
              | op x => simp [isPairEndTok] at hn; exact absurd hn hpe
              | _ => simp [isPairEndTok] at hn
            · simpa [isOperatorTok] using hn
          by_cases hu : has p.opType T.unary = true
          · simp only [hu, hn, bne_self_eq_false, Bool.false_eq_true, if_false, Bool.not_true, h4 hu] at h
            split at h
            · simp at h
            · simp at h; exact h
          · simp [hu, hn] at h; exact h
        · have hou' : (has o.ty T.increment || has o.ty T.decrement) = false := by simpa using hou
          simp only [hou', Bool.not_false, Bool.and_true, Bool.true_and, Bool.false_eq_true, if_false] at h
          by_cases hu : has p.opType T.unary = true
          · simp [hu] at h; exact h
          · simp only [hu, Bool.false_eq_true, if_false] at h
            rcases h5 (by simpa using hu) with h6 | h6
            · simp [h6] at h; exact h
            · by_cases h7 : tokIsOp p = true
              · simp [h7, h6] at h; exact h
              · simp [h7] at h; exact h
  rcases hprev with ⟨t, ht, hno⟩ | ⟨b, hb, hbe⟩ | ⟨p, hp, hpr⟩
  · have hty : t.opType = T.none_ := by
      cases t with
      | op x => exact absurd rfl (hno x)
      | _ => rfl
    have hto : tokIsOp t = false := by
      cases t with
      | op x => exact absurd rfl (hno x)
      | _ => rfl
    have nf := none_facts
    refine key t ht (by rw [hty]; exact nf.1) (by rw [hty]; decide) (by rw [hty]; exact nf.2.2.1) ?_ (fun _ => Or.inl hto)
    rw [hty, nf.2.1]; simp
  · obtain ⟨f1, f2, f3, f4, _⟩ := pairEnd_facts b hbe
    refine key (.op b) hb f1 f4 f3 ?_ (fun _ => Or.inr hbe)
    simp [Tok.opType, f2]
  · obtain ⟨f1, f2, f3, f4, f5⟩ := ru_facts p hpr
    exact key (.op p) hp f1 f4 f3 (fun _ => f5) (fun h => by simp [Tok.opType, f2] at h)

end Occa.Expr
