/-
Every operation of the protocol keeps the invariant: operations that create no object.
-/
import OccaProofs.Lemmas.GcOps5

namespace Occa.Gc

/-- the invariant at operation boundaries: no handle is detached, the temporaries are gone, every
    live device has its `currentStream` member -/
structure Inv (s : St) : Prop where
  inv : InvX E s
  tmp : ∀ k, s.vlive (.tmp k) = false
  cur : ∀ d, s.alive d = true → s.kind d = .dev → s.vlive (.cur d) = true

/-- an operation that creates nothing and changes the existence of at most the user variable `v0` -/
theorem Inv.of_frame {s s' : St} (h : Inv s) (hi' : InvX E s') (k0 : HKind) (i0 : Nat)
    (hvl : ∀ w, w ≠ Var.user k0 i0 → (∀ d, w = Var.cur d → s'.alive d = true) → s'.vlive w = s.vlive w)
    (hk : s'.kind = s.kind) (has : ∀ t, s'.alive t = true → s.alive t = true) : Inv s' := by
  refine ⟨hi', ?_, ?_⟩
  · intro k
    rw [hvl (.tmp k) (by simp) (by intro d hd; cases hd)]
    exact h.tmp k
  · intro d hda hdk
    rw [hvl (.cur d) (by simp) (by intro d' hd'; cases hd'; exact hda)]
    exact h.cur d (has d hda) (by rw [← hk]; exact hdk)

theorem Inv.ptr_facts {s : St} (h : Inv s) {v : Var} {o : Nat} (hp : s.ptr v = some o) :
    s.alive o = true ∧ s.kind o = v.kind.obj ∧ v ∈ s.ring o :=
  h.inv.ptr_ok v o hp (fun x => x)

theorem user_not_cur (k : HKind) (i : Nat) : ∀ d, Var.user k i = Var.cur d → (s : St) → s.alive d = true ∧ s.kind d = .dev := by
  intro d h; cases h

theorem step_ctor {s : St} (h : Inv s) (k : HKind) (i : Nat) : Inv (step s (.ctor k i)).1 := by
  simp only [step]
  split
  · exact h
  · rename_i hv
    have hv' : s.vlive (.user k i) = false := by simpa using hv
    obtain ⟨h1, h2⟩ := h.inv.construct_ok hv' (by intro d hd; cases hd)
    show Inv (construct s (.user k i))
    rw [h2] at h1 ⊢
    refine h.of_frame h1 k i ?_ rfl (fun _ x => x)
    intro w hw _
    show upd s.vlive (.user k i) true w = s.vlive w
    rw [upd_other _ _ hw]

theorem step_drop {s : St} (h : Inv s) (k : HKind) (i : Nat) : Inv (step s (.drop k i)).1 := by
  simp only [step]
  split
  · exact h
  · obtain ⟨h1, _, h3, h4, _, h6, _⟩ := h.inv.destruct_ok (v := .user k i)
    exact h.of_frame h1 k i h3 h4 h6

theorem step_asg {s : St} (h : Inv s) (k : HKind) (d a : Nat) : Inv (step s (.asg k d a)).1 := by
  simp only [step]
  split
  · exact h
  · rename_i hg
    have hg' : s.vlive (.user k d) = true ∧ s.vlive (.user k a) = true := by simpa using hg
    obtain ⟨h1, h2, _⟩ := h.inv.set_mode (v := .user k d) (tgt := s.ptr (.user k a)) hg'.1
      (by intro d' hd'; cases hd')
      (by intro o ho; obtain ⟨x, y, _⟩ := h.ptr_facts ho; exact ⟨x, y⟩)
    exact h.of_frame h1 k d (fun w _ hw => h2.vlive w hw) h2.kind h2.alive_sub

theorem step_copy {s : St} (h : Inv s) (k : HKind) (d a : Nat) : Inv (step s (.copy k d a)).1 := by
  simp only [step]
  split
  · exact h
  · rename_i hg
    have hg' : s.vlive (.user k d) = false ∧ s.vlive (.user k a) = true := by simpa using hg
    obtain ⟨c1, c2⟩ := h.inv.construct_ok hg'.1 (by intro d' hd'; cases hd')
    show Inv (setMode (construct s (.user k d)) (.user k d) (s.ptr (.user k a)))
    rw [c2] at c1 ⊢
    obtain ⟨h1, h2, _⟩ := c1.set_mode (v := .user k d) (tgt := s.ptr (.user k a)) (by simp [St.setVLive])
      (by intro d' hd'; cases hd')
      (by intro o ho; obtain ⟨x, y, _⟩ := h.ptr_facts ho; exact ⟨x, y⟩)
    refine h.of_frame h1 k d ?_ h2.kind h2.alive_sub
    intro w hwv hw
    rw [h2.vlive w hw]
    show upd s.vlive (.user k d) true w = s.vlive w
    rw [upd_other _ _ hwv]

/-- `dontUseRefs()` -/
theorem InvX.set_norefs {s : St} (hi : InvX E s) (o : Nat) : InvX E (s.setUseRefs o false) := by
  have hch : ∀ k d, (s.setUseRefs o false).chGet k d = s.chGet k d := by intro k d; cases k <;> rfl
  refine ⟨⟨⟨hi.notrap, hi.alive_lt, hi.dtors_eq, hi.ptr_ok, hi.ptr_live, hi.ring_ptr, hi.ring_nodup, hi.ex_out,
    hi.cur_lt, hi.kids_ok, hi.kids_nodup, ?_, ?_, ?_, hi.inner_inj⟩, ?_, hi.mem_par⟩, ?_, hi.buf_ne⟩
  · intro k d c hc; rw [hch] at hc; exact hi.ch_ok k d c hc
  · intro k d; rw [hch]; exact hi.ch_nodup k d
  · intro p i hpa hin
    obtain ⟨q1, q2, q3, q4, q5, q6⟩ := hi.inner_ok p i hpa hin
    exact ⟨q1, q2, q3, q4, q5, fun k d hx => q6 k d (by rw [hch] at hx; exact hx)⟩
  · intro c hca hk1 hk2
    obtain ⟨d, a, b, c', e⟩ := hi.ch_par c hca hk1 hk2
    refine ⟨d, a, b, c', ?_⟩
    rcases e with e | e
    · left; rw [hch]; exact e
    · exact Or.inr e
  · intro x hxa hxk hxu
    have hxu' : upd s.useRefs o false x = true := hxu
    by_cases hx : x = o
    · rw [hx, upd_same] at hxu'; cases hxu'
    · rw [upd_other _ _ hx] at hxu'
      exact hi.ring_ne x hxa hxk hxu'

theorem step_norefs {s : St} (h : Inv s) (k : HKind) (i : Nat) : Inv (step s (.norefs k i)).1 := by
  simp only [step]
  split
  · exact h
  · show Inv (dontUseRefs s (.user k i))
    unfold dontUseRefs
    split
    · exact h
    · rename_i o ho
      have ha := (h.ptr_facts ho).1
      rw [St.touch_alive ha]
      exact h.of_frame (h.inv.set_norefs o) k i (fun _ _ _ => rfl) rfl (fun _ x => x)

theorem step_free {s : St} (h : Inv s) (k : HKind) (i : Nat) : Inv (step s (.free k i)).1 := by
  simp only [step]
  split
  · exact h
  · show Inv (freeHandle s (.user k i))
    unfold freeHandle
    split
    · exact h
    · rename_i o ho
      obtain ⟨ha, hk, hr⟩ := h.ptr_facts ho
      obtain ⟨h1, h2⟩ := h.inv.del_obj k ha hk (fun _ _ x => x.elim) (fun _ _ _ x => x.elim)
      have hp0 : (deleteObj k s o).ptr (.user k i) = none := h2.ptr_in _ hr
      have hfin : Inv (deleteObj k s o) :=
        h.of_frame h1 k i (fun w _ hw => h2.vlive w hw) h2.kind h2.alive_sub
      cases k with
      | pool => exact hfin
      | dev => show Inv ((deleteObj .dev s o).setPtr _ none); rw [setPtr_none_self _ _ hp0]; exact hfin
      | mem => show Inv ((deleteObj .mem s o).setPtr _ none); rw [setPtr_none_self _ _ hp0]; exact hfin
      | ker => show Inv ((deleteObj .ker s o).setPtr _ none); rw [setPtr_none_self _ _ hp0]; exact hfin
      | str => show Inv ((deleteObj .str s o).setPtr _ none); rw [setPtr_none_self _ _ hp0]; exact hfin

end Occa.Gc
