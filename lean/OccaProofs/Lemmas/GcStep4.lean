/-
Every operation keeps the invariant: `reserve` and device creation; all operations; all histories.
-/
import OccaProofs.Lemmas.GcStep3

namespace Occa.Gc

theorem not_inner_of_pool {t : St} {ex : Var → Prop} (ht : Inv00 ex t) {pl : Nat} (htk : t.kind pl = .pool) :
    ∀ q, t.alive q = true → t.inner q ≠ some pl := by
  intro q hq hin
  have := (ht.inner_ok q pl hq hin).2.2.1
  rw [htk] at this; cases this

theorem reserve_none_core {s : St} (h : Inv s) {pl m : Nat} (n : Nat) (ha : s.alive pl = true)
    (hkp : s.kind pl = .pool) (hin : s.inner pl = none) (hv : s.vlive (.user .mem m) = true) :
    let sA := (s.alloc .buf (s.par pl) 0).1
    let sI : St := { sA with inner := upd sA.inner pl (some s.next) }
    let sB := (sI.alloc .mem (some pl) n).1
    let sL := sB.setKids pl (Ring.add (sB.kids pl) sI.next)
    Inv (assignTemp (tempOf sL .mem sI.next) (.user .mem m) .mem) := by
  intro sA sI
  obtain ⟨i1, i2, i3, i4, i5, i6, i7⟩ := h.inv.new_inner ha hkp hin
  have hpln := alive_ne_next h ha
  have hI : Inv sI := by
    refine ⟨i1, ?_, ?_⟩
    · intro k; rw [i3]; exact h.tmp k
    · intro d hda hdk
      rw [i5 d] at hda
      rw [i6 d] at hdk
      split at hda
      · rename_i e; simp [e] at hdk
      · rename_i e
        simp only [e, if_false] at hdk
        rw [i3]; exact h.cur d hda hdk
  have haI : sI.alive pl = true := by rw [i5 pl]; simp [hpln, ha]
  have hkI : sI.kind pl = .pool := by rw [i6 pl]; simp [hpln, hkp]
  exact mem_core (m := m) hI n haI (Or.inr hkI) (not_inner_of_pool i1.toInv00 hkI) (by rw [i3]; exact hv)

theorem step_reserve {s : St} (h : Inv s) (m p n : Nat) : Inv (step s (.reserve m p n)).1 := by
  simp only [step]
  split
  · exact h
  · rename_i hg
    have hg' : s.vlive (.user .mem m) = true ∧ s.vlive (.user .pool p) = true := by simpa using hg
    split
    · exact h
    · rename_i pl hpl
      obtain ⟨ha, hk, _⟩ := h.ptr_facts hpl
      have hkp : s.kind pl = .pool := hk
      split
      · exact step_set_null h .mem m hg'.1
      · simp only [St.touch_alive ha]
        cases hin : s.inner pl with
        | some ib =>
          simp only []
          exact mem_core h n ha (Or.inr hkp) (not_inner_of_pool h.inv.toInv00 hkp) hg'.1
        | none =>
          simp only []
          exact reserve_none_core h n ha hkp hin hg'.1

end Occa.Gc
