/-
modeMemoryPool_t::reserve preserves the invariant, never fails, leaves every other memory alone
and places the new block on bytes no live memory occupies (with all repairs present).
-/
import OccaProofs.Lemmas.PoolPack

namespace Occa.Pool
open Finset

theorem measure_dvd {a : Nat} (ha : 0 < a) {l : List Resv} (hs : OffSorted l) : a ∣ measure a l := by
  cases l with
  | nil => rw [measure_nil]; exact Nat.dvd_zero a
  | cons m ms =>
    rw [← sweep_total_eq_old_measure ha m ms hs]
    exact sweep_total_dvd a _ m ms

/-- what placing a new block establishes -/
structure Placed (p p' : Pool) (slot fam bytes : Nat) : Prop where
  inv : PInv p'
  contents : SameContents p p'
  aliasing : SameAliasing p p'
  new : ∃ r, findSlot slot p'.resv = some r ∧ r.size = bytes ∧ r.fam = fam ∧
    ∀ r' ∈ p.resv, NoShare r' r
  align : p'.align = p.align
  size : p'.size = p.size
  slots : (p'.resv.map (·.slot)).Perm (slot :: p.resv.map (·.slot))
  members : ∀ r' ∈ p'.resv, (r'.slot = slot ∧ r'.fam = fam) ∨ r' ∈ p.resv

theorem place_ok {c : Cfg} (hc : c.Fixed) {p : Pool} (h : PInv p) {slot fam offset bytes : Nat}
    (hbuf : p.hasBuf = true) (hfresh : findSlot slot p.resv = none)
    (hal : p.align ∣ offset) (hfit : offset + rup p.align bytes ≤ p.size)
    (hfree : ∀ r ∈ p.resv, r.off + r.size ≤ offset ∨ offset + bytes ≤ r.off) :
    ∃ p', p.slice c slot fam offset bytes = .ok p' ∧ Placed p p' slot fam bytes := by
  refine ⟨p.addRef c ⟨slot, offset, bytes, fam⟩, ?_, ?_⟩
  · unfold Pool.slice; rw [if_neg (by simp [hbuf])]
  have hns : ∀ r ∈ p.resv, NoShare r ⟨slot, offset, bytes, fam⟩ := by
    intro r hr i hi j hj e
    have := hfree r hr
    simp only [] at e hj
    omega
  have hb : rup p.align (offset + bytes) ≤ p.size := by
    rw [rup_add_of_dvd h.apos hal]; exact hfit
  have hinv := addRef_inv hc.2.2.1 h ⟨slot, offset, bytes, fam⟩ hfresh hb hbuf (fun r hr _ => hns r hr)
  have hsame := addRef_sameContents (c := c) (p := p) ⟨slot, offset, bytes, fam⟩ hfresh
  refine ⟨hinv, hsame.1, hsame.2, ⟨⟨slot, offset, bytes, fam⟩, ?_, rfl, rfl, hns⟩, rfl, rfl, ?_, ?_⟩
  · exact findSlot_insertResv_self (m := ⟨slot, offset, bytes, fam⟩) hfresh
  · exact (insertResv_perm ⟨slot, offset, bytes, fam⟩ p.resv).map (·.slot)
  · intro r' hr'
    rcases (mem_insertResv _ r' _).1 hr' with e | hm
    · left; rw [e]; exact ⟨rfl, rfl⟩
    · right; exact hm

structure Reserved (p p' : Pool) (slot fam bytes : Nat) : Prop where
  inv : PInv p'
  contents : SameContents p p'
  aliasing : SameAliasing p p'
  new : ∃ r, findSlot slot p'.resv = some r ∧ r.size = bytes ∧ r.fam = fam
  align : p'.align = p.align
  slots : (p'.resv.map (·.slot)).Perm (slot :: p.resv.map (·.slot))
  members : ∀ r' ∈ p'.resv, (r'.slot = slot ∧ r'.fam = fam) ∨ ∃ r ∈ p.resv, r'.fam = r.fam ∧ r'.slot = r.slot

private theorem placed_after_resize {c : Cfg} (hc : c.Fixed) {p p1 : Pool} (h : PInv p)
    {slot fam bytes : Nat} (hfresh : findSlot slot p.resv = none)
    (hr : Resized p p1 (p.reserved + rup p.align bytes)) :
    ∃ p', p1.slice c slot fam p1.reserved bytes = .ok p' ∧ Reserved p p' slot fam bytes := by
  have hfresh1 : findSlot slot p1.resv = none := by
    cases hf : findSlot slot p1.resv with
    | none => rfl
    | some r =>
      have hm := findSlot_some hf
      have : slot ∈ p1.resv.map (·.slot) := List.mem_map.2 ⟨r, hm.1, hm.2⟩
      rw [hr.slots] at this
      obtain ⟨x, hx, hs⟩ := List.mem_map.1 this
      exact absurd hs (findSlot_none hfresh x hx)
  have ha1 : 0 < p1.align := hr.inv.apos
  have hdvd : p1.align ∣ p1.reserved := by
    rw [hr.inv.reserved_eq]; exact measure_dvd ha1 hr.inv.sorted
  have hsz := le_rup h.apos (p.reserved + rup p.align bytes)
  obtain ⟨p', hp', pl⟩ := place_ok hc hr.inv (slot := slot) (fam := fam) (offset := p1.reserved) (bytes := bytes)
    hr.hasBuf hfresh1 hdvd
    (by rw [hr.align, hr.size, hr.reserved]; exact hsz)
    (fun r hr' => Or.inl (hr.below r hr'))
  refine ⟨p', hp', ⟨pl.inv, hr.packed.1.trans pl.contents, SameAliasing.trans hr.packed.1 hr.packed.2 pl.aliasing, ?_,
    pl.align.trans hr.align, ?_, ?_⟩⟩
  · obtain ⟨r, h1, h2, h3, _⟩ := pl.new
    exact ⟨r, h1, h2, h3⟩
  · rw [← hr.slots]; exact pl.slots
  · intro r' hr'
    rcases pl.members r' hr' with h1 | h1
    · exact Or.inl h1
    · exact Or.inr (hr.members r' h1)

theorem reserve_ok {c : Cfg} (hc : c.Fixed) {d : Dev} {p : Pool} (h : PInv p) {slot fam bytes : Nat}
    (hb : 0 < bytes) (hfresh : findSlot slot p.resv = none) :
    ∃ d' p', p.reserve c d slot fam bytes = .ok (d', p') ∧ Reserved p p' slot fam bytes := by
  have hab := le_rup h.apos bytes
  unfold Pool.reserve
  simp only [hc.2.2.2.1, if_true]
  split
  · -- the pool is too small: grow, the new block goes behind the packed reservations
    rename_i hsmall
    cases hrz : p.resize c d (p.reserved + rup p.align bytes) false with
    | error e =>
      have := (resize_err_iff h (p.reserved + rup p.align bytes) false (c := c) (d := d)).1 ⟨e, hrz⟩
      omega
    | ok dp =>
      obtain ⟨d1, p1⟩ := dp
      rcases (resize_ok hc h hrz).2 with hearly | hreal
      · omega
      · obtain ⟨p', hp', hres⟩ := placed_after_resize hc h hfresh hreal.2
        refine ⟨d1, p', ?_, hres⟩
        simp only [hp', Except.map]
  · rename_i hroom
    split
    · -- no reservations: the block goes to the beginning
      rename_i hnil
      have hr0 : p.reserved = 0 := by rw [h.reserved_eq, hnil, measure_nil]
      have hbuf : p.hasBuf = true := by
        rcases h.hasBuf with hb' | hb'
        · exact hb'
        · omega
      obtain ⟨p', hp', pl⟩ := place_ok hc h (slot := slot) (fam := fam) (offset := 0) (bytes := bytes) hbuf hfresh
        (Nat.dvd_zero _) (by omega) (fun r hr => by rw [hnil] at hr; simp at hr)
      refine ⟨d, p', by simp only [hp', Except.map], pl.inv, pl.contents, pl.aliasing, ?_, pl.align, pl.slots,
        fun r' hr' => (pl.members r' hr').imp id (fun hm => ⟨r', hm, rfl, rfl⟩)⟩
      obtain ⟨r, h1, h2, h3, _⟩ := pl.new
      exact ⟨r, h1, h2, h3⟩
    · rename_i hne
      have hbuf : p.hasBuf = true := by
        rcases h.hasBuf with hb' | hb'
        · exact hb'
        · exact absurd hb'.1 hne
      split
      · -- a gap fits
        rename_i hfit
        have hspec := findHole_spec h.apos bytes p.resv 0 h.sorted
        obtain ⟨p', hp', pl⟩ := place_ok hc h (slot := slot) (fam := fam)
          (offset := findHole p.align bytes 0 p.resv) (bytes := bytes) hbuf hfresh
          (findHole_dvd bytes p.resv 0 (Nat.dvd_zero _)) hfit hspec.2
        refine ⟨d, p', by simp only [hp', Except.map], pl.inv, pl.contents, pl.aliasing, ?_, pl.align, pl.slots,
          fun r' hr' => (pl.members r' hr').imp id (fun hm => ⟨r', hm, rfl, rfl⟩)⟩
        obtain ⟨r, h1, h2, h3, _⟩ := pl.new
        exact ⟨r, h1, h2, h3⟩
      · -- no gap fits: pack (forced) and put the block behind
        rw [hc.1]
        cases hrz : p.resize c d (p.reserved + rup p.align bytes) true with
        | error e =>
          have := (resize_err_iff h (p.reserved + rup p.align bytes) true (c := c) (d := d)).1 ⟨e, hrz⟩
          omega
        | ok dp =>
          obtain ⟨d1, p1⟩ := dp
          rcases (resize_ok hc h hrz).2 with hearly | hreal
          · exact absurd hearly.2.1 (by simp)
          · obtain ⟨p', hp', hres⟩ := placed_after_resize hc h hfresh hreal.2
            refine ⟨d1, p', ?_, hres⟩
            simp only [hp', Except.map]

end Occa.Pool
