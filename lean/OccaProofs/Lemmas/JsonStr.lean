/-
Lemmas for C24: whitespace skipping and the string escape/unescape pair
(`loadStr` after `dumpStr` returns the original bytes and the untouched rest).
-/
import OccaModel.Json

namespace Occa.Json

/-! ### whitespace -/

def AllWs (s : Bytes) : Prop := ∀ c ∈ s, isWs c = true

theorem allWs_nil : AllWs [] := by intro c h; cases h

theorem allWs_append {a b : Bytes} (ha : AllWs a) (hb : AllWs b) : AllWs (a ++ b) := by
  intro c h
  rcases List.mem_append.mp h with h | h
  · exact ha c h
  · exact hb c h

theorem allWs_cons {c : UInt8} {s : Bytes} (hc : isWs c = true) (hs : AllWs s) : AllWs (c :: s) := by
  intro d h
  rcases List.mem_cons.mp h with h | h
  · rw [h]; exact hc
  · exact hs d h

theorem skipWs_allWs_append (w s : Bytes) (hw : AllWs w) : skipWs (w ++ s) = skipWs s := by
  induction w with
  | nil => rfl
  | cons c t ih =>
    have hc : isWs c = true := hw c (by simp)
    have ht : AllWs t := fun d hd => hw d (by simp [hd])
    simp [skipWs, hc, ih ht]

theorem skipWs_cons_nonws (c : UInt8) (s : Bytes) (h : isWs c = false) : skipWs (c :: s) = c :: s := by
  simp [skipWs, h]

/-! ### strings -/

/-- one escaped byte is read back as that byte -/
theorem loadStr_escByte (c : UInt8) (r acc : Bytes) :
    loadStr cQuote false (escByte c ++ r) acc = loadStr cQuote false r (acc ++ [c]) := by
  unfold escByte
  by_cases h1 : c = cQuote
  · subst h1; simp [loadStr, cQuote, cBackslash, cNl, cBs, cFf, cCr, cTab]
  · by_cases h2 : c = cBackslash
    · subst h2; simp [loadStr, cQuote, cBackslash, cNl, cBs, cFf, cCr, cTab]
    · by_cases h3 : c = cBs
      · subst h3; simp [loadStr, cQuote, cBackslash, cNl, cBs, cFf, cCr, cTab]
      · by_cases h4 : c = cFf
        · subst h4; simp [loadStr, cQuote, cBackslash, cNl, cBs, cFf, cCr, cTab]
        · by_cases h5 : c = cNl
          · subst h5; simp [loadStr, cQuote, cBackslash, cNl, cBs, cFf, cCr, cTab]
          · by_cases h6 : c = cCr
            · subst h6; simp [loadStr, cQuote, cBackslash, cNl, cBs, cFf, cCr, cTab]
            · by_cases h7 : c = cTab
              · subst h7; simp [loadStr, cQuote, cBackslash, cNl, cBs, cFf, cCr, cTab]
              · simp [h1, h2, h3, h4, h5, h6, h7, loadStr]

theorem loadStr_escBytes (s r acc : Bytes) :
    loadStr cQuote false (escBytes s ++ cQuote :: r) acc = .ok (acc ++ s, r) := by
  induction s generalizing acc with
  | nil => simp [escBytes, loadStr, cQuote, cBackslash]
  | cons c t ih =>
    simp only [escBytes, List.append_assoc]
    rw [loadStr_escByte, ih]
    simp

end Occa.Json
