/-
Agreement of OCCA's macro expansion with the hide-set reference for tables of OBJECT-LIKE macros
(any reference structure).  Simulation: the hide set of a pending token in the reference contains a
macro name iff that macro will be disabled in OCCA's machine when the token is processed.
-/
import OccaProofs.Lemmas.CppObj

namespace Occa.Cpp

/-- hide sets of the reference against the disabled sets of the machine -/
def Rel : List String → List ITok → List HTok → Prop
  | _, [], [] => True
  | D, it :: r, h :: hr =>
      it.tok = h.tok ∧ (∀ x, x ∈ h.hs ↔ x ∈ D) ∧ Rel (D.filter (fun m => !it.ends.contains m)) r hr
  | _, _, _ => False

theorem objBody_eq (vc : XCfg) (m : Macro) (hs : List String) :
    (refBody m hs).map (·.tok) = objBody vc m := by
  unfold refBody objBody subst
  induction m.body with
  | nil => simp
  | cons b r ih =>
    cases b with
    | raw t => simp [List.filterMap_cons, ih]
    | arg i => simp [List.filterMap_cons, ih]
    | va => cases h : vc.vaCommas <;> simp [List.filterMap_cons, ih, h]

theorem refBody_hs (m : Macro) (hs : List String) : ∀ h ∈ refBody m hs, h.hs = hs := by
  intro h hh
  unfold refBody at hh
  simp only [List.mem_filterMap] at hh
  obtain ⟨b, _, hb⟩ := hh
  cases b <;> simp at hb
  rw [← hb]

/-! ### the reference on object-like tables -/

theorem expandR_keep (f : Nat) (tbl : List Macro) (h : HTok) (hr : List HTok)
    (hk : h.tok.isIdent = false ∨ tbl.find? (fun m => m.name == h.tok.text) = none ∨
          ∃ m, tbl.find? (fun m => m.name == h.tok.text) = some m ∧ h.hs.contains m.name = true) :
    expandR (f + 1) tbl (h :: hr) =
      match expandR f tbl hr with
      | .ok r => .ok (h :: r)
      | e => e := by
  rw [expandR]
  rcases hk with hk | hk | ⟨m, hm, hc⟩
  · simp only [hk, Bool.not_false, if_true]
    cases expandR f tbl hr <;> rfl
  · by_cases hid : h.tok.isIdent = true <;> simp only [hid, hk, Bool.not_true, Bool.false_eq_true, if_false,
      Bool.not_false, if_true, Bool.not_eq_true] <;> cases expandR f tbl hr <;> rfl
  · by_cases hid : h.tok.isIdent = true <;> simp only [hid, hm, hc, Bool.not_true, Bool.false_eq_true, if_false,
      Bool.not_false, if_true, Bool.not_eq_true] <;> cases expandR f tbl hr <;> rfl

theorem expandR_obj (f : Nat) (tbl : List Macro) (h : HTok) (hr : List HTok) (m : Macro)
    (hid : h.tok.isIdent = true) (hm : tbl.find? (fun m => m.name == h.tok.text) = some m)
    (hc : h.hs.contains m.name = false) (hfn : m.isFn = false) :
    expandR (f + 1) tbl (h :: hr) = expandR f tbl (refBody m (hsUnion h.hs [m.name]) ++ hr) := by
  have hc' : m.name ∉ h.hs := by simpa using hc
  rw [expandR]
  simp [hid, hm, hc', hfn]

/-! ### the machine: one token that is passed on / one token that is replaced -/

theorem fill_cons (vc : XCfg) (X : Nat) (t : ITok) (s0 s1 : PP) (ho : s0.output = [])
    (hp : processToken vc X t s0 = .ok s1) :
    fill vc (X + 1) { s0 with input := t :: s0.input } = fill vc X s1 := by
  cases s0 with
  | mk inp out dis tbl ex er =>
    simp only at ho
    subst ho
    rw [fill]
    simp only [List.isEmpty_nil, Bool.not_true, Bool.false_eq_true, if_false]
    rw [hp]

/-- the token was replaced (nothing output): the consumer continues from the new state -/
theorem drain_skip (vc : XCfg) (n1 : Nat) (t : ITok) (s0 s1 : PP) (acc : List Tok) (R : List Tok × PP)
    (ho : s0.output = []) (hp : processToken vc (n1 + 1 + 1 + 1 + 1 + 1) t s0 = .ok s1)
    (hd : drain vc n1 s1 acc = .ok R) :
    drain vc (n1 + 1 + 1 + 1 + 1 + 1 + 1 + 1 + 1) { s0 with input := t :: s0.input } acc = .ok R := by
  have hd2 : drain vc (n1 + 1 + 1 + 1 + 1 + 1 + 1 + 1) s1 acc = .ok R :=
    drain_mono_le vc s1 acc (.ok R) (by simp) n1 7 hd
  rw [drain] at hd2 ⊢
  rw [next] at hd2 ⊢
  rw [fill_cons vc _ t s0 s1 ho hp]
  cases hf : fill vc (n1 + 1 + 1 + 1 + 1 + 1) s1 with
  | outOfFuel => rw [hf] at hd2; simp at hd2
  | trap => rw [hf] at hd2; simp at hd2
  | ok s' =>
    rw [hf] at hd2
    simp only at hd2 ⊢
    cases ho' : s'.output with
    | nil => rw [ho'] at hd2; simp only at hd2 ⊢; exact hd2
    | cons o rest =>
      rw [ho'] at hd2
      simp only at hd2 ⊢
      exact drain_mono vc _ _ _ _ hd2 (by simp)

/-- the token was passed on: it is the next token the consumer sees -/
theorem drain_out (vc : XCfg) (n2 : Nat) (t : ITok) (s0 s1 : PP) (acc : List Tok) (R : List Tok × PP) (o : Tok)
    (ho : s0.output = []) (hp : processToken vc (n2 + 1 + 1 + 1 + 1 + 1) t s0 = .ok s1) (ho1 : s1.output = [o])
    (hd : drain vc n2 { s1 with output := [] } (o :: acc) = .ok R) :
    drain vc (n2 + 1 + 1 + 1 + 1 + 1 + 1 + 1 + 1) { s0 with input := t :: s0.input } acc = .ok R := by
  rw [drain, next, fill_cons vc _ t s0 s1 ho hp, fill]
  simp only [ho1, List.isEmpty_cons, Bool.not_false, if_true]
  exact drain_mono_le vc _ (o :: acc) (.ok R) (by simp) n2 7 hd

/-! ### the simulation -/

theorem rel_plain (D : List String) (body : List HTok) (rest : List ITok) (hr : List HTok) (hs : List String)
    (hb : ∀ h ∈ body, h.hs = hs) (hd : ∀ x, x ∈ hs ↔ x ∈ D) (hrel : Rel D rest hr) :
    Rel D (body.map (fun h => (⟨h.tok, []⟩ : ITok)) ++ rest) (body ++ hr) := by
  induction body with
  | nil => simpa using hrel
  | cons b r ih =>
    simp only [List.map_cons, List.cons_append, Rel]
    refine ⟨trivial, ?_, ?_⟩
    · rw [hb b (by simp)]; exact hd
    · rw [filter_ends_nil]
      exact ih (fun h hh => hb h (List.mem_cons_of_mem _ hh))


theorem mem_hsUnion (a b : List String) (x : String) : x ∈ hsUnion a b ↔ x ∈ a ∨ x ∈ b := by
  unfold hsUnion
  simp only [List.mem_append, List.mem_filter]
  constructor
  · rintro (h | ⟨h, _⟩)
    · exact Or.inl h
    · exact Or.inr h
  · rintro (h | h)
    · exact Or.inl h
    · by_cases ha : x ∈ a
      · exact Or.inl ha
      · exact Or.inr ⟨h, by simpa using ha⟩

/-- the input after an expansion against the reference's list after the same expansion -/
theorem rel_expand (D : List String) (n : String) (ends : List String) (B0 : List HTok) (bl : HTok)
    (rest : List ITok) (hr : List HTok) (hs : List String)
    (hb : ∀ h ∈ B0 ++ [bl], h.hs = hs) (hd : ∀ x, x ∈ hs ↔ x ∈ n :: D) (hn : n ∉ D)
    (hrel : Rel (D.filter (fun m => !ends.contains m)) rest hr) :
    Rel (n :: D) ((B0.map (fun h => (⟨h.tok, []⟩ : ITok)) ++ [⟨bl.tok, ends ++ [n]⟩]) ++ rest)
      ((B0 ++ [bl]) ++ hr) := by
  rw [List.append_assoc, List.append_assoc]
  apply rel_plain (n :: D) B0 _ _ hs (fun h hh => hb h (List.mem_append_left _ hh)) hd
  simp only [List.cons_append, List.nil_append, Rel]
  refine ⟨trivial, ?_, ?_⟩
  · rw [hb bl (by simp)]; exact hd
  · rw [filter_after_expand D ends n hn]; exact hrel

theorem obj_sim (vc : XCfg) : ∀ (k : Nat) (s : PP) (hl : List HTok), ObjInv vc s → s.output = [] →
    smeas vc s ≤ k → Rel s.disabled s.input hl →
    ∀ (nref : Nat) (r : List HTok), expandR nref s.table hl = .ok r →
    ∀ acc, ∃ n s', drain vc n s acc = .ok (acc.reverse ++ r.map (·.tok), s') := by
  intro k
  induction k with
  | zero =>
    intro s hl h ho hk hrel nref r hr acc
    cases s with
    | mk inp out dis tbl ex er =>
      simp only at ho; subst ho
      cases inp with
      | cons t rest =>
        have := wt_pos vc (enabledOf tbl dis) t.tok
        simp [smeas, meas] at hk
        omega
      | nil =>
        cases hl with
        | cons a b => simp [Rel] at hrel
        | nil =>
          cases nref with
          | zero => simp [expandR] at hr
          | succ f =>
            simp [expandR] at hr
            subst hr
            exact ⟨3, ⟨[], [], dis, tbl, ex, er⟩, by simp [drain, next, fill]⟩
  | succ k ih =>
    intro s hl h ho hk hrel nref r hr acc
    cases s with
    | mk inp out dis tbl ex er =>
      simp only at ho; subst ho
      cases inp with
      | nil =>
        cases hl with
        | cons a b => simp [Rel] at hrel
        | nil =>
          cases nref with
          | zero => simp [expandR] at hr
          | succ f =>
            simp [expandR] at hr
            subst hr
            exact ⟨3, ⟨[], [], dis, tbl, ex, er⟩, by simp [drain, next, fill]⟩
      | cons t rest =>
        cases hl with
        | nil => simp [Rel] at hrel
        | cons hh hrest =>
          simp only [Rel] at hrel
          obtain ⟨htok, hhs, hrel'⟩ := hrel
          cases nref with
          | zero => simp [expandR] at hr
          | succ f =>
            have h0 : ObjInv vc ⟨rest, [], dis, tbl, ex, er⟩ :=
              ⟨h.obj, h.nd, h.ex, fun it hit => h.inp it (List.mem_cons_of_mem _ hit)⟩
            have ht : t.tok.text ≠ "defined" := h.inp t (by simp)
            obtain ⟨hinv, hdec, _⟩ := ptObj_step vc t ⟨rest, [], dis, tbl, ex, er⟩ h0
            simp only at hdec
            have hk1 : smeas vc (ptObj vc t ⟨rest, [], dis, tbl, ex, er⟩) ≤ k := by
              have : smeas vc (⟨t :: rest, [], dis, tbl, ex, er⟩ : PP) ≤ k + 1 := hk
              omega
            have hpt := fun n => pt_obj vc n t ⟨rest, [], dis, tbl, ex, er⟩ h.obj h.ex ht
            simp only at hr
            cases he : expandable tbl dis t.tok with
            | none =>
              -- the token is passed on by both
              have hkeep : hh.tok.isIdent = false ∨ tbl.find? (fun m => m.name == hh.tok.text) = none ∨
                  ∃ m, tbl.find? (fun m => m.name == hh.tok.text) = some m ∧ hh.hs.contains m.name = true := by
                rw [← htok]
                unfold expandable at he
                by_cases hid : t.tok.isIdent = true
                · simp only [hid, if_true] at he
                  cases hf : tbl.find? (fun m => m.name == t.tok.text) with
                  | none => exact Or.inr (Or.inl rfl)
                  | some m =>
                    rw [hf] at he
                    by_cases hd : dis.contains m.name = true
                    · refine Or.inr (Or.inr ⟨m, rfl, ?_⟩)
                      have : m.name ∈ dis := by simpa using hd
                      simpa using (hhs m.name).mpr this
                    · have hd' : m.name ∉ dis := by simpa using hd
                      simp [hd'] at he
                · exact Or.inl (by simpa using hid)
              rw [expandR_keep f tbl hh hrest hkeep] at hr
              cases hr' : expandR f tbl hrest with
              | outOfFuel => rw [hr'] at hr; simp at hr
              | error => rw [hr'] at hr; simp at hr
              | ok r' =>
                rw [hr'] at hr
                simp only [RRes.ok.injEq] at hr
                subst hr
                have hs1 : ptObj vc t ⟨rest, [], dis, tbl, ex, er⟩ =
                    ⟨rest, [t.tok], dis.filter (fun m => !t.ends.contains m), tbl, ex, er⟩ := by
                  simp [ptObj, he, PP.pushOut, PP.clear]
                rw [hs1] at hinv hk1 hpt
                obtain ⟨n2, s', hd⟩ := ih ⟨rest, [], dis.filter (fun m => !t.ends.contains m), tbl, ex, er⟩ hrest
                  ⟨hinv.obj, hinv.nd, hinv.ex, hinv.inp⟩ rfl hk1 hrel' f r' hr' (t.tok :: acc)
                refine ⟨n2 + 1 + 1 + 1 + 1 + 1 + 1 + 1 + 1, s', ?_⟩
                have := drain_out vc n2 t ⟨rest, [], dis, tbl, ex, er⟩ _ acc _ t.tok rfl (hpt n2) rfl hd
                simp only at this
                rw [this]
                simp [htok]
            | some m =>
              obtain ⟨hid, hm, hnd, _, hfind⟩ := expandable_mem he
              have hc : hh.hs.contains m.name = false := by
                have : m.name ∉ hh.hs := fun hx => hnd ((hhs m.name).mp hx)
                simpa using this
              rw [expandR_obj f tbl hh hrest m (htok ▸ hid) (htok ▸ hfind) hc (h.obj m hm).1] at hr
              have hsd : ∀ x, x ∈ hsUnion hh.hs [m.name] ↔ x ∈ m.name :: dis := by
                intro x
                rw [mem_hsUnion, hhs x]
                simp [or_comm]
              cases hl' : (objBody vc m).getLast? with
              | none =>
                have hnil : objBody vc m = [] := by simpa using hl'
                have hrb : refBody m (hsUnion hh.hs [m.name]) = [] := by
                  have := objBody_eq vc m (hsUnion hh.hs [m.name])
                  rw [hnil] at this
                  simpa using this
                rw [hrb, List.nil_append] at hr
                have hs1 : ptObj vc t ⟨rest, [], dis, tbl, ex, er⟩ =
                    ⟨rest, [], dis.filter (fun m => !t.ends.contains m), tbl, ex, er⟩ := by
                  simp [ptObj, he, hl', PP.clear]
                rw [hs1] at hinv hk1 hpt
                obtain ⟨n1, s', hd⟩ := ih _ hrest hinv rfl hk1 hrel' f r hr acc
                refine ⟨n1 + 1 + 1 + 1 + 1 + 1 + 1 + 1 + 1, s', ?_⟩
                have := drain_skip vc n1 t ⟨rest, [], dis, tbl, ex, er⟩ _ acc _ rfl (hpt n1) hd
                simp only at this
                exact this
              | some l =>
                obtain ⟨ys, hys⟩ := List.getLast?_eq_some_iff.mp hl'
                have hmap := objBody_eq vc m (hsUnion hh.hs [m.name])
                rw [hys] at hmap
                obtain ⟨B0, B1, hB, hB0, hB1⟩ := List.map_eq_append_iff.mp hmap
                obtain ⟨bl, hbl, hblt⟩ : ∃ bl, B1 = [bl] ∧ bl.tok = l := by
                  cases B1 with
                  | nil => simp at hB1
                  | cons b bs =>
                    cases bs with
                    | nil => exact ⟨b, rfl, by simpa using hB1⟩
                    | cons c cs => simp at hB1
                subst hbl
                have hs1 : ptObj vc t ⟨rest, [], dis, tbl, ex, er⟩ =
                    ⟨(B0.map (fun h => (⟨h.tok, []⟩ : ITok)) ++ [⟨bl.tok, t.ends ++ [m.name]⟩]) ++ rest, [],
                      m.name :: dis, tbl, ex, er⟩ := by
                  simp only [ptObj, he, hl', hys, List.dropLast_concat]
                  rw [← hB0, hblt]
                  simp
                rw [hs1] at hinv hk1 hpt
                rw [hB] at hr
                have hrel2 := rel_expand dis m.name t.ends B0 bl rest hrest (hsUnion hh.hs [m.name])
                  (fun x hx => refBody_hs m _ x (hB ▸ hx)) hsd hnd hrel'
                obtain ⟨n1, s', hd⟩ := ih _ _ hinv rfl hk1 hrel2 f r hr acc
                refine ⟨n1 + 1 + 1 + 1 + 1 + 1 + 1 + 1 + 1, s', ?_⟩
                have := drain_skip vc n1 t ⟨rest, [], dis, tbl, ex, er⟩ _ acc _ rfl (hpt n1) hd
                simp only at this
                exact this


theorem rel_init : ∀ (toks : List Tok),
    Rel [] (toks.map (fun t => (⟨t, []⟩ : ITok))) (toks.map (fun t => (⟨t, []⟩ : HTok)))
  | [] => by simp [Rel]
  | t :: r => by
    simp only [List.map_cons, Rel]
    exact ⟨trivial, by simp, by simpa using rel_init r⟩

theorem drain_det (vc : XCfg) (s : PP) (acc : List Tok) (n m : Nat) (a b : List Tok × PP)
    (h1 : drain vc n s acc = .ok a) (h2 : drain vc m s acc = .ok b) : a = b := by
  have e1 := drain_mono_le vc s acc (.ok a) (by simp) n m h1
  have e2 := drain_mono_le vc s acc (.ok b) (by simp) m n h2
  rw [Nat.add_comm] at e2
  rw [e1] at e2
  exact Res.ok.inj e2

/-- OCCA's expansion of a line equals the hide-set expansion of the same tokens on every object-like table -/
theorem expandLine_obj_agrees (vc : XCfg) (tbl : List Macro) (toks : List Tok) (hobj : ObjTable tbl)
    (hnd : NoDefined vc tbl) (ht : ∀ t ∈ toks, t.text ≠ "defined")
    (n n' : Nat) (o : List Tok) (s' : PP) (r : List HTok)
    (h1 : expandLine vc n { table := tbl } toks = .ok (o, s'))
    (h2 : expandR n' tbl ((toks ++ [nlTok]).map (fun t => (⟨t, []⟩ : HTok))) = .ok r) :
    o = r.map (·.tok) := by
  have hinv : ObjInv vc { table := tbl, input := (toks ++ [nlTok]).map (fun t => (⟨t, []⟩ : ITok)) } := by
    refine ⟨hobj, hnd, rfl, ?_⟩
    intro it hit
    simp only [List.mem_map, List.mem_append, List.mem_singleton] at hit
    obtain ⟨x, hx | hx, rfl⟩ := hit
    · exact ht x hx
    · subst hx; decide
  obtain ⟨n0, s0, h0⟩ := obj_sim vc _ _ _ hinv rfl (Nat.le_refl _) (rel_init (toks ++ [nlTok])) n' r h2 []
  unfold expandLine at h1
  have := drain_det vc _ [] n n0 _ _ h1 h0
  simpa using congrArg Prod.fst this

end Occa.Cpp
