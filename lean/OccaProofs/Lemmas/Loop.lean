/-
Helper lemmas for C17 / C18: closed forms of the sequential loop and of the launch.
-/
import OccaModel.Loop
import Mathlib.Tactic.Ring

namespace Occa.Loop

/-! ### two normal forms of the sequential loop -/

/-- `for (i; i < B; i += s)` -/
def iterUp (B s : Int) : Nat → Int → List Int
  | 0, _ => []
  | f + 1, i => if i < B then i :: iterUp B s f (i + s) else []

/-- `for (i; i > B; i -= s)` -/
def iterDown (B s : Int) : Nat → Int → List Int
  | 0, _ => []
  | f + 1, i => if i > B then i :: iterDown B s f (i - s) else []

/-- `ceil(d / s)` clamped at 0, written with C's truncating division exactly as the launcher does -/
def ceilN (d s : Int) : Nat := (Int.tdiv (d + s - 1) s).toNat

theorem ceilN_nonpos (d s : Int) (hs : 0 < s) (hd : d ≤ 0) : ceilN d s = 0 := by
  unfold ceilN
  have h1 : d + s - 1 < s := by omega
  by_cases h0 : 0 ≤ d + s - 1
  · rw [Int.tdiv_eq_ediv_of_nonneg h0, Int.ediv_eq_zero_of_lt h0 h1]; rfl
  · have hneg : d + s - 1 < 0 := by omega
    have : Int.tdiv (d + s - 1) s ≤ 0 := by
      have hq := Int.neg_tdiv (-(d + s - 1)) s
      rw [Int.neg_neg] at hq
      rw [hq]
      have := Int.tdiv_nonneg (a := -(d + s - 1)) (b := s) (by omega) (by omega)
      omega
    omega

theorem ceilN_pos (d s : Int) (hs : 0 < s) (hd : 0 < d) : ceilN d s = ceilN (d - s) s + 1 := by
  unfold ceilN
  have e1 : d + s - 1 = (d - 1) + s := by ring
  have e2 : d - s + s - 1 = d - 1 := by ring
  rw [e2, Int.tdiv_eq_ediv_of_nonneg (by omega : 0 ≤ d + s - 1), Int.tdiv_eq_ediv_of_nonneg (by omega : 0 ≤ d - 1), e1]
  have : ((d - 1) + s) / s = (d - 1) / s + 1 := by
    have := Int.add_mul_ediv_right (d - 1) 1 (Int.ne_of_gt hs)
    simpa using this
  rw [this]
  have : 0 ≤ (d - 1) / s := Int.ediv_nonneg (by omega) (by omega)
  omega

theorem iterUp_closed (B s : Int) (hs : 0 < s) :
    ∀ (f : Nat) (i : Int), (B - i).toNat < f →
      iterUp B s f i = (List.range (ceilN (B - i) s)).map fun k => i + s * (Int.ofNat k) := by
  intro f
  induction f with
  | zero => intro i h; omega
  | succ f ih =>
    intro i h
    unfold iterUp
    by_cases hlt : i < B
    · simp only [hlt, if_true]
      rw [ih (i + s) (by omega)]
      have e : B - (i + s) = (B - i) - s := by ring
      rw [ceilN_pos (B - i) s hs (by omega), ← e, List.range_succ_eq_map, List.map_cons, List.map_map]
      congr 1
      · simp
      · apply List.map_congr_left
        intro k _
        simp only [Function.comp_apply, Int.ofNat_eq_natCast, Nat.succ_eq_add_one, Nat.cast_add, Nat.cast_one]
        ring
    · simp only [hlt, if_false]
      rw [ceilN_nonpos (B - i) s hs (by omega)]
      rfl

theorem iterDown_closed (B s : Int) (hs : 0 < s) :
    ∀ (f : Nat) (i : Int), (i - B).toNat < f →
      iterDown B s f i = (List.range (ceilN (i - B) s)).map fun k => i - s * (Int.ofNat k) := by
  intro f
  induction f with
  | zero => intro i h; omega
  | succ f ih =>
    intro i h
    unfold iterDown
    by_cases hgt : i > B
    · simp only [hgt, if_true]
      rw [ih (i - s) (by omega)]
      have e : (i - s) - B = (i - B) - s := by ring
      rw [ceilN_pos (i - B) s hs (by omega), ← e, List.range_succ_eq_map, List.map_cons, List.map_map]
      congr 1
      · simp
      · apply List.map_congr_left
        intro k _
        simp only [Function.comp_apply, Int.ofNat_eq_natCast, Nat.succ_eq_add_one, Nat.cast_add, Nat.cast_one]
        ring
    · simp only [hgt, if_false]
      rw [ceilN_nonpos (i - B) s hs (by omega)]
      rfl

/-! ### a header's loop is one of the two normal forms -/

/-- effective strict bound: `i <= B` is `i < B + 1`, `i >= B` is `i > B - 1` -/
def Header.strictBound (h : Header) : Int :=
  if h.inclusive then (if h.upward then h.bound + 1 else h.bound - 1) else h.bound

theorem runFuel_up (h : Header) (hv : h.Valid) (hu : h.upward = true) :
    ∀ (f : Nat) (i : Int), runFuel h f i = iterUp h.strictBound h.step f i := by
  intro f
  induction f with
  | zero => intro i; rfl
  | succ f ih =>
    intro i
    unfold runFuel iterUp
    have hp : h.positiveUpdate = true := by rw [← hv]; exact hu
    have htest : h.test i = decide (i < h.strictBound) := by
      obtain ⟨i0, b0, c, r, u⟩ := h
      cases c <;> cases r <;>
        simp_all [Header.test, Header.strictBound, Header.upward, Header.inclusive, Cmp.holds] <;> omega
    have hnext : h.next i = i + h.step := by
      obtain ⟨i0, b0, c, r, u⟩ := h
      cases u <;> simp_all [Header.next, Header.step, Header.positiveUpdate]
    rw [htest, hnext, ih]
    by_cases hlt : i < h.strictBound <;> simp [hlt]

theorem runFuel_down (h : Header) (hv : h.Valid) (hu : h.upward = false) :
    ∀ (f : Nat) (i : Int), runFuel h f i = iterDown h.strictBound h.step f i := by
  intro f
  induction f with
  | zero => intro i; rfl
  | succ f ih =>
    intro i
    unfold runFuel iterDown
    have hp : h.positiveUpdate = false := by rw [← hv]; exact hu
    have htest : h.test i = decide (i > h.strictBound) := by
      obtain ⟨i0, b0, c, r, u⟩ := h
      cases c <;> cases r <;>
        simp_all [Header.test, Header.strictBound, Header.upward, Header.inclusive, Cmp.holds] <;> omega
    have hnext : h.next i = i - h.step := by
      obtain ⟨i0, b0, c, r, u⟩ := h
      cases u <;> simp_all [Header.next, Header.step, Header.positiveUpdate]
    rw [htest, hnext, ih]
    by_cases hgt : i > h.strictBound <;> simp [hgt]

/-- distance from the initial value to the effective strict bound, in the direction of travel -/
def Header.dist (h : Header) : Int :=
  if h.upward then h.strictBound - h.init else h.init - h.strictBound

theorem dist_lt_fuel (h : Header) : h.dist.toNat < h.fuel := by
  obtain ⟨i0, b0, c, r, u⟩ := h
  simp only [Header.dist, Header.strictBound, Header.fuel]
  split <;> split <;> omega

/-- the launcher's count is `ceil(dist / step)` in C arithmetic -/
theorem count_eq (h : Header) (hv : h.Valid) : count h = Int.tdiv (h.dist + h.step - 1) h.step := by
  obtain ⟨i0, b0, c, r, u⟩ := h
  have hv' := hv
  unfold Header.Valid at hv'
  cases c <;> cases r <;> cases u <;>
    simp_all [count, Header.dist, Header.strictBound, Header.upward, Header.inclusive, Header.positiveUpdate,
              Header.step, Int.tdiv_one] <;>
    first
      | omega
      | (congr 1; omega)

theorem valueOf_eq (h : Header) (k : Int) :
    valueOf h k = if h.positiveUpdate then h.init + h.step * k else h.init - h.step * k := by
  obtain ⟨i0, b0, c, r, u⟩ := h
  cases u <;> simp [valueOf, Header.positiveUpdate, Header.step]

/-- closed form of the sequential loop -/
theorem seqIters_closed (h : Header) (hv : h.Valid) (hs : 0 < h.step) :
    seqIters h = (List.range (ceilN h.dist h.step)).map fun k => valueOf h (Int.ofNat k) := by
  unfold seqIters
  have hf := dist_lt_fuel h
  cases hu : h.upward
  · have hp : h.positiveUpdate = false := by rw [← hv]; exact hu
    rw [runFuel_down h hv hu, iterDown_closed _ _ hs _ _ (by simpa [Header.dist, hu] using hf)]
    simp only [Header.dist, hu, valueOf_eq, hp]
    rfl
  · have hp : h.positiveUpdate = true := by rw [← hv]; exact hu
    rw [runFuel_up h hv hu, iterUp_closed _ _ hs _ _ (by simpa [Header.dist, hu] using hf)]
    simp only [Header.dist, hu, valueOf_eq, hp]
    rfl

/-- more fuel changes nothing -/
theorem runFuel_enough (h : Header) (hv : h.Valid) (hs : 0 < h.step) (n : Nat) (hn : h.fuel ≤ n) :
    runFuel h n h.init = seqIters h := by
  rw [seqIters_closed h hv hs]
  have hf := dist_lt_fuel h
  cases hu : h.upward
  · have hp : h.positiveUpdate = false := by rw [← hv]; exact hu
    rw [runFuel_down h hv hu, iterDown_closed _ _ hs _ _ (by simp only [Header.dist, hu] at hf; simp at hf; omega)]
    simp only [Header.dist, hu, valueOf_eq, hp]
    rfl
  · have hp : h.positiveUpdate = true := by rw [← hv]; exact hu
    rw [runFuel_up h hv hu, iterUp_closed _ _ hs _ _ (by simp only [Header.dist, hu] at hf; simp at hf; omega)]
    simp only [Header.dist, hu, valueOf_eq, hp]
    rfl

/-! ### the launch dimension -/

theorem two64 : (2 : Int) ^ 64 = 18446744073709551616 := by decide
theorem two63n : (2 : Nat) ^ 63 = 9223372036854775808 := by decide

/-- a count that fits a signed 64-bit integer is launched `max 0 count` times -/
theorem launched_toUDim (c : Int) (h1 : -9223372036854775808 ≤ c) (h2 : c < 9223372036854775808) :
    launched (toUDim c) = c.toNat := by
  unfold launched isNoopDim hasNegativeBit toUDim
  rw [two64, two63n]
  by_cases hc : 0 ≤ c
  · have e : c % 18446744073709551616 = c := Int.emod_eq_of_lt hc (by omega)
    rw [e]
    have hlt : c.toNat < 9223372036854775808 := by omega
    have hd : c.toNat / 9223372036854775808 = 0 := Nat.div_eq_of_lt hlt
    simp only [hd]
    by_cases hz : c.toNat = 0 <;> simp [hz]
  · have e : (c % 18446744073709551616).toNat / 9223372036854775808 = 1 := by omega
    simp only [e]
    simp
    omega

/-- the launch dimension is representable (the property's "no overflow" domain) -/
def Header.DimInRange (h : Header) : Prop :=
  -9223372036854775808 ≤ count h ∧ count h < 9223372036854775808

instance (h : Header) : Decidable h.DimInRange := by unfold Header.DimInRange; exact inferInstance

theorem launchIters_closed (h : Header) (hv : h.Valid) (hr : h.DimInRange) :
    launchIters h = (List.range (ceilN h.dist h.step)).map fun k => valueOf h (Int.ofNat k) := by
  unfold launchIters
  rw [launched_toUDim _ hr.1 hr.2, count_eq h hv]
  rfl

end Occa.Loop
