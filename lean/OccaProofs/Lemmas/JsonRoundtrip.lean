/-
Lemmas for C24: `load` after `dump` by structural induction over the value
(leaves, then the element loop of arrays and the member loop of objects).
-/
import OccaProofs.Lemmas.JsonNum
import OccaProofs.Lemmas.JsonObj

namespace Occa.Json

/-! ### leaves -/

theorem load_ws (n : Nat) (W s : Bytes) (hW : AllWs W) : load n (W ++ s) = load n s := by
  cases n with
  | zero => simp [load]
  | succ n => simp only [load, skipWs_allWs_append W s hW]

theorem load_null (n : Nat) (rest : Bytes) : load (n + 1) (sNull ++ rest) = .ok (.null, rest) := by
  simp [load, sNull, skipWs, isWs, peek, isDigit, cMinus, cLBrace, cLBrack, cApos, cQuote]

theorem load_true (n : Nat) (rest : Bytes) : load (n + 1) (sTrue ++ rest) = .ok (.num ⟨.bool, 1, []⟩, rest) := by
  simp [load, sTrue, skipWs, isWs, peek, isDigit, cMinus, cLBrace, cLBrack, cApos, cQuote]

theorem load_false (n : Nat) (rest : Bytes) : load (n + 1) (sFalse ++ rest) = .ok (.num ⟨.bool, 0, []⟩, rest) := by
  simp [load, sFalse, skipWs, isWs, peek, isDigit, cMinus, cLBrace, cLBrack, cApos, cQuote]

theorem load_str (n : Nat) (s rest : Bytes) : load (n + 1) (dumpStr s ++ rest) = .ok (.str s, rest) := by
  have h := loadStr_escBytes s rest []
  simp only [List.nil_append, cQuote] at h
  simp [load, dumpStr, skipWs, isWs, peek, isDigit, cMinus, cLBrace, cLBrack, cApos, cQuote, h]

theorem load_num (n : Nat) (p : Prim) (h : p.IsInt) (rest : Bytes) (hr : Delim rest) :
    ∃ p', load (n + 1) (p.toStr ++ rest) = .ok (.num p', rest) ∧ primEq p p' = true := by
  have hm := isInt_natAbs_lt h
  obtain ⟨c, t, hD, hc, _⟩ := natDec_head p.val.natAbs hm
  have hcf := digit_char_facts hc
  obtain ⟨p', hl, he, _⟩ := loadPrim_toStr (p.toStr ++ rest).length p h rest hr
  refine ⟨p', ?_, he⟩
  have hT := toStr_isInt h
  -- the first character is '-' or a digit
  have hhead : ∃ c t, p.toStr ++ rest = c :: t ∧ isWs c = false ∧ (isDigit c || c = cMinus) = true := by
    by_cases hv : p.val < 0
    · refine ⟨cMinus, (natDec p.val.natAbs ++ (if p.ty.isLong then [76] else [])) ++ rest, ?_, by decide, by decide⟩
      rw [hT]; simp [hv]
    · refine ⟨c, (t ++ (if p.ty.isLong then [76] else [])) ++ rest, ?_, hcf.1, by simp [hc]⟩
      rw [hT, hD]; simp [hv]
  obtain ⟨c0, t0, hs, hw, hd⟩ := hhead
  have hsk : skipWs (p.toStr ++ rest) = p.toStr ++ rest := by rw [hs]; exact skipWs_cons_nonws _ _ hw
  have hpk : peek (p.toStr ++ rest) = c0 := by rw [hs]; rfl
  simp only [load, hsk, hpk, hl]
  rw [if_pos hd]


/-! ### the values covered by the proof, and the fuel they need -/

mutual
/-- the part of the property's quantifier the round-trip proof covers: no `none_` nodes, numbers of
    bool/integer type built through the API (no source text, value in range), non-empty keys, and
    the std::map ordering of members.  Strings and keys may contain any byte. -/
def RT : Json → Prop
  | .none => False
  | .null => True
  | .num p => p.IsInt ∨ p = ⟨.bool, 0, []⟩ ∨ p = ⟨.bool, 1, []⟩
  | .str _ => True
  | .arr xs => RTL xs
  | .obj kvs => Sorted kvs ∧ RTO kvs
def RTL : List Json → Prop
  | [] => True
  | x :: xs => RT x ∧ RTL xs
def RTO : Obj → Prop
  | [] => True
  | (k, v) :: r => k ≠ [] ∧ RT v ∧ RTO r
end

mutual
/-- recursion budget `load` needs for the dumped text of a value -/
def need : Json → Nat
  | .arr xs => 2 + needL xs
  | .obj kvs => 2 + needO kvs
  | _ => 1
def needL : List Json → Nat
  | [] => 0
  | x :: xs => 1 + need x + needL xs
def needO : Obj → Nat
  | [] => 0
  | (_, v) :: r => 1 + need v + needO r
end

theorem delim_cons {c : UInt8} (t : Bytes) (h : isDelimC c = true) : Delim (c :: t) :=
  Or.inr ⟨c, t, rfl, h⟩

theorem isDelimC_of_ws {c : UInt8} (h : isWs c = true) : isDelimC c = true := by simp [isDelimC, h]

theorem delim_ws_append {W : Bytes} (hW : AllWs W) {c : UInt8} (t : Bytes) (h : isDelimC c = true) :
    Delim (W ++ c :: t) := by
  cases W with
  | nil => exact delim_cons t h
  | cons w W' => exact delim_cons _ (isDelimC_of_ws (hW w (by simp)))

/-- first character of the dumped text of a covered value: not whitespace, not a closing bracket -/
theorem dump_head (v : Json) (hv : RT v) (ind cur : Bytes) :
    ∃ c t, dump ind cur v = c :: t ∧ isWs c = false ∧ c ≠ cRBrack := by
  cases v with
  | none => exact absurd hv (by simp [RT])
  | null => exact ⟨110, _, rfl, by decide, by decide⟩
  | str s => exact ⟨cQuote, _, rfl, by decide, by decide⟩
  | num p =>
    simp only [RT] at hv
    rcases hv with h | h | h
    · have hm := isInt_natAbs_lt h
      obtain ⟨c, t, hD, hc, _⟩ := natDec_head p.val.natAbs hm
      have hcf := digit_char_facts hc
      have hT := toStr_isInt h
      by_cases hneg : p.val < 0
      · refine ⟨cMinus, natDec p.val.natAbs ++ (if p.ty.isLong then [76] else []), ?_, by decide, by decide⟩
        simp [dump, hT, hneg]
      · refine ⟨c, t ++ (if p.ty.isLong then [76] else []), ?_, hcf.1, hcf.2.2.2.2.2.2.2.1⟩
        simp [dump, hT, hneg, hD]
    · subst h; exact ⟨102, _, rfl, by decide, by decide⟩
    · subst h; exact ⟨116, _, rfl, by decide, by decide⟩
  | arr xs =>
    cases xs with
    | nil => exact ⟨cLBrack, _, rfl, by decide, by decide⟩
    | cons x xs => exact ⟨cLBrack, _, by simp only [dump, List.isEmpty_cons, Bool.false_eq_true, if_false]; rfl, by decide, by decide⟩
  | obj kvs =>
    cases kvs with
    | nil => exact ⟨cLBrace, _, rfl, by decide, by decide⟩
    | cons x xs => exact ⟨cLBrace, _, by simp only [dump, List.isEmpty_cons, Bool.false_eq_true, if_false]; rfl, by decide, by decide⟩

/-! ### the round trip -/

theorem sepAfter_last_delim (ind cur rest : Bytes) (hcur : AllWs cur) :
    Delim (sepAfter ind true ++ (cur ++ cRBrack :: rest)) := by
  unfold sepAfter
  by_cases hi : ind.isEmpty = true
  · simp only [hi, if_true, List.nil_append]
    exact delim_ws_append hcur rest (by decide)
  · simp only [hi, if_false, Bool.false_eq_true]
    exact delim_cons _ (by decide)

theorem sepAfter_more (ind : Bytes) : ∃ w, AllWs [w] ∧ sepAfter ind false = [cComma, w] := by
  unfold sepAfter
  by_cases hi : ind.isEmpty = true
  · exact ⟨cSp, by intro c hc; simp at hc; subst hc; decide, by simp [hi]⟩
  · exact ⟨cNl, by intro c hc; simp at hc; subst hc; decide, by simp [hi]⟩

mutual
theorem rt_val : ∀ (v : Json), RT v → ∀ (ind cur rest : Bytes) (n : Nat), AllWs ind → AllWs cur → Delim rest → need v ≤ n →
    ∃ v', load n (dump ind cur v ++ rest) = .ok (v', rest) ∧ jsonEq v v' = true
  | .none, hv, _, _, _, _, _, _, _, _ => absurd hv (by simp [RT])
  | .null, _, ind, cur, rest, n, _, _, _, hn => by
    cases n with
    | zero => simp [need] at hn
    | succ n => exact ⟨.null, by simpa [dump] using load_null n rest, by simp [jsonEq]⟩
  | .str s, _, ind, cur, rest, n, _, _, _, hn => by
    cases n with
    | zero => simp [need] at hn
    | succ n => exact ⟨.str s, by simpa [dump] using load_str n s rest, by simp [jsonEq]⟩
  | .num p, hv, ind, cur, rest, n, _, _, hr, hn => by
    cases n with
    | zero => simp [need] at hn
    | succ n =>
      simp only [RT] at hv
      rcases hv with h | h | h
      · obtain ⟨p', hl, he⟩ := load_num n p h rest hr
        exact ⟨.num p', by simpa [dump] using hl, by simpa [jsonEq] using he⟩
      · subst h
        exact ⟨_, by simpa [dump, Prim.toStr] using load_false n rest, by simp [jsonEq, primEq, maxTy, PType.rank, Prim.toInt, PType.wrap]⟩
      · subst h
        exact ⟨_, by simpa [dump, Prim.toStr] using load_true n rest, by simp [jsonEq, primEq, maxTy, PType.rank, Prim.toInt, PType.wrap]⟩
  | .arr xs, hv, ind, cur, rest, n, hind, hcur, hr, hn => by
    cases xs with
    | nil =>
      match n, hn with
      | 0, hn => simp [need, needL] at hn
      | 1, hn => simp [need, needL] at hn
      | n + 2, _ =>
        refine ⟨.arr [], ?_, by simp [jsonEq, eqList]⟩
        simp [dump, load, loadArrLoop, skipWs, isWs, peek, isDigit, cMinus, cLBrace, cLBrack, cRBrack]
    | cons x xs' =>
      match n, hn with
      | 0, hn => simp [need, needL] at hn
      | n + 1, hn =>
        have hni : AllWs (cur ++ ind) := allWs_append hcur hind
        have hW : AllWs (if ind.isEmpty then [] else [cNl]) := by
          by_cases hi : ind.isEmpty = true
          · simp [hi]; exact allWs_nil
          · simp [hi]; intro c hc; simp at hc; subst hc; decide
        obtain ⟨xs2, hl, he⟩ := rt_arrLoop (x :: xs') (by simp) (by simpa [RT] using hv) ind (cur ++ ind) cur
          (if ind.isEmpty then [] else [cNl]) rest [] n hind hni hcur hW (by simp [need] at hn; omega)
        refine ⟨.arr xs2, ?_, by simpa [jsonEq] using he⟩
        simp only [dump, List.isEmpty_cons, Bool.false_eq_true, if_false, load]
        have : skipWs (cLBrack :: ((if ind.isEmpty then [] else [cNl]) ++ dumpArr ind (cur ++ ind) (x :: xs') ++ cur ++ [cRBrack]) ++ rest)
            = cLBrack :: ((if ind.isEmpty then [] else [cNl]) ++ (dumpArr ind (cur ++ ind) (x :: xs') ++ (cur ++ cRBrack :: rest))) := by
          simp [skipWs, isWs, cLBrack]
        rw [this]
        simp only [peek, List.drop_succ_cons, List.drop_zero]
        simp only [show isDigit cLBrack = false by decide, show (cLBrack = cMinus) = False by decide,
          show (cLBrack = cLBrace) = False by decide, Bool.false_or, decide_false, if_false, if_true, Bool.false_eq_true]
        simpa using hl
  | .obj kvs, hv, ind, cur, rest, n, hind, hcur, hr, hn => by
    cases kvs with
    | nil =>
      match n, hn with
      | 0, hn => simp [need, needO] at hn
      | 1, hn => simp [need, needO] at hn
      | n + 2, _ =>
        refine ⟨.obj [], ?_, by simp [jsonEq, eqObj]⟩
        simp [dump, load, loadObjLoop, skipWs, isWs, peek, isDigit, cMinus, cLBrace, cLBrack, cRBrace]
    | cons kv kvs' =>
      match n, hn with
      | 0, hn => simp [need, needO] at hn
      | n + 1, hn =>
        simp only [RT] at hv
        have hni : AllWs (cur ++ ind) := allWs_append hcur hind
        have hW : AllWs (if ind.isEmpty then [] else [cNl]) := by
          by_cases hi : ind.isEmpty = true
          · simp [hi]; exact allWs_nil
          · simp [hi]; intro c hc; simp at hc; subst hc; decide
        have hT : AllWs (if ind.isEmpty then [] else cur) := by
          by_cases hi : ind.isEmpty = true
          · simp [hi]; exact allWs_nil
          · simp [hi]; exact hcur
        obtain ⟨kvs2, hl, he⟩ := rt_objLoop (kv :: kvs') (by simp) hv.2 hv.1 ind (cur ++ ind)
          (if ind.isEmpty then [] else cur) (if ind.isEmpty then [] else [cNl]) rest [] n hind hni hT hW
          (by intro p hp; simp at hp) (by simp [need] at hn; omega)
        refine ⟨.obj kvs2, ?_, by simpa [jsonEq] using he⟩
        simp only [dump, List.isEmpty_cons, Bool.false_eq_true, if_false, load]
        have : skipWs (cLBrace :: ((if ind.isEmpty then [] else [cNl]) ++ dumpObj ind (cur ++ ind) (kv :: kvs')
              ++ (if ind.isEmpty then [] else cur) ++ [cRBrace]) ++ rest)
            = cLBrace :: ((if ind.isEmpty then [] else [cNl]) ++ (dumpObj ind (cur ++ ind) (kv :: kvs')
              ++ ((if ind.isEmpty then [] else cur) ++ cRBrace :: rest))) := by
          simp [skipWs, isWs, cLBrace]
        rw [this]
        simp only [peek, List.drop_succ_cons, List.drop_zero]
        simp only [show isDigit cLBrace = false by decide, show (cLBrace = cMinus) = False by decide,
          Bool.false_or, decide_false, if_false, if_true, Bool.false_eq_true]
        simpa using hl
theorem rt_arrLoop : ∀ (xs : List Json), xs ≠ [] → RTL xs → ∀ (ind ni cur W rest : Bytes) (acc : List Json) (n : Nat),
    AllWs ind → AllWs ni → AllWs cur → AllWs W → needL xs ≤ n →
    ∃ xs', loadArrLoop n (W ++ (dumpArr ind ni xs ++ (cur ++ cRBrack :: rest))) acc = .ok (.arr (acc ++ xs'), rest)
      ∧ eqList xs xs' = true
  | [], h, _, _, _, _, _, _, _, _, _, _, _, _, _ => absurd rfl h
  | x :: xs, _, hRT, ind, ni, cur, W, rest, acc, n, hind, hni, hcur, hW, hn => by
    obtain ⟨hx, hxs⟩ := hRT
    match n, hn with
    | 0, hn => simp [needL] at hn
    | n + 1, hn =>
      simp only [needL] at hn
      obtain ⟨c, t, hd, hcw, hcb⟩ := dump_head x hx ind ni
      -- the text after the element
      cases xs with
      | nil =>
        have hdel := sepAfter_last_delim ind cur rest hcur
        obtain ⟨x', hx', hex⟩ := rt_val x hx ind ni _ n hind hni hdel (by omega)
        refine ⟨[x'], ?_, by simp [eqList, hex]⟩
        have hs0 : W ++ (dumpArr ind ni [x] ++ (cur ++ cRBrack :: rest))
            = (W ++ ni) ++ (dump ind ni x ++ (sepAfter ind true ++ (cur ++ cRBrack :: rest))) := by
          simp [dumpArr]
        rw [hs0]
        have hne : ((W ++ ni) ++ (dump ind ni x ++ (sepAfter ind true ++ (cur ++ cRBrack :: rest)))).isEmpty = false := by
          rw [hd]; simp
        have hsk : skipWs ((W ++ ni) ++ (dump ind ni x ++ (sepAfter ind true ++ (cur ++ cRBrack :: rest))))
            = dump ind ni x ++ (sepAfter ind true ++ (cur ++ cRBrack :: rest)) := by
          rw [skipWs_allWs_append _ _ (allWs_append hW hni), hd]
          exact skipWs_cons_nonws _ _ hcw
        have hpk : peek (dump ind ni x ++ (sepAfter ind true ++ (cur ++ cRBrack :: rest))) = c := by rw [hd]; rfl
        simp only [loadArrLoop, hne, hsk, hpk, hcb, hx', if_false, Bool.false_eq_true]
        -- after the element: optional newline, cur, then ']'
        have hws : AllWs (sepAfter ind true ++ cur) := by
          refine allWs_append ?_ hcur
          unfold sepAfter
          by_cases hi : ind.isEmpty = true
          · simp [hi]; exact allWs_nil
          · simp [hi]; intro c hc; simp at hc; subst hc; decide
        have hsk2 : skipWs (sepAfter ind true ++ (cur ++ cRBrack :: rest)) = cRBrack :: rest := by
          have : sepAfter ind true ++ (cur ++ cRBrack :: rest) = (sepAfter ind true ++ cur) ++ (cRBrack :: rest) := by simp
          rw [this, skipWs_allWs_append _ _ hws]
          exact skipWs_cons_nonws _ _ (by decide)
        rw [hsk2]
        simp [peek, cRBrack, cComma]
      | cons y ys =>
        obtain ⟨w, hw, hsep⟩ := sepAfter_more ind
        have hdel : Delim (sepAfter ind false ++ (dumpArr ind ni (y :: ys) ++ (cur ++ cRBrack :: rest))) := by
          rw [hsep]; exact delim_cons _ (by decide)
        obtain ⟨x', hx', hex⟩ := rt_val x hx ind ni _ n hind hni hdel (by omega)
        obtain ⟨xs2, hl2, he2⟩ := rt_arrLoop (y :: ys) (by simp) hxs ind ni cur [w] rest (acc ++ [x']) n hind hni hcur hw (by omega)
        refine ⟨x' :: xs2, ?_, by simp [eqList, hex, he2]⟩
        have hs0 : W ++ (dumpArr ind ni (x :: y :: ys) ++ (cur ++ cRBrack :: rest))
            = (W ++ ni) ++ (dump ind ni x ++ (sepAfter ind false ++ (dumpArr ind ni (y :: ys) ++ (cur ++ cRBrack :: rest)))) := by
          rw [dumpArr]; simp
        rw [hs0]
        have hne : ((W ++ ni) ++ (dump ind ni x ++ (sepAfter ind false ++ (dumpArr ind ni (y :: ys) ++ (cur ++ cRBrack :: rest))))).isEmpty = false := by
          rw [hd]; simp
        have hsk : skipWs ((W ++ ni) ++ (dump ind ni x ++ (sepAfter ind false ++ (dumpArr ind ni (y :: ys) ++ (cur ++ cRBrack :: rest)))))
            = dump ind ni x ++ (sepAfter ind false ++ (dumpArr ind ni (y :: ys) ++ (cur ++ cRBrack :: rest))) := by
          rw [skipWs_allWs_append _ _ (allWs_append hW hni), hd]
          exact skipWs_cons_nonws _ _ hcw
        have hpk : peek (dump ind ni x ++ (sepAfter ind false ++ (dumpArr ind ni (y :: ys) ++ (cur ++ cRBrack :: rest)))) = c := by rw [hd]; rfl
        simp only [loadArrLoop, hne, hsk, hpk, hcb, hx', if_false, Bool.false_eq_true]
        have hsk2 : skipWs (sepAfter ind false ++ (dumpArr ind ni (y :: ys) ++ (cur ++ cRBrack :: rest)))
            = cComma :: ([w] ++ (dumpArr ind ni (y :: ys) ++ (cur ++ cRBrack :: rest))) := by
          rw [hsep]; exact skipWs_cons_nonws _ _ (by decide)
        rw [hsk2]
        simp only [peek, if_true, List.drop_succ_cons, List.drop_zero, hl2]
        simp
theorem rt_objLoop : ∀ (kvs : Obj), kvs ≠ [] → RTO kvs → Sorted kvs →
    ∀ (ind ni tw W rest : Bytes) (acc : Obj) (n : Nat),
    AllWs ind → AllWs ni → AllWs tw → AllWs W → (∀ p ∈ acc, ∀ q ∈ kvs, p.1 < q.1) → needO kvs ≤ n →
    ∃ kvs', loadObjLoop n true (W ++ (dumpObj ind ni kvs ++ (tw ++ cRBrace :: rest))) acc = .ok (.obj (acc ++ kvs'), rest)
      ∧ eqObj kvs kvs' = true
  | [], h, _, _, _, _, _, _, _, _, _, _, _, _, _, _, _ => absurd rfl h
  | (k, v) :: r, _, hRT, hS, ind, ni, tw, W, rest, acc, n, hind, hni, htw, hW, hacc, hn => by
    obtain ⟨hk, hv, hr⟩ := hRT
    obtain ⟨hgt, hSr⟩ := hS
    match n, hn with
    | 0, hn => simp [needO] at hn
    | n + 1, hn =>
      simp only [needO] at hn
      have hvn : v.isNone = false := by
        cases v <;> first | rfl | exact absurd hv (by simp [RT])
      have hins : ∀ v', insert k v' acc = acc ++ [(k, v')] :=
        fun v' => insert_append v' (fun p hp => hacc p hp (k, v) (by simp))
      cases r with
      | nil =>
        have hdel : Delim (sepAfter ind true ++ (tw ++ cRBrace :: rest)) := by
          unfold sepAfter
          by_cases hi : ind.isEmpty = true
          · simp only [hi, if_true, List.nil_append]
            exact delim_ws_append htw rest (by decide)
          · simp only [hi, if_false, Bool.false_eq_true]
            exact delim_cons _ (by decide)
        obtain ⟨v', hv', hev⟩ := rt_val v hv ind ni _ n hind hni hdel (by omega)
        refine ⟨[(k, v')], ?_, by simp [eqObj, hev]⟩
        have hs0 : W ++ (dumpObj ind ni [(k, v)] ++ (tw ++ cRBrace :: rest))
            = (W ++ ni) ++ (cQuote :: (escBytes k ++ cQuote :: (cColon :: cSp :: (dump ind ni v ++ (sepAfter ind true ++ (tw ++ cRBrace :: rest)))))) := by
          simp [dumpObj, hvn, dumpStr]
        rw [hs0]
        have hsk : skipWs ((W ++ ni) ++ (cQuote :: (escBytes k ++ cQuote :: (cColon :: cSp :: (dump ind ni v ++ (sepAfter ind true ++ (tw ++ cRBrace :: rest)))))))
            = cQuote :: (escBytes k ++ cQuote :: (cColon :: cSp :: (dump ind ni v ++ (sepAfter ind true ++ (tw ++ cRBrace :: rest))))) := by
          rw [skipWs_allWs_append _ _ (allWs_append hW hni)]
          exact skipWs_cons_nonws _ _ (by decide)
        have hkey := loadStr_escBytes k (cColon :: cSp :: (dump ind ni v ++ (sepAfter ind true ++ (tw ++ cRBrace :: rest)))) []
        simp only [List.nil_append] at hkey
        have hld : load n (cSp :: (dump ind ni v ++ (sepAfter ind true ++ (tw ++ cRBrace :: rest)))) = .ok (v', sepAfter ind true ++ (tw ++ cRBrace :: rest)) := by
          have := load_ws n [cSp] (dump ind ni v ++ (sepAfter ind true ++ (tw ++ cRBrace :: rest))) (by intro c hc; simp at hc; subst hc; decide)
          simpa [hv'] using this
        have hws : AllWs (sepAfter ind true ++ tw) := by
          refine allWs_append ?_ htw
          unfold sepAfter
          by_cases hi : ind.isEmpty = true
          · simp [hi]; exact allWs_nil
          · simp [hi]; intro c hc; simp at hc; subst hc; decide
        have hsk2 : skipWs (sepAfter ind true ++ (tw ++ cRBrace :: rest)) = cRBrace :: rest := by
          have : sepAfter ind true ++ (tw ++ cRBrace :: rest) = (sepAfter ind true ++ tw) ++ (cRBrace :: rest) := by simp
          rw [this, skipWs_allWs_append _ _ hws]
          exact skipWs_cons_nonws _ _ (by decide)
        have hkne : k.isEmpty = false := by cases k <;> simp_all
        have hne0 : ((W ++ ni) ++ (cQuote :: (escBytes k ++ cQuote :: (cColon :: cSp :: (dump ind ni v ++ (sepAfter ind true ++ (tw ++ cRBrace :: rest))))))).isEmpty = false := by simp
        simp only [loadObjLoop, hsk, hne0]
        simp only [Bool.false_eq_true, if_false, peek,
          show (cQuote = cRBrace) = False by decide, show (cQuote = (0 : UInt8)) = False by decide, decide_false,
          Bool.or_self, if_true, List.drop_succ_cons, List.drop_zero, hkey, hkne]
        simp only [show skipWs (cColon :: cSp :: (dump ind ni v ++ (sepAfter ind true ++ (tw ++ cRBrace :: rest))))
            = cColon :: cSp :: (dump ind ni v ++ (sepAfter ind true ++ (tw ++ cRBrace :: rest))) from skipWs_cons_nonws _ _ (by decide),
          peek, ne_eq, not_true_eq_false, if_false, List.drop_succ_cons, List.drop_zero, hld, hsk2, hins]
        simp [cRBrace, cComma]
      | cons q r' =>
        obtain ⟨w, hw, hsep⟩ := sepAfter_more ind
        have hdel : Delim (sepAfter ind false ++ (dumpObj ind ni (q :: r') ++ (tw ++ cRBrace :: rest))) := by
          rw [hsep]; exact delim_cons _ (by decide)
        obtain ⟨v', hv', hev⟩ := rt_val v hv ind ni _ n hind hni hdel (by omega)
        have hacc' : ∀ p ∈ acc ++ [(k, v')], ∀ q' ∈ q :: r', p.1 < q'.1 := by
          intro p hp q' hq'
          rcases List.mem_append.mp hp with hp | hp
          · exact hacc p hp q' (List.mem_cons_of_mem _ hq')
          · simp at hp; subst hp; exact hgt q' hq'
        obtain ⟨kvs2, hl2, he2⟩ := rt_objLoop (q :: r') (by simp) hr hSr ind ni tw [w] rest (acc ++ [(k, v')]) n
          hind hni htw hw hacc' (by omega)
        refine ⟨(k, v') :: kvs2, ?_, by simp [eqObj, hev, he2]⟩
        have hs0 : W ++ (dumpObj ind ni ((k, v) :: q :: r') ++ (tw ++ cRBrace :: rest))
            = (W ++ ni) ++ (cQuote :: (escBytes k ++ cQuote :: (cColon :: cSp :: (dump ind ni v ++ (sepAfter ind false ++ (dumpObj ind ni (q :: r') ++ (tw ++ cRBrace :: rest))))))) := by
          rw [dumpObj]; simp [hvn, dumpStr]
        rw [hs0]
        have hsk : skipWs ((W ++ ni) ++ (cQuote :: (escBytes k ++ cQuote :: (cColon :: cSp :: (dump ind ni v ++ (sepAfter ind false ++ (dumpObj ind ni (q :: r') ++ (tw ++ cRBrace :: rest))))))))
            = cQuote :: (escBytes k ++ cQuote :: (cColon :: cSp :: (dump ind ni v ++ (sepAfter ind false ++ (dumpObj ind ni (q :: r') ++ (tw ++ cRBrace :: rest)))))) := by
          rw [skipWs_allWs_append _ _ (allWs_append hW hni)]
          exact skipWs_cons_nonws _ _ (by decide)
        have hkey := loadStr_escBytes k (cColon :: cSp :: (dump ind ni v ++ (sepAfter ind false ++ (dumpObj ind ni (q :: r') ++ (tw ++ cRBrace :: rest))))) []
        simp only [List.nil_append] at hkey
        have hld : load n (cSp :: (dump ind ni v ++ (sepAfter ind false ++ (dumpObj ind ni (q :: r') ++ (tw ++ cRBrace :: rest)))))
            = .ok (v', sepAfter ind false ++ (dumpObj ind ni (q :: r') ++ (tw ++ cRBrace :: rest))) := by
          have := load_ws n [cSp] (dump ind ni v ++ (sepAfter ind false ++ (dumpObj ind ni (q :: r') ++ (tw ++ cRBrace :: rest)))) (by intro c hc; simp at hc; subst hc; decide)
          simpa [hv'] using this
        have hsk2 : skipWs (sepAfter ind false ++ (dumpObj ind ni (q :: r') ++ (tw ++ cRBrace :: rest)))
            = cComma :: ([w] ++ (dumpObj ind ni (q :: r') ++ (tw ++ cRBrace :: rest))) := by
          rw [hsep]; exact skipWs_cons_nonws _ _ (by decide)
        have hkne : k.isEmpty = false := by cases k <;> simp_all
        have hne0 : ((W ++ ni) ++ (cQuote :: (escBytes k ++ cQuote :: (cColon :: cSp :: (dump ind ni v ++ (sepAfter ind false ++ (dumpObj ind ni (q :: r') ++ (tw ++ cRBrace :: rest)))))))).isEmpty = false := by simp
        simp only [loadObjLoop, hsk, hne0]
        simp only [Bool.false_eq_true, if_false, peek,
          show (cQuote = cRBrace) = False by decide, show (cQuote = (0 : UInt8)) = False by decide, decide_false,
          Bool.or_self, if_true, List.drop_succ_cons, List.drop_zero, hkey, hkne]
        simp only [show skipWs (cColon :: cSp :: (dump ind ni v ++ (sepAfter ind false ++ (dumpObj ind ni (q :: r') ++ (tw ++ cRBrace :: rest)))))
            = cColon :: cSp :: (dump ind ni v ++ (sepAfter ind false ++ (dumpObj ind ni (q :: r') ++ (tw ++ cRBrace :: rest)))) from skipWs_cons_nonws _ _ (by decide),
          peek, ne_eq, not_true_eq_false, if_false, List.drop_succ_cons, List.drop_zero, hld, hsk2, hins, if_true, hl2]
        simp
end

/-! ### the recursion budget of `parse` suffices for dumped text -/

mutual
theorem bound_val : ∀ (v : Json), RT v → ∀ (ind cur : Bytes), need v + 1 ≤ 2 * (dump ind cur v).length
  | .none, hv, _, _ => absurd hv (by simp [RT])
  | .null, _, _, _ => by simp [need, dump, sNull]
  | .str s, _, _, _ => by simp [need, dump, dumpStr]; omega
  | .num p, hv, ind, cur => by
    obtain ⟨c, t, hd, _, _⟩ := dump_head (.num p) hv ind cur
    rw [hd]; simp [need]; omega
  | .arr xs, hv, ind, cur => by
    cases xs with
    | nil => simp [need, needL, dump]
    | cons x xs' =>
      have := bound_arr (x :: xs') (by simpa [RT] using hv) ind (cur ++ ind)
      simp only [need, dump, List.isEmpty_cons, Bool.false_eq_true, if_false, List.length_cons, List.length_append]
      omega
  | .obj kvs, hv, ind, cur => by
    cases kvs with
    | nil => simp [need, needO, dump]
    | cons kv kvs' =>
      simp only [RT] at hv
      have := bound_obj (kv :: kvs') hv.2 ind (cur ++ ind)
      simp only [need, dump, List.isEmpty_cons, Bool.false_eq_true, if_false, List.length_cons, List.length_append]
      omega
theorem bound_arr : ∀ (xs : List Json), RTL xs → ∀ (ind ni : Bytes), needL xs ≤ 2 * (dumpArr ind ni xs).length
  | [], _, _, _ => by simp [needL]
  | x :: xs, h, ind, ni => by
    obtain ⟨hx, hxs⟩ := h
    have h1 := bound_val x hx ind ni
    have h2 := bound_arr xs hxs ind ni
    simp only [needL, dumpArr, List.length_append]
    omega
theorem bound_obj : ∀ (kvs : Obj), RTO kvs → ∀ (ind ni : Bytes), needO kvs ≤ 2 * (dumpObj ind ni kvs).length
  | [], _, _, _ => by simp [needO]
  | (k, v) :: r, h, ind, ni => by
    obtain ⟨_, hv, hr⟩ := h
    have h1 := bound_val v hv ind ni
    have h2 := bound_obj r hr ind ni
    have hvn : v.isNone = false := by
      cases v <;> first | rfl | exact absurd hv (by simp [RT])
    simp only [needO, dumpObj, hvn, Bool.false_eq_true, if_false, List.length_append]
    omega
end

/-! ### NUL-free values have NUL-free text -/

def NoNulB (s : Bytes) : Prop := ∀ c ∈ s, c ≠ 0

mutual
/-- no string and no key contains a NUL byte -/
def NoNul : Json → Prop
  | .str s => NoNulB s
  | .arr xs => NoNulL xs
  | .obj kvs => NoNulO kvs
  | _ => True
def NoNulL : List Json → Prop
  | [] => True
  | x :: xs => NoNul x ∧ NoNulL xs
def NoNulO : Obj → Prop
  | [] => True
  | (k, v) :: r => NoNulB k ∧ NoNul v ∧ NoNulO r
end

theorem noNulB_append {a b : Bytes} (ha : NoNulB a) (hb : NoNulB b) : NoNulB (a ++ b) := by
  intro c h
  rcases List.mem_append.mp h with h | h
  · exact ha c h
  · exact hb c h

theorem noNulB_of_allWs {s : Bytes} (h : AllWs s) : NoNulB s := by
  intro c hc e; subst e; exact absurd (h 0 hc) (by decide)

theorem noNulB_lit {s : Bytes} (h : s.all (· ≠ 0) = true) : NoNulB s := by
  intro c hc
  have := List.all_eq_true.mp h c hc
  simpa using this

theorem noNulB_escBytes {s : Bytes} (h : NoNulB s) : NoNulB (escBytes s) := by
  induction s with
  | nil => intro c hc; simp [escBytes] at hc
  | cons a t ih =>
    have ha : a ≠ 0 := h a (by simp)
    have ht : NoNulB t := fun c hc => h c (by simp [hc])
    simp only [escBytes]
    refine noNulB_append ?_ (ih ht)
    have key : ∀ n, n < 256 → UInt8.ofNat n ≠ 0 → (escByte (UInt8.ofNat n)).all (· ≠ 0) = true := by
      decide +kernel
    have := key a.toNat (UInt8.toNat_lt a)
    simp only [UInt8.ofNat_toNat] at this
    exact noNulB_lit (this ha)

theorem noNulB_dumpStr {s : Bytes} (h : NoNulB s) : NoNulB (dumpStr s) := by
  unfold dumpStr
  intro c hc
  simp only [List.mem_cons, List.mem_append] at hc
  rcases hc with hc | hc | hc
  · subst hc; decide
  · exact noNulB_escBytes h c hc
  · simp at hc; subst hc; decide

theorem noNulB_toStr {p : Prim} (h : p.IsInt ∨ p = ⟨.bool, 0, []⟩ ∨ p = ⟨.bool, 1, []⟩) : NoNulB p.toStr := by
  rcases h with h | h | h
  · rw [toStr_isInt h]
    refine noNulB_append ?_ (noNulB_append ?_ ?_)
    · split <;> intro c hc <;> simp at hc; subst hc; decide
    · intro c hc; exact (digit_char_facts (natDec_allDigits _ c hc)).2.2.2.2.2.2.2.2
    · split <;> intro c hc <;> simp at hc; subst hc; decide
  · subst h; exact noNulB_lit (by decide)
  · subst h; exact noNulB_lit (by decide)

theorem noNulB_sepAfter (ind : Bytes) (b : Bool) : NoNulB (sepAfter ind b) := by
  unfold sepAfter
  split <;> split <;> exact noNulB_lit (by decide)

mutual
theorem noNul_dump : ∀ (v : Json), RT v → NoNul v → ∀ (ind cur : Bytes), AllWs ind → AllWs cur → NoNulB (dump ind cur v)
  | .none, hv, _, _, _, _, _ => absurd hv (by simp [RT])
  | .null, _, _, _, _, _, _ => by simp only [dump]; exact noNulB_lit (by decide)
  | .str s, _, hn, _, _, _, _ => by simp only [dump]; exact noNulB_dumpStr (by simpa [NoNul] using hn)
  | .num p, hv, _, _, _, _, _ => by simp only [dump]; exact noNulB_toStr (by simpa [RT] using hv)
  | .arr xs, hv, hn, ind, cur, hi, hc => by
    simp only [dump]
    split
    · exact noNulB_lit (by decide)
    · have hni : AllWs (cur ++ ind) := allWs_append hc hi
      have := noNul_dumpArr xs (by simpa [RT] using hv) (by simpa [NoNul] using hn) ind (cur ++ ind) hi hni
      intro c hcm
      simp only [List.mem_cons, List.mem_append] at hcm
      rcases hcm with e | ((e | e) | e) | e
      · subst e; decide
      · split at e <;> simp at e; subst e; decide
      · exact this c e
      · exact noNulB_of_allWs hc c e
      · simp at e; subst e; decide
  | .obj kvs, hv, hn, ind, cur, hi, hc => by
    simp only [dump]
    simp only [RT] at hv
    split
    · exact noNulB_lit (by decide)
    · have hni : AllWs (cur ++ ind) := allWs_append hc hi
      have := noNul_dumpObj kvs hv.2 (by simpa [NoNul] using hn) ind (cur ++ ind) hi hni
      intro c hcm
      simp only [List.mem_cons, List.mem_append] at hcm
      rcases hcm with e | ((e | e) | e) | e
      · subst e; decide
      · split at e <;> simp at e; subst e; decide
      · exact this c e
      · split at e
        · simp at e
        · exact noNulB_of_allWs hc c e
      · simp at e; subst e; decide
theorem noNul_dumpArr : ∀ (xs : List Json), RTL xs → NoNulL xs → ∀ (ind ni : Bytes), AllWs ind → AllWs ni → NoNulB (dumpArr ind ni xs)
  | [], _, _, _, _, _, _ => by intro c hc; simp [dumpArr] at hc
  | x :: xs, hv, hn, ind, ni, hi, hni => by
    simp only [dumpArr]
    exact noNulB_append (noNulB_append (noNulB_append (noNulB_of_allWs hni) (noNul_dump x hv.1 hn.1 ind ni hi hni))
      (noNulB_sepAfter _ _)) (noNul_dumpArr xs hv.2 hn.2 ind ni hi hni)
theorem noNul_dumpObj : ∀ (kvs : Obj), RTO kvs → NoNulO kvs → ∀ (ind ni : Bytes), AllWs ind → AllWs ni → NoNulB (dumpObj ind ni kvs)
  | [], _, _, _, _, _, _ => by intro c hc; simp [dumpObj] at hc
  | (k, v) :: r, hv, hn, ind, ni, hi, hni => by
    have hvn : v.isNone = false := by
      cases v <;> first | rfl | exact absurd hv.2.1 (by simp [RT])
    simp only [dumpObj, hvn, Bool.false_eq_true, if_false]
    exact noNulB_append (noNulB_append (noNulB_append (noNulB_append (noNulB_append (noNulB_of_allWs hni) (noNulB_dumpStr hn.1))
      (noNulB_lit (by decide))) (noNul_dump v hv.2.1 hn.2.1 ind ni hi hni)) (noNulB_sepAfter _ _)) (noNul_dumpObj r hv.2.2 hn.2.2 ind ni hi hni)
end

theorem cstr_of_noNul {s : Bytes} (h : NoNulB s) : cstr s = s := by
  unfold cstr
  induction s with
  | nil => rfl
  | cons a t ih =>
    have ha : a ≠ 0 := h a (by simp)
    simp only [List.takeWhile_cons, ha, ne_eq, not_false_eq_true, decide_true, if_true]
    rw [ih (fun c hc => h c (by simp [hc]))]


/-! ### decidable guards -/

def isIntB (p : Prim) : Bool :=
  p.src.isEmpty && decide (p.ty.wrap p.val = p.val) &&
    (p.ty = .i8 || p.ty = .u8 || p.ty = .i16 || p.ty = .u16 || p.ty = .i32 || p.ty = .u32 || p.ty = .i64 || p.ty = .u64)

theorem isInt_of_isIntB {p : Prim} (h : isIntB p = true) : p.IsInt := by
  simp only [isIntB, Bool.and_eq_true, Bool.or_eq_true, decide_eq_true_eq, List.isEmpty_iff] at h
  obtain ⟨⟨h1, h2⟩, h3⟩ := h
  refine ⟨h1, h2, ?_⟩
  rcases h3 with ((((((h3 | h3) | h3) | h3) | h3) | h3) | h3) | h3 <;> simp [h3]

mutual
/-- executable form of `RT` -/
def coveredB : Json → Bool
  | .none => false
  | .null => true
  | .num p => isIntB p || p == ⟨.bool, 0, []⟩ || p == ⟨.bool, 1, []⟩
  | .str _ => true
  | .arr xs => coveredL xs
  | .obj kvs => keysSorted kvs && coveredO kvs
def coveredL : List Json → Bool
  | [] => true
  | x :: xs => coveredB x && coveredL xs
def coveredO : Obj → Bool
  | [] => true
  | (k, v) :: r => !k.isEmpty && coveredB v && coveredO r
end

mutual
theorem rt_of_coveredB : ∀ v, coveredB v = true → RT v
  | .none, h => by simp [coveredB] at h
  | .null, _ => trivial
  | .str _, _ => trivial
  | .num p, h => by
    simp only [coveredB, Bool.or_eq_true, beq_iff_eq] at h
    rcases h with (h | h) | h
    · exact Or.inl (isInt_of_isIntB h)
    · exact Or.inr (Or.inl h)
    · exact Or.inr (Or.inr h)
  | .arr xs, h => by simp only [coveredB] at h; exact rtl_of_coveredL xs h
  | .obj kvs, h => by
    simp only [coveredB, Bool.and_eq_true] at h
    exact ⟨(keysSorted_iff _).mp h.1, rto_of_coveredO kvs h.2⟩
theorem rtl_of_coveredL : ∀ xs, coveredL xs = true → RTL xs
  | [], _ => trivial
  | x :: xs, h => by
    simp only [coveredL, Bool.and_eq_true] at h
    exact ⟨rt_of_coveredB x h.1, rtl_of_coveredL xs h.2⟩
theorem rto_of_coveredO : ∀ kvs, coveredO kvs = true → RTO kvs
  | [], _ => trivial
  | (k, v) :: r, h => by
    simp only [coveredO, Bool.and_eq_true, Bool.not_eq_true', List.isEmpty_eq_false_iff] at h
    exact ⟨h.1.1, rt_of_coveredB v h.1.2, rto_of_coveredO r h.2⟩
end

mutual
/-- executable form of `NoNul` -/
def nulFreeB : Json → Bool
  | .str s => s.all (· ≠ 0)
  | .arr xs => nulFreeL xs
  | .obj kvs => nulFreeO kvs
  | _ => true
def nulFreeL : List Json → Bool
  | [] => true
  | x :: xs => nulFreeB x && nulFreeL xs
def nulFreeO : Obj → Bool
  | [] => true
  | (k, v) :: r => k.all (· ≠ 0) && nulFreeB v && nulFreeO r
end

mutual
theorem noNul_of_nulFreeB : ∀ v, nulFreeB v = true → NoNul v
  | .none, _ => trivial
  | .null, _ => trivial
  | .num _, _ => trivial
  | .str s, h => by simp only [nulFreeB] at h; exact noNulB_lit h
  | .arr xs, h => by simp only [nulFreeB] at h; exact noNulL_of_nulFreeL xs h
  | .obj kvs, h => by simp only [nulFreeB] at h; exact noNulO_of_nulFreeO kvs h
theorem noNulL_of_nulFreeL : ∀ xs, nulFreeL xs = true → NoNulL xs
  | [], _ => trivial
  | x :: xs, h => by
    simp only [nulFreeL, Bool.and_eq_true] at h
    exact ⟨noNul_of_nulFreeB x h.1, noNulL_of_nulFreeL xs h.2⟩
theorem noNulO_of_nulFreeO : ∀ kvs, nulFreeO kvs = true → NoNulO kvs
  | [], _ => trivial
  | (k, v) :: r, h => by
    simp only [nulFreeO, Bool.and_eq_true] at h
    exact ⟨noNulB_lit h.1.1, noNul_of_nulFreeB v h.1.2, noNulO_of_nulFreeO r h.2⟩
end


/-! ### parse after dump -/

theorem fuel_suffices (v : Json) (hv : RT v) (ind cur : Bytes) : need v ≤ parseFuel (dump ind cur v).length := by
  have := bound_val v hv ind cur
  unfold parseFuel; omega

theorem allWs_replicate (n : Nat) : AllWs (List.replicate n cSp) := by
  intro c hc
  rw [List.eq_of_mem_replicate hc]; decide

theorem parse_dump (v : Json) (hv : RT v) (hn : NoNul v) (ind : Bytes) (hi : AllWs ind) :
    ∃ v', parse (dump ind [] v) = .ok v' ∧ jsonEq v v' = true := by
  have hnn := noNul_dump v hv hn ind [] hi allWs_nil
  obtain ⟨v', hl, he⟩ := rt_val v hv ind [] [] (parseFuel (dump ind [] v).length) hi allWs_nil (Or.inl rfl)
    (fuel_suffices v hv ind [])
  refine ⟨v', ?_, he⟩
  simp only [List.append_nil] at hl
  unfold parse
  simp only [cstr_of_noNul hnn, hl]


end Occa.Json
