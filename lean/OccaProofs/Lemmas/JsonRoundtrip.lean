/-
Lemmas for C24: `load` after `dump` by structural induction over the value
(leaves, then the element loop of arrays and the member loop of objects).
-/
import OccaProofs.Lemmas.JsonNum
import OccaProofs.Lemmas.JsonObj

namespace Occa.Json

/-! ### leaves -/

theorem load_ws (n : Nat) (W s : Bytes) (hW : AllWs W) : load n (W ++ s) = load n s := by
  cases n with
  | zero => simp [load]
  | succ n => simp only [load, skipWs_allWs_append W s hW]

theorem load_null (n : Nat) (rest : Bytes) : load (n + 1) (sNull ++ rest) = .ok (.null, rest) := by
  simp [load, sNull, skipWs, isWs, peek, isDigit, cMinus, cLBrace, cLBrack, cApos, cQuote]

theorem load_true (n : Nat) (rest : Bytes) : load (n + 1) (sTrue ++ rest) = .ok (.num ⟨.bool, 1, []⟩, rest) := by
  simp [load, sTrue, skipWs, isWs, peek, isDigit, cMinus, cLBrace, cLBrack, cApos, cQuote]

theorem load_false (n : Nat) (rest : Bytes) : load (n + 1) (sFalse ++ rest) = .ok (.num ⟨.bool, 0, []⟩, rest) := by
  simp [load, sFalse, skipWs, isWs, peek, isDigit, cMinus, cLBrace, cLBrack, cApos, cQuote]

theorem load_str (n : Nat) (s rest : Bytes) : load (n + 1) (dumpStr s ++ rest) = .ok (.str s, rest) := by
  have h := loadStr_escBytes s rest []
  simp only [List.nil_append, cQuote] at h
  simp [load, dumpStr, skipWs, isWs, peek, isDigit, cMinus, cLBrace, cLBrack, cApos, cQuote, h]

theorem load_num (n : Nat) (p : Prim) (h : p.IsInt) (rest : Bytes) (hr : Delim rest) :
    ∃ p', load (n + 1) (p.toStr ++ rest) = .ok (.num p', rest) ∧ primEq p p' = true := by
  have hm := isInt_natAbs_lt h
  obtain ⟨c, t, hD, hc, _⟩ := natDec_head p.val.natAbs hm
  have hcf := digit_char_facts hc
  obtain ⟨p', hl, he, _⟩ := loadPrim_toStr (p.toStr ++ rest).length p h rest hr
  refine ⟨p', ?_, he⟩
  have hT := toStr_isInt h
  -- the first character is '-' or a digit
  have hhead : ∃ c t, p.toStr ++ rest = c :: t ∧ isWs c = false ∧ (isDigit c || c = cMinus) = true := by
    by_cases hv : p.val < 0
    · refine ⟨cMinus, (natDec p.val.natAbs ++ (if p.ty.isLong then [76] else [])) ++ rest, ?_, by decide, by decide⟩
      rw [hT]; simp [hv]
    · refine ⟨c, (t ++ (if p.ty.isLong then [76] else [])) ++ rest, ?_, hcf.1, by simp [hc]⟩
      rw [hT, hD]; simp [hv]
  obtain ⟨c0, t0, hs, hw, hd⟩ := hhead
  have hsk : skipWs (p.toStr ++ rest) = p.toStr ++ rest := by rw [hs]; exact skipWs_cons_nonws _ _ hw
  have hpk : peek (p.toStr ++ rest) = c0 := by rw [hs]; rfl
  simp only [load, hsk, hpk, hl]
  rw [if_pos hd]


/-! ### the values covered by the proof, and the fuel they need -/

mutual
/-- the part of the property's quantifier the round-trip proof covers: no `none_` nodes, numbers of
    bool/integer type built through the API (no source text, value in range), non-empty keys, and
    the std::map ordering of members.  Strings and keys may contain any byte. -/
def RT : Json → Prop
  | .none => False
  | .null => True
  | .num p => p.IsInt ∨ p = ⟨.bool, 0, []⟩ ∨ p = ⟨.bool, 1, []⟩
  | .str _ => True
  | .arr xs => RTL xs
  | .obj kvs => Sorted kvs ∧ RTO kvs
def RTL : List Json → Prop
  | [] => True
  | x :: xs => RT x ∧ RTL xs
def RTO : Obj → Prop
  | [] => True
  | (k, v) :: r => k ≠ [] ∧ RT v ∧ RTO r
end

mutual
/-- recursion budget `load` needs for the dumped text of a value -/
def need : Json → Nat
  | .arr xs => 2 + needL xs
  | .obj kvs => 2 + needO kvs
  | _ => 1
def needL : List Json → Nat
  | [] => 0
  | x :: xs => 1 + need x + needL xs
def needO : Obj → Nat
  | [] => 0
  | (_, v) :: r => 1 + need v + needO r
end

theorem delim_cons {c : UInt8} (t : Bytes) (h : isDelimC c = true) : Delim (c :: t) :=
  Or.inr ⟨c, t, rfl, h⟩

theorem isDelimC_of_ws {c : UInt8} (h : isWs c = true) : isDelimC c = true := by simp [isDelimC, h]

theorem delim_ws_append {W : Bytes} (hW : AllWs W) {c : UInt8} (t : Bytes) (h : isDelimC c = true) :
    Delim (W ++ c :: t) := by
  cases W with
  | nil => exact delim_cons t h
  | cons w W' => exact delim_cons _ (isDelimC_of_ws (hW w (by simp)))

/-- first character of the dumped text of a covered value: not whitespace, not a closing bracket -/
theorem dump_head (v : Json) (hv : RT v) (ind cur : Bytes) :
    ∃ c t, dump ind cur v = c :: t ∧ isWs c = false ∧ c ≠ cRBrack := by
  cases v with
  | none => exact absurd hv (by simp [RT])
  | null => exact ⟨110, _, rfl, by decide, by decide⟩
  | str s => exact ⟨cQuote, _, rfl, by decide, by decide⟩
  | num p =>
    simp only [RT] at hv
    rcases hv with h | h | h
    · have hm := isInt_natAbs_lt h
      obtain ⟨c, t, hD, hc, _⟩ := natDec_head p.val.natAbs hm
      have hcf := digit_char_facts hc
      have hT := toStr_isInt h
      by_cases hneg : p.val < 0
      · refine ⟨cMinus, natDec p.val.natAbs ++ (if p.ty.isLong then [76] else []), ?_, by decide, by decide⟩
        simp [dump, hT, hneg]
      · refine ⟨c, t ++ (if p.ty.isLong then [76] else []), ?_, hcf.1, hcf.2.2.2.2.2.2.2.1⟩
        simp [dump, hT, hneg, hD]
    · subst h; exact ⟨102, _, rfl, by decide, by decide⟩
    · subst h; exact ⟨116, _, rfl, by decide, by decide⟩
  | arr xs =>
    cases xs with
    | nil => exact ⟨cLBrack, _, rfl, by decide, by decide⟩
    | cons x xs => exact ⟨cLBrack, _, by simp only [dump, List.isEmpty_cons, Bool.false_eq_true, if_false]; rfl, by decide, by decide⟩
  | obj kvs =>
    cases kvs with
    | nil => exact ⟨cLBrace, _, rfl, by decide, by decide⟩
    | cons x xs => exact ⟨cLBrace, _, by simp only [dump, List.isEmpty_cons, Bool.false_eq_true, if_false]; rfl, by decide, by decide⟩

/-! ### the round trip -/

theorem sepAfter_last_delim (ind cur rest : Bytes) (hcur : AllWs cur) :
    Delim (sepAfter ind true ++ (cur ++ cRBrack :: rest)) := by
  unfold sepAfter
  by_cases hi : ind.isEmpty = true
  · simp only [hi, if_true, List.nil_append]
    exact delim_ws_append hcur rest (by decide)
  · simp only [hi, if_false, Bool.false_eq_true]
    exact delim_cons _ (by decide)

theorem sepAfter_more (ind : Bytes) : ∃ w, AllWs [w] ∧ sepAfter ind false = [cComma, w] := by
  unfold sepAfter
  by_cases hi : ind.isEmpty = true
  · exact ⟨cSp, by intro c hc; simp at hc; subst hc; decide, by simp [hi]⟩
  · exact ⟨cNl, by intro c hc; simp at hc; subst hc; decide, by simp [hi]⟩

mutual
theorem rt_val : ∀ (v : Json), RT v → ∀ (ind cur rest : Bytes) (n : Nat), AllWs ind → AllWs cur → Delim rest → need v ≤ n →
    ∃ v', load n (dump ind cur v ++ rest) = .ok (v', rest) ∧ jsonEq v v' = true
  | .none, hv, _, _, _, _, _, _, _, _ => absurd hv (by simp [RT])
  | .null, _, ind, cur, rest, n, _, _, _, hn => by
    cases n with
    | zero => simp [need] at hn
    | succ n => exact ⟨.null, by simpa [dump] using load_null n rest, by simp [jsonEq]⟩
  | .str s, _, ind, cur, rest, n, _, _, _, hn => by
    cases n with
    | zero => simp [need] at hn
    | succ n => exact ⟨.str s, by simpa [dump] using load_str n s rest, by simp [jsonEq]⟩
  | .num p, hv, ind, cur, rest, n, _, _, hr, hn => by
    cases n with
    | zero => simp [need] at hn
    | succ n =>
      simp only [RT] at hv
      rcases hv with h | h | h
      · obtain ⟨p', hl, he⟩ := load_num n p h rest hr
        exact ⟨.num p', by simpa [dump] using hl, by simpa [jsonEq] using he⟩
      · subst h
        exact ⟨_, by simpa [dump, Prim.toStr] using load_false n rest, by simp [jsonEq, primEq, maxTy, PType.rank, Prim.toInt, PType.wrap]⟩
      · subst h
        exact ⟨_, by simpa [dump, Prim.toStr] using load_true n rest, by simp [jsonEq, primEq, maxTy, PType.rank, Prim.toInt, PType.wrap]⟩
  | .arr xs, hv, ind, cur, rest, n, hind, hcur, hr, hn => by
    cases xs with
    | nil =>
      match n, hn with
      | 0, hn => simp [need, needL] at hn
      | 1, hn => simp [need, needL] at hn
      | n + 2, _ =>
        refine ⟨.arr [], ?_, by simp [jsonEq, eqList]⟩
        simp [dump, load, loadArrLoop, skipWs, isWs, peek, isDigit, cMinus, cLBrace, cLBrack, cRBrack]
    | cons x xs' =>
      match n, hn with
      | 0, hn => simp [need, needL] at hn
      | n + 1, hn =>
        have hni : AllWs (cur ++ ind) := allWs_append hcur hind
        have hW : AllWs (if ind.isEmpty then [] else [cNl]) := by
          by_cases hi : ind.isEmpty = true
          · simp [hi]; exact allWs_nil
          · simp [hi]; intro c hc; simp at hc; subst hc; decide
        obtain ⟨xs2, hl, he⟩ := rt_arrLoop (x :: xs') (by simp) (by simpa [RT] using hv) ind (cur ++ ind) cur
          (if ind.isEmpty then [] else [cNl]) rest [] n hind hni hcur hW (by simp [need] at hn; omega)
        refine ⟨.arr xs2, ?_, by simpa [jsonEq] using he⟩
        simp only [dump, List.isEmpty_cons, Bool.false_eq_true, if_false, load]
        have : skipWs (cLBrack :: ((if ind.isEmpty then [] else [cNl]) ++ dumpArr ind (cur ++ ind) (x :: xs') ++ cur ++ [cRBrack]) ++ rest)
            = cLBrack :: ((if ind.isEmpty then [] else [cNl]) ++ (dumpArr ind (cur ++ ind) (x :: xs') ++ (cur ++ cRBrack :: rest))) := by
          simp [skipWs, isWs, cLBrack]
        rw [this]
        simp only [peek, List.drop_succ_cons, List.drop_zero]
        simp only [show isDigit cLBrack = false by decide, show (cLBrack = cMinus) = False by decide,
          show (cLBrack = cLBrace) = False by decide, Bool.false_or, decide_false, if_false, if_true, Bool.false_eq_true]
        simpa using hl
  | .obj kvs, hv, ind, cur, rest, n, hind, hcur, hr, hn => by
    cases kvs with
    | nil =>
      match n, hn with
      | 0, hn => simp [need, needO] at hn
      | 1, hn => simp [need, needO] at hn
      | n + 2, _ =>
        refine ⟨.obj [], ?_, by simp [jsonEq, eqObj]⟩
        simp [dump, load, loadObjLoop, skipWs, isWs, peek, isDigit, cMinus, cLBrace, cLBrack, cRBrace]
    | cons kv kvs' =>
      match n, hn with
      | 0, hn => simp [need, needO] at hn
      | n + 1, hn =>
        simp only [RT] at hv
        have hni : AllWs (cur ++ ind) := allWs_append hcur hind
        have hW : AllWs (if ind.isEmpty then [] else [cNl]) := by
          by_cases hi : ind.isEmpty = true
          · simp [hi]; exact allWs_nil
          · simp [hi]; intro c hc; simp at hc; subst hc; decide
        have hT : AllWs (if ind.isEmpty then [] else cur) := by
          by_cases hi : ind.isEmpty = true
          · simp [hi]; exact allWs_nil
          · simp [hi]; exact hcur
        obtain ⟨kvs2, hl, he⟩ := rt_objLoop (kv :: kvs') (by simp) hv.2 hv.1 ind (cur ++ ind)
          (if ind.isEmpty then [] else cur) (if ind.isEmpty then [] else [cNl]) rest [] n hind hni hT hW
          (by intro p hp; simp at hp) (by simp [need] at hn; omega)
        refine ⟨.obj kvs2, ?_, by simpa [jsonEq] using he⟩
        simp only [dump, List.isEmpty_cons, Bool.false_eq_true, if_false, load]
        have : skipWs (cLBrace :: ((if ind.isEmpty then [] else [cNl]) ++ dumpObj ind (cur ++ ind) (kv :: kvs')
              ++ (if ind.isEmpty then [] else cur) ++ [cRBrace]) ++ rest)
            = cLBrace :: ((if ind.isEmpty then [] else [cNl]) ++ (dumpObj ind (cur ++ ind) (kv :: kvs')
              ++ ((if ind.isEmpty then [] else cur) ++ cRBrace :: rest))) := by
          simp [skipWs, isWs, cLBrace]
        rw [this]
        simp only [peek, List.drop_succ_cons, List.drop_zero]
        simp only [show isDigit cLBrace = false by decide, show (cLBrace = cMinus) = False by decide,
          Bool.false_or, decide_false, if_false, if_true, Bool.false_eq_true]
        simpa using hl
theorem rt_arrLoop : ∀ (xs : List Json), xs ≠ [] → RTL xs → ∀ (ind ni cur W rest : Bytes) (acc : List Json) (n : Nat),
    AllWs ind → AllWs ni → AllWs cur → AllWs W → needL xs ≤ n →
    ∃ xs', loadArrLoop n (W ++ (dumpArr ind ni xs ++ (cur ++ cRBrack :: rest))) acc = .ok (.arr (acc ++ xs'), rest)
      ∧ eqList xs xs' = true
  | [], h, _, _, _, _, _, _, _, _, _, _, _, _, _ => absurd rfl h
  | x :: xs, _, hRT, ind, ni, cur, W, rest, acc, n, hind, hni, hcur, hW, hn => by
    obtain ⟨hx, hxs⟩ := hRT
    match n, hn with
    | 0, hn => simp [needL] at hn
    | n + 1, hn =>
      simp only [needL] at hn
      obtain ⟨c, t, hd, hcw, hcb⟩ := dump_head x hx ind ni
      -- the text after the element
      cases xs with
      | nil =>
        have hdel := sepAfter_last_delim ind cur rest hcur
        obtain ⟨x', hx', hex⟩ := rt_val x hx ind ni _ n hind hni hdel (by omega)
        refine ⟨[x'], ?_, by simp [eqList, hex]⟩
        have hs0 : W ++ (dumpArr ind ni [x] ++ (cur ++ cRBrack :: rest))
            = (W ++ ni) ++ (dump ind ni x ++ (sepAfter ind true ++ (cur ++ cRBrack :: rest))) := by
          simp [dumpArr]
        rw [hs0]
        have hne : ((W ++ ni) ++ (dump ind ni x ++ (sepAfter ind true ++ (cur ++ cRBrack :: rest)))).isEmpty = false := by
          rw [hd]; simp
        have hsk : skipWs ((W ++ ni) ++ (dump ind ni x ++ (sepAfter ind true ++ (cur ++ cRBrack :: rest))))
            = dump ind ni x ++ (sepAfter ind true ++ (cur ++ cRBrack :: rest)) := by
          rw [skipWs_allWs_append _ _ (allWs_append hW hni), hd]
          exact skipWs_cons_nonws _ _ hcw
        have hpk : peek (dump ind ni x ++ (sepAfter ind true ++ (cur ++ cRBrack :: rest))) = c := by rw [hd]; rfl
        simp only [loadArrLoop, hne, hsk, hpk, hcb, hx', if_false, Bool.false_eq_true]
        -- after the element: optional newline, cur, then ']'
        have hws : AllWs (sepAfter ind true ++ cur) := by
          refine allWs_append ?_ hcur
          unfold sepAfter
          by_cases hi : ind.isEmpty = true
          · simp [hi]; exact allWs_nil
          · simp [hi]; intro c hc; simp at hc; subst hc; decide
        have hsk2 : skipWs (sepAfter ind true ++ (cur ++ cRBrack :: rest)) = cRBrack :: rest := by
          have : sepAfter ind true ++ (cur ++ cRBrack :: rest) = (sepAfter ind true ++ cur) ++ (cRBrack :: rest) := by simp
          rw [this, skipWs_allWs_append _ _ hws]
          exact skipWs_cons_nonws _ _ (by decide)
        rw [hsk2]
        simp [peek, cRBrack, cComma]
      | cons y ys =>
        obtain ⟨w, hw, hsep⟩ := sepAfter_more ind
        have hdel : Delim (sepAfter ind false ++ (dumpArr ind ni (y :: ys) ++ (cur ++ cRBrack :: rest))) := by
          rw [hsep]; exact delim_cons _ (by decide)
        obtain ⟨x', hx', hex⟩ := rt_val x hx ind ni _ n hind hni hdel (by omega)
        obtain ⟨xs2, hl2, he2⟩ := rt_arrLoop (y :: ys) (by simp) hxs ind ni cur [w] rest (acc ++ [x']) n hind hni hcur hw (by omega)
        refine ⟨x' :: xs2, ?_, by simp [eqList, hex, he2]⟩
        have hs0 : W ++ (dumpArr ind ni (x :: y :: ys) ++ (cur ++ cRBrack :: rest))
            = (W ++ ni) ++ (dump ind ni x ++ (sepAfter ind false ++ (dumpArr ind ni (y :: ys) ++ (cur ++ cRBrack :: rest)))) := by
          rw [dumpArr]; simp
        rw [hs0]
        have hne : ((W ++ ni) ++ (dump ind ni x ++ (sepAfter ind false ++ (dumpArr ind ni (y :: ys) ++ (cur ++ cRBrack :: rest))))).isEmpty = false := by
          rw [hd]; simp
        have hsk : skipWs ((W ++ ni) ++ (dump ind ni x ++ (sepAfter ind false ++ (dumpArr ind ni (y :: ys) ++ (cur ++ cRBrack :: rest)))))
            = dump ind ni x ++ (sepAfter ind false ++ (dumpArr ind ni (y :: ys) ++ (cur ++ cRBrack :: rest))) := by
          rw [skipWs_allWs_append _ _ (allWs_append hW hni), hd]
          exact skipWs_cons_nonws _ _ hcw
        have hpk : peek (dump ind ni x ++ (sepAfter ind false ++ (dumpArr ind ni (y :: ys) ++ (cur ++ cRBrack :: rest)))) = c := by rw [hd]; rfl
        simp only [loadArrLoop, hne, hsk, hpk, hcb, hx', if_false, Bool.false_eq_true]
        have hsk2 : skipWs (sepAfter ind false ++ (dumpArr ind ni (y :: ys) ++ (cur ++ cRBrack :: rest)))
            = cComma :: ([w] ++ (dumpArr ind ni (y :: ys) ++ (cur ++ cRBrack :: rest))) := by
          rw [hsep]; exact skipWs_cons_nonws _ _ (by decide)
        rw [hsk2]
        simp only [peek, if_true, List.drop_succ_cons, List.drop_zero, hl2]
        simp
theorem rt_objLoop : ∀ (kvs : Obj), kvs ≠ [] → RTO kvs → Sorted kvs →
    ∀ (ind ni tw W rest : Bytes) (acc : Obj) (n : Nat),
    AllWs ind → AllWs ni → AllWs tw → AllWs W → (∀ p ∈ acc, ∀ q ∈ kvs, p.1 < q.1) → needO kvs ≤ n →
    ∃ kvs', loadObjLoop n true (W ++ (dumpObj ind ni kvs ++ (tw ++ cRBrace :: rest))) acc = .ok (.obj (acc ++ kvs'), rest)
      ∧ eqObj kvs kvs' = true
  | [], h, _, _, _, _, _, _, _, _, _, _, _, _, _, _, _ => absurd rfl h
  | (k, v) :: r, _, hRT, hS, ind, ni, tw, W, rest, acc, n, hind, hni, htw, hW, hacc, hn => by
    obtain ⟨hk, hv, hr⟩ := hRT
    obtain ⟨hgt, hSr⟩ := hS
    match n, hn with
    | 0, hn => simp [needO] at hn
    | n + 1, hn =>
      simp only [needO] at hn
      have hvn : v.isNone = false := by
        cases v <;> first | rfl | exact absurd hv (by simp [RT])
      have hins : ∀ v', insert k v' acc = acc ++ [(k, v')] :=
        fun v' => insert_append v' (fun p hp => hacc p hp (k, v) (by simp))
      cases r with
      | nil =>
        have hdel : Delim (sepAfter ind true ++ (tw ++ cRBrace :: rest)) := by
          unfold sepAfter
          by_cases hi : ind.isEmpty = true
          · simp only [hi, if_true, List.nil_append]
            exact delim_ws_append htw rest (by decide)
          · simp only [hi, if_false, Bool.false_eq_true]
            exact delim_cons _ (by decide)
        obtain ⟨v', hv', hev⟩ := rt_val v hv ind ni _ n hind hni hdel (by omega)
        refine ⟨[(k, v')], ?_, by simp [eqObj, hev]⟩
        have hs0 : W ++ (dumpObj ind ni [(k, v)] ++ (tw ++ cRBrace :: rest))
            = (W ++ ni) ++ (cQuote :: (escBytes k ++ cQuote :: (cColon :: cSp :: (dump ind ni v ++ (sepAfter ind true ++ (tw ++ cRBrace :: rest)))))) := by
          simp [dumpObj, hvn, dumpStr]
        rw [hs0]
        have hsk : skipWs ((W ++ ni) ++ (cQuote :: (escBytes k ++ cQuote :: (cColon :: cSp :: (dump ind ni v ++ (sepAfter ind true ++ (tw ++ cRBrace :: rest)))))))
            = cQuote :: (escBytes k ++ cQuote :: (cColon :: cSp :: (dump ind ni v ++ (sepAfter ind true ++ (tw ++ cRBrace :: rest))))) := by
          rw [skipWs_allWs_append _ _ (allWs_append hW hni)]
          exact skipWs_cons_nonws _ _ (by decide)
        have hkey := loadStr_escBytes k (cColon :: cSp :: (dump ind ni v ++ (sepAfter ind true ++ (tw ++ cRBrace :: rest)))) []
        simp only [List.nil_append] at hkey
        have hld : load n (cSp :: (dump ind ni v ++ (sepAfter ind true ++ (tw ++ cRBrace :: rest)))) = .ok (v', sepAfter ind true ++ (tw ++ cRBrace :: rest)) := by
          have := load_ws n [cSp] (dump ind ni v ++ (sepAfter ind true ++ (tw ++ cRBrace :: rest))) (by intro c hc; simp at hc; subst hc; decide)
          simpa [hv'] using this
        have hws : AllWs (sepAfter ind true ++ tw) := by
          refine allWs_append ?_ htw
          unfold sepAfter
          by_cases hi : ind.isEmpty = true
          · simp [hi]; exact allWs_nil
          · simp [hi]; intro c hc; simp at hc; subst hc; decide
        have hsk2 : skipWs (sepAfter ind true ++ (tw ++ cRBrace :: rest)) = cRBrace :: rest := by
          have : sepAfter ind true ++ (tw ++ cRBrace :: rest) = (sepAfter ind true ++ tw) ++ (cRBrace :: rest) := by simp
          rw [this, skipWs_allWs_append _ _ hws]
          exact skipWs_cons_nonws _ _ (by decide)
        have hkne : k.isEmpty = false := by cases k <;> simp_all
        have hne0 : ((W ++ ni) ++ (cQuote :: (escBytes k ++ cQuote :: (cColon :: cSp :: (dump ind ni v ++ (sepAfter ind true ++ (tw ++ cRBrace :: rest))))))).isEmpty = false := by simp
        simp only [loadObjLoop, hsk, hne0]
        simp only [Bool.false_eq_true, if_false, peek,
          show (cQuote = cRBrace) = False by decide, show (cQuote = (0 : UInt8)) = False by decide, decide_false,
          Bool.or_self, if_true, List.drop_succ_cons, List.drop_zero, hkey, hkne]
        simp only [show skipWs (cColon :: cSp :: (dump ind ni v ++ (sepAfter ind true ++ (tw ++ cRBrace :: rest))))
            = cColon :: cSp :: (dump ind ni v ++ (sepAfter ind true ++ (tw ++ cRBrace :: rest))) from skipWs_cons_nonws _ _ (by decide),
          peek, ne_eq, not_true_eq_false, if_false, List.drop_succ_cons, List.drop_zero, hld, hsk2, hins]
        simp [cRBrace, cComma]
      | cons q r' =>
        obtain ⟨w, hw, hsep⟩ := sepAfter_more ind
        have hdel : Delim (sepAfter ind false ++ (dumpObj ind ni (q :: r') ++ (tw ++ cRBrace :: rest))) := by
          rw [hsep]; exact delim_cons _ (by decide)
        obtain ⟨v', hv', hev⟩ := rt_val v hv ind ni _ n hind hni hdel (by omega)
        have hacc' : ∀ p ∈ acc ++ [(k, v')], ∀ q' ∈ q :: r', p.1 < q'.1 := by
          intro p hp q' hq'
          rcases List.mem_append.mp hp with hp | hp
          · exact hacc p hp q' (List.mem_cons_of_mem _ hq')
          · simp at hp; subst hp; exact hgt q' hq'
        obtain ⟨kvs2, hl2, he2⟩ := rt_objLoop (q :: r') (by simp) hr hSr ind ni tw [w] rest (acc ++ [(k, v')]) n
          hind hni htw hw hacc' (by omega)
        refine ⟨(k, v') :: kvs2, ?_, by simp [eqObj, hev, he2]⟩
        have hs0 : W ++ (dumpObj ind ni ((k, v) :: q :: r') ++ (tw ++ cRBrace :: rest))
            = (W ++ ni) ++ (cQuote :: (escBytes k ++ cQuote :: (cColon :: cSp :: (dump ind ni v ++ (sepAfter ind false ++ (dumpObj ind ni (q :: r') ++ (tw ++ cRBrace :: rest))))))) := by
          rw [dumpObj]; simp [hvn, dumpStr]
        rw [hs0]
        have hsk : skipWs ((W ++ ni) ++ (cQuote :: (escBytes k ++ cQuote :: (cColon :: cSp :: (dump ind ni v ++ (sepAfter ind false ++ (dumpObj ind ni (q :: r') ++ (tw ++ cRBrace :: rest))))))))
            = cQuote :: (escBytes k ++ cQuote :: (cColon :: cSp :: (dump ind ni v ++ (sepAfter ind false ++ (dumpObj ind ni (q :: r') ++ (tw ++ cRBrace :: rest)))))) := by
          rw [skipWs_allWs_append _ _ (allWs_append hW hni)]
          exact skipWs_cons_nonws _ _ (by decide)
        have hkey := loadStr_escBytes k (cColon :: cSp :: (dump ind ni v ++ (sepAfter ind false ++ (dumpObj ind ni (q :: r') ++ (tw ++ cRBrace :: rest))))) []
        simp only [List.nil_append] at hkey
        have hld : load n (cSp :: (dump ind ni v ++ (sepAfter ind false ++ (dumpObj ind ni (q :: r') ++ (tw ++ cRBrace :: rest)))))
            = .ok (v', sepAfter ind false ++ (dumpObj ind ni (q :: r') ++ (tw ++ cRBrace :: rest))) := by
          have := load_ws n [cSp] (dump ind ni v ++ (sepAfter ind false ++ (dumpObj ind ni (q :: r') ++ (tw ++ cRBrace :: rest)))) (by intro c hc; simp at hc; subst hc; decide)
          simpa [hv'] using this
        have hsk2 : skipWs (sepAfter ind false ++ (dumpObj ind ni (q :: r') ++ (tw ++ cRBrace :: rest)))
            = cComma :: ([w] ++ (dumpObj ind ni (q :: r') ++ (tw ++ cRBrace :: rest))) := by
          rw [hsep]; exact skipWs_cons_nonws _ _ (by decide)
        have hkne : k.isEmpty = false := by cases k <;> simp_all
        have hne0 : ((W ++ ni) ++ (cQuote :: (escBytes k ++ cQuote :: (cColon :: cSp :: (dump ind ni v ++ (sepAfter ind false ++ (dumpObj ind ni (q :: r') ++ (tw ++ cRBrace :: rest)))))))).isEmpty = false := by simp
        simp only [loadObjLoop, hsk, hne0]
        simp only [Bool.false_eq_true, if_false, peek,
          show (cQuote = cRBrace) = False by decide, show (cQuote = (0 : UInt8)) = False by decide, decide_false,
          Bool.or_self, if_true, List.drop_succ_cons, List.drop_zero, hkey, hkne]
        simp only [show skipWs (cColon :: cSp :: (dump ind ni v ++ (sepAfter ind false ++ (dumpObj ind ni (q :: r') ++ (tw ++ cRBrace :: rest)))))
            = cColon :: cSp :: (dump ind ni v ++ (sepAfter ind false ++ (dumpObj ind ni (q :: r') ++ (tw ++ cRBrace :: rest)))) from skipWs_cons_nonws _ _ (by decide),
          peek, ne_eq, not_true_eq_false, if_false, List.drop_succ_cons, List.drop_zero, hld, hsk2, hins, if_true, hl2]
        simp
end

end Occa.Json
