/-
The recursion budget of the JSON loader model is never the reason for an error: every nested call of
`load` / `loadObjLoop` / `loadArrLoop` happens on a strictly shorter text or with one character consumed, so
`parseFuel len = 2·len + 2` suffices for EVERY input text (DESIGN section 3: every fuel-taking function gets a
lemma that a computable amount of fuel suffices).
-/
import OccaProofs.Lemmas.JsonStr

namespace Occa.Json

/-! ### every scanner returns a suffix no longer than its input -/

theorem skipWs_len : ∀ s : Bytes, (skipWs s).length ≤ s.length
  | [] => by simp [skipWs]
  | c :: r => by
    simp only [skipWs]
    split
    · have := skipWs_len r; simp; omega
    · simp

theorem loadStr_len (q : UInt8) : ∀ (e : Bool) (s acc x r : Bytes), loadStr q e s acc = .ok (x, r) → r.length ≤ s.length
  | _, [], _, _, _, h => by simp [loadStr] at h
  | true, d :: s, acc, x, r, h => by
    simp only [loadStr] at h
    have step : ∀ acc', loadStr q false s acc' = .ok (x, r) → r.length ≤ (d :: s).length := by
      intro acc' h'; have := loadStr_len q false s acc' x r h'; simp; omega
    split at h
    · exact step _ h
    · split at h
      · exact step _ h
      · split at h
        · exact step _ h
        · split at h
          · exact step _ h
          · split at h
            · exact step _ h
            · split at h
              · exact step _ h
              · split at h
                · split at h
                  · exact step _ h
                  · cases h
                · exact step _ h
  | false, c :: s, acc, x, r, h => by
    simp only [loadStr] at h
    split at h
    · have := loadStr_len q true s acc x r h; simp; omega
    · split at h
      · injection h with h; injection h with _ h; subst h; simp
      · have := loadStr_len q false s _ x r h; simp; omega

theorem bareKey_len : ∀ (s acc : Bytes), (bareKey s acc).2.length ≤ s.length
  | [], _ => by simp [bareKey]
  | c :: r, acc => by
    simp only [bareKey]
    split
    · simp
    · have := bareKey_len r (acc ++ [c]); simp; omega

theorem skipToNlE_len : ∀ (e : Bool) (s : Bytes), (skipToNlE e s).length ≤ s.length
  | _, [] => by simp [skipToNlE]
  | true, _ :: r => by have := skipToNlE_len false r; simp [skipToNlE]; omega
  | false, c :: r => by
    simp only [skipToNlE]
    split
    · have := skipToNlE_len true r; simp; omega
    · split
      · simp
      · have := skipToNlE_len false r; simp; omega

theorem readBin_len : ∀ (s : Bytes) (a n : Nat), (readBin s a n).2.2.length ≤ s.length
  | [], _, _ => by simp [readBin]
  | c :: r, a, n => by
    simp only [readBin]
    split
    · have := readBin_len r ((a * 2 + (c.toNat - 48)) % two64) (n + 1); simp; omega
    · simp

theorem readHex_len : ∀ (s : Bytes) (a n : Nat), (readHex s a n).2.2.length ≤ s.length
  | [], _, _ => by simp [readHex]
  | c :: r, a, n => by
    simp only [readHex]
    split
    · have := readHex_len r ((a * 16 + ((upper c).toNat - 48)) % two64) (n + 1); simp; omega
    · split
      · have := readHex_len r ((a * 16 + (10 + ((upper c).toNat - 65))) % two64) (n + 1); simp; omega
      · simp

theorem sufLoop_len (fm : Bool) : ∀ (s : Bytes) (l : Nat) (u f : Bool), (sufLoop fm s l u f).2.2.2.2.length ≤ s.length
  | [], _, _, _ => by simp [sufLoop]
  | c :: r, l, u, f => by
    simp only [sufLoop]
    split
    · have := sufLoop_len fm r (l + 1) u f; simp; omega
    · split
      · have := sufLoop_len fm r l true f; simp; omega
      · split
        · simp
        · split
          · have := sufLoop_len fm r l u true; simp; omega
          · simp

theorem scanDigitsDots_len : ∀ (s : Bytes) (d : Nat) (dot : Bool), (scanDigitsDots s d dot).2.2.length ≤ s.length
  | [], _, _ => by simp [scanDigitsDots]
  | c :: r, d, dot => by
    simp only [scanDigitsDots]
    split
    · have := scanDigitsDots_len r (d + 1) dot; simp; omega
    · split
      · have := scanDigitsDots_len r d true; simp; omega
      · simp

theorem splitSign_len (s : Bytes) : (splitSign s).2.length ≤ s.length := by
  unfold splitSign
  split
  · have := skipWs_len (s.drop 1); simp at this ⊢; omega
  · simp

theorem loadFormatted_len (s0 : Bytes) (neg : Bool) (s : Bytes) (C1 : UInt8) (hs : s.length ≤ s0.length) :
    (loadFormatted s0 neg s C1).2.length ≤ s0.length := by
  unfold loadFormatted
  simp only []
  have hb := readBin_len (s.drop 2) 0 0
  have hh := readHex_len (s.drop 2) 0 0
  simp only [List.length_drop] at hb hh
  have hrb : (if C1 = 66 then readBin (s.drop 2) 0 0 else readHex (s.drop 2) 0 0).2.2.length ≤ s.length := by
    split <;> omega
  generalize (if C1 = 66 then readBin (s.drop 2) 0 0 else readHex (s.drop 2) 0 0) = rb at hrb
  obtain ⟨v, n, rest⟩ := rb
  have hsl := sufLoop_len true rest 0 false false
  generalize sufLoop true rest 0 false false = sl at hsl
  obtain ⟨l, u, a, b, rest'⟩ := sl
  simp only [] at hrb hsl ⊢
  split
  · simp
  · simp only []; omega

theorem loadDecimal_len (expLoad : Bytes → Prim × Bytes) (hexp : ∀ t, (expLoad t).2.length ≤ t.length)
    (s0 s : Bytes) (neg : Bool) (hs : s.length ≤ s0.length) :
    (loadDecimal expLoad s0 s neg).2.length ≤ s0.length := by
  unfold loadDecimal
  simp only []
  have h1 := scanDigitsDots_len s 0 false
  generalize scanDigitsDots s 0 false = sc at h1
  obtain ⟨digits, dot, s1⟩ := sc
  have h2 := sufLoop_len false s1 0 false false
  generalize sufLoop false s1 0 false false = sl at h2
  obtain ⟨longs, uns, fl, how, s2⟩ := sl
  have h3 := hexp s2
  generalize expLoad s2 = el at h3
  obtain ⟨ep, r⟩ := el
  simp only [] at h1 h2 h3 ⊢
  split
  · simp
  · cases how <;> simp only [] <;> (repeat' split) <;> simp only [] <;> omega

theorem loadPrim_len : ∀ (fuel : Nat) (s : Bytes), (loadPrim fuel s).2.length ≤ s.length
  | 0, s => by simp [loadPrim]
  | fuel + 1, s => by
    unfold loadPrim
    split
    · simp
    · split
      · simp
      · have hsp := splitSign_len s
        generalize splitSign s = sp at hsp
        obtain ⟨neg, s'⟩ := sp
        simp only [] at hsp ⊢
        split
        · exact loadFormatted_len s neg s' _ hsp
        · exact loadDecimal_len (loadPrim fuel) (loadPrim_len fuel) s s' neg hsp


theorem loadStr_nofuel (q : UInt8) : ∀ (e : Bool) (s acc : Bytes), loadStr q e s acc ≠ .error .fuel
  | _, [], _ => by simp [loadStr]
  | true, d :: s, acc => by
    simp only [loadStr]
    repeat' split
    all_goals first | exact loadStr_nofuel q false s _ | simp
  | false, c :: s, acc => by
    simp only [loadStr]
    repeat' split
    all_goals first | exact loadStr_nofuel q true s _ | exact loadStr_nofuel q false s _ | simp


/-! ### the recursion budget is never exhausted -/

/-- "not the fuel error, and the rest is no longer than the input" -/
def Good (s : Bytes) (x : Res Json) : Prop :=
  x ≠ .error .fuel ∧ ∀ v r, x = .ok (v, r) → r.length ≤ s.length

theorem good_err {s : Bytes} {e : Err} (h : e ≠ .fuel) : Good s (.error e) :=
  ⟨fun hh => h (by injection hh), fun _ _ hh => by cases hh⟩

theorem good_ok {s : Bytes} {v : Json} {r : Bytes} (h : r.length ≤ s.length) : Good s (.ok (v, r)) := by
  refine ⟨?_, ?_⟩
  · intro hh; cases hh
  · intro v' r' hh; cases hh; exact h

theorem good_mono {s t : Bytes} {x : Res Json} (h : Good t x) (hl : t.length ≤ s.length) : Good s x :=
  ⟨h.1, fun v r hh => Nat.le_trans (h.2 v r hh) hl⟩

mutual
theorem load_good : ∀ (n : Nat) (s : Bytes), 2 * s.length + 2 ≤ n → Good s (load n s)
  | 0, s, h => by omega
  | n + 1, s0, h => by
    have hsk := skipWs_len s0
    simp only [load]
    generalize hs : skipWs s0 = s at hsk
    cases s with
    | nil => simp [peek, isDigit, cMinus, cLBrace, cLBrack, cApos, cQuote, cSlash]; exact good_err (by decide)
    | cons c t =>
      simp only [List.length_cons] at hsk
      simp only [peek, List.drop_succ_cons, List.drop_zero]
      split
      · -- number
        have := loadPrim_len ((c :: t).length + 1) (c :: t)
        generalize loadPrim ((c :: t).length + 1) (c :: t) = pr at this
        obtain ⟨p, r⟩ := pr
        simp only [List.length_cons] at this ⊢
        exact good_ok (by omega)
      · split
        · exact good_mono (objLoop_good n true t [] (by omega)) (by omega)
        · split
          · exact good_mono (arrLoop_good n t [] (by omega)) (by omega)
          · split
            · cases hl : loadStr c false t [] with
              | error e =>
                simp only []
                refine good_err ?_
                intro he; subst he
                exact absurd hl (loadStr_nofuel _ _ _ _)
              | ok xr =>
                obtain ⟨x, r⟩ := xr
                simp only []
                have := loadStr_len c false t [] x r hl
                exact good_ok (by omega)
            · split
              · split
                · exact good_ok (by simp; omega)
                · exact good_err (by decide)
              · split
                · split
                  · exact good_ok (by simp; omega)
                  · exact good_err (by decide)
                · split
                  · split
                    · exact good_ok (by simp; omega)
                    · exact good_err (by decide)
                  · by_cases hc : c = cSlash
                    · simp only [hc, if_true]
                      by_cases h2 : List.take 2 (cSlash :: t) = [cSlash, cSlash]
                      · simp only [h2, if_true]
                        have := skipToNlE_len false (cSlash :: t)
                        simp only [List.length_cons] at this
                        exact good_ok (by unfold skipToNl; omega)
                      · simp only [h2, if_false]; exact good_err (by decide)
                    · simp only [hc, if_false]; exact good_err (by decide)
theorem objLoop_good : ∀ (n : Nat) (hb : Bool) (s : Bytes) (acc : Obj), 2 * s.length + 3 ≤ n → Good s (loadObjLoop n hb s acc)
  | 0, _, s, _, h => by omega
  | n + 1, hb, s0, acc, h => by
    have hsk := skipWs_len s0
    simp only [loadObjLoop]
    split
    · split
      · exact good_err (by decide)
      · exact good_ok (Nat.le_refl _)
    · generalize hs : skipWs s0 = s at hsk
      split
      · split
        · split
          · exact good_ok (by simp; omega)
          · exact good_err (by decide)
        · exact good_ok hsk
      · -- the key
        have hkey : ∀ key s1, (if peek s = cQuote then loadStr cQuote false (s.drop 1) [] else Except.ok (bareKey s [])) = .ok (key, s1) →
            s1.length ≤ s.length := by
          intro key s1 hk
          split at hk
          · have := loadStr_len cQuote false (s.drop 1) [] key s1 hk
            simp at this; omega
          · injection hk with hk
            have := bareKey_len s []
            rw [hk] at this
            exact this
        cases hk : (if peek s = cQuote then loadStr cQuote false (s.drop 1) [] else Except.ok (bareKey s [])) with
        | error e =>
          simp only []
          refine good_err ?_
          intro he; subst he
          split at hk
          · exact absurd hk (loadStr_nofuel _ _ _ _)
          · cases hk
        | ok ks =>
          obtain ⟨key, s1⟩ := ks
          have hs1 := hkey key s1 hk
          simp only []
          split
          · exact good_err (by decide)
          · have hsk1 := skipWs_len s1
            generalize skipWs s1 = s2 at hsk1
            split
            · exact good_err (by decide)
            · rename_i hcolon
              -- the ':' is consumed: the value is read from a strictly shorter text
              have hne : s2 ≠ [] := by
                intro e; subst e; simp [peek, cColon] at hcolon
              have hd : (s2.drop 1).length + 1 ≤ s2.length := by
                cases s2 with
                | nil => exact absurd rfl hne
                | cons c t => simp
              have hl := load_good n (s2.drop 1) (by omega)
              cases hv : load n (s2.drop 1) with
              | error e =>
                simp only []
                exact good_err (fun he => hl.1 (by rw [hv, he]))
              | ok vr =>
                obtain ⟨v, r⟩ := vr
                have hr := hl.2 v r hv
                simp only []
                have hsk2 := skipWs_len r
                generalize skipWs r = r2 at hsk2
                split
                · refine good_mono (objLoop_good n hb (r2.drop 1) _ (by simp; omega)) (by simp; omega)
                · split
                  · split
                    · exact good_ok (by simp; omega)
                    · exact good_ok (by omega)
                  · split
                    · split
                      · exact good_err (by decide)
                      · exact good_ok (by omega)
                    · exact good_err (by decide)
theorem arrLoop_good : ∀ (n : Nat) (s : Bytes) (acc : List Json), 2 * s.length + 3 ≤ n → Good s (loadArrLoop n s acc)
  | 0, s, _, h => by omega
  | n + 1, s0, acc, h => by
    have hsk := skipWs_len s0
    simp only [loadArrLoop]
    split
    · exact good_err (by decide)
    · generalize hs : skipWs s0 = s at hsk
      split
      · exact good_ok (by simp; omega)
      · have hl := load_good n s (by omega)
        cases hv : load n s with
        | error e =>
          simp only []
          exact good_err (fun he => hl.1 (by rw [hv, he]))
        | ok vr =>
          obtain ⟨v, r⟩ := vr
          have hr := hl.2 v r hv
          simp only []
          have hsk2 := skipWs_len r
          generalize skipWs r = r2 at hsk2
          split
          · rename_i hcomma
            have hne : r2 ≠ [] := by
              intro e; subst e; simp [peek, cComma] at hcomma
            have hd : (r2.drop 1).length + 1 ≤ r2.length := by
              cases r2 with
              | nil => exact absurd rfl hne
              | cons c t => simp
            refine good_mono (arrLoop_good n (r2.drop 1) _ (by omega)) (by omega)
          · split
            · exact good_ok (by simp; omega)
            · split
              · exact good_err (by decide)
              · exact good_err (by decide)
end


/-- json::parse never fails for lack of recursion budget, whatever the text -/
theorem parse_never_fuel (s : Bytes) : parse s ≠ .error .fuel := by
  unfold parse
  have h := (load_good (parseFuel (cstr s).length) (cstr s) (by unfold parseFuel; omega)).1
  cases hl : load (parseFuel (cstr s).length) (cstr s) with
  | ok vr =>
    obtain ⟨v, r⟩ := vr
    simp only [hl]
    intro he; cases he
  | error e =>
    simp only [hl]
    intro he
    injection he with he
    exact h (by rw [hl, he])

end Occa.Json
