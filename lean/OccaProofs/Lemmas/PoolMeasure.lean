/-
The union measure of C04, defined independently of every sweep of the implementation:
`measure a l` is the number of byte positions that lie in the alignment-rounded range
`[⌊off/a⌋a, ⌈(off+size)/a⌉a)` of at least one reservation of `l` (cardinality of a finite set).
Lemmas: the loop of add/removeModeMemoryRef computes the uncovered part of a span, the block
sweep's total equals the measure of the layout it produces, and (for aligned block starts) of
the layout it consumes.
-/
import OccaProofs.Lemmas.PoolSweep
import Mathlib.Order.Interval.Finset.Nat
import Mathlib.Data.Finset.Card

namespace Occa.Pool
open Finset

/-- the alignment-rounded range of a reservation, as a set of byte positions -/
def span (a : Nat) (r : Resv) : Finset Nat := Ico (rdn a r.off) (rup a (r.off + r.size))

/-- union of the rounded ranges -/
def spanU (a : Nat) : List Resv → Finset Nat
  | [] => ∅
  | r :: rs => span a r ∪ spanU a rs

/-- C04's union measure -/
def measure (a : Nat) (l : List Resv) : Nat := (spanU a l).card

theorem mem_span {a : Nat} {r : Resv} {p : Nat} : p ∈ span a r ↔ rdn a r.off ≤ p ∧ p < rup a (r.off + r.size) := by
  simp [span]

theorem mem_spanU {a : Nat} {l : List Resv} {p : Nat} : p ∈ spanU a l ↔ ∃ r ∈ l, p ∈ span a r := by
  induction l with
  | nil => simp [spanU]
  | cons x xs ih => simp [spanU, ih]

theorem spanU_perm {a : Nat} {l l' : List Resv} (h : l.Perm l') : spanU a l = spanU a l' := by
  ext p
  rw [mem_spanU, mem_spanU]
  constructor <;> rintro ⟨r, hr, hp⟩
  · exact ⟨r, h.mem_iff.1 hr, hp⟩
  · exact ⟨r, h.mem_iff.2 hr, hp⟩

theorem measure_nil (a : Nat) : measure a [] = 0 := by simp [measure, spanU]

theorem card_union_sdiff (s t : Finset Nat) : (s ∪ t).card = t.card + (s \ t).card := by
  have h : s ∪ t = t ∪ (s \ t) := by
    ext p; simp only [mem_union, mem_sdiff]; tauto
  rw [h, card_union_of_disjoint]
  exact disjoint_sdiff

theorem measure_cons (a : Nat) (m : Resv) (l : List Resv) :
    measure a (m :: l) = measure a l + (span a m \ spanU a l).card := by
  unfold measure
  show (span a m ∪ spanU a l).card = _
  exact card_union_sdiff _ _

/-- sorted by offset: every later span starts at or after the rounded start of the first -/
theorem lower_of_sorted {a : Nat} {m : Resv} {ms : List Resv} (h : OffSorted (m :: ms)) {p : Nat}
    (hp : p ∈ spanU a (m :: ms)) : rdn a m.off ≤ p := by
  rw [mem_spanU] at hp
  obtain ⟨r, hr, hp⟩ := hp
  rw [mem_span] at hp
  rcases List.mem_cons.1 hr with rfl | hr
  · exact hp.1
  · exact Nat.le_trans (rdn_mono a ((List.pairwise_cons.1 h).1 r hr)) hp.1

theorem span_start_le_end {a : Nat} (ha : 0 < a) (r : Resv) : rdn a r.off ≤ rup a (r.off + r.size) := by
  have := rdn_le a r.off; have := le_rup ha (r.off + r.size); omega

/-! ### the loop of add/removeModeMemoryRef (after F07) -/

theorem uncovGo_spec {a : Nat} (ha : 0 < a) (hi : Nat) :
    ∀ (ms : List Resv) (lo acc : Nat), lo ≤ hi → OffSorted ms →
      uncovGo a hi lo acc ms = acc + (Ico lo hi \ spanU a ms).card := by
  intro ms
  induction ms with
  | nil =>
    intro lo acc _ _
    simp [uncovGo, spanU]
  | cons m ms ih =>
    intro lo acc hlh hsort
    have hsort' : OffSorted ms := (List.pairwise_cons.1 hsort).2
    have hse := span_start_le_end ha m
    have hlow : ∀ p, p ∈ spanU a ms → rdn a m.off ≤ p := fun p hp =>
      lower_of_sorted hsort (by show p ∈ span a m ∪ spanU a ms; exact mem_union_right _ hp)
    unfold uncovGo
    split
    · -- break: every remaining span starts at or after hi
      rename_i h1
      congr 1
      have : Ico lo hi \ spanU a (m :: ms) = Ico lo hi := by
        ext p
        simp only [mem_sdiff, mem_Ico, and_iff_left_iff_imp]
        intro hp hmem
        have := lower_of_sorted hsort hmem
        omega
      rw [this]; simp
    · rename_i h1
      split
      · -- continue: the span of m ends at or before lo
        rename_i h2
        rw [ih lo acc hlh hsort']
        congr 2
        ext p
        simp only [mem_sdiff, mem_Ico, spanU, mem_union, mem_span]
        constructor
        · rintro ⟨hp, hn⟩
          refine ⟨hp, ?_⟩
          rintro (h | h)
          · omega
          · exact hn h
        · rintro ⟨hp, hn⟩; exact ⟨hp, fun h => hn (Or.inr h)⟩
      · rename_i h2
        simp only []
        have hsplit : Ico lo hi \ spanU a (m :: ms) =
            Ico lo (rdn a m.off) ∪ (Ico (min hi (rup a (m.off + m.size))) hi \ spanU a ms) := by
          ext p
          simp only [mem_sdiff, mem_Ico, spanU, mem_union, mem_span]
          constructor
          · rintro ⟨hp, hn⟩
            by_cases hpm : p < rdn a m.off
            · exact Or.inl ⟨hp.1, hpm⟩
            · refine Or.inr ⟨⟨?_, hp.2⟩, fun h => hn (Or.inr h)⟩
              have : ¬ p < rup a (m.off + m.size) := fun h => hn (Or.inl ⟨by omega, h⟩)
              omega
          · rintro (⟨h1', h2'⟩ | ⟨h1', h2'⟩)
            · refine ⟨⟨h1', by omega⟩, ?_⟩
              rintro (h | h)
              · omega
              · have := hlow p h; omega
            · refine ⟨⟨by omega, h1'.2⟩, ?_⟩
              rintro (h | h)
              · omega
              · exact h2' h
        have hdisj : Disjoint (Ico lo (rdn a m.off)) (Ico (min hi (rup a (m.off + m.size))) hi \ spanU a ms) := by
          rw [Finset.disjoint_left]
          intro p h1' h2'
          simp only [mem_sdiff, mem_Ico] at h1' h2'
          omega
        have hacc : (if rdn a m.off > lo then acc + (rdn a m.off - lo) else acc) = acc + (rdn a m.off - lo) := by
          split <;> omega
        rw [hsplit, card_union_of_disjoint hdisj, Nat.card_Ico, hacc]
        split
        · rename_i h3
          rw [h3]
          simp
        · rename_i h3
          rw [ih _ _ (by omega) hsort']
          omega

/-- the amount add/removeModeMemoryRef adds to / subtracts from `reserved` -/
theorem spanDelta_fixed {c : Cfg} (hc : c.sweepAccumulatesGaps = true) {a : Nat} (ha : 0 < a) (m : Resv)
    (l : List Resv) (hs : OffSorted l) : spanDelta c a m l = (span a m \ spanU a l).card := by
  unfold spanDelta
  rw [if_pos hc, uncovGo_spec ha _ l _ 0 (span_start_le_end ha m) hs]
  simp [span]

/-! ### the block sweep and the measure -/

/-- what the measure lemmas need from the block-start function -/
structure StAlign (a : Nat) (st : Nat → Nat) : Prop where
  first : ∀ x, rdn a (x - st x) = 0
  join : ∀ y x h off, a ∣ off → st y ≤ st x → st x ≤ h → rdn a (off + (x - st y)) ≤ off + (h - st y)

theorem stAlign_id {a : Nat} : StAlign a id := by
  refine ⟨fun x => by simp [rdn], ?_⟩
  intro y x h off _ h1 h2
  have := rdn_le a (off + (x - id y))
  simp only [id] at *
  omega

theorem stAlign_rdn {a : Nat} (ha : 0 < a) : StAlign a (rdn a) := by
  refine ⟨fun x => rdn_eq_zero_of_lt (rdn_sub_self_lt ha x), ?_⟩
  intro y x h off hoff h1 h2
  have hyx : rdn a y ≤ x := Nat.le_trans h1 (rdn_le a x)
  rw [rdn_add_of_dvd ha hoff, rdn_sub_of_dvd ha (rdn_dvd a y) hyx]
  omega

theorem sweepGo_newLayout {a : Nat} (ha : 0 < a) {st : Nat → Nat} (hst : StOK st) (hal : StAlign a st) :
    ∀ (ms : List Resv) (y hi offset : Nat), a ∣ offset → st y ≤ hi → (∀ m ∈ ms, st y ≤ st m.off) →
      OffSorted ms →
      spanU a (sweepGo a st (st y) hi offset ms).resv ∪ Ico offset (offset + rup a (hi - st y)) =
        Ico offset (offset + (sweepGo a st (st y) hi offset ms).total) := by
  intro ms
  induction ms with
  | nil =>
    intro y hi offset _ _ _ _
    unfold sweepGo
    simp [spanU]
  | cons m ms ih =>
    intro y hi offset hoff hlh hlow hsort
    have hsort' : OffSorted ms := (List.pairwise_cons.1 hsort).2
    have hmle : ∀ x ∈ ms, m.off ≤ x.off := (List.pairwise_cons.1 hsort).1
    have hlom : st y ≤ st m.off := hlow m List.mem_cons_self
    have hstm : st m.off ≤ m.off := hst.le m.off
    unfold sweepGo
    split
    · rename_i hnew
      have hoff' : a ∣ offset + rup a (hi - st y) := Nat.dvd_add hoff (rup_dvd a _)
      have hrec := ih m.off (m.off + m.size) (offset + rup a (hi - st y)) hoff' (by omega)
        (fun x hx => hst.mono _ _ (hmle x hx)) hsort'
      have hsp : span a { m with off := offset + rup a (hi - st y) + (m.off - st m.off) } =
          Ico (offset + rup a (hi - st y)) (offset + rup a (hi - st y) + rup a (m.off + m.size - st m.off)) := by
        unfold span
        show Ico (rdn a (offset + rup a (hi - st y) + (m.off - st m.off)))
          (rup a (offset + rup a (hi - st y) + (m.off - st m.off) + m.size)) = _
        rw [rdn_add_of_dvd ha hoff', hal.first, Nat.add_assoc (offset + rup a (hi - st y)),
          rup_add_of_dvd ha hoff']
        have : m.off - st m.off + m.size = m.off + m.size - st m.off := by omega
        rw [this]; simp
      show (span a _ ∪ spanU a _) ∪ _ = Ico offset (offset + (rup a (hi - st y) + _))
      rw [hsp, Finset.union_comm (Ico _ _) (spanU a _), hrec]
      ext p
      simp only [mem_union, mem_Ico]
      omega
    · rename_i hjoin
      have hrec := ih y (max hi (m.off + m.size)) offset hoff (by omega)
        (fun x hx => Nat.le_trans hlom (hst.mono _ _ (hmle x hx))) hsort'
      have hj := hal.join y m.off hi offset hoff hlom (by omega)
      have hsp : span a { m with off := offset + (m.off - st y) } =
          Ico (rdn a (offset + (m.off - st y))) (offset + rup a (m.off + m.size - st y)) := by
        unfold span
        show Ico (rdn a (offset + (m.off - st y))) (rup a (offset + (m.off - st y) + m.size)) = _
        rw [Nat.add_assoc offset, rup_add_of_dvd ha hoff]
        have : m.off - st y + m.size = m.off + m.size - st y := by omega
        rw [this]
      have hlo : offset ≤ rdn a (offset + (m.off - st y)) := by
        rw [rdn_add_of_dvd ha hoff]; omega
      have hmax : rup a (max hi (m.off + m.size) - st y) = max (rup a (hi - st y)) (rup a (m.off + m.size - st y)) := by
        rw [← rup_max]
        congr 1; omega
      have hr1 := le_rup ha (hi - st y)
      have hAB : Ico (rdn a (offset + (m.off - st y))) (offset + rup a (m.off + m.size - st y)) ∪
          Ico offset (offset + rup a (hi - st y)) =
          Ico offset (offset + max (rup a (hi - st y)) (rup a (m.off + m.size - st y))) := by
        ext p
        simp only [mem_union, mem_Ico]
        omega
      show (span a _ ∪ spanU a _) ∪ _ = _
      rw [← hrec, hsp, hmax, Finset.union_comm (Ico _ _) (spanU a _), Finset.union_assoc, hAB]

/-- C04 on packing: the total computed by the sweep is the union measure of the layout it produces -/
theorem sweep_total_eq_measure {a : Nat} (ha : 0 < a) {st : Nat → Nat} (hst : StOK st) (hal : StAlign a st)
    (m : Resv) (ms : List Resv) (hsort : OffSorted (m :: ms)) :
    measure a (sweep a st m ms).resv = (sweep a st m ms).total ∧
    spanU a (sweep a st m ms).resv = Ico 0 (sweep a st m ms).total := by
  have hsort' : OffSorted ms := (List.pairwise_cons.1 hsort).2
  have hmle : ∀ x ∈ ms, m.off ≤ x.off := (List.pairwise_cons.1 hsort).1
  have hstm : st m.off ≤ m.off := hst.le m.off
  have hrec := sweepGo_newLayout ha hst hal ms m.off (m.off + m.size) 0 (Nat.dvd_zero a) (by omega)
    (fun x hx => hst.mono _ _ (hmle x hx)) hsort'
  have hsp : span a { m with off := 0 + (m.off - st m.off) } = Ico 0 (0 + rup a (m.off + m.size - st m.off)) := by
    unfold span
    show Ico (rdn a (0 + (m.off - st m.off))) (rup a (0 + (m.off - st m.off) + m.size)) = _
    have : 0 + (m.off - st m.off) + m.size = m.off + m.size - st m.off := by omega
    rw [this, Nat.zero_add, hal.first, Nat.zero_add]
  have hU : spanU a (sweep a st m ms).resv = Ico 0 (sweep a st m ms).total := by
    unfold sweep
    show span a _ ∪ spanU a _ = Ico 0 (sweepGo a st (st m.off) (m.off + m.size) 0 ms).total
    rw [hsp, Finset.union_comm, hrec, Nat.zero_add]
  exact ⟨by unfold measure; rw [hU]; simp, hU⟩

/-- with aligned block starts the sweep's total is also the measure of the layout it consumes -/
theorem sweepGo_oldLayout {a : Nat} (ha : 0 < a) :
    ∀ (ms : List Resv) (lo hi offset : Nat), a ∣ lo → lo ≤ hi → (∀ m ∈ ms, lo ≤ rdn a m.off) → OffSorted ms →
      (spanU a ms ∪ Ico lo (rup a hi)).card = (sweepGo a (rdn a) lo hi offset ms).total := by
  intro ms
  induction ms with
  | nil =>
    intro lo hi offset hlo hlh _ _
    unfold sweepGo
    simp [spanU, rup_sub_of_dvd ha hlo hlh]
  | cons m ms ih =>
    intro lo hi offset hlo hlh hlow hsort
    have hsort' : OffSorted ms := (List.pairwise_cons.1 hsort).2
    have hmle : ∀ x ∈ ms, m.off ≤ x.off := (List.pairwise_cons.1 hsort).1
    have hlom : lo ≤ rdn a m.off := hlow m List.mem_cons_self
    have hse := span_start_le_end ha m
    have hrm := rdn_le a m.off
    unfold sweepGo
    split
    · rename_i hnew
      have hrec := ih (rdn a m.off) (m.off + m.size) (offset + rup a (hi - lo)) (rdn_dvd a _) (by omega)
        (fun x hx => rdn_mono a (hmle x hx)) hsort'
      have hge : rup a hi ≤ rdn a m.off := rup_le_of_dvd ha (rdn_dvd a _) (by omega)
      have hdisj : Disjoint (spanU a ms ∪ Ico (rdn a m.off) (rup a (m.off + m.size))) (Ico lo (rup a hi)) := by
        rw [Finset.disjoint_left]
        intro p h1 h2
        simp only [mem_union, mem_Ico] at h1 h2
        rcases h1 with h1 | h1
        · have := lower_of_sorted hsort (by show p ∈ span a m ∪ spanU a ms; exact mem_union_right _ h1)
          omega
        · omega
      show (span a m ∪ spanU a ms ∪ Ico lo (rup a hi)).card = rup a (hi - lo) + _
      have e : span a m ∪ spanU a ms ∪ Ico lo (rup a hi) =
          (spanU a ms ∪ Ico (rdn a m.off) (rup a (m.off + m.size))) ∪ Ico lo (rup a hi) := by
        rw [Finset.union_comm (span a m)]; rfl
      rw [e, card_union_of_disjoint hdisj, hrec, Nat.card_Ico, rup_sub_of_dvd ha hlo hlh]
      omega
    · rename_i hjoin
      have hrec := ih lo (max hi (m.off + m.size)) offset hlo (by omega)
        (fun x hx => Nat.le_trans hlom (rdn_mono a (hmle x hx))) hsort'
      have hr1 := le_rup ha hi
      have hAB : span a m ∪ Ico lo (rup a hi) = Ico lo (max (rup a hi) (rup a (m.off + m.size))) := by
        ext p
        simp only [mem_union, mem_Ico, span]
        omega
      show (span a m ∪ spanU a ms ∪ Ico lo (rup a hi)).card = _
      rw [← hrec, rup_max, Finset.union_comm (span a m) (spanU a ms), Finset.union_assoc, hAB]

theorem sweep_total_eq_old_measure {a : Nat} (ha : 0 < a) (m : Resv) (ms : List Resv)
    (hsort : OffSorted (m :: ms)) : (sweep a (rdn a) m ms).total = measure a (m :: ms) := by
  have hsort' : OffSorted ms := (List.pairwise_cons.1 hsort).2
  have hmle : ∀ x ∈ ms, m.off ≤ x.off := (List.pairwise_cons.1 hsort).1
  have hrm := rdn_le a m.off
  have hrec := sweepGo_oldLayout ha ms (rdn a m.off) (m.off + m.size) 0 (rdn_dvd a _) (by omega)
    (fun x hx => rdn_mono a (hmle x hx)) hsort'
  unfold sweep measure
  show (sweepGo a (rdn a) (rdn a m.off) (m.off + m.size) 0 ms).total = (span a m ∪ spanU a ms).card
  rw [← hrec, Finset.union_comm]
  rfl

/-- every rounded range lies below `s` ⇒ the measure is at most `s` -/
theorem measure_le_of_bounded {a : Nat} {l : List Resv} {s : Nat}
    (h : ∀ r ∈ l, rup a (r.off + r.size) ≤ s) : measure a l ≤ s := by
  have hsub : spanU a l ⊆ Ico 0 s := by
    intro p hp
    rw [mem_spanU] at hp
    obtain ⟨r, hr, hp⟩ := hp
    rw [mem_span] at hp
    have := h r hr
    simp only [mem_Ico]; omega
  have := card_le_card hsub
  simpa [measure] using this

end Occa.Pool
