import OccaProofs.Lemmas.PrimLitParts
import OccaProofs.Lemmas.PrimRange
namespace Occa.Prim.Lemmas
open Occa Occa.CExpr Occa.CxxSem Occa.Gen Occa.Prim

theorem literalTypedByValue_on : literalTypedByValue = true := by decide

theorem suffix_chars : ∀ s ∈ intSuffixes, ∀ c ∈ s, isSufChar c = true := by decide

theorem find_inRange_lt {cs : List Ty} {V : Int} {t : Ty} (h : cs.find? (fun t => inRange t V) = some t) : inRange t V = true := by
  have := List.find?_some h
  simpa using this

theorem inRange_lt_two64 {t : Ty} {V : Nat} (h : inRange t (Int.ofNat V) = true) : V < two64 := by
  have h64 : two64 = 18446744073709551616 := rfl
  cases t <;> simp [inRange, Ty.minVal, Ty.maxVal, Ty.signed, Ty.bits] at h <;> omega

theorem load_hex (fuel : Nat) (x : Char) (hx : x = 'x' ∨ x = 'X') (ds suf rest : List Char)
    (hdig : ∀ c ∈ ds, isDigitOf 16 c = true) (hne : ds ≠ []) (hs : ∀ c ∈ suf, isSufChar c = true) (hr : Term rest)
    (hV : digitsVal 16 ds < two64) :
    load (fuel + 1) ('0' :: x :: (ds ++ (suf ++ rest))) true =
      (let q := integerLiteral (digitsVal 16 ds) false (sufUnsigned suf) (sufLongs suf); ⟨some q.1, q.2⟩, rest) := by
  have hscan := scanHex_digits ds hdig (suf ++ rest) (stops_suffix suf rest hs hr).1 0 0
  have hexact := hornerMod_exact (r := 16) (by decide) ds 0 (by rw [← digitsVal_eq_horner]; exact hV)
  rw [← digitsVal_eq_horner] at hexact
  have hlen : ds.length ≠ 0 := by cases ds <;> simp_all
  have hlt : digitsVal 16 ds < 2 ^ (4 * ds.length) := by
    have := horner_lt (r := 16) ds (fun c hc => digitVal_lt (hdig c hc)) 0
    rw [← digitsVal_eq_horner] at this
    have e : (16:Nat) ^ ds.length = 2 ^ (4 * ds.length) := by rw [Nat.pow_mul]
    omega
  obtain ⟨hto, hnone⟩ := sizedPrim_ulong (digitsVal 16 ds) (4 * ds.length) hlt hV
  rcases hx with rfl | rfl <;>
    simp [load, List.isPrefixOf, Prim.hd, upper, literalTypedByValue_on, loadHex, hscan, hexact, hlen, hnone,
      finishFormatted, scanSuffix_suffix _ true suf rest hs hr, hto, applySign]


theorem load_bin (fuel : Nat) (x : Char) (hx : x = 'b' ∨ x = 'B') (ds suf rest : List Char)
    (hdig : ∀ c ∈ ds, isDigitOf 2 c = true) (hne : ds ≠ []) (hs : ∀ c ∈ suf, isSufChar c = true) (hr : Term rest)
    (hV : digitsVal 2 ds < two64) :
    load (fuel + 1) ('0' :: x :: (ds ++ (suf ++ rest))) true =
      (let q := integerLiteral (digitsVal 2 ds) false (sufUnsigned suf) (sufLongs suf); ⟨some q.1, q.2⟩, rest) := by
  have hscan := scanBin_digits ds hdig (suf ++ rest) (stops_suffix suf rest hs hr).2.1 0 0
  have hexact := hornerMod_exact (r := 2) (by decide) ds 0 (by rw [← digitsVal_eq_horner]; exact hV)
  rw [← digitsVal_eq_horner] at hexact
  have hlen : ds.length ≠ 0 := by cases ds <;> simp_all
  have hlt : digitsVal 2 ds < 2 ^ ds.length := by
    have := horner_lt (r := 2) ds (fun c hc => digitVal_lt (hdig c hc)) 0
    rw [← digitsVal_eq_horner] at this
    omega
  obtain ⟨hto, hnone⟩ := sizedPrim_ulong (digitsVal 2 ds) ds.length hlt hV
  rcases hx with rfl | rfl <;>
    simp [load, List.isPrefixOf, Prim.hd, upper, literalTypedByValue_on, loadBinary, hscan, hexact, hlen, hnone,
      finishFormatted, scanSuffix_suffix _ true suf rest hs hr, hto, applySign]

theorem foldl_congr_mem {α β : Type} (f g : α → β → α) (l : List β) (h : ∀ b ∈ l, ∀ a, f a b = g a b) :
    ∀ a, l.foldl f a = l.foldl g a := by
  induction l with
  | nil => intro a; rfl
  | cons b t ih =>
    intro a
    simp only [List.foldl_cons]
    rw [h b (by simp), ih (fun x hx => h x (by simp [hx]))]

theorem decVal_eq (ds : List Char) (hdig : ∀ c ∈ ds, isDigitOf 10 c = true) : decVal ds = hornerMod 10 0 ds := by
  unfold decVal hornerMod
  apply foldl_congr_mem
  intro c hc v
  rw [(dec_digit (hdig c hc)).2.1, Nat.mul_comm]

theorem octVal_eq (ds : List Char) (hdig : ∀ c ∈ ds, isDigitOf 8 c = true) : octVal ('0' :: ds) = hornerMod 8 0 ds := by
  unfold octVal hornerMod
  simp only [List.drop_succ_cons, List.drop_zero]
  apply foldl_congr_mem
  intro c hc v
  rw [(dec_digit (digit_mono (by decide) (hdig c hc))).2.1]

theorem take_append_sub {α : Type} (a b : List α) : (a ++ b).take ((a ++ b).length - b.length) = a := by
  simp


theorem load_dec (fuel : Nat) (d0 : Char) (ds suf rest : List Char)
    (hdig : ∀ c ∈ d0 :: ds, isDigitOf 10 c = true) (hnz : d0 ≠ '0') (hs : ∀ c ∈ suf, isSufChar c = true) (hr : Term rest)
    (hV : digitsVal 10 (d0 :: ds) < two64) :
    load (fuel + 1) (d0 :: ds ++ (suf ++ rest)) true =
      (let q := integerLiteral (digitsVal 10 (d0 :: ds)) true (sufUnsigned suf) (sufLongs suf); ⟨some q.1, q.2⟩, rest) := by
  obtain ⟨h09, _, ht, hf, hp, hm, _⟩ := dec_digit (hdig d0 (by simp))
  have hscan := scanDigits_digits (d0 :: ds) hdig (suf ++ rest) (stops_suffix suf rest hs hr).2.2 0 false
  have hexact := hornerMod_exact (r := 10) (by decide) (d0 :: ds) 0 (by rw [← digitsVal_eq_horner]; exact hV)
  rw [← digitsVal_eq_horner, ← decVal_eq (d0 :: ds) hdig] at hexact
  simp only [List.cons_append] at hscan
  have hpre1 : ("true".toList.isPrefixOf (d0 :: (ds ++ (suf ++ rest)))) = false := by
    simp [List.isPrefixOf, Ne.symm ht]
  have hpre2 : ("false".toList.isPrefixOf (d0 :: (ds ++ (suf ++ rest)))) = false := by
    simp [List.isPrefixOf, Ne.symm hf]
  simp only [List.cons_append, load, hpre1, hpre2, Prim.hd, List.headD_cons, hp, hm, hnz, false_or, false_and,
    Bool.false_eq_true, if_false, finishPlain, hscan, scanSuffix_suffix _ false suf rest hs hr]
  have htake' : List.take (ds.length + (suf.length + rest.length) + 1 - (suf.length + rest.length))
      (d0 :: (ds ++ (suf ++ rest))) = d0 :: ds := by
    have : ds.length + (suf.length + rest.length) + 1 - (suf.length + rest.length) = ds.length + 1 := by omega
    rw [this]; simp
  simp [htake', hexact, literalTypedByValue_on, applySign, hnz]


theorem oct_table : ∀ n, n < 128 →
    (!isDigitOf 8 (Char.ofNat n) || decide (upper (Char.ofNat n) ≠ 'B' ∧ upper (Char.ofNat n) ≠ 'X')) = true := by
  decide +kernel

theorem oct_second (ds suf rest : List Char) (hdig : ∀ c ∈ ds, isDigitOf 8 c = true) (hs : ∀ c ∈ suf, isSufChar c = true)
    (hr : Term rest) :
    upper (Prim.hd (ds ++ (suf ++ rest))) ≠ 'B' ∧ upper (Prim.hd (ds ++ (suf ++ rest))) ≠ 'X' := by
  cases ds with
  | cons c t =>
    have h := hdig c (by simp)
    have := ascii_table (fun c => !isDigitOf 8 c || decide (upper c ≠ 'B' ∧ upper c ≠ 'X')) oct_table c (digit_ascii h)
    simpa [h, Prim.hd] using this
  | nil =>
    cases suf with
    | nil =>
      rcases hr with rfl | ⟨c, t, rfl, hc⟩
      · simp [Prim.hd]; decide
      · obtain ⟨_, _, _, _, _, _, _, _, hB, hX⟩ := term_facts c hc
        simpa [Prim.hd] using And.intro hB hX
    | cons c t =>
      rcases sufChar_cases (hs c (by simp)) with rfl | rfl | rfl | rfl <;> simp [Prim.hd] <;> decide

theorem load_oct (fuel : Nat) (ds suf rest : List Char)
    (hdig : ∀ c ∈ ds, isDigitOf 8 c = true) (hs : ∀ c ∈ suf, isSufChar c = true) (hr : Term rest)
    (hV : digitsVal 8 ds < two64) :
    load (fuel + 1) ('0' :: ds ++ (suf ++ rest)) true =
      (let q := integerLiteral (digitsVal 8 ds) false (sufUnsigned suf) (sufLongs suf); ⟨some q.1, q.2⟩, rest) := by
  have hdig10 : ∀ c ∈ '0' :: ds, isDigitOf 10 c = true := by
    intro c hc
    rcases List.mem_cons.mp hc with rfl | hc
    · decide
    · exact digit_mono (by decide) (hdig c hc)
  have hscan := scanDigits_digits ('0' :: ds) hdig10 (suf ++ rest) (stops_suffix suf rest hs hr).2.2 1 false
  have hexact := hornerMod_exact (r := 8) (by decide) ds 0 (by rw [← digitsVal_eq_horner]; exact hV)
  rw [← digitsVal_eq_horner, ← octVal_eq ds hdig] at hexact
  obtain ⟨hB, hX⟩ := oct_second ds suf rest hdig hs hr
  simp only [List.cons_append] at hscan
  have htake' : List.take (ds.length + (suf.length + rest.length) + 1 - (suf.length + rest.length))
      ('0' :: (ds ++ (suf ++ rest))) = '0' :: ds := by
    have : ds.length + (suf.length + rest.length) + 1 - (suf.length + rest.length) = ds.length + 1 := by omega
    rw [this]; simp
  have hpre1 : ("true".toList.isPrefixOf ('0' :: (ds ++ (suf ++ rest)))) = false := by simp [List.isPrefixOf]
  have hpre2 : ("false".toList.isPrefixOf ('0' :: (ds ++ (suf ++ rest)))) = false := by simp [List.isPrefixOf]
  simp only [List.cons_append, load, hpre1, hpre2, Prim.hd, List.headD_cons]
  simp [Prim.hd] at hB hX
  simp [hB, hX, finishPlain, Prim.hd, hscan, scanSuffix_suffix _ false suf rest hs hr, htake', hexact,
    literalTypedByValue_on, applySign]


theorem cand_reach (l : IntLit) {t : Ty} (h : t ∈ l.candidates) : Reach t := by
  unfold IntLit.candidates at h
  simp only at h
  split at h <;> (try split at h) <;> cases t <;> simp_all [Reach]

theorem contains_suffix {suf : List Char} (h : intSuffixes.contains suf = true) : ∀ c ∈ suf, isSufChar c = true :=
  suffix_chars suf (List.contains_iff_mem.mp h)

/-- [lex.icon] typing = primitive::load typing, for every well-formed integer literal, wherever it
    stands in the source text: `rest` is what follows the literal, and `load` stops exactly there -/
theorem intlit_load (l : IntLit) (v : Val) (h : intLitVal l = .val v) (rest : List Char) (hr : Term rest) (fuel : Nat) :
    load (fuel + 1) (l.text ++ rest) true = (Prim.ofVal v, rest) ∧ Good v := by
  unfold intLitVal at h
  split at h
  case isFalse => cases h
  rename_i hwf
  simp only at h
  split at h
  case h_2 => cases h
  rename_i t hfind
  cases h
  have hin := find_inRange_lt hfind
  have hV := inRange_lt_two64 hin
  have hmem := List.mem_of_find?_eq_some hfind
  refine ⟨?_, cand_reach l hmem, hin⟩
  simp only [IntLit.wf, Bool.and_eq_true, decide_eq_true_eq, List.all_eq_true] at hwf
  obtain ⟨⟨⟨hpre, hdig⟩, hshape⟩, hsuf⟩ := hwf
  have hs := contains_suffix hsuf
  have hspec : ∀ dec : Bool, dec = decide (l.radix = 10) →
      integerLiteral (digitsVal l.radix l.digits) dec (sufUnsigned l.suf) (sufLongs l.suf) =
        (t, Int.ofNat (digitsVal l.radix l.digits)) := by
    intro dec hdec
    apply integerLiteral_spec
    rw [← hfind]
    subst hdec
    unfold IntLit.candidates IntLit.isUnsigned IntLit.longs sufUnsigned sufLongs
    by_cases hr : l.radix = 10 <;> simp [hr] <;> rfl
  obtain ⟨pre, ds, suf⟩ := l
  simp only at hpre hdig hshape hs hspec hV ⊢
  unfold IntLit.text
  simp only
  rcases hpre with rfl | rfl | rfl | rfl | rfl | rfl
  · -- decimal
    simp only [IntLit.radix] at hdig hspec hV hshape ⊢
    simp at hdig hspec hV hshape
    cases ds with
    | nil => simp at hshape
    | cons d0 t0 =>
      simp at hshape
      have := load_dec fuel d0 t0 suf rest (by simpa using hdig) hshape hs hr hV
      simp only [List.nil_append, List.append_assoc]
      rw [this]
      simp [hspec, Prim.ofVal]
  · -- octal
    simp only [IntLit.radix] at hdig hspec hV ⊢
    simp at hdig hspec hV
    have := load_oct fuel ds suf rest hdig hs hr hV
    simp only [List.cons_append, List.nil_append, List.append_assoc] at this ⊢
    rw [this]
    simp [hspec, Prim.ofVal]
  · simp only [IntLit.radix] at hdig hspec hV hshape ⊢
    simp at hdig hspec hV hshape
    have := load_hex fuel 'x' (Or.inl rfl) ds suf rest hdig hshape hs hr hV
    simp only [List.cons_append, List.nil_append, List.append_assoc] at this ⊢
    rw [this]
    simp [hspec, Prim.ofVal]
  · simp only [IntLit.radix] at hdig hspec hV hshape ⊢
    simp at hdig hspec hV hshape
    have := load_hex fuel 'X' (Or.inr rfl) ds suf rest hdig hshape hs hr hV
    simp only [List.cons_append, List.nil_append, List.append_assoc] at this ⊢
    rw [this]
    simp [hspec, Prim.ofVal]
  · simp only [IntLit.radix] at hdig hspec hV hshape ⊢
    simp at hdig hspec hV hshape
    have := load_bin fuel 'b' (Or.inl rfl) ds suf rest hdig hshape hs hr hV
    simp only [List.cons_append, List.nil_append, List.append_assoc] at this ⊢
    rw [this]
    simp [hspec, Prim.ofVal]
  · simp only [IntLit.radix] at hdig hspec hV hshape ⊢
    simp at hdig hspec hV hshape
    have := load_bin fuel 'B' (Or.inr rfl) ds suf rest hdig hshape hs hr hV
    simp only [List.cons_append, List.nil_append, List.append_assoc] at this ⊢
    rw [this]
    simp [hspec, Prim.ofVal]

theorem intlit_agree (l : IntLit) (v : Val) (h : intLitVal l = .val v) :
    loadTok l.text = Prim.ofVal v ∧ Good v := by
  obtain ⟨h1, h2⟩ := intlit_load l v h [] (Or.inl rfl) l.text.length
  rw [List.append_nil] at h1
  exact ⟨by unfold loadTok; rw [h1], h2⟩

/-- `true` / `false` followed by anything -/
theorem boollit_load (b : Bool) (rest : List Char) (fuel : Nat) :
    load (fuel + 1) ((Lit.bool b).text ++ rest) true = (Prim.ofVal (ofBool b), rest) := by
  cases b <;> simp [Lit.text, load, List.isPrefixOf, Prim.ofVal, ofBool]

/-- literal text gets the type and value C++ gives it (integer and boolean literals) -/
theorem lit_agree {l : Lit} {v : Val} (hl : integral (.lit l) = true) (h : litVal l = .val v) :
    loadTok l.text = Prim.ofVal v ∧ Good v := by
  cases l with
  | bool b =>
    cases b <;> simp [litVal] at h <;> subst h
    · exact ⟨by decide, good_ofBool _⟩
    · exact ⟨by decide, good_ofBool _⟩
  | int il => exact intlit_agree il v h
  | float fl => simp [integral] at hl

end Occa.Prim.Lemmas
