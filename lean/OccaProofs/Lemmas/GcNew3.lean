/-
Old objects are not disturbed by creation (`Grow`), and the temporary handle of a creating call.
-/
import OccaProofs.Lemmas.GcNew2

namespace Occa.Gc

/-- `s'` differs from `s` only by new objects (ids from `s.next` on) and new ring entries -/
structure Grow (s s' : St) : Prop where
  alive_old : ∀ x, x < s.next → s'.alive x = s.alive x
  kind : ∀ x, x < s.next → s'.kind x = s.kind x
  par : ∀ x, x < s.next → s'.par x = s.par x
  ring : ∀ x, x < s.next → s'.ring x = s.ring x
  useRefs : ∀ x, x < s.next → s'.useRefs x = s.useRefs x
  inner : ∀ x i, x < s.next → s.inner x = some i → s'.inner x = some i
  kids : ∀ b x, x ∈ s.kids b → x ∈ s'.kids b
  ch : ∀ k d x, x ∈ s.chGet k d → x ∈ s'.chGet k d

/-- the "everything alive has an owner" clauses carry over to the old objects -/
theorem Grow.pos {s s' : St} (hi : InvX E s) (hg : Grow s s') :
    (∀ c, c < s.next → s'.alive c = true → s'.kind c ≠ .dev → s'.kind c ≠ .mem →
      ∃ d, s'.par c = some d ∧ s'.alive d = true ∧ s'.kind d = .dev
        ∧ (c ∈ s'.chGet (s'.kind c) d ∨ (s'.kind c = .buf ∧ ∃ p, s'.alive p = true ∧ s'.inner p = some c)))
    ∧ (∀ m, m < s.next → s'.alive m = true → s'.kind m = .mem → ∃ b, s'.par m = some b ∧ m ∈ s'.kids b)
    ∧ (∀ o, o < s.next → s'.alive o = true → s'.kind o ≠ .buf → s'.useRefs o = true → s'.ring o ≠ [])
    ∧ (∀ b, b < s.next → s'.alive b = true → s'.kind b = .buf →
        (s'.kids b ≠ [] ∨ ∃ p, s'.alive p = true ∧ s'.inner p = some b)) := by
  have hal : ∀ x, s.alive x = true → x < s.next := hi.alive_lt
  have hal' : ∀ x, s.alive x = true → s'.alive x = true := fun x hx => by rw [hg.alive_old x (hal x hx)]; exact hx
  refine ⟨?_, ?_, ?_, ?_⟩
  · intro c hc hca hk1 hk2
    rw [hg.alive_old c hc] at hca
    rw [hg.kind c hc] at hk1 hk2 ⊢
    obtain ⟨d, hd1, hd2, hd3, hd4⟩ := hi.ch_par c hca hk1 hk2
    refine ⟨d, by rw [hg.par c hc]; exact hd1, hal' d hd2, by rw [hg.kind d (hal d hd2)]; exact hd3, ?_⟩
    rcases hd4 with h | ⟨h1, p, hp1, hp2⟩
    · exact Or.inl (hg.ch _ d c h)
    · exact Or.inr ⟨h1, p, hal' p hp1, hg.inner p c (hal p hp1) hp2⟩
  · intro m hm hma hmk
    rw [hg.alive_old m hm] at hma
    rw [hg.kind m hm] at hmk
    obtain ⟨b, hb1, hb2⟩ := hi.mem_par m hma hmk
    exact ⟨b, by rw [hg.par m hm]; exact hb1, hg.kids b m hb2⟩
  · intro o ho hoa hok hou
    rw [hg.alive_old o ho] at hoa
    rw [hg.kind o ho] at hok
    rw [hg.useRefs o ho] at hou
    rw [hg.ring o ho]
    rcases hi.ring_ne o hoa hok hou with h | ⟨w, hw, _⟩
    · exact h
    · exact hw.elim
  · intro b hb hba hbk
    rw [hg.alive_old b hb] at hba
    rw [hg.kind b hb] at hbk
    rcases hi.buf_ne b hba hbk with h | ⟨p, hp1, hp2⟩
    · left
      obtain ⟨m, hm⟩ := List.exists_mem_of_ne_nil _ h
      intro hnil
      have := hg.kids b m hm
      rw [hnil] at this; simp at this
    · exact Or.inr ⟨p, hal' p hp1, hg.inner p b (hal p hp1) hp2⟩

/-- `setModeX(modeX_)` of a handle that holds NULL -/
theorem setMode_null {s : St} {v : Var} {o : Nat} (hp : s.ptr v = none) (hoa : s.alive o = true) :
    setMode s v (some o) = (s.setPtr v (some o)).setRing o (Ring.add (s.ring o) v) := by
  have h1 : dropRef s v = s := by
    unfold dropRef dropRefWith
    simp only [hp]
  unfold setMode
  have hne : ¬ (s.ptr v = some o) := by rw [hp]; simp
  simp only [hne, if_false, h1]
  have : (s.setPtr v (some o)).alive o = true := hoa
  simp only [St.touch_alive this]
  rfl

/-- what the temporary handle of a creating call changes -/
structure TempOut (s s' : St) (hk : HKind) (o : Nat) : Prop where
  ptr_t : s'.ptr (.tmp hk) = some o
  vlive_t : s'.vlive (.tmp hk) = true
  ptr : ∀ w, w ≠ Var.tmp hk → s'.ptr w = s.ptr w
  vlive : ∀ w, w ≠ Var.tmp hk → s'.vlive w = s.vlive w
  next : s'.next = s.next
  kind : s'.kind = s.kind
  alive : s'.alive = s.alive

/-- `X tmp(modeX)` for an object that exists and is registered but has no handle yet -/
theorem attach_new {s : St} {hk : HKind} {o : Nat} (h0 : Inv0 E s)
    (hrn : ∀ x, x ≠ o → s.alive x = true → s.kind x ≠ .buf → s.useRefs x = true → s.ring x ≠ [])
    (hbn : ∀ b, s.alive b = true → s.kind b = .buf →
      (s.kids b ≠ [] ∨ ∃ p, s.alive p = true ∧ s.inner p = some b))
    (hoa : s.alive o = true) (hok : s.kind o = hk.obj) (htl : s.vlive (.tmp hk) = false) :
    InvX E (tempOf s hk o) ∧ TempOut s (tempOf s hk o) hk o := by
  have hpt : s.ptr (.tmp hk) = none := by
    cases h : s.ptr (.tmp hk) with
    | none => rfl
    | some x =>
      have := h0.ptr_live _ x h
      rw [htl] at this; cases this
  have hc : construct s (.tmp hk) = s.setVLive (.tmp hk) true := by
    unfold construct
    exact setPtr_none_self _ _ hpt
  have h0c : Inv0 E (s.setVLive (.tmp hk) true) := by
    refine ⟨⟨h0.notrap, h0.alive_lt, h0.dtors_eq, h0.ptr_ok, ?_, h0.ring_ptr, h0.ring_nodup, h0.ex_out, ?_,
      h0.kids_ok, h0.kids_nodup, h0.ch_ok, h0.ch_nodup, h0.inner_ok, h0.inner_inj⟩, h0.ch_par, h0.mem_par⟩
    · intro w x hw
      show upd s.vlive (.tmp hk) true w = true
      by_cases h : w = .tmp hk
      · rw [h, upd_same]
      · rw [upd_other _ _ h]; exact h0.ptr_live w x hw
    · intro d hd
      have hd' : upd s.vlive (.tmp hk) true (.cur d) = true := hd
      rw [upd_other _ _ (by simp)] at hd'
      exact h0.cur_lt d hd'
  have he : tempOf s hk o = ((s.setVLive (.tmp hk) true).setPtr (.tmp hk) (some o)).setRing o
      (Ring.add ((s.setVLive (.tmp hk) true).ring o) (.tmp hk)) := by
    unfold tempOf
    rw [hc]
    exact setMode_null (s := s.setVLive (.tmp hk) true) hpt hoa
  rw [he]
  refine ⟨attach_core h0c (fun x hx a b c => Or.inl (hrn x hx a b c)) hbn (fun h => h) hpt (by simp [St.setVLive])
    hoa hok, ?_⟩
  refine ⟨by simp [St.setRing, St.setPtr], by simp [St.setRing, St.setPtr, St.setVLive], ?_, ?_, rfl, rfl, rfl⟩
  · intro w hw; simp [St.setRing, St.setPtr, St.setVLive, upd_apply, hw]
  · intro w hw; simp [St.setRing, St.setPtr, St.setVLive, upd_apply, hw]

end Occa.Gc
