/-
The pointer-level ring code of gc.tpp (`Links`, `RingP.addRef`, `RingP.removeRef` of OccaModel/Gc.lean)
refines the list operations `Ring.add` / `Ring.remove` that the handle model uses.

`WF L r l`: the entries of ring `r` in ring order (from `head`, following `rightRingEntry`) are exactly
the list `l`: `head` is the first element, no entry occurs twice, consecutive entries are linked both
ways and the last one is linked back to the first.
-/
import OccaProofs.Lemmas.GcList

namespace Occa.Gc.RingRefine
open Occa.Gc

variable {α : Type} [DecidableEq α]

/-- a doubly linked path `a → t₁ → … → tₙ → z` -/
def Chain (L : Links α) : α → List α → α → Prop
  | a, [], z => L.right a = z ∧ L.left z = a
  | a, x :: t, z => L.right a = x ∧ L.left x = a ∧ Chain L x t z

/-- a closed cycle through the entries of the list -/
def Cyc (L : Links α) : List α → Prop
  | [] => True
  | h :: t => Chain L h t h

def WF (L : Links α) (r : RingP α) (l : List α) : Prop :=
  r.head = l.head? ∧ l.Nodup ∧ Cyc L l

/-- an entry that is in no ring (after the `ringEntry_t` constructor, or after `removeRef`) -/
def Unlinked (L : Links α) (e : α) : Prop := L.left e = e ∧ L.right e = e

theorem chain_append (L : Links α) : ∀ (t1 : List α) (a x : α) (t2 : List α) (z : α),
    Chain L a (t1 ++ x :: t2) z ↔ Chain L a t1 x ∧ Chain L x t2 z
  | [], a, x, t2, z => by simp [Chain, and_assoc]
  | y :: t1, a, x, t2, z => by
    simp only [List.cons_append, Chain, chain_append L t1 y x t2 z, and_assoc]

theorem chain_congr {L L' : Links α} : ∀ (t : List α) (a z : α),
    (∀ y, y = a ∨ y ∈ t → L'.right y = L.right y) → (∀ y, y ∈ t ∨ y = z → L'.left y = L.left y) →
    Chain L a t z → Chain L' a t z
  | [], a, z, hr, hl, h => by
    obtain ⟨h1, h2⟩ := h
    exact ⟨by rw [hr a (Or.inl rfl)]; exact h1, by rw [hl z (Or.inr rfl)]; exact h2⟩
  | x :: t, a, z, hr, hl, h => by
    obtain ⟨h1, h2, h3⟩ := h
    refine ⟨by rw [hr a (Or.inl rfl)]; exact h1, by rw [hl x (Or.inl (by simp))]; exact h2, ?_⟩
    apply chain_congr t x z _ _ h3
    · intro y hy
      apply hr
      rcases hy with h | h
      · exact Or.inr (by simp [h])
      · exact Or.inr (by simp [h])
    · intro y hy
      apply hl
      rcases hy with h | h
      · exact Or.inl (by simp [h])
      · exact Or.inr h

/-- rotation of a cycle -/
theorem chain_rotate (L : Links α) (x y : α) (t1 t2 : List α) :
    Chain L x (t1 ++ y :: t2) x ↔ Chain L y (t2 ++ x :: t1) y := by
  rw [chain_append, chain_append]
  exact And.comm

theorem nd_head {a y : α} {l : List α} (h : (a :: l).Nodup) (hy : y ∈ l) : y ≠ a := by
  intro e; subst e; exact (List.nodup_cons.mp h).1 hy

theorem nd_app {y z : α} {l1 l2 : List α} (h : (l1 ++ l2).Nodup) (hy : y ∈ l1) (hz : z ∈ l2) : y ≠ z :=
  (List.nodup_append.mp h).2.2 y hy z hz

/-! ### `ringEntry_t::removeRef` -/

theorem unlink_right (L : Links α) (e : α) (hne : L.left e ≠ e) (y : α) :
    (L.unlink e).right y = if y = e then e else if y = L.left e then L.right e else L.right y := by
  simp only [Links.unlink, hne, ne_eq, not_false_eq_true, if_true, upd_apply]

theorem unlink_left (L : Links α) (e : α) (hne : L.left e ≠ e) (y : α) :
    (L.unlink e).left y = if y = e then e else if y = L.right e then L.left e else L.left y := by
  simp only [Links.unlink, hne, ne_eq, not_false_eq_true, if_true, upd_apply]
  by_cases h1 : y = e
  · simp [h1]
  · simp only [h1, if_false]
    have : (if e = L.left e then L.right e else L.right e) = L.right e := by split <;> rfl
    rw [this]

theorem unlink_self (L : Links α) (e : α) (h : L.left e = e) (y : α) :
    (L.unlink e).right y = (if y = e then e else L.right y)
      ∧ (L.unlink e).left y = (if y = e then e else L.left y) := by
  simp [Links.unlink, h, upd_apply]

theorem unlink_unlinked (L : Links α) (e : α) : Unlinked (L.unlink e) e := by
  constructor <;> simp [Links.unlink]

/-- an entry outside the ring of `e` keeps its links -/
theorem unlink_frame (L : Links α) (e y : α) (h1 : y ≠ e) (h2 : y ≠ L.left e) (h3 : y ≠ L.right e) :
    (L.unlink e).left y = L.left y ∧ (L.unlink e).right y = L.right y := by
  by_cases hne : L.left e = e
  · obtain ⟨a, b⟩ := unlink_self L e hne y
    simp [a, b, h1]
  · rw [unlink_left L e hne, unlink_right L e hne]
    simp [h1, h2, h3]

/-- unlinking the first entry of a cycle of at least two entries leaves the cycle of the others -/
theorem unlink_head_cyc (L : Links α) (e x : α) (u : List α) (hn : (e :: x :: u).Nodup)
    (hc : Chain L e (x :: u) e) : Chain (L.unlink e) x u x := by
  obtain ⟨h1, h2, h3⟩ := hc
  have hex : e ≠ x := by
    intro h; subst h; simp at hn
  rcases List.eq_nil_or_concat u with hu | ⟨u', p, hu⟩
  · subst hu
    obtain ⟨h4, h5⟩ := h3
    -- two entries: x is both neighbours of e
    have hle : L.left e ≠ e := by rw [h5]; exact fun h => hex h.symm
    refine ⟨?_, ?_⟩
    · rw [unlink_right L e hle]
      simp [Ne.symm hex, h5, h1]
    · rw [unlink_left L e hle]
      simp [Ne.symm hex, h1, h5]
  · subst hu
    rw [List.concat_eq_append] at h3 hn ⊢
    rw [chain_append] at h3 ⊢
    obtain ⟨h6, h7, h8⟩ := h3
    have hn2 : (x :: (u' ++ [p])).Nodup := (List.nodup_cons.mp hn).2
    have hn3 : (u' ++ [p]).Nodup := (List.nodup_cons.mp hn2).2
    have hpe : p ≠ e := nd_head hn (by simp)
    have hxe : x ≠ e := nd_head hn (by simp)
    have hpx : p ≠ x := nd_head hn2 (by simp)
    have hle : L.left e ≠ e := by rw [h8]; exact hpe
    refine ⟨?_, ?_, ?_⟩
    · apply chain_congr u' x p _ _ h6
      · intro y hy
        rw [unlink_right L e hle, h8]
        have hye : y ≠ e := by
          rcases hy with h | h
          · rw [h]; exact hxe
          · exact nd_head hn (by simp [h])
        have hyp : y ≠ p := by
          rcases hy with h | h
          · rw [h]; exact Ne.symm hpx
          · exact nd_app hn3 h (by simp)
        simp [hye, hyp]
      · intro y hy
        rw [unlink_left L e hle, h1]
        have hye : y ≠ e := by
          rcases hy with h | h
          · exact nd_head hn (by simp [h])
          · rw [h]; exact hpe
        have hyx : y ≠ x := by
          rcases hy with h | h
          · exact nd_head hn2 (by simp [h])
          · rw [h]; exact hpx
        simp [hye, hyx]
    · rw [unlink_right L e hle, h8]
      simp [hpe, h1]
    · rw [unlink_left L e hle, h1]
      simp [hxe, h8]

/-! ### `ring_t::addRef`: the four assignments that put an unlinked entry behind the tail -/

/-- the link state after `entry->left = tail; tail->right = entry; head->left = entry; entry->right = head` -/
def linkIn (L : Links α) (h e : α) : Links α :=
  let tail := L.left h
  let L : Links α := ⟨upd L.left e tail, L.right⟩
  let L : Links α := ⟨L.left, upd L.right tail e⟩
  let L : Links α := ⟨upd L.left h e, L.right⟩
  ⟨L.left, upd L.right e h⟩

theorem linkIn_right (L : Links α) (h e y : α) :
    (linkIn L h e).right y = if y = e then h else if y = L.left h then e else L.right y := by
  simp [linkIn, upd_apply]

theorem linkIn_left (L : Links α) (h e y : α) :
    (linkIn L h e).left y = if y = h then e else if y = e then L.left h else L.left y := by
  simp [linkIn, upd_apply]

theorem linkIn_cyc (L : Links α) (h e : α) (t : List α) (hn : (h :: t ++ [e]).Nodup)
    (hc : Chain L h t h) : Chain (linkIn L h e) h (t ++ [e]) h := by
  have hn1 : (h :: (t ++ [e])).Nodup := by simpa using hn
  have heh : e ≠ h := nd_head hn1 (by simp)
  rcases List.eq_nil_or_concat t with ht | ⟨t', z, ht⟩
  · subst ht
    obtain ⟨h1, h2⟩ := hc
    simp only [List.nil_append, Chain]
    refine ⟨?_, ?_, ?_, ?_⟩
    · rw [linkIn_right]; simp [Ne.symm heh, h2]
    · rw [linkIn_left]; simp [heh, h2]
    · rw [linkIn_right]; simp
    · rw [linkIn_left]; simp
  · subst ht
    rw [List.concat_eq_append] at hc hn1 ⊢
    rw [chain_append] at hc
    obtain ⟨h3, h4, h5⟩ := hc
    have e1 : t' ++ [z] ++ [e] = t' ++ z :: [e] := by simp
    rw [e1, chain_append]
    have hn2 : (t' ++ [z] ++ [e]).Nodup := (List.nodup_cons.mp hn1).2
    have hn3 : (t' ++ [z]).Nodup := (List.nodup_append.mp hn2).1
    have hzh : z ≠ h := nd_head hn1 (by simp)
    have hze : z ≠ e := nd_app hn2 (by simp) (by simp)
    refine ⟨?_, ?_, ?_, ?_, ?_⟩
    · apply chain_congr t' h z _ _ h3
      · intro y hy
        rw [linkIn_right, h5]
        have hye : y ≠ e := by
          rcases hy with x | x
          · rw [x]; exact Ne.symm heh
          · exact nd_app hn2 (by simp [x]) (by simp)
        have hyz : y ≠ z := by
          rcases hy with x | x
          · rw [x]; exact Ne.symm hzh
          · exact nd_app hn3 x (by simp)
        simp [hye, hyz]
      · intro y hy
        rw [linkIn_left, h5]
        have hyh : y ≠ h := by
          rcases hy with x | x
          · exact nd_head hn1 (by simp [x])
          · rw [x]; exact hzh
        have hye : y ≠ e := by
          rcases hy with x | x
          · exact nd_app hn2 (by simp [x]) (by simp)
          · rw [x]; exact hze
        simp [hyh, hye]
    · rw [linkIn_right, h5]; simp [hze]
    · rw [linkIn_left, h5]; simp [heh]
    · rw [linkIn_right]; simp
    · rw [linkIn_left]; simp

/-! ### the refinement theorems -/

theorem Ring.erase_mid {e : α} {t1 t2 : List α} (h : e ∉ t1) : (t1 ++ e :: t2).erase e = t1 ++ t2 := by
  induction t1 with
  | nil => simp
  | cons a t ih =>
    have ha : a ≠ e := fun x => h (by simp [x])
    have hne : ¬ (a == e) = true := by simpa using ha
    simp only [List.cons_append, List.erase_cons_tail hne]
    rw [ih (fun x => h (by simp [x]))]

/-- pointwise equal link states describe the same cycles -/
theorem chain_ext {L L' : Links α} (hr : ∀ y, L'.right y = L.right y) (hl : ∀ y, L'.left y = L.left y)
    (a : α) (t : List α) (z : α) (h : Chain L a t z) : Chain L' a t z :=
  chain_congr t a z (fun y _ => hr y) (fun y _ => hl y) h

/-- `removeRef(e)` for an entry of the ring: the ring order afterwards is `Ring.remove l e`, and `e` is
    unlinked -/
theorem removeRef_member {L : Links α} {r : RingP α} {l : List α} {e : α} (hw : WF L r l) (he : e ∈ l) :
    WF (RingP.removeRef L r e).1 (RingP.removeRef L r e).2 (Ring.remove l e)
      ∧ Unlinked (RingP.removeRef L r e).1 e
      ∧ (RingP.removeRef L r e).2.useRefs = r.useRefs := by
  obtain ⟨hh, hn, hc⟩ := hw
  cases l with
  | nil => simp at he
  | cons h t =>
    have hh' : r.head = some h := hh
    have hL : (RingP.removeRef L r e).1 = L.unlink e := by
      unfold RingP.removeRef; simp only [hh']; split <;> rfl
    refine ⟨?_, by rw [hL]; exact unlink_unlinked L e, by
      unfold RingP.removeRef; simp only [hh']; split <;> rfl⟩
    by_cases heh : h = e
    · subst heh
      have hR : (RingP.removeRef L r h).2 = { r with head := if L.left h ≠ h then some (L.left h) else none } := by
        unfold RingP.removeRef; simp only [hh', if_true]
      cases t with
      | nil =>
        -- the only entry
        obtain ⟨h1, h2⟩ := hc
        have : Ring.remove [h] h = [] := by simp [Ring.remove]
        rw [this]
        refine ⟨?_, List.nodup_nil, trivial⟩
        rw [hR]; simp [h2]
      | cons x u =>
        have hcyc := unlink_head_cyc L h x u hn hc
        rcases List.eq_nil_or_concat u with hu | ⟨u', z, hu⟩
        · subst hu
          -- two entries: the other one becomes the head
          obtain ⟨h1, h2, h3, h4⟩ := hc
          have hrem : Ring.remove [h, x] h = [x] := by simp [Ring.remove]
          rw [hrem]
          have hxh : x ≠ h := by intro e; subst e; simp at hn
          refine ⟨?_, by simp, ?_⟩
          · rw [hR]; simp [h4, hxh]
          · rw [hL]; exact hcyc
        · subst hu
          rw [List.concat_eq_append] at hc hcyc hn ⊢
          have hlast : L.left h = z := by
            have hc' : Chain L h (x :: (u' ++ [z])) h := hc
            have e1 : x :: (u' ++ [z]) = (x :: u') ++ z :: [] := by simp
            rw [e1, chain_append] at hc'
            exact hc'.2.2
          have hzh : z ≠ h := nd_head hn (by simp)
          have hrem : Ring.remove (h :: x :: (u' ++ [z])) h = z :: x :: u' := by
            have hg : (x :: (u' ++ [z])).getLast? = some z := by
              have : x :: (u' ++ [z]) = (x :: u') ++ [z] := by simp
              rw [this, List.getLast?_concat]
            have hd : (x :: (u' ++ [z])).dropLast = x :: u' := by
              have : x :: (u' ++ [z]) = (x :: u') ++ [z] := by simp
              rw [this, List.dropLast_concat]
            simp only [Ring.remove, if_true, hg, hd]
          rw [hrem]
          refine ⟨?_, ?_, ?_⟩
          · rw [hR]; simp [hlast, hzh]
          · have hp : (z :: x :: u').Perm (x :: (u' ++ [z])) := by
              have := @List.perm_append_comm _ [z] (x :: u')
              simpa using this
            have hn2 : (x :: (u' ++ [z])).Nodup := (List.nodup_cons.mp hn).2
            exact hp.nodup_iff.mpr hn2
          · rw [hL]
            show Chain (L.unlink h) z (x :: u') z
            have := (chain_rotate (L.unlink h) x z u' []).mp (by simpa using hcyc)
            simpa using this
    · -- an entry that is not the head
      have het : e ∈ t := by
        rcases List.mem_cons.mp he with x | x
        · exact absurd x.symm heh
        · exact x
      obtain ⟨t1, t2, ht, hnot⟩ : ∃ t1 t2, t = t1 ++ e :: t2 ∧ e ∉ t1 := by
        obtain ⟨t1, t2, ht⟩ := List.append_of_mem het
        have hnt : t.Nodup := (List.nodup_cons.mp hn).2
        refine ⟨t1, t2, ht, ?_⟩
        intro hx
        rw [ht] at hnt
        have := (List.nodup_append.mp hnt).2.2 e hx e (by simp)
        exact this rfl
      subst ht
      have hR : (RingP.removeRef L r e).2 = r := by
        unfold RingP.removeRef; simp only [hh', heh, if_false]
      have hrem : Ring.remove (h :: (t1 ++ e :: t2)) e = h :: (t1 ++ t2) := by
        simp only [Ring.remove, heh, if_false]
        rw [Ring.erase_mid hnot]
      rw [hrem, hR, hL]
      refine ⟨hh', ?_, ?_⟩
      · have : (h :: (t1 ++ t2)).Sublist (h :: (t1 ++ e :: t2)) := by
          apply List.Sublist.cons₂
          exact List.Sublist.append (List.Sublist.refl _) (List.sublist_cons_self _ _)
        exact List.Nodup.sublist this hn
      · -- rotate so that `e` is first, unlink it, rotate back
        have hrot : Chain L e (t2 ++ h :: t1) e := (chain_rotate L h e t1 t2).mp hc
        have hnrot : (e :: (t2 ++ h :: t1)).Nodup := by
          have hp : (e :: (t2 ++ h :: t1)).Perm (h :: (t1 ++ e :: t2)) := by
            have h1 : (e :: (t2 ++ h :: t1)).Perm ((e :: t2) ++ (h :: t1)) := by simp
            have h2 : ((e :: t2) ++ (h :: t1)).Perm ((h :: t1) ++ (e :: t2)) := List.perm_append_comm
            simpa using h1.trans h2
          exact hp.nodup_iff.mpr hn
        show Chain (L.unlink e) h (t1 ++ t2) h
        cases t2 with
        | nil =>
          simp only [List.nil_append] at hrot hnrot
          simpa using unlink_head_cyc L e h t1 hnrot hrot
        | cons y t2' =>
          simp only [List.cons_append] at hrot hnrot
          have := unlink_head_cyc L e y (t2' ++ h :: t1) hnrot hrot
          exact (chain_rotate (L.unlink e) h y t1 t2').mpr this

/-- `removeRef(e)` for an unlinked entry that is not in the ring changes nothing that matters -/
theorem removeRef_nonmember {L : Links α} {r : RingP α} {l : List α} {e : α} (hw : WF L r l) (he : e ∉ l)
    (hu : Unlinked L e) :
    WF (RingP.removeRef L r e).1 (RingP.removeRef L r e).2 l ∧ Ring.remove l e = l := by
  refine ⟨?_, Ring.remove_of_not_mem he⟩
  obtain ⟨hh, hn, hc⟩ := hw
  cases l with
  | nil =>
    have : r.head = none := hh
    unfold RingP.removeRef
    simp only [this]
    exact ⟨this, hn, trivial⟩
  | cons h t =>
    have hh' : r.head = some h := hh
    have heh : h ≠ e := fun x => he (by simp [x])
    have hres : RingP.removeRef L r e = (L.unlink e, r) := by
      unfold RingP.removeRef; simp only [hh', heh, if_false]
    rw [hres]
    refine ⟨hh', hn, ?_⟩
    show Chain (L.unlink e) h t h
    apply chain_ext _ _ h t h hc
    · intro y
      rw [(unlink_self L e hu.1 y).1]
      split
      · rename_i x; rw [x, hu.2]
      · rfl
    · intro y
      rw [(unlink_self L e hu.1 y).2]
      split
      · rename_i x; rw [x, hu.1]
      · rfl

/-- `addRef(e)` for an unlinked entry that is not yet in the ring: it becomes the tail -/
theorem addRef_fresh {L : Links α} {r : RingP α} {l : List α} {e : α} (hw : WF L r l) (he : e ∉ l)
    (hu : Unlinked L e) :
    WF (RingP.addRef L r e).1 (RingP.addRef L r e).2 (l ++ [e]) ∧ Ring.add l e = l ++ [e]
      ∧ (RingP.addRef L r e).2.useRefs = r.useRefs := by
  refine ⟨?_, Ring.add_of_not_mem he, ?_⟩
  · obtain ⟨hh, hn, hc⟩ := hw
    have hLu : ∀ y, (L.unlink e).right y = L.right y ∧ (L.unlink e).left y = L.left y := by
      intro y
      obtain ⟨a, b⟩ := unlink_self L e hu.1 y
      constructor
      · rw [a]; split
        · rename_i x; rw [x, hu.2]
        · rfl
      · rw [b]; split
        · rename_i x; rw [x, hu.1]
        · rfl
    cases l with
    | nil =>
      have hh' : r.head = none := hh
      have hres : RingP.addRef L r e = (L.unlink e, { r with head := some e }) := by
        unfold RingP.addRef; simp only [hh']; rfl
      rw [hres]
      refine ⟨rfl, by simp, ?_⟩
      show Chain (L.unlink e) e [] e
      exact ⟨(unlink_unlinked L e).2, (unlink_unlinked L e).1⟩
    | cons h t =>
      have hh' : r.head = some h := hh
      have heh : h ≠ e := fun x => he (by simp [x])
      have hne : ¬ (some h = some e) := by simpa using heh
      have hres : RingP.addRef L r e = (linkIn (L.unlink e) h e, r) := by
        unfold RingP.addRef; simp only [hh', hne, if_false]; rfl
      rw [hres]
      have hn' : (h :: t ++ [e]).Nodup := by
        rw [List.nodup_append]
        refine ⟨hn, by simp, ?_⟩
        intro a ha b hb
        have : b = e := by simpa using hb
        subst this
        intro x; subst x; exact he ha
      refine ⟨hh', hn', ?_⟩
      show Chain (linkIn (L.unlink e) h e) h (t ++ [e]) h
      apply linkIn_cyc (L.unlink e) h e t hn'
      exact chain_ext (fun y => (hLu y).1) (fun y => (hLu y).2) h t h hc
  · unfold RingP.addRef
    split
    · rfl
    · split <;> rfl

/-- `addRef(e)` when `e` already is the head: nothing happens -/
theorem addRef_head {L : Links α} {r : RingP α} {l : List α} {e : α} (hw : WF L r l)
    (he : l.head? = some e) : RingP.addRef L r e = (L, r) ∧ Ring.add l e = l := by
  obtain ⟨hh, _, _⟩ := hw
  constructor
  · unfold RingP.addRef; rw [hh, he]; simp
  · unfold Ring.add; simp [he]

/-- `needsFree()`: no handle left and reference counting not switched off -/
theorem needsFree_iff {L : Links α} {r : RingP α} {l : List α} (hw : WF L r l) :
    r.needsFree = true ↔ (l = [] ∧ r.useRefs = true) := by
  obtain ⟨hh, _, _⟩ := hw
  unfold RingP.needsFree
  cases l with
  | nil => simp [hh]
  | cons h t => simp [hh]

/-- walking `rightRingEntry` from the head reproduces the list -/
theorem walk_chain (L : Links α) : ∀ (t : List α) (a z : α), Chain L a t z →
    L.walk (t.length + 1) a = a :: t
  | [], a, z, _ => by simp [Links.walk]
  | x :: t, a, z, h => by
    obtain ⟨h1, _, h3⟩ := h
    have := walk_chain L t x z h3
    simp only [List.length_cons, Links.walk, h1] at this ⊢
    rw [this]

theorem walk_eq {L : Links α} {r : RingP α} {h : α} {t : List α} (hw : WF L r (h :: t)) :
    r.head = some h ∧ L.walk (t.length + 1) h = h :: t :=
  ⟨hw.1, walk_chain L t h h hw.2.2⟩

/-- the rings of different objects live in one link space: an operation on one ring does not disturb
    another ring whose entries are different -/
theorem WF_frame {L L' : Links α} {r2 : RingP α} {l2 : List α} (hw : WF L r2 l2)
    (hf : ∀ x ∈ l2, L'.left x = L.left x ∧ L'.right x = L.right x) : WF L' r2 l2 := by
  obtain ⟨hh, hn, hc⟩ := hw
  refine ⟨hh, hn, ?_⟩
  cases l2 with
  | nil => trivial
  | cons h t =>
    show Chain L' h t h
    apply chain_congr t h h _ _ hc
    · intro y hy
      apply (hf y _).2
      rcases hy with x | x
      · simp [x]
      · simp [x]
    · intro y hy
      apply (hf y _).1
      rcases hy with x | x
      · simp [x]
      · simp [x]

theorem chain_right_mem (L : Links α) : ∀ (t : List α) (a z : α), Chain L a t z → L.right a ∈ t ++ [z]
  | [], a, z, h => by simp [h.1]
  | x :: t, a, z, h => by simp [h.1]

theorem chain_left_mem (L : Links α) : ∀ (t : List α) (a z : α), Chain L a t z → L.left z ∈ a :: t
  | [], a, z, h => by simp [h.2]
  | x :: t, a, z, h => by
    have := chain_left_mem L t x z h.2.2
    exact List.mem_cons_of_mem _ this

/-- the neighbours of a ring entry are ring entries -/
theorem WF.neighbours {L : Links α} {r : RingP α} {l : List α} {e : α} (hw : WF L r l) (he : e ∈ l) :
    L.left e ∈ l ∧ L.right e ∈ l := by
  obtain ⟨_, hn, hc⟩ := hw
  cases l with
  | nil => simp at he
  | cons h t =>
    have hc' : Chain L h t h := hc
    by_cases heh : e = h
    · subst heh
      refine ⟨chain_left_mem L t e e hc', ?_⟩
      have := chain_right_mem L t e e hc'
      rcases List.mem_append.mp this with x | x
      · exact List.mem_cons_of_mem _ x
      · have : L.right e = e := by simpa using x
        rw [this]; simp
    · have het : e ∈ t := by
        rcases List.mem_cons.mp he with x | x
        · exact absurd x heh
        · exact x
      obtain ⟨t1, t2, ht⟩ := List.append_of_mem het
      subst ht
      have hrot : Chain L e (t2 ++ h :: t1) e := (chain_rotate L h e t1 t2).mp hc'
      have hsub : ∀ y, y ∈ e :: (t2 ++ h :: t1) → y ∈ h :: (t1 ++ e :: t2) := by
        intro y hy
        simp only [List.mem_cons, List.mem_append] at hy ⊢
        tauto
      refine ⟨hsub _ (chain_left_mem L _ e e hrot), ?_⟩
      have := chain_right_mem L _ e e hrot
      apply hsub
      rcases List.mem_append.mp this with x | x
      · exact List.mem_cons_of_mem _ x
      · have : L.right e = e := by simpa using x
        rw [this]; simp

/-- separation: `removeRef` on one ring leaves every ring with other entries well-formed -/
theorem other_ring_removeRef {L : Links α} {r r2 : RingP α} {l l2 : List α} {e : α} (hw : WF L r l)
    (he : e ∈ l) (hw2 : WF L r2 l2) (hd : ∀ x ∈ l2, x ∉ l) : WF (RingP.removeRef L r e).1 r2 l2 := by
  obtain ⟨hl, hr⟩ := hw.neighbours he
  have hL : (RingP.removeRef L r e).1 = L.unlink e := by
    unfold RingP.removeRef
    cases l with
    | nil => simp at he
    | cons h t =>
      have : r.head = some h := hw.1
      simp only [this]; split <;> rfl
  rw [hL]
  apply WF_frame hw2
  intro x hx
  have hxl := hd x hx
  exact unlink_frame L e x (fun h => hxl (h ▸ he)) (fun h => hxl (h ▸ hl)) (fun h => hxl (h ▸ hr))

/-- separation: `addRef` of an unlinked entry on one ring leaves every other ring well-formed -/
theorem other_ring_addRef {L : Links α} {r r2 : RingP α} {l l2 : List α} {e : α} (hw : WF L r l)
    (hu : Unlinked L e) (hw2 : WF L r2 l2) (hd : ∀ x ∈ l2, x ∉ l) (he2 : e ∉ l2) :
    WF (RingP.addRef L r e).1 r2 l2 := by
  apply WF_frame hw2
  intro x hx
  have hxe : x ≠ e := fun h => he2 (h ▸ hx)
  have hxl := hd x hx
  have hun : (L.unlink e).left x = L.left x ∧ (L.unlink e).right x = L.right x := by
    obtain ⟨a, b⟩ := unlink_self L e hu.1 x
    simp [a, b, hxe]
  unfold RingP.addRef
  split
  · exact ⟨rfl, rfl⟩
  · cases hh : r.head with
    | none => simp only; exact hun
    | some h =>
      simp only
      have hhl : h ∈ l := by
        cases l with
        | nil => have := hw.1; rw [hh] at this; cases this
        | cons a t =>
          have := hw.1
          rw [hh] at this
          cases this
          simp
      have hxh : x ≠ h := fun e' => hxl (e' ▸ hhl)
      have htail : (L.unlink e).left h ∈ l := by
        have hne : h ≠ e := by
          intro e'
          rename_i hne'
          apply hne'
          rw [hh, e']
        have : (L.unlink e).left h = L.left h := by
          obtain ⟨_, b⟩ := unlink_self L e hu.1 h
          simp [b, hne]
        rw [this]
        exact (hw.neighbours hhl).1
      have hxt : x ≠ (L.unlink e).left h := fun e' => hxl (e' ▸ htail)
      show (linkIn (L.unlink e) h e).left x = L.left x ∧ (linkIn (L.unlink e) h e).right x = L.right x
      rw [linkIn_left, linkIn_right]
      simp [hxh, hxe, hxt, hun.1, hun.2]

end Occa.Gc.RingRefine
