/-
Lemmas about the sorted association lists that model `std::map<std::string, json>`:
`insert` / `lookup` / `erase` behave like a finite map, keep the list sorted, and a sorted list is
determined by its lookups (the map is canonical: insertion order is not observable).
-/
import OccaModel.JsonPath

namespace Occa.Json

/-! ### the key order -/

theorem keyLt_iff (a b : Bytes) : keyLt a b = true ↔ a < b := by simp [keyLt]

theorem key_irrefl (a : Bytes) : ¬ a < a := List.lt_irrefl a
theorem key_trans {a b c : Bytes} (h1 : a < b) (h2 : b < c) : a < c := List.lt_trans h1 h2
theorem key_asymm {a b : Bytes} (h : a < b) : ¬ b < a := List.lt_asymm h

theorem key_trichotomy (a b : Bytes) : a < b ∨ a = b ∨ b < a := by
  by_cases h1 : a < b
  · exact Or.inl h1
  · by_cases h2 : b < a
    · exact Or.inr (Or.inr h2)
    · exact Or.inr (Or.inl (List.le_antisymm (List.not_lt.mp h2) (List.not_lt.mp h1)))

theorem key_ne_of_lt {a b : Bytes} (h : a < b) : a ≠ b := by
  intro e; subst e; exact key_irrefl a h

/-! ### sortedness -/

/-- every key of `l` is greater than `k` -/
def AllGt (k : Bytes) (l : Obj) : Prop := ∀ p ∈ l, k < p.1

/-- the std::map invariant: keys strictly increasing -/
def Sorted : Obj → Prop
  | [] => True
  | (k, _) :: r => AllGt k r ∧ Sorted r

theorem sorted_nil : Sorted [] := trivial

theorem keysSorted_iff (l : Obj) : keysSorted l = true ↔ Sorted l := by
  induction l with
  | nil => simp [keysSorted, Sorted]
  | cons p r ih =>
    obtain ⟨k, v⟩ := p
    cases r with
    | nil => simp [keysSorted, Sorted, AllGt]
    | cons q r' =>
      obtain ⟨k2, v2⟩ := q
      simp only [keysSorted, Bool.and_eq_true, keyLt_iff, ih]
      constructor
      · rintro ⟨h1, h2⟩
        refine ⟨?_, h2⟩
        intro p hp
        rcases List.mem_cons.mp hp with hp | hp
        · rw [hp]; exact h1
        · exact key_trans h1 (h2.1 p hp)
      · rintro ⟨h1, h2⟩
        exact ⟨h1 (k2, v2) (by simp), h2⟩

theorem allGt_of_lt {k k' : Bytes} {l : Obj} (h : k < k') (hl : AllGt k' l) : AllGt k l :=
  fun p hp => key_trans h (hl p hp)

/-! ### lookup / insert / erase -/

theorem lookup_none_of_allGt {k : Bytes} {l : Obj} (h : AllGt k l) : lookup k l = none := by
  induction l with
  | nil => rfl
  | cons p r ih =>
    obtain ⟨k', v'⟩ := p
    have h1 : k < k' := h (k', v') (by simp)
    have hne : k ≠ k' := key_ne_of_lt h1
    simp only [lookup, hne, if_false]
    exact ih (fun p hp => h p (by simp [hp]))

theorem insert_cons_eq (k : Bytes) (v v' : Json) (r : Obj) : insert k v ((k, v') :: r) = (k, v) :: r := by
  simp [insert]

theorem insert_cons_lt {k k' : Bytes} (h : k < k') (v v' : Json) (r : Obj) :
    insert k v ((k', v') :: r) = (k, v) :: (k', v') :: r := by
  have h1 : k ≠ k' := key_ne_of_lt h
  have h2 : keyLt k k' = true := (keyLt_iff _ _).mpr h
  simp [insert, h1, h2]

theorem insert_cons_gt {k k' : Bytes} (h : k' < k) (v v' : Json) (r : Obj) :
    insert k v ((k', v') :: r) = (k', v') :: insert k v r := by
  have h1 : k ≠ k' := fun e => key_ne_of_lt h e.symm
  have h2 : keyLt k k' = false := by
    cases hh : keyLt k k'
    · rfl
    · exact absurd ((keyLt_iff _ _).mp hh) (key_asymm h)
  simp [insert, h1, h2]

theorem lookup_cons_eq (k : Bytes) (v : Json) (r : Obj) : lookup k ((k, v) :: r) = some v := by simp [lookup]
theorem lookup_cons_ne {k k' : Bytes} (h : k ≠ k') (v : Json) (r : Obj) : lookup k ((k', v) :: r) = lookup k r := by
  simp [lookup, h]

theorem lookup_insert_self (k : Bytes) (v : Json) (l : Obj) : lookup k (insert k v l) = some v := by
  induction l with
  | nil => simp [insert, lookup]
  | cons p r ih =>
    obtain ⟨k', v'⟩ := p
    rcases key_trichotomy k k' with h | h | h
    · rw [insert_cons_lt h, lookup_cons_eq]
    · subst h; rw [insert_cons_eq, lookup_cons_eq]
    · rw [insert_cons_gt h, lookup_cons_ne (fun e => key_ne_of_lt h e.symm), ih]

theorem lookup_insert_ne {k k2 : Bytes} (h : k2 ≠ k) (v : Json) (l : Obj) :
    lookup k2 (insert k v l) = lookup k2 l := by
  induction l with
  | nil => simp [insert, lookup, h]
  | cons p r ih =>
    obtain ⟨k', v'⟩ := p
    rcases key_trichotomy k k' with h1 | h1 | h1
    · rw [insert_cons_lt h1, lookup_cons_ne h]
    · subst h1; rw [insert_cons_eq, lookup_cons_ne h, lookup_cons_ne h]
    · rw [insert_cons_gt h1]
      by_cases h3 : k2 = k'
      · subst h3; rw [lookup_cons_eq, lookup_cons_eq]
      · rw [lookup_cons_ne h3, lookup_cons_ne h3, ih]

theorem mem_insert {k : Bytes} {v : Json} {l : Obj} {p : Bytes × Json} (hp : p ∈ insert k v l) :
    p = (k, v) ∨ p ∈ l := by
  induction l with
  | nil => simp [insert] at hp; exact Or.inl hp
  | cons q r ih =>
    obtain ⟨k', v'⟩ := q
    rcases key_trichotomy k k' with h1 | h1 | h1
    · rw [insert_cons_lt h1] at hp
      rcases List.mem_cons.mp hp with hp | hp
      · exact Or.inl hp
      · exact Or.inr hp
    · subst h1
      rw [insert_cons_eq] at hp
      rcases List.mem_cons.mp hp with hp | hp
      · exact Or.inl hp
      · exact Or.inr (List.mem_cons_of_mem _ hp)
    · rw [insert_cons_gt h1] at hp
      rcases List.mem_cons.mp hp with hp | hp
      · exact Or.inr (by rw [hp]; exact List.mem_cons_self)
      · rcases ih hp with h | h
        · exact Or.inl h
        · exact Or.inr (List.mem_cons_of_mem _ h)

theorem sorted_insert (k : Bytes) (v : Json) {l : Obj} (hl : Sorted l) : Sorted (insert k v l) := by
  induction l with
  | nil => simp [insert, Sorted, AllGt]
  | cons p r ih =>
    obtain ⟨k', v'⟩ := p
    obtain ⟨hg, hr⟩ := hl
    rcases key_trichotomy k k' with h1 | h1 | h1
    · rw [insert_cons_lt h1]
      refine ⟨?_, hg, hr⟩
      intro p hp
      rcases List.mem_cons.mp hp with hp | hp
      · rw [hp]; exact h1
      · exact key_trans h1 (hg p hp)
    · subst h1; rw [insert_cons_eq]; exact ⟨hg, hr⟩
    · rw [insert_cons_gt h1]
      refine ⟨?_, ih hr⟩
      intro p hp
      rcases mem_insert hp with hp | hp
      · rw [hp]; exact h1
      · exact hg p hp

/-- inserting a key greater than all present keys appends it: the parser rebuilds a dumped object
    member by member -/
theorem insert_append {k : Bytes} (v : Json) {l : Obj} (h : ∀ p ∈ l, p.1 < k) : insert k v l = l ++ [(k, v)] := by
  induction l with
  | nil => rfl
  | cons p r ih =>
    obtain ⟨k', v'⟩ := p
    have hlt : k' < k := h (k', v') (by simp)
    rw [insert_cons_gt hlt, ih (fun p hp => h p (by simp [hp]))]
    rfl

theorem length_insert (k : Bytes) (v : Json) {l : Obj} (hl : Sorted l) :
    (insert k v l).length = if (lookup k l).isSome then l.length else l.length + 1 := by
  induction l with
  | nil => simp [insert, lookup]
  | cons p r ih =>
    obtain ⟨k', v'⟩ := p
    obtain ⟨hg, hr⟩ := hl
    rcases key_trichotomy k k' with h1 | h1 | h1
    · have hn : lookup k ((k', v') :: r) = none :=
        lookup_none_of_allGt (l := (k', v') :: r) (fun p hp => by
          rcases List.mem_cons.mp hp with hp | hp
          · rw [hp]; exact h1
          · exact key_trans h1 (hg p hp))
      rw [insert_cons_lt h1, hn]; simp
    · subst h1; rw [insert_cons_eq, lookup_cons_eq]; simp
    · rw [insert_cons_gt h1, lookup_cons_ne (fun e => key_ne_of_lt h1 e.symm)]
      simp only [List.length_cons, ih hr]
      split <;> rfl

theorem lookup_erase_ne {k k2 : Bytes} (h : k2 ≠ k) (l : Obj) : lookup k2 (erase k l) = lookup k2 l := by
  induction l with
  | nil => rfl
  | cons p r ih =>
    obtain ⟨k', v'⟩ := p
    by_cases h1 : k = k'
    · subst h1; simp [erase, lookup, h]
    · simp only [erase, h1, if_false, lookup]
      by_cases h3 : k2 = k'
      · simp [h3]
      · simp [h3, ih]

theorem mem_erase {k : Bytes} {l : Obj} {p : Bytes × Json} (hp : p ∈ erase k l) : p ∈ l := by
  induction l with
  | nil => simp [erase] at hp
  | cons q r ih =>
    obtain ⟨k', v'⟩ := q
    by_cases h1 : k = k'
    · simp only [erase, h1, if_true] at hp; simp [hp]
    · simp only [erase, h1, if_false, List.mem_cons] at hp
      rcases hp with hp | hp
      · simp [hp]
      · simp [ih hp]

theorem sorted_erase (k : Bytes) {l : Obj} (hl : Sorted l) : Sorted (erase k l) := by
  induction l with
  | nil => exact trivial
  | cons p r ih =>
    obtain ⟨k', v'⟩ := p
    obtain ⟨hg, hr⟩ := hl
    by_cases h1 : k = k'
    · simp only [erase, h1, if_true]; exact hr
    · simp only [erase, h1, if_false]
      exact ⟨fun p hp => hg p (mem_erase hp), ih hr⟩

theorem lookup_erase_self (k : Bytes) {l : Obj} (hl : Sorted l) : lookup k (erase k l) = none := by
  induction l with
  | nil => rfl
  | cons p r ih =>
    obtain ⟨k', v'⟩ := p
    obtain ⟨hg, hr⟩ := hl
    by_cases h1 : k = k'
    · subst h1; simp only [erase, if_true]; exact lookup_none_of_allGt hg
    · simp only [erase, h1, if_false, lookup]
      exact ih hr

/-- a sorted association list is determined by its lookups: two `std::map`s with the same
    contents are the same sequence, whatever the order of insertion was -/
theorem sorted_ext {a b : Obj} (ha : Sorted a) (hb : Sorted b) (h : ∀ k, lookup k a = lookup k b) : a = b := by
  induction a generalizing b with
  | nil =>
    cases b with
    | nil => rfl
    | cons q r =>
      obtain ⟨k, v⟩ := q
      have := h k
      simp [lookup] at this
  | cons p r ih =>
    obtain ⟨k, v⟩ := p
    obtain ⟨hg, hr⟩ := ha
    cases b with
    | nil =>
      have := h k
      simp [lookup] at this
    | cons q r2 =>
      obtain ⟨k2, v2⟩ := q
      obtain ⟨hg2, hr2⟩ := hb
      have hk : k = k2 := by
        rcases key_trichotomy k k2 with hlt | heq | hgt
        · -- k is not in b
          have h1 := h k
          have : lookup k ((k2, v2) :: r2) = none :=
            lookup_none_of_allGt (l := (k2, v2) :: r2) (fun p hp => by
              rcases List.mem_cons.mp hp with hp | hp
              · rw [hp]; exact hlt
              · exact key_trans hlt (hg2 p hp))
          rw [this] at h1
          simp [lookup] at h1
        · exact heq
        · have h1 := h k2
          have : lookup k2 ((k, v) :: r) = none :=
            lookup_none_of_allGt (l := (k, v) :: r) (fun p hp => by
              rcases List.mem_cons.mp hp with hp | hp
              · rw [hp]; exact hgt
              · exact key_trans hgt (hg p hp))
          rw [this] at h1
          simp [lookup] at h1
      subst hk
      have hv : v = v2 := by
        have := h k
        simpa [lookup] using this
      subst hv
      congr 1
      apply ih hr hr2
      intro k'
      by_cases hk' : k' = k
      · subst hk'
        rw [lookup_none_of_allGt hg, lookup_none_of_allGt hg2]
      · have := h k'
        simpa [lookup, hk'] using this

end Occa.Json
