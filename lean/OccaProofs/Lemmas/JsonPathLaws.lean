/-
Lemmas for C25: the nested-dictionary laws of path reads/writes, has, remove, set and merge.
-/
import OccaProofs.Lemmas.JsonObj

namespace Occa.Json

/-! ### reads -/

theorem readK_nil (j : Json) : readK [] j = j := by cases j <;> rfl

theorem readK_cons_obj (k : Bytes) (ks : List Bytes) (kvs : Obj) :
    readK (k :: ks) (.obj kvs) = match lookup k kvs with | some v => readK ks v | Option.none => .none := by
  cases h : lookup k kvs <;> simp [readK, h]

theorem readK_cons_nonobj (k : Bytes) (ks : List Bytes) (j : Json) (h : j.isObj = false) :
    readK (k :: ks) j = .none := by
  cases j <;> first | rfl | simp [Json.isObj] at h

theorem readK_none (ks : List Bytes) (h : ks ≠ []) : readK ks .none = .none := by
  cases ks with
  | nil => exact absurd rfl h
  | cons k ks => rfl

theorem readK_empty_obj (ks : List Bytes) (h : ks ≠ []) : readK ks (.obj []) = .none := by
  cases ks with
  | nil => exact absurd rfl h
  | cons k ks => simp [readK, lookup]

theorem hasK_cons_obj (k : Bytes) (ks : List Bytes) (kvs : Obj) :
    hasK (k :: ks) (.obj kvs) = match lookup k kvs with | some v => hasK ks v | Option.none => false := by
  cases h : lookup k kvs <;> simp [hasK, h]

/-- reads of missing paths return the undefined value -/
theorem readK_of_not_has : ∀ (ks : List Bytes) (j : Json), hasK ks j = false → readK ks j = .none
  | [], j, h => by simp [hasK] at h
  | k :: ks, .obj kvs, h => by
    rw [hasK_cons_obj] at h
    rw [readK_cons_obj]
    cases hl : lookup k kvs with
    | none => rfl
    | some v => rw [hl] at h; exact readK_of_not_has ks v h
  | _ :: _, .none, _ => rfl
  | _ :: _, .null, _ => rfl
  | _ :: _, .num _, _ => rfl
  | _ :: _, .str _, _ => rfl
  | _ :: _, .arr _, _ => rfl

/-! ### the non-const operator[] -/

theorem touchGo_nil (f : Json → Json) (j : Json) (ex : Bool) :
    touchGo f [] j ex = .ok (f (if ex then j else .none)) := by
  cases j <;> rfl

/-- the child the walk continues with -/
def stepChild (k : Bytes) (kvs : Obj) : Json :=
  if ((lookup k kvs).getD .none).isNone then .obj [] else (lookup k kvs).getD .none

def stepEx (k : Bytes) (kvs : Obj) (ex : Bool) : Bool :=
  !((lookup k kvs).getD .none).isNone && ex

theorem touchGo_cons_obj (f : Json → Json) (k : Bytes) (ks : List Bytes) (kvs : Obj) (ex : Bool) :
    touchGo f (k :: ks) (.obj kvs) ex =
      match touchGo f ks (stepChild k kvs) (stepEx k kvs ex) with
      | .ok c => .ok (.obj (insert k c kvs))
      | .error e => .error e := by
  cases h : touchGo f ks (stepChild k kvs) (stepEx k kvs ex) <;> simp only [stepChild, stepEx] at h <;> simp [touchGo, h]

theorem touchGo_cons_nonobj (f : Json → Json) (k : Bytes) (ks : List Bytes) (j : Json) (ex : Bool)
    (h : j.isObj = false) : touchGo f (k :: ks) j ex = .error .notObject := by
  cases j <;> first | rfl | simp [Json.isObj] at h

/-- read after write, for the walk below the root -/
theorem read_touchGo (v : Json) : ∀ (ks : List Bytes) (j j' : Json) (ex : Bool),
    touchGo (fun _ => v) ks j ex = .ok j' → readK ks j' = v
  | [], j, j', ex, h => by
    rw [touchGo_nil] at h
    injection h with h; rw [← h, readK_nil]
  | k :: ks, j, j', ex, h => by
    cases j with
    | obj kvs =>
      rw [touchGo_cons_obj] at h
      cases hc : touchGo (fun _ => v) ks (stepChild k kvs) (stepEx k kvs ex) with
      | error e => rw [hc] at h; cases h
      | ok c =>
        rw [hc] at h
        injection h with h
        rw [← h, readK_cons_obj, lookup_insert_self]
        exact read_touchGo v ks _ c _ hc
    | none => rw [touchGo_cons_nonobj _ _ _ _ _ rfl] at h; cases h
    | null => rw [touchGo_cons_nonobj _ _ _ _ _ rfl] at h; cases h
    | num p => rw [touchGo_cons_nonobj _ _ _ _ _ rfl] at h; cases h
    | str s => rw [touchGo_cons_nonobj _ _ _ _ _ rfl] at h; cases h
    | arr xs => rw [touchGo_cons_nonobj _ _ _ _ _ rfl] at h; cases h

/-- the root of a successful walk: an object unless the path is empty -/
theorem touchWith_root (f : Json → Json) (ks : List Bytes) (j : Json) :
    touchWith f ks j = touchGo f ks (if j.isNone then .obj [] else j) (!j.isNone) := by
  unfold touchWith
  cases j <;> rfl

/-- C25: read after write -/
theorem read_after_write (ks : List Bytes) (v j j' : Json) (h : write ks v j = .ok j') : readK ks j' = v := by
  unfold write at h
  rw [touchWith_root] at h
  exact read_touchGo v ks _ j' _ h

theorem readK_stepChild (k : Bytes) (kvs : Obj) (qs : List Bytes) (h : qs ≠ []) :
    readK qs (stepChild k kvs) = readK (k :: qs) (.obj kvs) := by
  rw [readK_cons_obj]
  unfold stepChild
  cases hl : lookup k kvs with
  | none => simp [Json.isNone, readK_empty_obj qs h]
  | some ch =>
    cases ch <;> simp [Json.isNone, readK_empty_obj qs h, readK_none qs h]

/-- frame law below the root: paths that neither extend nor are extended by the written path -/
theorem frame_touchGo (f : Json → Json) : ∀ (ks : List Bytes) (j j' : Json) (ex : Bool),
    touchGo f ks j ex = .ok j' → ∀ qs : List Bytes, ¬ ks <+: qs → ¬ qs <+: ks → readK qs j' = readK qs j
  | [], _, _, _, _, qs, h1, _ => absurd (List.nil_prefix) h1
  | k :: ks, j, j', ex, h, qs, h1, h2 => by
    cases j with
    | obj kvs =>
      rw [touchGo_cons_obj] at h
      cases hc : touchGo f ks (stepChild k kvs) (stepEx k kvs ex) with
      | error e => rw [hc] at h; cases h
      | ok c =>
        rw [hc] at h
        injection h with h
        cases qs with
        | nil => exact absurd List.nil_prefix h2
        | cons q qs' =>
          rw [← h]
          by_cases hq : q = k
          · subst hq
            have h1' : ¬ ks <+: qs' := fun hp => h1 (List.cons_prefix_cons.mpr ⟨rfl, hp⟩)
            have h2' : ¬ qs' <+: ks := fun hp => h2 (List.cons_prefix_cons.mpr ⟨rfl, hp⟩)
            have hne : qs' ≠ [] := fun e => h2' (e ▸ List.nil_prefix)
            rw [readK_cons_obj, lookup_insert_self]
            show readK qs' c = _
            rw [frame_touchGo f ks _ c _ hc qs' h1' h2', readK_stepChild q kvs qs' hne]
          · rw [readK_cons_obj, readK_cons_obj, lookup_insert_ne hq]
    | none => rw [touchGo_cons_nonobj _ _ _ _ _ rfl] at h; cases h
    | null => rw [touchGo_cons_nonobj _ _ _ _ _ rfl] at h; cases h
    | num p => rw [touchGo_cons_nonobj _ _ _ _ _ rfl] at h; cases h
    | str s => rw [touchGo_cons_nonobj _ _ _ _ _ rfl] at h; cases h
    | arr xs => rw [touchGo_cons_nonobj _ _ _ _ _ rfl] at h; cases h

/-- every proper prefix of the written path is an object afterwards -/
theorem inter_touchGo (f : Json → Json) : ∀ (ks : List Bytes) (j j' : Json) (ex : Bool),
    touchGo f ks j ex = .ok j' → ∀ qs : List Bytes, qs <+: ks → qs ≠ ks → (readK qs j').isObj = true
  | [], _, _, _, _, qs, h1, h2 => by
    have : qs = [] := List.prefix_nil.mp h1
    exact absurd this h2
  | k :: ks, j, j', ex, h, qs, h1, h2 => by
    cases j with
    | obj kvs =>
      rw [touchGo_cons_obj] at h
      cases hc : touchGo f ks (stepChild k kvs) (stepEx k kvs ex) with
      | error e => rw [hc] at h; cases h
      | ok c =>
        rw [hc] at h
        injection h with h
        rw [← h]
        cases qs with
        | nil => rfl
        | cons q qs' =>
          obtain ⟨hq, hp⟩ := List.cons_prefix_cons.mp h1
          subst hq
          rw [readK_cons_obj, lookup_insert_self]
          exact inter_touchGo f ks _ c _ hc qs' hp (fun e => h2 (by rw [e]))
    | none => rw [touchGo_cons_nonobj _ _ _ _ _ rfl] at h; cases h
    | null => rw [touchGo_cons_nonobj _ _ _ _ _ rfl] at h; cases h
    | num p => rw [touchGo_cons_nonobj _ _ _ _ _ rfl] at h; cases h
    | str s => rw [touchGo_cons_nonobj _ _ _ _ _ rfl] at h; cases h
    | arr xs => rw [touchGo_cons_nonobj _ _ _ _ _ rfl] at h; cases h

/-- the touched path exists afterwards -/
theorem has_touchGo (f : Json → Json) : ∀ (ks : List Bytes) (j j' : Json) (ex : Bool),
    touchGo f ks j ex = .ok j' → hasK ks j' = true
  | [], _, _, _, _ => by simp [hasK]
  | k :: ks, j, j', ex, h => by
    cases j with
    | obj kvs =>
      rw [touchGo_cons_obj] at h
      cases hc : touchGo f ks (stepChild k kvs) (stepEx k kvs ex) with
      | error e => rw [hc] at h; cases h
      | ok c =>
        rw [hc] at h
        injection h with h
        rw [← h, hasK_cons_obj, lookup_insert_self]
        exact has_touchGo f ks _ c _ hc
    | none => rw [touchGo_cons_nonobj _ _ _ _ _ rfl] at h; cases h
    | null => rw [touchGo_cons_nonobj _ _ _ _ _ rfl] at h; cases h
    | num p => rw [touchGo_cons_nonobj _ _ _ _ _ rfl] at h; cases h
    | str s => rw [touchGo_cons_nonobj _ _ _ _ _ rfl] at h; cases h
    | arr xs => rw [touchGo_cons_nonobj _ _ _ _ _ rfl] at h; cases h

/-- what a const read of the touched path sees after `root[path];` -/
theorem read_touch_false : ∀ (ks : List Bytes) (j j' : Json), touchGo id ks j false = .ok j' → readK ks j' = .none
  | [], j, j', h => by
    rw [touchGo_nil] at h; injection h with h; rw [← h]; rfl
  | k :: ks, j, j', h => by
    cases j with
    | obj kvs =>
      rw [touchGo_cons_obj] at h
      have hex : stepEx k kvs false = false := by simp [stepEx]
      rw [hex] at h
      cases hc : touchGo id ks (stepChild k kvs) false with
      | error e => rw [hc] at h; cases h
      | ok c =>
        rw [hc] at h
        injection h with h
        rw [← h, readK_cons_obj, lookup_insert_self]
        exact read_touch_false ks _ c hc
    | none => rw [touchGo_cons_nonobj _ _ _ _ _ rfl] at h; cases h
    | null => rw [touchGo_cons_nonobj _ _ _ _ _ rfl] at h; cases h
    | num p => rw [touchGo_cons_nonobj _ _ _ _ _ rfl] at h; cases h
    | str s => rw [touchGo_cons_nonobj _ _ _ _ _ rfl] at h; cases h
    | arr xs => rw [touchGo_cons_nonobj _ _ _ _ _ rfl] at h; cases h

theorem read_touch_true : ∀ (ks : List Bytes) (j j' : Json), touchGo id ks j true = .ok j' → readK ks j' = readK ks j
  | [], j, j', h => by
    rw [touchGo_nil] at h; injection h with h; rw [← h]; rfl
  | k :: ks, j, j', h => by
    cases j with
    | obj kvs =>
      rw [touchGo_cons_obj] at h
      cases hc : touchGo id ks (stepChild k kvs) (stepEx k kvs true) with
      | error e => rw [hc] at h; cases h
      | ok c =>
        rw [hc] at h
        injection h with h
        rw [← h, readK_cons_obj, lookup_insert_self, readK_cons_obj]
        show readK ks c = _
        cases hl : lookup k kvs with
        | none =>
          have hex : stepEx k kvs true = false := by simp [stepEx, hl, Json.isNone]
          rw [hex] at hc
          exact read_touch_false ks _ c hc
        | some ch =>
          by_cases hn : ch.isNone = true
          · have hex : stepEx k kvs true = false := by simp [stepEx, hl, hn]
            rw [hex] at hc
            rw [read_touch_false ks _ c hc]
            cases ch <;> simp [Json.isNone] at hn
            cases ks <;> rfl
          · have hex : stepEx k kvs true = true := by simp [stepEx, hl, hn]
            have hch : stepChild k kvs = ch := by simp [stepChild, hl, hn]
            rw [hex, hch] at hc
            exact read_touch_true ks ch c hc
    | none => rw [touchGo_cons_nonobj _ _ _ _ _ rfl] at h; cases h
    | null => rw [touchGo_cons_nonobj _ _ _ _ _ rfl] at h; cases h
    | num p => rw [touchGo_cons_nonobj _ _ _ _ _ rfl] at h; cases h
    | str s => rw [touchGo_cons_nonobj _ _ _ _ _ rfl] at h; cases h
    | arr xs => rw [touchGo_cons_nonobj _ _ _ _ _ rfl] at h; cases h

theorem readK_root_conv (j : Json) (qs : List Bytes) (h : qs ≠ []) :
    readK qs (if j.isNone then .obj [] else j) = readK qs j := by
  cases j <;> simp [Json.isNone, readK_empty_obj qs h, readK_none qs h]

/-- C25 frame law: a write (or touch) changes nothing at paths unrelated to the written path -/
theorem frame_touchWith (f : Json → Json) (ks qs : List Bytes) (j j' : Json) (h : touchWith f ks j = .ok j')
    (h1 : ¬ ks <+: qs) (h2 : ¬ qs <+: ks) : readK qs j' = readK qs j := by
  rw [touchWith_root] at h
  have hne : qs ≠ [] := fun e => h2 (e ▸ List.nil_prefix)
  rw [frame_touchGo f ks _ j' _ h qs h1 h2, readK_root_conv j qs hne]

theorem inter_touchWith (f : Json → Json) (ks qs : List Bytes) (j j' : Json) (h : touchWith f ks j = .ok j')
    (h1 : qs <+: ks) (h2 : qs ≠ ks) : (readK qs j').isObj = true := by
  rw [touchWith_root] at h
  exact inter_touchGo f ks _ j' _ h qs h1 h2

theorem has_touchWith (f : Json → Json) (ks : List Bytes) (j j' : Json) (h : touchWith f ks j = .ok j') :
    hasK ks j' = true := by
  rw [touchWith_root] at h
  exact has_touchGo f ks _ j' _ h

/-- a const read of the touched path sees what it saw before (the placeholder is undefined) -/
theorem read_touch (ks : List Bytes) (j j' : Json) (h : touch ks j = .ok j') : readK ks j' = readK ks j := by
  unfold touch at h
  rw [touchWith_root] at h
  cases hj : j.isNone
  · simp only [hj, Bool.false_eq_true, if_false, Bool.not_false] at h
    exact read_touch_true ks j j' h
  · rw [hj] at h
    simp only [if_true, Bool.not_true] at h
    rw [read_touch_false ks _ j' h]
    cases j <;> simp [Json.isNone] at hj
    cases ks <;> rfl

/-! ### remove -/

theorem removeK_single (k : Bytes) (kvs : Obj) : removeK [k] (.obj kvs) = .obj (erase k kvs) := by
  simp [removeK]

theorem removeK_cons2 (k k2 : Bytes) (ks : List Bytes) (kvs : Obj) :
    removeK (k :: k2 :: ks) (.obj kvs) =
      match lookup k kvs with
      | some v => .obj (insert k (removeK (k2 :: ks) v) kvs)
      | Option.none => .obj kvs := by
  cases h : lookup k kvs <;> simp [removeK, h]

theorem removeK_nonobj (k : Bytes) (ks : List Bytes) (j : Json) (h : j.isObj = false) : removeK (k :: ks) j = j := by
  cases j <;> first | (cases ks <;> rfl) | simp [Json.isObj] at h

mutual
/-- every object in the value is ordered like std::map -/
def WFJ : Json → Prop
  | .arr xs => WFL xs
  | .obj kvs => Sorted kvs ∧ WFO kvs
  | _ => True
def WFL : List Json → Prop
  | [] => True
  | x :: xs => WFJ x ∧ WFL xs
def WFO : Obj → Prop
  | [] => True
  | (_, v) :: r => WFJ v ∧ WFO r
end

theorem wfo_lookup {kvs : Obj} (h : WFO kvs) {k : Bytes} {v : Json} (hl : lookup k kvs = some v) : WFJ v := by
  induction kvs with
  | nil => simp [lookup] at hl
  | cons p r ih =>
    obtain ⟨k', v'⟩ := p
    by_cases hk : k = k'
    · subst hk; rw [lookup_cons_eq] at hl; injection hl with hl; rw [← hl]; exact h.1
    · rw [lookup_cons_ne hk] at hl; exact ih h.2 hl

theorem wfo_insert {kvs : Obj} (h : WFO kvs) (k : Bytes) {v : Json} (hv : WFJ v) : WFO (insert k v kvs) := by
  induction kvs with
  | nil => exact ⟨hv, trivial⟩
  | cons p r ih =>
    obtain ⟨k', v'⟩ := p
    rcases key_trichotomy k k' with h1 | h1 | h1
    · rw [insert_cons_lt h1]; exact ⟨hv, h⟩
    · subst h1; rw [insert_cons_eq]; exact ⟨hv, h.2⟩
    · rw [insert_cons_gt h1]; exact ⟨h.1, ih h.2⟩

theorem wfo_erase {kvs : Obj} (h : WFO kvs) (k : Bytes) : WFO (erase k kvs) := by
  induction kvs with
  | nil => trivial
  | cons p r ih =>
    obtain ⟨k', v'⟩ := p
    by_cases hk : k = k'
    · simp only [erase, hk, if_true]; exact h.2
    · simp only [erase, hk, if_false]; exact ⟨h.1, ih h.2⟩

/-- after remove the path is gone -/
theorem has_removeK : ∀ (ks : List Bytes) (j : Json), ks ≠ [] → WFJ j → hasK ks (removeK ks j) = false
  | [], _, h, _ => absurd rfl h
  | [k], j, _, hw => by
    cases j with
    | obj kvs => rw [removeK_single, hasK_cons_obj, lookup_erase_self k hw.1]
    | none => rfl
    | null => rfl
    | num p => rfl
    | str s => rfl
    | arr xs => rfl
  | k :: k2 :: ks, j, _, hw => by
    cases j with
    | obj kvs =>
      rw [removeK_cons2]
      cases hl : lookup k kvs with
      | none => simp only []; rw [hasK_cons_obj, hl]
      | some v =>
        simp only []
        rw [hasK_cons_obj, lookup_insert_self]
        exact has_removeK (k2 :: ks) v (by simp) (wfo_lookup hw.2 hl)
    | none => rfl
    | null => rfl
    | num p => rfl
    | str s => rfl
    | arr xs => rfl

/-- remove changes nothing at unrelated paths -/
theorem frame_removeK : ∀ (ks : List Bytes) (j : Json) (qs : List Bytes), ¬ ks <+: qs → ¬ qs <+: ks →
    readK qs (removeK ks j) = readK qs j
  | [], _, qs, h1, _ => absurd List.nil_prefix h1
  | [k], j, qs, h1, h2 => by
    cases j with
    | obj kvs =>
      cases qs with
      | nil => exact absurd List.nil_prefix h2
      | cons q qs' =>
        have hq : q ≠ k := fun e => h1 (by rw [e]; exact List.cons_prefix_cons.mpr ⟨rfl, List.nil_prefix⟩)
        rw [removeK_single, readK_cons_obj, readK_cons_obj, lookup_erase_ne hq]
    | none => rfl
    | null => rfl
    | num p => rfl
    | str s => rfl
    | arr xs => rfl
  | k :: k2 :: ks, j, qs, h1, h2 => by
    cases j with
    | obj kvs =>
      rw [removeK_cons2]
      cases hl : lookup k kvs with
      | none => rfl
      | some v =>
        simp only []
        cases qs with
        | nil => exact absurd List.nil_prefix h2
        | cons q qs' =>
          by_cases hq : q = k
          · subst hq
            have h1' : ¬ (k2 :: ks) <+: qs' := fun hp => h1 (List.cons_prefix_cons.mpr ⟨rfl, hp⟩)
            have h2' : ¬ qs' <+: (k2 :: ks) := fun hp => h2 (List.cons_prefix_cons.mpr ⟨rfl, hp⟩)
            rw [readK_cons_obj, readK_cons_obj, lookup_insert_self, hl]
            exact frame_removeK (k2 :: ks) v qs' h1' h2'
          · rw [readK_cons_obj, readK_cons_obj, lookup_insert_ne hq]
    | none => rfl
    | null => rfl
    | num p => rfl
    | str s => rfl
    | arr xs => rfl

/-! ### set -/

theorem setLit_obj (k : Bytes) (v : Json) (kvs : Obj) : setLit k v (.obj kvs) = .obj (insert k v kvs) := rfl

theorem setLit_nonobj (k : Bytes) (v j : Json) (h : j.isObj = false) : setLit k v j = .obj [(k, v)] := by
  cases j <;> first | rfl | simp [Json.isObj] at h

theorem read_setLit (k : Bytes) (v j : Json) : readK [k] (setLit k v j) = v := by
  cases hj : j.isObj
  · rw [setLit_nonobj k v j hj, readK_cons_obj, lookup_cons_eq]; rfl
  · cases j <;> simp [Json.isObj] at hj
    rw [setLit_obj, readK_cons_obj, lookup_insert_self]; rfl

theorem frame_setLit (k q : Bytes) (qs : List Bytes) (v : Json) (kvs : Obj) (h : q ≠ k) :
    readK (q :: qs) (setLit k v (.obj kvs)) = readK (q :: qs) (.obj kvs) := by
  rw [setLit_obj, readK_cons_obj, readK_cons_obj, lookup_insert_ne h]

/-! ### merge -/

theorem mergeObj_nil (a : Obj) : mergeObj a [] = a := by simp [mergeObj]

theorem mergeObj_cons (a : Obj) (k : Bytes) (v : Json) (rest : Obj) :
    mergeObj a ((k, v) :: rest) = mergeObj (insert k (mergeVal (lookup k a) v) a) rest := by
  simp [mergeObj]

theorem mergeVal_none (v : Json) : mergeVal Option.none v = v := by
  cases v <;> simp [mergeVal]

theorem mergeVal_nonobj (old : Option Json) (v : Json) (h : v.isObj = false) : mergeVal old v = v := by
  cases v with
  | obj kvs => simp [Json.isObj] at h
  | _ => simp [mergeVal]

theorem mergeVal_obj_obj (akvs bkvs : Obj) : mergeVal (some (.obj akvs)) (.obj bkvs) = .obj (mergeObj akvs bkvs) := by
  simp [mergeVal]

theorem mergeVal_obj_nonobj (o : Json) (bkvs : Obj) (h : o.isObj = false) : mergeVal (some o) (.obj bkvs) = .obj bkvs := by
  cases o with
  | obj kvs => simp [Json.isObj] at h
  | _ => simp [mergeVal]

/-- C25 merge law, per member: a key absent on the right keeps the left value; a key present on the
    right gets `mergeVal left right` (objects on both sides merged recursively, otherwise the right
    value) -/
theorem lookup_mergeObj : ∀ (b a : Obj), Sorted b → ∀ k : Bytes,
    lookup k (mergeObj a b) =
      match lookup k b with
      | Option.none => lookup k a
      | some vb => some (mergeVal (lookup k a) vb)
  | [], a, _, k => by simp [mergeObj_nil, lookup]
  | (k', v') :: rest, a, hs, k => by
    obtain ⟨hg, hr⟩ := hs
    rw [mergeObj_cons, lookup_mergeObj rest _ hr k]
    by_cases hk : k = k'
    · subst hk
      rw [lookup_none_of_allGt hg, lookup_cons_eq]
      simp only []
      rw [lookup_insert_self]
    · rw [lookup_cons_ne hk, lookup_insert_ne hk]

theorem sorted_mergeObj : ∀ (b a : Obj), Sorted a → Sorted (mergeObj a b)
  | [], a, h => by rw [mergeObj_nil]; exact h
  | (k, v) :: rest, a, h => by
    rw [mergeObj_cons]
    exact sorted_mergeObj rest _ (sorted_insert _ _ h)

mutual
theorem wfo_mergeObj : ∀ (b a : Obj), WFO a → WFO b → WFO (mergeObj a b)
  | [], a, ha, _ => by rw [mergeObj_nil]; exact ha
  | (k, v) :: rest, a, ha, hb => by
    rw [mergeObj_cons]
    refine wfo_mergeObj rest _ (wfo_insert ha k ?_) hb.2
    exact wfj_mergeVal v (lookup k a) hb.1 (fun o ho => wfo_lookup ha ho)
theorem wfj_mergeVal : ∀ (v : Json) (old : Option Json), WFJ v → (∀ o, old = some o → WFJ o) → WFJ (mergeVal old v)
  | .obj bkvs, old, hv, ho => by
    cases old with
    | none => rw [mergeVal_none]; exact hv
    | some o =>
      cases o with
      | obj akvs =>
        rw [mergeVal_obj_obj]
        have hwa : WFJ (.obj akvs) := ho _ rfl
        exact ⟨sorted_mergeObj bkvs akvs hwa.1, wfo_mergeObj bkvs akvs hwa.2 hv.2⟩
      | none => rw [mergeVal_obj_nonobj _ _ rfl]; exact hv
      | null => rw [mergeVal_obj_nonobj _ _ rfl]; exact hv
      | num p => rw [mergeVal_obj_nonobj _ _ rfl]; exact hv
      | str s => rw [mergeVal_obj_nonobj _ _ rfl]; exact hv
      | arr xs => rw [mergeVal_obj_nonobj _ _ rfl]; exact hv
  | .none, old, hv, _ => by rw [mergeVal_nonobj _ _ rfl]; exact hv
  | .null, old, hv, _ => by rw [mergeVal_nonobj _ _ rfl]; exact hv
  | .num p, old, hv, _ => by rw [mergeVal_nonobj _ _ rfl]; exact hv
  | .str s, old, hv, _ => by rw [mergeVal_nonobj _ _ rfl]; exact hv
  | .arr xs, old, hv, _ => by rw [mergeVal_nonobj _ _ rfl]; exact hv
end

/-- merging into the empty object gives the right-hand object -/
theorem mergeObj_empty (b : Obj) (hb : Sorted b) : mergeObj [] b = b := by
  apply sorted_ext (sorted_mergeObj b [] sorted_nil) hb
  intro k
  rw [lookup_mergeObj b [] hb k]
  cases hl : lookup k b with
  | none => simp [lookup]
  | some vb => simp [lookup, mergeVal_none]

/-- the members of a merge are the members of either side -/
theorem has_mergeObj (a b : Obj) (hb : Sorted b) (k : Bytes) :
    (lookup k (mergeObj a b)).isSome = ((lookup k a).isSome || (lookup k b).isSome) := by
  rw [lookup_mergeObj b a hb k]
  cases lookup k b <;> simp

/-! ### every operation keeps the std::map invariant -/

theorem wfj_stepChild {k : Bytes} {kvs : Obj} (h : WFO kvs) : WFJ (stepChild k kvs) := by
  unfold stepChild
  split
  · exact ⟨sorted_nil, trivial⟩
  · cases hl : lookup k kvs with
    | none => trivial
    | some ch => exact wfo_lookup h hl

theorem wfj_touchGo (f : Json → Json) (hf : ∀ x, WFJ x → WFJ (f x)) : ∀ (ks : List Bytes) (j j' : Json) (ex : Bool),
    WFJ j → touchGo f ks j ex = .ok j' → WFJ j'
  | [], j, j', ex, hw, h => by
    rw [touchGo_nil] at h; injection h with h; rw [← h]
    apply hf
    split
    · exact hw
    · trivial
  | k :: ks, j, j', ex, hw, h => by
    cases j with
    | obj kvs =>
      rw [touchGo_cons_obj] at h
      cases hc : touchGo f ks (stepChild k kvs) (stepEx k kvs ex) with
      | error e => rw [hc] at h; cases h
      | ok c =>
        rw [hc] at h
        injection h with h
        rw [← h]
        have hcw : WFJ c := wfj_touchGo f hf ks _ c _ (wfj_stepChild hw.2) hc
        exact ⟨sorted_insert _ _ hw.1, wfo_insert hw.2 k hcw⟩
    | none => rw [touchGo_cons_nonobj _ _ _ _ _ rfl] at h; cases h
    | null => rw [touchGo_cons_nonobj _ _ _ _ _ rfl] at h; cases h
    | num p => rw [touchGo_cons_nonobj _ _ _ _ _ rfl] at h; cases h
    | str s => rw [touchGo_cons_nonobj _ _ _ _ _ rfl] at h; cases h
    | arr xs => rw [touchGo_cons_nonobj _ _ _ _ _ rfl] at h; cases h

theorem wfj_touchWith (f : Json → Json) (hf : ∀ x, WFJ x → WFJ (f x)) (ks : List Bytes) (j j' : Json)
    (hw : WFJ j) (h : touchWith f ks j = .ok j') : WFJ j' := by
  rw [touchWith_root] at h
  refine wfj_touchGo f hf ks _ j' _ ?_ h
  split
  · exact ⟨sorted_nil, trivial⟩
  · exact hw

theorem wfj_removeK : ∀ (ks : List Bytes) (j : Json), WFJ j → WFJ (removeK ks j)
  | [], j, h => by cases j <;> exact h
  | [k], j, h => by
    cases j with
    | obj kvs => rw [removeK_single]; exact ⟨sorted_erase k h.1, wfo_erase h.2 k⟩
    | none => exact h
    | null => exact h
    | num p => exact h
    | str s => exact h
    | arr xs => exact h
  | k :: k2 :: ks, j, h => by
    cases j with
    | obj kvs =>
      rw [removeK_cons2]
      cases hl : lookup k kvs with
      | none => exact h
      | some v =>
        exact ⟨sorted_insert _ _ h.1, wfo_insert h.2 k (wfj_removeK (k2 :: ks) v (wfo_lookup h.2 hl))⟩
    | none => exact h
    | null => exact h
    | num p => exact h
    | str s => exact h
    | arr xs => exact h

theorem wfj_setLit (k : Bytes) (v j : Json) (hv : WFJ v) (hj : WFJ j) : WFJ (setLit k v j) := by
  cases hi : j.isObj
  · rw [setLit_nonobj k v j hi]; exact ⟨⟨fun p hp => by simp at hp, trivial⟩, hv, trivial⟩
  · cases j <;> simp [Json.isObj] at hi
    rw [setLit_obj]; exact ⟨sorted_insert _ _ hj.1, wfo_insert hj.2 k hv⟩

theorem wfl_append {xs : List Json} {v : Json} (hx : WFL xs) (hv : WFJ v) : WFL (xs ++ [v]) := by
  induction xs with
  | nil => exact ⟨hv, trivial⟩
  | cons x t ih => exact ⟨hx.1, ih hx.2⟩

theorem wfj_add (a b r : Json) (ha : WFJ a) (hb : WFJ b) (h : add a b = .ok r) : WFJ r := by
  cases b with
  | none => simp [add] at h; rw [← h]; exact ha
  | null =>
    cases a <;> simp [add] at h <;> first | (rw [← h]; trivial) | (rw [← h]; exact wfl_append ha hb)
  | num q =>
    cases a with
    | none =>
      simp only [add] at h
      cases hp : primAdd ⟨.i32, 0, []⟩ q with
      | none => rw [hp] at h; cases h
      | some x => rw [hp] at h; injection h with h; rw [← h]; trivial
    | num p =>
      simp only [add] at h
      cases hp : primAdd p q with
      | none => rw [hp] at h; cases h
      | some x => rw [hp] at h; injection h with h; rw [← h]; trivial
    | arr xs => simp [add] at h; rw [← h]; exact wfl_append ha hb
    | null => simp [add] at h
    | str s => simp [add] at h
    | obj kvs => simp [add] at h
  | str t =>
    cases a <;> simp [add] at h <;> first | (rw [← h]; trivial) | (rw [← h]; exact wfl_append ha hb)
  | arr ys =>
    cases a <;> simp [add] at h <;> first | (rw [← h]; exact ⟨hb, trivial⟩) | (rw [← h]; exact wfl_append ha hb)
  | obj bkvs =>
    cases a with
    | none =>
      simp [add] at h; rw [← h]
      exact ⟨sorted_mergeObj bkvs [] sorted_nil, wfo_mergeObj bkvs [] trivial hb.2⟩
    | obj akvs =>
      simp [add] at h; rw [← h]
      exact ⟨sorted_mergeObj bkvs akvs ha.1, wfo_mergeObj bkvs akvs ha.2 hb.2⟩
    | arr xs => simp [add] at h; rw [← h]; exact wfl_append ha hb
    | null => simp [add] at h
    | str s => simp [add] at h
    | num p => simp [add] at h

/-! ### histories -/

/-- the mutating operations of the property (paths already split into keys) -/
inductive Op
  | new (v : Json)
  | touch (p : List Bytes)
  | write (p : List Bytes) (v : Json)
  | remove (p : List Bytes)
  | set (k : Bytes) (v : Json)
  | setAt (p : List Bytes) (k : Bytes) (v : Json)
  | merge (v : Json)

def Op.Wf : Op → Prop
  | .new v => WFJ v
  | .write _ v => WFJ v
  | .set _ v => WFJ v
  | .setAt _ _ v => WFJ v
  | .merge v => WFJ v
  | _ => True

/-- one operation; an operation that throws leaves the value unchanged -/
def step (j : Json) : Op → Json
  | .new v => v
  | .touch p => match touch p j with | .ok j' => j' | .error _ => j
  | .write p v => match write p v j with | .ok j' => j' | .error _ => j
  | .remove p => removeK p j
  | .set k v => setLit k v j
  | .setAt p k v => match touchWith (setLit k v) p j with | .ok j' => j' | .error _ => j
  | .merge v => match add j v with | .ok j' => j' | .error _ => j

def run (j : Json) (ops : List Op) : Json := ops.foldl step j

theorem wfj_step (j : Json) (op : Op) (hj : WFJ j) (ho : op.Wf) : WFJ (step j op) := by
  cases op with
  | new v => exact ho
  | touch p =>
    simp only [step]
    cases h : touch p j with
    | error e => exact hj
    | ok j' => exact wfj_touchWith id (fun _ hx => hx) p j j' hj h
  | write p v =>
    simp only [step]
    cases h : write p v j with
    | error e => exact hj
    | ok j' => exact wfj_touchWith _ (fun _ _ => ho) p j j' hj h
  | remove p => exact wfj_removeK p j hj
  | set k v => exact wfj_setLit k v j ho hj
  | setAt p k v =>
    simp only [step]
    cases h : touchWith (setLit k v) p j with
    | error e => exact hj
    | ok j' => exact wfj_touchWith _ (fun x hx => wfj_setLit k v x ho hx) p j j' hj h
  | merge v =>
    simp only [step]
    cases h : add j v with
    | error e => exact hj
    | ok j' => exact wfj_add j v j' hj ho h

theorem wfj_run (ops : List Op) : ∀ (j : Json), WFJ j → (∀ op ∈ ops, op.Wf) → WFJ (run j ops) := by
  induction ops with
  | nil => intro j hj _; exact hj
  | cons op t ih =>
    intro j hj ho
    exact ih (step j op) (wfj_step j op hj (ho op (by simp))) (fun o h => ho o (by simp [h]))

/-- a read along `a ++ b` is a read along `b` of the value read along `a` -/
theorem readK_append : ∀ (a b : List Bytes) (j : Json), readK (a ++ b) j = readK b (readK a j)
  | [], b, j => by rw [List.nil_append, readK_nil]
  | k :: a, b, j => by
    cases j with
    | obj kvs =>
      rw [List.cons_append, readK_cons_obj, readK_cons_obj]
      cases hl : lookup k kvs with
      | none =>
        simp only []
        cases b with
        | nil => rfl
        | cons q b' => rfl
      | some v => simp only []; exact readK_append a b v
    | none => cases b <;> rfl
    | null => cases b <;> rfl
    | num p => cases b <;> rfl
    | str s => cases b <;> rfl
    | arr xs => cases b <;> rfl

theorem hasNoneO_lookup {kvs : Obj} (h : hasNoneO kvs = false) {k : Bytes} {v : Json} (hl : lookup k kvs = some v) :
    hasNone v = false := by
  induction kvs with
  | nil => simp [lookup] at hl
  | cons p r ih =>
    obtain ⟨k', v'⟩ := p
    simp only [hasNoneO, Bool.or_eq_false_iff] at h
    by_cases hk : k = k'
    · subst hk; rw [lookup_cons_eq] at hl; injection hl with hl; rw [← hl]; exact h.1
    · rw [lookup_cons_ne hk] at hl; exact ih h.2 hl

/-- on a value without placeholders, has() is exactly "the const read is defined" -/
theorem has_iff_defined : ∀ (ks : List Bytes) (j : Json), hasNone j = false →
    (hasK ks j = true ↔ readK ks j ≠ .none)
  | [], j, hn => by
    rw [readK_nil]
    constructor
    · intro _ e; subst e; simp [hasNone] at hn
    · intro _; simp [hasK]
  | k :: ks, j, hn => by
    cases j with
    | obj kvs =>
      rw [hasK_cons_obj, readK_cons_obj]
      cases hl : lookup k kvs with
      | none => simp
      | some v =>
        simp only []
        exact has_iff_defined ks v (hasNoneO_lookup (by simpa [hasNone] using hn) hl)
    | none => simp [hasNone] at hn
    | null => simp [hasK, readK]
    | num p => simp [hasK, readK]
    | str s => simp [hasK, readK]
    | arr xs => simp [hasK, readK]

end Occa.Json
