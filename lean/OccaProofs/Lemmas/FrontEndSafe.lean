/-
Helper lemmas for C16, part 3: reads and getNextOperator are safe under the invariant; one
navigation call and whole histories.
-/
import OccaProofs.Lemmas.FrontEndNav

namespace Occa.FrontEnd

/-- what the statement parser may rely on after a successful `setup` -/
structure Good (c : Ctx) : Prop where
  valid : Valid c
  bounded : PairsBounded c
  covered : Covered c

theorem at_ok {c : Ctx} (hv : Valid c) (i : Int) : ∃ t, c.at i = .ok t ∧ (t.isSome = c.indexInRange i) := by
  unfold Ctx.at
  by_cases h : c.indexInRange i = true
  · have h' := (indexInRange_iff c i).mp h
    obtain ⟨t, _, hget, _⟩ := getToken_ok_int c hv.idx (c.tp.start + i)
      (by have := hv.lo; omega) (by have := hv.hi; omega)
    exact ⟨some t, by simp [h, hget], by simp [h]⟩
  · have h2 : c.indexInRange i = false := by simpa using h
    exact ⟨none, by simp [h2], by simp [h2]⟩

theorem endTok_ok {c : Ctx} (hv : Valid c) : ∃ t, c.endTok = .ok t := by
  unfold Ctx.endTok
  by_cases h : c.indexInRange (c.tp.stop - c.tp.start - 1) = true
  · have h' := (indexInRange_iff c _).mp h
    obtain ⟨t, _, hget, _⟩ := getToken_ok_int c hv.idx (c.tp.stop - 1)
      (by have := hv.lo; omega) (by have := hv.hi; omega)
    exact ⟨some t, by simp [h, hget]⟩
  · have h2 : c.indexInRange (c.tp.stop - c.tp.start - 1) = false := by simpa using h
    exact ⟨none, by simp [h2]⟩

/-- `getClosingPair` is -1 or the relative index of a token inside the list, after the current one -/
theorem getClosingPair_range {c : Ctx} (hb : PairsBounded c) :
    c.getClosingPair = -1 ∨ (0 < c.getClosingPair ∧ c.tp.start + c.getClosingPair < (c.tokenIndices.size : Int)) := by
  unfold Ctx.getClosingPair
  by_cases h : c.size = 0
  · simp [h]
  · simp only [h, if_false]
    cases hl : lookup c.pairs c.tp.start with
    | none => simp
    | some e =>
      have := hb _ _ (lookup_mem _ _ _ hl)
      refine Or.inr ⟨by simp; omega, by simp; omega⟩

theorem getClosingPairToken_ok {c : Ctx} (hv : Valid c) (hb : PairsBounded c) : ∃ t, c.getClosingPairToken = .ok t := by
  unfold Ctx.getClosingPairToken
  rcases getClosingPair_range hb with h | ⟨h1, h2⟩
  · simp [h]
  · have hge : c.getClosingPair ≥ 0 := by omega
    obtain ⟨t, _, hget, _⟩ := getToken_ok_int c hv.idx (c.tp.start + c.getClosingPair)
      (by have := hv.lo; omega) h2
    exact ⟨some t, by simp [hge, hget]⟩

theorem getPrintToken_ok {c : Ctx} (hv : Valid c) (atEnd : Bool) : ∃ t, c.getPrintToken atEnd = .ok t := by
  unfold Ctx.getPrintToken
  by_cases h : c.size = 0
  · exact ⟨none, by simp [h]⟩
  · have hsz : c.tp.start < c.tp.stop := by
      have := hv.mid
      unfold Ctx.size at h
      omega
    simp only [h, if_false]
    cases atEnd with
    | true =>
      have hir : Ctx.indexInRange { c with tp := ⟨c.tp.stop, c.tp.stop⟩ } 0 = false := by
        simp [Ctx.indexInRange]
      have hpos : (0 : Int) < c.tp.stop := by have := hv.lo; omega
      obtain ⟨t, _, hget, _⟩ := getToken_ok_int c hv.idx (c.tp.stop + -1)
        (by omega) (by have := hv.hi; omega)
      exact ⟨some t, by simp [hir, hpos, hget]⟩
    | false =>
      have hir : Ctx.indexInRange { c with tp := ⟨c.tp.start, c.tp.stop⟩ } 0 = true := by
        simp [Ctx.indexInRange]; omega
      obtain ⟨t, _, hget, _⟩ := getToken_ok_int c hv.idx c.tp.start
        (by have := hv.lo; omega) (by have := hv.hi; omega)
      exact ⟨some t, by simp [hir, hget]⟩

theorem getNextOperatorLoop_ok {c : Ctx} (hg : Good c) (m : Bitfield) :
    ∀ (fuel : Nat) (pos : Int), c.tp.start ≤ pos → (c.tp.stop - pos).toNat < fuel →
      ∃ r, getNextOperatorLoop c m fuel pos c.pairs = .ok (r, c.pairs) ∧ (r = -1 ∨ (0 ≤ r ∧ r < c.size)) := by
  intro fuel
  induction fuel with
  | zero => intro pos _ h; omega
  | succ fuel ih =>
    intro pos hlo hfuel
    unfold getNextOperatorLoop
    by_cases hp : pos < c.tp.stop
    · simp only [hp, if_true]
      have h0 : 0 ≤ pos := by have := hg.valid.lo; omega
      obtain ⟨n, rfl⟩ := Int.eq_ofNat_of_zero_le h0
      have hn : n < c.tokenIndices.size := by have := hg.valid.hi; omega
      obtain ⟨t, k, hget, hk⟩ := getToken_ok c hg.valid.idx n hn
      simp only [hget, ok_bind]
      cases t with
      | other s => exact ih _ (by omega) (by omega)
      | op o =>
        simp only
        by_cases hm : (o.opType.and m).toBool = true
        · simp only [hm, if_true]
          exact ⟨_, rfl, Or.inr ⟨by omega, by unfold Ctx.size; omega⟩⟩
        · simp only [hm, Bool.false_eq_true, if_false]
          by_cases hs : (o.opType.and pairStartM).toBool = true
          · simp only [hs, if_true]
            have hknown : o ∈ knownOps := hg.valid.typed k _ hk o rfl
            have hopen : Opener c n :=
              ⟨o, hget, hs, knownOps_pair_isPairOp o hknown (knownOps_start_pair o hknown hs)⟩
            obtain ⟨b, hb, hlt⟩ := hg.covered n hn hopen
            simp only [hb]
            exact ih _ (by omega) (by omega)
          · simp only [hs, Bool.false_eq_true, if_false]
            exact ih _ (by omega) (by omega)
    · simp only [hp, if_false]
      exact ⟨_, rfl, Or.inl rfl⟩

theorem getNextOperator_ok {c : Ctx} (hg : Good c) (m : Bitfield) (fuel : Nat) (hf : c.size.toNat < fuel) :
    ∃ r, c.getNextOperator m fuel = .ok (c, r) ∧ (r = -1 ∨ (0 ≤ r ∧ r < c.size)) := by
  obtain ⟨r, hr, hrange⟩ := getNextOperatorLoop_ok hg m fuel c.tp.start (by omega) (by unfold Ctx.size at hf; exact hf)
  refine ⟨r, ?_, hrange⟩
  unfold Ctx.getNextOperator
  simp only [hr, ok_bind]

/-! ### Good is preserved by everything that only moves the window -/

theorem Good.of_same {c c' : Ctx} (hg : Good c) (hv : Valid c') (hp : c'.pairs = c.pairs)
    (ht : c'.tokens = c.tokens) (hi : c'.tokenIndices = c.tokenIndices) : Good c' := by
  refine ⟨hv, ?_, ?_⟩
  · intro a b hab
    rw [hp] at hab
    rw [hi]
    exact hg.bounded a b hab
  · intro j hj hop
    rw [hi] at hj
    have hop' : Opener c j := by
      obtain ⟨o, h1, h2, h3⟩ := hop
      refine ⟨o, ?_, h2, h3⟩
      unfold Ctx.getToken at h1 ⊢
      rw [ht, hi] at h1
      exact h1
    rw [hp]
    exact hg.covered j hj hop'

theorem set1_good {c : Ctx} (hg : Good c) (a : Int) : Good (c.set1 a) := by
  refine hg.of_same (set1_valid hg.valid a) ?_ ?_ ?_ <;> (unfold Ctx.set1; split <;> rfl)

theorem set2_same (c : Ctx) (a b : Int) :
    (c.set2 a b).pairs = c.pairs ∧ (c.set2 a b).tokens = c.tokens ∧ (c.set2 a b).tokenIndices = c.tokenIndices := by
  unfold Ctx.set2
  by_cases h : c.indexInRange a = true
  · simp only [h, if_true]
    by_cases h2 : Ctx.indexInRange { c with tp := ⟨c.tp.start + a, c.tp.stop⟩ } (b - a) = true
    · simp only [h2, if_true]
      refine ⟨?_, ?_, ?_⟩ <;> first | rfl | trivial
    · simp only [h2, Bool.false_eq_true, if_false]
      refine ⟨?_, ?_, ?_⟩ <;> first | rfl | trivial
  · simp only [h, Bool.false_eq_true, if_false]
    refine ⟨?_, ?_, ?_⟩ <;> first | rfl | trivial

theorem set2_good {c : Ctx} (hg : Good c) (a b : Int) : Good (c.set2 a b) :=
  hg.of_same (set2_valid hg.valid a b) (set2_same c a b).1 (set2_same c a b).2.1 (set2_same c a b).2.2

theorem push0_good {c : Ctx} (hg : Good c) : Good c.push0 :=
  hg.of_same (push0_valid hg.valid) rfl rfl rfl

/-- one navigation call on a good context: never a trap, never a hang; the context stays good -/
theorem step_good {c : Ctx} (hg : Good c) (o : NavOp) :
    c.step o = .err ∨ ∃ c' r, c.step o = .ok (c', r) ∧ Good c' := by
  cases o with
  | set1 a => exact Or.inr ⟨_, _, rfl, set1_good hg a⟩
  | set2 a b => exact Or.inr ⟨_, _, rfl, set2_good hg a b⟩
  | push0 => exact Or.inr ⟨_, _, rfl, push0_good hg⟩
  | push1 a => exact Or.inr ⟨_, _, rfl, set1_good (push0_good hg) a⟩
  | push2 a b => exact Or.inr ⟨_, _, rfl, set2_good (push0_good hg) a b⟩
  | pop =>
    rcases pop_valid hg.valid with h | ⟨c', r, h, hv, hp, ht, hi⟩
    · exact Or.inl (by simp [Ctx.step, h]; rfl)
    · exact Or.inr ⟨c', r.stop, by simp [Ctx.step, h], hg.of_same hv hp ht hi⟩
  | popAndSkip =>
    rcases pop_valid hg.valid with h | ⟨c', r, h, hv, hp, ht, hi⟩
    · exact Or.inl (by simp [Ctx.step, Ctx.popAndSkip, h]; rfl)
    · exact Or.inr ⟨c'.set1 (r.stop + 1), 0, by simp [Ctx.step, Ctx.popAndSkip, h], set1_good (hg.of_same hv hp ht hi) _⟩
  | pushPairRange =>
    unfold Ctx.step Ctx.pushPairRange
    by_cases h : c.getClosingPair ≥ 0
    · exact Or.inr ⟨c.push2 1 c.getClosingPair, 0, by simp [h], set2_good (push0_good hg) 1 c.getClosingPair⟩
    · exact Or.inl (by simp [h]; rfl)
  | «at» i =>
    obtain ⟨t, ht, _⟩ := at_ok hg.valid i
    exact Or.inr ⟨c, if t.isSome then 1 else 0, by simp [Ctx.step, ht], hg⟩
  | endTok =>
    obtain ⟨t, ht⟩ := endTok_ok hg.valid
    exact Or.inr ⟨c, if t.isSome then 1 else 0, by simp [Ctx.step, ht], hg⟩
  | closing => exact Or.inr ⟨c, _, rfl, hg⟩
  | closingTok =>
    obtain ⟨t, ht⟩ := getClosingPairToken_ok hg.valid hg.bounded
    exact Or.inr ⟨c, if t.isSome then 1 else 0, by simp [Ctx.step, ht], hg⟩
  | printTok e =>
    obtain ⟨t, ht⟩ := getPrintToken_ok hg.valid e
    exact Or.inr ⟨c, if t.isSome then 1 else 0, by simp [Ctx.step, ht], hg⟩
  | next m =>
    obtain ⟨r, hr, _⟩ := getNextOperator_ok hg m (c.size.toNat + 1) (by omega)
    exact Or.inr ⟨c, r, by simp [Ctx.step, hr], hg⟩

theorem run_good {c : Ctx} (hg : Good c) (ops : List NavOp) : ∃ c', c.run ops = .ok c' ∧ Good c' := by
  induction ops generalizing c with
  | nil => exact ⟨c, rfl, hg⟩
  | cons o r ih =>
    unfold Ctx.run
    rcases step_good hg o with h | ⟨c', x, h, hg'⟩
    · rw [h]; exact ih hg
    · rw [h]; exact ih hg'

def tokOk : Tok → Bool
  | .op o => decide (o ∈ knownOps)
  | .other _ => true

/-- `Typed` from a decidable check of the (finite) array -/
theorem typed_of_check (a : Array Tok) (h : a.toList.all tokOk = true) : Typed a := by
  intro k t hk o ho
  subst ho
  have hm : Tok.op o ∈ a.toList := Array.mem_toList_iff.mpr (Array.mem_of_getElem? hk)
  have := List.all_eq_true.mp h _ hm
  simpa [tokOk] using this

end Occa.FrontEnd
