/-
`device::free()` as a whole, `delete` for every handle class, `removeXRef` for every handle class.
-/
import OccaProofs.Lemmas.GcDev

namespace Occa.Gc

/-- what the destruction of non-device objects leaves alone -/
structure Frame (s s' : St) : Prop where
  devs : ∀ t, s.alive t = true → s.kind t = .dev → s'.alive t = true
  vlive : s'.vlive = s.vlive
  kind : s'.kind = s.kind
  next : s'.next = s.next
  ptr_out : ∀ w, (∀ x, w ∉ s.ring x) → s'.ptr w = s.ptr w
  ring_out : ∀ w, (∀ x, w ∉ s.ring x) → ∀ x, w ∉ s'.ring x
  alive_sub : ∀ t, s'.alive t = true → s.alive t = true
  ring_dev : ∀ t, s.kind t = .dev → s'.ring t = s.ring t

theorem Frame.of_killed {s s' : St} {K : List Nat} (hk : Killed s K s') (hK : ∀ y ∈ K, s.kind y ≠ .dev) :
    Frame s s' := by
  refine ⟨?_, hk.vlive, hk.kind, hk.next, fun w hw => hk.ptrU w (fun x _ => hw x), ?_,
    fun t ht => ((hk.alive_iff t).mp ht).1, ?_⟩
  rotate_left 2
  · intro t htk
    rw [hk.ring]
    have : t ∉ K := fun h => hK t h htk
    simp [this]
  · intro t hta htk
    rw [hk.alive]
    have : t ∉ K := fun h => hK t h htk
    simp [hta, this]
  · intro w hw x hx
    rw [hk.ring] at hx
    split at hx
    · simp at hx
    · exact hw x hx

theorem Frame.trans {s s1 s2 : St} (h1 : Frame s s1) (h2 : Frame s1 s2) : Frame s s2 := by
  refine ⟨?_, by rw [h2.vlive, h1.vlive], by rw [h2.kind, h1.kind], by rw [h2.next, h1.next], ?_, ?_, ?_, ?_⟩
  · intro t hta htk
    exact h2.devs t (h1.devs t hta htk) (by rw [h1.kind]; exact htk)
  · intro w hw
    rw [h2.ptr_out w (h1.ring_out w hw), h1.ptr_out w hw]
  · intro w hw
    exact h2.ring_out w (h1.ring_out w hw)
  · intro t ht
    exact h1.alive_sub t (h2.alive_sub t ht)
  · intro t htk
    rw [h2.ring_dev t (by rw [h1.kind]; exact htk), h1.ring_dev t htk]

theorem InvX.del_dev {ex : Var → Prop} {s : St} {d : Nat} (hi : InvX ex s) (ha : s.alive d = true)
    (hk : s.kind d = .dev) (hexc : ∀ d', ¬ ex (Var.cur d')) :
    InvX ex (deleteDev s d) ∧ DelOut s (deleteDev s d) d := by
  rw [deleteDev_unfold ha]
  dsimp only
  obtain ⟨i1, e1, K1, k1, hK1⟩ := freeRing_inv (ex := ex) (k := .ker) (d := d) (Or.inl rfl) _ s hi ha hk (Nat.le_refl _)
  generalize freeRing .ker (s.chGet .ker d).length s d = s1 at *
  have f1 := Frame.of_killed k1 hK1
  have a1 : s1.alive d = true := f1.devs d ha hk
  have kd1 : s1.kind d = .dev := by rw [f1.kind]; exact hk
  obtain ⟨i2, e2, K2, k2, hK2⟩ := freeRing_inv (ex := ex) (k := .buf) (d := d) (Or.inr (Or.inl rfl)) _ s1 i1 a1 kd1 (Nat.le_refl _)
  generalize freeRing .buf (s1.chGet .buf d).length s1 d = s2 at *
  have f2 := Frame.of_killed k2 hK2
  have a2 : s2.alive d = true := f2.devs d a1 kd1
  have kd2 : s2.kind d = .dev := by rw [f2.kind]; exact kd1
  obtain ⟨i3, e3, K3, k3, hK3⟩ := freeRing_inv (ex := ex) (k := .str) (d := d) (Or.inr (Or.inr rfl)) _ s2 i2 a2 kd2 (Nat.le_refl _)
  generalize freeRing .str (s2.chGet .str d).length s2 d = s3 at *
  have f3 := Frame.of_killed k3 hK3
  have a3 : s3.alive d = true := f3.devs d a2 kd2
  have kd3 : s3.kind d = .dev := by rw [f3.kind]; exact kd2
  have hempty : ∀ k, s3.chGet k d = [] := by
    have hker : s3.chGet .ker d = [] := by
      apply List.eq_nil_iff_forall_not_mem.mpr
      intro x hx
      have := k2.chS _ _ x (k3.chS _ _ x hx)
      rw [e1] at this; simp at this
    have hbuf : s3.chGet .buf d = [] := by
      apply List.eq_nil_iff_forall_not_mem.mpr
      intro x hx
      have := k3.chS _ _ x hx
      rw [e2] at this; simp at this
    intro k
    rw [chGet_slot]
    cases k <;> first | exact hker | exact hbuf | exact e3
  obtain ⟨i7, hd⟩ := devTail_inv i3 a3 kd3 hempty hexc
  refine ⟨i7, ?_⟩
  have f := (f1.trans f2).trans f3
  refine ⟨hd.dead, ?_, ?_, by rw [hd.kind, f.kind], by rw [hd.next, f.next], ?_, ?_, ?_, ?_⟩
  · intro t hta htk htd
    rw [hk] at htk
    exact hd.keep t (f.devs t hta htk) (by rw [f.kind, htk, hk]) htd
  · intro w hw
    rw [hd.vlive w hw, f.vlive]
  · intro w hw
    rcases hd.ptr_out w (f.ring_out w hw) with h | h
    · left; rw [h, f.ptr_out w hw]
    · right; exact h
  · intro t ht
    exact f.alive_sub t (hd.alive_sub t ht)
  · intro t hta htk htd
    exact hd.devs t (f.devs t hta htk) (by rw [f.kind]; exact htk) htd
  · intro w hw
    apply hd.ptr_in w
    rw [f.ring_dev d hk]
    exact hw

/-- `delete modeX` / `free()` of any handle class keeps the invariant -/
theorem InvX.del_obj {ex : Var → Prop} {s : St} {o : Nat} (hk : HKind) (hi : InvX ex s)
    (ha : s.alive o = true) (hko : s.kind o = hk.obj)
    (hexc : hk = .dev → ∀ d', ¬ ex (Var.cur d'))
    (hexp : hk = .mem → ∀ w b, ex w → s.ptr w = some b → s.kind b ≠ .pool) :
    InvX ex (deleteObj hk s o) ∧ DelOut s (deleteObj hk s o) o := by
  cases hk with
  | dev => exact hi.del_dev ha hko (hexc rfl)
  | mem =>
    have hpool : ∀ b, s.par o = some b → s.kind b = .pool → s.useRefs b = true → s.ring b ≠ [] := by
      intro b hb hbk hbu
      obtain ⟨b', hb'1, hb'2⟩ := hi.mem_par o ha hko
      rw [hb] at hb'1
      cases hb'1
      have hba := (hi.kids_ok b o hb'2).2.2.2.1
      rcases hi.ring_ne b hba (by rw [hbk]; decide) hbu with h | ⟨w, hw1, hw2⟩
      · exact h
      · exact absurd hbk (hexp rfl w b hw1 hw2)
    obtain ⟨h1, K, hK, hoK, hKk⟩ := hi.del_mem ha hko hpool
    refine ⟨h1, DelOut.of_killed hK hoK ?_ ?_⟩
    · intro x hx
      rcases hKk x hx with h | h
      · exact Or.inl h
      · right; rw [h, hko]; decide
    · intro x hx
      rcases hKk x hx with h | h
      · exact Or.inl h
      · right; rw [h]; decide
  | pool =>
    have hni : ∀ p, s.alive p = true → s.inner p ≠ some o := by
      intro p hpa hin
      have := (hi.inner_ok p o hpa hin).2.2.1
      rw [hko] at this; cases this
    obtain ⟨h1, hK⟩ := hi.del_buf ha (Or.inr hko) hni
    refine ⟨h1, DelOut.of_killed hK ((mem_bufK s o o).mpr (Or.inl rfl)) ?_ ?_⟩
    · intro x hx
      rcases bufK_cases hi.toInv00 ha hx with h | ⟨_, _, h, _, _⟩ | ⟨_, h, _⟩
      · exact Or.inl h
      · right; rw [h, hko]; decide
      · right; rw [h, hko]; decide
    · intro x hx
      rcases bufK_cases hi.toInv00 ha hx with h | ⟨_, _, h, _, _⟩ | ⟨_, h, _⟩
      · exact Or.inl h
      · right; rw [h]; decide
      · right; rw [h]; decide
  | ker =>
    obtain ⟨h1, hK⟩ := InvX.del_child (k := .ker) hi ha hko (Or.inl rfl)
    exact ⟨h1, DelOut.of_killed hK (by simp) (fun x hx => Or.inl (by simpa using hx))
      (fun x hx => Or.inl (by simpa using hx))⟩
  | str =>
    obtain ⟨h1, hK⟩ := InvX.del_child (k := .str) hi ha hko (Or.inr rfl)
    exact ⟨h1, DelOut.of_killed hK (by simp) (fun x hx => Or.inl (by simpa using hx))
      (fun x hx => Or.inl (by simpa using hx))⟩

/-- `X::removeXRef()` followed by `modeX = NULL`, for the invariant proper -/
theorem InvX.detach {s : St} {v : Var} (hi : InvX (fun _ => False) s) :
    InvX (fun _ => False) ((dropRef s v).setPtr v none) ∧ DropOut s ((dropRef s v).setPtr v none) v := by
  unfold dropRef
  apply hi.drop_ref (fun h => h)
  intro o hp hi1
  have hpo := hi.ptr_ok v o hp (fun h => h)
  apply hi1.del_obj v.kind hpo.1 hpo.2.1
  · intro hvk d' hex
    rcases hex with h | h
    · exact h
    · rw [← h] at hvk
      cases hvk
  · intro hvk w b hex hwb
    rcases hex with h | h
    · exact h.elim
    · subst h
      have e : (s.setRing o (Ring.remove (s.ring o) w)).ptr w = s.ptr w := rfl
      rw [e, hp] at hwb
      cases hwb
      show s.kind o ≠ .pool
      rw [hpo.2.1, hvk]
      decide

end Occa.Gc
