/-
The device byte counters (C05) as far as the pool operations touch them: the ghost trace records
every value `bytesAllocated` takes, `maxBytesAllocated` is its maximum, and a pool operation
changes the counter by exactly the change of the pool's buffer size.
-/
import OccaProofs.Lemmas.PoolReserve

namespace Occa.Pool

/-- maximum of a list of naturals -/
def maxOf : List Nat → Nat
  | [] => 0
  | x :: xs => max x (maxOf xs)

structure DevOK (d : Dev) : Prop where
  /-- `maxBytesAllocated` is the largest value `bytesAllocated` has taken -/
  max_eq : d.maxAlloc = maxOf d.trace
  /-- the trace ends with the current value (0 for a fresh device) -/
  cur : d.alloc = d.trace.headD 0

theorem DevOK.le {d : Dev} (h : DevOK d) : d.alloc ≤ d.maxAlloc := by
  rw [h.max_eq, h.cur]
  cases d.trace with
  | nil => simp [maxOf]
  | cons x xs => simp only [maxOf, List.headD_cons]; omega

theorem devOK_init : DevOK {} := ⟨rfl, rfl⟩

theorem DevOK.add {d : Dev} (h : DevOK d) (n : Nat) : DevOK (d.add n) := by
  refine ⟨?_, rfl⟩
  show max d.maxAlloc (d.alloc + n) = max (d.alloc + n) (maxOf d.trace)
  rw [h.max_eq, Nat.max_comm]

theorem DevOK.sub {d : Dev} (h : DevOK d) (n : Nat) : DevOK (d.sub n) := by
  refine ⟨?_, rfl⟩
  show d.maxAlloc = max (d.alloc - n) (maxOf d.trace)
  have := h.le
  rw [← h.max_eq]
  omega

@[simp] theorem Dev.add_alloc (d : Dev) (n : Nat) : (d.add n).alloc = d.alloc + n := rfl
@[simp] theorem Dev.sub_alloc (d : Dev) (n : Nat) : (d.sub n).alloc = d.alloc - n := rfl

/-- the counter follows the size of the pool's buffer -/
structure DevStep (d d' : Dev) (p p' : Pool) : Prop where
  ok : DevOK d'
  bal : d'.alloc + p.size = d.alloc + p'.size

theorem resize_dev {c : Cfg} {d d' : Dev} {p p' : Pool} (h : PInv p) {bytes : Nat} {pack : Bool}
    (hd : DevOK d) (hle : p.size ≤ d.alloc) (hres : p.resize c d bytes pack = .ok (d', p')) :
    DevStep d d' p p' := by
  unfold Pool.resize at hres
  split at hres
  · cases hres
  split at hres
  · cases hres; exact ⟨hd, rfl⟩
  split at hres
  · cases hres
    refine ⟨DevOK.add (by split; exact hd.sub _; exact hd) _, ?_⟩
    split
    · show d.alloc - p.size + rup p.align bytes + p.size = d.alloc + rup p.align bytes
      omega
    · rename_i hb
      have : p.size = 0 := by
        rcases h.hasBuf with hb' | hb'
        · exact absurd hb' hb
        · exact hb'.2
      show d.alloc + rup p.align bytes + p.size = d.alloc + rup p.align bytes
      omega
  · split at hres
    · cases hres
    cases hres
    refine ⟨(hd.add _).sub _, ?_⟩
    show d.alloc + rup p.align bytes - p.size + p.size = d.alloc + rup p.align bytes
    omega

theorem setAlignment_dev {d d' : Dev} {p p' : Pool} {na : Nat}
    (hd : DevOK d) (hle : p.size ≤ d.alloc) (hres : p.setAlignment d na = .ok (d', p')) :
    DevStep d d' p p' := by
  unfold Pool.setAlignment at hres
  split at hres
  · cases hres
  split at hres
  · cases hres; exact ⟨hd, rfl⟩
  split at hres
  · cases hres; exact ⟨hd, rfl⟩
  · rename_i m ms hl
    split at hres
    · cases hres
    cases hres
    refine ⟨(hd.add _).sub _, ?_⟩
    show d.alloc + (sweep na id m ms).total - p.size + p.size = d.alloc + (sweep na id m ms).total
    omega

theorem slice_size {c : Cfg} {p p' : Pool} {slot fam off bytes : Nat}
    (h : p.slice c slot fam off bytes = .ok p') : p'.size = p.size := by
  unfold Pool.slice at h
  split at h
  · cases h
  · cases h; rfl

theorem reserve_dev {c : Cfg} {d d' : Dev} {p p' : Pool} (h : PInv p) {slot fam bytes : Nat}
    (hd : DevOK d) (hle : p.size ≤ d.alloc) (hres : p.reserve c d slot fam bytes = .ok (d', p')) :
    DevStep d d' p p' := by
  unfold Pool.reserve at hres
  simp only [] at hres
  have key : ∀ (pk : Bool), (match p.resize c d (p.reserved + rup p.align bytes) pk with
      | .error e => (.error e : Except Err (Dev × Pool))
      | .ok (d1, p1) => (p1.slice c slot fam p1.reserved bytes).map fun p2 => (d1, p2)) = .ok (d', p') →
      DevStep d d' p p' := by
    intro pk hk
    cases hrz : p.resize c d (p.reserved + rup p.align bytes) pk with
    | error e => rw [hrz] at hk; cases hk
    | ok dp =>
      obtain ⟨d1, p1⟩ := dp
      rw [hrz] at hk
      dsimp only at hk
      have hstep := resize_dev h hd hle hrz
      cases hsl : p1.slice c slot fam p1.reserved bytes with
      | error e => rw [hsl] at hk; cases hk
      | ok p2 =>
        rw [hsl] at hk
        cases hk
        have := slice_size hsl
        exact ⟨hstep.ok, by rw [this]; exact hstep.bal⟩
  have same : ∀ off, (p.slice c slot fam off bytes).map (fun p2 => (d, p2)) = .ok (d', p') → DevStep d d' p p' := by
    intro off hk
    cases hsl : p.slice c slot fam off bytes with
    | error e => rw [hsl] at hk; cases hk
    | ok p2 =>
      rw [hsl] at hk
      cases hk
      exact ⟨hd, by rw [slice_size hsl]⟩
  generalize (if c.reserveComparesAligned = true then rup p.align bytes else bytes) = need at hres
  by_cases h1 : p.reserved + need > p.size
  · rw [if_pos h1] at hres; exact key _ hres
  · rw [if_neg h1] at hres
    by_cases h2 : p.resv = []
    · rw [if_pos h2] at hres; exact same _ hres
    · rw [if_neg h2] at hres
      by_cases h3 : findHole p.align bytes 0 p.resv + need ≤ p.size
      · rw [if_pos h3] at hres; exact same _ hres
      · rw [if_neg h3] at hres; exact key _ hres

end Occa.Pool
