/-
The representation invariant of `trie<TM>` against its specification (an association list with
distinct keys, newest entry last), its preservation by every operation, and what the queries
return under it.  Core Lean only.
-/
import OccaProofs.Lemmas.TrieFreeze

set_option linter.unusedSectionVars false
set_option linter.unusedSimpArgs false

namespace Occa.Trie
open Node
variable {α V : Type} [DecidableEq α] [LT α] [DecidableRel (α := α) (· < ·)] [Inhabited α] [TotalLT α]

/-- `t` represents the finite map `M`:
    the node at key `k` holds the position of `k` in `M`, `values` are `M`'s values in order,
    keys are distinct, every child map is sorted and holds no empty subtree, and the frozen
    arrays (if any) are the flattening of the current tree. -/
structure Inv (t : Trie α V) (M : List (List α × V)) : Prop where
  look : ∀ k, lookupN k t.root = idxOf k M
  vals : t.values = M.map (·.2)
  nodup : NodupKeys M
  wf : WF t.root
  frozen : ∀ f, t.frozen = some f → FrozenOK f t.root

theorem inv_init : Inv ({} : Trie α V) [] where
  look := fun k => by simp [lookupN_empty, idxOf]
  vals := rfl
  nodup := by simp [NodupKeys]
  wf := wf_empty
  frozen := fun f h => by simp at h

theorem map_eraseIdx {β γ : Type} (f : β → γ) (l : List β) (i : Nat) :
    (l.eraseIdx i).map f = (l.map f).eraseIdx i := by
  induction l generalizing i with
  | nil => simp
  | cons a r ih => cases i <;> simp [ih]

/-! ### freeze -/

theorem freeze_spec (t : Trie α V) :
    ∃ f, t.freeze = some { t with frozen := some f } ∧ FrozenOK f t.root := by
  unfold Trie.freeze
  have hsz : 0 + nodeCountN t.root ≤
      ((Array.replicate (nodeCountN t.root + 1) (none : Option (Cell α))).set! (nodeCountN t.root)
        (some ⟨default, nodeCountN t.root, 0, none⟩)).size := by
    simp
  obtain ⟨arr', e, _, _, hl⟩ := freezeN_spec t.root 0 _ hsz
  refine ⟨⟨nodeCountN t.root, t.root.kids.length, arr'⟩, ?_, rfl, _, hl⟩
  simp only [Trie.defrost]
  rw [e]

theorem inv_freeze {t : Trie α V} {M : List (List α × V)} (h : Inv t M) :
    ∃ t', t.freeze = some t' ∧ Inv t' M ∧ t'.autoFreeze = t.autoFreeze := by
  obtain ⟨f, e, hf⟩ := freeze_spec t
  refine ⟨_, e, ⟨h.look, h.vals, h.nodup, h.wf, ?_⟩, rfl⟩
  intro f' hf'
  simp only [Option.some.injEq] at hf'
  subst hf'; exact hf

theorem inv_defrost {t : Trie α V} {M : List (List α × V)} (h : Inv t M) : Inv t.defrost M :=
  ⟨h.look, h.vals, h.nodup, h.wf, fun f hf => by simp [Trie.defrost] at hf⟩

/-! ### add -/

/-- the state after the "new key" branch of `add`, before the optional re-freeze -/
def addFresh (t : Trie α V) (k : List α) (v : V) : Trie α V :=
  { t.defrost with values := t.defrost.values ++ [v], root := addN k t.defrost.values.length t.defrost.root }

theorem add_fresh {t : Trie α V} {k : List α} (v : V) (h : getValueIndex k t.root = none) :
    t.add k v = if t.autoFreeze then (addFresh t k v).freeze else some (addFresh t k v) := by
  unfold Trie.add; rw [h]; rfl

theorem add_existing {t : Trie α V} {k : List α} (v : V) {i : Nat} (h : getValueIndex k t.root = some i) :
    t.add k v = if i < t.values.length then some { t with values := t.values.set i v } else none := by
  unfold Trie.add; rw [h]

theorem inv_add {t : Trie α V} {M : List (List α × V)} (h : Inv t M) (k : List α) (v : V) :
    ∃ t', t.add k v = some t' ∧ Inv t' (specAdd M k v) := by
  have hg : getValueIndex k t.root = idxOf k M := by rw [getValueIndex_eq, h.look]
  cases hi : idxOf k M with
  | none =>
    rw [hi] at hg
    rw [add_fresh v hg]
    have hl : lookup k M = none := by rw [lookup_eq_idxOf, hi]; rfl
    have hspec : specAdd M k v = M ++ [(k, v)] := by unfold specAdd; simp [hl]
    have hinv : Inv (addFresh t k v) (specAdd M k v) := by
      refine ⟨?_, ?_, nodupKeys_specAdd h.nodup k v, wf_addN _ _ _ h.wf, fun f hf => by simp [addFresh, Trie.defrost] at hf⟩
      · intro k'
        show lookupN k' (addN k t.values.length t.root) = _
        rw [lookupN_addN _ _ _ _ h.wf.sorted, hspec, idxOf_append_new hi, h.look, h.vals, List.length_map]
      · show t.values ++ [v] = _
        rw [hspec, h.vals]; simp
    by_cases ha : t.autoFreeze
    · simp only [ha, if_true]
      obtain ⟨t', e, hi', _⟩ := inv_freeze hinv
      exact ⟨t', e, hi'⟩
    · simp only [ha, Bool.false_eq_true, if_false]
      exact ⟨_, rfl, hinv⟩
  | some i =>
    rw [hi] at hg
    rw [add_existing v hg]
    have hlt : i < t.values.length := by rw [h.vals, List.length_map]; exact idxOf_lt hi
    simp only [hlt, if_true]
    refine ⟨_, rfl, ?_⟩
    have hl : (lookup k M).isSome := by rw [lookup_eq_idxOf, hi]; simp [← h.vals, hlt]
    have hspec : specAdd M k v = M.map fun e => if e.1 = k then (k, v) else e := by
      unfold specAdd; simp [hl]
    refine ⟨?_, ?_, nodupKeys_specAdd h.nodup k v, h.wf, h.frozen⟩
    · intro k'; rw [hspec, idxOf_map_update]; exact h.look k'
    · show t.values.set i v = _
      rw [hspec, values_map_update h.nodup hi, h.vals]

/-! ### remove -/

/-- the state after `root.remove(...)`, before the optional re-freeze and the shift of `values` -/
def removeRoot (t : Trie α V) (k : List α) (i : Nat) : Trie α V :=
  { t.defrost with root := removeN k i t.defrost.root }

/-- the `for (i = valueIndex + 1 ..) values[i-1] = values[i]; values.pop_back()` part -/
def shiftValues (t : Trie α V) (i : Nat) : Option (Trie α V) :=
  if i < t.values.length then some { t with values := t.values.eraseIdx i }
  else if t.values.isEmpty then none
  else some { t with values := t.values.dropLast }

theorem remove_absent {t : Trie α V} {k : List α} (h : getValueIndex k t.root = none) : t.remove k = some t := by
  unfold Trie.remove; rw [h]

theorem remove_present {t : Trie α V} {k : List α} {i : Nat} (h : getValueIndex k t.root = some i) :
    t.remove k =
      (if t.autoFreeze then (removeRoot t k i).freeze else some (removeRoot t k i)).bind fun t' => shiftValues t' i := by
  unfold Trie.remove; rw [h]
  simp only []
  show (match (if t.autoFreeze then (removeRoot t k i).freeze else some (removeRoot t k i)) with
        | none => none
        | some t' => shiftValues t' i) = _
  cases (if t.autoFreeze then (removeRoot t k i).freeze else some (removeRoot t k i)) <;> rfl

theorem inv_remove {t : Trie α V} {M : List (List α × V)} (h : Inv t M) (k : List α) :
    ∃ t', t.remove k = some t' ∧ Inv t' (specRemove M k) := by
  have hg : getValueIndex k t.root = idxOf k M := by rw [getValueIndex_eq, h.look]
  cases hi : idxOf k M with
  | none =>
    rw [hi] at hg
    rw [remove_absent hg]
    exact ⟨t, rfl, by rw [specRemove_of_absent hi]; exact h⟩
  | some i =>
    rw [hi] at hg
    rw [remove_present hg]
    have hlt : i < t.values.length := by rw [h.vals, List.length_map]; exact idxOf_lt hi
    have hspec := specRemove_eq_eraseIdx h.nodup hi
    have hlook : ∀ k', lookupN k' (removeN k i t.root) = idxOf k' (specRemove M k) := by
      intro k'
      rw [lookupN_removeN, hspec, idxOf_eraseIdx h.nodup hi, h.look]
    have hvals : t.values.eraseIdx i = (specRemove M k).map (·.2) := by
      rw [hspec, map_eraseIdx, h.vals]
    have hnd := nodupKeys_specRemove h.nodup k
    have hwf := wf_removeN k i t.root h.wf
    by_cases ha : t.autoFreeze
    · simp only [ha, if_true]
      obtain ⟨f, e, hf⟩ := freeze_spec (removeRoot t k i)
      rw [e]
      have hlt' : i < ({ removeRoot t k i with frozen := some f } : Trie α V).values.length := hlt
      simp only [Option.bind_some, shiftValues, hlt', if_true]
      refine ⟨_, rfl, hlook, hvals, hnd, hwf, ?_⟩
      intro f' hf'
      simp only [Option.some.injEq] at hf'
      subst hf'; exact hf
    · simp only [ha, Bool.false_eq_true, if_false]
      have hlt' : i < (removeRoot t k i).values.length := hlt
      simp only [Option.bind_some, shiftValues, hlt', if_true]
      exact ⟨_, rfl, hlook, hvals, hnd, hwf, fun f hf => by simp [removeRoot, Trie.defrost] at hf⟩

/-! ### histories -/

theorem inv_clear (t : Trie α V) : Inv t.clear [] where
  look := fun k => by simp [Trie.clear, lookupN_empty, idxOf]
  vals := rfl
  nodup := by simp [NodupKeys]
  wf := wf_empty
  frozen := fun f h => by simp [Trie.clear] at h

theorem inv_step {t : Trie α V} {M : List (List α × V)} (h : Inv t M) (op : Op α V) :
    ∃ t', t.step op = some t' ∧ Inv t' (specStep M op) := by
  cases op with
  | add k v => exact inv_add h k v
  | remove k => exact inv_remove h k
  | freeze => obtain ⟨t', e, hi, _⟩ := inv_freeze h; exact ⟨t', e, hi⟩
  | defrost => exact ⟨_, rfl, inv_defrost h⟩
  | clear => exact ⟨_, rfl, inv_clear t⟩
  | setAuto b => exact ⟨_, rfl, ⟨h.look, h.vals, h.nodup, h.wf, h.frozen⟩⟩

theorem inv_run {t : Trie α V} {M : List (List α × V)} (h : Inv t M) (ops : List (Op α V)) :
    ∃ t', t.run ops = some t' ∧ Inv t' (specRun M ops) := by
  induction ops generalizing t M with
  | nil => exact ⟨t, rfl, h⟩
  | cons op ops ih =>
    obtain ⟨t1, e1, h1⟩ := inv_step h op
    obtain ⟨t2, e2, h2⟩ := ih h1
    exact ⟨t2, by simp [Trie.run, e1, e2], h2⟩

/-! ### the queries under the invariant -/

theorem getLongest_eq {t : Trie α V} {M : List (List α × V)} (h : Inv t M) (q : List α) :
    t.getLongest q = some (trieGetLongest t.root q) := by
  unfold Trie.getLongest
  cases hf : t.frozen with
  | none => rfl
  | some f => exact getLongestFrozen_eq f t.root (h.frozen f hf) h.wf.sorted q

theorem best_eq_spec {t : Trie α V} {M : List (List α × V)} (h : Inv t M) (q : List α) :
    best t.root q = longestBy (fun k => idxOf k M) q :=
  longestBy_congr h.look q

theorem lookup_isSome_eq (k : List α) (M : List (List α × V)) : (lookup k M).isSome = (idxOf k M).isSome := by
  rw [Bool.eq_iff_iff, lookup_isSome_iff, idxOf_isSome_iff]

theorem values_get {t : Trie α V} {M : List (List α × V)} (h : Inv t M) {k : List α} {i : Nat}
    (hi : idxOf k M = some i) : ∃ v, t.values[i]? = some v ∧ lookup k M = some v := by
  have hlt : i < (M.map (·.2)).length := by rw [List.length_map]; exact idxOf_lt hi
  refine ⟨(M.map (·.2))[i], ?_, ?_⟩
  · rw [h.vals]; exact List.getElem?_eq_getElem hlt
  · rw [lookup_eq_idxOf, hi]; exact List.getElem?_eq_getElem hlt

theorem longest_eq {t : Trie α V} {M : List (List α × V)} (h : Inv t M) (q : List α) :
    t.longest q = some (longestPrefix M q) := by
  unfold Trie.longest
  rw [getLongest_eq h, trieGetLongest_eq, best_eq_spec h, longestPrefix_eq_longestBy]
  have hb := longestBy_bind (fun k => idxOf k M) (fun i => (M.map (·.2))[i]?)
    (fun k i hi => by
      have : i < (M.map (·.2)).length := by rw [List.length_map]; exact idxOf_lt hi
      simp [List.getElem?_eq_getElem this]) q
  have hfun : (fun k => lookup k M) = fun k => (idxOf k M).bind fun i => (M.map (·.2))[i]? := by
    funext k; exact lookup_eq_idxOf k M
  rw [hfun, hb]
  cases hl : longestBy (fun k => idxOf k M) q with
  | none => rfl
  | some r =>
    obtain ⟨m, i⟩ := r
    obtain ⟨v, hv, _⟩ := values_get h (longestBy_some hl).2
    simp only [Trie.value, hv, Option.map_some, Option.bind_some]
    rw [← h.vals, hv]
    rfl

/-- `get`: the value index found is exactly the exact lookup -/
theorem get_valueIndex (root : Node α) (q : List α) :
    (if (trieGetLongest root q).length ≠ q.length then Result.fail else trieGetLongest root q).valueIndex
      = lookupN q root := by
  rw [trieGetLongest_eq]
  cases hb : best root q with
  | none =>
    have := (best_none_iff root q).mp hb q.length (Nat.le_refl _)
    simp only [List.take_length] at this
    simp only [this]
    split <;> rfl
  | some r =>
    obtain ⟨m, i⟩ := r
    obtain ⟨hm, hl, hmax⟩ := (best_some_iff root q m i).mp hb
    simp only []
    by_cases e : m = q.length
    · subst e; simp only [List.take_length] at hl; simp [hl]
    · have := hmax q.length (by omega) (Nat.le_refl _)
      simp only [List.take_length] at this
      simp [e, this, Result.fail]

theorem get_length (root : Node α) (q : List α) :
    (if (trieGetLongest root q).length ≠ q.length then Result.fail else trieGetLongest root q).success = true →
    (if (trieGetLongest root q).length ≠ q.length then Result.fail else trieGetLongest root q).length = q.length := by
  by_cases e : (trieGetLongest root q).length = q.length
  · simp [e]
  · simp [e, Result.fail, Result.success]

theorem getValue_eq {t : Trie α V} {M : List (List α × V)} (h : Inv t M) (q : List α) :
    t.getValue q = some (lookup q M) := by
  unfold Trie.getValue Trie.get
  rw [getLongest_eq h]
  simp only [Option.map_some]
  rw [get_valueIndex, h.look]
  cases hi : idxOf q M with
  | none => simp [lookup_eq_idxOf, hi]
  | some i =>
    obtain ⟨v, hv, hl⟩ := values_get h hi
    simp [Trie.value, hv, hl]

theorem has_eq {t : Trie α V} {M : List (List α × V)} (h : Inv t M) (q : List α) :
    t.has q = some (lookup q M).isSome := by
  unfold Trie.has Trie.get
  rw [getLongest_eq h]
  simp only [Option.map_some, Result.success]
  rw [get_valueIndex, h.look, lookup_isSome_eq]

theorem hasSized_eq {t : Trie α V} {M : List (List α × V)} (h : Inv t M) (q : List α) :
    t.hasSized q = if q = [] then some none else some (some (lookup q M).isSome) := by
  unfold Trie.hasSized Trie.get
  rw [getLongest_eq h]
  simp only [Option.map_some, Result.success]
  rw [get_valueIndex, h.look, lookup_isSome_eq]
  cases q <;> simp

theorem size_eq {t : Trie α V} {M : List (List α × V)} (h : Inv t M) : t.size = M.length := by
  unfold Trie.size
  cases t.frozen with
  | some f => simp [h.vals]
  | none =>
    simp only []
    have hn : (M.map (fun (e : List α × V) => e.1)).Nodup := h.nodup
    rw [sizeN_eq_length t.root h.wf.sorted _ hn, List.length_map]
    intro k
    rw [h.look, idxOf_isSome_iff]

theorem hasChar_struct {t : Trie α V} {M : List (List α × V)} (h : Inv t M) (c : α) :
    t.hasChar c = some ((t.root.kids.map (·.1)).contains c) := by
  unfold Trie.hasChar
  cases hf : t.frozen with
  | none => rfl
  | some f =>
    obtain ⟨hb, hi, hl⟩ := h.frozen f hf
    rw [laidN_iff] at hl
    simp only [hb]
    exact scan_eq f.cells c t.root.kids _ _ _ hl

/-- a first character leads somewhere iff some stored key starts with it -/
theorem child_iff_key {t : Trie α V} {M : List (List α × V)} (h : Inv t M) (c : α) :
    c ∈ t.root.kids.map (·.1) ↔ ∃ e ∈ M, e.1.head? = some c := by
  have hwf := h.wf
  rw [Node.eta t.root, wf_mk] at hwf
  constructor
  · intro hc
    rw [← find_isSome_iff] at hc
    cases hf : find c t.root.kids with
    | none => simp [hf] at hc
    | some ch =>
      have hm := find_mem hf
      obtain ⟨k, hk⟩ := exists_key_of_not_dead ch (hwf.2 _ hm) (hwf.1.2 _ hm)
      have : (lookupN (c :: k) t.root).isSome := by simp [lookupN_cons, hf, hk]
      rw [h.look, idxOf_isSome_iff] at this
      simp only [List.mem_map] at this
      obtain ⟨e, he, hek⟩ := this
      exact ⟨e, he, by simp [hek]⟩
  · rintro ⟨e, he, hh⟩
    cases hk : e.1 with
    | nil => simp [hk] at hh
    | cons c' k' =>
      simp [hk] at hh; subst hh
      have : (idxOf (c' :: k') M).isSome := by
        rw [idxOf_isSome_iff, ← hk]; exact List.mem_map_of_mem he
      rw [← h.look, lookupN_cons] at this
      rw [← find_isSome_iff]
      cases hf : find c' t.root.kids with
      | none => simp [hf] at this
      | some ch => rfl

theorem hasChar_eq {t : Trie α V} {M : List (List α × V)} (h : Inv t M) (c : α) :
    t.hasChar c = some (M.any fun e => e.1.head? = some c) := by
  rw [hasChar_struct h]
  congr 1
  rw [Bool.eq_iff_iff]
  simp only [List.contains_eq_mem, decide_eq_true_eq, List.any_eq_true]
  exact child_iff_key h c

theorem isEmpty_eq {t : Trie α V} {M : List (List α × V)} (h : Inv t M) :
    t.isEmpty = M.all fun e => e.1 = [] := by
  unfold Trie.isEmpty
  rw [Bool.eq_iff_iff]
  simp only [List.isEmpty_iff, List.all_eq_true, decide_eq_true_eq]
  constructor
  · intro hk e he
    cases hke : e.1 with
    | nil => rfl
    | cons c k' =>
      have : c ∈ t.root.kids.map (·.1) := (child_iff_key h c).mpr ⟨e, he, by simp [hke]⟩
      rw [hk] at this; simp at this
  · intro hall
    cases hk : t.root.kids with
    | nil => rfl
    | cons p r =>
      have : p.1 ∈ t.root.kids.map (·.1) := by rw [hk]; simp
      obtain ⟨e, he, hh⟩ := (child_iff_key h p.1).mp this
      rw [hall e he] at hh; simp at hh

theorem specRun_append_add (M : List (List α × V)) (ops : List (Op α V)) (k : List α) (v : V) :
    specRun M (ops ++ [.add k v]) = specAdd (specRun M ops) k v := by
  induction ops generalizing M with
  | nil => rfl
  | cons op ops ih =>
    show specRun (specStep M op) (ops ++ [.add k v]) = specAdd (specRun (specStep M op) ops) k v
    exact ih _

end Occa.Trie
