/-
Lemmas for C20 / C21 on the loop-structure semantics (OccaModel/OklSem.lean).
-/
import OccaModel.OklSem
import Mathlib.Data.List.Basic

namespace Occa.OklSem

/-! ### a GPU thread only looks at the index components of the loops still to come -/

theorem thr_congr (s : Sem) : ∀ (b b' t t' : Nat → Nat) (d e : Nat) (os is js : List Nat),
    (∀ k, d ≤ k → b k = b' k) → (∀ k, e ≤ k → t k = t' k) →
    thr b t d e os is js s = thr b' t' d e os is js s := by
  induction s with
  | nil => intros; rfl
  | outer n body next ihb ihn =>
    intro b b' t t' d e os is js hb ht
    simp only [thr]
    rw [hb d (Nat.le_refl _), ihb b b' t t' (d + 1) e _ is js (fun k hk => hb k (by omega)) ht,
      ihn b b' t t' d e os is js hb ht]
  | inner n body next ihb ihn =>
    intro b b' t t' d e os is js hb ht
    simp only [thr]
    rw [ht e (Nat.le_refl _), ihb b b' t t' d (e + 1) os _ js hb (fun k hk => ht k (by omega)),
      ihn b b' t t' d e os is js hb ht]
  | seq n body next ihb ihn =>
    intro b b' t t' d e os is js hb ht
    simp only [thr]
    rw [ihn b b' t t' d e os is js hb ht]
    congr 1
    apply List.flatMap_congr
    intro j _
    exact ihb b b' t t' d e os is _ hb ht
  | stmt id next ihn =>
    intro b b' t t' d e os is js hb ht
    simp only [thr]
    rw [ihn b b' t t' d e os is js hb ht]
  | barrier next ihn =>
    intro b b' t t' d e os is js hb ht
    simp only [thr]
    exact ihn b b' t t' d e os is js hb ht

/-- the grid: block indices below `od`, thread indices below `id`, in every dimension -/
def InGrid (od id : Nat → Nat) (b t : Nat → Nat) : Prop := (∀ k, b k < od k) ∧ (∀ k, t k < id k)

theorem coverage (od id : Nat → Nat) (hod : ∀ k, 0 < od k) (hid : ∀ k, 0 < id k) (s : Sem) :
    ∀ (d e : Nat) (os is js : List Nat) (x : Inst), Uniform od id d e s →
      (x ∈ seqTrace os is js s ↔ ∃ b t, InGrid od id b t ∧ x ∈ thr b t d e os is js s) := by
  induction s with
  | nil =>
    intro d e os is js x _
    simp [seqTrace, thr]
  | outer n body next ihb ihn =>
    intro d e os is js x hu
    obtain ⟨hn, hub, hun⟩ := hu
    simp only [seqTrace, thr, List.mem_append, List.mem_flatMap, List.mem_range]
    constructor
    · rintro (⟨o, ho, hx⟩ | hx)
      · obtain ⟨b, t, ⟨hb, ht⟩, hx'⟩ := (ihb (d + 1) e (os ++ [o]) is js x hub).1 hx
        refine ⟨Function.update b d o, t, ⟨?_, ht⟩, Or.inl ?_⟩
        · intro k
          by_cases hk : k = d
          · subst hk; simp [Function.update_self]; omega
          · rw [Function.update_of_ne hk]; exact hb k
        · rw [Function.update_self]
          rw [thr_congr body (Function.update b d o) b t t (d + 1) e _ is js
            (fun k hk => Function.update_of_ne (by omega) _ _) (fun _ _ => rfl)]
          exact hx'
      · obtain ⟨b, t, hg, hx'⟩ := (ihn d e os is js x hun).1 hx
        exact ⟨b, t, hg, Or.inr hx'⟩
    · rintro ⟨b, t, hg, hx | hx⟩
      · exact Or.inl ⟨b d, by rw [hn]; exact hg.1 d, (ihb (d + 1) e _ is js x hub).2 ⟨b, t, hg, hx⟩⟩
      · exact Or.inr ((ihn d e os is js x hun).2 ⟨b, t, hg, hx⟩)
  | inner n body next ihb ihn =>
    intro d e os is js x hu
    obtain ⟨hn, hub, hun⟩ := hu
    simp only [seqTrace, thr, List.mem_append, List.mem_flatMap, List.mem_range]
    constructor
    · rintro (⟨i, hi, hx⟩ | hx)
      · obtain ⟨b, t, ⟨hb, ht⟩, hx'⟩ := (ihb d (e + 1) os (is ++ [i]) js x hub).1 hx
        refine ⟨b, Function.update t e i, ⟨hb, ?_⟩, Or.inl ?_⟩
        · intro k
          by_cases hk : k = e
          · subst hk; simp [Function.update_self]; omega
          · rw [Function.update_of_ne hk]; exact ht k
        · rw [Function.update_self]
          rw [thr_congr body b b (Function.update t e i) t d (e + 1) os _ js
            (fun _ _ => rfl) (fun k hk => Function.update_of_ne (by omega) _ _)]
          exact hx'
      · obtain ⟨b, t, hg, hx'⟩ := (ihn d e os is js x hun).1 hx
        exact ⟨b, t, hg, Or.inr hx'⟩
    · rintro ⟨b, t, hg, hx | hx⟩
      · exact Or.inl ⟨t e, by rw [hn]; exact hg.2 e, (ihb d (e + 1) os _ js x hub).2 ⟨b, t, hg, hx⟩⟩
      · exact Or.inr ((ihn d e os is js x hun).2 ⟨b, t, hg, hx⟩)
  | seq n body next ihb ihn =>
    intro d e os is js x hu
    obtain ⟨hub, hun⟩ := hu
    simp only [seqTrace, thr, List.mem_append, List.mem_flatMap, List.mem_range]
    constructor
    · rintro (⟨j, hj, hx⟩ | hx)
      · obtain ⟨b, t, hg, hx'⟩ := (ihb d e os is (js ++ [j]) x hub).1 hx
        exact ⟨b, t, hg, Or.inl ⟨j, hj, hx'⟩⟩
      · obtain ⟨b, t, hg, hx'⟩ := (ihn d e os is js x hun).1 hx
        exact ⟨b, t, hg, Or.inr hx'⟩
    · rintro ⟨b, t, hg, ⟨j, hj, hx⟩ | hx⟩
      · exact Or.inl ⟨j, hj, (ihb d e os is _ x hub).2 ⟨b, t, hg, hx⟩⟩
      · exact Or.inr ((ihn d e os is js x hun).2 ⟨b, t, hg, hx⟩)
  | stmt id' next ihn =>
    intro d e os is js x hu
    simp only [seqTrace, thr, List.mem_cons]
    constructor
    · rintro (hx | hx)
      · exact ⟨fun _ => 0, fun _ => 0, ⟨fun k => hod k, fun k => hid k⟩, Or.inl hx⟩
      · obtain ⟨b, t, hg, hx'⟩ := (ihn d e os is js x hu).1 hx
        exact ⟨b, t, hg, Or.inr hx'⟩
    · rintro ⟨b, t, hg, hx | hx⟩
      · exact Or.inl hx
      · exact Or.inr ((ihn d e os is js x hu).2 ⟨b, t, hg, hx⟩)
  | barrier next ihn =>
    intro d e os is js x hu
    simp only [seqTrace, thr]
    exact ihn d e os is js x hu

/-! ### interleavings of commuting step sequences -/

theorem run_append {α σ : Type} (f : α → σ → σ) (a b : List α) (s : σ) :
    run f (a ++ b) s = run f b (run f a s) := by
  simp [run, List.foldl_append]

theorem run_cons {α σ : Type} (f : α → σ → σ) (x : α) (l : List α) (s : σ) :
    run f (x :: l) s = run f l (f x s) := rfl

theorem commute_run {α σ : Type} (f : α → σ → σ) (x : α) (p : List α)
    (h : ∀ y ∈ p, ∀ s, f x (f y s) = f y (f x s)) (s : σ) : f x (run f p s) = run f p (f x s) := by
  induction p generalizing s with
  | nil => rfl
  | cons y p ih =>
    rw [run_cons, run_cons, ih (fun z hz => h z (by simp [hz])), h y (by simp)]

/-- steps of different sequences commute -/
def CrossCommute {α σ : Type} (f : α → σ → σ) (ls : List (List α)) : Prop :=
  ls.Pairwise (fun a b => ∀ x ∈ a, ∀ y ∈ b, ∀ s, f x (f y s) = f y (f x s))

theorem run_interleave {α σ : Type} (f : α → σ → σ) (ls : List (List α)) (l : List α)
    (h : Interleave ls l) : CrossCommute f ls → ∀ s, run f l s = run f ls.flatten s := by
  induction h with
  | done ls hall =>
    intro _ s
    have : ls.flatten = [] := by
      rw [List.flatten_eq_nil_iff]; exact hall
    rw [this]
  | step pre x r post l _ ih =>
    intro hc s
    unfold CrossCommute at hc
    rw [List.pairwise_append] at hc
    obtain ⟨hpre, hmid, hcross⟩ := hc
    rw [List.pairwise_cons] at hmid
    have hc' : CrossCommute f (pre ++ r :: post) := by
      unfold CrossCommute
      rw [List.pairwise_append]
      refine ⟨hpre, ?_, ?_⟩
      · rw [List.pairwise_cons]
        exact ⟨fun b hb y hy z hz s => hmid.1 b hb y (by simp [hy]) z hz s, hmid.2⟩
      · intro a ha b hb
        simp only [List.mem_cons] at hb
        rcases hb with rfl | hb
        · intro y hy z hz s
          exact hcross a ha (x :: b) (by simp) y hy z (by simp [hz]) s
        · exact hcross a ha b (by simp [hb])
    rw [run_cons, ih hc' (f x s)]
    simp only [List.flatten_append, List.flatten_cons, run_append, List.cons_append, run_cons]
    have hx : f x (run f pre.flatten s) = run f pre.flatten (f x s) := by
      apply commute_run
      intro y hy s'
      obtain ⟨a, ha, hya⟩ := List.mem_flatten.1 hy
      exact (hcross a ha (x :: r) (by simp) y hya x (by simp) s').symm
    rw [hx]

/-! ### the exclusive index counts the inner iterations in order -/

theorem counterRun_spec : ∀ (dims : List Nat) (c : Nat),
    counterRun dims c = (List.range' c dims.prod, c + dims.prod) := by
  intro dims
  induction dims with
  | nil => intro c; simp [counterRun, List.range']
  | cons n r ih =>
    intro c
    have hrep : ∀ k c, counterRun.rep k r c = (List.range' c (k * r.prod), c + k * r.prod) := by
      intro k
      induction k with
      | zero => intro c; simp [counterRun.rep]
      | succ k ihk =>
        intro c
        simp only [counterRun.rep, ih, ihk]
        refine Prod.ext ?_ ?_
        · simp only
          rw [Nat.succ_mul, Nat.add_comm (k * r.prod), List.range'_append_1]
        · simp only; rw [Nat.succ_mul]; omega
    simp only [counterRun, hrep, List.prod_cons]

end Occa.OklSem
