/-
`device::free()`: `freeResources(); delete modeDevice;` (`deleteDev`).
-/
import OccaProofs.Lemmas.GcDrop

namespace Occa.Gc

/-- `delete modeDevice` after `freeResources()`: `~modeDevice_t` NULLs the wrappers, then the member
    `currentStream` is destroyed -/
def devTail (s : St) (d : Nat) : St :=
  ((dropRefWith (deleteChild .str) (nullWrappers ((s.died d).ring d).length (s.died d) d) (.cur d)).setPtr
    (.cur d) none).setVLive (.cur d) false

theorem deleteDev_unfold {s : St} {d : Nat} (ha : s.alive d = true) :
    deleteDev s d =
      let s1 := freeRing .ker (s.chGet .ker d).length s d
      let s2 := freeRing .buf (s1.chGet .buf d).length s1 d
      let s3 := freeRing .str (s2.chGet .str d).length s2 d
      devTail s3 d := by
  unfold deleteDev devTail
  simp only [St.touch_alive ha]

theorem devTail_inv {ex : Var → Prop} {s : St} {d : Nat} (hi : InvX ex s) (ha : s.alive d = true)
    (hk : s.kind d = .dev) (hempty : ∀ k, s.chGet k d = []) (hexc : ∀ d', ¬ ex (Var.cur d')) :
    InvX ex (devTail s d) ∧ DelOut s (devTail s d) d := by
  unfold devTail
  rw [kill1_eq ha (hi.ring_nodup d)]
  have hkd : s.kind d ≠ .buf ∧ s.kind d ≠ .pool := by rw [hk]; exact ⟨by decide, by decide⟩
  have hkil : Killed s [d] (killForm s d) := killForm_killed
  have hcl : Closed s [d] := by
    refine ⟨⟨by simp, by simpa using ha, ?_, ?_, ?_, ?_⟩, ?_⟩
    · intro b hb m hm
      have : b = d := by simpa using hb
      subst this
      rw [hi.kids_nil hkd] at hm; simp at hm
    · intro p hp i hin
      have : p = d := by simpa using hp
      subst this
      have := (hi.inner_ok p i ha hin).1
      rw [hk] at this; cases this
    · intro d' hd' k c hc
      have : d' = d := by simpa using hd'
      subst this
      rw [hempty k] at hc; simp at hc
    · intro p i hpa hin hiK
      have : i = d := by simpa using hiK
      subst this
      have := (hi.inner_ok p i hpa hin).2.2.1
      rw [hk] at this; cases this
    · intro b' _ _ _ hne
      obtain ⟨m, hm⟩ := List.exists_mem_of_ne_nil _ hne
      refine ⟨m, hm, ?_⟩
      intro hmd
      have : m = d := by simpa using hmd
      subst this
      have := (hi.kids_ok b' m hm).2.1
      rw [hk] at this; cases this
  have hpur : Purged (killForm s d) [d] := by
    constructor
    · intro b x hx hxd
      have : x = d := by simpa using hxd
      subst this
      have := (hi.kids_ok b x hx).2.1
      rw [hk] at this; cases this
    · intro k' d' x hx hxd
      have : x = d := by simpa using hxd
      subst this
      rw [killForm_chGet] at hx
      exact (hi.ch_ok k' d' x hx).2.2.2.1 hk
  have hemp : Emptied (killForm s d) [d] := by
    intro b hb
    have : b = d := by simpa using hb
    subst this
    exact ⟨hi.kids_nil hkd, fun k => by rw [killForm_chGet]; exact hempty k⟩
  have hi5 : InvX ex (killForm s d) := hi.killed hkil hcl hpur hemp
  obtain ⟨hi6, hdo⟩ := hi5.drop_ref (v := Var.cur d) (del := deleteChild .str) (hexc d) (by
    intro o hp hi1
    have hpo := hi5.ptr_ok (Var.cur d) o hp (hexc d)
    obtain ⟨h1, h2⟩ := InvX.del_child (k := .str) hi1 hpo.1 hpo.2.1 (Or.inr rfl)
    refine ⟨h1, DelOut.of_killed h2 (by simp) ?_ ?_⟩
    · intro x hx; left; simpa using hx
    · intro x hx; left; simpa using hx)
  generalize hs6 : (dropRefWith (deleteChild Kind.str) (killForm s d) (Var.cur d)).setPtr (Var.cur d) none = s6 at *
  have hi7 := hi6.kill_var hdo.ptr false (by intro h; cases h)
  refine ⟨hi7, ?_⟩
  have h5dead : (killForm s d).alive d = false := by simp [killForm]
  refine ⟨?_, ?_, ?_, ?_, ?_, ?_, ?_, ?_, ?_⟩
  · show s6.alive d = false
    cases h : s6.alive d
    · rfl
    · have := hdo.alive_sub d h
      rw [h5dead] at this; cases this
  · intro t hta htk htd
    show s6.alive t = true
    apply hdo.devs t (by simp [killForm, upd_apply, htd, hta]) (by show s.kind t = .dev; rw [htk, hk])
    intro hp
    have := (hi5.ptr_ok (Var.cur d) t hp (hexc d)).2.1
    have e : (killForm s d).kind t = s.kind t := rfl
    rw [e, htk, hk] at this
    cases this
  · intro w hw
    show upd s6.vlive (Var.cur d) false w = s.vlive w
    have hs7d : s6.alive d = false := by
      cases h : s6.alive d
      · rfl
      · have := hdo.alive_sub d h
        rw [h5dead] at this; cases this
    have hwd : w ≠ Var.cur d := by
      intro h
      have : s6.alive d = true := hw d h
      rw [hs7d] at this; cases this
    rw [upd_other _ _ hwd]
    exact hdo.vlive w hw
  · exact hdo.kind
  · exact hdo.next
  · intro w hw
    by_cases hwc : w = Var.cur d
    · right; rw [hwc]; exact hdo.ptr
    · have hw5 : ∀ x, w ∉ (killForm s d).ring x := by
        intro x hx
        by_cases hxd : x = d
        · subst hxd; simp [killForm] at hx
        · exact hw x (by simpa [killForm, upd_apply, hxd] using hx)
      have e5 : (killForm s d).ptr w = s.ptr w := by
        have : w ∉ s.ring d := hw d
        simp [killForm, this]
      have e7 : (s6.setVLive (Var.cur d) false).ptr w = s6.ptr w := rfl
      rw [e7, ← e5]
      exact hdo.ptr_out w hwc hw5
  · intro t ht
    have h1 : s6.alive t = true := ht
    have := hdo.alive_sub t h1
    by_cases htd : t = d
    · rw [htd, h5dead] at this; cases this
    · simpa [killForm, upd_apply, htd] using this
  · intro t hta htk htd
    show s6.alive t = true
    apply hdo.devs t (by simp [killForm, upd_apply, htd, hta]) htk
    intro hp
    have := (hi5.ptr_ok (Var.cur d) t hp (hexc d)).2.1
    have e : (killForm s d).kind t = s.kind t := rfl
    rw [e, htk] at this
    cases this
  · intro w hw
    have hpw := hi.ring_ptr w d hw
    have hwc : w ≠ Var.cur d := by
      intro h
      by_cases hex : ex w
      · exact hi.ex_out w hex d hw
      · have := (hi.ptr_ok w d hpw hex).2.1
        rw [hk, h] at this
        cases this
    have hw5 : ∀ x, w ∉ (killForm s d).ring x := by
      intro x hx
      by_cases hxd : x = d
      · subst hxd; simp [killForm] at hx
      · have hx' : w ∈ s.ring x := by simpa [killForm, upd_apply, hxd] using hx
        have := hi.ring_ptr w x hx'
        rw [hpw] at this
        cases this
        exact hxd rfl
    have e5 : (killForm s d).ptr w = none := by simp [killForm, hw]
    have e7 : (s6.setVLive (Var.cur d) false).ptr w = s6.ptr w := rfl
    rw [e7]
    rcases hdo.ptr_out w hwc hw5 with h | h
    · rw [h, e5]
    · exact h

end Occa.Gc
