/-
The driver's dependency-chain model (`exactDEnv`, plain hash lanes) and the same model with the
well-formedness of every hash carried along (`exactDEnvW`) run in lock step: every build has the
same outcome.  This transfers the theorems proved for `exactDEnvW` to the instance the driver
runs and the correspondence compares with the real code.
-/
import OccaModel.DepHashExact
import OccaProofs.Lemmas.DepHash
import OccaProofs.Lemmas.HashExact

namespace Occa.DepHash
open Occa Occa.Hash Occa.CacheKey Occa.CacheKeyBase

set_option linter.unusedSectionVars false

variable {β : Type}

/-- the exact model with well-formed hashes, the directory naming of io::hashDir and the
    driver's include scanner -/
def exactDEnvW (openmp : Bool) (dev : WLanes) (depth : Nat) : DEnv WLanes String String :=
  { exactEnvW openmp dev with dir := fun K => shortStr K.1, incl := scanIncludes, depth := depth }

def projDeps (d : List (String × WLanes)) : List (String × Lanes) := d.map fun ph => (ph.1, ph.2.1)

def projEntry (e : Entry WLanes β) : Entry Lanes β := { deps := projDeps e.deps, bin := e.bin }

def projCache (c : Cache WLanes String β) : Cache Lanes String β := c.map fun de => (de.1, projEntry de.2)

def projRes : Res WLanes → Res Lanes
  | .found k => .found k.1
  | .cycle k => .cycle k.1
  | .outOfFuel => .outOfFuel

theorem lookup_projCache (d : String) :
    ∀ (c : Cache WLanes String β), (projCache c).lookup d = (c.lookup d).map projEntry
  | [] => rfl
  | (k, e) :: t => by
    show List.lookup d ((k, projEntry e) :: projCache t) = _
    rw [lookup_cons_eq', lookup_cons_eq', lookup_projCache d t]
    by_cases h : d = k
    · rw [if_pos h, if_pos h]; rfl
    · rw [if_neg h, if_neg h]

theorem scan_proj (openmp : Bool) (dev : WLanes) (depth : Nat) (fs : FS) :
    ∀ (d : List (String × WLanes)),
      scanDeps (exactDEnv openmp dev.1 depth) fs (projDeps d) =
        (projDeps (scanDeps (exactDEnvW openmp dev depth) fs d).1, (scanDeps (exactDEnvW openmp dev depth) fs d).2)
  | [] => rfl
  | (p, h) :: t => by
    have ih := scan_proj openmp dev depth fs t
    show scanDeps (exactDEnv openmp dev.1 depth) fs ((p, h.1) :: projDeps t) = _
    unfold scanDeps
    rw [ih]
    cases hfs : fs p with
    | none => rfl
    | some txt =>
      simp only []
      have hd : decide ((exactDEnv openmp dev.1 depth).H ((exactDEnv openmp dev.1 depth).raw txt) ≠ h.1) =
          decide ((exactDEnvW openmp dev depth).H ((exactDEnvW openmp dev depth).raw txt) ≠ h) := by
        apply decide_eq_decide.mpr
        constructor
        · intro hne e
          exact hne (congrArg Subtype.val e)
        · intro hne e
          exact hne (Subtype.ext e)
      rw [hd]
      rfl

theorem mkMap_map {α γ : Type} (f : α → γ) :
    ∀ (l : List (String × α)), mkMap (l.map fun kv => (kv.1, f kv.2)) = (mkMap l).map fun kv => (kv.1, f kv.2) := by
  have hins : ∀ (k : String) (v : α) (m : List (String × α)),
      insertKV k (f v) (m.map fun kv => (kv.1, f kv.2)) = (insertKV k v m).map fun kv => (kv.1, f kv.2) := by
    intro k v m
    induction m with
    | nil => rfl
    | cons a t ih =>
      obtain ⟨k', v'⟩ := a
      simp only [List.map_cons]
      unfold insertKV
      by_cases h1 : k < k'
      · rw [if_pos h1, if_pos h1]; rfl
      · rw [if_neg h1, if_neg h1]
        by_cases h2 : k = k'
        · rw [if_pos h2, if_pos h2]; rfl
        · rw [if_neg h2, if_neg h2, List.map_cons, ih]
  intro l
  induction l with
  | nil => rfl
  | cons a t ih =>
    obtain ⟨k, v⟩ := a
    show insertKV k (f v) (mkMap (t.map fun kv => (kv.1, f kv.2))) = (insertKV k v (mkMap t)).map _
    rw [ih, hins]

theorem nextKey_proj (openmp : Bool) (dev : WLanes) (depth : Nat) (K : WLanes) (cur : List (String × WLanes)) :
    (nextKey (exactDEnvW openmp dev depth) K cur).1 = nextKey (exactDEnv openmp dev.1 depth) K.1 (projDeps cur) := by
  unfold nextKey projDeps
  rw [List.map_map]
  rfl

theorem resolve_proj (openmp : Bool) (dev : WLanes) (depth : Nat) (fs : FS) (c : Cache WLanes String β) :
    ∀ (n : Nat) (vis : List String) (K : WLanes),
      resolve (exactDEnv openmp dev.1 depth) fs (projCache c) n vis K.1 =
        projRes (resolve (exactDEnvW openmp dev depth) fs c n vis K) := by
  intro n
  induction n with
  | zero => intro vis K; rfl
  | succ n ih =>
    intro vis K
    rw [resolve_succ, resolve_succ]
    have hdir : (exactDEnv openmp dev.1 depth).dir K.1 = (exactDEnvW openmp dev depth).dir K := rfl
    rw [hdir, lookup_projCache]
    cases hl : List.lookup ((exactDEnvW openmp dev depth).dir K) c with
    | none => rfl
    | some ent =>
      simp only [Option.map_some]
      have hs := scan_proj openmp dev depth fs ent.deps
      have hdeps : (projEntry ent).deps = projDeps ent.deps := rfl
      rw [hdeps, hs]
      simp only []
      by_cases h1 : (scanDeps (exactDEnvW openmp dev depth) fs ent.deps).2 = false
      · rw [if_pos h1, if_pos h1]; rfl
      · rw [if_neg h1, if_neg h1]
        by_cases h2 : (exactDEnvW openmp dev depth).dir K ∈ vis
        · rw [if_pos h2, if_pos h2]; rfl
        · rw [if_neg h2, if_neg h2, ← nextKey_proj]
          exact ih _ _

theorem depsOf_proj (openmp : Bool) (dev : WLanes) (depth : Nat) (x : List (String × String)) :
    depsOf (exactDEnv openmp dev.1 depth) x = projDeps (depsOf (exactDEnvW openmp dev depth) x) := by
  unfold depsOf projDeps
  rw [← mkMap_map, List.map_map]
  rfl

/-- one build: same outcome, caches stay related -/
theorem build_proj (openmp : Bool) (dev : WLanes) (depth : Nat)
    (compile : String × List (Option J) → List (String × String) → β) (fs : FS)
    (c : Cache WLanes String β) (cfg : Config) :
    (build (exactDEnv openmp dev.1 depth) compile fs (projCache c) cfg).1 =
        projCache (build (exactDEnvW openmp dev depth) compile fs c cfg).1 ∧
    (build (exactDEnv openmp dev.1 depth) compile fs (projCache c) cfg).2.1 =
        (build (exactDEnvW openmp dev depth) compile fs c cfg).2.1 := by
  have hlen : (projCache c).length = c.length := by simp [projCache]
  have hbase : baseKey (exactDEnv openmp dev.1 depth).toEnv cfg =
      (baseKey (exactDEnvW openmp dev depth).toEnv cfg).1 := (exactEnvW_baseKey openmp dev cfg).symm
  have hres : resolve (exactDEnv openmp dev.1 depth) fs (projCache c) ((projCache c).length + 1) []
        (baseKey (exactDEnv openmp dev.1 depth).toEnv cfg) =
      projRes (resolve (exactDEnvW openmp dev depth) fs c (c.length + 1) []
        (baseKey (exactDEnvW openmp dev depth).toEnv cfg)) := by
    rw [hlen, hbase]
    exact resolve_proj openmp dev depth fs c (c.length + 1) [] _
  cases hW : resolve (exactDEnvW openmp dev depth) fs c (c.length + 1) [] (baseKey (exactDEnvW openmp dev depth).toEnv cfg) with
  | outOfFuel =>
    rw [hW] at hres
    unfold build
    rw [hres, hW]
    exact ⟨rfl, rfl⟩
  | cycle K =>
    rw [hW] at hres
    unfold build
    rw [hres, hW]
    exact ⟨rfl, rfl⟩
  | found K =>
    rw [hW] at hres
    have hlk := lookup_projCache (β := β) ((exactDEnvW openmp dev depth).dir K) c
    cases hl : List.lookup ((exactDEnvW openmp dev depth).dir K) c with
    | some ent =>
      rw [hl] at hlk
      rw [build_hit _ compile fs c cfg hW hl, build_hit _ compile fs (projCache c) cfg hres hlk]
      exact ⟨rfl, rfl⟩
    | none =>
      rw [hl] at hlk
      cases hx : expand scanIncludes fs depth (scanIncludes cfg.src) with
      | none =>
        rw [build_parseError _ compile fs c cfg hW hl hx, build_parseError _ compile fs (projCache c) cfg hres hlk hx]
        exact ⟨rfl, rfl⟩
      | some x =>
        rw [build_miss _ compile fs c cfg hW hl hx, build_miss _ compile fs (projCache c) cfg hres hlk hx]
        refine ⟨?_, rfl⟩
        show _ = (_, projEntry _) :: projCache c
        rw [depsOf_proj]
        rfl

def projState (s : State WLanes String β) : State Lanes String β := { fs := s.fs, cache := projCache s.cache }

theorem step_proj (openmp : Bool) (dev : WLanes) (depth : Nat)
    (compile : String × List (Option J) → List (String × String) → β) (s : State WLanes String β) (op : Op) :
    (step (exactDEnv openmp dev.1 depth) compile (projState s) op).1 =
      projState (step (exactDEnvW openmp dev depth) compile s op).1 := by
  cases op with
  | write p t => rfl
  | remove p => rfl
  | build cfg =>
    have h := (build_proj openmp dev depth compile s.fs s.cache cfg).1
    show ({ fs := s.fs, cache := (build (exactDEnv openmp dev.1 depth) compile s.fs (projCache s.cache) cfg).1 } :
        State Lanes String β) =
      { fs := s.fs, cache := projCache (build (exactDEnvW openmp dev depth) compile s.fs s.cache cfg).1 }
    rw [h]

theorem run_proj (openmp : Bool) (dev : WLanes) (depth : Nat)
    (compile : String × List (Option J) → List (String × String) → β) :
    ∀ (ops : List Op) (s : State WLanes String β),
      run (exactDEnv openmp dev.1 depth) compile (projState s) ops =
        projState (run (exactDEnvW openmp dev depth) compile s ops)
  | [], _ => rfl
  | op :: ops, s => by
    show run _ compile (step _ compile (projState s) op).1 ops = _
    rw [step_proj, run_proj openmp dev depth compile ops]
    rfl

/-- after any history from an empty cache, the driver's model and the well-formed model have the
    same files and give the next build the same outcome -/
theorem exact_outcome_eq (openmp : Bool) (dev : WLanes) (depth : Nat)
    (compile : String × List (Option J) → List (String × String) → β) (fs0 : FS) (ops : List Op) (cfg : Config) :
    (run (exactDEnv openmp dev.1 depth) compile { fs := fs0, cache := [] } ops).fs =
      (run (exactDEnvW openmp dev depth) compile { fs := fs0, cache := [] } ops).fs ∧
    (build (exactDEnv openmp dev.1 depth) compile
        (run (exactDEnv openmp dev.1 depth) compile { fs := fs0, cache := [] } ops).fs
        (run (exactDEnv openmp dev.1 depth) compile { fs := fs0, cache := [] } ops).cache cfg).2.1 =
    (build (exactDEnvW openmp dev depth) compile
        (run (exactDEnvW openmp dev depth) compile { fs := fs0, cache := [] } ops).fs
        (run (exactDEnvW openmp dev depth) compile { fs := fs0, cache := [] } ops).cache cfg).2.1 := by
  have h := run_proj openmp dev depth compile ops ({ fs := fs0, cache := [] } : State WLanes String β)
  have h0 : projState ({ fs := fs0, cache := [] } : State WLanes String β) = { fs := fs0, cache := [] } := rfl
  rw [h0] at h
  rw [h]
  exact ⟨rfl, (build_proj openmp dev depth compile _ _ cfg).2⟩

end Occa.DepHash
